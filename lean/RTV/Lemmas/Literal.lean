import RTV.Lemmas.Num
/-! Digit literals as data (`Literal`: sign, digit groups, optional fraction digits) with their text under a pair of
marks and their exact value `numer / 10^scale`; the facts that discharge the hypotheses of `digitalValue_general`
for them. -/
namespace RTV.Num
open RTV.Py RTV.Dec

/-- plain | grouped | decimal | groupedDecimal -/
inductive Shape
  | plain | grouped | decimal | groupedDecimal
deriving DecidableEq, Repr

/-- A number written in digits: optional sign, the integer part as groups of digit values (one group = no
grouping), optional fraction digits. -/
structure Literal where
  neg : Bool
  groups : List (List Nat)
  frac : Option (List Nat)
deriving Repr

namespace Literal

def shape (l : Literal) : Shape :=
  match decide (l.groups.length ≤ 1), l.frac with
  | true, none => .plain
  | false, none => .grouped
  | true, some _ => .decimal
  | false, some _ => .groupedDecimal

/-- the integer part: groups joined by the grouping mark `g` -/
def joinGroups (g : Nat) : List (List Nat) → Str
  | [] => []
  | [a] => digitChars a
  | a :: rest => digitChars a ++ g :: joinGroups g rest

def fracDigits (l : Literal) : List Nat := l.frac.getD []

/-- the text of the literal written with grouping mark `g` and decimal mark `d` -/
def text (g d : Nat) (l : Literal) : Str :=
  (if l.neg then [45] else []) ++ joinGroups g l.groups ++
    (if l.frac.isSome then d :: digitChars l.fracDigits else [])

/-- the exact value is `(-1)^neg * numer / 10^scale` -/
def numer (l : Literal) : Nat := natOfDigitsFrom (natOfDigits l.groups.flatten) l.fracDigits
def scale (l : Literal) : Nat := l.fracDigits.length

/-- digits are digits, there is at least one group, no group is empty -/
structure WellFormed (l : Literal) : Prop where
  digits : ∀ grp ∈ l.groups, ∀ d ∈ grp, d < 10
  fdigits : ∀ d ∈ l.fracDigits, d < 10
  nonempty : l.groups ≠ []

/-- standard grouping: first group of 1..3 digits not starting with 0, then groups of exactly three -/
def Grouped3 (l : Literal) : Prop :=
  match l.groups with
  | [] => False
  | a :: rest => 1 ≤ a.length ∧ a.length ≤ 3 ∧ a.head? ≠ some 0 ∧ ∀ grp ∈ rest, grp.length = 3

end Literal

theorem charDigits_digitChars (ds : List Nat) (hd : ∀ d ∈ ds, d < 10) (r : Str) :
    charDigits (digitChars ds ++ r) = ds ++ charDigits r := by
  induction ds with
  | nil => simp [digitChars]
  | cons d t ih =>
    simp only [digitChars, List.map_cons, List.cons_append]
    rw [charDigits_digit d _ (hd d (by simp))]
    have := ih (fun x hx => hd x (by simp [hx]))
    simp only [digitChars] at this
    rw [this]

theorem charDigits_nil : charDigits [] = [] := rfl

theorem charDigits_joinGroups (g : Nat) (hg : g < 48) (gs : List (List Nat)) (hd : ∀ grp ∈ gs, ∀ d ∈ grp, d < 10) :
    charDigits (Literal.joinGroups g gs) = gs.flatten := by
  induction gs with
  | nil => rfl
  | cons a rest ih =>
    cases rest with
    | nil =>
      simp only [Literal.joinGroups, List.flatten_cons, List.flatten_nil, List.append_nil]
      have := charDigits_digitChars a (hd a (by simp)) []
      simpa [charDigits_nil] using this
    | cons b rest' =>
      simp only [Literal.joinGroups, List.flatten_cons]
      rw [charDigits_digitChars a (hd a (by simp)), charDigits_low g _ hg]
      have := ih (fun grp hgrp => hd grp (by simp [hgrp]))
      simp only [Literal.joinGroups, List.flatten_cons] at this
      rw [this]

/-- every character of the integer part is a digit or the grouping mark -/
theorem joinGroups_chars (g : Nat) (gs : List (List Nat)) (hd : ∀ grp ∈ gs, ∀ d ∈ grp, d < 10) :
    ∀ c ∈ Literal.joinGroups g gs, (∃ d, d < 10 ∧ c = d + 48) ∨ c = g := by
  induction gs with
  | nil => intro c hc; simp [Literal.joinGroups] at hc
  | cons a rest ih =>
    intro c hc
    have hdig : ∀ c ∈ digitChars a, ∃ d, d < 10 ∧ c = d + 48 := by
      intro c hc
      simp only [digitChars, List.mem_map] at hc
      obtain ⟨d, hd1, hd2⟩ := hc
      exact ⟨d, hd a (by simp) d hd1, hd2.symm⟩
    cases rest with
    | nil =>
      simp only [Literal.joinGroups] at hc
      exact Or.inl (hdig c hc)
    | cons b rest' =>
      simp only [Literal.joinGroups, List.mem_append, List.mem_cons] at hc
      rcases hc with h | h | h
      · exact Or.inl (hdig c h)
      · exact Or.inr h
      · exact ih (fun grp hgrp => hd grp (by simp [hgrp])) c (by simpa [Literal.joinGroups] using h)

/-- when the multi-decimal rule is not in force, position does not matter: digits and the mark `non` form an
integer part -/
theorem intpart_uniform (multiDec : Bool) (non : Nat) (hs : Bool) (len lead : Nat) (h : (multiDec && hs) = false)
    (hnon : non < 48) (cs : Str) (hc : ∀ c ∈ cs, (∃ d, d < 10 ∧ c = d + 48) ∨ c = non) :
    ∀ i prev, IntPart multiDec non hs len lead i prev cs := by
  induction cs with
  | nil => intro i prev; trivial
  | cons c r ih =>
    intro i prev
    refine ⟨?_, ih (fun x hx => hc x (by simp [hx])) _ _⟩
    rcases hc c (by simp) with hdg | heq
    · exact Or.inl hdg
    · right
      subst heq
      refine ⟨hnon, ?_⟩
      unfold skipNonDecimal
      simp [h]

theorem contains_joinGroups (g : Nat) (gs : List (List Nat)) (hd : ∀ grp ∈ gs, ∀ d ∈ grp, d < 10) (x : Nat)
    (hx : x < 48) (hxg : x ≠ g) : x ∉ Literal.joinGroups g gs := by
  intro hmem
  rcases joinGroups_chars g gs hd x hmem with ⟨d, _, h⟩ | h
  · omega
  · exact hxg h

theorem contains_digitChars' (ds : List Nat) (hd : ∀ d ∈ ds, d < 10) (x : Nat) (hx : x < 48) : x ∉ digitChars ds := by
  intro h
  simp only [digitChars, List.mem_map] at h
  obtain ⟨d, _, e⟩ := h
  omega

/-- A well-formed literal of at most 15 digits, written with the marks in force `(non', dec')`, whose integer part
is an `IntPart` under those separators: exact value. -/
theorem literal_exact_of_intpart (tab : DigitTab) (ht : tab.Ascii) (c : SepCfg) (l : Literal) (dec' non' : Nat)
    (hs : Bool) (hes : effectiveSeps c (l.text non' dec') = (dec', non', hs))
    (hint : IntPart c.multiDec non' hs (l.text non' dec').length (leadLen (l.text non' dec'))
      (if l.neg then 1 else 0) (if l.neg then 45 else 0) (Literal.joinGroups non' l.groups))
    (hw : l.WellFormed) (hdec : dec' < 48 ∧ dec' ≠ 45 ∧ dec' ≠ 32 ∧ dec' ≠ 47 ∧ dec' ≠ non')
    (hnon : non' < 48 ∧ non' ≠ 45 ∧ non' ≠ 47) (hb : l.numer < 10 ^ 15) :
    ∃ r, digitalValue 15 tab c (l.text non' dec') 1 = .ok r ∧ r.neg = l.neg ∧ r.exp ≤ 0 ∧
      r.coeff * 10 ^ l.scale = l.numer * 10 ^ (-r.exp).toNat := by
  obtain ⟨hd1, hd2, hd3, hd4, hd5⟩ := hdec
  obtain ⟨hn1, hn2, hn3⟩ := hnon
  have hcd := charDigits_joinGroups non' hn1 l.groups hw.digits
  have key := digitalValue_general tab ht c l.neg l.frac.isSome (Literal.joinGroups non' l.groups) l.fracDigits
    dec' non' hs (by simpa [Literal.text] using hes)
    (by
      simp only [List.contains_eq_mem, decide_eq_false_iff_not, List.mem_append]
      intro h
      rcases h with (h | h) | h
      · cases l.neg <;> simp at h
      · exact contains_joinGroups non' l.groups hw.digits 47 (by decide) (by omega) h
      · split at h
        · simp only [List.mem_cons] at h
          rcases h with h | h
          · omega
          · exact contains_digitChars' _ hw.fdigits 47 (by decide) h
        · simp at h)
    (by simpa [Literal.text] using hint)
    ⟨hd1, hd2, hd3, hd5⟩ ⟨hn1, hn2⟩ hw.fdigits
    (by
      intro h
      unfold Literal.fracDigits
      cases hf : l.frac with
      | none => rfl
      | some f => rw [hf] at h; simp at h)
    (by rw [hcd]; exact hb)
  obtain ⟨r, h1, h2, h3, h4⟩ := key
  refine ⟨r, by simpa [Literal.text] using h1, h2, h3, ?_⟩
  rw [hcd] at h4
  exact h4

theorem literal_exact_of_uniform (tab : DigitTab) (ht : tab.Ascii) (c : SepCfg) (l : Literal) (dec' non' : Nat)
    (hs : Bool) (hes : effectiveSeps c (l.text non' dec') = (dec', non', hs)) (hu : (c.multiDec && hs) = false)
    (hw : l.WellFormed) (hdec : dec' < 48 ∧ dec' ≠ 45 ∧ dec' ≠ 32 ∧ dec' ≠ 47 ∧ dec' ≠ non')
    (hnon : non' < 48 ∧ non' ≠ 45 ∧ non' ≠ 47) (hb : l.numer < 10 ^ 15) :
    ∃ r, digitalValue 15 tab c (l.text non' dec') 1 = .ok r ∧ r.neg = l.neg ∧ r.exp ≤ 0 ∧
      r.coeff * 10 ^ l.scale = l.numer * 10 ^ (-r.exp).toNat :=
  literal_exact_of_intpart tab ht c l dec' non' hs hes
    (intpart_uniform c.multiDec non' hs _ _ hu hnon.1 _ (joinGroups_chars non' l.groups hw.digits) _ _) hw hdec hnon hb

/-- configurations without the multi-decimal rule (pt-br, de-de, it-it, nl-nl, zh-cn, ja-jp in the tree) -/
theorem literal_exact_simple (tab : DigitTab) (ht : tab.Ascii) (c : SepCfg) (hm : c.multiDec = false) (l : Literal)
    (hw : l.WellFormed)
    (hdec : c.decSep < 48 ∧ c.decSep ≠ 45 ∧ c.decSep ≠ 32 ∧ c.decSep ≠ 47 ∧ c.decSep ≠ c.nonDecSep)
    (hnon : c.nonDecSep < 48 ∧ c.nonDecSep ≠ 45 ∧ c.nonDecSep ≠ 47) (hb : l.numer < 10 ^ 15) :
    ∃ r, digitalValue 15 tab c (l.text c.nonDecSep c.decSep) 1 = .ok r ∧ r.neg = l.neg ∧ r.exp ≤ 0 ∧
      r.coeff * 10 ^ l.scale = l.numer * 10 ^ (-r.exp).toNat :=
  literal_exact_of_uniform tab ht c l c.decSep c.nonDecSep false (by simp [effectiveSeps, hm]) (by simp [hm]) hw hdec
    hnon hb

/-! ### the separator scan of the multi-decimal-separator cultures on a literal -/

theorem scan_append (dec g : Nat) (A B : Str) :
    ∀ i st, scanSeps dec g (A ++ B) i st = scanSeps dec g B (i + A.length) (scanSeps dec g A i st) := by
  induction A with
  | nil => intro i st; simp [scanSeps]
  | cons c r ih =>
    intro i st
    obtain ⟨ld, ln, fn⟩ := st
    simp only [List.cons_append, scanSeps, List.length_cons]
    have e : i + (r.length + 1) = i + 1 + r.length := by omega
    split
    · rw [ih, e]
    · split
      · rw [ih, e]
      · rw [ih, e]

theorem scan_none (dec g : Nat) (cs : Str) (hc : ∀ c ∈ cs, c ≠ dec ∧ c ≠ g) :
    ∀ i st, scanSeps dec g cs i st = st := by
  induction cs with
  | nil => intro i st; obtain ⟨a, b, c⟩ := st; rfl
  | cons c r ih =>
    intro i st
    obtain ⟨ld, ln, fn⟩ := st
    obtain ⟨h1, h2⟩ := hc c (by simp)
    have e1 : (c == dec) = false := by simp [h1]
    have e2 : (c == g) = false := by simp [h2]
    simp only [scanSeps, e1, e2, Bool.false_eq_true, if_false]
    exact ih (fun x hx => hc x (by simp [hx])) _ _

/-- what the scan knows about the grouping marks after `k` of them, before index `i` -/
def SInv (k i : Nat) (ln fn : Option Nat) : Prop :=
  (k = 0 → ln = none ∧ fn = none) ∧ (k = 1 → ∃ a, ln = some a ∧ fn = some a ∧ a < i) ∧
    (2 ≤ k → ∃ f l, fn = some f ∧ ln = some l ∧ f < l ∧ l < i)

theorem scan_ints (dec g : Nat) (cs : Str) (hc : ∀ c ∈ cs, c ≠ dec) :
    ∀ i ld ln fn k, SInv k i ln fn →
      ∃ ln' fn', scanSeps dec g cs i (ld, ln, fn) = (ld, ln', fn') ∧ SInv (k + cs.count g) (i + cs.length) ln' fn' := by
  induction cs with
  | nil => intro i ld ln fn k h; exact ⟨ln, fn, rfl, by simpa using h⟩
  | cons c r ih =>
    intro i ld ln fn k h
    have e1 : (c == dec) = false := by simp [hc c (by simp)]
    simp only [scanSeps, e1, Bool.false_eq_true, if_false]
    by_cases hg : c = g
    · subst hg
      simp only [BEq.rfl, if_true]
      have hinv : SInv (k + 1) (i + 1) (some i) (if fn.isNone then some i else fn) := by
        obtain ⟨h0, h1, h2⟩ := h
        refine ⟨by omega, ?_, ?_⟩
        · intro hk
          obtain ⟨_, hf⟩ := h0 (by omega)
          subst hf
          exact ⟨i, rfl, by simp, by omega⟩
        · intro hk
          rcases Nat.lt_or_ge k 2 with hk2 | hk2
          · have hk1 : k = 1 := by omega
            obtain ⟨a, hl, hf, ha⟩ := h1 hk1
            subst hf
            exact ⟨a, i, by simp, rfl, ha, by omega⟩
          · obtain ⟨f, l, hf, hl, hfl, hli⟩ := h2 hk2
            subst hf
            exact ⟨f, i, by simp, rfl, by omega, by omega⟩
      obtain ⟨ln', fn', he, hi⟩ := ih (fun x hx => hc x (by simp [hx])) (i + 1) ld _ _ (k + 1) hinv
      refine ⟨ln', fn', he, ?_⟩
      have : k + List.count c (c :: r) = k + 1 + List.count c r := by simp; omega
      rw [this]
      have : i + (c :: r).length = i + 1 + r.length := by simp; omega
      rw [this]
      exact hi
    · have e2 : (c == g) = false := by simp [hg]
      simp only [e2, Bool.false_eq_true, if_false]
      have hinv : SInv k (i + 1) ln fn := by
        obtain ⟨h0, h1, h2⟩ := h
        refine ⟨h0, ?_, ?_⟩
        · intro hk; obtain ⟨a, x, y, z⟩ := h1 hk; exact ⟨a, x, y, by omega⟩
        · intro hk; obtain ⟨f, l, x, y, z, w⟩ := h2 hk; exact ⟨f, l, x, y, z, by omega⟩
      obtain ⟨ln', fn', he, hi⟩ := ih (fun x hx => hc x (by simp [hx])) (i + 1) ld _ _ k hinv
      refine ⟨ln', fn', he, ?_⟩
      have : List.count g (c :: r) = List.count g r := by
        rw [List.count_cons]; simp [hg]
      rw [this]
      have : i + (c :: r).length = i + 1 + r.length := by simp; omega
      rw [this]
      exact hi

theorem count_digitChars (g : Nat) (hg : g < 48) (ds : List Nat) : (digitChars ds).count g = 0 := by
  rw [List.count_eq_zero]
  intro h
  simp only [digitChars, List.mem_map] at h
  obtain ⟨d, _, e⟩ := h
  omega

theorem count_joinGroups (g : Nat) (hg : g < 48) (gs : List (List Nat)) :
    (Literal.joinGroups g gs).count g = gs.length - 1 := by
  induction gs with
  | nil => rfl
  | cons a rest ih =>
    cases rest with
    | nil => simp [Literal.joinGroups, count_digitChars g hg]
    | cons b rest' =>
      simp only [Literal.joinGroups, List.count_append, count_digitChars g hg, List.count_cons_self, Nat.zero_add]
      rw [ih]
      simp only [List.length_cons]
      omega

/-- The separators in force for a literal written with the culture's own marks `(g, d)` in a
multi-decimal-separator configuration: never swapped; "single separator" exactly for one grouping mark and no
fraction. -/
theorem effectiveSeps_literal (c : SepCfg) (hm : c.multiDec = true) (l : Literal) (hw : l.WellFormed) (g d : Nat)
    (hgd : (d, g) = (if c.nonStdVariant then (c.nonDecSep, c.decSep) else (c.decSep, c.nonDecSep)))
    (hd : d < 48 ∧ d ≠ 45 ∧ d ≠ g) (hg : g < 48 ∧ g ≠ 45) :
    effectiveSeps c (l.text g d) = (d, g, decide (l.groups.length = 2) && l.frac.isNone) := by
  obtain ⟨hd1, hd2, hd3⟩ := hd
  obtain ⟨hg1, hg2⟩ := hg
  unfold effectiveSeps
  simp only [hm, if_true, ← hgd]
  -- the scan
  have hsign : ∀ x ∈ (if l.neg then [45] else []), x ≠ d ∧ x ≠ g := by
    intro x hx
    split at hx
    · simp only [List.mem_cons, List.not_mem_nil, or_false] at hx
      subst hx
      exact ⟨fun h => hd2 h.symm, fun h => hg2 h.symm⟩
    · simp at hx
  have hints : ∀ x ∈ Literal.joinGroups g l.groups, x ≠ d := by
    intro x hx h
    subst h
    exact contains_joinGroups g l.groups hw.digits x hd1 hd3 hx
  have hfrac : ∀ x ∈ digitChars l.fracDigits, x ≠ d ∧ x ≠ g := by
    intro x hx
    exact ⟨fun h => contains_digitChars' _ hw.fdigits d hd1 (h ▸ hx),
      fun h => contains_digitChars' _ hw.fdigits g hg1 (h ▸ hx)⟩
  unfold Literal.text
  rw [scan_append, scan_append, scan_none d g _ hsign]
  obtain ⟨ln', fn', he, hinv⟩ := scan_ints d g _ hints (0 + (if l.neg then [45] else []).length) none none none 0
    ⟨fun _ => ⟨rfl, rfl⟩, by omega, by omega⟩
  rw [he]
  rw [count_joinGroups g hg1, Nat.zero_add] at hinv
  have hp : 0 + (if l.neg = true then [45] else []).length + (Literal.joinGroups g l.groups).length =
      0 + ((if l.neg = true then [45] else []) ++ Literal.joinGroups g l.groups).length := by
    simp [Nat.add_assoc]
  rw [hp] at hinv
  generalize 0 + ((if l.neg = true then [45] else []) ++ Literal.joinGroups g l.groups).length = p at *
  obtain ⟨i0, i1, i2⟩ := hinv
  have hlen : 1 ≤ l.groups.length := by
    cases hgs : l.groups with
    | nil => exact absurd hgs hw.nonempty
    | cons a r => simp
  cases hf : l.frac with
  | none =>
    simp only [Option.isSome_none, Bool.false_eq_true, if_false, scanSeps, Option.isNone_none, Bool.and_true]
    rcases Nat.lt_or_ge l.groups.length 2 with h1 | h1
    · obtain ⟨a, b⟩ := i0 (by omega)
      subst a b
      have : ¬ l.groups.length = 2 := by omega
      simp [this]
    · rcases Nat.lt_or_ge l.groups.length 3 with h2 | h2
      · obtain ⟨a, x, y, _⟩ := i1 (by omega)
        subst x y
        have : l.groups.length = 2 := by omega
        simp [this]
      · obtain ⟨f, q, x, y, z, _⟩ := i2 (by omega)
        subst x y
        have : ¬ l.groups.length = 2 := by omega
        have hfq : (some f == some q) = false := by simp; omega
        simp [this, hfq]
  | some fr =>
    simp only [Option.isSome_some, if_true, Option.isNone_some, Bool.and_false]
    have : scanSeps d g (d :: digitChars l.fracDigits) p (none, ln', fn') = (some p, ln', fn') := by
      simp only [scanSeps, BEq.rfl, if_true]
      exact scan_none d g _ hfrac _ _
    rw [this]
    rcases Nat.lt_or_ge l.groups.length 2 with h1 | h1
    · obtain ⟨a, b⟩ := i0 (by omega)
      subst a b
      simp
    · rcases Nat.lt_or_ge l.groups.length 3 with h2 | h2
      · obtain ⟨a, x, y, hap⟩ := i1 (by omega)
        subst x y
        have : ¬ p < a := by omega
        simp [this]
      · obtain ⟨f, q, x, y, z, hqp⟩ := i2 (by omega)
        subst x y
        have : ¬ p < q := by omega
        simp [this]

/-! ### one grouping mark, no fraction, multi-decimal rule in force -/

theorem intpart_digits_append (multiDec : Bool) (non : Nat) (hs : Bool) (len lead : Nat) (a : List Nat)
    (hd : ∀ d ∈ a, d < 10) (B : Str) :
    ∀ i prev, (∀ prev', (∀ x, a.getLast? = some x → prev' = x + 48) → (a = [] → prev' = prev) →
        IntPart multiDec non hs len lead (i + a.length) prev' B) →
      IntPart multiDec non hs len lead i prev (digitChars a ++ B) := by
  induction a with
  | nil => intro i prev h; simpa [digitChars] using h prev (by simp) (fun _ => rfl)
  | cons d t ih =>
    intro i prev h
    simp only [digitChars, List.map_cons, List.cons_append]
    refine ⟨Or.inl ⟨d, hd d (by simp), rfl⟩, ?_⟩
    apply ih (fun x hx => hd x (by simp [hx])) (i + 1) (d + 48)
    intro prev' h1 h2
    have e : i + 1 + t.length = i + (d :: t).length := by simp; omega
    rw [e]
    apply h prev'
    · intro x hx
      cases t with
      | nil => simp at hx; subst hx; exact h2 rfl
      | cons y ys => exact h1 x (by simpa [List.getLast?_cons_cons] using hx)
    · intro hnil; cases hnil

theorem leadLen_digit (d : Nat) (r : Str) (h : d < 10) : leadLen ((d + 48) :: r) = 0 := by
  have e1 : (d + 48 == 45) = false := by simp
  have e2 : (d + 48 == 32) = false := by simp
  simp [leadLen, e1, e2]

/-- `1,234`-like literals where the positional rule applies: the mark sits four characters before the end, at
most three digits after the start, and the single digit before it (if single) is not `0`. -/
theorem literal_exact_single (tab : DigitTab) (ht : tab.Ascii) (c : SepCfg) (hm : c.multiDec = true) (l : Literal)
    (hw : l.WellFormed) (a b : List Nat) (hgr : l.groups = [a, b]) (hfr : l.frac = none)
    (ha : 1 ≤ a.length ∧ a.length ≤ 3 ∧ a.head? ≠ some 0) (hbl : b.length = 3) (g d : Nat)
    (hgd : (d, g) = (if c.nonStdVariant then (c.nonDecSep, c.decSep) else (c.decSep, c.nonDecSep)))
    (hdec : d < 48 ∧ d ≠ 45 ∧ d ≠ 32 ∧ d ≠ 47 ∧ d ≠ g) (hnon : g < 48 ∧ g ≠ 45 ∧ g ≠ 47)
    (hb : l.numer < 10 ^ 15) :
    ∃ r, digitalValue 15 tab c (l.text g d) 1 = .ok r ∧ r.neg = l.neg ∧ r.exp ≤ 0 ∧
      r.coeff * 10 ^ l.scale = l.numer * 10 ^ (-r.exp).toNat := by
  have hes := effectiveSeps_literal c hm l hw g d hgd ⟨hdec.1, hdec.2.1, hdec.2.2.2.2⟩ ⟨hnon.1, hnon.2.1⟩
  have hsingle : (decide (l.groups.length = 2) && l.frac.isNone) = true := by simp [hgr, hfr]
  rw [hsingle] at hes
  refine literal_exact_of_intpart tab ht c l d g true hes ?_ hw hdec hnon hb
  have hda : ∀ x ∈ a, x < 10 := hw.digits a (by simp [hgr])
  have hdb : ∀ x ∈ b, x < 10 := hw.digits b (by simp [hgr])
  obtain ⟨a0, at', hae⟩ : ∃ a0 at', a = a0 :: at' := by
    cases a with
    | nil => simp at ha
    | cons x xs => exact ⟨x, xs, rfl⟩
  have htext : l.text g d = (if l.neg then [45] else []) ++ (digitChars a ++ g :: digitChars b) := by
    simp [Literal.text, hgr, hfr, Literal.joinGroups]
  have hlen : (l.text g d).length = (if l.neg then 1 else 0) + a.length + 4 := by
    rw [htext]; cases l.neg <;> simp [digitChars, hbl] <;> omega
  have hlead : leadLen (l.text g d) = (if l.neg then 1 else 0) := by
    rw [htext, hae]
    cases l.neg
    · simp only [Bool.false_eq_true, if_false, List.nil_append, digitChars, List.map_cons, List.cons_append]
      exact leadLen_digit a0 _ (hda a0 (by simp [hae]))
    · simp only [if_true, digitChars, List.map_cons, List.cons_append, List.nil_append]
      rw [leadLen]
      simp only [BEq.rfl, Bool.true_or, if_true]
      rw [leadLen_digit a0 _ (hda a0 (by simp [hae]))]
  rw [hlen, hlead, hm]
  simp only [hgr, Literal.joinGroups]
  generalize (if l.neg then 1 else 0 : Nat) = s0
  generalize (if l.neg then 45 else 0 : Nat) = p0
  apply intpart_digits_append true g true _ _ a hda
  intro prev' h1 _
  refine ⟨Or.inr ⟨hnon.1, ?_⟩, ?_⟩
  · unfold skipNonDecimal
    have e1 : s0 + a.length + 4 - (s0 + a.length) = 4 := by omega
    have e2 : s0 + a.length - s0 = a.length := by omega
    simp only [e1, e2, BEq.rfl, Bool.and_self, if_true, bne_self_eq_false, Bool.false_or]
    have c2 : ¬ (a.length > 3) := by omega
    have c1 : (prev' == 48 && a.length == 1) = false := by
      rcases Nat.lt_or_ge a.length 2 with hl | hl
      · -- a = [a0]
        have hat : at' = [] := by
          subst hae; simp at hl; exact List.length_eq_zero_iff.mp (by omega)
        subst hat; subst hae
        have hp := h1 a0 (by simp)
        have : a0 ≠ 0 := by
          intro h0; apply ha.2.2; simp [h0]
        simp [hp]; omega
      · have : (a.length == 1) = false := by simp; omega
        simp [this]
    simp [c1, c2]
  · have := intpart_digits_append true g true (s0 + a.length + 4) s0 b hdb [] (s0 + a.length + 1) g
      (fun _ _ _ => trivial)
    simpa using this

/-- the marks the parser reads for a configuration: `(grouping, decimal)`; swapped for a non-standard variant of a
multi-decimal-separator culture (es-mx) -/
def parserMarks (c : SepCfg) : Nat × Nat :=
  if c.multiDec && c.nonStdVariant then (c.decSep, c.nonDecSep) else (c.nonDecSep, c.decSep)

/-- **Every literal, every configuration.** A well-formed literal of at most 15 digits written with the
configuration's own marks denotes exactly its value after `_get_digital_value`. For the multi-decimal-separator
cultures a literal with exactly one grouping mark and no fraction must be grouped in the standard way (first group
of 1–3 digits not starting with 0, then three digits) — otherwise the code reads the mark as a decimal mark. -/
theorem literal_exact (tab : DigitTab) (ht : tab.Ascii) (c : SepCfg) (l : Literal) (hw : l.WellFormed)
    (hdec : (parserMarks c).2 < 48 ∧ (parserMarks c).2 ≠ 45 ∧ (parserMarks c).2 ≠ 32 ∧ (parserMarks c).2 ≠ 47 ∧
      (parserMarks c).2 ≠ (parserMarks c).1)
    (hnon : (parserMarks c).1 < 48 ∧ (parserMarks c).1 ≠ 45 ∧ (parserMarks c).1 ≠ 47)
    (hstd : c.multiDec = true → l.groups.length = 2 → l.frac = none → l.Grouped3) (hb : l.numer < 10 ^ 15) :
    ∃ r, digitalValue 15 tab c (l.text (parserMarks c).1 (parserMarks c).2) 1 = .ok r ∧ r.neg = l.neg ∧ r.exp ≤ 0 ∧
      r.coeff * 10 ^ l.scale = l.numer * 10 ^ (-r.exp).toNat := by
  cases hm : c.multiDec with
  | false =>
    have e : parserMarks c = (c.nonDecSep, c.decSep) := by simp [parserMarks, hm]
    rw [e] at hdec hnon ⊢
    exact literal_exact_simple tab ht c hm l hw hdec hnon hb
  | true =>
    have hgd : ((parserMarks c).2, (parserMarks c).1) =
        (if c.nonStdVariant then (c.nonDecSep, c.decSep) else (c.decSep, c.nonDecSep)) := by
      unfold parserMarks
      cases c.nonStdVariant <;> simp [hm]
    by_cases hsingle : l.groups.length = 2 ∧ l.frac = none
    · have hg3 := hstd hm hsingle.1 hsingle.2
      obtain ⟨a, b, hab⟩ : ∃ a b, l.groups = [a, b] := by
        match hgs : l.groups, hsingle.1 with
        | [a, b], _ => exact ⟨a, b, rfl⟩
      unfold Literal.Grouped3 at hg3
      rw [hab] at hg3
      simp only [List.mem_cons, List.not_mem_nil, or_false, forall_eq] at hg3
      exact literal_exact_single tab ht c hm l hw a b hab hsingle.2 ⟨hg3.1, hg3.2.1, hg3.2.2.1⟩ hg3.2.2.2 _ _ hgd hdec
        hnon hb
    · have hes := effectiveSeps_literal c hm l hw _ _ hgd ⟨hdec.1, hdec.2.1, hdec.2.2.2.2⟩ ⟨hnon.1, hnon.2.1⟩
      have hns : (decide (l.groups.length = 2) && l.frac.isNone) = false := by
        by_cases h2 : l.groups.length = 2
        · have : l.frac ≠ none := fun h => hsingle ⟨h2, h⟩
          cases hf : l.frac with
          | none => exact absurd hf this
          | some _ => simp
        · simp [h2]
      rw [hns] at hes
      exact literal_exact_of_uniform tab ht c l _ _ false hes (by simp) hw hdec hnon hb

end RTV.Num
