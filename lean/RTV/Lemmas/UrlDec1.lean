import RTV.Lemmas.Url
/-! Kernel evaluation of the URL grammar family, chunk 1. -/
namespace RTV.Seq
set_option maxRecDepth 100000
theorem url_family1_fast : urlOK fastSeqEnv RTV.Gen.urlFamily1 = true := by decide +kernel
end RTV.Seq
