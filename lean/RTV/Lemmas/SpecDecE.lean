import RTV.Lemmas.SpecRun
/-! Kernel evaluation of the spec cases (C19 through the model), family `hashtag / mention / e-mail`. -/
namespace RTV.Seq
set_option maxRecDepth 100000
theorem spec_hashtag_fast : simpleOK fastSeqEnv RTV.Gen.hashtagRegex (RTV.Py.ofString "hashtag") RTV.Gen.specCases_hashtag = true := by decide +kernel
theorem spec_mention_fast : simpleOK fastSeqEnv RTV.Gen.mentionRegex (RTV.Py.ofString "mention") RTV.Gen.specCases_mention = true := by decide +kernel
theorem spec_email_fast : simpleOK fastSeqEnv RTV.Gen.emailRegex (RTV.Py.ofString "email") RTV.Gen.specCases_email = true := by decide +kernel
end RTV.Seq
