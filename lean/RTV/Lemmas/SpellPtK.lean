import RTV.Lemmas.ThousandEu
import RTV.Lemmas.SpellPt
/-! Portuguese: the side facts of `thousand_lift` for every multiplier / remainder 1..999 (kernel evaluation in chunks of
100; only the few forms that differ from the stand-alone numeral are evaluated through `getIntValue`), and the lift. -/
namespace RTV.Num

def ptKChunk (j : Nat) : Bool :=
  (List.range 100).all fun i =>
    100 * j + i == 0 || (multFact ptBig pt.lang (100 * j + i) && restFact ptBig pt.lang (100 * j + i))

theorem pt_k0 : ptKChunk 0 = true := by decide +kernel
theorem pt_k1 : ptKChunk 1 = true := by decide +kernel
theorem pt_k2 : ptKChunk 2 = true := by decide +kernel
theorem pt_k3 : ptKChunk 3 = true := by decide +kernel
theorem pt_k4 : ptKChunk 4 = true := by decide +kernel
theorem pt_k5 : ptKChunk 5 = true := by decide +kernel
theorem pt_k6 : ptKChunk 6 = true := by decide +kernel
theorem pt_k7 : ptKChunk 7 = true := by decide +kernel
theorem pt_k8 : ptKChunk 8 = true := by decide +kernel
theorem pt_k9 : ptKChunk 9 = true := by decide +kernel

theorem pt_kchunks (j : Nat) (hj : j < 10) : ptKChunk j = true := by
  match j, hj with
  | 0, _ => exact pt_k0
  | 1, _ => exact pt_k1
  | 2, _ => exact pt_k2
  | 3, _ => exact pt_k3
  | 4, _ => exact pt_k4
  | 5, _ => exact pt_k5
  | 6, _ => exact pt_k6
  | 7, _ => exact pt_k7
  | 8, _ => exact pt_k8
  | 9, _ => exact pt_k9
  | j + 10, h => omega

theorem pt_kfacts (n : Nat) (h1 : 1 ≤ n) (h2 : n < 1000) :
    multFact ptBig pt.lang n = true ∧ restFact ptBig pt.lang n = true := by
  have hc := pt_kchunks (n / 100) (by omega)
  simp only [ptKChunk, List.all_eq_true, List.mem_range] at hc
  have := hc (n % 100) (Nat.mod_lt _ (by decide))
  have e : 100 * (n / 100) + n % 100 = n := Nat.div_add_mod n 100
  rw [e] at this
  have hz : (n == 0) = false := by simp; omega
  simpa [hz] using this

theorem pt_thousand_word : lookup pt.lang.round ptBig.thousand = some 1000 := by decide +kernel

theorem pt_lift (n : Nat) (h1 : 1000 ≤ n) (h2 : n < 1000000) :
    getIntValue true asciiDigits pt.lang (spellEuBig ptBig n).2 = .ok n :=
  thousand_lift ptBig pt.lang pt_thousand_word (fun n h => pt_all n h rfl)
    (fun k a b => (pt_kfacts k a b).1) (fun u a b => (pt_kfacts u a b).2) n h1 h2

end RTV.Num
