import RTV.Lemmas.SpecRun
/-! Kernel evaluation of the spec cases (C19 through the model), family `guid`. -/
namespace RTV.Seq
set_option maxRecDepth 100000
theorem spec_guid_fast : guidOK fastSeqEnv RTV.Gen.specCases_guid = true := by decide +kernel
end RTV.Seq
