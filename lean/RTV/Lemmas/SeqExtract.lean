import RTV.Lemmas.Seq
/-!
Extractor-level lemmas for C13 (`RTV.Seq.ipExtract` = `BaseIpExtractor.extract`): when does `finditer` find a given
match (`findAll_of_clear`), and when does the sweep over the `matched` array report a given run (`sweepGo_emits`).
Both are about arbitrary regexes / match lists; `Props/C13Extract.lean` instantiates them with the regenerated
IPv4 / IPv6 patterns.
-/
namespace RTV.Re

variable {T : Tables} {s : Array Nat}

/-- `finditer` reports `(i, j)` when the engine's answer at `i` is `j` and no match attempt that starts before `i`
can end beyond `i`; every other reported span lies entirely before `i` or entirely after `j`. -/
theorem findAllFrom_of_clear {r : RE} {i j : Nat} (hij : i < j) (hjs : j ≤ s.size)
    (hclear : ∀ p e, p < i → e ∈ ends T s r p → e ≤ i) (hf : firstEnd T s r i = some j) :
    ∀ fuel pos, pos ≤ i → i - pos < fuel →
      (i, j) ∈ findAllFrom T s r fuel pos ∧
      ∀ q ∈ findAllFrom T s r fuel pos, q = (i, j) ∨ q.2 ≤ i ∨ j ≤ q.1 := by
  intro fuel
  induction fuel with
  | zero => intro pos _ h; omega
  | succ n ih =>
    intro pos hp hfu
    rw [findAllFrom]
    have hps : ¬ pos > s.size := by omega
    simp only [hps, if_false]
    by_cases he : pos = i
    · subst he
      simp only [hf]
      have hji : ¬ j ≤ pos := by omega
      simp only [hji, if_false]
      refine ⟨by simp, ?_⟩
      intro q hq
      rcases List.mem_cons.1 hq with rfl | hq
      · exact .inl rfl
      · exact .inr (.inr (findAllFrom_sound _ _ q hq).2)
    · have hlt : pos < i := by omega
      cases hfe : firstEnd T s r pos with
      | none =>
        simp only []
        exact ih (pos + 1) (by omega) (by omega)
      | some e =>
        simp only []
        have hei : e ≤ i := hclear pos e hlt (firstEnd_mem hfe)
        have hnext : (if e ≤ pos then pos + 1 else e) ≤ i := by split <;> omega
        have hfuel : i - (if e ≤ pos then pos + 1 else e) < n := by split <;> omega
        have := ih _ hnext hfuel
        refine ⟨List.mem_cons_of_mem _ this.1, ?_⟩
        intro q hq
        rcases List.mem_cons.1 hq with rfl | hq
        · exact .inr (.inl hei)
        · exact this.2 q hq

theorem findAll_of_clear {r : RE} {i j : Nat} (hij : i < j) (hjs : j ≤ s.size)
    (hclear : ∀ p e, p < i → e ∈ ends T s r p → e ≤ i) (hf : firstEnd T s r i = some j) :
    (i, j) ∈ findAll T s r ∧ ∀ q ∈ findAll T s r, q = (i, j) ∨ q.2 ≤ i ∨ j ≤ q.1 :=
  findAllFrom_of_clear hij hjs hclear hf (s.size + 2) 0 (by omega) (by omega)

end RTV.Re

namespace RTV.Seq
open RTV.Py RTV.Re RTV.Match

/-- `substring` of the sweep for the run `[a, i]` -/
def runSub (K : CharClass) (s : Str) (a i : Nat) : Str := strip K.isSpace (sliceI s (a : Int) ((a : Int) + ((i + 1 - a : Nat) : Int)))

/-- the ellipsis guard of `BaseIpExtractor.extract` for the run `[a, i]` (`ip = false`: `SequenceExtractor.extract`) -/
def runSkip (ip : Bool) (K : CharClass) (s : Str) (a i : Nat) : Bool :=
  ip && (
    if startsWith (runSub K s a i) ellipsis && (a > 0 && glued K (s.getD (a - 1) 0) (s.getD (a - 1) 0)) then true
    else if endsWith (runSub K s a i) ellipsis && (i + 1 < s.length &&
        glued K (s.getD (i + 1) 0) ((index s ((a : Int) - 1)).getD 0)) then true
    else false)

/-- The sweep reaches every maximal run `[a, i]` of covered positions and runs its reporting step on it. -/
theorem sweepGo_emits (ip : Bool) (K : CharClass) (s : Str) (ms : List Span) (a i : Nat) (hai : a ≤ i)
    (hin : i < s.length) (hcov : ∀ k, a ≤ k → k ≤ i → covered ms k = true)
    (hl : a = 0 ∨ covered ms (a - 1) = false) (hr : i + 1 = s.length ∨ covered ms (i + 1) = false) :
    ∀ d pos start, pos + d = i → (pos < a ∨ (a ≤ pos ∧ start = a)) →
      ∀ r ∈ emitAt (runSkip ip K s a i) ms a (i + 1 - a) (runSub K s a i),
        r ∈ sweepGo ip K s ms (s.length - pos) pos start := by
  intro d
  induction d with
  | zero =>
    intro pos start hp hinv r hr'
    have hpi : pos = i := by omega
    subst hpi
    have hst : start = a := by omega
    subst hst
    have hn : s.length - pos = (s.length - (pos + 1)) + 1 := by omega
    rw [hn, sweepGo]
    have c1 : covered ms pos = true := hcov pos (by omega) (by omega)
    have c2 : (pos + 1 == s.length || !covered ms (pos + 1)) = true := by
      rcases hr with h | h
      · simp [h]
      · simp [h]
    simp only [c1, Bool.not_true, Bool.false_eq_true, if_false, c2, if_true]
    unfold runSkip runSub at hr'
    exact List.mem_append_left _ hr'
  | succ d ih =>
    intro pos start hp hinv r hr'
    have hn : s.length - pos = (s.length - (pos + 1)) + 1 := by omega
    rw [hn, sweepGo]
    by_cases h1 : pos + 1 < a
    · -- still before the run: whatever this step does, the sweep goes on at `pos + 1`
      split
      · exact ih (pos + 1) _ (by omega) (.inl h1) r hr'
      · split
        · exact List.mem_append_right _ (ih (pos + 1) _ (by omega) (.inl h1) r hr')
        · exact ih (pos + 1) _ (by omega) (.inl h1) r hr'
    · by_cases h2 : pos + 1 = a
      · have c0 : covered ms pos = false := by
          rcases hl with h | h
          · omega
          · have : a - 1 = pos := by omega
            rwa [this] at h
        simp only [c0, Bool.not_false, if_true]
        exact ih (pos + 1) _ (by omega) (.inr ⟨by omega, h2⟩) r hr'
      · have hst : start = a := by omega
        have c1 : covered ms pos = true := hcov pos (by omega) (by omega)
        have c2 : covered ms (pos + 1) = true := hcov (pos + 1) (by omega) (by omega)
        have c3 : (pos + 1 == s.length) = false := by
          have : pos + 1 ≠ s.length := by omega
          simpa using this
        simp only [c1, c2, c3, Bool.not_true, Bool.false_eq_true, if_false, Bool.or_self]
        exact ih (pos + 1) _ (by omega) (.inr ⟨by omega, hst⟩) r hr'

/-- the first match with exactly the span decides the tag -/
theorem srcMatch_of_first {xs ys : List Span} {a len : Nat} {v : String}
    (hx : ∃ b, (a, b, v) ∈ xs ∧ b - a = len) (hall : ∀ p ∈ xs, p.2.2 = v) :
    srcMatch (xs ++ ys) a len = some v := by
  unfold srcMatch
  obtain ⟨b, hm, hb⟩ := hx
  have hsome : (xs.find? fun x => match x with | (a', b', _) => a' == a && b' - a' == len).isSome := by
    rw [List.find?_isSome]
    exact ⟨(a, b, v), hm, by simp [hb]⟩
  rw [List.find?_append]
  cases hf : xs.find? (fun x => match x with | (a', b', _) => a' == a && b' - a' == len) with
  | none => simp [hf] at hsome
  | some m =>
    have := hall m (List.mem_of_find?_eq_some hf)
    obtain ⟨a', b', v'⟩ := m
    simp at this
    simp [this]

theorem srcMatch_skip_left {xs ys : List Span} {a len : Nat}
    (hx : ∀ p ∈ xs, ¬ (p.1 = a ∧ p.2.1 - p.1 = len)) : srcMatch (xs ++ ys) a len = srcMatch ys a len := by
  unfold srcMatch
  rw [List.find?_append]
  have : xs.find? (fun x => match x with | (a', b', _) => a' == a && b' - a' == len) = none := by
    rw [List.find?_eq_none]
    intro p hp
    obtain ⟨a', b', v'⟩ := p
    have := hx _ hp
    simp at this ⊢
    exact this
  rw [this]; simp

theorem srcMatch_append_nil (xs : List Span) (a len : Nat) : srcMatch (xs ++ []) a len = srcMatch xs a len := by simp

theorem covered_iff {ms : List Span} {k : Nat} :
    covered ms k = true ↔ ∃ p ∈ ms, p.1 ≤ k ∧ k < p.2.1 := by
  unfold covered
  simp only [List.any_eq_true]
  constructor
  · rintro ⟨⟨a, b, v⟩, hm, h⟩; simp at h; exact ⟨(a, b, v), hm, h⟩
  · rintro ⟨⟨a, b, v⟩, hm, h⟩; exact ⟨(a, b, v), hm, by simpa using h⟩

theorem mem_tagged {v : String} {l : List (Nat × Nat)} {a b : Nat} (h : (a, b) ∈ l) : (a, b, v) ∈ tagged v l := by
  unfold tagged; simp; exact h

theorem tagged_all (v : String) (l : List (Nat × Nat)) : ∀ p ∈ tagged v l, p.2.2 = v := by
  intro p hp; obtain ⟨a, b, w⟩ := p; exact (tagged_mem hp).2

theorem stripLeft_id' (sp : Nat → Bool) (t : Str) (h : ∀ c ∈ t, sp c = false) : stripLeft sp t = t := by
  cases t with
  | nil => rfl
  | cons c r => simp [stripLeft, h c (by simp)]

theorem strip_id' (sp : Nat → Bool) (t : Str) (h : ∀ c ∈ t, sp c = false) : strip sp t = t := by
  unfold strip
  rw [stripLeft_id' sp t h, stripLeft_id' sp t.reverse (fun c hc => h c (List.mem_reverse.mp hc)), List.reverse_reverse]

/-- `source[a : i + 1]` for a run inside the text is the slice -/
theorem sliceI_run (s : Str) (a i : Nat) (hai : a ≤ i) (hin : i < s.length) :
    sliceI s (a : Int) ((a : Int) + ((i + 1 - a : Nat) : Int)) = RTV.Re.slice s.toArray a (i + 1) := by
  unfold sliceI RTV.Re.slice
  have h1 : ¬ ((a : Int) < 0) := by omega
  have h2 : ¬ ((a : Int) + ((i + 1 - a : Nat) : Int) < 0) := by omega
  simp only [h1, h2, if_false]
  have e1 : (min (a : Int) (s.length : Int)).toNat = a := by omega
  have e2 : (min ((a : Int) + ((i + 1 - a : Nat) : Int)) (s.length : Int)).toNat = i + 1 := by omega
  rw [e1, e2]

end RTV.Seq
