import RTV.Lemmas.Cal
import RTV.Model.DateUtils
/-!
Helper lemmas for C08 / C09 about `RTV.Model.DateUtils` (property theorems live in `RTV/Props/C08.lean`, `C09.lean`).
Each `_spec` lemma turns "the model function returned `some …`" into ordinal arithmetic on the reference.
-/
set_option linter.unusedVariables false
set_option linter.unusedSimpArgs false
namespace RTV.DateUtils
open RTV.Cal RTV.Py

/-! ### `date + timedelta(days=k)` -/

theorem Date.addDays_spec (x : Date) (hv : x.valid = true) (k : Int) (r : Date) (h : x.addDays k = some r) :
    r.valid = true ∧ (r.ord : Int) = x.ord + k ∧ r = Date.ofOrd ((x.ord : Int) + k).toNat := by
  unfold Date.addDays addDaysOrd at h
  simp only at h
  split at h
  · next hr =>
    simp only [Option.map_some, Option.some.injEq] at h
    subst h
    have := ord_ofOrd ((x.ord : Int) + k).toNat (by omega) (by unfold maxOrd at *; omega)
    refine ⟨this.2, ?_, rfl⟩
    rw [this.1]; omega
  · simp at h

theorem Date.addDays_isSome (x : Date) (k : Int) (h1 : 1 ≤ (x.ord : Int) + k) (h2 : (x.ord : Int) + k ≤ maxOrd) :
    x.addDays k = some (Date.ofOrd ((x.ord : Int) + k).toNat) := by
  unfold Date.addDays addDaysOrd
  simp [h1, h2]

theorem Date.addDays_none (x : Date) (k : Int) (h : ¬ (1 ≤ (x.ord : Int) + k ∧ (x.ord : Int) + k ≤ maxOrd)) :
    x.addDays k = none := by
  unfold Date.addDays addDaysOrd
  simp [h]

theorem Date.addDays_zero (x : Date) (hv : x.valid = true) : x.addDays 0 = some x := by
  have r := ord_range x hv
  rw [Date.addDays_isSome x 0 (by omega) (by omega)]
  simp [ofOrd_ord x hv]

theorem addDays_spec (x : DateTime) (hv : x.date.valid = true) (k : Int) (r : DateTime) (h : addDays x k = some r) :
    r.date.valid = true ∧ (r.date.ord : Int) = x.date.ord + k ∧ r.secs = x.secs := by
  unfold addDays at h
  cases hd : x.date.addDays k with
  | none => simp [hd] at h
  | some d =>
    simp only [hd, Option.map_some, Option.some.injEq] at h
    subst h
    have := Date.addDays_spec x.date hv k d hd
    exact ⟨this.1, this.2.1, rfl⟩

theorem addDays_isSome (x : DateTime) (k : Int) (h1 : 1 ≤ (x.date.ord : Int) + k) (h2 : (x.date.ord : Int) + k ≤ maxOrd) :
    ∃ r, addDays x k = some r := by
  unfold addDays
  rw [Date.addDays_isSome x.date k h1 h2]
  exact ⟨_, rfl⟩

/-- a valid date is determined by its ordinal -/
theorem date_eq_of_ord (a b : Date) (ha : a.valid = true) (hb : b.valid = true) (h : (a.ord : Int) = b.ord) : a = b :=
  ord_inj a b ha hb (by omega)

/-! ### the datedelta shim with only a day part, only a year part -/

theorem datedeltaAdd_days (x : Date) (hv : x.valid = true) (k : Int) : datedeltaAdd x 0 0 k = x.addDays k := by
  have hv' := (valid_iff x).1 hv
  unfold datedeltaAdd
  have h1 : (1 : Int) ≤ (x.y : Int) + 0 ∧ (x.y : Int) + 0 ≤ 9999 := by omega
  have e : (⟨((x.y : Int) + 0).toNat, x.m, x.d⟩ : Date) = x := by
    cases x; simp
  simp only [ne_eq, not_true_eq_false, false_and, if_false, h1, and_self, if_true, e, hv]
  split
  · next hk => subst hk; exact (Date.addDays_zero x hv).symm
  · rfl

theorem addDelta_days (x : DateTime) (hv : x.date.valid = true) (k : Int) : addDelta x 0 0 k = addDays x k := by
  unfold addDelta addDays; rw [datedeltaAdd_days x.date hv]

/-! ### `DateUtils.this / next / last` -/

/-- `target = day_of_week if day_of_week >= 1 else 7` -/
def target (dow : Nat) : Nat := if dow ≥ 1 then dow else 7

theorem this_spec (R : DateTime) (hv : R.date.valid = true) (dow : Nat) (r : DateTime) (h : this R dow = some r) :
    r.date.valid = true ∧ r.secs = R.secs ∧
    (r.date.ord : Int) = mondayOrd R.date.ord + (target dow : Int) - 1 := by
  unfold this at h
  have := addDays_spec R hv _ r h
  have m := mondayOrd_spec R.date.ord (ord_range R.date hv).1
  refine ⟨this.1, this.2.2, ?_⟩
  rw [this.2.1]
  unfold Date.isoWeekday isoWeekdayOrd target
  unfold weekdayOrd at m
  simp only [ge_iff_le]
  omega

theorem next_spec (R : DateTime) (hv : R.date.valid = true) (dow : Nat) (r : DateTime) (h : next R dow = some r) :
    r.date.valid = true ∧ r.secs = R.secs ∧
    (r.date.ord : Int) = mondayOrd R.date.ord + 7 + (target dow : Int) - 1 := by
  unfold next at h
  cases ht : this R dow with
  | none => simp [ht] at h
  | some t =>
    simp only [ht, Option.bind_some] at h
    have a := this_spec R hv dow t ht
    have b := addDays_spec t a.1 7 r h
    refine ⟨b.1, by rw [b.2.2, a.2.1], ?_⟩
    omega

theorem last_spec (R : DateTime) (hv : R.date.valid = true) (dow : Nat) (r : DateTime) (h : last R dow = some r) :
    r.date.valid = true ∧ r.secs = R.secs ∧
    (r.date.ord : Int) = mondayOrd R.date.ord - 7 + (target dow : Int) - 1 := by
  unfold last at h
  cases ht : this R dow with
  | none => simp [ht] at h
  | some t =>
    simp only [ht, Option.bind_some] at h
    have a := this_spec R hv dow t ht
    have b := addDays_spec t a.1 (-7) r h
    refine ⟨b.1, by rw [b.2.2, a.2.1], ?_⟩
    omega

/-- from the explicit ordinal to "weekday = asked ∧ Monday of its week" -/
theorem week_of_ord (n : Nat) (M : Nat) (t : Nat) (hM : weekdayOrd M = 0) (ht1 : 1 ≤ t) (ht : t ≤ 7)
    (h : (n : Int) = M + (t : Int) - 1) : isoWeekdayOrd n = t ∧ mondayOrd n = M := by
  unfold isoWeekdayOrd mondayOrd weekdayOrd at *
  omega

/-! ### `safe_create_from_min_value` -/

theorem isValidDate_of_valid (x : Date) (hv : x.valid = true) : isValidDate (x.y : Int) x.m x.d = true := by
  have h := (valid_iff x).1 hv
  unfold isValidDate
  have e : (⟨((x.y : Nat) : Int).toNat, x.m, x.d⟩ : Date) = x := by cases x; simp
  rw [e, hv]
  simp; omega

theorem safeCreate_valid (x : Date) (hv : x.valid = true) : safeCreateFromMinValue (x.y : Int) x.m x.d = ⟨x, 0⟩ := by
  unfold safeCreateFromMinValue safeCreateFromValue
  rw [isValidDate_of_valid x hv]
  cases x; simp

theorem safeCreate_ymd (y m d : Nat) (hv : (⟨y, m, d⟩ : Date).valid = true) :
    safeCreateFromMinValue (y : Int) m d = ⟨⟨y, m, d⟩, 0⟩ := safeCreate_valid ⟨y, m, d⟩ hv

theorem safeCreate_invalid (y : Int) (m d : Nat) (h : isValidDate y m d = false) :
    safeCreateFromMinValue y m d = minValue := by
  unfold safeCreateFromMinValue safeCreateFromValue; simp [h]

/-! ### special days, N days / weeks ago / later -/

theorem specialDay_spec (R : DateTime) (hv : R.date.valid = true) (swift : Int) (t : Str) (v : DateTime)
    (h : specialDay R swift = some (t, v)) :
    v.date.valid = true ∧ (v.date.ord : Int) = R.date.ord + swift ∧ v.secs = 0 ∧ t = luisDateOf v := by
  unfold specialDay at h
  rw [safeCreate_valid R.date hv] at h
  cases ha : addDays ⟨R.date, 0⟩ swift with
  | none => simp [ha] at h
  | some w =>
    simp only [ha, Option.map_some, Option.some.injEq, Prod.mk.injEq] at h
    have := addDays_spec ⟨R.date, 0⟩ hv swift w ha
    obtain ⟨h1, h2⟩ := h
    subst h2
    exact ⟨this.1, this.2.1, this.2.2, h1.symm⟩

theorem getDateResult_days (R : DateTime) (hv : R.date.valid = true) (n : Nat) (fut : Bool) (t : Str) (v : DateTime)
    (h : getDateResult .D n R fut = some (t, v)) :
    v.date.valid = true ∧ (v.date.ord : Int) = R.date.ord + (n : Int) * (if fut then 1 else -1) ∧ v.secs = R.secs ∧
    t = luisDateOf v := by
  unfold getDateResult at h
  simp only at h
  cases ha : addDays R ((n : Int) * (if fut then 1 else -1)) with
  | none => simp [ha] at h
  | some w =>
    simp only [ha, Option.map_some, Option.some.injEq, Prod.mk.injEq] at h
    have := addDays_spec R hv _ w ha
    obtain ⟨h1, h2⟩ := h
    subst h2
    exact ⟨this.1, this.2.1, this.2.2, h1.symm⟩

theorem getDateResult_weeks (R : DateTime) (n : Nat) (fut : Bool) :
    getDateResult .W n R fut = getDateResult .D (7 * n) R fut := by
  unfold getDateResult
  simp only
  congr 2
  cases fut <;> simp <;> omega

/-! ### `_parse_one_word_period`: week -/

theorem weekPeriod_spec (R : DateTime) (hv : R.date.valid = true) (k : Int) (t : Str) (b e : DateTime)
    (h : weekPeriod R k = some (t, b, e)) :
    b.date.valid = true ∧ e.date.valid = true ∧ b.secs = R.secs ∧ e.secs = R.secs ∧
    (b.date.ord : Int) = mondayOrd R.date.ord + 7 * k ∧ (e.date.ord : Int) = b.date.ord + 7 ∧
    t = pad 4 (isoCalendar b.date).1 ++ [45, 87] ++ pad 2 (isoCalendar b.date).2.1 := by
  unfold weekPeriod at h
  cases h1 : this R 4 with
  | none => simp [h1] at h
  | some th0 =>
  have s1 := this_spec R hv 4 th0 h1
  simp only [h1, Option.bind_some, addDelta_days th0 s1.1] at h
  cases h2 : addDays th0 (7 * k) with
  | none => simp [h2] at h
  | some th =>
  have s2 := addDays_spec th0 s1.1 _ th h2
  simp only [h2, Option.bind_some] at h
  cases h3 : this R 1 with
  | none => simp [h3] at h
  | some b0 =>
  have s3 := this_spec R hv 1 b0 h3
  simp only [h3, Option.bind_some, addDelta_days b0 s3.1] at h
  cases h4 : addDays b0 (7 * k) with
  | none => simp [h4] at h
  | some bb =>
  have s4 := addDays_spec b0 s3.1 _ bb h4
  simp only [h4, Option.bind_some] at h
  cases h5 : this R 7 with
  | none => simp [h5] at h
  | some e0 =>
  have s5 := this_spec R hv 7 e0 h5
  simp only [h5, Option.bind_some, addDelta_days e0 s5.1] at h
  cases h6 : addDays e0 (7 * k) with
  | none => simp [h6] at h
  | some e1 =>
  have s6 := addDays_spec e0 s5.1 _ e1 h6
  simp only [h6, Option.bind_some, addDelta_days e1 s6.1] at h
  cases h7 : addDays e1 1 with
  | none => simp [h7] at h
  | some e2 =>
  have s7 := addDays_spec e1 s6.1 _ e2 h7
  simp only [h7, Option.bind_some, Option.some.injEq, Prod.mk.injEq] at h
  obtain ⟨ht, hb, he⟩ := h
  subst hb he
  have tg4 : target 4 = 4 := by decide
  have tg1 : target 1 = 1 := by decide
  have tg7 : target 7 = 7 := by decide
  rw [tg4] at s1; rw [tg1] at s3; rw [tg7] at s5
  have m := mondayOrd_spec R.date.ord (ord_range R.date hv).1
  have rb := ord_range bb.date s4.1
  have rt := ord_range th.date s2.1
  refine ⟨s4.1, s7.1, by rw [s4.2.2, s3.2.1], by rw [s7.2.2, s6.2.2, s5.2.1], by omega, by omega, ?_⟩
  -- the TIMEX: year and week are read off the Thursday; both agree with isocalendar() of the Monday
  have thu : weekdayOrd th.date.ord = 3 := by
    unfold weekdayOrd at m ⊢; omega
  have same : mondayOrd th.date.ord = mondayOrd bb.date.ord := by
    unfold mondayOrd weekdayOrd at *; omega
  have sw := isoCalendar_same_week th.date bb.date s2.1 s4.1 same
  have ty := isoYear_of_thursday th.date s2.1 thu
  rw [← ht, ← sw.1, ← sw.2, ty]

/-! ### `_parse_one_word_period`: year -/

theorem datedeltaAdd_years (x : Date) (hv : x.valid = true) (k : Int) (r : Date) (h : datedeltaAdd x k 0 0 = some r) :
    r.valid = true ∧ (r.y : Int) = x.y + k := by
  unfold datedeltaAdd at h
  simp only [ne_eq, not_true_eq_false, if_false, if_true] at h
  generalize (if ¬k = 0 ∧ x.m = 2 ∧ x.d = 29 ∧ (!isLeap ((x.y : Int) + k).toNat) = true then
      (if k > 0 then ((3 : Nat), (1 : Nat)) else (2, 28)) else (x.m, x.d)) = md at h
  by_cases hr : 1 ≤ (x.y : Int) + k ∧ (x.y : Int) + k ≤ 9999
  · rw [if_pos hr] at h
    by_cases hvr : (⟨((x.y : Int) + k).toNat, md.1, md.2⟩ : Date).valid = true
    · rw [if_pos hvr] at h
      simp only [Option.some.injEq] at h
      subst h
      exact ⟨hvr, by simp only; omega⟩
    · rw [if_neg hvr] at h; simp at h
  · rw [if_neg hr] at h; simp at h

theorem dec31_succ (y : Nat) (h1 : 1 ≤ y) : (⟨y, 12, 31⟩ : Date).ord + 1 = (⟨y + 1, 1, 1⟩ : Date).ord := by
  rw [jan1_ord, dby_succ y h1]
  unfold Date.ord daysBeforeMonth daysInYear
  cases isLeap y <;> simp [daysBeforeMonthTbl]

theorem valid_jan1 (y : Nat) (h1 : 1 ≤ y) (h2 : y ≤ 9999) : (⟨y, 1, 1⟩ : Date).valid = true := by
  rw [valid_iff]; simp [daysInMonth]; omega

theorem valid_dec31 (y : Nat) (h1 : 1 ≤ y) (h2 : y ≤ 9999) : (⟨y, 12, 31⟩ : Date).valid = true := by
  rw [valid_iff]; simp [daysInMonth]; omega

theorem yearPeriod_spec (R : DateTime) (hv : R.date.valid = true) (k : Int) (t : Str) (b e : DateTime)
    (h : yearPeriod R k = some (t, b, e)) :
    ∃ Y : Nat, (Y : Int) = R.date.y + k ∧ 1 ≤ Y ∧ Y + 1 ≤ 9999 ∧
      t = pad 4 Y ∧ b = ⟨⟨Y, 1, 1⟩, 0⟩ ∧ e = ⟨⟨Y + 1, 1, 1⟩, 0⟩ := by
  unfold yearPeriod addDelta at h
  cases h1 : datedeltaAdd R.date k 0 0 with
  | none => simp [h1] at h
  | some tmp =>
  have s1 := datedeltaAdd_years R.date hv k tmp h1
  have tv := (valid_iff tmp).1 s1.1
  simp only [h1, Option.map_some, Option.bind_some] at h
  rw [safeCreate_ymd tmp.y 12 31 (valid_dec31 _ tv.1 tv.2.1), safeCreate_ymd tmp.y 1 1 (valid_jan1 _ tv.1 tv.2.1)] at h
  rw [datedeltaAdd_days _ (valid_dec31 _ tv.1 tv.2.1)] at h
  cases h2 : (⟨tmp.y, 12, 31⟩ : Date).addDays 1 with
  | none => simp [h2] at h
  | some e0 =>
  have s2 := Date.addDays_spec _ (valid_dec31 _ tv.1 tv.2.1) 1 e0 h2
  simp only [h2, Option.map_some, Option.bind_some, Option.some.injEq, Prod.mk.injEq] at h
  obtain ⟨ht, hb, he⟩ := h
  have d := dec31_succ tmp.y tv.1
  have hy1 : tmp.y + 1 ≤ 9999 := by
    -- otherwise the ordinal after 9999-12-31 would be a valid date's ordinal
    have r0 := ord_range e0 s2.1
    have r1 := ord_range ⟨tmp.y, 12, 31⟩ (valid_dec31 _ tv.1 tv.2.1)
    by_cases c : tmp.y + 1 ≤ 9999
    · exact c
    · exfalso
      have : tmp.y = 9999 := by omega
      rw [this] at s2
      have : (⟨9999, 12, 31⟩ : Date).ord = maxOrd := by decide
      omega
  have e0eq : e0 = ⟨tmp.y + 1, 1, 1⟩ := by
    apply date_eq_of_ord _ _ s2.1 (valid_jan1 _ (by omega) hy1)
    omega
  refine ⟨tmp.y, s1.2, tv.1, hy1, ht.symm, hb.symm, ?_⟩
  rw [← he, e0eq]

/-! ### `_parse_one_word_period`: month (through `reference + datedelta(months=swift)`) -/

/-- the month arithmetic the property states: `(year, month)` shifted by `k` months -/
def shiftMonth (y m : Nat) (k : Int) : Int × Nat :=
  let total : Int := (y : Int) * 12 + ((m : Int) - 1) + k
  (total / 12, (total % 12).toNat + 1)

/-- the `if self._months:` block of the shim (after a zero year delta) -/
def monthStep (x : Date) (k : Int) : Int × Nat × Nat :=
  if k ≠ 0 then
    let total : Int := (x.y : Int) * 12 + ((x.m : Int) - 1) + k
    let yy := total / 12
    let mm := (total % 12).toNat + 1
    let dim := if 1 ≤ yy ∧ yy ≤ 9999 then daysInMonth yy.toNat mm else 31
    if x.d > dim then
      if k > 0 then
        (if mm + 1 > 12 then (yy + 1, 1, 1) else (yy, mm + 1, 1))
      else (yy, mm, dim)
    else (yy, mm, x.d)
  else ((x.y : Int), x.m, x.d)

theorem datedeltaAdd_months_eq (x : Date) (k : Int) :
    datedeltaAdd x 0 k 0 =
      (if 1 ≤ (monthStep x k).1 ∧ (monthStep x k).1 ≤ 9999 then
        (if (⟨(monthStep x k).1.toNat, (monthStep x k).2.1, (monthStep x k).2.2⟩ : Date).valid = true then
          some ⟨(monthStep x k).1.toNat, (monthStep x k).2.1, (monthStep x k).2.2⟩ else none)
       else none) := by
  unfold datedeltaAdd monthStep
  simp only [ne_eq, not_true_eq_false, false_and, if_false, if_true, Int.add_zero,
    Int.fdiv_eq_ediv_of_nonneg _ (show (0:Int) ≤ 12 by omega), Int.fmod_eq_emod_of_nonneg _ (show (0:Int) ≤ 12 by omega)]

theorem daysInMonth_le (y m : Nat) : daysInMonth y m ≤ 31 := by
  unfold daysInMonth; split <;> try omega
  split <;> omega

theorem daysInMonth_ge (y m : Nat) (h1 : 1 ≤ m) (h2 : m ≤ 12) : 28 ≤ daysInMonth y m := by
  have : m = 1 ∨ m = 2 ∨ m = 3 ∨ m = 4 ∨ m = 5 ∨ m = 6 ∨ m = 7 ∨ m = 8 ∨ m = 9 ∨ m = 10 ∨ m = 11 ∨ m = 12 := by omega
  rcases this with h | h | h | h | h | h | h | h | h | h | h | h <;> subst h <;> simp [daysInMonth]
  split <;> omega

theorem monthStep_guarded (x : Date) (hv : x.valid = true) (k : Int)
    (g : k ≤ 0 ∨ x.d ≤ daysInMonth (shiftMonth x.y x.m k).1.toNat (shiftMonth x.y x.m k).2) :
    (monthStep x k).1 = (shiftMonth x.y x.m k).1 ∧ (monthStep x k).2.1 = (shiftMonth x.y x.m k).2 := by
  have h := (valid_iff x).1 hv
  have le31 := daysInMonth_le x.y x.m
  unfold monthStep
  unfold shiftMonth at g ⊢
  simp only at g ⊢
  by_cases hk : k = 0
  · subst hk
    simp only [ne_eq, not_true_eq_false, if_false, Int.add_zero]
    constructor <;> omega
  · simp only [ne_eq, hk, not_false_eq_true, if_true]
    generalize hdim : (if 1 ≤ ((x.y : Int) * 12 + ((x.m : Int) - 1) + k) / 12 ∧ ((x.y : Int) * 12 + ((x.m : Int) - 1) + k) / 12 ≤ 9999 then
        daysInMonth (((x.y : Int) * 12 + ((x.m : Int) - 1) + k) / 12).toNat ((((x.y : Int) * 12 + ((x.m : Int) - 1) + k) % 12).toNat + 1)
      else 31) = dim
    by_cases hd : x.d > dim
    · rw [if_pos hd]
      by_cases hk0 : k > 0
      · exfalso
        rcases g with g | g
        · omega
        · split at hdim <;> omega
      · rw [if_neg hk0]; exact ⟨rfl, rfl⟩
    · rw [if_neg hd]; exact ⟨rfl, rfl⟩

theorem datedeltaAdd_months (x : Date) (hv : x.valid = true) (k : Int) (r : Date) (h : datedeltaAdd x 0 k 0 = some r)
    (g : k ≤ 0 ∨ x.d ≤ daysInMonth (shiftMonth x.y x.m k).1.toNat (shiftMonth x.y x.m k).2) :
    r.valid = true ∧ (r.y : Int) = (shiftMonth x.y x.m k).1 ∧ r.m = (shiftMonth x.y x.m k).2 := by
  rw [datedeltaAdd_months_eq] at h
  have ms := monthStep_guarded x hv k g
  by_cases hr : 1 ≤ (monthStep x k).1 ∧ (monthStep x k).1 ≤ 9999
  · rw [if_pos hr] at h
    by_cases hvr : (⟨(monthStep x k).1.toNat, (monthStep x k).2.1, (monthStep x k).2.2⟩ : Date).valid = true
    · rw [if_pos hvr] at h
      simp only [Option.some.injEq] at h
      subst h
      refine ⟨hvr, ?_, ms.2⟩
      simp only; rw [← ms.1]; omega
    · rw [if_neg hvr] at h; simp at h
  · rw [if_neg hr] at h; simp at h

theorem valid_first (y m : Nat) (h1 : 1 ≤ y) (h2 : y ≤ 9999) (h3 : 1 ≤ m) (h4 : m ≤ 12) : (⟨y, m, 1⟩ : Date).valid = true := by
  rw [valid_iff]
  have := daysInMonth_ge y m h3 h4
  simp only; omega

theorem shiftMonth_range (y m : Nat) (k : Int) : 1 ≤ (shiftMonth y m k).2 ∧ (shiftMonth y m k).2 ≤ 12 := by
  unfold shiftMonth; simp only; omega

theorem monthPeriodPreFix_spec (R : DateTime) (hv : R.date.valid = true) (k : Int) (t : Str) (b e : DateTime)
    (h : monthPeriodPreFix R k = some (t, b, e))
    (g : k ≤ 0 ∨ R.date.d ≤ daysInMonth (shiftMonth R.date.y R.date.m k).1.toNat (shiftMonth R.date.y R.date.m k).2) :
    ∃ Y M Y2 M2 : Nat, ((Y : Int), M) = shiftMonth R.date.y R.date.m k ∧ ((Y2 : Int), M2) = shiftMonth Y M 1 ∧
      t = pad 4 Y ++ [45] ++ pad 2 M ∧ b = ⟨⟨Y, M, 1⟩, 0⟩ ∧ e = ⟨⟨Y2, M2, 1⟩, 0⟩ ∧
      (⟨Y, M, 1⟩ : Date).valid = true ∧ (⟨Y2, M2, 1⟩ : Date).valid = true := by
  unfold monthPeriodPreFix addDelta at h
  cases h1 : datedeltaAdd R.date 0 k 0 with
  | none => simp [h1] at h
  | some tmp =>
  have s1 := datedeltaAdd_months R.date hv k tmp h1 g
  have tv := (valid_iff tmp).1 s1.1
  have vf := valid_first tmp.y tmp.m tv.1 tv.2.1 tv.2.2.1 tv.2.2.2.1
  simp only [h1, Option.map_some, Option.bind_some] at h
  rw [safeCreate_ymd tmp.y tmp.m 1 vf] at h
  cases h2 : datedeltaAdd (⟨tmp.y, tmp.m, 1⟩ : Date) 0 1 0 with
  | none => simp [h2] at h
  | some e0 =>
  have sr := shiftMonth_range tmp.y tmp.m 1
  have s2 := datedeltaAdd_months ⟨tmp.y, tmp.m, 1⟩ vf 1 e0 h2 (Or.inr (by
    have := daysInMonth_ge (shiftMonth tmp.y tmp.m 1).1.toNat (shiftMonth tmp.y tmp.m 1).2 sr.1 sr.2
    simp only; omega))
  simp only [h2, Option.map_some, Option.bind_some, Option.some.injEq, Prod.mk.injEq] at h
  obtain ⟨ht, hb, he⟩ := h
  have ev := (valid_iff e0).1 s2.1
  -- the day of e0 is 1: monthStep keeps the day when it fits
  have e0d : e0.d = 1 := by
    rw [datedeltaAdd_months_eq] at h2
    have : (monthStep ⟨tmp.y, tmp.m, 1⟩ 1).2.2 = 1 := by
      unfold monthStep
      simp only [ne_eq, Int.one_ne_zero, not_false_eq_true, if_true]
      rw [if_pos (show (1:Int) > 0 by omega)]
      split <;> (try split) <;> (try split) <;> rfl
    split at h2
    · split at h2
      · simp only [Option.some.injEq] at h2; rw [← h2]; exact this
      · simp at h2
    · simp at h2
  refine ⟨tmp.y, tmp.m, e0.y, e0.m, ?_, ?_, ht.symm, hb.symm, ?_, vf, ?_⟩
  · rw [Prod.ext_iff]; exact ⟨s1.2.1, s1.2.2⟩
  · rw [Prod.ext_iff]; exact ⟨s2.2.1, s2.2.2⟩
  · rw [← he]; cases e0; simp at e0d ⊢; exact e0d
  · exact valid_first e0.y e0.m ev.1 ev.2.1 ev.2.2.1 ev.2.2.2.1

/-! ### comparison of datetimes -/

theorem lt_iff (a b : DateTime) : a.lt b = true ↔ a.date.ord < b.date.ord ∨ (a.date.ord = b.date.ord ∧ a.secs < b.secs) := by
  simp [DateTime.lt]

theorem le_iff (a b : DateTime) : a.le b = true ↔ a.date.ord < b.date.ord ∨ (a.date.ord = b.date.ord ∧ a.secs ≤ b.secs) := by
  simp [DateTime.le]

/-! ### bare weekday ("Friday"): past / future candidates -/

theorem bareWeekday_spec (R : DateTime) (hv : R.date.valid = true) (dow : Nat) (hd : dow ≤ 7) (t : Str) (f p : DateTime)
    (h : bareWeekday R dow = some (t, f, p)) :
    f.date.valid = true ∧ p.date.valid = true ∧ f.secs = 0 ∧ p.secs = 0 ∧
    isoWeekdayOrd f.date.ord = target dow ∧ isoWeekdayOrd p.date.ord = target dow ∧
    f.date.ord = p.date.ord + 7 ∧ p.date.ord < R.date.ord ∧ R.date.ord ≤ f.date.ord ∧
    t = [88, 88, 88, 88, 45, 87, 88, 88, 45] ++ natStr (target dow) := by
  unfold bareWeekday at h
  cases h1 : this R dow with
  | none => simp [h1] at h
  | some v0 =>
  have s1 := this_spec R hv dow v0 h1
  simp only [h1, Option.bind_some] at h
  have tg : (if dow < 1 then 7 else dow) = target dow := by unfold target; split <;> split <;> omega
  rw [tg] at h
  have tt : target (target dow) = target dow := by unfold target; split <;> simp
  have tr : 1 ≤ target dow ∧ target dow ≤ 7 := by unfold target; split <;> omega
  have m := mondayOrd_spec R.date.ord (ord_range R.date hv).1
  -- the pivot `value`
  cases h2 : (if target dow < R.date.isoWeekday then next R (target dow) else some v0) with
  | none => simp [h2] at h
  | some v =>
  simp only [h2, Option.bind_some] at h
  have sv : v.date.valid = true ∧ v.secs = R.secs ∧ R.date.ord ≤ v.date.ord ∧ v.date.ord < R.date.ord + 7 ∧
      isoWeekdayOrd v.date.ord = target dow := by
    unfold Date.isoWeekday isoWeekdayOrd at h2
    unfold isoWeekdayOrd
    unfold weekdayOrd at m
    split at h2
    · next c =>
      have s2 := next_spec R hv (target dow) v h2
      rw [tt] at s2
      refine ⟨s2.1, s2.2.1, ?_, ?_, ?_⟩ <;> omega
    · next c =>
      simp only [Option.some.injEq] at h2
      subst h2
      refine ⟨s1.1, s1.2.1, ?_, ?_, ?_⟩ <;> omega
  cases h3 : (if v.lt R = true then addDays v 7 else some v) with
  | none => simp [h3] at h
  | some fu =>
  simp only [h3, Option.bind_some] at h
  cases h4 : (if R.le v = true then addDays v (-7) else some v) with
  | none => simp [h4] at h
  | some pa =>
  simp only [h4, Option.bind_some, Option.some.injEq, Prod.mk.injEq] at h
  obtain ⟨ht, hf, hp⟩ := h
  have nlt : ¬ (v.lt R = true) := by rw [lt_iff]; omega
  have hle : R.le v = true := by rw [le_iff]; omega
  rw [if_neg nlt] at h3
  rw [if_pos hle] at h4
  simp only [Option.some.injEq] at h3
  subst h3
  have s4 := addDays_spec v sv.1 (-7) pa h4
  rw [safeCreate_valid v.date sv.1] at hf
  rw [safeCreate_valid pa.date s4.1] at hp
  subst hf hp
  unfold isoWeekdayOrd at sv ⊢
  refine ⟨sv.1, s4.1, rfl, rfl, sv.2.2.2.2, ?_, ?_, ?_, sv.2.2.1, ht.symm⟩ <;> simp only <;> omega

/-! ### `generate_dates`: month and day without a year -/

/-- `(m, d)` exists in every year (valid in a non-leap year) — every month-day except 29 February. -/
def everyYear (m d : Nat) : Prop := 1 ≤ m ∧ m ≤ 12 ∧ 1 ≤ d ∧ d ≤ daysInMonth 1 m

instance (m d : Nat) : Decidable (everyYear m d) := by unfold everyYear; infer_instance

theorem valid_everyYear (y m d : Nat) (h : everyYear m d) (h1 : 1 ≤ y) (h2 : y ≤ 9999) : (⟨y, m, d⟩ : Date).valid = true := by
  rw [valid_iff]
  have : daysInMonth 1 m ≤ daysInMonth y m := by
    rw [daysInMonth_dimL y m, daysInMonth_dimL 1 m]
    unfold dimL
    have : isLeap 1 = false := by decide
    rw [this]
    simp only [Bool.and_false, Bool.false_eq_true, if_false]
    split
    · next c => simp at c; rw [c.1]; decide
    · omega
  unfold everyYear at h
  simp only; omega

theorem not_feb29_everyYear (m d : Nat) (h : everyYear m d) : isFeb29th m d = false := by
  unfold everyYear at h
  unfold isFeb29th
  by_cases c : m = 2
  · subst c; simp [daysInMonth, show isLeap 1 = false by decide] at h ⊢; omega
  · simp [c]

theorem int_pred (y : Nat) (h : 1 ≤ y) : (y : Int) - 1 = ((y - 1 : Nat) : Int) := by omega
theorem int_succ (y : Nat) : (y : Int) + 1 = ((y + 1 : Nat) : Int) := by omega

theorem generateDates_monthday (R : DateTime) (hv : R.date.valid = true) (m d : Nat) (he : everyYear m d)
    (hy1 : 2 ≤ R.date.y) (hy2 : R.date.y ≤ 9998) (hs : R.secs = 0) :
    ∃ Y : Nat, generateDates true R R.date.y m d = (⟨⟨Y + 1, m, d⟩, 0⟩, ⟨⟨Y, m, d⟩, 0⟩) ∧
      (⟨Y, m, d⟩ : Date).valid = true ∧ (⟨Y + 1, m, d⟩ : Date).valid = true ∧
      (⟨Y, m, d⟩ : Date).ord < R.date.ord ∧ R.date.ord ≤ (⟨Y + 1, m, d⟩ : Date).ord := by
  have v0 := valid_everyYear R.date.y m d he (by omega) (by omega)
  have vp := valid_everyYear (R.date.y - 1) m d he (by omega) (by omega)
  have vn := valid_everyYear (R.date.y + 1) m d he (by omega) (by omega)
  have b0 := ord_bounds _ v0
  have bp := ord_bounds _ vp
  have bn := ord_bounds _ vn
  have bR := ord_bounds _ hv
  have e1 : R.date.y - 1 + 1 = R.date.y := by omega
  simp only [e1] at bp b0 bn
  unfold generateDates
  simp only [if_true, not_feb29_everyYear m d he, Bool.false_eq_true, if_false]
  rw [isValidDate_of_valid ⟨R.date.y, m, d⟩ v0, int_pred _ (by omega), int_succ,
    safeCreate_ymd _ m d v0, safeCreate_ymd _ m d vp, safeCreate_ymd _ m d vn]
  simp only [Bool.and_true]
  by_cases c : (⟨R.date.y, m, d⟩ : Date).ord < R.date.ord
  · have l : (DateTime.lt ⟨⟨R.date.y, m, d⟩, 0⟩ R) = true := by rw [lt_iff]; left; exact c
    have g : ¬ (DateTime.le R ⟨⟨R.date.y, m, d⟩, 0⟩ = true) := by rw [le_iff]; simp only; omega
    rw [if_pos l, if_neg g]
    exact ⟨R.date.y, rfl, v0, vn, c, by omega⟩
  · have l : ¬ (DateTime.lt ⟨⟨R.date.y, m, d⟩, 0⟩ R) = true := by rw [lt_iff]; simp only; omega
    have g : (DateTime.le R ⟨⟨R.date.y, m, d⟩, 0⟩ = true) := by rw [le_iff]; simp only; omega
    rw [if_neg l, if_pos g]
    refine ⟨R.date.y - 1, ?_, vp, by rw [e1]; exact v0, by omega, by rw [e1]; omega⟩
    rw [e1]

/-! ### `generate_dates`: 29 February -/

theorem isLeapYear_iff (z : Int) : isLeapYear z = true ↔ ((z % 4 = 0 ∧ z % 100 ≠ 0) ∨ z % 400 = 0) := by
  simp [isLeapYear]

theorem isLeapYear_eq (n : Nat) : isLeapYear (n : Int) = isLeap n := by
  rw [Bool.eq_iff_iff, isLeapYear_iff, isLeap_iff]; omega

theorem valid_feb29 (y : Nat) (h1 : 1 ≤ y) (h2 : y ≤ 9999) (hl : isLeap y = true) : (⟨y, 2, 29⟩ : Date).valid = true := by
  rw [valid_iff]; simp [daysInMonth, hl]; omega

theorem invalid_feb29 (y : Int) (hl : isLeapYear y = false) : isValidDate y 2 29 = false := by
  unfold isValidDate
  by_cases c : 1 ≤ y ∧ y ≤ 9999
  · have : isLeap y.toNat = false := by
      rw [← isLeapYear_eq, Int.toNat_of_nonneg (by omega)]; exact hl
    simp [Date.valid, daysInMonth, this]
  · rw [Bool.and_eq_false_iff]; left
    rw [Bool.and_eq_false_iff]
    simp only [decide_eq_false_iff_not]
    omega

/-- The arithmetic of the non-leap branch (`past_year >> 2 << 2`, step back / forward over a non-leap century). -/
theorem feb29_years (y : Int) (hy : isLeapYear y = false) (h5 : 5 ≤ y) :
    let p0 := y / 4 * 4
    let P := if !isLeapYear p0 then p0 - 4 else p0
    let F0 := P + 4
    let F := if !isLeapYear F0 then F0 + 4 else F0
    isLeapYear P = true ∧ isLeapYear F = true ∧ P < y ∧ y < F ∧ 1 ≤ P ∧ F ≤ y + 8 ∧
      ∀ z : Int, P < z → z < F → isLeapYear z = false := by
  intro p0 P F0 F
  have hp0 : p0 % 4 = 0 ∧ p0 ≤ y ∧ y < p0 + 4 := by simp only [p0]; omega
  have hy' := hy
  rw [← Bool.not_eq_true, isLeapYear_iff] at hy'
  have key : ∀ z : Int, isLeapYear z = false ↔ ¬ ((z % 4 = 0 ∧ z % 100 ≠ 0) ∨ z % 400 = 0) := by
    intro z; rw [← Bool.not_eq_true, isLeapYear_iff]
  by_cases l0 : isLeapYear p0 = true
  · have eP : P = p0 := by simp only [P, l0]; simp
    by_cases l1 : isLeapYear (p0 + 4) = true
    · have eF : F = p0 + 4 := by simp only [F, F0, eP, l1]; simp
      rw [eP, eF]
      rw [isLeapYear_iff] at l0 l1
      refine ⟨by rw [isLeapYear_iff]; exact l0, by rw [isLeapYear_iff]; exact l1, ?_, ?_, ?_, ?_, ?_⟩
      · omega
      · omega
      · omega
      · omega
      · intro z a b; rw [key]; omega
    · have eF : F = p0 + 4 + 4 := by simp only [F, F0, eP, l1]; simp
      rw [eP, eF]
      rw [isLeapYear_iff] at l0 l1
      refine ⟨by rw [isLeapYear_iff]; exact l0, by rw [isLeapYear_iff]; omega, ?_, ?_, ?_, ?_, ?_⟩
      · omega
      · omega
      · omega
      · omega
      · intro z a b; rw [key]; omega
  · have eP : P = p0 - 4 := by simp only [P, l0]; simp
    by_cases l1 : isLeapYear (p0 - 4 + 4) = true
    · exfalso; apply l0; rw [show p0 - 4 + 4 = p0 by omega] at l1; exact l1
    · have eF : F = p0 - 4 + 4 + 4 := by simp only [F, F0, eP, l1]; simp
      rw [eP, eF]
      rw [isLeapYear_iff] at l0 l1
      refine ⟨by rw [isLeapYear_iff]; omega, by rw [isLeapYear_iff]; omega, ?_, ?_, ?_, ?_, ?_⟩
      · omega
      · omega
      · omega
      · omega
      · intro z a b; rw [key]; omega

theorem generateDates_feb29_nonleap (R : DateTime) (hv : R.date.valid = true) (hl : isLeap R.date.y = false)
    (h5 : 5 ≤ R.date.y) (h9 : R.date.y ≤ 9990) :
    ∃ Yp Yf : Nat, generateDates true R R.date.y 2 29 = (⟨⟨Yf, 2, 29⟩, 0⟩, ⟨⟨Yp, 2, 29⟩, 0⟩) ∧
      (⟨Yp, 2, 29⟩ : Date).valid = true ∧ (⟨Yf, 2, 29⟩ : Date).valid = true ∧
      Yp < R.date.y ∧ R.date.y < Yf ∧ (∀ z : Nat, Yp < z → z < Yf → isLeap z = false) := by
  have hl' : isLeapYear (R.date.y : Int) = false := by rw [isLeapYear_eq]; exact hl
  have fy := feb29_years (R.date.y : Int) hl' (by omega)
  simp only at fy
  unfold generateDates
  simp only [if_true, show isFeb29th 2 29 = true by decide, hl', Bool.false_eq_true, if_false]
  generalize hP : (if (!isLeapYear ((R.date.y : Int) / 4 * 4)) = true then (R.date.y : Int) / 4 * 4 - 4 else (R.date.y : Int) / 4 * 4) = P at fy ⊢
  generalize hF : (if (!isLeapYear (P + 4)) = true then P + 4 + 4 else P + 4) = F at fy ⊢
  obtain ⟨lP, lF, a, b, c, d, nb⟩ := fy
  have eP : P = ((P.toNat : Nat) : Int) := by omega
  have eF : F = ((F.toNat : Nat) : Int) := by omega
  have lP' : isLeap P.toNat = true := by rw [← isLeapYear_eq, ← eP]; exact lP
  have lF' : isLeap F.toNat = true := by rw [← isLeapYear_eq, ← eF]; exact lF
  have vP := valid_feb29 P.toNat (by omega) (by omega) lP'
  have vF := valid_feb29 F.toNat (by omega) (by omega) lF'
  refine ⟨P.toNat, F.toNat, ?_, vP, vF, by omega, by omega, ?_⟩
  · rw [eP, eF, safeCreate_ymd _ 2 29 vP, safeCreate_ymd _ 2 29 vF]
    simp only [Int.toNat_natCast]
  · intro z z1 z2
    rw [← isLeapYear_eq]
    exact nb z (by omega) (by omega)

theorem generateDates_feb29_leap (R : DateTime) (hv : R.date.valid = true) (hl : isLeap R.date.y = true)
    (hs : R.secs = 0)
    (g1 : (⟨R.date.y, 2, 29⟩ : Date).ord < R.date.ord → isLeap (R.date.y + 4) = true ∧ R.date.y + 4 ≤ 9999)
    (g2 : R.date.ord ≤ (⟨R.date.y, 2, 29⟩ : Date).ord → isLeap (R.date.y - 4) = true ∧ 5 ≤ R.date.y) :
    ∃ Yp : Nat, generateDates true R R.date.y 2 29 = (⟨⟨Yp + 4, 2, 29⟩, 0⟩, ⟨⟨Yp, 2, 29⟩, 0⟩) ∧
      (⟨Yp, 2, 29⟩ : Date).valid = true ∧ (⟨Yp + 4, 2, 29⟩ : Date).valid = true ∧
      (⟨Yp, 2, 29⟩ : Date).ord < R.date.ord ∧ R.date.ord ≤ (⟨Yp + 4, 2, 29⟩ : Date).ord ∧
      (∀ z : Nat, Yp < z → z < Yp + 4 → isLeap z = false) := by
  have hvy := (valid_iff R.date).1 hv
  have hl' : isLeapYear (R.date.y : Int) = true := by rw [isLeapYear_eq]; exact hl
  have v0 := valid_feb29 R.date.y hvy.1 hvy.2.1 hl
  have b0 := ord_bounds _ v0
  have bR := ord_bounds _ hv
  simp only at b0
  unfold generateDates
  simp only [if_true, show isFeb29th 2 29 = true by decide, hl']
  rw [safeCreate_ymd _ 2 29 v0]
  have nl : ∀ (Y : Nat), isLeap Y = true → ∀ z : Nat, Y < z → z < Y + 4 → isLeap z = false := by
    intro Y hY z z1 z2
    rw [isLeap_iff] at hY
    rw [← Bool.not_eq_true, isLeap_iff]; omega
  by_cases c : (⟨R.date.y, 2, 29⟩ : Date).ord < R.date.ord
  · have l : (DateTime.lt ⟨⟨R.date.y, 2, 29⟩, 0⟩ R) = true := by rw [lt_iff]; left; exact c
    rw [if_pos l]
    have g := g1 c
    have vn := valid_feb29 (R.date.y + 4) (by omega) g.2 g.1
    have bn := ord_bounds _ vn
    simp only at bn
    have m := dby_mono (show 1 ≤ R.date.y + 1 by omega) (show R.date.y + 1 ≤ R.date.y + 4 by omega)
    refine ⟨R.date.y, ?_, v0, vn, c, by omega, nl _ hl⟩
    rw [show (R.date.y : Int) + 4 = ((R.date.y + 4 : Nat) : Int) by omega, safeCreate_ymd _ 2 29 vn]
  · have l : ¬ (DateTime.lt ⟨⟨R.date.y, 2, 29⟩, 0⟩ R) = true := by rw [lt_iff]; simp only; omega
    rw [if_neg l]
    have g := g2 (by omega)
    have vp := valid_feb29 (R.date.y - 4) (by omega) (by omega) g.1
    have bp := ord_bounds _ vp
    simp only at bp
    have e4 : R.date.y - 4 + 4 = R.date.y := by omega
    have m := dby_mono (show 1 ≤ R.date.y - 4 + 1 by omega) (show R.date.y - 4 + 1 ≤ R.date.y by omega)
    refine ⟨R.date.y - 4, ?_, vp, by rw [e4]; exact v0, by omega, by rw [e4]; omega, nl _ g.1⟩
    rw [show (R.date.y : Int) - 4 = ((R.date.y - 4 : Nat) : Int) by omega, safeCreate_ymd _ 2 29 vp, e4]

/-! ### lemmas -/

set_option linter.unusedVariables false

theorem addSeconds_spec (x : DateTime) (hv : x.date.valid = true) (k : Int) (r : DateTime)
    (h : addSeconds x k = some r) :
    r.date.valid = true ∧ r.secs < 86400 ∧
    (r.date.ord : Int) * 86400 + r.secs = (x.date.ord : Int) * 86400 + x.secs + k := by
  unfold addSeconds at h
  simp only at h
  split at h
  · next hr =>
    simp only [Option.some.injEq] at h
    subst h
    have := ord_ofOrd (((x.date.ord : Int) * 86400 + (x.secs : Int) + k) / 86400).toNat (by omega)
      (by unfold maxOrd at *; omega)
    refine ⟨this.2, by simp only; omega, ?_⟩
    simp only [this.1]; omega
  · simp at h

theorem addSeconds_isSome (x : DateTime) (k : Int)
    (h1 : 86400 ≤ (x.date.ord : Int) * 86400 + x.secs + k)
    (h2 : (x.date.ord : Int) * 86400 + x.secs + k < ((maxOrd : Int) + 1) * 86400) : ∃ r, addSeconds x k = some r := by
  unfold addSeconds
  simp only
  rw [if_pos (by unfold maxOrd at *; omega)]
  exact ⟨_, rfl⟩

theorem weekDay_spec (R : DateTime) (hv : R.date.valid = true) (k : Int) (dow : Nat) (r : DateTime)
    (h : weekDay R k dow = some r) :
    r.date.valid = true ∧ r.secs = R.secs ∧ (r.date.ord : Int) = mondayOrd R.date.ord + (target dow : Int) - 1 + 7 * k := by
  unfold weekDay at h
  cases h1 : this R dow with
  | none => simp [h1] at h
  | some x =>
    have s1 := this_spec R hv dow x h1
    simp only [h1, Option.bind_some, addDelta_days x s1.1] at h
    have s2 := addDays_spec x s1.1 _ r h
    exact ⟨s2.1, by rw [s2.2.2, s1.2.1], by omega⟩

/-- what the week branch computes, on ordinals: `(begin, end)` for Monday `M`, reference `R`, shift `k` -/
def weekPrefixBounds (M R k : Int) (early mid late : Bool) : Int × Int :=
  let be : Int × Int :=
    if early then (M + 7 * k, M + 7 * k + 3) else if mid then (M + 7 * k + 1, M + 7 * k + 5)
    else if late then (M + 7 * k + 3, M + 7 * k + 7) else (M + 7 * k, M + 7 * k + 7)
  if early && k == 0 then (be.1, if R < be.2 then R else be.2)
  else if late && k == 0 then (if be.1 < R then R else be.1, be.2)
  else be

theorem weekTimex_of_thursday (R : DateTime) (hv : R.date.valid = true) (k : Int) (th : DateTime)
    (h : weekDay R k 4 = some th) (mon : Date) (hm : mon.valid = true)
    (hmo : (mon.ord : Int) = mondayOrd R.date.ord + 7 * k) :
    pad 4 th.date.y ++ [45, 87] ++ pad 2 (isoCalendar th.date).2.1 =
      pad 4 (isoCalendar mon).1 ++ [45, 87] ++ pad 2 (isoCalendar mon).2.1 := by
  have s := weekDay_spec R hv k 4 th h
  have tg4 : target 4 = 4 := by decide
  rw [tg4] at s
  have m := mondayOrd_spec R.date.ord (ord_range R.date hv).1
  have thu : weekdayOrd th.date.ord = 3 := by unfold weekdayOrd at m ⊢; omega
  have same : mondayOrd th.date.ord = mondayOrd mon.ord := by unfold mondayOrd weekdayOrd at *; omega
  have sw := isoCalendar_same_week th.date mon s.1 hm same
  rw [← sw.1, ← sw.2, isoYear_of_thursday th.date s.1 thu]

theorem weekPeriodP_spec (R : DateTime) (hv : R.date.valid = true) (k : Int) (early mid late : Bool) (t : Str)
    (b e : DateTime) (h : weekPeriodP R k early mid late = some (t, b, e)) :
    b.date.valid = true ∧ e.date.valid = true ∧ b.secs = R.secs ∧ e.secs = R.secs ∧
    ((b.date.ord : Int), (e.date.ord : Int)) = weekPrefixBounds (mondayOrd R.date.ord) R.date.ord k early mid late ∧
    (∃ mon : Date, mon.valid = true ∧ (mon.ord : Int) = mondayOrd R.date.ord + 7 * k ∧
      t = pad 4 (isoCalendar mon).1 ++ [45, 87] ++ pad 2 (isoCalendar mon).2.1) := by
  unfold weekPeriodP at h
  simp only at h
  have tg : target 1 = 1 ∧ target 2 = 2 ∧ target 3 = 3 ∧ target 4 = 4 ∧ target 5 = 5 ∧ target 7 = 7 := by decide
  cases h4 : weekDay R k 4 with
  | none => simp [h4] at h
  | some th =>
  have s4 := weekDay_spec R hv k 4 th h4
  cases h1 : weekDay R k 1 with
  | none => simp [h4, h1] at h
  | some b0 =>
  have s1 := weekDay_spec R hv k 1 b0 h1
  cases h7 : weekDay R k 7 with
  | none => simp [h4, h1, h7] at h
  | some e0 =>
  have s7 := weekDay_spec R hv k 7 e0 h7
  simp only [h4, h1, h7, Option.bind_some] at h
  rw [tg.2.2.2.1] at s4; rw [tg.1] at s1; rw [tg.2.2.2.2.2] at s7
  have tx := weekTimex_of_thursday R hv k th h4 b0.date s1.1 (by omega)
  have hmon : ∃ mon : Date, mon.valid = true ∧ (mon.ord : Int) = mondayOrd R.date.ord + 7 * k ∧
      pad 4 th.date.y ++ [45, 87] ++ pad 2 (isoCalendar th.date).2.1 =
        pad 4 (isoCalendar mon).1 ++ [45, 87] ++ pad 2 (isoCalendar mon).2.1 := ⟨b0.date, s1.1, by omega, tx⟩
  -- the (begin, end-before-+1) pair selected by the prefix
  generalize hsel : (if early = true then Option.map (fun e => (b0, e)) (weekDay R k 3)
      else if mid = true then (weekDay R k 2).bind fun b => Option.map (fun e => (b, e)) (weekDay R k 5)
      else if late = true then Option.map (fun b => (b, e0)) (some th) else some (b0, e0)) = sel at h
  cases sel with
  | none => simp at h
  | some be =>
  simp only [Option.bind_some] at h
  have hbe : be.1.date.valid = true ∧ be.2.date.valid = true ∧ be.1.secs = R.secs ∧ be.2.secs = R.secs ∧
      ((be.1.date.ord : Int), (be.2.date.ord : Int) + 1) =
        (if early then (mondayOrd R.date.ord + 7 * k, mondayOrd R.date.ord + 7 * k + 3)
         else if mid then (mondayOrd R.date.ord + 7 * k + 1, mondayOrd R.date.ord + 7 * k + 5)
         else if late then (mondayOrd R.date.ord + 7 * k + 3, mondayOrd R.date.ord + 7 * k + 7)
         else ((mondayOrd R.date.ord : Int) + 7 * k, mondayOrd R.date.ord + 7 * k + 7)) := by
    cases early
    · cases mid
      · cases late
        · simp only [Bool.false_eq_true, if_false, Option.some.injEq] at hsel ⊢
          subst hsel
          refine ⟨s1.1, s7.1, s1.2.1, s7.2.1, ?_⟩
          rw [Prod.mk.injEq]; constructor <;> simp only <;> omega
        · simp only [Bool.false_eq_true, if_false, if_true, Option.map_some, Option.some.injEq] at hsel ⊢
          subst hsel
          refine ⟨s4.1, s7.1, s4.2.1, s7.2.1, ?_⟩
          rw [Prod.mk.injEq]; constructor <;> simp only <;> omega
      · simp only [Bool.false_eq_true, if_false, if_true] at hsel ⊢
        cases h2 : weekDay R k 2 with
        | none => simp [h2] at hsel
        | some x2 =>
        cases h5 : weekDay R k 5 with
        | none => simp [h2, h5] at hsel
        | some x5 =>
        have s2 := weekDay_spec R hv k 2 x2 h2
        have s5 := weekDay_spec R hv k 5 x5 h5
        rw [tg.2.1] at s2; rw [tg.2.2.2.2.1] at s5
        simp only [h2, h5, Option.bind_some, Option.map_some, Option.some.injEq] at hsel
        subst hsel
        refine ⟨s2.1, s5.1, s2.2.1, s5.2.1, ?_⟩
        rw [Prod.mk.injEq]; constructor <;> simp only <;> omega
    · simp only [if_true] at hsel ⊢
      cases h3 : weekDay R k 3 with
      | none => simp [h3] at hsel
      | some x3 =>
      have s3 := weekDay_spec R hv k 3 x3 h3
      rw [tg.2.2.1] at s3
      simp only [h3, Option.map_some, Option.some.injEq] at hsel
      subst hsel
      refine ⟨s1.1, s3.1, s1.2.1, s3.2.1, ?_⟩
      rw [Prod.mk.injEq]; constructor <;> simp only <;> omega
  rw [addDelta_days be.2 hbe.2.1] at h
  cases ha : addDays be.2 1 with
  | none => simp [ha] at h
  | some e1 =>
  have sa := addDays_spec be.2 hbe.2.1 1 e1 ha
  simp only [ha, Option.bind_some] at h
  obtain ⟨v1, v2, c1, c2, hb⟩ := hbe
  rw [Prod.mk.injEq] at hb
  unfold weekPrefixBounds
  simp only
  by_cases ce : (early && k == 0) = true
  · rw [if_pos ce] at h ⊢
    simp only [Option.some.injEq, Prod.mk.injEq] at h
    obtain ⟨ht, hb', he'⟩ := h
    subst hb'
    by_cases cl : R.lt e1 = true
    · rw [if_pos cl] at he'
      subst he'
      rw [lt_iff] at cl
      refine ⟨v1, hv, c1, rfl, ?_, ?_⟩
      · rw [Prod.mk.injEq]; constructor
        · exact hb.1
        · rw [if_pos (by omega)]
      · obtain ⟨mon, m1, m2, m3⟩ := hmon; exact ⟨mon, m1, m2, by rw [← ht]; exact m3⟩
    · rw [if_neg cl] at he'
      subst he'
      rw [lt_iff] at cl
      refine ⟨v1, sa.1, c1, by rw [sa.2.2, c2], ?_, ?_⟩
      · rw [Prod.mk.injEq]; constructor
        · exact hb.1
        · rw [if_neg (by omega)]; omega
      · obtain ⟨mon, m1, m2, m3⟩ := hmon; exact ⟨mon, m1, m2, by rw [← ht]; exact m3⟩
  · rw [if_neg ce] at h ⊢
    by_cases cla : (late && k == 0) = true
    · rw [if_pos cla] at h ⊢
      simp only [Option.some.injEq, Prod.mk.injEq] at h
      obtain ⟨ht, hb', he'⟩ := h
      subst he'
      by_cases cl : be.1.lt R = true
      · rw [if_pos cl] at hb'
        subst hb'
        rw [lt_iff] at cl
        refine ⟨hv, sa.1, rfl, by rw [sa.2.2, c2], ?_, ?_⟩
        · rw [Prod.mk.injEq]; constructor
          · rw [if_pos (by omega)]
          · omega
        · obtain ⟨mon, m1, m2, m3⟩ := hmon; exact ⟨mon, m1, m2, by rw [← ht]; exact m3⟩
      · rw [if_neg cl] at hb'
        subst hb'
        rw [lt_iff] at cl
        refine ⟨v1, sa.1, c1, by rw [sa.2.2, c2], ?_, ?_⟩
        · rw [Prod.mk.injEq]; constructor
          · rw [if_neg (by omega)]; exact hb.1
          · omega
        · obtain ⟨mon, m1, m2, m3⟩ := hmon; exact ⟨mon, m1, m2, by rw [← ht]; exact m3⟩
    · rw [if_neg cla] at h ⊢
      simp only [Option.some.injEq, Prod.mk.injEq] at h
      obtain ⟨ht, hb', he'⟩ := h
      subst hb' he'
      refine ⟨v1, sa.1, c1, by rw [sa.2.2, c2], ?_, ?_⟩
      · rw [Prod.mk.injEq]; constructor
        · exact hb.1
        · omega
      · obtain ⟨mon, m1, m2, m3⟩ := hmon; exact ⟨mon, m1, m2, by rw [← ht]; exact m3⟩

/-! ### weekend -/

theorem weekendPeriodPreFix_spec (R : DateTime) (hv : R.date.valid = true) (k : Int) (t : Str) (b e : DateTime)
    (h : weekendPeriodPreFix R k = some (t, b, e)) :
    b.date.valid = true ∧ e.date.valid = true ∧ b.secs = R.secs ∧ e.secs = R.secs ∧
    (b.date.ord : Int) = mondayOrd R.date.ord + 5 + 7 * k ∧ e.date.ord = b.date.ord + 2 ∧
    t = pad 4 R.date.y ++ [45, 87] ++ pad 2 (isoCalendar b.date).2.1 ++ [45, 87, 69] := by
  unfold weekendPeriodPreFix at h
  cases h6 : weekDay R k 6 with
  | none => simp [h6] at h
  | some b0 =>
  cases h7 : weekDay R k 7 with
  | none => simp [h6, h7] at h
  | some e0 =>
  have s6 := weekDay_spec R hv k 6 b0 h6
  have s7 := weekDay_spec R hv k 7 e0 h7
  rw [show target 6 = 6 by decide] at s6; rw [show target 7 = 7 by decide] at s7
  simp only [h6, h7, Option.bind_some, addDelta_days e0 s7.1] at h
  cases ha : addDays e0 1 with
  | none => simp [ha] at h
  | some e1 =>
  have sa := addDays_spec e0 s7.1 1 e1 ha
  simp only [ha, Option.bind_some, Option.some.injEq, Prod.mk.injEq] at h
  obtain ⟨ht, hb, he⟩ := h
  subst hb he
  exact ⟨s6.1, sa.1, s6.2.1, by rw [sa.2.2, s7.2.1], by omega, by omega, ht.symm⟩

/-! ### month with prefix (code after the fix) -/

theorem valid_md (y m d : Nat) (h1 : 1 ≤ y) (h2 : y ≤ 9999) (h3 : 1 ≤ m) (h4 : m ≤ 12) (h5 : 1 ≤ d) (h6 : d ≤ 28) :
    (⟨y, m, d⟩ : Date).valid = true := by
  rw [valid_iff]
  have := daysInMonth_ge y m h3 h4
  simp only; omega

theorem monthPeriodP_spec (R : DateTime) (hv : R.date.valid = true) (k : Int) (early late : Bool) (t : Str)
    (b e : DateTime) (h : monthPeriodP R k early late = some (t, b, e)) :
    ∃ Y M Y2 M2 : Nat, ((Y : Int), M) = shiftMonth R.date.y R.date.m k ∧ ((Y2 : Int), M2) = shiftMonth Y M 1 ∧
      t = pad 4 Y ++ [45] ++ pad 2 M ∧
      b = (if early then ⟨⟨Y, M, 1⟩, 0⟩ else if late then ⟨⟨Y, M, 16⟩, 0⟩ else ⟨⟨Y, M, 1⟩, 0⟩) ∧
      e = (if early then ⟨⟨Y, M, 16⟩, 0⟩ else ⟨⟨Y2, M2, 1⟩, 0⟩) := by
  have hvy := (valid_iff R.date).1 hv
  have v1 := valid_first R.date.y R.date.m hvy.1 hvy.2.1 hvy.2.2.1 hvy.2.2.2.1
  have sr := shiftMonth_range R.date.y R.date.m k
  have ge := daysInMonth_ge (shiftMonth R.date.y R.date.m k).1.toNat (shiftMonth R.date.y R.date.m k).2 sr.1 sr.2
  unfold monthPeriodP addDelta at h
  simp only at h
  cases h1 : datedeltaAdd (⟨R.date.y, R.date.m, 1⟩ : Date) 0 k 0 with
  | none => simp [h1] at h
  | some tmp =>
  have s1 := datedeltaAdd_months ⟨R.date.y, R.date.m, 1⟩ v1 k tmp h1 (Or.inr (by simp only; omega))
  have tv := (valid_iff tmp).1 s1.1
  have vf := valid_first tmp.y tmp.m tv.1 tv.2.1 tv.2.2.1 tv.2.2.2.1
  simp only [h1, Option.map_some, Option.bind_some] at h
  rw [safeCreate_ymd tmp.y tmp.m 1 vf] at h
  cases h2 : datedeltaAdd (⟨tmp.y, tmp.m, 1⟩ : Date) 0 1 0 with
  | none => simp [h2] at h
  | some e0 =>
  -- reuse the unprefixed statement for the first of the next month
  have hold : monthPeriodPreFix ⟨⟨R.date.y, R.date.m, 1⟩, R.secs⟩ k =
      some (pad 4 tmp.y ++ [45] ++ pad 2 tmp.m, ⟨⟨tmp.y, tmp.m, 1⟩, 0⟩, ⟨e0, 0⟩) := by
    unfold monthPeriodPreFix addDelta
    simp only [h1, Option.map_some, Option.bind_some]
    rw [safeCreate_ymd tmp.y tmp.m 1 vf]
    simp only [h2, Option.map_some, Option.bind_some]
  obtain ⟨Y, M, Y2, M2, a1, a2, a3, a4, a5, a6, a7⟩ :=
    monthPeriodPreFix_spec ⟨⟨R.date.y, R.date.m, 1⟩, R.secs⟩ v1 k _ _ _ hold (Or.inr (by simp only; omega))
  simp only [DateTime.mk.injEq, Date.mk.injEq, and_true] at a4
  obtain ⟨ay, am⟩ := a4
  simp only [h2, Option.map_some, Option.bind_some] at h
  refine ⟨Y, M, Y2, M2, a1, a2, ?_⟩
  subst ay am
  cases early
  · simp only [Bool.false_eq_true, if_false] at h ⊢
    cases late
    · simp only [Bool.false_eq_true, if_false, Option.some.injEq, Prod.mk.injEq] at h ⊢
      exact ⟨h.1.symm, h.2.1.symm, by rw [← h.2.2, a5]⟩
    · simp only [if_true, Option.some.injEq, Prod.mk.injEq] at h ⊢
      rw [safeCreate_ymd tmp.y tmp.m 16 (valid_md _ _ _ tv.1 tv.2.1 tv.2.2.1 tv.2.2.2.1 (by omega) (by omega))] at h
      exact ⟨h.1.symm, h.2.1.symm, by rw [← h.2.2, a5]⟩
  · simp only [if_true] at h ⊢
    have v15 := valid_md tmp.y tmp.m 15 tv.1 tv.2.1 tv.2.2.1 tv.2.2.2.1 (by omega) (by omega)
    have v16 := valid_md tmp.y tmp.m 16 tv.1 tv.2.1 tv.2.2.1 tv.2.2.2.1 (by omega) (by omega)
    rw [safeCreate_ymd tmp.y tmp.m 15 v15, datedeltaAdd_days _ v15] at h
    cases h3 : (⟨tmp.y, tmp.m, 15⟩ : Date).addDays 1 with
    | none => simp [h3] at h
    | some d16 =>
    have s3 := Date.addDays_spec _ v15 1 d16 h3
    have e16 : d16 = ⟨tmp.y, tmp.m, 16⟩ := by
      apply date_eq_of_ord _ _ s3.1 v16
      rw [s3.2.1]; simp [Date.ord]; omega
    simp only [h3, Option.map_some, Option.some.injEq, Prod.mk.injEq] at h
    exact ⟨h.1.symm, h.2.1.symm, by rw [← h.2.2, e16]⟩

/-! ### year with prefix -/

theorem jun30_succ (y : Nat) : (⟨y, 6, 30⟩ : Date).ord + 1 = (⟨y, 7, 1⟩ : Date).ord := by
  simp [Date.ord, daysBeforeMonth, daysBeforeMonthTbl]; omega

theorem yearPeriodP_spec (R : DateTime) (hv : R.date.valid = true) (k : Int) (early late : Bool) (t : Str)
    (b e : DateTime) (h : yearPeriodP R k early late = some (t, b, e)) :
    ∃ Y : Nat, (Y : Int) = R.date.y + k ∧ 1 ≤ Y ∧ Y ≤ 9999 ∧ t = pad 4 Y ∧
      b = (if late then ⟨⟨Y, 7, 1⟩, 0⟩ else ⟨⟨Y, 1, 1⟩, 0⟩) ∧
      e = (if early then ⟨⟨Y, 7, 1⟩, 0⟩ else ⟨⟨Y + 1, 1, 1⟩, 0⟩) := by
  unfold yearPeriodP addDelta at h
  cases h1 : datedeltaAdd R.date k 0 0 with
  | none => simp [h1] at h
  | some tmp =>
  have s1 := datedeltaAdd_years R.date hv k tmp h1
  have tv := (valid_iff tmp).1 s1.1
  simp only [h1, Option.map_some, Option.bind_some] at h
  have v71 := valid_md tmp.y 7 1 tv.1 tv.2.1 (by omega) (by omega) (by omega) (by omega)
  have v11 := valid_jan1 tmp.y tv.1 tv.2.1
  have v630 : (⟨tmp.y, 6, 30⟩ : Date).valid = true := by rw [valid_iff]; simp [daysInMonth]; omega
  have v1231 := valid_dec31 tmp.y tv.1 tv.2.1
  rw [safeCreate_ymd tmp.y 7 1 v71, safeCreate_ymd tmp.y 1 1 v11, safeCreate_ymd tmp.y 6 30 v630,
    safeCreate_ymd tmp.y 12 31 v1231] at h
  refine ⟨tmp.y, s1.2, tv.1, tv.2.1, ?_⟩
  cases early
  · simp only [Bool.false_eq_true, if_false] at h ⊢
    rw [datedeltaAdd_days _ v1231] at h
    cases h2 : (⟨tmp.y, 12, 31⟩ : Date).addDays 1 with
    | none => simp [h2] at h
    | some e0 =>
    have s2 := Date.addDays_spec _ v1231 1 e0 h2
    simp only [h2, Option.map_some, Option.bind_some, Option.some.injEq, Prod.mk.injEq] at h
    have d := dec31_succ tmp.y tv.1
    have hy1 : tmp.y + 1 ≤ 9999 := by
      have r0 := ord_range e0 s2.1
      by_cases c : tmp.y + 1 ≤ 9999
      · exact c
      · exfalso
        have : tmp.y = 9999 := by omega
        rw [this] at s2
        have : (⟨9999, 12, 31⟩ : Date).ord = maxOrd := by decide
        omega
    have e0eq : e0 = ⟨tmp.y + 1, 1, 1⟩ := by
      apply date_eq_of_ord _ _ s2.1 (valid_jan1 _ (by omega) hy1); omega
    exact ⟨h.1.symm, h.2.1.symm, by rw [← h.2.2, e0eq]⟩
  · simp only [if_true] at h ⊢
    rw [datedeltaAdd_days _ v630] at h
    cases h2 : (⟨tmp.y, 6, 30⟩ : Date).addDays 1 with
    | none => simp [h2] at h
    | some e0 =>
    have s2 := Date.addDays_spec _ v630 1 e0 h2
    simp only [h2, Option.map_some, Option.bind_some, Option.some.injEq, Prod.mk.injEq] at h
    have e0eq : e0 = ⟨tmp.y, 7, 1⟩ := by
      apply date_eq_of_ord _ _ s2.1 v71
      have := jun30_succ tmp.y; omega
    exact ⟨h.1.symm, h.2.1.symm, by rw [← h.2.2, e0eq]⟩

/-! ### year-to-date, month-to-date -/

theorem yearToDate_spec (R : DateTime) (hv : R.date.valid = true) :
    yearToDate R = (pad 4 R.date.y, ⟨⟨R.date.y, 1, 1⟩, 0⟩, R) := by
  have hvy := (valid_iff R.date).1 hv
  unfold yearToDate
  have := safeCreate_ymd R.date.y 1 1 (valid_jan1 _ hvy.1 hvy.2.1)
  unfold safeCreateFromMinValue at this
  rw [this]

theorem monthToDatePreFix_spec (R : DateTime) (hv : R.date.valid = true) :
    monthToDatePreFix R = (pad 4 R.date.y ++ [45] ++ pad 2 R.date.m, ⟨⟨R.date.y, R.date.m, 1⟩, 0⟩,
      ⟨⟨R.date.y, R.date.m, R.date.m⟩, 3600⟩, R) := by
  have hvy := (valid_iff R.date).1 hv
  have v1 := valid_first R.date.y R.date.m hvy.1 hvy.2.1 hvy.2.2.1 hvy.2.2.2.1
  have vm := valid_md R.date.y R.date.m R.date.m hvy.1 hvy.2.1 hvy.2.2.1 hvy.2.2.2.1 hvy.2.2.1 (by omega)
  unfold monthToDatePreFix
  have a := safeCreate_ymd R.date.y R.date.m 1 v1
  unfold safeCreateFromMinValue at a
  rw [a]
  unfold safeCreateFromValueH
  rw [isValidDate_of_valid ⟨R.date.y, R.date.m, R.date.m⟩ vm]
  simp

theorem monthToDate_spec (R : DateTime) (hv : R.date.valid = true) :
    monthToDate R = (pad 4 R.date.y ++ [45] ++ pad 2 R.date.m, ⟨⟨R.date.y, R.date.m, 1⟩, 0⟩,
      ⟨⟨R.date.y, R.date.m, 1⟩, 0⟩, R) := by
  have hvy := (valid_iff R.date).1 hv
  have v1 := valid_first R.date.y R.date.m hvy.1 hvy.2.1 hvy.2.2.1 hvy.2.2.2.1
  unfold monthToDate
  have a := safeCreate_ymd R.date.y R.date.m 1 v1
  unfold safeCreateFromMinValue at a
  rw [a]

/-! ### rest of the week / month / year -/

theorem restOfFin_nonneg (R E : DateTime) (diff : Int) (b : Bool) (hd : 0 ≤ diff) :
    restOfFin R E diff b =
      if R ≠ E ∨ b = true then
        some ([40] ++ luisDateOf R ++ [44] ++ luisDateOf E ++ [44, 80] ++ natStr diff.toNat ++ [68, 41], R, E)
      else none := by
  unfold restOfFin
  rw [if_neg (show ¬ diff < 0 by omega)]

theorem restOf_week_spec (R : DateTime) (hv : R.date.valid = true) (res : Option (Str × DateTime × DateTime))
    (h : restOf .W R = some res) :
    ∃ e : DateTime, e.date.valid = true ∧ e.secs = R.secs ∧ e.date.ord = mondayOrd R.date.ord + 6 ∧
      R.date.ord ≤ e.date.ord ∧
      res = some ([40] ++ luisDateOf R ++ [44] ++ luisDateOf e ++ [44, 80] ++ natStr (e.date.ord - R.date.ord) ++ [68, 41],
                  R, e) := by
  unfold restOf at h
  simp only at h
  have m := mondayOrd_spec R.date.ord (ord_range R.date hv).1
  cases ha : addDays R (7 - (R.date.isoWeekday : Int)) with
  | none => simp [ha] at h
  | some e =>
  have sa := addDays_spec R hv _ e ha
  simp only [ha, Option.map_some, Option.some.injEq] at h
  have iw : R.date.isoWeekday = weekdayOrd R.date.ord + 1 := rfl
  rw [iw] at sa h
  have wl := weekdayOrd_lt R.date.ord
  have eo : e.date.ord = mondayOrd R.date.ord + 6 := by omega
  have dt : ((7 : Int) - ((weekdayOrd R.date.ord + 1 : Nat) : Int)).toNat = e.date.ord - R.date.ord := by omega
  refine ⟨e, sa.1, sa.2.2, eo, by omega, ?_⟩
  rw [← h, restOfFin_nonneg _ _ _ _ (by omega), dt]
  have cond : R ≠ e ∨ ((7 : Int) - ((weekdayOrd R.date.ord + 1 : Nat) : Int) == 0) = true := by
    by_cases c : (7 : Int) - ((weekdayOrd R.date.ord + 1 : Nat) : Int) = 0
    · right; rw [beq_iff_eq]; exact c
    · left; intro heq; rw [← heq] at sa; omega
  rw [if_pos cond]

theorem restOf_month_spec (R : DateTime) (hv : R.date.valid = true) :
    restOf .MON R = some (restOfFin R ⟨⟨R.date.y, R.date.m, daysInMonth R.date.y R.date.m⟩, 0⟩
      ((daysInMonth R.date.y R.date.m : Int) - R.date.d + 1) false) ∧
    0 ≤ (daysInMonth R.date.y R.date.m : Int) - R.date.d + 1 ∧
    (⟨R.date.y, R.date.m, daysInMonth R.date.y R.date.m⟩ : Date).valid = true := by
  have hvy := (valid_iff R.date).1 hv
  have ge := daysInMonth_ge R.date.y R.date.m hvy.2.2.1 hvy.2.2.2.1
  have vl : (⟨R.date.y, R.date.m, daysInMonth R.date.y R.date.m⟩ : Date).valid = true := by
    rw [valid_iff]; simp only; omega
  refine ⟨?_, by omega, vl⟩
  unfold restOf
  simp only
  rw [safeCreate_ymd _ _ _ vl]

theorem restOf_year_spec (R : DateTime) (hv : R.date.valid = true) :
    restOf .Y R = some (restOfFin R ⟨⟨R.date.y, 12, 31⟩, 0⟩
      (((⟨R.date.y, 12, 31⟩ : Date).ord : Int) - R.date.ord + 1) false) ∧
    R.date.ord ≤ (⟨R.date.y, 12, 31⟩ : Date).ord ∧ (⟨R.date.y, 12, 31⟩ : Date).valid = true := by
  have hvy := (valid_iff R.date).1 hv
  have vl := valid_dec31 R.date.y hvy.1 hvy.2.1
  have bR := ord_bounds R.date hv
  have d := dec31_succ R.date.y hvy.1
  rw [jan1_ord] at d
  refine ⟨?_, by omega, vl⟩
  unfold restOf
  simp only
  rw [safeCreate_ymd _ _ _ vl]
  simp only
  congr 2
  omega

/-! ### hours / minutes / seconds ago / later -/

theorem getDateTimeResult_spec (u : TUnit) (R : DateTime) (hv : R.date.valid = true) (n : Nat) (fut : Bool) (t : Str)
    (v : DateTime) (h : getDateTimeResult u n R fut = some (t, v)) :
    v.date.valid = true ∧ v.secs < 86400 ∧
    (v.date.ord : Int) * 86400 + v.secs =
      (R.date.ord : Int) * 86400 + R.secs + (n : Int) * (if fut then 1 else -1) * u.seconds ∧
    t = luisDateTime v := by
  unfold getDateTimeResult at h
  simp only at h
  cases ha : addSeconds R ((n : Int) * (if fut then 1 else -1) * u.seconds) with
  | none => simp [ha] at h
  | some w =>
    simp only [ha, Option.map_some, Option.some.injEq, Prod.mk.injEq] at h
    have := addSeconds_spec R hv _ w ha
    obtain ⟨h1, h2⟩ := h
    subst h2
    exact ⟨this.1, this.2.1, this.2.2, h1.symm⟩


/-! ### month + spelled-out day (`parse_number_with_month`) -/

theorem replaceYear_ymd (y m d : Nat) (s : Nat) (y2 : Nat) (hv : (⟨y2, m, d⟩ : Date).valid = true) :
    replaceYear ⟨⟨y, m, d⟩, s⟩ (y2 : Int) = some ⟨⟨y2, m, d⟩, s⟩ := by
  unfold replaceYear
  rw [isValidDate_of_valid ⟨y2, m, d⟩ hv]
  simp

theorem numberWithMonthPreFix_both (fixed : Bool) (R : DateTime) (hv : R.date.valid = true) (m d : Nat) (he : everyYear m d)
    (hy1 : 2 ≤ R.date.y) (hy2 : R.date.y ≤ 9998) (hs : R.secs = 0) :
    (⟨R.date.y, m, d⟩ : Date).valid = true ∧ (⟨R.date.y + 1, m, d⟩ : Date).valid = true ∧
    (⟨R.date.y - 1, m, d⟩ : Date).valid = true ∧
    (⟨R.date.y - 1, m, d⟩ : Date).ord < R.date.ord ∧ R.date.ord ≤ (⟨R.date.y + 1, m, d⟩ : Date).ord ∧
    ((⟨R.date.y, m, d⟩ : Date).ord < R.date.ord →
      numberWithMonthPreFix R m d = some (luisDateNoYear m d, ⟨⟨R.date.y + 1, m, d⟩, 0⟩, ⟨⟨R.date.y, m, d⟩, 0⟩) ∧
      numberWithMonth R m d = some (luisDateNoYear m d, ⟨⟨R.date.y + 1, m, d⟩, 0⟩, ⟨⟨R.date.y, m, d⟩, 0⟩)) ∧
    (R.date.ord ≤ (⟨R.date.y, m, d⟩ : Date).ord →
      numberWithMonthPreFix R m d = some (luisDateNoYear m d, ⟨⟨R.date.y, m, d⟩, 0⟩, ⟨⟨R.date.y + 1, m, d⟩, 0⟩) ∧
      numberWithMonth R m d = some (luisDateNoYear m d, ⟨⟨R.date.y, m, d⟩, 0⟩, ⟨⟨R.date.y - 1, m, d⟩, 0⟩)) := by
  have v0 := valid_everyYear R.date.y m d he (by omega) (by omega)
  have vp := valid_everyYear (R.date.y - 1) m d he (by omega) (by omega)
  have vn := valid_everyYear (R.date.y + 1) m d he (by omega) (by omega)
  have b0 := ord_bounds _ v0
  have bp := ord_bounds _ vp
  have bn := ord_bounds _ vn
  have bR := ord_bounds _ hv
  have e1 : R.date.y - 1 + 1 = R.date.y := by omega
  simp only [e1] at bp b0 bn
  refine ⟨v0, vn, vp, by omega, by omega, ?_, ?_⟩
  · intro c
    have l : (DateTime.lt ⟨⟨R.date.y, m, d⟩, 0⟩ R) = true := by rw [lt_iff]; left; exact c
    have g : ¬ (DateTime.le R ⟨⟨R.date.y, m, d⟩, 0⟩ = true) := by rw [le_iff]; simp only; omega
    unfold numberWithMonthPreFix numberWithMonth
    simp only [safeCreate_ymd _ m d v0, if_pos l, if_neg g, int_succ, replaceYear_ymd _ m d 0 _ vn, Option.bind_some]
    exact ⟨trivial, trivial⟩
  · intro c
    have l : ¬ (DateTime.lt ⟨⟨R.date.y, m, d⟩, 0⟩ R) = true := by rw [lt_iff]; simp only; omega
    have g : (DateTime.le R ⟨⟨R.date.y, m, d⟩, 0⟩ = true) := by rw [le_iff]; simp only; omega
    unfold numberWithMonthPreFix numberWithMonth
    simp only [safeCreate_ymd _ m d v0, if_neg l, if_pos g, int_succ, int_pred _ (show 1 ≤ R.date.y by omega),
      replaceYear_ymd _ m d 0 _ vn, replaceYear_ymd _ m d 0 _ vp, Option.bind_some]
    exact ⟨trivial, trivial⟩

/-- the month and day a pure year delta lands on: unchanged, except 29 February moved into a non-leap year
(`datedelta`: forward → 1 March, backward → 28 February) -/
def yearStepMD (x : Date) (k : Int) : Nat × Nat :=
  if k ≠ 0 ∧ x.m = 2 ∧ x.d = 29 ∧ (!isLeap ((x.y : Int) + k).toNat) = true then (if k > 0 then (3, 1) else (2, 28))
  else (x.m, x.d)

theorem datedeltaAdd_years_full (x : Date) (hv : x.valid = true) (k : Int) (r : Date) (h : datedeltaAdd x k 0 0 = some r) :
    r.valid = true ∧ (r.y : Int) = x.y + k ∧ (r.m, r.d) = yearStepMD x k := by
  have hy := datedeltaAdd_years x hv k r h
  refine ⟨hy.1, hy.2, ?_⟩
  unfold datedeltaAdd at h
  simp only [ne_eq, not_true_eq_false, if_false, if_true] at h
  unfold yearStepMD
  generalize (if ¬k = 0 ∧ x.m = 2 ∧ x.d = 29 ∧ (!isLeap ((x.y : Int) + k).toNat) = true then
      (if k > 0 then ((3 : Nat), (1 : Nat)) else (2, 28)) else (x.m, x.d)) = md at h ⊢
  by_cases hr : 1 ≤ (x.y : Int) + k ∧ (x.y : Int) + k ≤ 9999
  · rw [if_pos hr] at h
    by_cases hvr : (⟨((x.y : Int) + k).toNat, md.1, md.2⟩ : Date).valid = true
    · rw [if_pos hvr] at h
      simp only [Option.some.injEq] at h
      subst h
      rfl
    · rw [if_neg hvr] at h; cases h
  · rw [if_neg hr] at h; cases h

/-- the day a pure month delta lands on, under the guard of `datedeltaAdd_months`: the same day, clamped to the end of
the target month (only a backward delta can clamp: forward the guard says the day exists) -/
theorem monthStep_day (x : Date) (hv : x.valid = true) (k : Int)
    (g : k ≤ 0 ∨ x.d ≤ daysInMonth (shiftMonth x.y x.m k).1.toNat (shiftMonth x.y x.m k).2)
    (hr : 1 ≤ (shiftMonth x.y x.m k).1 ∧ (shiftMonth x.y x.m k).1 ≤ 9999) :
    (monthStep x k).2.2 = min x.d (daysInMonth (shiftMonth x.y x.m k).1.toNat (shiftMonth x.y x.m k).2) := by
  have h := (valid_iff x).1 hv
  unfold monthStep
  unfold shiftMonth at g hr ⊢
  simp only at g hr ⊢
  by_cases hk : k = 0
  · subst hk
    simp only [ne_eq, not_true_eq_false, if_false, Int.add_zero]
    have e1 : ((x.y : Int) * 12 + ((x.m : Int) - 1)) / 12 = x.y := by omega
    have e2 : (((x.y : Int) * 12 + ((x.m : Int) - 1)) % 12).toNat + 1 = x.m := by omega
    rw [e1, e2]; simp only [Int.toNat_natCast]; omega
  · simp only [ne_eq, hk, not_false_eq_true, if_true]
    rw [if_pos hr]
    by_cases hd : x.d > daysInMonth (((x.y : Int) * 12 + ((x.m : Int) - 1) + k) / 12).toNat ((((x.y : Int) * 12 + ((x.m : Int) - 1) + k) % 12).toNat + 1)
    · rw [if_pos hd]
      by_cases hk0 : k > 0
      · exfalso; rcases g with g | g <;> omega
      · rw [if_neg hk0]; simp only; omega
    · rw [if_neg hd]; simp only; omega

theorem datedeltaAdd_months_full (x : Date) (hv : x.valid = true) (k : Int) (r : Date) (h : datedeltaAdd x 0 k 0 = some r)
    (g : k ≤ 0 ∨ x.d ≤ daysInMonth (shiftMonth x.y x.m k).1.toNat (shiftMonth x.y x.m k).2) :
    r.valid = true ∧ (r.y : Int) = (shiftMonth x.y x.m k).1 ∧ r.m = (shiftMonth x.y x.m k).2 ∧
    r.d = min x.d (daysInMonth (shiftMonth x.y x.m k).1.toNat (shiftMonth x.y x.m k).2) := by
  have hm := datedeltaAdd_months x hv k r h g
  refine ⟨hm.1, hm.2.1, hm.2.2, ?_⟩
  have hval := (valid_iff r).1 hm.1
  have hr : 1 ≤ (shiftMonth x.y x.m k).1 ∧ (shiftMonth x.y x.m k).1 ≤ 9999 := by
    rw [← hm.2.1]; omega
  rw [datedeltaAdd_months_eq] at h
  by_cases hr' : 1 ≤ (monthStep x k).1 ∧ (monthStep x k).1 ≤ 9999
  · rw [if_pos hr'] at h
    by_cases hvr : (⟨(monthStep x k).1.toNat, (monthStep x k).2.1, (monthStep x k).2.2⟩ : Date).valid = true
    · rw [if_pos hvr] at h
      simp only [Option.some.injEq] at h
      subst h
      exact monthStep_day x hv k g hr
    · rw [if_neg hvr] at h; cases h
  · rw [if_neg hr'] at h; cases h
theorem valid_year_change (x : Date) (hv : x.valid = true) (Y : Nat) (h1 : 1 ≤ Y) (h2 : Y ≤ 9999)
    (h : ¬ (x.m = 2 ∧ x.d = 29) ∨ isLeap Y = true) : (⟨Y, x.m, x.d⟩ : Date).valid = true := by
  have hx := (valid_iff x).1 hv
  rw [valid_iff]
  refine ⟨h1, h2, hx.2.2.1, hx.2.2.2.1, hx.2.2.2.2.1, ?_⟩
  have hd := hx.2.2.2.2.2
  simp only at hd ⊢
  unfold daysInMonth at hd ⊢
  by_cases hm : x.m = 2
  · rw [hm] at hd ⊢
    simp only at hd ⊢
    rcases h with h | h
    · have : x.d ≠ 29 := fun e => h ⟨hm, e⟩
      split at hd <;> split <;> omega
    · rw [h]; simp only [if_true]; split at hd <;> omega
  · split <;> simp_all

theorem datedeltaAdd_years_isSome (x : Date) (hv : x.valid = true) (k : Int)
    (h1 : 1 ≤ (x.y : Int) + k) (h2 : (x.y : Int) + k ≤ 9999) : ∃ r, datedeltaAdd x k 0 0 = some r := by
  have hy : 1 ≤ ((x.y : Int) + k).toNat ∧ ((x.y : Int) + k).toNat ≤ 9999 := by omega
  unfold datedeltaAdd
  simp only [ne_eq, not_true_eq_false, if_false, if_true]
  rw [if_pos ⟨h1, h2⟩]
  by_cases hc : ¬k = 0 ∧ x.m = 2 ∧ x.d = 29 ∧ (!isLeap ((x.y : Int) + k).toNat) = true
  · rw [if_pos hc]
    by_cases hk : k > 0
    · rw [if_pos hk]
      have v : (⟨((x.y : Int) + k).toNat, 3, 1⟩ : Date).valid = true := by
        simp [Date.valid, daysInMonth, hy.1, hy.2]
      simp only [v, if_true]; exact ⟨_, rfl⟩
    · rw [if_neg hk]
      have v : (⟨((x.y : Int) + k).toNat, 2, 28⟩ : Date).valid = true := by
        simp [Date.valid, daysInMonth, hy.1, hy.2]; split <;> omega
      simp only [v, if_true]; exact ⟨_, rfl⟩
  · rw [if_neg hc]
    have v : (⟨((x.y : Int) + k).toNat, x.m, x.d⟩ : Date).valid = true := by
      by_cases hk : k = 0
      · subst hk
        have : ((x.y : Int) + 0).toNat = x.y := by omega
        rw [this]; cases x; exact hv
      · apply valid_year_change x hv _ hy.1 hy.2
        by_cases hf : x.m = 2 ∧ x.d = 29
        · right
          cases hl : isLeap ((x.y : Int) + k).toNat with
          | true => rfl
          | false => exact absurd ⟨hk, hf.1, hf.2, by simp [hl]⟩ hc
        · left; exact hf
    simp only [v, if_true]; exact ⟨_, rfl⟩

/-- `generateDates_monthday` under the EXACT guard: the reference is at midnight OR the stated day is not the reference's
own day of this year. -/
theorem generateDates_monthday_exact (R : DateTime) (hv : R.date.valid = true) (m d : Nat) (he : everyYear m d)
    (hy1 : 2 ≤ R.date.y) (hy2 : R.date.y ≤ 9998) (hs : R.secs = 0 ∨ (⟨R.date.y, m, d⟩ : Date).ord ≠ R.date.ord) :
    ∃ Y : Nat, generateDates true R R.date.y m d = (⟨⟨Y + 1, m, d⟩, 0⟩, ⟨⟨Y, m, d⟩, 0⟩) ∧
      (⟨Y, m, d⟩ : Date).valid = true ∧ (⟨Y + 1, m, d⟩ : Date).valid = true ∧
      (⟨Y, m, d⟩ : Date).ord < R.date.ord ∧ R.date.ord ≤ (⟨Y + 1, m, d⟩ : Date).ord := by
  have v0 := valid_everyYear R.date.y m d he (by omega) (by omega)
  have vp := valid_everyYear (R.date.y - 1) m d he (by omega) (by omega)
  have vn := valid_everyYear (R.date.y + 1) m d he (by omega) (by omega)
  have b0 := ord_bounds _ v0
  have bp := ord_bounds _ vp
  have bn := ord_bounds _ vn
  have bR := ord_bounds _ hv
  have e1 : R.date.y - 1 + 1 = R.date.y := by omega
  simp only [e1] at bp b0 bn
  unfold generateDates
  simp only [if_true, not_feb29_everyYear m d he, Bool.false_eq_true, if_false]
  rw [isValidDate_of_valid ⟨R.date.y, m, d⟩ v0, int_pred _ (by omega), int_succ,
    safeCreate_ymd _ m d v0, safeCreate_ymd _ m d vp, safeCreate_ymd _ m d vn]
  simp only [Bool.and_true]
  by_cases c : (⟨R.date.y, m, d⟩ : Date).ord < R.date.ord
  · have l : (DateTime.lt ⟨⟨R.date.y, m, d⟩, 0⟩ R) = true := by rw [lt_iff]; left; exact c
    have g : ¬ (DateTime.le R ⟨⟨R.date.y, m, d⟩, 0⟩ = true) := by rw [le_iff]; simp only; omega
    rw [if_pos l, if_neg g]
    exact ⟨R.date.y, rfl, v0, vn, c, by omega⟩
  · have l : ¬ (DateTime.lt ⟨⟨R.date.y, m, d⟩, 0⟩ R) = true := by rw [lt_iff]; simp only; omega
    have g : (DateTime.le R ⟨⟨R.date.y, m, d⟩, 0⟩ = true) := by rw [le_iff]; simp only; omega
    rw [if_neg l, if_pos g]
    refine ⟨R.date.y - 1, ?_, vp, by rw [e1]; exact v0, by omega, by rw [e1]; omega⟩
    rw [e1]

/-- … and the guard is exact: when the stated day IS the reference's own day and the reference has a time of day, the
pair is `(next year's, this year's = the reference's date)`: the "past" candidate is not before the reference date. -/
theorem generateDates_monthday_own_day (R : DateTime) (hv : R.date.valid = true) (he : everyYear R.date.m R.date.d)
    (hy1 : 2 ≤ R.date.y) (hy2 : R.date.y ≤ 9998) (hs : 0 < R.secs) :
    generateDates true R R.date.y R.date.m R.date.d = (⟨⟨R.date.y + 1, R.date.m, R.date.d⟩, 0⟩, ⟨R.date, 0⟩) := by
  have v0 : (⟨R.date.y, R.date.m, R.date.d⟩ : Date).valid = true := by cases h : R.date; rw [h] at hv; exact hv
  have vn := valid_everyYear (R.date.y + 1) R.date.m R.date.d he (by omega) (by omega)
  have e0 : (⟨R.date.y, R.date.m, R.date.d⟩ : Date) = R.date := by cases R.date; rfl
  unfold generateDates
  simp only [if_true, not_feb29_everyYear R.date.m R.date.d he, Bool.false_eq_true, if_false]
  rw [isValidDate_of_valid ⟨R.date.y, R.date.m, R.date.d⟩ v0, int_succ,
    safeCreate_ymd _ R.date.m R.date.d v0, safeCreate_ymd _ R.date.m R.date.d vn]
  simp only [Bool.and_true]
  have l : (DateTime.lt ⟨⟨R.date.y, R.date.m, R.date.d⟩, 0⟩ R) = true := by
    rw [lt_iff]; right; simp only [e0]; exact ⟨trivial, hs⟩
  have g : ¬ (DateTime.le R ⟨⟨R.date.y, R.date.m, R.date.d⟩, 0⟩ = true) := by
    rw [le_iff]; simp only [e0]; omega
  rw [if_pos l, if_neg g, e0]
end RTV.DateUtils
