import RTV.Lemmas.Periods
import RTV.Model.Periods2
/-!
Helper lemmas for `RTV/Props/C10Periods2.lean`: the converse of `date_triple_ok` for months and years
(`date_triple_iff`), what `datedelta` does to the day of the month when months / years are added or subtracted
(`months_forward_iff`, `months_backward_iff`, `years_forward_iff`, `years_backward_iff`), `str(year)` against `{year:04d}`,
and calendar facts about leap years used by `sync_year`.
-/
set_option linter.unusedVariables false
set_option linter.unusedSimpArgs false
namespace RTV.WF
open RTV.Cal

/-- `date_triple_ok` as an equivalence for the calendar units: the text `(b,e,P<n>M|Y)` satisfies `tripleOK` exactly when
`e` is `b` shifted by `n` months / years with the day of the month (and the month) kept. -/
theorem date_triple_iff (b e : Date) (hb : b.valid = true) (he : e.valid = true) (n : Nat) (letter : Nat) (u : DUnit)
    (hu : (letter = 77 ∧ u = .MON) ∨ (letter = 89 ∧ u = .Y)) :
    tripleOK (dateTriple b e n letter) (some (formatDate b)) (some (formatDate e)) = true ↔ durHolds b e n u := by
  have hlet : letter ≠ 44 := by rcases hu with h | h <;> omega
  have hs : splitOn 44 (formatDate b ++ 44 :: (formatDate e ++ 44 :: ([80] ++ natStr n ++ [letter]))) =
      [formatDate b, formatDate e, [80] ++ natStr n ++ [letter]] := by
    rw [splitOn_append 44 _ _ (formatDate_no_comma b), splitOn_append 44 _ _ (formatDate_no_comma e),
      splitOn_no_sep]
    intro c hc
    simp only [List.cons_append, List.nil_append, List.mem_cons, List.mem_append, List.mem_singleton] at hc
    rcases hc with hc | hc | hc
    all_goals (first | omega | (have := natStr_digits _ c hc; simp [isDigit] at this; omega) | (simp at hc; omega))
  have hr := duration_timex_reads_back n
  have hd' : parseDuration ([80] ++ natStr n ++ [letter]) = some ((n, 1), u) := by
    rcases hu with ⟨a, c⟩ | ⟨a, c⟩ <;> subst a c
    · simpa [durationTimex] using hr.2.2.2.2.2.1
    · simpa [durationTimex] using hr.2.2.2.2.2.2
  have hpb : parsePoint (formatDate b) = some (some b, none) := by simp [parsePoint, parseDate_formatDate b hb]
  have hpe : parsePoint (formatDate e) = some (some e, none) := by simp [parsePoint, parseDate_formatDate e he]
  have hshape : dateTriple b e n letter =
      40 :: ((formatDate b ++ 44 :: (formatDate e ++ 44 :: ([80] ++ natStr n ++ [letter]))) ++ [41]) := by
    simp [dateTriple]
  have hdrop : ((dateTriple b e n letter).drop 1).dropLast =
      formatDate b ++ 44 :: (formatDate e ++ 44 :: ([80] ++ natStr n ++ [letter])) := by
    rw [hshape, List.drop_one, List.tail_cons, List.dropLast_concat]
  have hhead : (dateTriple b e n letter).head? = some 40 := by rw [hshape]; rfl
  have hlast : (dateTriple b e n letter).getLast? = some 41 := by
    rw [hshape, ← List.cons_append, List.getLast?_concat]
  have hne : natStr n ≠ [] := (natDigits_spec (n + 1) n (by omega)).2.1
  obtain ⟨a, t, hnt⟩ := List.exists_cons_of_ne_nil hne
  have ha : a ≠ 84 := by
    have := natStr_digits n a (by rw [hnt]; simp)
    simp [isDigit] at this; omega
  have hp : ([80] ++ natStr n ++ [letter] : Str) = 80 :: a :: (t ++ [letter]) := by simp [hnt]
  rw [hp] at hs hd' hdrop
  unfold tripleOK
  simp only [hhead, hlast, and_self, if_true, hdrop, hs, hpb, hpe, diffSeconds]
  rcases hu with ⟨_, c⟩ | ⟨_, c⟩ <;> subst c <;> simp only [durHolds]
  · simp [ha, hd']
  · simp [ha, hd']

end RTV.WF

namespace RTV.Periods2
open RTV.Cal RTV.DateUtils RTV.WF RTV.Periods

/-- the day of the month of `x` exists in the month `k` months away -/
def dayFits (x : Date) (k : Int) : Prop :=
  x.d ≤ daysInMonth (shiftMonth x.y x.m k).1.toNat (shiftMonth x.y x.m k).2

theorem some_of_guard {y : Int} {m d : Nat} {r : Date}
    (h : (if 1 ≤ y ∧ y ≤ 9999 then (if (⟨y.toNat, m, d⟩ : Date).valid = true then some (⟨y.toNat, m, d⟩ : Date) else none)
      else none) = some r) :
    1 ≤ y ∧ y ≤ 9999 ∧ (⟨y.toNat, m, d⟩ : Date).valid = true ∧ r = ⟨y.toNat, m, d⟩ := by
  by_cases c : 1 ≤ y ∧ y ≤ 9999
  · rw [if_pos c] at h
    by_cases v : (⟨y.toNat, m, d⟩ : Date).valid = true
    · rw [if_pos v] at h; simp only [Option.some.injEq] at h; exact ⟨c.1, c.2, v, h.symm⟩
    · rw [if_neg v] at h; simp at h
  · rw [if_neg c] at h; simp at h

theorem months_forward_iff (x : Date) (hv : x.valid = true) (n : Nat) (hn : 1 ≤ n) (r : Date)
    (h : datedeltaAdd x 0 (n : Int) 0 = some r) :
    r.valid = true ∧ (durHolds x r n .MON ↔ dayFits x n) := by
  have hx := (valid_iff x).1 hv
  have le31 := daysInMonth_le x.y x.m
  rw [datedeltaAdd_months_eq] at h
  unfold monthStep at h
  have hk : ¬ ((n : Int) = 0) := by omega
  have hk' : (n : Int) > 0 := by omega
  simp only [ne_eq, hk, not_false_eq_true, if_true, hk'] at h
  unfold dayFits shiftMonth durHolds
  simp only
  generalize htot : (x.y : Int) * 12 + ((x.m : Int) - 1) + (n : Int) = total at h ⊢
  have hyy1 : 1 ≤ total / 12 := by omega
  by_cases hyy2 : total / 12 ≤ 9999
  · have hin : 1 ≤ total / 12 ∧ total / 12 ≤ 9999 := ⟨hyy1, hyy2⟩
    simp only [hin, and_self, if_true] at h
    generalize hdim : daysInMonth (total / 12).toNat ((total % 12).toNat + 1) = dim at h ⊢
    by_cases hd : x.d > dim
    · simp only [hd, if_true] at h
      by_cases hm : (total % 12).toNat + 1 + 1 > 12
      · simp only [hm, if_true] at h
        obtain ⟨g1, g2, hvr, hr⟩ := some_of_guard h
        subst hr
        refine ⟨hvr, ?_⟩
        simp only
        constructor
        · intro ⟨a, b⟩; omega
        · intro a; omega
      · simp only [hm, if_false] at h
        obtain ⟨g1, g2, hvr, hr⟩ := some_of_guard h
        subst hr
        refine ⟨hvr, ?_⟩
        simp only
        constructor
        · intro ⟨a, b⟩; omega
        · intro a; omega
    · simp only [hd, if_false] at h
      obtain ⟨g1, g2, hvr, hr⟩ := some_of_guard h
      subst hr
      refine ⟨hvr, ?_⟩
      simp only
      constructor
      · intro _; omega
      · intro _; exact ⟨by omega, trivial⟩
  · exfalso
    have hnot : ¬ (1 ≤ total / 12 ∧ total / 12 ≤ 9999) := by omega
    simp only [hnot, if_false] at h
    have : ¬ x.d > 31 := by omega
    simp only [this, if_false] at h
    have := some_of_guard h
    omega

theorem months_backward_iff (x : Date) (hv : x.valid = true) (n : Nat) (hn : 1 ≤ n) (r : Date)
    (h : datedeltaAdd x 0 (-(n : Int)) 0 = some r) :
    r.valid = true ∧ (durHolds r x n .MON ↔ dayFits x (-(n : Int))) := by
  have hx := (valid_iff x).1 hv
  have le31 := daysInMonth_le x.y x.m
  rw [datedeltaAdd_months_eq] at h
  unfold monthStep at h
  have hk : ¬ (-(n : Int) = 0) := by omega
  have hk' : ¬ (-(n : Int) > 0) := by omega
  simp only [ne_eq, hk, not_false_eq_true, if_true, hk', if_false] at h
  unfold dayFits shiftMonth durHolds
  simp only
  generalize htot : (x.y : Int) * 12 + ((x.m : Int) - 1) + -(n : Int) = total at h ⊢
  have hyy2 : total / 12 ≤ 9999 := by omega
  by_cases hyy1 : 1 ≤ total / 12
  · have hin : 1 ≤ total / 12 ∧ total / 12 ≤ 9999 := ⟨hyy1, hyy2⟩
    simp only [hin, and_self, if_true] at h
    generalize hdim : daysInMonth (total / 12).toNat ((total % 12).toNat + 1) = dim at h ⊢
    by_cases hd : x.d > dim
    · simp only [hd, if_true] at h
      obtain ⟨g1, g2, hvr, hr⟩ := some_of_guard h
      subst hr
      refine ⟨hvr, ?_⟩
      simp only
      constructor
      · intro ⟨a, b⟩; omega
      · intro a; omega
    · simp only [hd, if_false] at h
      obtain ⟨g1, g2, hvr, hr⟩ := some_of_guard h
      subst hr
      refine ⟨hvr, ?_⟩
      simp only
      constructor
      · intro _; omega
      · intro _; exact ⟨by omega, trivial⟩
  · exfalso
    have hnot : ¬ (1 ≤ total / 12 ∧ total / 12 ≤ 9999) := by omega
    simp only [hnot, if_false] at h
    have : ¬ x.d > 31 := by omega
    simp only [this, if_false] at h
    have := some_of_guard h
    omega

/-- 29 February meets a year without one -/
def leapDayLost (x : Date) (k : Int) : Prop := x.m = 2 ∧ x.d = 29 ∧ isLeap ((x.y : Int) + k).toNat = false

theorem years_shift_iff (x : Date) (hv : x.valid = true) (k : Int) (hk : k ≠ 0) (r : Date)
    (h : datedeltaAdd x k 0 0 = some r) :
    r.valid = true ∧ (r.y : Int) = x.y + k ∧ ((r.m = x.m ∧ r.d = x.d) ↔ ¬ leapDayLost x k) := by
  have hx := (valid_iff x).1 hv
  unfold datedeltaAdd at h
  simp only [ne_eq, hk, not_false_eq_true, true_and, not_true_eq_false, if_false, if_true] at h
  unfold leapDayLost
  by_cases c : x.m = 2 ∧ x.d = 29 ∧ (!isLeap ((x.y : Int) + k).toNat) = true
  · rw [if_pos c] at h
    have c3 : isLeap ((x.y : Int) + k).toNat = false := by simpa using c.2.2
    by_cases kp : k > 0
    · simp only [kp, if_true] at h
      obtain ⟨g1, g2, hvr, hr⟩ := some_of_guard h
      subst hr
      refine ⟨hvr, by simp only; omega, ?_⟩
      simp only
      constructor
      · intro ⟨a, b⟩; omega
      · intro a; exact absurd ⟨c.1, c.2.1, c3⟩ a
    · simp only [kp, if_false] at h
      obtain ⟨g1, g2, hvr, hr⟩ := some_of_guard h
      subst hr
      refine ⟨hvr, by simp only; omega, ?_⟩
      simp only
      constructor
      · intro ⟨a, b⟩; omega
      · intro a; exact absurd ⟨c.1, c.2.1, c3⟩ a
  · rw [if_neg c] at h
    obtain ⟨g1, g2, hvr, hr⟩ := some_of_guard h
    subst hr
    refine ⟨hvr, by simp only; omega, ?_⟩
    simp only
    constructor
    · intro _ a; apply c; exact ⟨a.1, a.2.1, by simp [a.2.2]⟩
    · intro _; exact ⟨trivial, trivial⟩

end RTV.Periods2

namespace RTV.Periods2
open RTV.Cal RTV.DateUtils RTV.WF RTV.Periods

theorem natStr_pad4 (Y : Nat) (h1 : 1000 ≤ Y) (h2 : Y ≤ 9999) : natStr Y = pad4 Y := by
  obtain ⟨k, hk⟩ : ∃ k, Y + 1 = k + 4 := ⟨Y - 3, by omega⟩
  unfold natStr
  rw [hk]
  have a1 : ¬ Y < 10 := by omega
  have a2 : ¬ Y / 10 < 10 := by omega
  have a3 : ¬ Y / 10 / 10 < 10 := by omega
  have a4 : Y / 10 / 10 / 10 < 10 := by omega
  simp only [natDigits, a1, a2, a3, a4, if_true, if_false, pad4]
  have e1 : Y / 10 / 10 / 10 = Y / 1000 % 10 := by omega
  have e2 : Y / 10 / 10 % 10 = Y / 100 % 10 := by omega
  have e3 : Y / 10 % 10 = Y / 10 % 10 := rfl
  simp [e1, e2]

theorem replaceXXXX_cons_ne (new : Str) (c : Nat) (rest : Str) (h : c ≠ 88) :
    replaceXXXX new (c :: rest) = c :: replaceXXXX new rest := by
  rw [replaceXXXX.eq_def]
  split
  · rename_i heq; simp at heq; omega
  · rename_i heq; simp at heq; rw [heq.1, heq.2]
  · rename_i heq; simp at heq

theorem replaceXXXX_none (new : Str) (s : Str) (h : ∀ c ∈ s, c ≠ 88) : replaceXXXX new s = s := by
  induction s with
  | nil => simp [replaceXXXX]
  | cons c rest ih =>
    rw [replaceXXXX_cons_ne new c rest (h c (by simp)), ih (fun x hx => h x (by simp [hx]))]

theorem replaceXXXX_head (new rest : Str) : replaceXXXX new (88 :: 88 :: 88 :: 88 :: rest) = new ++ replaceXXXX new rest := by
  simp [replaceXXXX]

/-- `set_timex_with_context` on a no-year date TIMEX `XXXX-MM-DD`: the year is written by `str(year)` — four digits only
for 1000 ≤ year ≤ 9999 -/
theorem setTimex_noYear (Y m d : Nat) (h1 : 1000 ≤ Y) (h2 : Y ≤ 9999) :
    setTimexWithContext (luis none m d) (Y : Int) = formatDate ⟨Y, m, d⟩ := by
  unfold setTimexWithContext luis
  simp only [sXXXX, List.cons_append, List.nil_append]
  rw [replaceXXXX_head, replaceXXXX_none]
  · have : Periods.intStr (Y : Int) = pad4 Y := by
      unfold Periods.intStr
      rw [if_neg (by omega)]
      simpa using natStr_pad4 Y h1 h2
    rw [this]; simp [formatDate]
  · intro c hc
    simp only [pad2, List.cons_append, List.nil_append, List.mem_cons, List.mem_append, List.mem_singleton, List.not_mem_nil, or_false] at hc
    omega

theorem dimL_le_true (b : Bool) (m : Nat) : dimL b m ≤ dimL true m := by
  cases b
  · unfold dimL
    by_cases c : m = 2
    · subst c; decide
    · have : (m == 2) = false := by simpa using c
      simp [this]
  · exact Nat.le_refl _

/-- a month / day that exists in some year exists in every leap year -/
theorem valid_in_leap (y m d Y : Nat) (hv : (⟨y, m, d⟩ : Date).valid = true) (hl : isLeap Y = true) (h1 : 1 ≤ Y) (h2 : Y ≤ 9999) :
    (⟨Y, m, d⟩ : Date).valid = true := by
  have a := (valid_iff ⟨y, m, d⟩).1 hv
  rw [valid_iff]
  simp only at a ⊢
  refine ⟨h1, h2, a.2.2.1, a.2.2.2.1, a.2.2.2.2.1, ?_⟩
  have := a.2.2.2.2.2
  rw [daysInMonth_dimL] at this ⊢
  rw [hl]
  exact Nat.le_trans this (dimL_le_true _ _)

/-- a valid 29 February lies in a leap year -/
theorem feb29_leap (x : Date) (hv : x.valid = true) (hm : x.m = 2) (hd : x.d = 29) : isLeap x.y = true := by
  have a := (valid_iff x).1 hv
  rw [hm, hd, daysInMonth_dimL] at a
  cases h : isLeap x.y
  · rw [h] at a
    have : dimL false 2 = 28 := by decide
    omega
  · rfl

theorem swiftDate_months (x : DateTime) (hv : x.date.valid = true) (n : Nat) (hn : 1 ≤ n) (pos : Bool) (r : DateTime)
    (h : swiftDate x .M n pos = some r) :
    r.date.valid = true ∧ r.secs = x.secs ∧
    (pos = true → (durHolds x.date r.date n .MON ↔ dayFits x.date n)) ∧
    (pos = false → (durHolds r.date x.date n .MON ↔ dayFits x.date (-(n : Int)))) := by
  unfold swiftDate at h
  rw [if_neg (by omega)] at h
  simp only at h
  unfold addDelta at h
  cases pos with
  | true =>
    simp only [if_true] at h
    cases hd : datedeltaAdd x.date 0 (n : Int) 0 with
    | none => simp [hd] at h
    | some r0 =>
      simp only [hd, Option.map_some, Option.some.injEq] at h
      subst h
      have s := months_forward_iff x.date hv n hn r0 hd
      exact ⟨s.1, rfl, fun _ => s.2, fun c => by simp at c⟩
  | false =>
    simp only [Bool.false_eq_true, if_false] at h
    cases hd : datedeltaAdd x.date 0 (-(n : Int)) 0 with
    | none => simp [hd] at h
    | some r0 =>
      simp only [hd, Option.map_some, Option.some.injEq] at h
      subst h
      have s := months_backward_iff x.date hv n hn r0 hd
      exact ⟨s.1, rfl, fun c => by simp at c, fun _ => s.2⟩

theorem swiftDate_years (x : DateTime) (hv : x.date.valid = true) (n : Nat) (hn : 1 ≤ n) (pos : Bool) (r : DateTime)
    (h : swiftDate x .Y n pos = some r) :
    r.date.valid = true ∧ r.secs = x.secs ∧
    (pos = true → (durHolds x.date r.date n .Y ↔ ¬ leapDayLost x.date n)) ∧
    (pos = false → (durHolds r.date x.date n .Y ↔ ¬ leapDayLost x.date (-(n : Int)))) := by
  unfold swiftDate at h
  rw [if_neg (by omega)] at h
  simp only at h
  unfold addDelta at h
  cases pos with
  | true =>
    simp only [if_true] at h
    cases hd : datedeltaAdd x.date (n : Int) 0 0 with
    | none => simp [hd] at h
    | some r0 =>
      simp only [hd, Option.map_some, Option.some.injEq] at h
      subst h
      have s := years_shift_iff x.date hv n (by omega) r0 hd
      refine ⟨s.1, rfl, fun _ => ?_, fun c => by simp at c⟩
      rw [← s.2.2]; simp only [durHolds]
      constructor
      · intro ⟨_, b, c⟩; exact ⟨b.symm, c.symm⟩
      · intro ⟨b, c⟩; exact ⟨by omega, b.symm, c.symm⟩
  | false =>
    simp only [Bool.false_eq_true, if_false] at h
    cases hd : datedeltaAdd x.date (-(n : Int)) 0 0 with
    | none => simp [hd] at h
    | some r0 =>
      simp only [hd, Option.map_some, Option.some.injEq] at h
      subst h
      have s := years_shift_iff x.date hv (-(n : Int)) (by omega) r0 hd
      refine ⟨s.1, rfl, fun c => by simp at c, fun _ => ?_⟩
      rw [← s.2.2]; simp only [durHolds]
      constructor
      · intro ⟨_, b, c⟩; exact ⟨b, c⟩
      · intro ⟨b, c⟩; exact ⟨by omega, b, c⟩

/-- the calendar units of `_parse_duration` -/
def calUnit : PerUnit → WF.DUnit
  | .M => .MON | .Y => .Y | .W => .W | .D => .D

/-- shifting `x` by `k` months / years keeps its day of the month (months: the day exists in the target month; years: not
a 29 February that meets a year without one) -/
def shiftKeeps (u : PerUnit) (x : Date) (k : Int) : Prop :=
  match u with
  | .M => dayFits x k
  | .Y => ¬ leapDayLost x k
  | _ => True

theorem swiftDate_cal (u : PerUnit) (hu : u = .M ∨ u = .Y) (x : DateTime) (hv : x.date.valid = true) (n : Nat) (hn : 1 ≤ n)
    (pos : Bool) (r : DateTime) (h : swiftDate x u n pos = some r) :
    r.date.valid = true ∧ r.secs = x.secs ∧
    (pos = true → (durHolds x.date r.date n (calUnit u) ↔ shiftKeeps u x.date n)) ∧
    (pos = false → (durHolds r.date x.date n (calUnit u) ↔ shiftKeeps u x.date (-(n : Int)))) := by
  rcases hu with c | c <;> subst c
  · exact swiftDate_months x hv n hn pos r h
  · exact swiftDate_years x hv n hn pos r h

theorem triple_tx (b' e' : DateTime) (cnt : Nat) (letter : Nat) :
    [40] ++ luisOf b' ++ [44] ++ luisOf e' ++ [44, 80] ++ natStr cnt ++ [letter, 41] = dateTriple b'.date e'.date cnt letter := by
  simp [dateTriple, luisOf]

theorem cal_letter (u : PerUnit) (hu : u = .M ∨ u = .Y) :
    (u.letter = 77 ∧ calUnit u = .MON) ∨ (u.letter = 89 ∧ calUnit u = .Y) := by
  rcases hu with c | c <;> subst c <;> simp [PerUnit.letter, calUnit]

theorem intStr10 : Periods.intStr 10 = natStr 10 := by decide

end RTV.Periods2
