import RTV.Lemmas.NumCjk
/-! kernel evaluation of the typed `get_int_value` walk (int / binary64), numerals 6000..6999 -/
namespace RTV.NumCjk
theorem ja_l60 : jaLoopChunk 60 = true := by decide +kernel
theorem ja_l61 : jaLoopChunk 61 = true := by decide +kernel
theorem ja_l62 : jaLoopChunk 62 = true := by decide +kernel
theorem ja_l63 : jaLoopChunk 63 = true := by decide +kernel
theorem ja_l64 : jaLoopChunk 64 = true := by decide +kernel
theorem ja_l65 : jaLoopChunk 65 = true := by decide +kernel
theorem ja_l66 : jaLoopChunk 66 = true := by decide +kernel
theorem ja_l67 : jaLoopChunk 67 = true := by decide +kernel
theorem ja_l68 : jaLoopChunk 68 = true := by decide +kernel
theorem ja_l69 : jaLoopChunk 69 = true := by decide +kernel
end RTV.NumCjk
