import RTV.Model.ChoiceEnv
/-!
Finite enumerations for C20 and the equality of the formula-driven (`fast*`) and the table-driven environment.
The heavy kernel evaluations live in `RTV/Lemmas/ChoiceDecA.lean` / `ChoiceDecB.lean` (built in parallel).
-/
namespace RTV.Choice
open RTV.Re RTV.Py

/-! ### `fastEnv = genEnv` -/

theorem fast_tables_ascii : ∀ c, c < 128 →
    (asciiTables.digit c = RTV.Gen.reTables.digit c ∧ asciiTables.word c = RTV.Gen.reTables.word c ∧
      asciiTables.space c = RTV.Gen.reTables.space c) := by decide +kernel

theorem tables_ext (A B : Tables) (hd : A.digit = B.digit) (hw : A.word = B.word) (hs : A.space = B.space) :
    A = B := by
  cases A; cases B; simp_all

theorem fastTables_eq : fastTables = RTV.Gen.reTables := by
  have h := fast_tables_ascii
  have hd : fastTables.digit = RTV.Gen.reTables.digit := by
    funext c
    show (if c < 128 then asciiTables.digit c else RTV.Gen.reTables.digit c) = _
    by_cases hc : c < 128
    · rw [if_pos hc]; exact (h c hc).1
    · rw [if_neg hc]
  have hw : fastTables.word = RTV.Gen.reTables.word := by
    funext c
    show (if c < 128 then asciiTables.word c else RTV.Gen.reTables.word c) = _
    by_cases hc : c < 128
    · rw [if_pos hc]; exact (h c hc).2.1
    · rw [if_neg hc]
  have hs : fastTables.space = RTV.Gen.reTables.space := by
    funext c
    show (if c < 128 then asciiTables.space c else RTV.Gen.reTables.space c) = _
    by_cases hc : c < 128
    · rw [if_pos hc]; exact (h c hc).2.2
    · rw [if_neg hc]
  exact tables_ext _ _ hd hw hs

theorem fast_lower_ascii : ∀ c, c < 128 →
    [if 65 ≤ c ∧ c ≤ 90 then c + 32 else c] =
      RTV.Preprocess.lowerFull RTV.Gen.lowerPairs RTV.Gen.lowerExpanding c := by decide +kernel

theorem fast_emoji_ascii : ∀ c, c < 128 → tableEmoji c = false := by decide +kernel

theorem fast_space_ascii : ∀ c, c < 128 →
    ((9 ≤ c && c ≤ 13) || (28 ≤ c && c ≤ 32)) = tableSpace c := by decide +kernel

theorem fastEnv_eq : fastEnv = genEnv := by
  have h1 : (RTV.Preprocess.lowerWith fastLowerC) = tableLower := by
    unfold tableLower
    have : fastLowerC = RTV.Preprocess.lowerFull RTV.Gen.lowerPairs RTV.Gen.lowerExpanding := by
      funext c
      unfold fastLowerC
      by_cases hc : c < 128
      · rw [if_pos hc]; exact fast_lower_ascii c hc
      · rw [if_neg hc]
    rw [this]
  have h2 : fastEmoji = tableEmoji := by
    funext c; unfold fastEmoji
    by_cases hc : c < 128
    · rw [if_pos hc]; exact (fast_emoji_ascii c hc).symm
    · rw [if_neg hc]
  have h3 : fastSpace = tableSpace := by
    funext c; unfold fastSpace
    by_cases hc : c < 128
    · rw [if_pos hc]; exact fast_space_ascii c hc
    · rw [if_neg hc]
  unfold fastEnv genEnv
  rw [fastTables_eq, h1, h2, h3]

theorem fastEnvPreFix_eq : fastEnvPreFix = genEnvPreFix := by
  unfold fastEnvPreFix genEnvPreFix; rw [fastEnv_eq]

theorem fastEnvPreFix2_eq : fastEnvPreFix2 = genEnvPreFix2 := by
  unfold fastEnvPreFix2 genEnvPreFix2; rw [fastEnv_eq]

/-! ### the finite families -/

def upA (c : Nat) : Nat := if 97 ≤ c ∧ c ≤ 122 then c - 32 else c
/-- Title case: the first letter and every letter after a blank -/
def titleGo : Bool → Str → Str
  | _, [] => []
  | up, c :: r => (if up then upA c else c) :: titleGo (c == 32) r
/-- lower, UPPER, Title (duplicates removed: emoji have one form) -/
def variants (w : Str) : List Str := [w, w.map upA, titleGo true w].eraseDups

/-- a member of the regenerated regex's finite language is an *alternative* when it is a lower-case ASCII word
(blanks allowed; `\s+` appears as its one-blank instance) or one non-ASCII code point (an emoji) -/
def plausible (w : Str) : Bool :=
  (w ≠ [] && w.all fun c => (97 ≤ c && c ≤ 122) || c == 32) || (w.length == 1 && w.all (· ≥ 128))

/-- the alternatives of polarity `b`, enumerated from the regenerated (rewritten) regex -/
def alts (b : Bool) : List Str :=
  ((enumLang (if b then RTV.Gen.boolTrueRegex else RTV.Gen.boolFalseRegex)).getD []).filter plausible |>.eraseDups

/-- (prefix, suffix) contexts: punctuation, blanks, filler words -/
def contexts : List (Str × Str) :=
  [([], []), ([], [46]), ([32], [32]), ([40], [41]), (ofString "um ", ofString " please"),
   (ofString "hmm... ", ofString " ..."), (ofString "well, ", [33]), ([9], [10])]

def expected (c : Str × Str) (v : Str) (b : Bool) : Option (List MR) :=
  some [⟨c.1.length, (c.1.length : Int) + v.length - 1, v, b, true⟩]

def polarityOK (E : Env) (b : Bool) : Bool :=
  (alts b).all fun w => (variants w).all fun v => contexts.all fun c =>
    recognise E (c.1 ++ v ++ c.2) == expected c v b

def neutralPool : List Str :=
  [[], [32], [32, 32, 9, 10], ofString "maybe", ofString "nobody", ofString "okay", ofString "yesterday",
   ofString "yessir", ofString "notok", ofString "not-okay", ofString "maybe later, perhaps", ofString "42 ?",
   ofString "nobody knows...", ofString "(okay)", ofString "o k", ofString "ye s", [128512], ofString "disagrees"]

def neutralOK (E : Env) : Bool := neutralPool.all fun q => recognise E q == some []

def seps : List Str := [[32], [44, 32]]

/-- one entity; it is a listed expression (text in `alts` of its own polarity, any letter case being lower here)
whose span is where that text stands in `q` -/
def oneListed (q : Str) (r : Option (List MR)) : Bool :=
  match r with
  | some [m] => (alts m.value).contains m.text && sliceI q m.start (m.stop + 1) == m.text && m.scoreZero
  | _ => false

def bothOK (E : Env) : Bool :=
  (alts true).all fun t => (alts false).all fun f => seps.all fun sp =>
    oneListed (t ++ sp ++ f) (recognise E (t ++ sp ++ f)) && oneListed (f ++ sp ++ t) (recognise E (f ++ sp ++ t))

/-- two listed expressions of the same polarity: one entity, a listed expression of that polarity at its own place -/
def samePolarityOK (E : Env) : Bool :=
  [true, false].all fun b => (alts b).all fun w1 => (alts b).all fun w2 =>
    oneListed (w1 ++ [32] ++ w2) (recognise E (w1 ++ [32] ++ w2))

/-- the same expression two and three times (`no no`, `yes yes yes`) -/
def repeatsOK (E : Env) : Bool :=
  [true, false].all fun b => (alts b).all fun w =>
    oneListed (w ++ [32] ++ w) (recognise E (w ++ [32] ++ w)) &&
    oneListed (w ++ [32] ++ w ++ [32] ++ w) (recognise E (w ++ [32] ++ w ++ [32] ++ w))

end RTV.Choice
