import RTV.Model.ChoiceEnv
/-!
Finite enumerations for C20 and the equality of the formula-driven (`fast*`) and the table-driven environment.
The heavy kernel evaluations live in `RTV/Lemmas/ChoiceDecA.lean` / `ChoiceDecB.lean` (built in parallel).
-/
namespace RTV.Choice
open RTV.Re RTV.Py

/-! ### `fastEnv = genEnv` -/

theorem fast_tables_ascii : ∀ c, c < 128 →
    (asciiTables.digit c = RTV.Gen.reTables.digit c ∧ asciiTables.word c = RTV.Gen.reTables.word c ∧
      asciiTables.space c = RTV.Gen.reTables.space c) := by decide +kernel

theorem tables_ext (A B : Tables) (hd : A.digit = B.digit) (hw : A.word = B.word) (hs : A.space = B.space) :
    A = B := by
  cases A; cases B; simp_all

theorem fastTables_eq : fastTables = RTV.Gen.reTables := by
  have h := fast_tables_ascii
  have hd : fastTables.digit = RTV.Gen.reTables.digit := by
    funext c
    show (if c < 128 then asciiTables.digit c else RTV.Gen.reTables.digit c) = _
    by_cases hc : c < 128
    · rw [if_pos hc]; exact (h c hc).1
    · rw [if_neg hc]
  have hw : fastTables.word = RTV.Gen.reTables.word := by
    funext c
    show (if c < 128 then asciiTables.word c else RTV.Gen.reTables.word c) = _
    by_cases hc : c < 128
    · rw [if_pos hc]; exact (h c hc).2.1
    · rw [if_neg hc]
  have hs : fastTables.space = RTV.Gen.reTables.space := by
    funext c
    show (if c < 128 then asciiTables.space c else RTV.Gen.reTables.space c) = _
    by_cases hc : c < 128
    · rw [if_pos hc]; exact (h c hc).2.2
    · rw [if_neg hc]
  exact tables_ext _ _ hd hw hs

theorem fast_lower_ascii : ∀ c, c < 128 →
    [if 65 ≤ c ∧ c ≤ 90 then c + 32 else c] =
      RTV.Preprocess.lowerFull RTV.Gen.lowerPairs RTV.Gen.lowerExpanding c := by decide +kernel

theorem fast_emoji_ascii : ∀ c, c < 128 → tableEmoji c = false := by decide +kernel

theorem fast_space_ascii : ∀ c, c < 128 →
    ((9 ≤ c && c ≤ 13) || (28 ≤ c && c ≤ 32)) = tableSpace c := by decide +kernel

theorem fastEnv_eq : fastEnv = genEnv := by
  have h1 : (RTV.Preprocess.lowerWith fastLowerC) = tableLower := by
    unfold tableLower
    have : fastLowerC = RTV.Preprocess.lowerFull RTV.Gen.lowerPairs RTV.Gen.lowerExpanding := by
      funext c
      unfold fastLowerC
      by_cases hc : c < 128
      · rw [if_pos hc]; exact fast_lower_ascii c hc
      · rw [if_neg hc]
    rw [this]
  have h2 : fastEmoji = tableEmoji := by
    funext c; unfold fastEmoji
    by_cases hc : c < 128
    · rw [if_pos hc]; exact (fast_emoji_ascii c hc).symm
    · rw [if_neg hc]
  have h3 : fastSpace = tableSpace := by
    funext c; unfold fastSpace
    by_cases hc : c < 128
    · rw [if_pos hc]; exact fast_space_ascii c hc
    · rw [if_neg hc]
  unfold fastEnv genEnv
  rw [fastTables_eq, h1, h2, h3]

theorem fastEnvPreFix_eq : fastEnvPreFix = genEnvPreFix := by
  unfold fastEnvPreFix genEnvPreFix; rw [fastEnv_eq]

theorem fastEnvPreFix2_eq : fastEnvPreFix2 = genEnvPreFix2 := by
  unfold fastEnvPreFix2 genEnvPreFix2; rw [fastEnv_eq]

theorem fastEnvPreFix3_eq : fastEnvPreFix3 = genEnvPreFix3 := by
  unfold fastEnvPreFix3 genEnvPreFix3; rw [fastEnv_eq]

/-! ### the finite families -/

def upA (c : Nat) : Nat := if 97 ≤ c ∧ c ≤ 122 then c - 32 else c
/-- Title case: the first letter and every letter after a blank -/
def titleGo : Bool → Str → Str
  | _, [] => []
  | up, c :: r => (if up then upA c else c) :: titleGo (c == 32) r
/-- lower, UPPER, Title (duplicates removed: emoji have one form) -/
def variants (w : Str) : List Str := [w, w.map upA, titleGo true w].eraseDups

/-- the skin-tone modifiers U+1F3FB … U+1F3FF (`EnglishChoice.SkinToneRegex`) -/
def isSkinTone (c : Nat) : Bool := 127995 ≤ c && c ≤ 127999

/-- a member of the regenerated regex's finite language is an *alternative* when it is a lower-case ASCII word
(blanks allowed; `\s+` appears as its one-blank instance), one non-ASCII code point (an emoji), or an emoji followed
by a skin-tone modifier (two code points: `(👍|👌)(🏻|🏼|🏽|🏾|🏿)?`) — that is, every member of the language
(`altsComplete`): the filter only guards against a resource whose language has members of another shape -/
def plausible (w : Str) : Bool :=
  (w ≠ [] && w.all fun c => (97 ≤ c && c ≤ 122) || c == 32) || (w.length == 1 && w.all (· ≥ 128)) ||
  (match w with | [e, s] => e ≥ 128 && isSkinTone s | _ => false)

/-- the word and bare-emoji alternatives (no skin-tone modifier) -/
def isCore (w : Str) : Bool := !(match w with | [_, s] => isSkinTone s | _ => false)

def langOf (b : Bool) : Option (List Str) := enumLang (if b then RTV.Gen.boolTrueRegex else RTV.Gen.boolFalseRegex)

/-- the alternatives of polarity `b`, enumerated from the regenerated (rewritten) regex: words, emoji, and emoji with
each of the five skin-tone modifiers -/
def alts (b : Bool) : List Str := ((langOf b).getD []).filter plausible |>.eraseDups

/-- … of these, the words and the bare emoji -/
def altsCore (b : Bool) : List Str := (alts b).filter isCore
/-- … and the emoji + skin-tone sequences -/
def altsSkin (b : Bool) : List Str := (alts b).filter (!isCore ·)

/-- the regex's language is finite and nothing of it is dropped by `plausible` -/
def altsComplete (b : Bool) : Bool := (langOf b).isSome && ((langOf b).getD []).all plausible

/-- (prefix, suffix) contexts: punctuation, blanks, filler words -/
def contexts : List (Str × Str) :=
  [([], []), ([], [46]), ([32], [32]), ([40], [41]), (ofString "um ", ofString " please"),
   (ofString "hmm... ", ofString " ..."), (ofString "well, ", [33]), ([9], [10])]

/-- a score inside `[0, 1]`, as a fraction with a positive denominator -/
def inUnit (s : Score) : Bool := decide (0 < s.den) && decide (0 ≤ s.num) && decide (s.num ≤ s.den)

/-- exactly one entity: the expression `v` of polarity `b` standing after the prefix `c.1`, with a score in `[0, 1]` -/
def isExpected (c : Str × Str) (v : Str) (b : Bool) (r : Option (List MR)) : Bool :=
  match r with
  | some [m] => m.start == c.1.length && m.stop == (c.1.length : Int) + v.length - 1 && m.text == v && m.value == b &&
      inUnit m.score
  | _ => false

theorem isExpected_spec (c : Str × Str) (v : Str) (b : Bool) (r : Option (List MR)) (h : isExpected c v b r = true) :
    ∃ sc, r = some [⟨c.1.length, (c.1.length : Int) + v.length - 1, v, b, sc⟩] ∧ inUnit sc = true := by
  unfold isExpected at h
  match r, h with
  | some [m], h =>
    simp only [Bool.and_eq_true, beq_iff_eq] at h
    obtain ⟨⟨⟨⟨h1, h2⟩, h3⟩, h4⟩, h5⟩ := h
    refine ⟨m.score, ?_, h5⟩
    cases m
    simp_all

/-- every alternative of `ws` × letter case × context: one entity, exactly that expression, polarity `b` -/
def polarityOn (E : Env) (b : Bool) (ws : List Str) : Bool :=
  ws.all fun w => (variants w).all fun v => contexts.all fun c =>
    isExpected c v b (recognise E (c.1 ++ v ++ c.2))

def polarityOK (E : Env) (b : Bool) : Bool := polarityOn E b (alts b)

/-- a SAMPLE of neutral texts: empty, blank, words that merely contain an alternative, another emoji, a lone skin-tone
modifier, a modifier after another emoji, a modifier inside a word -/
def neutralPool : List Str :=
  [[], [32], [32, 32, 9, 10], ofString "maybe", ofString "nobody", ofString "okay", ofString "yesterday",
   ofString "yessir", ofString "notok", ofString "not-okay", ofString "maybe later, perhaps", ofString "42 ?",
   ofString "nobody knows...", ofString "(okay)", ofString "o k", ofString "ye s", [128512], ofString "disagrees",
   [127997], [128512, 127997], [121, 101, 127997, 115]]

/-- neither regex has a non-empty match in the lower-cased text: what "contains none of the listed expressions"
means to the code (`regex.finditer` over `trimmed_source`) -/
def noMatch (E : Env) (q : Str) : Bool :=
  (getMatches E E.trueRe (E.lower q)).isEmpty && (getMatches E E.falseRe (E.lower q)).isEmpty

/-- the pool: nothing is reported, and each string is an instance of the universal clause (`noMatch`) -/
def neutralOK (E : Env) : Bool := neutralPool.all fun q => recognise E q == some [] && noMatch E q

def seps : List Str := [[32], [44, 32]]

/-- one entity; it is a listed expression (text in `alts` of its own polarity, any letter case being lower here)
whose span is where that text stands in `q`; its score lies in `[0, 1]` -/
def oneListed (q : Str) (r : Option (List MR)) : Bool :=
  match r with
  | some [m] => (alts m.value).contains m.text && sliceI q m.start (m.stop + 1) == m.text && inUnit m.score
  | _ => false

/-- (t, f) in both orders around the separator -/
def bothPair (E : Env) (t f sp : Str) : Bool :=
  oneListed (t ++ sp ++ f) (recognise E (t ++ sp ++ f)) && oneListed (f ++ sp ++ t) (recognise E (f ++ sp ++ t))

/-- every word / bare-emoji affirmative × every word / bare-emoji negative × both separators × both orders -/
def bothOK (E : Env) : Bool :=
  (altsCore true).all fun t => (altsCore false).all fun f => seps.all fun sp => bothPair E t f sp

/-- the affirmatives `ts` × every negative, separated by one blank, both orders — the pairs in which at least one
side carries a skin-tone modifier (the others are in `bothOK`) -/
def bothSkinOn (E : Env) (ts : List Str) : Bool :=
  ts.all fun t => (alts false).all fun f => (isCore t && isCore f) || bothPair E t f [32]

/-- two listed expressions of the same polarity (words / bare emoji): one entity, a listed expression of that
polarity at its own place -/
def samePolarityOK (E : Env) : Bool :=
  [true, false].all fun b => (altsCore b).all fun w1 => (altsCore b).all fun w2 =>
    oneListed (w1 ++ [32] ++ w2) (recognise E (w1 ++ [32] ++ w2))

/-- every ordered pair `(w1, w2)`, `w1 ∈ ws`, of one polarity in which at least one side carries a skin-tone modifier -/
def sameSkinOn (E : Env) (b : Bool) (ws : List Str) : Bool :=
  ws.all fun w1 => (alts b).all fun w2 =>
    (isCore w1 && isCore w2) || oneListed (w1 ++ [32] ++ w2) (recognise E (w1 ++ [32] ++ w2))

/-- the same expression two and three times (`no no`, `yes yes yes`, `👍🏽 👍🏽`) -/
def repeatsOK (E : Env) : Bool :=
  [true, false].all fun b => (alts b).all fun w =>
    oneListed (w ++ [32] ++ w) (recognise E (w ++ [32] ++ w)) &&
    oneListed (w ++ [32] ++ w ++ [32] ++ w) (recognise E (w ++ [32] ++ w ++ [32] ++ w))

/-! ### the universal clause (any environment, any text) -/

theorem partialFor_nil (E : Env) (source trimmed : Str) (toks : List Str) (re : RE) (v : Bool)
    (h : getMatches E re trimmed = []) : partialFor E source trimmed toks re v = some [] := by
  unfold partialFor; rw [h]; rfl

/-- `extract` with no regex match on either side reports nothing (blank text included) -/
theorem extract_noMatch (E : Env) (q : Str) (h : noMatch E q = true) : extract E q = some [] := by
  unfold noMatch at h
  simp only [Bool.and_eq_true, List.isEmpty_iff] at h
  unfold extract
  by_cases hb : strip E.isSpace q = []
  · simp [hb]
  · simp only [hb, if_false]
    rw [partialFor_nil E _ _ _ _ _ h.1, partialFor_nil E _ _ _ _ _ h.2]
    simp

/-! ### assembling the split kernel evaluations -/

theorem bothSkinOn_take_drop (E : Env) (l : List Str) (n : Nat) (h1 : bothSkinOn E (l.take n) = true)
    (h2 : bothSkinOn E (l.drop n) = true) : bothSkinOn E l = true := by
  unfold bothSkinOn at *
  rw [← List.take_append_drop n l, List.all_append, h1, h2]; rfl

theorem sameSkinOn_take_drop (E : Env) (b : Bool) (l : List Str) (n : Nat) (h1 : sameSkinOn E b (l.take n) = true)
    (h2 : sameSkinOn E b (l.drop n) = true) : sameSkinOn E b l = true := by
  unfold sameSkinOn at *
  rw [← List.take_append_drop n l, List.all_append, h1, h2]; rfl

theorem mem_altsCore (b : Bool) (w : Str) (hw : w ∈ alts b) (hc : isCore w = true) : w ∈ altsCore b := by
  unfold altsCore; exact List.mem_filter.2 ⟨hw, hc⟩

/-- every (affirmative, negative) pair of ALL alternatives around one blank, from the two evaluations -/
theorem both_all (E : Env) (h1 : bothOK E = true) (h2 : bothSkinOn E (alts true) = true) :
    ∀ t ∈ alts true, ∀ f ∈ alts false, bothPair E t f [32] = true := by
  intro t ht f hf
  by_cases hc : (isCore t && isCore f) = true
  · simp only [Bool.and_eq_true] at hc
    unfold bothOK at h1
    have := List.all_eq_true.1 (List.all_eq_true.1 (List.all_eq_true.1 h1 t (mem_altsCore _ _ ht hc.1)) f
      (mem_altsCore _ _ hf hc.2)) [32] (by simp [seps])
    exact this
  · unfold bothSkinOn at h2
    have := List.all_eq_true.1 (List.all_eq_true.1 h2 t ht) f hf
    simp only [Bool.or_eq_true] at this
    rcases this with h | h
    · exact absurd h hc
    · exact h

/-- every ordered pair of one polarity of ALL alternatives, from the two evaluations -/
theorem same_all (E : Env) (b : Bool) (h1 : samePolarityOK E = true) (h2 : sameSkinOn E b (alts b) = true) :
    ∀ w1 ∈ alts b, ∀ w2 ∈ alts b, oneListed (w1 ++ [32] ++ w2) (recognise E (w1 ++ [32] ++ w2)) = true := by
  intro w1 h1' w2 h2'
  by_cases hc : (isCore w1 && isCore w2) = true
  · simp only [Bool.and_eq_true] at hc
    unfold samePolarityOK at h1
    have hb : b ∈ [true, false] := by cases b <;> simp
    exact List.all_eq_true.1 (List.all_eq_true.1 (List.all_eq_true.1 h1 b hb) w1 (mem_altsCore _ _ h1' hc.1)) w2
      (mem_altsCore _ _ h2' hc.2)
  · unfold sameSkinOn at h2
    have := List.all_eq_true.1 (List.all_eq_true.1 h2 w1 h1') w2 h2'
    simp only [Bool.or_eq_true] at this
    rcases this with h | h
    · exact absurd h hc
    · exact h

end RTV.Choice
