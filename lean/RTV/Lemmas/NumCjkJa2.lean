import RTV.Lemmas.NumCjk
/-! kernel evaluation of the typed `get_int_value` walk (int / binary64), numerals 2000..2999 -/
namespace RTV.NumCjk
theorem ja_l20 : jaLoopChunk 20 = true := by decide +kernel
theorem ja_l21 : jaLoopChunk 21 = true := by decide +kernel
theorem ja_l22 : jaLoopChunk 22 = true := by decide +kernel
theorem ja_l23 : jaLoopChunk 23 = true := by decide +kernel
theorem ja_l24 : jaLoopChunk 24 = true := by decide +kernel
theorem ja_l25 : jaLoopChunk 25 = true := by decide +kernel
theorem ja_l26 : jaLoopChunk 26 = true := by decide +kernel
theorem ja_l27 : jaLoopChunk 27 = true := by decide +kernel
theorem ja_l28 : jaLoopChunk 28 = true := by decide +kernel
theorem ja_l29 : jaLoopChunk 29 = true := by decide +kernel
end RTV.NumCjk
