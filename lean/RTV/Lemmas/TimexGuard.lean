import RTV.Lemmas.TimexGrammar
/-!
The guards of the C14 round-trip theorems are exact (audit item 17): for a date form that is NOT `Combinable`, followed
by any time form, `format_lossy` computes what `timex_value()` prints (`lossy`) and `lossy_fields_differ` shows that this
text has other field values than the string that was parsed — for every configuration satisfying `CfgOK`, digits
universally quantified.  Used by `RTV.Props.C14` (`dt_guard_necessary`, `inRange_exact`).
-/
namespace RTV.Timex
open RTV.Py RTV.Cal
set_option linter.unusedSimpArgs false
set_option linter.unusedVariables false

theorem parse_renderDT_all (cfg : Cfg) (hc : CfgOK cfg) (f : DateForm) (g : TimeForm) :
    parse cfg (renderD f ++ renderT g) =
      Timex.assign cfg.dv {} (dictMerge (extract cfg.dv cfg.date (renderD f)) (extract cfg.dv cfg.time (renderT g))) := by
  cases f <;> (try (rename_i s; cases s)) <;> cases g <;> (try (rename_i p; cases p)) <;>
    simp [parse, parseInto, extractDateTime, renderD, renderT, sPresentRef, indexOf, dch_ne, ne_dch, podStr, seasonStr]

theorem nd (cfg : Cfg) (hc : CfgOK cfg) :
    isDig cfg.dv 88 = false ∧ isDig cfg.dv 45 = false ∧ isDig cfg.dv 87 = false ∧ isDig cfg.dv 58 = false ∧
    isDig cfg.dv 83 = false ∧ isDig cfg.dv 70 = false := by
  refine ⟨?_, ?_, ?_, ?_, ?_, ?_⟩ <;> simp [isDig, hc.dv.2]

syntax "px_simp " ident ident " [" Lean.Parser.Tactic.simpLemma,* "]" : tactic
macro_rules
  | `(tactic| px_simp $cfg:ident $hc:ident [$ts,*]) => `(tactic|
    simp [extract, stdDate, stdTime, xxxx, seasons, partsOfDay, firstSome, matchItems, renderD, renderT, seasonStr,
      isDig_dch $cfg $hc, startsWith, dch_ne, ne_dch, podStr, dictMerge, dictSet, Timex.assign, parseNatDv, dv_dch $cfg $hc,
      (nd $cfg $hc).1, (nd $cfg $hc).2.1, (nd $cfg $hc).2.2.1, (nd $cfg $hc).2.2.2.1, (nd $cfg $hc).2.2.2.2.1,
      (nd $cfg $hc).2.2.2.2.2, Timex.setHour, Timex.setMinute, Timex.setSecond, normT, isDig, (CfgOK.dv $hc).2, $ts,*])

theorem dt_has_time_podDT (cfg : Cfg) (hc : CfgOK cfg) (f : DateForm) :
    let t := Timex.assign cfg.dv {} (dictMerge (extract cfg.dv stdDate (renderD f)) (extract cfg.dv stdTime (renderT (.pod .DT))))
    (t.time.isSome || t.partOfDay.isSome) = true := by
  cases f <;> (try (rename_i s; cases s)) <;> px_simp cfg hc []

theorem dt_has_time_podNI (cfg : Cfg) (hc : CfgOK cfg) (f : DateForm) :
    let t := Timex.assign cfg.dv {} (dictMerge (extract cfg.dv stdDate (renderD f)) (extract cfg.dv stdTime (renderT (.pod .NI))))
    (t.time.isSome || t.partOfDay.isSome) = true := by
  cases f <;> (try (rename_i s; cases s)) <;> px_simp cfg hc []

theorem dt_has_time_podMO (cfg : Cfg) (hc : CfgOK cfg) (f : DateForm) :
    let t := Timex.assign cfg.dv {} (dictMerge (extract cfg.dv stdDate (renderD f)) (extract cfg.dv stdTime (renderT (.pod .MO))))
    (t.time.isSome || t.partOfDay.isSome) = true := by
  cases f <;> (try (rename_i s; cases s)) <;> px_simp cfg hc []

theorem dt_has_time_podAF (cfg : Cfg) (hc : CfgOK cfg) (f : DateForm) :
    let t := Timex.assign cfg.dv {} (dictMerge (extract cfg.dv stdDate (renderD f)) (extract cfg.dv stdTime (renderT (.pod .AF))))
    (t.time.isSome || t.partOfDay.isSome) = true := by
  cases f <;> (try (rename_i s; cases s)) <;> px_simp cfg hc []

theorem dt_has_time_podEV (cfg : Cfg) (hc : CfgOK cfg) (f : DateForm) :
    let t := Timex.assign cfg.dv {} (dictMerge (extract cfg.dv stdDate (renderD f)) (extract cfg.dv stdTime (renderT (.pod .EV))))
    (t.time.isSome || t.partOfDay.isSome) = true := by
  cases f <;> (try (rename_i s; cases s)) <;> px_simp cfg hc []

theorem dt_has_time_h (cfg : Cfg) (hc : CfgOK cfg) (f : DateForm) (h1 h2 : Dg) :
    let t := Timex.assign cfg.dv {} (dictMerge (extract cfg.dv stdDate (renderD f)) (extract cfg.dv stdTime (renderT (.h h1 h2))))
    (t.time.isSome || t.partOfDay.isSome) = true := by
  cases f <;> (try (rename_i s; cases s)) <;> px_simp cfg hc []

theorem dt_has_time_hm (cfg : Cfg) (hc : CfgOK cfg) (f : DateForm) (h1 h2 m1 m2 : Dg) :
    let t := Timex.assign cfg.dv {} (dictMerge (extract cfg.dv stdDate (renderD f)) (extract cfg.dv stdTime (renderT (.hm h1 h2 m1 m2))))
    (t.time.isSome || t.partOfDay.isSome) = true := by
  cases f <;> (try (rename_i s; cases s)) <;> px_simp cfg hc []

theorem dt_has_time_hms (cfg : Cfg) (hc : CfgOK cfg) (f : DateForm) (h1 h2 m1 m2 s1 s2 : Dg) :
    let t := Timex.assign cfg.dv {} (dictMerge (extract cfg.dv stdDate (renderD f)) (extract cfg.dv stdTime (renderT (.hms h1 h2 m1 m2 s1 s2))))
    (t.time.isSome || t.partOfDay.isSome) = true := by
  cases f <;> (try (rename_i s; cases s)) <;> px_simp cfg hc []

/-- the part after `T` always leaves a time of day or a part of day in the fields -/
theorem dt_has_time (cfg : Cfg) (hc : CfgOK cfg) (f : DateForm) (g : TimeForm) :
    ((parse cfg (renderD f ++ renderT g)).time.isSome || (parse cfg (renderD f ++ renderT g)).partOfDay.isSome) = true := by
  rw [parse_renderDT_all cfg hc f _, hc.date, hc.time]
  cases g
  case pod p =>
    cases p
    · exact dt_has_time_podDT cfg hc f
    · exact dt_has_time_podNI cfg hc f
    · exact dt_has_time_podMO cfg hc f
    · exact dt_has_time_podAF cfg hc f
    · exact dt_has_time_podEV cfg hc f
  case h h1 h2 => exact dt_has_time_h cfg hc f h1 h2
  case hm h1 h2 m1 m2 => exact dt_has_time_hm cfg hc f h1 h2 m1 m2
  case hms h1 h2 m1 m2 s1 s2 => exact dt_has_time_hms cfg hc f h1 h2 m1 m2 s1 s2

/-- a date form alone sets neither -/
theorem d_no_time (cfg : Cfg) (hc : CfgOK cfg) (f : DateForm) :
    (parse cfg (renderD f)).time = none ∧ (parse cfg (renderD f)).partOfDay = none := by
  rw [parse_renderD cfg hc, hc.date]
  cases f <;> (try (rename_i s; cases s)) <;> px_simp cfg hc []

theorem parse_nil (cfg : Cfg) (hc : CfgOK cfg) : parse cfg [] = {} := by
  have := extract_date_nil cfg hc
  simp [parse, parseInto, extractDateTime, sPresentRef, indexOf, this, Timex.assign]

/-- a time form alone sets no weekday -/
theorem t_no_dow (cfg : Cfg) (hc : CfgOK cfg) (g : TimeForm) : (parse cfg (renderT g)).dayOfWeek = none := by
  rw [parse_renderT cfg hc, extract_date_nil cfg hc, hc.time]
  cases g <;> (try (rename_i s; cases s)) <;> px_simp cfg hc []

theorem dt_weekday_fields (cfg : Cfg) (hc : CfgOK cfg) (w : Dg) (g : TimeForm) :
    (parse cfg (renderD (.weekday w) ++ renderT g)).dayOfWeek = some (.int w.val) ∧
    (parse cfg (renderD (.weekday w) ++ renderT g)).month = none := by
  rw [parse_renderDT_all cfg hc _ _, hc.date, hc.time]
  cases g <;> (try (rename_i s; cases s)) <;> px_simp cfg hc []

theorem dt_mwd_month (cfg : Cfg) (hc : CfgOK cfg) (m1 m2 w d : Dg) (g : TimeForm) :
    (parse cfg (renderD (.monthweekday m1 m2 w d) ++ renderT g)).month.isSome = true := by
  rw [parse_renderDT_all cfg hc _ _, hc.date, hc.time]
  cases g <;> (try (rename_i s; cases s)) <;> px_simp cfg hc []

/-- what `timex_value()` prints for `<non-combinable date form><time form>`: the date-range text alone (the time of day
/ part of day is dropped); nothing at all for year `0000` / month `00`; the time alone after weekday `0`; and for
`XXXX-MM-WXX-w-d` + part of day the text `XXXX-WXX-d` + part of day (month and week of month are dropped) -/
def lossy (f : DateForm) (g : TimeForm) : Str := match f with
  | .weekday _ => renderT (normT g)
  | .year y1 y2 y3 y4 => if y1.val = 0 ∧ y2.val = 0 ∧ y3.val = 0 ∧ y4.val = 0 then [] else renderD f
  | .month m1 m2 => if m1.val = 0 ∧ m2.val = 0 then [] else renderD f
  | .monthweekday m1 m2 w d =>
    if d.val = 0 then renderD f else match g with
      | .pod p => renderD (.weekday d) ++ renderT g
      | _ => renderD f
  | _ => renderD f

syntax "tx_simp " ident ident " [" Lean.Parser.Tactic.simpLemma,* "]" : tactic
macro_rules
  | `(tactic| tx_simp $cfg:ident $hc:ident [$ts,*]) => `(tactic|
    simp [extract, stdDate, stdTime, xxxx, seasons, partsOfDay, firstSome, matchItems, renderD, renderT, seasonStr,
      isDig_dch $cfg $hc, startsWith, dch_ne, ne_dch, podStr, dictMerge, dictSet, Timex.assign, parseNatDv, dv_dch $cfg $hc,
      (nd $cfg $hc).1, (nd $cfg $hc).2.1, (nd $cfg $hc).2.2.1, (nd $cfg $hc).2.2.2.1, (nd $cfg $hc).2.2.2.2.1,
      (nd $cfg $hc).2.2.2.2.2, Timex.setHour, Timex.setMinute, Timex.setSecond, formatT, formatFuel, infer, isDate,
      isDateRange, isDuration, isTime, isDefinite, truthyO, truthyS, Num.truthy, formatDate, formatTime, formatDateRange,
      formatTimeRange, andChainNotNone, eq0, Num.eqInt, Num.scaled, pow10, Timex.hour, Timex.minute, Timex.second,
      sXXXX, sWXX, normT, bind, Except.bind, pure, Except.pure, fixed2_dg', fixed4_dg', str1_dg', lossy, isDig,
      (CfgOK.dv $hc).2, $ts,*])

syntax "lossy_cases " ident ident ident ident " [" Lean.Parser.Tactic.simpLemma,* "]" : tactic
macro_rules
  | `(tactic| lossy_cases $cfg:ident $hc:ident $f:ident $hf:ident [$ts,*]) => `(tactic|
    (revert $hf:ident
     cases $f:ident <;> intro hf0
     case date => exact absurd trivial hf0
     case openyear => exact absurd trivial hf0
     case weekday w =>
       have hw : w.val = 0 := by simpa [Combinable] using hf0
       have : w = 0 := Fin.ext hw
       subst this
       tx_simp $cfg $hc [$ts,*]
     case year y1 y2 y3 y4 =>
       by_cases hz : y1.val = 0 ∧ y2.val = 0 ∧ y3.val = 0 ∧ y4.val = 0
       · obtain ⟨e1, e2, e3, e4⟩ := hz
         have : y1 = 0 := Fin.ext e1
         have : y2 = 0 := Fin.ext e2
         have : y3 = 0 := Fin.ext e3
         have : y4 = 0 := Fin.ext e4
         subst_vars
         tx_simp $cfg $hc [$ts,*]
       · have hne : ¬ ((((y1.val : Int) * 10 + (y2.val : Int)) * 10 + (y3.val : Int)) * 10 + (y4.val : Int) = 0) := by omega
         have hz' : ¬ (y1 = 0 ∧ y2 = 0 ∧ y3 = 0 ∧ y4 = 0) :=
           fun h => hz ⟨by simp [h.1], by simp [h.2.1], by simp [h.2.2.1], by simp [h.2.2.2]⟩
         tx_simp $cfg $hc [hz, hne, $ts,*]
         exact fun a b c d => hz' ⟨a, b, c, d⟩
     case month m1 m2 =>
       by_cases hz : m1.val = 0 ∧ m2.val = 0
       · obtain ⟨e1, e2⟩ := hz
         have : m1 = 0 := Fin.ext e1
         have : m2 = 0 := Fin.ext e2
         subst_vars
         tx_simp $cfg $hc [$ts,*]
       · have hne : ¬ ((m1.val : Int) * 10 + (m2.val : Int) = 0) := by omega
         have hz' : ¬ (m1 = 0 ∧ m2 = 0) := fun h => hz ⟨by simp [h.1], by simp [h.2]⟩
         tx_simp $cfg $hc [hz, hne, $ts,*]
         exact fun a b => hz' ⟨a, b⟩
     case season s => cases s <;> tx_simp $cfg $hc [$ts,*]
     case yearseason y1 y2 y3 y4 s => cases s <;> tx_simp $cfg $hc [$ts,*]
     case monthweekday m1 m2 w d =>
       by_cases hz : d.val = 0
       · have : d = 0 := Fin.ext hz
         subst this
         tx_simp $cfg $hc [$ts,*]
         try rfl
       · have hne : ¬ ((d.val : Int) = 0) := by omega
         tx_simp $cfg $hc [hz, hne, $ts,*]
     all_goals tx_simp $cfg $hc [$ts,*]))

theorem format_lossy_podDT (cfg : Cfg) (hc : CfgOK cfg) (f : DateForm) (hf : ¬ Combinable f) :
    formatT (Timex.assign cfg.dv {} (dictMerge (extract cfg.dv stdDate (renderD f)) (extract cfg.dv stdTime (renderT (.pod .DT))))) =
      .ok (lossy f (.pod .DT)) := by
  lossy_cases cfg hc f hf []

theorem format_lossy_podNI (cfg : Cfg) (hc : CfgOK cfg) (f : DateForm) (hf : ¬ Combinable f) :
    formatT (Timex.assign cfg.dv {} (dictMerge (extract cfg.dv stdDate (renderD f)) (extract cfg.dv stdTime (renderT (.pod .NI))))) =
      .ok (lossy f (.pod .NI)) := by
  lossy_cases cfg hc f hf []

theorem format_lossy_podMO (cfg : Cfg) (hc : CfgOK cfg) (f : DateForm) (hf : ¬ Combinable f) :
    formatT (Timex.assign cfg.dv {} (dictMerge (extract cfg.dv stdDate (renderD f)) (extract cfg.dv stdTime (renderT (.pod .MO))))) =
      .ok (lossy f (.pod .MO)) := by
  lossy_cases cfg hc f hf []

theorem format_lossy_podAF (cfg : Cfg) (hc : CfgOK cfg) (f : DateForm) (hf : ¬ Combinable f) :
    formatT (Timex.assign cfg.dv {} (dictMerge (extract cfg.dv stdDate (renderD f)) (extract cfg.dv stdTime (renderT (.pod .AF))))) =
      .ok (lossy f (.pod .AF)) := by
  lossy_cases cfg hc f hf []

theorem format_lossy_podEV (cfg : Cfg) (hc : CfgOK cfg) (f : DateForm) (hf : ¬ Combinable f) :
    formatT (Timex.assign cfg.dv {} (dictMerge (extract cfg.dv stdDate (renderD f)) (extract cfg.dv stdTime (renderT (.pod .EV))))) =
      .ok (lossy f (.pod .EV)) := by
  lossy_cases cfg hc f hf []

theorem format_lossy_pod (cfg : Cfg) (hc : CfgOK cfg) (f : DateForm) (p : Pod) (hf : ¬ Combinable f) :
    formatT (Timex.assign cfg.dv {} (dictMerge (extract cfg.dv stdDate (renderD f)) (extract cfg.dv stdTime (renderT (.pod p))))) =
      .ok (lossy f (.pod p)) := by
  cases p
  · exact format_lossy_podDT cfg hc f hf
  · exact format_lossy_podNI cfg hc f hf
  · exact format_lossy_podMO cfg hc f hf
  · exact format_lossy_podAF cfg hc f hf
  · exact format_lossy_podEV cfg hc f hf

theorem format_lossy_h (cfg : Cfg) (hc : CfgOK cfg) (f : DateForm) (h1 h2 : Dg) (hf : ¬ Combinable f) :
    formatT (Timex.assign cfg.dv {} (dictMerge (extract cfg.dv stdDate (renderD f)) (extract cfg.dv stdTime (renderT (.h h1 h2))))) =
      .ok (lossy f (.h h1 h2)) := by
  lossy_cases cfg hc f hf []

theorem format_lossy_hm0 (cfg : Cfg) (hc : CfgOK cfg) (f : DateForm) (h1 h2 : Dg) (hf : ¬ Combinable f) :
    formatT (Timex.assign cfg.dv {} (dictMerge (extract cfg.dv stdDate (renderD f)) (extract cfg.dv stdTime (renderT (.hm h1 h2 0 0))))) =
      .ok (lossy f (.hm h1 h2 0 0)) := by
  lossy_cases cfg hc f hf []

theorem format_lossy_hm (cfg : Cfg) (hc : CfgOK cfg) (f : DateForm) (h1 h2 m1 m2 : Dg) (hf : ¬ Combinable f)
    (hz : ¬ (m1.val = 0 ∧ m2.val = 0)) :
    formatT (Timex.assign cfg.dv {} (dictMerge (extract cfg.dv stdDate (renderD f)) (extract cfg.dv stdTime (renderT (.hm h1 h2 m1 m2))))) =
      .ok (lossy f (.hm h1 h2 m1 m2)) := by
  have hz' : ¬ (m1 = 0 ∧ m2 = 0) := fun h => hz ⟨by simp [h.1], by simp [h.2]⟩
  have hne : ¬ ((m1.val : Int) * 10 + (m2.val : Int) = 0) := by omega
  lossy_cases cfg hc f hf [hz', hne]

theorem format_lossy_hms00 (cfg : Cfg) (hc : CfgOK cfg) (f : DateForm) (h1 h2 : Dg) (hf : ¬ Combinable f) :
    formatT (Timex.assign cfg.dv {} (dictMerge (extract cfg.dv stdDate (renderD f)) (extract cfg.dv stdTime (renderT (.hms h1 h2 0 0 0 0))))) =
      .ok (lossy f (.hms h1 h2 0 0 0 0)) := by
  lossy_cases cfg hc f hf []

theorem format_lossy_hms0 (cfg : Cfg) (hc : CfgOK cfg) (f : DateForm) (h1 h2 m1 m2 : Dg) (hf : ¬ Combinable f)
    (hz : ¬ (m1.val = 0 ∧ m2.val = 0)) :
    formatT (Timex.assign cfg.dv {} (dictMerge (extract cfg.dv stdDate (renderD f)) (extract cfg.dv stdTime (renderT (.hms h1 h2 m1 m2 0 0))))) =
      .ok (lossy f (.hms h1 h2 m1 m2 0 0)) := by
  have hz' : ¬ (m1 = 0 ∧ m2 = 0) := fun h => hz ⟨by simp [h.1], by simp [h.2]⟩
  have hne : ¬ ((m1.val : Int) * 10 + (m2.val : Int) = 0) := by omega
  lossy_cases cfg hc f hf [hz', hne]

theorem format_lossy_hms (cfg : Cfg) (hc : CfgOK cfg) (f : DateForm) (h1 h2 m1 m2 s1 s2 : Dg) (hf : ¬ Combinable f)
    (hs : ¬ (s1.val = 0 ∧ s2.val = 0)) :
    formatT (Timex.assign cfg.dv {} (dictMerge (extract cfg.dv stdDate (renderD f)) (extract cfg.dv stdTime (renderT (.hms h1 h2 m1 m2 s1 s2))))) =
      .ok (lossy f (.hms h1 h2 m1 m2 s1 s2)) := by
  have hs' : ¬ (s1 = 0 ∧ s2 = 0) := fun h => hs ⟨by simp [h.1], by simp [h.2]⟩
  have hne : ¬ ((s1.val : Int) * 10 + (s2.val : Int) = 0) := by omega
  lossy_cases cfg hc f hf [hs', hne]

/-- what `timex_value()` prints for a date form that is NOT combinable, followed by a time form -/
theorem format_lossy (cfg : Cfg) (hc : CfgOK cfg) (f : DateForm) (g : TimeForm) (hf : ¬ Combinable f) :
    formatT (parse cfg (renderD f ++ renderT g)) = .ok (lossy f g) := by
  rw [parse_renderDT_all cfg hc f _, hc.date, hc.time]
  cases g
  case pod p => exact format_lossy_pod cfg hc f p hf
  case h h1 h2 => exact format_lossy_h cfg hc f h1 h2 hf
  case hm h1 h2 m1 m2 =>
    by_cases hz : m1.val = 0 ∧ m2.val = 0
    · have e1 : m1 = 0 := Fin.ext hz.1
      have e2 : m2 = 0 := Fin.ext hz.2
      subst e1 e2
      exact format_lossy_hm0 cfg hc f h1 h2 hf
    · exact format_lossy_hm cfg hc f h1 h2 m1 m2 hf hz
  case hms h1 h2 m1 m2 s1 s2 =>
    by_cases hs : s1.val = 0 ∧ s2.val = 0
    · have e1 : s1 = 0 := Fin.ext hs.1
      have e2 : s2 = 0 := Fin.ext hs.2
      subst e1 e2
      by_cases hz : m1.val = 0 ∧ m2.val = 0
      · have e1 : m1 = 0 := Fin.ext hz.1
        have e2 : m2 = 0 := Fin.ext hz.2
        subst e1 e2
        exact format_lossy_hms00 cfg hc f h1 h2 hf
      · exact format_lossy_hms0 cfg hc f h1 h2 m1 m2 hf hz
    · exact format_lossy_hms cfg hc f h1 h2 m1 m2 s1 s2 hf hs

/-- the round-trip clause of C14 for one string: `timex_value()` is a string whose `Timex` has the same field values and
which formats to itself -/
def RoundTrips (cfg : Cfg) (s : Str) : Prop :=
  ∃ v, formatT (parse cfg s) = .ok v ∧ parse cfg v = parse cfg s ∧ formatT (parse cfg v) = .ok v

theorem not_roundTrips (cfg : Cfg) (s v : Str) (h1 : formatT (parse cfg s) = .ok v) (h2 : parse cfg v ≠ parse cfg s) :
    ¬ RoundTrips cfg s := by
  rintro ⟨v', h1', h2', _⟩
  rw [h1] at h1'; cases h1'; exact h2 h2'

theorem lossy_fields_differ (cfg : Cfg) (hc : CfgOK cfg) (f : DateForm) (g : TimeForm) (hf : ¬ Combinable f) :
    parse cfg (lossy f g) ≠ parse cfg (renderD f ++ renderT g) := by
  intro heq
  have hT := dt_has_time cfg hc f g
  have key : ∀ f', lossy f g = renderD f' → False := by
    intro f' e
    rw [e] at heq
    obtain ⟨a, b⟩ := d_no_time cfg hc f'
    rw [← heq, a, b] at hT
    simp at hT
  have keyNil : lossy f g = [] → False := by
    intro e
    rw [e, parse_nil cfg hc] at heq
    rw [← heq] at hT
    simp at hT
  cases f
  case date => exact hf trivial
  case openyear => exact hf trivial
  case weekday w =>
    have h1 := t_no_dow cfg hc (normT g)
    have h2 := (dt_weekday_fields cfg hc w g).1
    have : lossy (.weekday w) g = renderT (normT g) := rfl
    rw [this] at heq
    rw [heq, h2] at h1
    cases h1
  case year y1 y2 y3 y4 =>
    by_cases hz : y1.val = 0 ∧ y2.val = 0 ∧ y3.val = 0 ∧ y4.val = 0
    · exact keyNil (by simp [lossy, hz])
    · exact key (.year y1 y2 y3 y4) (by simp only [lossy, hz, if_false])
  case month m1 m2 =>
    by_cases hz : m1.val = 0 ∧ m2.val = 0
    · exact keyNil (by simp [lossy, hz])
    · exact key (.month m1 m2) (by simp only [lossy, hz, if_false])
  case monthweekday m1 m2 w d =>
    by_cases hz : d.val = 0
    · exact key (.monthweekday m1 m2 w d) (by simp only [lossy, hz, if_true])
    · cases g
      case pod p =>
        have e : lossy (.monthweekday m1 m2 w d) (.pod p) = renderD (.weekday d) ++ renderT (.pod p) := by
          simp only [lossy, hz, if_false]
        rw [e] at heq
        have h1 := (dt_weekday_fields cfg hc d (.pod p)).2
        have h2 := dt_mwd_month cfg hc m1 m2 w d (.pod p)
        rw [← heq, h1] at h2
        simp at h2
      all_goals exact key (.monthweekday m1 m2 w d) (by simp only [lossy, hz, if_false])
  case yearmonth y1 y2 y3 y4 m1 m2 => exact key (.yearmonth y1 y2 y3 y4 m1 m2) rfl
  case season s => exact key (.season s) rfl
  case yearseason y1 y2 y3 y4 s => exact key (.yearseason y1 y2 y3 y4 s) rfl
  case week y1 y2 y3 y4 w1 w2 => exact key (.week y1 y2 y3 y4 w1 w2) rfl
  case weekend y1 y2 y3 y4 w1 w2 => exact key (.weekend y1 y2 y3 y4 w1 w2) rfl
  case monthweek m1 m2 w1 w2 => exact key (.monthweek m1 m2 w1 w2) rfl

end RTV.Timex
