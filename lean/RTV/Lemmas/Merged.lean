import RTV.Lemmas.Span
import RTV.Model.Merged
/-! Helper lemmas for `RTV.Model.Merged` (C01, C12). -/
namespace RTV.Merged
open RTV.Py RTV.Span

/-! ## membership: the pipeline never invents an entity -/

theorem addOne_mem (skip : ER → Bool) (dst : List ER) (v x : ER) (h : x ∈ addOne skip dst v) : x ∈ dst ∨ x = v := by
  unfold addOne at h
  split at h
  · exact Or.inl h
  · split at h
    · simp only [List.mem_append, List.mem_singleton] at h; exact h
    · split at h
      · rcases insertAtFirst_mem _ _ _ _ h with h | h
        · exact Or.inr h
        · exact Or.inl h.1
      · exact Or.inl h

theorem addTo_mem (skip : ER → Bool) (src : List ER) : ∀ (dst : List ER) (x : ER), x ∈ addTo skip dst src → x ∈ dst ∨ x ∈ src := by
  induction src with
  | nil => intro dst x h; exact Or.inl (by simpa [addTo] using h)
  | cons v rest ih =>
    intro dst x h
    unfold addTo at h
    simp only [List.foldl_cons] at h
    rcases ih _ x (by unfold addTo; exact h) with h | h
    · rcases addOne_mem skip dst v x h with h | h
      · exact Or.inl h
      · exact Or.inr (by simp [h])
    · exact Or.inr (by simp [h])

theorem addChain_mem (inputs : List (List ER)) (x : ER) (h : x ∈ addChain inputs) : ∃ l ∈ inputs, x ∈ l := by
  unfold addChain at h
  have : ∀ (ins : List (List ER)) (dst : List ER), x ∈ ins.foldl (addTo fun _ => false) dst →
      x ∈ dst ∨ ∃ l ∈ ins, x ∈ l := by
    intro ins
    induction ins with
    | nil => intro dst h; exact Or.inl h
    | cons l rest ih =>
      intro dst h
      simp only [List.foldl_cons] at h
      rcases ih _ h with h | ⟨l', hl', hx⟩
      · rcases addTo_mem _ l dst x h with h | h
        · exact Or.inl h
        · exact Or.inr ⟨l, by simp, h⟩
      · exact Or.inr ⟨l', by simp [hl'], hx⟩
  rcases this inputs [] h with h | h
  · simp at h
  · exact h

theorem removeIter_sublist_aux (p : ER → Bool) : ∀ (n : Nat) (l : List ER), l.length ≤ n → (removeIter p l).Sublist l := by
  intro n
  induction n with
  | zero =>
    intro l hl
    cases l with
    | nil => simp [removeIter]
    | cons x r => simp at hl
  | succ n ih =>
    intro l hl
    cases l with
    | nil => simp [removeIter]
    | cons x rest =>
      simp only [List.length_cons] at hl
      unfold removeIter
      split
      · cases rest with
        | nil => simp
        | cons y r =>
          simp only [List.length_cons] at hl
          exact (List.Sublist.cons_cons y (ih r (by omega))).cons x
      · exact List.Sublist.cons_cons x (ih rest (by omega))

theorem removeIter_sublist (p : ER → Bool) (l : List ER) : (removeIter p l).Sublist l :=
  removeIter_sublist_aux p l.length l (Nat.le_refl _)

theorem mem_insertER (v x : ER) (l : List ER) : x ∈ insertER v l ↔ x = v ∨ x ∈ l := by
  induction l with
  | nil => simp [insertER]
  | cons y r ih =>
    unfold insertER
    split
    · simp only [List.mem_cons, ih]
      constructor
      · rintro (h | h | h)
        · exact Or.inr (Or.inl h)
        · exact Or.inl h
        · exact Or.inr (Or.inr h)
      · rintro (h | h | h)
        · exact Or.inr (Or.inl h)
        · exact Or.inl h
        · exact Or.inr (Or.inr h)
    · simp [List.mem_cons]

theorem insertER_pairwise (R : ER → ER → Prop) (hsym : ∀ a b, R a b → R b a) (v : ER) (l : List ER)
    (hl : l.Pairwise R) (hv : ∀ x ∈ l, R v x) : (insertER v l).Pairwise R := by
  induction l with
  | nil => simp [insertER]
  | cons y r ih =>
    rw [List.pairwise_cons] at hl
    unfold insertER
    split
    · rw [List.pairwise_cons]
      refine ⟨?_, ih hl.2 (fun x hx => hv x (by simp [hx]))⟩
      intro z hz
      rcases (mem_insertER v z r).1 hz with rfl | hz
      · exact hsym _ _ (hv y (by simp))
      · exact hl.1 z hz
    · rw [List.pairwise_cons]
      exact ⟨hv, by rw [List.pairwise_cons]; exact hl⟩

theorem sortByStart_spec (R : ER → ER → Prop) (hsym : ∀ a b, R a b → R b a) (es : List ER) :
    (∀ x, x ∈ sortByStart es ↔ x ∈ es) ∧ (es.Pairwise R → (sortByStart es).Pairwise R) := by
  unfold sortByStart
  have : ∀ (l acc : List ER), (∀ x, x ∈ l.foldl (fun acc e => insertER e acc) acc ↔ x ∈ acc ∨ x ∈ l) ∧
      (acc.Pairwise R → l.Pairwise R → (∀ a ∈ acc, ∀ b ∈ l, R a b) →
        (l.foldl (fun acc e => insertER e acc) acc).Pairwise R) := by
    intro l
    induction l with
    | nil => intro acc; simp
    | cons e r ih =>
      intro acc
      simp only [List.foldl_cons]
      have ih' := ih (insertER e acc)
      refine ⟨?_, ?_⟩
      · intro x
        rw [ih'.1 x, mem_insertER]
        simp only [List.mem_cons]
        constructor
        · rintro ((h | h) | h)
          · exact Or.inr (Or.inl h)
          · exact Or.inl h
          · exact Or.inr (Or.inr h)
        · rintro (h | h | h)
          · exact Or.inl (Or.inr h)
          · exact Or.inl (Or.inl h)
          · exact Or.inr h
      · intro hacc hl hx
        rw [List.pairwise_cons] at hl
        apply ih'.2 (insertER_pairwise R hsym e acc hacc (fun x hx' => hsym _ _ (hx x hx' e (by simp)))) hl.2
        intro a ha b hb
        rcases (mem_insertER e a acc).1 ha with rfl | ha
        · exact hl.1 b hb
        · exact hx a ha b (by simp [hb])
  have h := this es []
  exact ⟨by intro x; rw [h.1 x]; simp, fun hp => h.2 (by simp) hp (by simp)⟩

/-! ## add_mod -/

/-- the modifier merges of one entity are well formed: a prefix token index lies inside `before_str`, a suffix
extension stays inside the source. -/
def ModsOK (src : Str) : ER → List ModOp → Prop
  | _, [] => True
  | e, .pre k :: r => k ≤ e.start ∧ e.start ≤ src.length ∧ ModsOK src (applyMod src e (.pre k)) r
  | e, .ext m :: r => e.start + e.len + m ≤ src.length ∧ ModsOK src (applyMod src e (.ext m)) r

theorem applyMods_span (src : Str) (ops : List ModOp) : ∀ (e : ER), ModsOK src e ops →
    e.start + e.len ≤ src.length → e.text = sl src e.start e.len →
    let r := ops.foldl (applyMod src) e
    r.start + r.len ≤ src.length ∧ r.text = sl src r.start r.len ∧ r.start ≤ e.start ∧
      e.start + e.len ≤ r.start + r.len ∧ r.tag = e.tag := by
  induction ops with
  | nil => intro e _ h1 h2; exact ⟨h1, h2, Nat.le_refl _, Nat.le_refl _, rfl⟩
  | cons op rest ih =>
    intro e hok h1 h2
    simp only [List.foldl_cons]
    cases op with
    | pre k =>
      obtain ⟨hk, hs, hr⟩ := hok
      have hmin : min e.start src.length = e.start := by omega
      have e1 : (applyMod src e (.pre k)).start = k := by simp only [applyMod, hmin]; omega
      have e2 : (applyMod src e (.pre k)).len = e.len + (e.start - k) := by simp only [applyMod, hmin]
      have e3 : (applyMod src e (.pre k)).tag = e.tag := rfl
      have h := ih (applyMod src e (.pre k)) hr (by omega) (by simp only [applyMod])
      simp only at h ⊢
      exact ⟨h.1, h.2.1, by omega, by omega, by rw [h.2.2.2.2, e3]⟩
    | ext m =>
      obtain ⟨hm, hr⟩ := hok
      have e1 : (applyMod src e (.ext m)).start = e.start := rfl
      have e2 : (applyMod src e (.ext m)).len = e.len + m := rfl
      have e3 : (applyMod src e (.ext m)).tag = e.tag := rfl
      have h := ih (applyMod src e (.ext m)) hr (by omega) (by simp only [applyMod])
      simp only at h ⊢
      exact ⟨h.1, h.2.1, by omega, by omega, by rw [h.2.2.2.2, e3]⟩

/-! ## the exact condition for one `add_to` step -/

theorem pairwise_mem_ne {l : List ER} (h : l.Pairwise Disjoint) {a b : ER} (ha : a ∈ l) (hb : b ∈ l) (hne : a ≠ b) :
    Disjoint a b := by
  induction l with
  | nil => cases ha
  | cons x r ih =>
    rw [List.pairwise_cons] at h
    simp only [List.mem_cons] at ha hb
    rcases ha with rfl | ha <;> rcases hb with rfl | hb
    · exact absurd rfl hne
    · exact h.1 b hb
    · exact (h.1 a ha).symm
    · exact ih h.2 ha hb

theorem insertAtFirst_has (p : ER → Bool) (v : ER) (l : List ER) (h : ∃ d ∈ l, p d = true) :
    v ∈ insertAtFirst p v l ∧ ∀ d ∈ l, p d = false → d ∈ insertAtFirst p v l := by
  induction l with
  | nil => obtain ⟨d, hd, _⟩ := h; cases hd
  | cons x r ih =>
    unfold insertAtFirst
    split
    · refine ⟨by simp, ?_⟩
      intro d hd hp
      simp only [List.mem_cons] at hd
      rcases hd with rfl | hd
      · simp_all
      · simp [List.mem_filter, hd, hp]
    · rename_i hx
      have hr : ∃ d ∈ r, p d = true := by
        obtain ⟨d, hd, hpd⟩ := h
        simp only [List.mem_cons] at hd
        rcases hd with rfl | hd
        · exact absurd hpd hx
        · exact ⟨d, hd, hpd⟩
      have := ih hr
      refine ⟨by simp [this.1], ?_⟩
      intro d hd hp
      simp only [List.mem_cons] at hd
      rcases hd with rfl | hd
      · simp
      · simp [this.2 d hd hp]

/-- for a pairwise-disjoint destination list, one `add_to` step keeps the list disjoint **iff** the value does
not cross: `NoCrossing` is exactly the condition, not merely a sufficient one. -/
theorem addOne_disjoint_iff (dst : List ER) (v : ER) (hd : dst.Pairwise Disjoint) :
    (addOne (fun _ => false) dst v).Pairwise Disjoint ↔ NoCrossing dst v := by
  constructor
  · intro h hex d hdm hov
    obtain ⟨d', hd', ho', hc'⟩ := hex
    cases hc : cover d v
    · -- d overlaps v, is not covered: both survive next to each other
      exfalso
      have hany : (dst.any fun d => overlap d v) = true := List.any_eq_true.2 ⟨d, hdm, hov⟩
      have hany2 : (dst.any fun d => overlap d v && cover d v) = true :=
        List.any_eq_true.2 ⟨d', hd', by simp [ho', hc']⟩
      unfold addOne at h
      simp only [Bool.false_eq_true, ↓reduceIte, hany, Bool.not_true, hany2] at h
      have hh := insertAtFirst_has (fun d => overlap d v && cover d v) v dst ⟨d', hd', by simp [ho', hc']⟩
      have hdin := hh.2 d hdm (by simp [hov, hc])
      have hne : d ≠ v := by
        intro heq; subst heq
        have := (cover_iff d d).1
        have h2 := (cover_iff d' d).1 hc'
        have h3 := (overlap_iff d' d).1 ho'
        have h4 := pairwise_mem_ne hd hd' hdm
        by_cases he : d' = d
        · subst he; omega
        · have := h4 he; unfold Disjoint at this; omega
      have hdis := pairwise_mem_ne h hdin hh.1 hne
      have := (overlap_iff d v).1 hov
      unfold Disjoint at hdis
      omega
    · rfl
  · exact addOne_disjoint _ dst v hd

/-- nested-or-apart inputs never cross: for a disjoint destination list of non-empty spans, a non-empty value
that is `Laminar` with every destination satisfies `NoCrossing`. -/
theorem noCrossing_of_laminar (dst : List ER) (v : ER) (hd : dst.Pairwise Disjoint)
    (hpos : ∀ d ∈ dst, 0 < d.len) (hlam : ∀ d ∈ dst, Laminar d v) : NoCrossing dst v := by
  intro hex d hdm hov
  obtain ⟨d', hd', ho', hc'⟩ := hex
  have h1 := (overlap_iff d v).1 hov
  have h2 := (cover_iff d' v).1 hc'
  have h3 := (overlap_iff d' v).1 ho'
  have hl := hlam d hdm
  have hp := hpos d' hd'
  have hpd := hpos d hdm
  rw [cover_iff]
  by_cases he : d' = d
  · subst he; exact h2
  · have hdis := pairwise_mem_ne hd hd' hdm he
    unfold Laminar Disjoint at hl
    unfold Disjoint at hdis
    omega

/-! ## the chain -/

theorem noCrossingAll_of_universe (U : ER → Prop) (hlam : ∀ a b, U a → U b → Laminar a b) (hpos : ∀ a, U a → 0 < a.len)
    (src : List ER) : ∀ dst : List ER, (∀ d ∈ dst, U d) → (∀ v ∈ src, U v) → dst.Pairwise Disjoint →
      NoCrossingAll (fun _ => false) dst src ∧ (∀ d ∈ addTo (fun _ => false) dst src, U d) ∧
        (addTo (fun _ => false) dst src).Pairwise Disjoint := by
  induction src with
  | nil => intro dst h1 _ h3; exact ⟨trivial, by simpa [addTo] using h1, by simpa [addTo] using h3⟩
  | cons v rest ih =>
    intro dst h1 h2 h3
    have hv := h2 v (by simp)
    have hnc : NoCrossing dst v :=
      noCrossing_of_laminar dst v h3 (fun d hd => hpos d (h1 d hd)) (fun d hd => hlam d v (h1 d hd) hv)
    have hdis := addOne_disjoint (fun _ => false) dst v h3 hnc
    have hU : ∀ d ∈ addOne (fun _ => false) dst v, U d := by
      intro d hd
      rcases addOne_mem _ dst v d hd with h | rfl
      · exact h1 d h
      · exact hv
    have := ih _ hU (fun x hx => h2 x (by simp [hx])) hdis
    refine ⟨⟨fun _ => hnc, this.1⟩, ?_, ?_⟩
    · unfold addTo; simp only [List.foldl_cons]; exact this.2.1
    · unfold addTo; simp only [List.foldl_cons]; exact this.2.2

theorem chain_of_universe (U : ER → Prop) (hlam : ∀ a b, U a → U b → Laminar a b) (hpos : ∀ a, U a → 0 < a.len)
    (inputs : List (List ER)) : ∀ dst : List ER, (∀ d ∈ dst, U d) → (∀ l ∈ inputs, ∀ v ∈ l, U v) →
      dst.Pairwise Disjoint → ChainNoCrossing dst inputs := by
  induction inputs with
  | nil => intro _ _ _ _; trivial
  | cons l rest ih =>
    intro dst h1 h2 h3
    have h := noCrossingAll_of_universe U hlam hpos l dst h1 (h2 l (by simp)) h3
    exact ⟨h.1, ih _ h.2.1 (fun l' hl' => h2 l' (by simp [hl'])) h.2.2⟩

theorem chain_disjoint (inputs : List (List ER)) : ∀ dst : List ER, dst.Pairwise Disjoint →
    ChainNoCrossing dst inputs → (inputs.foldl (addTo fun _ => false) dst).Pairwise Disjoint := by
  induction inputs with
  | nil => intro dst h _; exact h
  | cons l rest ih =>
    intro dst h hc
    simp only [List.foldl_cons]
    exact ih _ (addTo_disjoint _ l dst h hc.1) hc.2

/-! ## parser push / pop -/

theorem sliceI_nat (s : Str) (a b : Nat) :
    sliceI s (a : Int) (b : Int) = (s.drop (min a s.length)).take (min b s.length - min a s.length) := by
  unfold sliceI
  have h1 : ¬ ((a : Int) < 0) := by omega
  have h2 : ¬ ((b : Int) < 0) := by omega
  simp only [h1, h2, ↓reduceIte]
  have e1 : (min (a : Int) (s.length : Int)).toNat = min a s.length := by omega
  have e2 : (min (b : Int) (s.length : Int)).toNat = min b s.length := by omega
  rw [e1, e2]

theorem sliceI_drop (t : Str) (m : Nat) (h : m ≤ t.length) : sliceI t (m : Int) (t.length : Int) = t.drop m := by
  rw [sliceI_nat]
  have : min m t.length = m := by omega
  rw [this, Nat.min_self]
  exact List.take_of_length_le (by simp)

theorem sl_zero (t : Str) (m : Nat) : sl t 0 m = t.take m := by simp [sl]

theorem take_take_drop (t : Str) (a b : Nat) : t.take a ++ (t.drop a).take b = t.take (a + b) := by
  rw [List.take_add]

/-- the modifier extensions of two entities do not run into each other (exactly what is needed: extensions only
grow a span, so disjointness before `add_mod` is necessary as well). -/
def ExtClear (src : Str) (ops : Nat → List ModOp) (l : List ER) : Prop :=
  ∀ a ∈ l, ∀ b ∈ l, Disjoint a b →
    Disjoint ((ops a.tag).foldl (applyMod src) a) ((ops b.tag).foldl (applyMod src) b)


theorem restore_cut (e : Sp) (c : Nat) (hc : c ≤ e.text.length) (hl : e.len = e.text.length) (m : Str)
    (hm : m = e.text.take c) :
    (⟨(cutFront e c).start - (m.length : Int), (cutFront e c).len + (m.length : Int), m ++ (cutFront e c).text⟩ : Sp) = e := by
  subst hm
  cases e with
  | mk s l t =>
    simp only at hc hl
    unfold cutFront
    simp only [sliceI_drop t c hc, List.length_take, List.take_append_drop]
    have : min c t.length = c := by omega
    rw [this]
    congr 1 <;> omega


end RTV.Merged
