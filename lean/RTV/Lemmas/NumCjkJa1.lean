import RTV.Lemmas.NumCjk
/-! kernel evaluation of the typed `get_int_value` walk (int / binary64), numerals 1000..1999 -/
namespace RTV.NumCjk
theorem ja_l10 : jaLoopChunk 10 = true := by decide +kernel
theorem ja_l11 : jaLoopChunk 11 = true := by decide +kernel
theorem ja_l12 : jaLoopChunk 12 = true := by decide +kernel
theorem ja_l13 : jaLoopChunk 13 = true := by decide +kernel
theorem ja_l14 : jaLoopChunk 14 = true := by decide +kernel
theorem ja_l15 : jaLoopChunk 15 = true := by decide +kernel
theorem ja_l16 : jaLoopChunk 16 = true := by decide +kernel
theorem ja_l17 : jaLoopChunk 17 = true := by decide +kernel
theorem ja_l18 : jaLoopChunk 18 = true := by decide +kernel
theorem ja_l19 : jaLoopChunk 19 = true := by decide +kernel
end RTV.NumCjk
