import RTV.Lemmas.Choice
/-! Kernel evaluation of the negative same-polarity pairs with a skin-tone modifier, part 1. -/
namespace RTV.Choice
set_option maxRecDepth 100000
theorem same_skin_false_a_fast : sameSkinOn fastEnv false ((alts false).take 12) = true := by decide +kernel
end RTV.Choice
