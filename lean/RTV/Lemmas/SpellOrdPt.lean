import RTV.Model.SpellEu
import RTV.Model.NumCfg
/-! Portuguese ordinals below 1000 (`spellOrdEu ptOrd`) against `getIntValue` with the regenerated Portuguese maps: kernel
evaluation in chunks of 100, then the case split over the chunk index. Guard (what the faithful model gets right): none. -/
namespace RTV.Num

def ptOrdGuard (_ : Nat) : Bool := true

def ptOrdCheck (n : Nat) : Bool :=
  n == 0 || !ptOrdGuard n || decide (getIntValue true asciiDigits pt.lang (spellOrdEu ptOrd n).2 = .ok n)

def ptOrdChunk (k : Nat) : Bool := (List.range 100).all fun i => ptOrdCheck (100 * k + i)

theorem pt_o0 : ptOrdChunk 0 = true := by decide +kernel
theorem pt_o1 : ptOrdChunk 1 = true := by decide +kernel
theorem pt_o2 : ptOrdChunk 2 = true := by decide +kernel
theorem pt_o3 : ptOrdChunk 3 = true := by decide +kernel
theorem pt_o4 : ptOrdChunk 4 = true := by decide +kernel
theorem pt_o5 : ptOrdChunk 5 = true := by decide +kernel
theorem pt_o6 : ptOrdChunk 6 = true := by decide +kernel
theorem pt_o7 : ptOrdChunk 7 = true := by decide +kernel
theorem pt_o8 : ptOrdChunk 8 = true := by decide +kernel
theorem pt_o9 : ptOrdChunk 9 = true := by decide +kernel

theorem pt_ochunks (k : Nat) (hk : k < 10) : ptOrdChunk k = true := by
  match k, hk with
  | 0, _ => exact pt_o0
  | 1, _ => exact pt_o1
  | 2, _ => exact pt_o2
  | 3, _ => exact pt_o3
  | 4, _ => exact pt_o4
  | 5, _ => exact pt_o5
  | 6, _ => exact pt_o6
  | 7, _ => exact pt_o7
  | 8, _ => exact pt_o8
  | 9, _ => exact pt_o9
  | k + 10, h => omega

theorem pt_ord_all (n : Nat) (h1 : 1 ≤ n) (h : n < 1000) (hg : ptOrdGuard n = true) :
    getIntValue true asciiDigits pt.lang (spellOrdEu ptOrd n).2 = .ok n := by
  have hc := pt_ochunks (n / 100) (by omega)
  simp only [ptOrdChunk, List.all_eq_true, List.mem_range] at hc
  have := hc (n % 100) (Nat.mod_lt _ (by decide))
  have e : 100 * (n / 100) + n % 100 = n := Nat.div_add_mod n 100
  rw [e] at this
  have hz : (n == 0) = false := by simp; omega
  simpa [ptOrdCheck, hg, hz] using this

end RTV.Num
