import RTV.Lemmas.NumCjk
/-! kernel evaluation of the typed `get_int_value` walk (int / binary64), numerals 2000..2999 -/
namespace RTV.NumCjk
theorem zh_l20 : zhLoopChunk 20 = true := by decide +kernel
theorem zh_l21 : zhLoopChunk 21 = true := by decide +kernel
theorem zh_l22 : zhLoopChunk 22 = true := by decide +kernel
theorem zh_l23 : zhLoopChunk 23 = true := by decide +kernel
theorem zh_l24 : zhLoopChunk 24 = true := by decide +kernel
theorem zh_l25 : zhLoopChunk 25 = true := by decide +kernel
theorem zh_l26 : zhLoopChunk 26 = true := by decide +kernel
theorem zh_l27 : zhLoopChunk 27 = true := by decide +kernel
theorem zh_l28 : zhLoopChunk 28 = true := by decide +kernel
theorem zh_l29 : zhLoopChunk 29 = true := by decide +kernel
end RTV.NumCjk
