import RTV.Model.NumCjk
import RTV.Model.SpellCjk
/-! Helper lemmas for `Props/C04Cjk`: unfolding lemmas of the `CJKNumberParser` model (for every configuration and every
string, regex outcomes as hypotheses), sign lemmas of the software binary64, and the definitions of the kernel-evaluated
checks shared by the chunk files `NumCjkZh*.lean` / `NumCjkJa*.lean`. -/
namespace RTV.NumCjk
open RTV.Py RTV.Dec RTV.Num RTV.Re

/-! ### binary64 / Python numbers: the sign is carried separately from the magnitude -/

theorem F64.mul_negate (x y : F64) : F64.mul x.negate y = (F64.mul x y).map F64.negate := by
  unfold F64.mul F64.ofQ F64.negate
  cases roundQ (x.num * y.num) (x.den * y.den) <;> cases x.neg <;> cases y.neg <;> simp

theorem PyN.neg_mulInt (v : PyN) (k : Int) : (v.neg).mulInt k = (v.mulInt k).map PyN.neg := by
  cases v with
  | int a => simp [PyN.neg, PyN.mulInt, PyN.mul, Except.map, Int.neg_mul]
  | flt x =>
    simp only [PyN.neg, PyN.mulInt, PyN.mul, PyN.toF, bind, Except.bind, pure, Except.pure]
    cases hk : F64.ofInt k with
    | none => simp [ofOpt, Except.map]
    | some y =>
      simp only [ofOpt, F64.mul_negate]
      cases F64.mul x y <;> simp [Except.map, PyN.neg]

/-- the epilogue of `get_int_value` with the sign flag = the negation of the epilogue without it -/
theorem intEpilogue_neg (dz pr : Bool) (v : PyN) :
    intEpilogue dz pr true v = (intEpilogue dz pr false v).map PyN.neg := by
  cases dz <;> cases pr <;> simp [intEpilogue, bind, Except.bind, pure, Except.pure, Except.map, PyN.neg_mulInt]
  all_goals (cases h : v.mulInt 12 <;> simp [Except.map, PyN.neg_mulInt])

/-! ### unfolding lemmas (any configuration, any string) -/

theorem getIntValue_of_prologue (c : Cfg) (s body : Str) (dz pr ng : Bool)
    (h : intPrologue c s = .ok (dz, pr, ng, body)) :
    getIntValue c s = (intLoop c body {}).bind fun st => intEpilogue dz pr ng st.intValue := by
  simp [getIntValue, h, bind, Except.bind]

theorem intPrologue_plain (c : Cfg) (s : Str) (hd : found c c.dozen s = .ok false) (hp : found c c.pair s = .ok false)
    (hu : replaceUnit c s = s) (hn : found c c.negSign s = .ok false) :
    intPrologue c s = .ok (false, false, false, s) := by
  simp [intPrologue, hd, hp, hu, hn, bind, Except.bind, pure, Except.pure]

theorem ordParse_cardinal (c : Cfg) (ch : Nat) (s : Str) (h : found c c.digitNum s = .ok false) :
    ordParse c (ch :: s) = intParse c s := by
  simp [ordParse, intParse, h, bind, Except.bind, pure, Except.pure]

theorem ordParse_digits (c : Cfg) (ch : Nat) (s : Str) (h : found c c.digitNum s = .ok true) :
    ordParse c (ch :: s) = (getDigitValue c s 1).bind fun v => .ok (.n v, fmt c (.n v)) := by
  simp [ordParse, h, bind, Except.bind, pure, Except.pure]

theorem fracParse_parts (c : Cfg) (t i a b : Str) (parts : List Str) (xi xn xd : PyN) (ng : Bool) (q : Dec)
    (hs : split c c.fracSplit t = .ok parts)
    (hp : (parts = [i, a, b]) ∨ (i = c.zeroChar ∧ ∃ rest, parts = a :: b :: rest ∧ rest.length ≠ 1))
    (hi : getValueFromPart c i = .ok xi) (hn : getValueFromPart c b = .ok xn) (hd : getValueFromPart c a = .ok xd)
    (hneg : found c c.negSign i = .ok ng) (hq : Dec.div c.p xn.toDec xd.toDec = some q) :
    fracParse c t =
      .ok (.d (if ng then Dec.add c.p xi.toDec (Dec.negate q) else Dec.add c.p xi.toDec q),
           fmt c (.d (if ng then Dec.add c.p xi.toDec (Dec.negate q) else Dec.add c.p xi.toDec q))) := by
  rcases hp with hp | ⟨hz, rest, hp, hl⟩
  · subst hp
    simp [fracParse, hs, hi, hn, hd, hneg, hq, ofOpt, bind, Except.bind, pure, Except.pure]
  · subst hp; subst hz
    cases rest with
    | nil => simp [fracParse, hs, hi, hn, hd, hneg, hq, ofOpt, bind, Except.bind, pure, Except.pure]
    | cons r1 rest' =>
      cases rest' with
      | nil => simp at hl
      | cons r2 r3 =>
        simp [fracParse, hs, hi, hn, hd, hneg, hq, ofOpt, bind, Except.bind, pure, Except.pure]

theorem douParse_point (c : Cfg) (t a b : Str) (rest : List Str) (ng : Bool) (i v : PyN)
    (hr : found c c.doubleAndRound t = .ok false)
    (hs : split c c.point (replaceUnit c t) = .ok (a :: b :: rest)) (ha : a ≠ [])
    (hneg : found c c.negSign a = .ok ng) (hi : getIntValue c a = .ok i) (hv : addPoint c i b ng = .ok v) :
    douParse c t = .ok (.n v, fmt c (.n v)) := by
  cases a with
  | nil => exact absurd rfl ha
  | cons a0 ar =>
    cases ng <;> simp_all [douParse, bind, Except.bind, pure, Except.pure]

theorem douParse_round (c : Cfg) (t : Str) (power : Nat) (v : PyN)
    (hr : found c c.doubleAndRound t = .ok true)
    (hp : lookupS c.roundChar ((replaceUnit c t).drop ((replaceUnit c t).length - 1)) = some power)
    (hv : getDigitValue c ((replaceUnit c t).take ((replaceUnit c t).length - 1)) power = .ok v) :
    douParse c t = .ok (.n v, fmt c (.n v)) := by
  simp [douParse, hr, hp, hv, ofOpt, bind, Except.bind, pure, Except.pure]

theorem perParse_plain (c : Cfg) (data t st : Str) (v : PyN) (hv : perValue c data t = .ok (v, st))
    (hm : search c c.percentageNum st = .ok none) :
    perParse c data t = .ok (.n v, fmt c (.n v) ++ [37]) := by
  simp [perParse, hv, hm, bind, Except.bind, pure, Except.pure]

theorem perParse_scaled (c : Cfg) (data t st p0 : Str) (ps : List Str) (i j : Nat) (v demo q w : PyN)
    (hv : perValue c data t = .ok (v, st)) (hm : search c c.percentageNum st = .ok (some (i, j)))
    (hs : split c c.fracSplit (slice st i j) = .ok (p0 :: ps)) (hd : getValueFromPart c p0 = .ok demo)
    (hq : PyN.truediv demo (.int 100) = .ok q) (hw : PyN.truediv v q = .ok w) :
    perParse c data t = .ok (.n w, fmt c (.n w) ++ [37]) := by
  simp [perParse, hv, hm, hs, hd, hq, hw, bind, Except.bind, pure, Except.pure]

/-- a configuration class without `percentage_num_regex`: `per_parse` never returns -/
theorem perParse_missing (c : Cfg) (h : c.percentageNum = none) (data t : Str) (r : Val × Str) :
    perParse c data t ≠ .ok r := by
  unfold perParse
  cases hv : perValue c data t with
  | error e => simp [bind, Except.bind]
  | ok p => simp [bind, Except.bind, search, h]

/-! ### integer part ± digits after the point: the two variants -/

/-- as first found: `int_value ± get_point_value(text)` -/
theorem addPoint_first_found (c : Cfg) (h : c.pointFix = false) (i : PyN) (text : Str) (neg : Bool) :
    addPoint c i text neg = (getPointValue c text).bind fun f => if neg then PyN.sub i f else PyN.add i f := by
  simp [addPoint, h, bind, Except.bind]

/-- `Decimal(w) + Decimal('0.' + digits)` is exact when the written number has at most `p` significant digits -/
theorem add_int_point (p w V L : Nat) (h : ndigits (w * 10 ^ L + V) ≤ p) :
    Dec.add p (Dec.ofInt (w : Int)) ⟨false, V, -(L : Int)⟩ = ⟨false, w * 10 ^ L + V, -(L : Int)⟩ := by
  have e1 : min (0 : Int) (-(L : Int)) = -(L : Int) := by omega
  have e2 : ((0 : Int) - -(L : Int)).toNat = L := by omega
  have e3 : (-(L : Int) - -(L : Int)).toNat = 0 := by omega
  have e4 : decide ((w : Int) < 0) = false := by simp
  simp only [Dec.add, Dec.ofInt, e4, Int.natAbs_natCast, e1, e2, e3, Nat.pow_zero, Nat.mul_one, beq_self_eq_true,
    if_true, Bool.false_and]
  unfold fix
  simp only
  split
  · rfl
  · simp [h]

/-- the characters `text` are keys of `zero_to_nine_map` with the plain digits `ns` as values -/
def Reads (c : Cfg) : Str → List Nat → Prop
  | [], [] => True
  | ch :: t, n :: ns => lookupS c.zeroToNine [ch] = some (.int (n : Int)) ∧ n ≤ 9 ∧ Reads c t ns
  | _, _ => False

theorem reads_mapM (c : Cfg) : ∀ (text : Str) (ns : List Nat), Reads c text ns →
    text.mapM (fun ch => ofOpt Err.keyError (lookupS c.zeroToNine [ch])) = .ok (ns.map fun (n : Nat) => PyN.int (n : Int))
  | [], [], _ => rfl
  | ch :: t, n :: ns, h => by
    obtain ⟨h1, _, h3⟩ := h
    have ih := reads_mapM c t ns h3
    rw [List.mapM_cons, ih, h1]; rfl
  | [], _ :: _, h => absurd h (by simp [Reads])
  | _ :: _, [], h => absurd h (by simp [Reads])

theorem reads_plain (c : Cfg) : ∀ (text : Str) (ns : List Nat), Reads c text ns →
    plainDigits (ns.map fun (n : Nat) => PyN.int (n : Int)) = some ns
  | [], [], _ => rfl
  | _ :: t, n :: ns, h => by
    obtain ⟨_, h2, h3⟩ := h
    have ih := reads_plain c t ns h3
    have : (0 : Int) ≤ (n : Int) ∧ (n : Int) ≤ 9 := by omega
    simp [plainDigits, ih, this]
  | [], _ :: _, h => absurd h (by simp [Reads])
  | _ :: _, [], h => absurd h (by simp [Reads])

theorem reads_length (c : Cfg) : ∀ (text : Str) (ns : List Nat), Reads c text ns → ns.length = text.length
  | [], [], _ => rfl
  | _ :: t, _ :: ns, h => by simp [reads_length c t ns h.2.2]
  | [], _ :: _, h => absurd h (by simp [Reads])
  | _ :: _, [], h => absurd h (by simp [Reads])

/-- repaired variant, positive integer part `w`, digits `ns` after the point, at most `c.p` significant digits in all:
the value is the binary64 nearest to the written decimal `w.ns` (one correctly rounded conversion of the exact decimal) -/
theorem addPoint_repaired (c : Cfg) (hfx : c.pointFix = true) (w : Nat) (text : Str) (ns : List Nat)
    (hr : Reads c text ns) (hne : text ≠ [])
    (hd : ndigits (w * 10 ^ ns.length + digitsVal ns) ≤ c.p) :
    addPoint c (.int (w : Int)) text false =
      (ofOpt Err.overflow (F64.ofDec ⟨false, w * 10 ^ ns.length + digitsVal ns, -(ns.length : Int)⟩)).map PyN.flt := by
  have hl := reads_length c text ns hr
  have hne' : (ns.map fun (n : Nat) => PyN.int (n : Int)).isEmpty = false := by
    cases ns with
    | nil => cases text with
      | nil => exact absurd rfl hne
      | cons a b => simp at hl
    | cons a b => rfl
  simp only [addPoint, hfx, reads_mapM c text ns hr, reads_plain c text ns hr, hne', PyN.integral, pointDec,
    add_int_point c.p w (digitsVal ns) ns.length hd, bind, Except.bind, Bool.not_true, Bool.false_eq_true, if_false]
  cases F64.ofDec ⟨false, w * 10 ^ ns.length + digitsVal ns, -(ns.length : Int)⟩ <;> rfl

theorem getPointValue_nil (c : Cfg) : getPointValue c [] = .ok (.int 0) := rfl

/-! ### kernel-evaluated checks -/

/-- the Python number `v` is the natural number `n` (an `int`, or a `float` that is exactly `n`) -/
def PyN.isNat (v : PyN) (n : Nat) : Bool :=
  match v with
  | .int a => a == (n : Int)
  | .flt x => !x.neg && x.num == n * x.den

def loopIs (c : Cfg) (s : Str) (n : Nat) : Bool :=
  match intLoop c s {} with
  | .ok st => st.intValue.isNat n
  | .error _ => false

def zhLoopChunk (k : Nat) : Bool := (List.range 100).all fun i => loopIs zhCfg (spellZh (100 * k + i)) (100 * k + i)

/-- the guard of `Props/C04.cjk_int_ja_partial` (`RTV.Num.jaGuard`, restated here to keep this file free of the
`cjkIntValue` chunk files): no bare 十 / 百 after a higher position with digit 2..9 -/
def jaGuardN (n : Nat) : Bool :=
  let d3 := n / 1000
  let d2 := n / 100 % 10
  let d1 := n / 10 % 10
  !((d2 == 1 && decide (2 ≤ d3)) || (d1 == 1 && (decide (2 ≤ d2) || (d2 == 0 && decide (2 ≤ d3)))))

/-- Japanese: the same walk on `spellJa n`, under the exact guard of `cjk_int_ja_partial` -/
def jaLoopChunk (k : Nat) : Bool :=
  (List.range 100).all fun i => !jaGuardN (100 * k + i) || loopIs jaCfg (spellJa (100 * k + i)) (100 * k + i)

def resIs (r : Except Err (Val × Str)) (s : Str) : Bool :=
  match r with
  | .ok (_, t) => t == s
  | .error _ => false

def valIs (r : Except Err (Val × Str)) (p : Val → Bool) : Bool :=
  match r with
  | .ok (v, _) => p v
  | .error _ => false

def tagInteger : Str := [73, 110, 116, 101, 103, 101, 114]   -- 'Integer' (+ the culture's marker in real tags)
def tagOrdinal : Str := [79, 114, 100, 105, 110, 97, 108]
def tagFrac : Str := [70, 114, 97, 99]
def tagDou : Str := [68, 111, 117]
def tagPer : Str := [80, 101, 114]
def tagPerSpe : Str := [80, 101, 114, 83, 112, 101]
def tagPerNum : Str := [80, 101, 114, 78, 117, 109]

def cDi : Nat := 0x7B2C      -- 第
def cFu : Nat := 0x8D1F      -- 负
def cDa : Nat := 0x6253      -- 打
def cDian : Nat := 0x70B9    -- 点
def sFenZhi : Str := [0x5206, 0x4E4B]            -- 分之
def sBaiFenZhi : Str := [0x767E, 0x5206, 0x4E4B] -- 百分之
def cYou : Nat := 0x53C8     -- 又
def cCheng : Nat := 0x6210   -- 成
def cZhe : Nat := 0x6298     -- 折

end RTV.NumCjk
