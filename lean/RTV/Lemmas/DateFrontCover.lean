import RTV.Lemmas.DateFront
import RTV.Lemmas.DtRes
/-!
From kernel-evaluated facts about ABSTRACT date texts to the front end on every concrete date text of a layout.

* `Conc A s` (the string `s` is drawn from the candidates `A`), `abs_refines_conc` (the abstract oracle refines the
  concrete one, for every engine table that agrees with ASCII below 128).
* A layout is a token list (`Tok`); `absL L ay am ad` is its abstract text when the year / month / day token is replaced
  by the abstract strings `ay am ad`; `CoverTok`: the concrete renderings of a date are drawn from them.
* `rejOne` / `accOne`: Bool checks (what `decide +kernel` evaluates) that regex `j` rejects / regex `k` accepts the abstract
  text with the groups lying exactly on the year / month / day tokens.
* `front_groups`: if the earlier regexes reject and regex `k` accepts abstract texts that cover the date, then
  `parseBasic` on the rendered date answers regex `k` with the groups = the rendered tokens.
* `Cert`, `coverB`, `rejAll`, `accAll`, `front_all`: the same for ALL dates of the ranges from finitely many abstract texts.
-/
namespace RTV.DateFront
open RTV.Re RTV.Py RTV.DtRes

/-! ### abstract strings -/

abbrev AStr := List (List Nat)

/-- `s` is drawn from `A`: same length, every character among the candidates of its position -/
def Conc : AStr → Str → Prop
  | [], [] => True
  | a :: A, c :: s => c ∈ a ∧ Conc A s
  | _, _ => False

def concB : AStr → Str → Bool
  | [], [] => true
  | a :: A, c :: s => a.contains c && concB A s
  | _, _ => false

theorem concB_iff : ∀ (A : AStr) (s : Str), concB A s = true ↔ Conc A s
  | [], [] => by simp [concB, Conc]
  | [], _ :: _ => by simp [concB, Conc]
  | _ :: _, [] => by simp [concB, Conc]
  | a :: A, c :: s => by simp [concB, Conc, concB_iff A s]

theorem Conc.length : ∀ {A : AStr} {s : Str}, Conc A s → A.length = s.length
  | [], [], _ => rfl
  | [], _ :: _, h => by simp [Conc] at h
  | _ :: _, [], h => by simp [Conc] at h
  | a :: A, c :: s, h => by simp [Conc] at h; simp [Conc.length h.2]

theorem Conc.get : ∀ {A : AStr} {s : Str}, Conc A s → ∀ p, p < s.length → s.getD p 0 ∈ A.getD p []
  | [], [], _, p, hp => by simp at hp
  | [], _ :: _, h, _, _ => by simp [Conc] at h
  | _ :: _, [], h, _, _ => by simp [Conc] at h
  | a :: A, c :: s, h, p, hp => by
    simp [Conc] at h
    cases p with
    | zero => simpa using h.1
    | succ p => simpa using Conc.get h.2 p (by simpa using hp)

theorem Conc.append {B : AStr} {t : Str} (hb : Conc B t) : ∀ {A : AStr} {s : Str}, Conc A s → Conc (A ++ B) (s ++ t)
  | [], [], _ => by simpa using hb
  | [], _ :: _, h => by simp [Conc] at h
  | _ :: _, [], h => by simp [Conc] at h
  | a :: A, c :: s, h => by
    simp only [Conc] at h
    simp only [List.cons_append, Conc]
    exact ⟨h.1, Conc.append hb h.2⟩

theorem Conc.sing : ∀ (s : Str), Conc (s.map fun c => [c]) s
  | [] => by simp [Conc]
  | c :: s => by simp [Conc, Conc.sing s]

theorem Conc.head : ∀ {A : AStr} {s : Str}, Conc A s → ∀ c, s.head? = some c → ∃ a, A.head? = some a ∧ c ∈ a
  | [], [], _, c, h => by simp at h
  | [], _ :: _, h, _, _ => by simp [Conc] at h
  | _ :: _, [], h, _, _ => by simp [Conc] at h
  | a :: A, c :: s, h, c', hc => by
    simp [Conc] at h
    simp at hc
    subst hc
    exact ⟨a, rfl, h.1⟩

theorem Conc.getLast : ∀ {A : AStr} {s : Str}, Conc A s → ∀ c, s.getLast? = some c → ∃ a, A.getLast? = some a ∧ c ∈ a
  | [], [], _, c, h => by simp at h
  | [], _ :: _, h, _, _ => by simp [Conc] at h
  | _ :: _, [], h, _, _ => by simp [Conc] at h
  | [a], [c], h, c', hc => by
    simp [Conc] at h
    simp at hc
    subst hc
    exact ⟨a, rfl, h⟩
  | [_], _ :: _ :: _, h, _, _ => by simp [Conc] at h
  | _ :: _ :: _, [_], h, _, _ => by simp [Conc] at h
  | a :: a2 :: A, c :: c2 :: s, h, c', hc => by
    simp only [Conc] at h
    have hc' : (c2 :: s).getLast? = some c' := by simpa [List.getLast?_cons_cons] using hc
    obtain ⟨x, hx, hm⟩ := Conc.getLast (A := a2 :: A) (s := c2 :: s) (by simpa [Conc] using h.2) c' hc'
    exact ⟨x, by simpa [List.getLast?_cons_cons] using hx, hm⟩

/-! ### the abstract oracle refines the concrete one -/

/-- the engine's tables agree with the ASCII tables below 128 -/
def AsciiAgree (T : Tables) : Prop :=
  ∀ c, c < 128 → T.digit c = asciiTables.digit c ∧ T.word c = asciiTables.word c ∧ T.space c = asciiTables.space c

theorem asciiAgree_ascii : AsciiAgree asciiTables := fun _ _ => ⟨rfl, rfl, rfl⟩

theorem itemTest_agree {T : Tables} (h : AsciiAgree T) (c : Nat) (hc : c < 128) (it : Item) :
    Item.test T c it = Item.test asciiTables c it := by
  obtain ⟨h1, h2, h3⟩ := h c hc
  cases it <;> simp [Item.test, h1, h2, h3]

theorem clsTest_agree {T : Tables} (h : AsciiAgree T) (items : List Item) (neg : Bool) (c : Nat) (hc : c < 128) :
    clsTest T items neg c = clsTest asciiTables items neg c := by
  unfold clsTest
  congr 1
  induction items with
  | nil => rfl
  | cons it rest ih => simp [List.any_cons, itemTest_agree h c hc it, ih]

/-- every candidate is an ASCII code point -/
def asciiAbs (A : AStr) : Bool := A.all fun a => a.all (· < 128)

theorem allSame_some : ∀ {l : List Bool} {b : Bool}, allSame l = some b → ∀ x ∈ l, x = b
  | [], _, h, _, _ => by simp [allSame] at h
  | b0 :: r, b, h, x, hx => by
    simp only [allSame] at h
    by_cases hr : r.all (· == b0) = true
    · simp only [hr, if_true, Option.some.injEq] at h
      subst h
      simp only [List.mem_cons] at hx
      rcases hx with rfl | hx
      · rfl
      · simp only [List.all_eq_true, beq_iff_eq] at hr
        exact hr x hx
    · simp [hr] at h

theorem asciiAbs_get {A : AStr} (ha : asciiAbs A = true) (p : Nat) (c : Nat) (hc : c ∈ A.getD p []) : c < 128 := by
  unfold asciiAbs at ha
  simp only [List.all_eq_true, decide_eq_true_eq] at ha
  by_cases hp : p < A.length
  · have : A.getD p [] = A[p] := by simp [List.getD_eq_getElem?_getD, hp]
    rw [this] at hc
    exact ha _ (List.getElem_mem hp) c hc
  · have : A.getD p [] = [] := by simp [List.getD_eq_getElem?_getD, Nat.le_of_not_lt hp]
    rw [this] at hc
    simp at hc

theorem absGet_none {A : AStr} {p : Nat} (hp : ¬ p < A.length) : A.toArray.getD p [] = [] := by
  simp [Array.getD, hp]

theorem absGet_some {A : AStr} {p : Nat} (hp : p < A.length) : A.toArray.getD p [] = A.getD p [] := by
  simp [Array.getD, hp, List.getD_eq_getElem?_getD]

theorem code_toArray (s : Str) (p : Nat) : code s.toArray p = s.getD p 0 := by
  simp [code, Array.getD, List.getD_eq_getElem?_getD]
  by_cases hp : p < s.length <;> simp [hp]

private theorem abs_query {A : AStr} {s : Str} (hc : Conc A s) (p : Nat) (f : Nat → Bool) (b : Bool)
    (hq : allSame ((A.toArray.getD p []).map f) = some b) : p < s.length ∧ f (s.getD p 0) = b := by
  by_cases hp : p < A.length
  · rw [absGet_some hp] at hq
    have hps : p < s.length := by rw [← hc.length]; exact hp
    exact ⟨hps, allSame_some hq _ (List.mem_map.2 ⟨_, hc.get p hps, rfl⟩)⟩
  · rw [absGet_none hp] at hq
    simp [allSame] at hq

/-- The abstract oracle refines the oracle of every string drawn from the abstract string. -/
theorem abs_refines_conc {T : Tables} (hT : AsciiAgree T) {A : AStr} {s : Str} (hc : Conc A s) (ha : asciiAbs A = true) :
    Refines (absO asciiTables A.toArray) (conc T s.toArray) := by
  refine ⟨by simp [absO, conc, hc.length], ?_, ?_, ?_⟩
  · intro p items neg b hq
    obtain ⟨hps, hv⟩ := abs_query hc p (clsTest asciiTables items neg) b hq
    have h128 : s.getD p 0 < 128 := asciiAbs_get ha p _ (hc.get p hps)
    simp only [conc, code_toArray, clsTest_agree hT items neg _ h128, hv]
  · intro p b hq
    obtain ⟨hps, hv⟩ := abs_query hc p asciiTables.word b hq
    have h128 : s.getD p 0 < 128 := asciiAbs_get ha p _ (hc.get p hps)
    simp only [conc, code_toArray, (hT _ h128).2.1, hv]
  · intro p b hq
    obtain ⟨_, hv⟩ := abs_query hc p (· == 10) b hq
    simp only [conc, code_toArray, hv]

/-! ### `strip` is the identity on a text that neither begins nor ends with white space -/

theorem stripLeft_id (sp : Nat → Bool) (s : Str) (h : ∀ c, s.head? = some c → sp c = false) : stripLeft sp s = s := by
  cases s with
  | nil => rfl
  | cons c r => simp [stripLeft, h c rfl]

theorem strip_id (sp : Nat → Bool) (s : Str) (h1 : ∀ c, s.head? = some c → sp c = false)
    (h2 : ∀ c, s.getLast? = some c → sp c = false) : strip sp s = s := by
  unfold strip
  rw [stripLeft_id sp s h1, stripLeft_id sp s.reverse (by simpa using h2), List.reverse_reverse]

/-- all candidates of the first and of the last position are visible ASCII characters (33..126) -/
def visibleEnds (A : AStr) : Bool :=
  (match A.head? with | some a => a.all (fun c => 33 ≤ c && c ≤ 126) | none => false) &&
  (match A.getLast? with | some a => a.all (fun c => 33 ≤ c && c ≤ 126) | none => false)

/-- what the theorems assume of the interpreter's Unicode tables: `Uni.Ascii`, and no visible ASCII character is white
space for `str.strip` -/
structure TextUni (u : Uni) : Prop where
  ascii : u.Ascii
  visible : ∀ c, 33 ≤ c → c ≤ 126 → u.isSpace c = false

theorem strip_conc {u : Uni} (hu : TextUni u) {A : AStr} {s : Str} (hc : Conc A s) (hv : visibleEnds A = true) :
    strip u.isSpace s = s := by
  unfold visibleEnds at hv
  simp only [Bool.and_eq_true] at hv
  apply strip_id
  · intro c hcs
    obtain ⟨a, ha, hm⟩ := hc.head c hcs
    have h := hv.1
    simp only [ha, List.all_eq_true, Bool.and_eq_true, decide_eq_true_eq] at h
    exact hu.visible c (h c hm).1 (h c hm).2
  · intro c hcs
    obtain ⟨a, ha, hm⟩ := hc.getLast c hcs
    have h := hv.2
    simp only [ha, List.all_eq_true, Bool.and_eq_true, decide_eq_true_eq] at h
    exact hu.visible c (h c hm).1 (h c hm).2

/-! ### layouts -/

/-- the abstract text of a token: a literal is itself, the year / month / day token is `ay` / `am` / `ad` -/
def absTok (ay am ad : AStr) (t : Tok) : AStr :=
  match t with
  | .lit c => [[c]]
  | t => if t.kind = 1 then ay else if t.kind = 2 then am else ad

def absL (L : List Tok) (ay am ad : AStr) : AStr := L.flatMap (absTok ay am ad)

/-- the renderings of the date's year / month / day tokens of `L` are drawn from `ay` / `am` / `ad` -/
def CoverTok (N : Names) (L : List Tok) (y m d : Nat) (ay am ad : AStr) : Prop :=
  ∀ t ∈ L, (t.kind = 1 → Conc ay (t.render N y m d)) ∧ (t.kind = 2 → Conc am (t.render N y m d)) ∧
    (t.kind = 3 → Conc ad (t.render N y m d))

theorem kind_cases (t : Tok) : (∃ c, t = .lit c) ∨ t.kind = 1 ∨ t.kind = 2 ∨ t.kind = 3 := by
  cases t <;> simp [Tok.kind]

theorem conc_tok (N : Names) (y m d : Nat) (ay am ad : AStr) (t : Tok)
    (h : (t.kind = 1 → Conc ay (t.render N y m d)) ∧ (t.kind = 2 → Conc am (t.render N y m d)) ∧
      (t.kind = 3 → Conc ad (t.render N y m d))) : Conc (absTok ay am ad t) (t.render N y m d) := by
  rcases kind_cases t with ⟨c, rfl⟩ | h1 | h2 | h3
  · simp [absTok, Tok.render, Conc]
  · have := h.1 h1
    cases t <;> simp_all [absTok, Tok.kind]
  · have := h.2.1 h2
    cases t <;> simp_all [absTok, Tok.kind]
  · have := h.2.2 h3
    cases t <;> simp_all [absTok, Tok.kind]

theorem conc_layout (N : Names) (y m d : Nat) (ay am ad : AStr) :
    ∀ (L : List Tok), CoverTok N L y m d ay am ad → Conc (absL L ay am ad) (renderL N L y m d) := by
  intro L
  induction L with
  | nil => intro _; simp [absL, renderL, Conc]
  | cons t L ih =>
    intro h
    simp only [absL, renderL, List.flatMap_cons]
    exact Conc.append (ih (fun t' ht' => h t' (by simp [ht']))) (conc_tok N y m d ay am ad t (h t (by simp)))

/-- the first token of kind `g`: its offset, its end and the token, given the token lengths -/
def spanOf (len : Tok → Nat) (g : Nat) : List Tok → Nat → Option (Nat × Nat × Tok)
  | [], _ => none
  | t :: L, off => if t.kind = g then some (off, off + len t, t) else spanOf len g L (off + len t)

theorem spanOf_congr (len len' : Tok → Nat) (g : Nat) :
    ∀ (L : List Tok) (off : Nat), (∀ t ∈ L, len t = len' t) → spanOf len g L off = spanOf len' g L off := by
  intro L
  induction L with
  | nil => intro _ _; rfl
  | cons t L ih =>
    intro off h
    simp only [spanOf, h t (by simp)]
    rw [ih _ (fun t' ht' => h t' (by simp [ht']))]

theorem spanOf_mem (len : Tok → Nat) (g : Nat) :
    ∀ (L : List Tok) (off a b : Nat) (t : Tok), spanOf len g L off = some (a, b, t) → t ∈ L ∧ t.kind = g := by
  intro L
  induction L with
  | nil => intro off a b t h; simp [spanOf] at h
  | cons t0 L ih =>
    intro off a b t h
    simp only [spanOf] at h
    by_cases hk : t0.kind = g
    · simp only [hk, if_true, Option.some.injEq, Prod.mk.injEq] at h
      obtain ⟨_, _, rfl⟩ := h
      exact ⟨by simp, hk⟩
    · simp only [hk, if_false] at h
      obtain ⟨h1, h2⟩ := ih _ _ _ _ h
      exact ⟨by simp [h1], h2⟩

/-- slicing the rendered layout at the span of a token gives the token's rendering -/
theorem spanOf_slice (N : Names) (y m d : Nat) (g : Nat) :
    ∀ (L : List Tok) (pre : Str) (a b : Nat) (t : Tok),
      spanOf (fun t => (t.render N y m d).length) g L pre.length = some (a, b, t) →
      ((pre ++ renderL N L y m d).drop a).take (b - a) = t.render N y m d := by
  intro L
  induction L with
  | nil => intro pre a b t h; simp [spanOf] at h
  | cons t0 L ih =>
    intro pre a b t h
    simp only [spanOf] at h
    by_cases hk : t0.kind = g
    · simp only [hk, if_true, Option.some.injEq, Prod.mk.injEq] at h
      obtain ⟨rfl, rfl, rfl⟩ := h
      simp [renderL, List.flatMap_cons]
    · simp only [hk, if_false] at h
      have := ih (pre ++ t0.render N y m d) a b t (by simpa using h)
      simpa [renderL, List.flatMap_cons, List.append_assoc] using this

/-! ### the Bool checks evaluated by the kernel -/

/-- regex `j` of the list rejects the abstract text `A` (on the text itself and on prefix + text) -/
def rejOne (rs : List (Option RE)) (pre : Str) (j : Nat) (A : AStr) : Bool :=
  asciiAbs A &&
  match rs[j]? with
  | some (some r) =>
    stepO (absO asciiTables A.toArray) (absO asciiTables ((pre.map fun c => [c]) ++ A).toArray) pre.length r == some none
  | _ => false

def spanPair (x : Option (Nat × Nat × Tok)) : Option (Nat × Nat) := x.map fun p => (p.1, p.2.1)

/-- regex `k` accepts the abstract text of the layout on the text itself, and the year / month / day groups lie exactly on
the year / month / day tokens, no `fullyear` group -/
def accOne (rs : List (Option RE)) (pre : Str) (k : Nat) (L : List Tok) (ay am ad : AStr) : Bool :=
  let A := absL L ay am ad
  let len : Tok → Nat := fun t => (absTok ay am ad t).length
  asciiAbs A && visibleEnds A && pre.all (· < 128) &&
  (spanOf len 1 L 0).isSome && (spanOf len 2 L 0).isSome && (spanOf len 3 L 0).isSome &&
  match rs[k]? with
  | some (some r) =>
    match stepO (absO asciiTables A.toArray) (absO asciiTables ((pre.map fun c => [c]) ++ A).toArray) pre.length r with
    | some (some (false, mt)) =>
      capOf mt.env 1 == spanPair (spanOf len 1 L 0) && capOf mt.env 2 == spanPair (spanOf len 2 L 0) &&
      capOf mt.env 3 == spanPair (spanOf len 3 L 0) && capOf mt.env 4 == none
    | _ => false
  | _ => false

theorem asciiAbs_append {A B : AStr} (ha : asciiAbs A = true) (hb : asciiAbs B = true) : asciiAbs (A ++ B) = true := by
  unfold asciiAbs at *
  simp only [List.all_append, ha, hb, Bool.and_self]

theorem asciiAbs_sing (pre : Str) (h : pre.all (· < 128) = true) : asciiAbs (pre.map fun c => [c]) = true := by
  unfold asciiAbs
  simp only [List.all_eq_true, decide_eq_true_eq, List.mem_map, forall_exists_index, and_imp] at h ⊢
  intro a c hc hac x hx
  subst hac
  simp only [List.mem_singleton] at hx
  subst hx
  exact h x hc

/-- concrete consequence of a rejecting abstract text -/
theorem rejOne_sound {T : Tables} (hT : AsciiAgree T) (rs : List (Option RE)) (pre : Str) (hpre : pre.all (· < 128) = true)
    (j : Nat) {A : AStr} {s : Str} (hc : Conc A s) (h : rejOne rs pre j A = true) :
    ∃ r, rs[j]? = some (some r) ∧ stepO (conc T s.toArray) (conc T (pre ++ s).toArray) pre.length r = some none := by
  unfold rejOne at h
  simp only [Bool.and_eq_true] at h
  obtain ⟨ha, h⟩ := h
  cases hr : rs[j]? with
  | none => simp [hr] at h
  | some o =>
    cases o with
    | none => simp [hr] at h
    | some r =>
      simp only [hr, beq_iff_eq] at h
      refine ⟨r, rfl, ?_⟩
      have hT' := abs_refines_conc hT hc ha
      have hP' := abs_refines_conc hT (Conc.append hc (Conc.sing pre)) (asciiAbs_append (asciiAbs_sing pre hpre) ha)
      exact stepO_mono hT' hP' _ r _ h

theorem lit_ne_kind (t : Tok) (g : Nat) (hg : 1 ≤ g) (h : t.kind = g) : ∀ c, t ≠ .lit c := by
  intro c hc; subst hc; simp [Tok.kind] at h; omega

/-- The front end on a rendered date, from abstract facts that cover it: the earlier regexes reject, regex `k` accepts
with the groups on the tokens; then `parse_basic_regex_match` hands `match_to_date` exactly the rendered year / month /
day tokens (and no written-out year). -/
theorem front_groups {T : Tables} (hT : AsciiAgree T) {u : Uni} (hu : TextUni u) (N : Names) (rs : List (Option RE))
    (pre : Str) (L : List Tok) (k : Nat) (y m d : Nat)
    (hrej : ∀ j, j < k → ∃ ay am ad, CoverTok N L y m d ay am ad ∧ rejOne rs pre j (absL L ay am ad) = true)
    (hacc : ∃ ay am ad, CoverTok N L y m d ay am ad ∧ accOne rs pre k L ay am ad = true) :
    ∃ h ty tm td, parseBasic T u pre rs (renderL N L y m d) =
        some (some (h, { year := ty.render N y m d, month := tm.render N y m d, day := td.render N y m d, fullYear := [] })) ∧
      h.idx = k ∧ ty ∈ L ∧ ty.kind = 1 ∧ tm ∈ L ∧ tm.kind = 2 ∧ td ∈ L ∧ td.kind = 3 := by
  obtain ⟨ay, am, ad, hcov, hk⟩ := hacc
  have hc := conc_layout N y m d ay am ad L hcov
  unfold accOne at hk
  simp only [Bool.and_eq_true] at hk
  obtain ⟨⟨⟨⟨⟨⟨ha, hv⟩, hpre⟩, hs1⟩, hs2⟩, hs3⟩, hk⟩ := hk
  cases hr : rs[k]? with
  | none => simp [hr] at hk
  | some o =>
  cases o with
  | none => simp [hr] at hk
  | some r =>
  simp only [hr] at hk
  cases hst : stepO (absO asciiTables (absL L ay am ad).toArray)
      (absO asciiTables ((pre.map fun c => [c]) ++ absL L ay am ad).toArray) pre.length r with
  | none => simp [hst] at hk
  | some o2 =>
  cases o2 with
  | none => simp [hst] at hk
  | some pm =>
  obtain ⟨p, mt⟩ := pm
  cases p with
  | true => simp [hst] at hk
  | false =>
  simp only [hst, Bool.and_eq_true, beq_iff_eq] at hk
  obtain ⟨⟨⟨hg1, hg2⟩, hg3⟩, hg4⟩ := hk
  -- the concrete step
  have hT' := abs_refines_conc hT hc ha
  have hP' := abs_refines_conc hT (Conc.append hc (Conc.sing pre)) (asciiAbs_append (asciiAbs_sing pre hpre) ha)
  have hstep := stepO_mono hT' hP' _ r _ hst
  have hrej' : ∀ j, j < k → ∃ rj, rs[j]? = some (some rj) ∧
      stepO (conc T (renderL N L y m d).toArray) (conc T (pre ++ renderL N L y m d).toArray) pre.length rj = some none := by
    intro j hj
    obtain ⟨by', bm, bd, hcov', hrj⟩ := hrej j hj
    exact rejOne_sound hT rs pre hpre j (conc_layout N y m d by' bm bd L hcov') hrj
  have hloop := parseBasicO_of_steps _ _ pre.length rs 0 k r false mt hrej' hr hstep
  have hstrip := strip_conc hu hc hv
  -- spans: abstract token lengths = concrete token lengths
  have hlen : ∀ t ∈ L, (absTok ay am ad t).length = (t.render N y m d).length :=
    fun t ht => (conc_tok N y m d ay am ad t (hcov t ht)).length
  have hsp : ∀ g, spanOf (fun t => (absTok ay am ad t).length) g L 0 =
      spanOf (fun t => (t.render N y m d).length) g L 0 := fun g => spanOf_congr _ _ g L 0 hlen
  rw [hsp 1] at hs1 hg1
  rw [hsp 2] at hs2 hg2
  rw [hsp 3] at hs3 hg3
  obtain ⟨⟨a1, b1, ty⟩, e1⟩ := Option.isSome_iff_exists.1 hs1
  obtain ⟨⟨a2, b2, tm⟩, e2⟩ := Option.isSome_iff_exists.1 hs2
  obtain ⟨⟨a3, b3, td⟩, e3⟩ := Option.isSome_iff_exists.1 hs3
  have m1 := spanOf_mem _ 1 L 0 a1 b1 ty e1
  have m2 := spanOf_mem _ 2 L 0 a2 b2 tm e2
  have m3 := spanOf_mem _ 3 L 0 a3 b3 td e3
  have sl1 := spanOf_slice N y m d 1 L [] a1 b1 ty (by simpa using e1)
  have sl2 := spanOf_slice N y m d 2 L [] a2 b2 tm (by simpa using e2)
  have sl3 := spanOf_slice N y m d 3 L [] a3 b3 td (by simpa using e3)
  simp only [List.nil_append] at sl1 sl2 sl3
  refine ⟨⟨k, false, mt⟩, ty, tm, td, ?_, rfl, m1.1, m1.2, m2.1, m2.2, m3.1, m3.2⟩
  unfold parseBasic
  simp only [hstrip, hloop, Nat.zero_add]
  simp only [groupsOf, groupText, hg1, hg2, hg3, hg4, e1, e2, e3, spanPair, Option.map_some, Bool.false_eq_true, if_false,
    sl1, sl2, sl3]

/-! ### all dates of the ranges from finitely many abstract texts -/

/-- abstract strings for the year, month and day token -/
structure Cert where
  ys : List AStr
  ms : List AStr
  ds : List AStr

/-- every year 1900..2099, every month 1..12 and every day 1..31, rendered by the layout's tokens, is drawn from one of the
certificate's abstract strings -/
def coverB (N : Names) (L : List Tok) (c : Cert) : Bool :=
  (List.range 200).all (fun i => c.ys.any fun ay => L.all fun t => t.kind != 1 || concB ay (t.render N (1900 + i) 0 0)) &&
  (List.range 12).all (fun i => c.ms.any fun am => L.all fun t => t.kind != 2 || concB am (t.render N 0 (1 + i) 0)) &&
  (List.range 31).all (fun i => c.ds.any fun ad => L.all fun t => t.kind != 3 || concB ad (t.render N 0 0 (1 + i)))

def rejAll (rs : List (Option RE)) (pre : Str) (j : Nat) (L : List Tok) (c : Cert) : Bool :=
  c.ys.all fun ay => c.ms.all fun am => c.ds.all fun ad => rejOne rs pre j (absL L ay am ad)

def accAll (rs : List (Option RE)) (pre : Str) (k : Nat) (L : List Tok) (c : Cert) : Bool :=
  c.ys.all fun ay => c.ms.all fun am => c.ds.all fun ad => accOne rs pre k L ay am ad

theorem render_kind1 (N : Names) (t : Tok) (h : t.kind = 1) (y m d m' d' : Nat) :
    t.render N y m d = t.render N y m' d' := by
  cases t <;> simp_all [Tok.kind, Tok.render]

theorem render_kind2 (N : Names) (t : Tok) (h : t.kind = 2) (y m d y' d' : Nat) :
    t.render N y m d = t.render N y' m d' := by
  cases t <;> simp_all [Tok.kind, Tok.render]

theorem render_kind3 (N : Names) (t : Tok) (h : t.kind = 3) (y m d y' m' : Nat) :
    t.render N y m d = t.render N y' m' d := by
  cases t <;> simp_all [Tok.kind, Tok.render]

theorem cover_of_coverB (N : Names) (L : List Tok) (c : Cert) (h : coverB N L c = true) (y m d : Nat)
    (hy : 1900 ≤ y ∧ y ≤ 2099) (hm : 1 ≤ m ∧ m ≤ 12) (hd : 1 ≤ d ∧ d ≤ 31) :
    ∃ ay, ay ∈ c.ys ∧ ∃ am, am ∈ c.ms ∧ ∃ ad, ad ∈ c.ds ∧ CoverTok N L y m d ay am ad := by
  unfold coverB at h
  simp only [Bool.and_eq_true, List.all_eq_true, List.any_eq_true, List.mem_range, Bool.or_eq_true, bne_iff_ne, ne_eq,
    concB_iff] at h
  obtain ⟨⟨h1, h2⟩, h3⟩ := h
  obtain ⟨ay, hay, hy'⟩ := h1 (y - 1900) (by omega)
  obtain ⟨am, ham, hm'⟩ := h2 (m - 1) (by omega)
  obtain ⟨ad, had, hd'⟩ := h3 (d - 1) (by omega)
  have e1 : 1900 + (y - 1900) = y := by omega
  have e2 : 1 + (m - 1) = m := by omega
  have e3 : 1 + (d - 1) = d := by omega
  rw [e1] at hy'
  rw [e2] at hm'
  rw [e3] at hd'
  refine ⟨ay, hay, am, ham, ad, had, fun t ht => ⟨fun hk => ?_, fun hk => ?_, fun hk => ?_⟩⟩
  · rcases hy' t ht with hh | hh
    · exact absurd hk hh
    · rw [render_kind1 N t hk y m d 0 0]; exact hh
  · rcases hm' t ht with hh | hh
    · exact absurd hk hh
    · rw [render_kind2 N t hk y m d 0 0]; exact hh
  · rcases hd' t ht with hh | hh
    · exact absurd hk hh
    · rw [render_kind3 N t hk y m d 0 0]; exact hh

/-- The front end on EVERY date of the ranges, in a layout: from one certificate per earlier regex (rejecting) and one for
the accepting regex, each covering the ranges and each checked by evaluation on its abstract texts. -/
theorem front_all {T : Tables} (hT : AsciiAgree T) {u : Uni} (hu : TextUni u) (N : Names) (rs : List (Option RE))
    (pre : Str) (L : List Tok) (k : Nat) (rc : Nat → Cert) (ac : Cert)
    (hrej : ∀ j, j < k → coverB N L (rc j) = true ∧ rejAll rs pre j L (rc j) = true)
    (hacc : coverB N L ac = true ∧ accAll rs pre k L ac = true)
    (y m d : Nat) (hy : 1900 ≤ y ∧ y ≤ 2099) (hm : 1 ≤ m ∧ m ≤ 12) (hd : 1 ≤ d ∧ d ≤ 31) :
    ∃ h ty tm td, parseBasic T u pre rs (renderL N L y m d) =
        some (some (h, { year := ty.render N y m d, month := tm.render N y m d, day := td.render N y m d, fullYear := [] })) ∧
      h.idx = k ∧ ty ∈ L ∧ ty.kind = 1 ∧ tm ∈ L ∧ tm.kind = 2 ∧ td ∈ L ∧ td.kind = 3 := by
  apply front_groups hT hu N rs pre L k y m d
  · intro j hj
    obtain ⟨hc, hr⟩ := hrej j hj
    obtain ⟨ay, hay, am, ham, ad, had, hcov⟩ := cover_of_coverB N L (rc j) hc y m d hy hm hd
    refine ⟨ay, am, ad, hcov, ?_⟩
    unfold rejAll at hr
    simp only [List.all_eq_true] at hr
    exact hr ay hay am ham ad had
  · obtain ⟨hc, hr⟩ := hacc
    obtain ⟨ay, hay, am, ham, ad, had, hcov⟩ := cover_of_coverB N L ac hc y m d hy hm hd
    refine ⟨ay, am, ad, hcov, ?_⟩
    unfold accAll at hr
    simp only [List.all_eq_true] at hr
    exact hr ay hay am ham ad had

end RTV.DateFront
