import RTV.Lemmas.SpellBig
/-! The guarded lift for cultures whose numerals below 1000 are NOT all read back (French plural `cents`, Italian
accented `-tré`): from decidable facts about the groups 1..999 — in last position, in front of the thousand word, in
front of a scale noun, each demanded only where a guard holds — to every numeral `spellTop h ss n` below the top of the
scale table whose groups satisfy the guards (`restGuard`). Structure as in `Lemmas/SpellBig`: each scale group and the
thousand group are one application of the round-number step `good_step`; induction over the list of scale words; nothing
is enumerated above 999. No fact about the stand-alone numerals below 1000 is assumed (`lastFact` evaluates the value). -/
namespace RTV.Num
open RTV.Py

/-- `u` (1..999) as the last group: not empty, its scan ends at most at 1000, flat if it holds no end word, its value -/
def lastFact (h : EuTop) (c : LangCfg) (u : Nat) : Bool :=
  let R := (h.last u).2
  !R.isEmpty && decide ((scanR c.round R 1).2 ≤ 1000) &&
    ((scanR c.round R 1).2 != 1 || R.all fun t => (lookup c.round t).isNone) &&
    okRes (getIntValue true asciiDigits c R) u

/-- `k` (2..999) in front of the thousand word: not empty, no round word of 1000 or more, its value -/
def multKFact (h : EuTop) (c : LangCfg) (k : Nat) : Bool :=
  let A := (h.multK k).2
  !A.isEmpty && roundBelow c 1000 A && okRes (getIntValue true asciiDigits c A) k

/-- `g` (2..999) in front of a scale noun: not empty, no round word of 10^6 or more, its value -/
def multSFact (h : EuTop) (c : LangCfg) (g : Nat) : Bool :=
  let A := (h.multS g).2
  !A.isEmpty && roundBelow c 1000000 A && okRes (getIntValue true asciiDigits c A) g

/-- the group for multiplier 1: a word worth 1 that is no end word, and the noun -/
def oneOK (c : LangCfg) (v : Nat) (l : List Str) : Bool :=
  match l with
  | [a, w] => lookup c.round w == some v && roundBelow c 1000000 [a] && okRes (getIntValue true asciiDigits c [a]) 1
  | _ => false

theorem oneOK_spec {c : LangCfg} {v : Nat} {l : List Str} (h : oneOK c v l = true) :
    ∃ a w, l = [a, w] ∧ lookup c.round w = some v ∧ roundBelow c 1000000 [a] = true ∧
      getIntValue true asciiDigits c [a] = .ok 1 := by
  rcases l with _ | ⟨a, _ | ⟨w, _ | ⟨x, xs⟩⟩⟩
  · simp [oneOK] at h
  · simp [oneOK] at h
  · refine ⟨a, w, rfl, ?_⟩
    simpa [oneOK, okRes, and_assoc] using h
  · simp [oneOK] at h

/-- the scale-word table: the plural noun is a round word of the stated value, the group for 1 is regular, the values
descend from `top` in steps of at most 1000, are multiples of 10^6, and end at 10^6 -/
def scales2OK (c : LangCfg) : Nat → List EuScale2 → Bool
  | top, [] => top == 1000000
  | top, s :: ss =>
    lookup c.round s.plural == some s.value && oneOK c s.value s.one.2 &&
    decide (top ≤ s.value * 1000) && decide (s.value ≤ top) && decide (1000000 ≤ s.value) &&
    s.value % 1000000 == 0 && scales2OK c s.value ss

theorem scales2OK_cons {c : LangCfg} {top : Nat} {s : EuScale2} {ss : List EuScale2}
    (h : scales2OK c top (s :: ss) = true) :
    lookup c.round s.plural = some s.value ∧ oneOK c s.value s.one.2 = true ∧ top ≤ s.value * 1000 ∧
      s.value ≤ top ∧ 1000000 ≤ s.value ∧ s.value % 1000000 = 0 ∧ scales2OK c s.value ss = true := by
  simpa [scales2OK, and_assoc] using h

/-- the guard of a numeral below 10^6: its last group and its thousand multiplier -/
def lowGuard (gL gK : Nat → Bool) (r : Nat) : Bool :=
  (r % 1000 == 0 || gL (r % 1000)) && (decide (r / 1000 < 2) || gK (r / 1000))

/-- the guard of a numeral: every scale multiplier of 2 or more, and the part below 10^6 -/
def restGuard (gL gK gS : Nat → Bool) : List EuScale2 → Nat → Bool
  | [], r => lowGuard gL gK r
  | s :: ss, n => (decide (n / s.value < 2) || gS (n / s.value)) && restGuard gL gK gS ss (n % s.value)

/-- what the lift needs from a culture -/
structure TopHyps (h : EuTop) (c : LangCfg) (gL gK gS : Nat → Bool) : Prop where
  zero : getIntValue true asciiDigits c (h.last 0).2 = .ok 0
  last : ∀ u, 1 ≤ u → u < 1000 → gL u = true → lastFact h c u = true
  multK : ∀ k, 2 ≤ k → k < 1000 → gK k = true → multKFact h c k = true
  multS : ∀ g, 2 ≤ g → g < 1000 → gS g = true → multSFact h c g = true
  wordK : lookup c.round h.wordK = some 1000
  oneK : ∃ w, h.oneK.2 = [w] ∧ lookup c.round w = some 1000

theorem last_facts (h : EuTop) (c : LangCfg) (u : Nat) (hf : lastFact h c u = true) :
    (h.last u).2 ≠ [] ∧ (scanR c.round (h.last u).2 1).2 ≤ 1000 ∧
      ((scanR c.round (h.last u).2 1).2 = 1 → ∀ t ∈ (h.last u).2, lookup c.round t = none) ∧
      getIntValue true asciiDigits c (h.last u).2 = .ok u := by
  simp only [lastFact, Bool.and_eq_true, Bool.not_eq_true', decide_eq_true_eq, Bool.or_eq_true, bne_iff_ne,
    ne_eq, List.all_eq_true, Option.isNone_iff_eq_none, okRes] at hf
  obtain ⟨⟨⟨hne, hscan⟩, hflat⟩, hval⟩ := hf
  refine ⟨?_, hscan, ?_, hval⟩
  · intro e; rw [e] at hne; simp at hne
  · intro h1
    rcases hflat with hx | hx
    · exact absurd h1 hx
    · exact hx

theorem multK_facts (h : EuTop) (c : LangCfg) (k : Nat) (hf : multKFact h c k = true) :
    (h.multK k).2 ≠ [] ∧ Inert c.round 1000 (h.multK k).2 ∧
      getIntValue true asciiDigits c (h.multK k).2 = .ok k := by
  simp only [multKFact, Bool.and_eq_true, Bool.not_eq_true', okRes, decide_eq_true_eq] at hf
  obtain ⟨⟨hne, hin⟩, hval⟩ := hf
  refine ⟨?_, inert_of_roundBelow hin, hval⟩
  intro e; rw [e] at hne; simp at hne

theorem multS_facts (h : EuTop) (c : LangCfg) (g : Nat) (hf : multSFact h c g = true) :
    (h.multS g).2 ≠ [] ∧ Inert c.round 1000000 (h.multS g).2 ∧
      getIntValue true asciiDigits c (h.multS g).2 = .ok g := by
  simp only [multSFact, Bool.and_eq_true, Bool.not_eq_true', okRes, decide_eq_true_eq] at hf
  obtain ⟨⟨hne, hin⟩, hval⟩ := hf
  refine ⟨?_, inert_of_roundBelow hin, hval⟩
  intro e; rw [e] at hne; simp at hne

/-- the last group as a good rest -/
theorem last_good (h : EuTop) (c : LangCfg) (u : Nat) (hf : lastFact h c u = true) (F : Nat)
    (hF : (h.last u).2.length + 3 ≤ F) :
    ∃ e, Good true (getIntValueF true asciiDigits c F) c.round (h.last u).2 u e ∧ e ≤ 1000 := by
  obtain ⟨hne, hscan, hflat, hval⟩ := last_facts h c u hf
  exact ⟨_, good_of_value asciiDigits c _ u _ F hne hF hval hflat, hscan⟩

/-! ### below 10^6 -/

/-- the block in front of the thousand word and the word itself -/
def kHead (h : EuTop) (k : Nat) : List Str := if k == 1 then [] else (h.multK k).2
def kWord (h : EuTop) (k : Nat) : Str := if k == 1 then h.oneK.2.headD [] else h.wordK
def kTail (h : EuTop) (u : Nat) : List Str := if u == 0 then [] else (h.last u).2

theorem topLow_toks (h : EuTop) (r : Nat) (hr : ¬ r < 1000) (hone : ∃ w, h.oneK.2 = [w]) :
    (topLow h r).2 = kHead h (r / 1000) ++ kWord h (r / 1000) :: kTail h (r % 1000) := by
  obtain ⟨w, hw⟩ := hone
  simp only [topLow, hr, if_false, kHead, kWord, kTail]
  by_cases hk : (r / 1000 == 1) = true <;> by_cases hu : (r % 1000 == 0) = true <;> simp [hk, hu, hw]

theorem kTail_good (h : EuTop) (c : LangCfg) (gL gK gS : Nat → Bool) (H : TopHyps h c gL gK gS) (u : Nat)
    (hu : u < 1000) (hg : u = 0 ∨ gL u = true) (F : Nat) (hF : (kTail h u).length + 3 ≤ F) :
    ∃ e, Good true (getIntValueF true asciiDigits c F) c.round (kTail h u) u e ∧ e ≤ 1000 := by
  by_cases hu0 : u = 0
  · subst hu0
    exact ⟨1, by simpa [kTail] using good_nil' _ c.round, by omega⟩
  · have hb : (u == 0) = false := by simp [hu0]
    have hgl : gL u = true := by
      rcases hg with h0 | h0
      · exact absurd h0 hu0
      · exact h0
    simp only [kTail, hb, Bool.false_eq_true, if_false] at hF ⊢
    exact last_good h c u (H.last u (by omega) hu hgl) F hF

/-- the thousand group as a good rest: `1000 ≤ r < 10^6` -/
theorem topLow_good_big (h : EuTop) (c : LangCfg) (gL gK gS : Nat → Bool) (H : TopHyps h c gL gK gS) (r : Nat)
    (h1 : 1000 ≤ r) (h2 : r < 1000000) (hg : lowGuard gL gK r = true) (F : Nat)
    (hF : (topLow h r).2.length + 2 ≤ F) :
    Good true (getIntValueF true asciiDigits c F) c.round (topLow h r).2 r 1000 := by
  simp only [lowGuard, Bool.and_eq_true, Bool.or_eq_true, beq_iff_eq, decide_eq_true_eq] at hg
  obtain ⟨hgl, hgk⟩ := hg
  obtain ⟨w, hw1, hw2⟩ := H.oneK
  have hs : ¬ r < 1000 := by omega
  rw [topLow_toks h r hs ⟨w, hw1⟩] at hF ⊢
  have hk1 : 1 ≤ r / 1000 := by omega
  have hk2 : r / 1000 < 1000 := by omega
  have hu2 : r % 1000 < 1000 := Nat.mod_lt _ (by decide)
  have hr : 1000 * (r / 1000) + r % 1000 = r := Nat.div_add_mod r 1000
  have hlen : (kHead h (r / 1000) ++ kWord h (r / 1000) :: kTail h (r % 1000)).length =
      (kHead h (r / 1000)).length + (kTail h (r % 1000)).length + 1 := by simp; omega
  rw [hlen] at hF
  have hrest := kTail_good h c gL gK gS H (r % 1000) hu2 hgl F (by omega)
  have key := thousand_good asciiDigits c (kHead h (r / 1000)) (kWord h (r / 1000)) (kTail h (r % 1000))
    (r / 1000) (r % 1000) F ?_ ?_ hrest
  · rw [hr] at key; exact key
  · unfold kWord
    split
    · simp [hw1, hw2]
    · exact H.wordK
  · by_cases hk : r / 1000 = 1
    · left; simp [kHead, hk]
    · right
      have hb : (r / 1000 == 1) = false := by simp [hk]
      have hgk' : gK (r / 1000) = true := by
        rcases hgk with h0 | h0
        · omega
        · exact h0
      obtain ⟨mne, min, mval⟩ := multK_facts h c (r / 1000) (H.multK _ (by omega) hk2 hgk')
      simp only [kHead, hb, Bool.false_eq_true, if_false] at hF ⊢
      refine ⟨mne, min, ?_⟩
      unfold getIntValue at mval
      exact getIntValueF_mono true asciiDigits c _ F _ _ mval (by omega)

/-- every numeral `1 ≤ r < 10^6` as a good rest -/
theorem topLow_good (h : EuTop) (c : LangCfg) (gL gK gS : Nat → Bool) (H : TopHyps h c gL gK gS) (r : Nat)
    (h1 : 1 ≤ r) (h2 : r < 1000000) (hg : lowGuard gL gK r = true) (F : Nat)
    (hF : (topLow h r).2.length + 3 ≤ F) :
    ∃ e, Good true (getIntValueF true asciiDigits c F) c.round (topLow h r).2 r e ∧ e ≤ 1000 := by
  by_cases hs : r < 1000
  · have ht : topLow h r = h.last r := by simp [topLow, hs]
    rw [ht] at hF ⊢
    have hgl : gL r = true := by
      simp only [lowGuard, Bool.and_eq_true, Bool.or_eq_true, beq_iff_eq, decide_eq_true_eq] at hg
      have hu : r % 1000 = r := Nat.mod_eq_of_lt hs
      rcases hg.1 with h0 | h0
      · omega
      · rwa [hu] at h0
    exact last_good h c r (H.last r h1 hs hgl) F hF
  · exact ⟨1000, topLow_good_big h c gL gK gS H r (by omega) h2 hg F (by omega), Nat.le_refl _⟩

/-- the value of every numeral below 10^6 -/
theorem topLow_value (h : EuTop) (c : LangCfg) (gL gK gS : Nat → Bool) (H : TopHyps h c gL gK gS) (r : Nat)
    (h2 : r < 1000000) (hg : lowGuard gL gK r = true) :
    getIntValue true asciiDigits c (topLow h r).2 = .ok r := by
  by_cases hs : r < 1000
  · have ht : topLow h r = h.last r := by simp [topLow, hs]
    rw [ht]
    by_cases h0 : r = 0
    · subst h0; exact H.zero
    · have hgl : gL r = true := by
        simp only [lowGuard, Bool.and_eq_true, Bool.or_eq_true, beq_iff_eq, decide_eq_true_eq] at hg
        have hu : r % 1000 = r := Nat.mod_eq_of_lt hs
        rcases hg.1 with h0' | h0'
        · omega
        · rwa [hu] at h0'
      exact (last_facts h c r (H.last r (by omega) hs hgl)).2.2.2
  · have g := topLow_good_big h c gL gK gS H r (by omega) h2 hg ((topLow h r).2.length + 2) (Nat.le_refl _)
    have hne : (topLow h r).2 ≠ [] := by
      intro hnil
      have := g.1
      rw [hnil] at this
      simp [scanR] at this
    unfold getIntValue
    exact eval_of_good asciiDigits c _ _ r 1000 g hne (by omega)

/-! ### the induction over the scale words -/

theorem topGroup_toks (h : EuTop) (s : EuScale2) (g : Nat) :
    (topGroup h s g).2 = if g == 1 then s.one.2 else (h.multS g).2 ++ [s.plural] := by
  unfold topGroup; split <;> rfl

/-- a scale group as block + end word: the block is not empty, inert below the noun's value, and worth `g` -/
theorem topGroup_block (h : EuTop) (c : LangCfg) (gL gK gS : Nat → Bool) (H : TopHyps h c gL gK gS) (s : EuScale2)
    (g : Nat) (hg1 : 1 ≤ g) (hg2 : g < 1000) (hgs : g < 2 ∨ gS g = true)
    (hpl : lookup c.round s.plural = some s.value) (hone : oneOK c s.value s.one.2 = true) (h6 : 1000000 ≤ s.value) :
    ∃ A w, (topGroup h s g).2 = A ++ [w] ∧ A ≠ [] ∧ lookup c.round w = some s.value ∧ Inert c.round s.value A ∧
      getIntValue true asciiDigits c A = .ok g := by
  rw [topGroup_toks]
  by_cases h1 : g = 1
  · subst h1
    obtain ⟨a, w, hl, hw, hin, hv⟩ := oneOK_spec hone
    refine ⟨[a], w, by simp [hl], by simp, hw, Inert.mono (inert_of_roundBelow hin) h6, hv⟩
  · have hb : (g == 1) = false := by simp [h1]
    have hgs' : gS g = true := by
      rcases hgs with h0 | h0
      · omega
      · exact h0
    obtain ⟨mne, min, mval⟩ := multS_facts h c g (H.multS g (by omega) hg2 hgs')
    simp only [hb, Bool.false_eq_true, if_false]
    exact ⟨_, _, rfl, mne, hpl, Inert.mono min h6, mval⟩

/-- what follows a scale group is a good rest worth the remainder, and its scan stays at or below `top` -/
theorem topRest_good (h : EuTop) (c : LangCfg) (gL gK gS : Nat → Bool) (H : TopHyps h c gL gK gS) :
    ∀ (ss : List EuScale2) (top n : Nat), scales2OK c top ss = true → n < top →
      restGuard gL gK gS ss n = true →
      ∀ F, (topRest h ss n).2.length + 3 ≤ F →
      ∃ e, Good true (getIntValueF true asciiDigits c F) c.round (topRest h ss n).2 n e ∧ e ≤ top := by
  intro ss
  induction ss with
  | nil =>
    intro top n hs hn hg F hF
    have ht : top = 1000000 := by simpa [scales2OK] using hs
    subst ht
    by_cases h0 : n = 0
    · subst h0
      exact ⟨1, by simpa [topRest] using good_nil' _ c.round, by omega⟩
    · have hb : (n == 0) = false := by simp [h0]
      simp only [topRest, hb, Bool.false_eq_true, if_false] at hF ⊢
      obtain ⟨e, g1, g2⟩ := topLow_good h c gL gK gS H n (by omega) hn (by simpa [restGuard] using hg) F hF
      exact ⟨e, g1, by omega⟩
  | cons s ss ih =>
    intro top n hs hn hg F hF
    obtain ⟨hpl, hone, htop, hle, h6, hdiv, hss⟩ := scales2OK_cons hs
    have hpos : 0 < s.value := by omega
    have hmodlt : n % s.value < s.value := Nat.mod_lt _ hpos
    simp only [restGuard, Bool.and_eq_true, Bool.or_eq_true, decide_eq_true_eq] at hg
    obtain ⟨hgs, hgr⟩ := hg
    by_cases hz : n / s.value = 0
    · have hb : (n / s.value == 0) = true := by simp [hz]
      simp only [topRest, hb, if_true] at hF ⊢
      have hlt : n < s.value := (Nat.div_eq_zero_iff_lt hpos).mp hz
      have hm : n % s.value = n := Nat.mod_eq_of_lt hlt
      rw [hm] at hF hgr ⊢
      obtain ⟨e, g1, g2⟩ := ih s.value n hss hlt hgr F hF
      exact ⟨e, g1, by omega⟩
    · have hb : (n / s.value == 0) = false := by simp [hz]
      simp only [topRest, hb, Bool.false_eq_true, if_false] at hF ⊢
      have hgl : n / s.value < 1000 := Nat.div_lt_of_lt_mul (Nat.lt_of_lt_of_le hn htop)
      obtain ⟨A, w, htk, ane, hw, ain, aval⟩ := topGroup_block h c gL gK gS H s (n / s.value)
        (Nat.pos_of_ne_zero hz) hgl hgs hpl hone h6
      rw [htk] at hF ⊢
      have htoks : A ++ [w] ++ (topRest h ss (n % s.value)).2 = A ++ w :: (topRest h ss (n % s.value)).2 := by simp
      rw [htoks] at hF ⊢
      have hlen : (A ++ w :: (topRest h ss (n % s.value)).2).length =
          A.length + (topRest h ss (n % s.value)).2.length + 1 := by simp; omega
      rw [hlen] at hF
      obtain ⟨e0, g0, he0⟩ := ih s.value (n % s.value) hss hmodlt hgr F (by omega)
      have hrec : getIntValueF true asciiDigits c F A = .ok (n / s.value) := by
        unfold getIntValue at aval
        exact getIntValueF_mono true asciiDigits c _ F _ _ aval (by omega)
      have key := good_step true _ c.round A w s.value (n / s.value) _ (n % s.value) e0 g0 he0 hw ane ain hrec
      have hv : s.value * (n / s.value) + n % s.value = n := Nat.div_add_mod n s.value
      rw [hv] at key
      exact ⟨s.value, key, hle⟩

/-- the numeral from its first scale group on: a good list worth `n` whose scan ends at a scale word -/
theorem topTop_good (h : EuTop) (c : LangCfg) (gL gK gS : Nat → Bool) (H : TopHyps h c gL gK gS) :
    ∀ (ss : List EuScale2) (top n : Nat), scales2OK c top ss = true → n < top → 1000000 ≤ n →
      restGuard gL gK gS ss n = true →
      ∀ F, (topTop h ss n).2.length + 2 ≤ F →
      ∃ e, Good true (getIntValueF true asciiDigits c F) c.round (topTop h ss n).2 n e ∧ 1000000 ≤ e := by
  intro ss
  induction ss with
  | nil =>
    intro top n hs hn h6
    have ht : top = 1000000 := by simpa [scales2OK] using hs
    omega
  | cons s ss ih =>
    intro top n hs hn hn6 hg F hF
    obtain ⟨hpl, hone, htop, hle, h6, hdiv, hss⟩ := scales2OK_cons hs
    have hpos : 0 < s.value := by omega
    have hmodlt : n % s.value < s.value := Nat.mod_lt _ hpos
    simp only [restGuard, Bool.and_eq_true, Bool.or_eq_true, decide_eq_true_eq] at hg
    obtain ⟨hgs, hgr⟩ := hg
    by_cases hz : n / s.value = 0
    · have hb : (n / s.value == 0) = true := by simp [hz]
      simp only [topTop, hb, if_true] at hF ⊢
      have hlt : n < s.value := (Nat.div_eq_zero_iff_lt hpos).mp hz
      have hm : n % s.value = n := Nat.mod_eq_of_lt hlt
      rw [hm] at hgr
      exact ih s.value n hss hlt hn6 hgr F hF
    · have hb : (n / s.value == 0) = false := by simp [hz]
      simp only [topTop, hb, Bool.false_eq_true, if_false] at hF ⊢
      have hgl : n / s.value < 1000 := Nat.div_lt_of_lt_mul (Nat.lt_of_lt_of_le hn htop)
      obtain ⟨A, w, htk, ane, hw, ain, aval⟩ := topGroup_block h c gL gK gS H s (n / s.value)
        (Nat.pos_of_ne_zero hz) hgl hgs hpl hone h6
      rw [htk] at hF ⊢
      have htoks : A ++ [w] ++ (topRest h ss (n % s.value)).2 = A ++ w :: (topRest h ss (n % s.value)).2 := by simp
      rw [htoks] at hF ⊢
      have hlen : (A ++ w :: (topRest h ss (n % s.value)).2).length =
          A.length + (topRest h ss (n % s.value)).2.length + 1 := by simp; omega
      rw [hlen] at hF
      have halen : 1 ≤ A.length := by
        cases hq : A with
        | nil => exact absurd hq ane
        | cons a as => simp
      obtain ⟨e0, g0, he0⟩ := topRest_good h c gL gK gS H ss s.value (n % s.value) hss hmodlt hgr F (by omega)
      have hrec : getIntValueF true asciiDigits c F A = .ok (n / s.value) := by
        unfold getIntValue at aval
        exact getIntValueF_mono true asciiDigits c _ F _ _ aval (by omega)
      have key := good_step true _ c.round A w s.value (n / s.value) _ (n % s.value) e0 g0 he0 hw ane ain hrec
      have hv : s.value * (n / s.value) + n % s.value = n := Nat.div_add_mod n s.value
      rw [hv] at key
      exact ⟨s.value, key, h6⟩

theorem topTop_small (h : EuTop) (c : LangCfg) :
    ∀ (ss : List EuScale2) (top n : Nat), scales2OK c top ss = true → n < 1000000 → topTop h ss n = topLow h n := by
  intro ss
  induction ss with
  | nil => intro top n _ _; rfl
  | cons s ss ih =>
    intro top n hs hn
    obtain ⟨_, _, _, _, h6, _, hss⟩ := scales2OK_cons hs
    have hz : n / s.value = 0 := (Nat.div_eq_zero_iff_lt (by omega)).mpr (by omega)
    have hb : (n / s.value == 0) = true := by simp [hz]
    simp only [topTop, hb, if_true]
    exact ih s.value n hss hn

theorem restGuard_small (gL gK gS : Nat → Bool) (c : LangCfg) :
    ∀ (ss : List EuScale2) (top n : Nat), scales2OK c top ss = true → n < 1000000 →
      restGuard gL gK gS ss n = lowGuard gL gK n := by
  intro ss
  induction ss with
  | nil => intro top n _ _; rfl
  | cons s ss ih =>
    intro top n hs hn
    obtain ⟨_, _, _, _, h6, _, hss⟩ := scales2OK_cons hs
    have hz : n / s.value = 0 := (Nat.div_eq_zero_iff_lt (by omega)).mpr (by omega)
    have hm : n % s.value = n := Nat.mod_eq_of_lt (by omega)
    simp only [restGuard, hz, hm]
    simpa using ih s.value n hss hn

/-- **The guarded lift.** Every numeral below the top of the scale-word table whose groups satisfy the guards is read
back as the integer it denotes. -/
theorem top_value (h : EuTop) (c : LangCfg) (gL gK gS : Nat → Bool) (top : Nat) (ss : List EuScale2)
    (H : TopHyps h c gL gK gS) (hs : scales2OK c top ss = true) (n : Nat) (hn : n < top)
    (hg : restGuard gL gK gS ss n = true) :
    getIntValue true asciiDigits c (spellTop h ss n).2 = .ok n := by
  unfold spellTop
  by_cases h6 : n < 1000000
  · rw [topTop_small h c ss top n hs h6]
    rw [restGuard_small gL gK gS c ss top n hs h6] at hg
    exact topLow_value h c gL gK gS H n h6 hg
  · unfold getIntValue
    obtain ⟨e, g1, g2⟩ := topTop_good h c gL gK gS H ss top n hs hn (by omega) hg
      ((topTop h ss n).2.length + 2) (Nat.le_refl _)
    have hne : (topTop h ss n).2 ≠ [] := by
      intro hnil
      have := g1.1
      rw [hnil] at this
      simp [scanR] at this
      omega
    exact eval_of_good asciiDigits c _ _ n e g1 hne (by omega)

/-! ### two scale tables that differ only in the group for multiplier 1 -/

/-- no scale group of `n` has multiplier exactly 1 -/
def noOne : List EuScale2 → Nat → Prop
  | [], _ => True
  | s :: ss, n => n / s.value ≠ 1 ∧ noOne ss (n % s.value)

def sameNouns : List EuScale2 → List EuScale2 → Prop
  | [], [] => True
  | s :: ss, s' :: ss' => s.value = s'.value ∧ s.plural = s'.plural ∧ sameNouns ss ss'
  | _, _ => False

theorem topGroup_congr (h : EuTop) (s s' : EuScale2) (g : Nat) (hp : s.plural = s'.plural) (hg : g ≠ 1) :
    topGroup h s g = topGroup h s' g := by
  have hb : (g == 1) = false := by simp [hg]
  simp [topGroup, hb, hp]

theorem topRest_congr (h : EuTop) :
    ∀ (ss ss' : List EuScale2) (n : Nat), sameNouns ss ss' → noOne ss n → topRest h ss n = topRest h ss' n := by
  intro ss
  induction ss with
  | nil =>
    intro ss' n hs _
    cases ss' with
    | nil => rfl
    | cons s' ss' => simp [sameNouns] at hs
  | cons s ss ih =>
    intro ss' n hs hn
    cases ss' with
    | nil => simp [sameNouns] at hs
    | cons s' ss' =>
      obtain ⟨hv, hp, hr⟩ := hs
      obtain ⟨h1, h2⟩ := hn
      simp only [topRest]
      rw [← hv, topGroup_congr h s s' _ hp h1, ih ss' (n % s.value) hr h2]

theorem topTop_congr (h : EuTop) :
    ∀ (ss ss' : List EuScale2) (n : Nat), sameNouns ss ss' → noOne ss n → topTop h ss n = topTop h ss' n := by
  intro ss
  induction ss with
  | nil =>
    intro ss' n hs _
    cases ss' with
    | nil => rfl
    | cons s' ss' => simp [sameNouns] at hs
  | cons s ss ih =>
    intro ss' n hs hn
    cases ss' with
    | nil => simp [sameNouns] at hs
    | cons s' ss' =>
      obtain ⟨hv, hp, hr⟩ := hs
      obtain ⟨h1, h2⟩ := hn
      simp only [topTop]
      rw [← hv, topGroup_congr h s s' _ hp h1, topRest_congr h ss ss' (n % s.value) hr h2]
      by_cases hz : n / s.value = 0
      · have hb : (n / s.value == 0) = true := by simp [hz]
        have hm : n % s.value = n := by
          by_cases hp0 : s.value = 0
          · simp [hp0]
          · exact Nat.mod_eq_of_lt ((Nat.div_eq_zero_iff_lt (Nat.pos_of_ne_zero hp0)).mp hz)
        rw [hm] at h2
        simp only [hb, if_true]
        exact ih ss' n hr h2
      · have hb : (n / s.value == 0) = false := by simp [hz]
        simp only [hb, Bool.false_eq_true, if_false]

end RTV.Num
