import RTV.Model.Num
/-! `BasePercentageParser.parse`'s suffix rule on a resolution string without white space and without `%`. -/
namespace RTV.Num
open RTV.Py

theorem stripLeft_id (sp : Nat → Bool) (s : Str) (h : ∀ c ∈ s, sp c = false) : stripLeft sp s = s := by
  cases s with
  | nil => rfl
  | cons c r => simp [stripLeft, h c (by simp)]

theorem strip_id (sp : Nat → Bool) (s : Str) (h : ∀ c ∈ s, sp c = false) : strip sp s = s := by
  unfold strip
  rw [stripLeft_id sp s h, stripLeft_id sp s.reverse (fun c hc => h c (List.mem_reverse.mp hc)), List.reverse_reverse]

theorem endsWith_false (s : Str) (x : Nat) (h : x ∉ s) : endsWith s [x] = false := by
  unfold endsWith
  have : ¬ (s.drop (s.length - [x].length) = [x]) := by
    intro e
    have : x ∈ s.drop (s.length - [x].length) := by rw [e]; simp
    exact h (List.mem_of_mem_drop this)
  simp only [Bool.and_eq_false_iff, decide_eq_false_iff_not]
  exact Or.inr this

/-- a non-empty resolution string without white space and without `%` gets exactly one `%` appended -/
theorem percentSuffix_plain (isSpace : Nat → Bool) (res : Str) (hne : res ≠ []) (hsp : ∀ c ∈ res, isSpace c = false)
    (hpc : 37 ∉ res) : percentSuffix isSpace res = res ++ [37] := by
  unfold percentSuffix
  have : res.isEmpty = false := by cases res <;> simp_all
  simp only [this, Bool.false_eq_true, if_false]
  rw [strip_id isSpace res hsp, endsWith_false res 37 hpc]
  simp

end RTV.Num
