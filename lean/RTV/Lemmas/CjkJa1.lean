import RTV.Lemmas.CjkJaBase
/-! kernel evaluation, chunks 25..49 (numerals 2500..4999) -/
namespace RTV.Num
theorem ja_c25 : jaChunk 25 = true := by decide +kernel
theorem ja_c26 : jaChunk 26 = true := by decide +kernel
theorem ja_c27 : jaChunk 27 = true := by decide +kernel
theorem ja_c28 : jaChunk 28 = true := by decide +kernel
theorem ja_c29 : jaChunk 29 = true := by decide +kernel
theorem ja_c30 : jaChunk 30 = true := by decide +kernel
theorem ja_c31 : jaChunk 31 = true := by decide +kernel
theorem ja_c32 : jaChunk 32 = true := by decide +kernel
theorem ja_c33 : jaChunk 33 = true := by decide +kernel
theorem ja_c34 : jaChunk 34 = true := by decide +kernel
theorem ja_c35 : jaChunk 35 = true := by decide +kernel
theorem ja_c36 : jaChunk 36 = true := by decide +kernel
theorem ja_c37 : jaChunk 37 = true := by decide +kernel
theorem ja_c38 : jaChunk 38 = true := by decide +kernel
theorem ja_c39 : jaChunk 39 = true := by decide +kernel
theorem ja_c40 : jaChunk 40 = true := by decide +kernel
theorem ja_c41 : jaChunk 41 = true := by decide +kernel
theorem ja_c42 : jaChunk 42 = true := by decide +kernel
theorem ja_c43 : jaChunk 43 = true := by decide +kernel
theorem ja_c44 : jaChunk 44 = true := by decide +kernel
theorem ja_c45 : jaChunk 45 = true := by decide +kernel
theorem ja_c46 : jaChunk 46 = true := by decide +kernel
theorem ja_c47 : jaChunk 47 = true := by decide +kernel
theorem ja_c48 : jaChunk 48 = true := by decide +kernel
theorem ja_c49 : jaChunk 49 = true := by decide +kernel
end RTV.Num
