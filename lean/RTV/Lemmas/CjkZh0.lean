import RTV.Lemmas.CjkZhBase
/-! kernel evaluation, chunks 0..24 (numerals 0..2499) -/
namespace RTV.Num
theorem zh_c0 : zhChunk 0 = true := by decide +kernel
theorem zh_c1 : zhChunk 1 = true := by decide +kernel
theorem zh_c2 : zhChunk 2 = true := by decide +kernel
theorem zh_c3 : zhChunk 3 = true := by decide +kernel
theorem zh_c4 : zhChunk 4 = true := by decide +kernel
theorem zh_c5 : zhChunk 5 = true := by decide +kernel
theorem zh_c6 : zhChunk 6 = true := by decide +kernel
theorem zh_c7 : zhChunk 7 = true := by decide +kernel
theorem zh_c8 : zhChunk 8 = true := by decide +kernel
theorem zh_c9 : zhChunk 9 = true := by decide +kernel
theorem zh_c10 : zhChunk 10 = true := by decide +kernel
theorem zh_c11 : zhChunk 11 = true := by decide +kernel
theorem zh_c12 : zhChunk 12 = true := by decide +kernel
theorem zh_c13 : zhChunk 13 = true := by decide +kernel
theorem zh_c14 : zhChunk 14 = true := by decide +kernel
theorem zh_c15 : zhChunk 15 = true := by decide +kernel
theorem zh_c16 : zhChunk 16 = true := by decide +kernel
theorem zh_c17 : zhChunk 17 = true := by decide +kernel
theorem zh_c18 : zhChunk 18 = true := by decide +kernel
theorem zh_c19 : zhChunk 19 = true := by decide +kernel
theorem zh_c20 : zhChunk 20 = true := by decide +kernel
theorem zh_c21 : zhChunk 21 = true := by decide +kernel
theorem zh_c22 : zhChunk 22 = true := by decide +kernel
theorem zh_c23 : zhChunk 23 = true := by decide +kernel
theorem zh_c24 : zhChunk 24 = true := by decide +kernel
end RTV.Num
