import RTV.Model.HiddenState
/-!
Helper lemmas of `RTV.Props.C02State`: soundness of the keyed containment test, the frame lemmas.
-/
namespace RTV.HiddenState

/-- the keyed test only ever says yes for a row that literally is the row of an allow-list entry -/
theorem covered_sound (allow : List Entry) (r : Row) (h : covered (index allow) r = true) :
    ∃ e ∈ allow, e.row = r := by
  unfold covered at h
  split at h
  · rename_i p hp
    have hmem := List.mem_of_find?_eq_some hp
    simp only [index, List.mem_map] at hmem
    obtain ⟨e, he, hpe⟩ := hmem
    refine ⟨e, he, ?_⟩
    have : p.2 = r := by simpa using h
    rw [← this, ← hpe]
  · exact absurd h (by simp)

theorem allCovered_sound (allow : List Entry) (gen : List Row) (h : allCovered allow gen = true) :
    ∀ r ∈ gen, ∃ e ∈ allow, e.row = r := by
  intro r hr
  simp only [allCovered, List.all_eq_true] at h
  exact covered_sound allow r (h r hr)

/-- a row the keyed test rejects is not the row of any entry whose key is found first … the converse direction used
by the harness: an empty `newSites` means every row is covered -/
theorem newSites_nil_iff (allow : List Entry) (gen : List Row) :
    newSites allow gen = [] ↔ allCovered allow gen = true := by
  simp [newSites, allCovered, List.filter_eq_nil_iff, List.all_eq_true]

section Frame
variable {Site Val Req Out : Type}

/-- sites outside the write set keep their value through any history -/
theorem runHist_off (f : Call Site Val Req Out) (W : Site → Prop) (hw : WritesOnly f W)
    (hist : List Req) (σ : Site → Val) (s : Site) (hs : ¬ W s) : runHist f σ hist s = σ s := by
  induction hist generalizing σ with
  | nil => rfl
  | cons q qs ih => simp only [runHist]; rw [ih, hw q σ s hs]

/-- an invariant of single calls is an invariant of histories -/
theorem runHist_inv (f : Call Site Val Req Out) (Inv : (Site → Val) → Prop)
    (hinv : ∀ q σ, Inv σ → Inv (f q σ).2) (hist : List Req) (σ : Site → Val) (h : Inv σ) :
    Inv (runHist f σ hist) := by
  induction hist generalizing σ with
  | nil => exact h
  | cons q qs ih => exact ih _ (hinv q σ h)

end Frame
end RTV.HiddenState
