import RTV.Lemmas.Re
import RTV.Lemmas.ReBounds
/-!
Tools for reasoning about WHICH match a backtracking engine reports (C03 extraction front end):

* `headS / headW F r`, `lastS / lastW F r`: verified syntactic analyses — every (non-empty) match of `r` begins / ends
  with a character of the class `F` (`head_sound`, `last_sound`); corollaries for look-behinds, look-aheads, `finditer`.
* list-level (priority-order) rewriting of `ends` for right-nested sequences (`ends_seq_*`), and `rep_det_cons /
  rep_det_nil`: a greedy repeat of a body that matches deterministically (`Chain`) tries the longest run first.
* `findAll_mem_of_first`: the leftmost attempt that succeeds is reported by `finditer`.
-/
namespace RTV.Re

variable {T : Tables} {s : Array Nat}

/-! ### first / last character analyses -/

/-- every item of a (non-negated) class is listed in `F` -/
def clsSub (F items : List Item) (neg : Bool) : Bool := !neg && items.all fun it => F.contains it

theorem clsSub_sound {F items : List Item} {neg : Bool} {c : Nat} (h : clsSub F items neg = true)
    (ht : clsTest T items neg c = true) : clsTest T F false c = true := by
  unfold clsSub at h
  simp only [Bool.and_eq_true, Bool.not_eq_true', List.all_eq_true] at h
  obtain ⟨hn, hall⟩ := h
  subst hn
  simp only [clsTest, bne_iff_ne, ne_eq, Bool.not_eq_false, List.any_eq_true] at ht ⊢
  obtain ⟨it, hit, htest⟩ := ht
  have := hall it hit
  simp only [List.contains_iff_mem] at this
  exact ⟨it, this, htest⟩

/-- `(weak, strong)`: weak = every match is empty or begins with a character of `F`; strong = every match is
non-empty and begins with a character of `F`. Zero-width assertions are weak, never strong. -/
def head (F : List Item) : RE → Bool × Bool
  | .eps => (true, false)
  | .cls items neg => (clsSub F items neg, clsSub F items neg)
  | .seq a b => ((head F a).2 || ((head F a).1 && (head F b).1), (head F a).2 || ((head F a).1 && (head F b).2))
  | .alt a b => ((head F a).1 && (head F b).1, (head F a).2 && (head F b).2)
  | .rep a mn _ _ => ((head F a).1, (head F a).2 && decide (1 ≤ mn))
  | .repU a mn _ => ((head F a).1, (head F a).2 && decide (1 ≤ mn))
  | .grp _ a => head F a
  | _ => (true, false)

def headW (F : List Item) (r : RE) : Bool := (head F r).1
def headS (F : List Item) (r : RE) : Bool := (head F r).2

/-- the semantic content of `head` -/
def HeadOK (T : Tables) (s : Array Nat) (F : List Item) (r : RE) : Prop :=
  (headW F r = true → ∀ i j, j ∈ ends T s r i → j = i ∨ (i < j ∧ i < s.size ∧ clsTest T F false (code s i) = true)) ∧
  (headS F r = true → ∀ i j, j ∈ ends T s r i → i < j ∧ i < s.size ∧ clsTest T F false (code s i) = true)

theorem repEnds_ge {f : Nat → List Nat} {g : Bool} (hb : ∀ i j, j ∈ f i → i ≤ j) (mx : Nat) :
    ∀ mn i j, j ∈ repEnds f g mx mn i → i ≤ j := by
  induction mx with
  | zero => intro mn i j h; have := (mem_repEnds_zero.1 h).2; omega
  | succ mx ih =>
    intro mn i j h
    rcases mem_repEnds_succ.1 h with ⟨k, hk, hj⟩ | ⟨_, rfl⟩
    · have := hb i k hk; have := ih _ _ _ hj; omega
    · exact Nat.le_refl _

theorem ends_ge (r : RE) {i j : Nat} (h : j ∈ ends T s r i) : i ≤ j := (ends_bounds r i j h).1

private theorem head_rep {F : List Item} {f : Nat → List Nat} {g : Bool}
    (hb : ∀ i j, j ∈ f i → i ≤ j)
    (hw : ∀ i j, j ∈ f i → j = i ∨ (i < j ∧ i < s.size ∧ clsTest T F false (code s i) = true)) (mx : Nat) :
    ∀ mn i j, j ∈ repEnds f g mx mn i → j = i ∨ (i < j ∧ i < s.size ∧ clsTest T F false (code s i) = true) := by
  induction mx with
  | zero => intro mn i j h; exact Or.inl (mem_repEnds_zero.1 h).2
  | succ mx ih =>
    intro mn i j h
    rcases mem_repEnds_succ.1 h with ⟨k, hk, hj⟩ | ⟨_, rfl⟩
    · rcases hw i k hk with rfl | ⟨h1, h2, h3⟩
      · exact ih _ _ _ hj
      · have : k ≤ j := repEnds_ge hb mx _ k j hj
        exact Or.inr ⟨by omega, h2, h3⟩
    · exact Or.inl rfl

private theorem head_rep_strong {F : List Item} {f : Nat → List Nat} {g : Bool}
    (_hb : ∀ i j, j ∈ f i → i ≤ j)
    (hs : ∀ i j, j ∈ f i → i < j ∧ i < s.size ∧ clsTest T F false (code s i) = true)
    (hge : ∀ mx mn i j, j ∈ repEnds f g mx mn i → i ≤ j) (mx : Nat) :
    ∀ mn i j, 1 ≤ mn → j ∈ repEnds f g mx mn i → i < j ∧ i < s.size ∧ clsTest T F false (code s i) = true := by
  intro mn i j hmn h
  cases mx with
  | zero => have := (mem_repEnds_zero.1 h).1; omega
  | succ mx =>
    rcases mem_repEnds_succ.1 h with ⟨k, hk, hj⟩ | ⟨h0, _⟩
    · obtain ⟨h1, h2, h3⟩ := hs i k hk
      have := hge _ _ _ _ hj
      exact ⟨by omega, h2, h3⟩
    · omega

theorem head_sound (F : List Item) (r : RE) : HeadOK T s F r := by
  induction r with
  | eps =>
    refine ⟨fun _ i j h => Or.inl (mem_eps.1 h), fun h => ?_⟩
    simp [headS, head] at h
  | cls items neg =>
    refine ⟨fun hh i j h => ?_, fun hh i j h => ?_⟩ <;>
    · obtain ⟨h1, h2, rfl⟩ := mem_cls.1 h
      have hc := clsSub_sound (T := T) (by simpa [headW, headS, head] using hh) h2
      first | exact Or.inr ⟨by omega, h1, hc⟩ | exact ⟨by omega, h1, hc⟩
  | seq a b iha ihb =>
    refine ⟨fun hh i j h => ?_, fun hh i j h => ?_⟩
    · obtain ⟨k, hk, hj⟩ := mem_seq.1 h
      have hkj := ends_ge b hj
      simp only [headW, head, Bool.or_eq_true, Bool.and_eq_true] at hh
      rcases hh with hs | ⟨hwa, hwb⟩
      · obtain ⟨h1, h2, h3⟩ := iha.2 hs i k hk
        exact Or.inr ⟨by omega, h2, h3⟩
      · rcases iha.1 hwa i k hk with rfl | ⟨h1, h2, h3⟩
        · exact ihb.1 hwb _ _ hj
        · exact Or.inr ⟨by omega, h2, h3⟩
    · obtain ⟨k, hk, hj⟩ := mem_seq.1 h
      have hkj := ends_ge b hj
      simp only [headS, head, Bool.or_eq_true, Bool.and_eq_true] at hh
      rcases hh with hs | ⟨hwa, hsb⟩
      · obtain ⟨h1, h2, h3⟩ := iha.2 hs i k hk
        exact ⟨by omega, h2, h3⟩
      · rcases iha.1 hwa i k hk with rfl | ⟨h1, h2, h3⟩
        · exact ihb.2 hsb _ _ hj
        · exact ⟨by omega, h2, h3⟩
  | alt a b iha ihb =>
    refine ⟨fun hh i j h => ?_, fun hh i j h => ?_⟩
    · simp only [headW, head, Bool.and_eq_true] at hh
      rcases mem_alt.1 h with h | h
      · exact iha.1 hh.1 _ _ h
      · exact ihb.1 hh.2 _ _ h
    · simp only [headS, head, Bool.and_eq_true] at hh
      rcases mem_alt.1 h with h | h
      · exact iha.2 hh.1 _ _ h
      · exact ihb.2 hh.2 _ _ h
  | rep a mn mx g ih =>
    refine ⟨fun hh i j h => ?_, fun hh i j h => ?_⟩
    · rw [ends] at h
      exact head_rep (fun _ _ => ends_ge a) (ih.1 (by simpa [headW, head] using hh)) mx mn i j h
    · rw [ends] at h
      simp only [headS, head, Bool.and_eq_true, decide_eq_true_eq] at hh
      exact head_rep_strong (fun _ _ => ends_ge a) (ih.2 hh.1) (fun mx => repEnds_ge (fun _ _ => ends_ge a) mx) mx mn i j hh.2 h
  | repU a mn g ih =>
    refine ⟨fun hh i j h => ?_, fun hh i j h => ?_⟩
    · rw [ends] at h
      exact head_rep (fun _ _ => ends_ge a) (ih.1 (by simpa [headW, head] using hh)) _ mn i j h
    · rw [ends] at h
      simp only [headS, head, Bool.and_eq_true, decide_eq_true_eq] at hh
      exact head_rep_strong (fun _ _ => ends_ge a) (ih.2 hh.1) (fun mx => repEnds_ge (fun _ _ => ends_ge a) mx) _ mn i j hh.2 h
  | grp n a ih =>
    refine ⟨fun hh i j h => ?_, fun hh i j h => ?_⟩
    · exact ih.1 (by simpa [headW, head] using hh) _ _ (mem_grp.1 h)
    · exact ih.2 (by simpa [headS, head] using hh) _ _ (mem_grp.1 h)
  | wordB => exact ⟨fun _ i j h => Or.inl (mem_wordB.1 h).2, fun h => by simp [headS, head] at h⟩
  | nwordB => exact ⟨fun _ i j h => Or.inl (mem_nwordB.1 h).2, fun h => by simp [headS, head] at h⟩
  | bol => exact ⟨fun _ i j h => Or.inl (mem_bol.1 h).2, fun h => by simp [headS, head] at h⟩
  | eos => exact ⟨fun _ i j h => Or.inl (mem_eos.1 h).2, fun h => by simp [headS, head] at h⟩
  | eol =>
    refine ⟨fun _ i j h => ?_, fun h => by simp [headS, head] at h⟩
    rw [ends] at h
    split at h <;> simp at h
    exact Or.inl h
  | look ahead neg a _ =>
    refine ⟨fun _ i j h => ?_, fun h => by simp [headS, head] at h⟩
    cases ahead <;> rw [ends] at h <;> split at h <;> simp at h <;> exact Or.inl h

/-- every match of a strongly-headed regex is non-empty and begins, inside the string, with a character of `F` -/
theorem headS_sound {F : List Item} {r : RE} (h : headS F r = true) {i j : Nat} (hm : j ∈ ends T s r i) :
    i < j ∧ i < s.size ∧ clsTest T F false (code s i) = true := (head_sound F r).2 h i j hm

/-- no match starts at a position whose character is outside `F` -/
theorem ends_nil_of_head {F : List Item} {r : RE} (h : headS F r = true) {i : Nat}
    (hc : i < s.size → clsTest T F false (code s i) = false) : ends T s r i = [] := by
  cases hl : ends T s r i with
  | nil => rfl
  | cons x xs =>
    have := headS_sound (T := T) (s := s) h (i := i) (j := x) (by simp [hl])
    have := hc this.2.1
    simp_all

/-! ### last character -/

def last (F : List Item) : RE → Bool × Bool
  | .eps => (true, false)
  | .cls items neg => (clsSub F items neg, clsSub F items neg)
  | .seq a b => ((last F b).2 || ((last F b).1 && (last F a).1), (last F b).2 || ((last F b).1 && (last F a).2))
  | .alt a b => ((last F a).1 && (last F b).1, (last F a).2 && (last F b).2)
  | .rep a mn _ _ => ((last F a).1, (last F a).2 && decide (1 ≤ mn))
  | .repU a mn _ => ((last F a).1, (last F a).2 && decide (1 ≤ mn))
  | .grp _ a => last F a
  | _ => (true, false)

def lastW (F : List Item) (r : RE) : Bool := (last F r).1
def lastS (F : List Item) (r : RE) : Bool := (last F r).2

def LastOK (T : Tables) (s : Array Nat) (F : List Item) (r : RE) : Prop :=
  (lastW F r = true → ∀ i j, j ∈ ends T s r i → j = i ∨ (i < j ∧ j ≤ s.size ∧ clsTest T F false (code s (j - 1)) = true)) ∧
  (lastS F r = true → ∀ i j, j ∈ ends T s r i → i < j ∧ j ≤ s.size ∧ clsTest T F false (code s (j - 1)) = true)

private theorem last_rep {F : List Item} {f : Nat → List Nat} {g : Bool}
    (hb : ∀ i j, j ∈ f i → i ≤ j)
    (hw : ∀ i j, j ∈ f i → j = i ∨ (i < j ∧ j ≤ s.size ∧ clsTest T F false (code s (j - 1)) = true)) (mx : Nat) :
    ∀ mn i j, j ∈ repEnds f g mx mn i → j = i ∨ (i < j ∧ j ≤ s.size ∧ clsTest T F false (code s (j - 1)) = true) := by
  induction mx with
  | zero => intro mn i j h; exact Or.inl (mem_repEnds_zero.1 h).2
  | succ mx ih =>
    intro mn i j h
    rcases mem_repEnds_succ.1 h with ⟨k, hk, hj⟩ | ⟨_, rfl⟩
    · have hik := hb i k hk
      rcases ih _ _ _ hj with rfl | ⟨h1, h2, h3⟩
      · exact hw i _ hk
      · exact Or.inr ⟨by omega, h2, h3⟩
    · exact Or.inl rfl

private theorem last_rep_strong {F : List Item} {f : Nat → List Nat} {g : Bool}
    (hb : ∀ i j, j ∈ f i → i ≤ j)
    (hs : ∀ i j, j ∈ f i → i < j ∧ j ≤ s.size ∧ clsTest T F false (code s (j - 1)) = true) (mx : Nat) :
    ∀ mn i j, 1 ≤ mn → j ∈ repEnds f g mx mn i → i < j ∧ j ≤ s.size ∧ clsTest T F false (code s (j - 1)) = true := by
  intro mn i j hmn h
  cases mx with
  | zero => have := (mem_repEnds_zero.1 h).1; omega
  | succ mx =>
    rcases mem_repEnds_succ.1 h with ⟨k, hk, hj⟩ | ⟨h0, _⟩
    · have hw := last_rep (T := T) (s := s) (F := F) (g := g) hb (fun a b hab => Or.inr (hs a b hab)) mx _ _ _ hj
      obtain ⟨h1, h2, h3⟩ := hs i k hk
      rcases hw with rfl | ⟨h4, h5, h6⟩
      · exact ⟨h1, h2, h3⟩
      · exact ⟨by omega, h5, h6⟩
    · omega

theorem last_sound (F : List Item) (r : RE) : LastOK T s F r := by
  induction r with
  | eps =>
    refine ⟨fun _ i j h => Or.inl (mem_eps.1 h), fun h => ?_⟩
    simp [lastS, last] at h
  | cls items neg =>
    refine ⟨fun hh i j h => ?_, fun hh i j h => ?_⟩ <;>
    · obtain ⟨h1, h2, rfl⟩ := mem_cls.1 h
      have hc := clsSub_sound (T := T) (by simpa [lastW, lastS, last] using hh) h2
      first | exact Or.inr ⟨by omega, by omega, by simpa using hc⟩ | exact ⟨by omega, by omega, by simpa using hc⟩
  | seq a b iha ihb =>
    refine ⟨fun hh i j h => ?_, fun hh i j h => ?_⟩
    · obtain ⟨k, hk, hj⟩ := mem_seq.1 h
      have hik := ends_ge a hk
      simp only [lastW, last, Bool.or_eq_true, Bool.and_eq_true] at hh
      rcases hh with hs | ⟨hwb, hwa⟩
      · obtain ⟨h1, h2, h3⟩ := ihb.2 hs k j hj
        exact Or.inr ⟨by omega, h2, h3⟩
      · rcases ihb.1 hwb k j hj with rfl | ⟨h1, h2, h3⟩
        · exact iha.1 hwa _ _ hk
        · exact Or.inr ⟨by omega, h2, h3⟩
    · obtain ⟨k, hk, hj⟩ := mem_seq.1 h
      have hik := ends_ge a hk
      simp only [lastS, last, Bool.or_eq_true, Bool.and_eq_true] at hh
      rcases hh with hs | ⟨hwb, hsa⟩
      · obtain ⟨h1, h2, h3⟩ := ihb.2 hs k j hj
        exact ⟨by omega, h2, h3⟩
      · rcases ihb.1 hwb k j hj with rfl | ⟨h1, h2, h3⟩
        · exact iha.2 hsa _ _ hk
        · exact ⟨by omega, h2, h3⟩
  | alt a b iha ihb =>
    refine ⟨fun hh i j h => ?_, fun hh i j h => ?_⟩
    · simp only [lastW, last, Bool.and_eq_true] at hh
      rcases mem_alt.1 h with h | h
      · exact iha.1 hh.1 _ _ h
      · exact ihb.1 hh.2 _ _ h
    · simp only [lastS, last, Bool.and_eq_true] at hh
      rcases mem_alt.1 h with h | h
      · exact iha.2 hh.1 _ _ h
      · exact ihb.2 hh.2 _ _ h
  | rep a mn mx g ih =>
    refine ⟨fun hh i j h => ?_, fun hh i j h => ?_⟩
    · rw [ends] at h
      exact last_rep (fun _ _ => ends_ge a) (ih.1 (by simpa [lastW, last] using hh)) mx mn i j h
    · rw [ends] at h
      simp only [lastS, last, Bool.and_eq_true, decide_eq_true_eq] at hh
      exact last_rep_strong (fun _ _ => ends_ge a) (ih.2 hh.1) mx mn i j hh.2 h
  | repU a mn g ih =>
    refine ⟨fun hh i j h => ?_, fun hh i j h => ?_⟩
    · rw [ends] at h
      exact last_rep (fun _ _ => ends_ge a) (ih.1 (by simpa [lastW, last] using hh)) _ mn i j h
    · rw [ends] at h
      simp only [lastS, last, Bool.and_eq_true, decide_eq_true_eq] at hh
      exact last_rep_strong (fun _ _ => ends_ge a) (ih.2 hh.1) _ mn i j hh.2 h
  | grp n a ih =>
    refine ⟨fun hh i j h => ?_, fun hh i j h => ?_⟩
    · exact ih.1 (by simpa [lastW, last] using hh) _ _ (mem_grp.1 h)
    · exact ih.2 (by simpa [lastS, last] using hh) _ _ (mem_grp.1 h)
  | wordB => exact ⟨fun _ i j h => Or.inl (mem_wordB.1 h).2, fun h => by simp [lastS, last] at h⟩
  | nwordB => exact ⟨fun _ i j h => Or.inl (mem_nwordB.1 h).2, fun h => by simp [lastS, last] at h⟩
  | bol => exact ⟨fun _ i j h => Or.inl (mem_bol.1 h).2, fun h => by simp [lastS, last] at h⟩
  | eos => exact ⟨fun _ i j h => Or.inl (mem_eos.1 h).2, fun h => by simp [lastS, last] at h⟩
  | eol =>
    refine ⟨fun _ i j h => ?_, fun h => by simp [lastS, last] at h⟩
    rw [ends] at h
    split at h <;> simp at h
    exact Or.inl h
  | look ahead neg a _ =>
    refine ⟨fun _ i j h => ?_, fun h => by simp [lastS, last] at h⟩
    cases ahead <;> rw [ends] at h <;> split at h <;> simp at h <;> exact Or.inl h

theorem lastS_sound {F : List Item} {r : RE} (h : lastS F r = true) {i j : Nat} (hm : j ∈ ends T s r i) :
    i < j ∧ j ≤ s.size ∧ clsTest T F false (code s (j - 1)) = true := (last_sound F r).2 h i j hm

/-! ### look-arounds decided by the analyses -/

/-- a look-behind whose body must begin with a character of `F` finds nothing when no earlier position carries one -/
theorem lookbehind_none {F : List Item} {body : RE} (h : headS F body = true) {i : Nat}
    (hpre : ∀ k, k < i → k < s.size → clsTest T F false (code s k) = false) :
    ((List.range (i + 1)).any fun k => (ends T s body k).contains i) = false := by
  rw [List.any_eq_false]
  intro k hk hc
  simp only [List.contains_iff_mem] at hc
  obtain ⟨h1, h2, h3⟩ := headS_sound (T := T) (s := s) h hc
  have := hpre k h1 h2
  simp_all

/-! ### priority-order rewriting for right-nested sequences -/

theorem ends_seq (a b : RE) (i : Nat) : ends T s (.seq a b) i = (ends T s a i).flatMap (ends T s b) := by
  rw [ends]

theorem ends_seq_eps (b : RE) (i : Nat) : ends T s (.seq .eps b) i = ends T s b i := by
  simp [ends]

theorem ends_seq_eps_right (a : RE) (i : Nat) : ends T s (.seq a .eps) i = ends T s a i := by
  rw [ends_seq]
  have : ends T s .eps = fun k => [k] := by funext k; simp [ends]
  rw [this]
  simp

theorem ends_seq_seq (a b c : RE) (i : Nat) :
    ends T s (.seq (.seq a b) c) i = ends T s (.seq a (.seq b c)) i := by
  rw [ends_seq, ends_seq, List.flatMap_assoc, ends_seq]
  congr 1

theorem ends_seq_alt (a b c : RE) (i : Nat) :
    ends T s (.seq (.alt a b) c) i = ends T s (.seq a c) i ++ ends T s (.seq b c) i := by
  simp only [ends, List.flatMap_append]

theorem ends_seq_grp (n : Nat) (a c : RE) (i : Nat) : ends T s (.seq (.grp n a) c) i = ends T s (.seq a c) i := by
  simp only [ends]

theorem ends_seq_cls_yes {items : List Item} {neg : Bool} (b : RE) {i : Nat} (h1 : i < s.size)
    (h2 : clsTest T items neg (code s i) = true) : ends T s (.seq (.cls items neg) b) i = ends T s b (i + 1) := by
  simp [ends, h1, h2]

theorem ends_seq_cls_no {items : List Item} {neg : Bool} (b : RE) {i : Nat}
    (h : i < s.size → clsTest T items neg (code s i) = false) : ends T s (.seq (.cls items neg) b) i = [] := by
  by_cases h1 : i < s.size
  · simp [ends, h1, h h1]
  · simp [ends, h1]

theorem ends_seq_lookahead (neg : Bool) (a c : RE) (i : Nat) :
    ends T s (.seq (.look true neg a) c) i = if (ends T s a i).isEmpty = neg then ends T s c i else [] := by
  rw [ends_seq, ends]
  split <;> simp

theorem ends_seq_lookbehind (neg : Bool) (a c : RE) (i : Nat) :
    ends T s (.seq (.look false neg a) c) i =
      if ((List.range (i + 1)).any fun k => (ends T s a k).contains i) = neg then [] else ends T s c i := by
  rw [ends_seq, ends]
  split <;> simp

theorem ends_seq_wordB (c : RE) (i : Nat) :
    ends T s (.seq .wordB c) i = if isWordB T s i then ends T s c i else [] := by
  rw [ends_seq, ends]
  split <;> simp

theorem ends_seq_rep (a c : RE) (mn mx : Nat) (g : Bool) (i : Nat) :
    ends T s (.seq (.rep a mn mx g) c) i = (repEnds (ends T s a) g mx mn i).flatMap (ends T s c) := by
  rw [ends_seq, ends]

theorem ends_seq_repU (a c : RE) (mn : Nat) (g : Bool) (i : Nat) :
    ends T s (.seq (.repU a mn g) c) i = (repEnds (ends T s a) g (mn + s.size + 1) mn i).flatMap (ends T s c) := by
  rw [ends_seq, ends]

/-! ### greedy repetition of a deterministic body -/

/-- `g` iterations of `f` from `i`, each with exactly one end, `w` further -/
def Chain (f : Nat → List Nat) (w : Nat) : Nat → Nat → Prop
  | 0, _ => True
  | g + 1, i => f i = [i + w] ∧ Chain f w g (i + w)

/-- a greedy repeat whose body matches deterministically `g` times and then stops (no further match, or the upper
bound is reached) tries the end after all `g` iterations FIRST -/
theorem rep_det_cons {f : Nat → List Nat} {w : Nat} :
    ∀ (g i mn mx : Nat), Chain f w g i → mn ≤ g → g ≤ mx → (g = mx ∨ f (i + g * w) = []) →
      ∃ rest, repEnds f true mx mn i = (i + g * w) :: rest := by
  intro g
  induction g with
  | zero =>
    intro i mn mx _ hmn _ hstop
    have hmn0 : mn = 0 := by omega
    subst hmn0
    cases mx with
    | zero => exact ⟨[], by simp [repEnds]⟩
    | succ mx =>
      rcases hstop with h | h
      · omega
      · simp only [Nat.zero_mul, Nat.add_zero] at h
        exact ⟨[], by simp [repEnds, h]⟩
  | succ g ih =>
    intro i mn mx hc hmn hmx hstop
    obtain ⟨hf, hc'⟩ := hc
    cases mx with
    | zero => omega
    | succ mx =>
      have harith : i + w + g * w = i + (g + 1) * w := by rw [Nat.succ_mul]; omega
      obtain ⟨rest, hrest⟩ := ih (i + w) (mn - 1) mx hc' (by omega) (by omega) (by
        rcases hstop with h | h
        · exact Or.inl (by omega)
        · exact Or.inr (by rw [harith]; exact h))
      refine ⟨rest ++ (if mn = 0 then [i] else []), ?_⟩
      rw [repEnds]
      simp only [hf, List.flatMap_cons, List.flatMap_nil, List.append_nil, ↓reduceIte, hrest, harith,
        List.cons_append]

/-- … and yields nothing when fewer iterations are possible than the minimum asks for -/
theorem rep_det_nil {f : Nat → List Nat} {w : Nat} {gr : Bool} :
    ∀ (g i mn mx : Nat), Chain f w g i → g < mn → (g = mx ∨ f (i + g * w) = []) →
      repEnds f gr mx mn i = [] := by
  intro g
  induction g with
  | zero =>
    intro i mn mx _ hmn hstop
    cases mx with
    | zero => simp [repEnds]; omega
    | succ mx =>
      rcases hstop with h | h
      · omega
      · simp only [Nat.zero_mul, Nat.add_zero] at h
        have : mn ≠ 0 := by omega
        cases gr <;> simp [repEnds, h, this]
  | succ g ih =>
    intro i mn mx hc hmn hstop
    obtain ⟨hf, hc'⟩ := hc
    have harith : i + w + g * w = i + (g + 1) * w := by rw [Nat.succ_mul]; omega
    have hmn0 : mn ≠ 0 := by omega
    cases mx with
    | zero => simp [repEnds, hmn0]
    | succ mx =>
      have := ih (i + w) (mn - 1) mx hc' (by omega) (by
        rcases hstop with h | h
        · exact Or.inl (by omega)
        · exact Or.inr (by rw [harith]; exact h))
      rw [repEnds]
      cases gr <;> simp [hf, this, hmn0]

/-- one-character bodies: a run of `g` characters of the class is a chain of width 1 -/
theorem chain_cls {items : List Item} {neg : Bool} :
    ∀ (g i : Nat), (∀ t, t < g → i + t < s.size ∧ clsTest T items neg (code s (i + t)) = true) →
      Chain (ends T s (.seq (.cls items neg) .eps)) 1 g i := by
  intro g
  induction g with
  | zero => intro i _; trivial
  | succ g ih =>
    intro i h
    have h0 := h 0 (by omega)
    refine ⟨?_, ih (i + 1) (fun t ht => ?_)⟩
    · rw [ends_seq_cls_yes _ (by simpa using h0.1) (by simpa using h0.2)]
      simp [ends]
    · have := h (t + 1) (by omega)
      have e : i + (t + 1) = i + 1 + t := by omega
      rw [e] at this
      exact this

theorem ends_cls_eps_no {items : List Item} {neg : Bool} {i : Nat}
    (h : i < s.size → clsTest T items neg (code s i) = false) : ends T s (.seq (.cls items neg) .eps) i = [] :=
  ends_seq_cls_no _ h

/-! ### `finditer` reports the leftmost successful attempt -/

theorem findAllFrom_mem_of_first {r : RE} {a e : Nat} (hae : a < e)
    (hnone : ∀ p, p < a → firstEnd T s r p = none) (hfirst : firstEnd T s r a = some e) (ha : a ≤ s.size) :
    ∀ fuel pos, pos ≤ a → a + 1 ≤ pos + fuel → (a, e) ∈ findAllFrom T s r fuel pos := by
  intro fuel
  induction fuel with
  | zero => intro pos h1 h2; omega
  | succ n ih =>
    intro pos h1 h2
    rw [findAllFrom]
    have : ¬ pos > s.size := by omega
    simp only [this, ↓reduceIte]
    by_cases hp : pos = a
    · subst hp
      simp [hfirst]
    · have hlt : pos < a := by omega
      rw [hnone pos hlt]
      exact ih (pos + 1) (by omega) (by omega)

theorem findAll_mem_of_first {r : RE} {a e : Nat} (hae : a < e)
    (hnone : ∀ p, p < a → firstEnd T s r p = none) (hfirst : firstEnd T s r a = some e) (ha : a ≤ s.size) :
    (a, e) ∈ findAll T s r :=
  findAllFrom_mem_of_first hae hnone hfirst ha _ 0 (by omega) (by omega)

theorem firstEnd_none_of_nil {r : RE} {i : Nat} (h : ends T s r i = []) : firstEnd T s r i = none := by
  simp [firstEnd, h]

end RTV.Re
