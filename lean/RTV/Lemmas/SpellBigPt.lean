import RTV.Lemmas.SpellBig
import RTV.Lemmas.SpellPtK
/-! Portuguese: the side facts of `huge_value` for every multiplier 1..999 in front of a scale noun (kernel evaluation on
the regenerated maps in chunks of 100; only the forms that differ from the stand-alone numeral, and the forms behind the
Portuguese connector, are evaluated through `getIntValue`), the scale-word table, and the lift to every n < 10^15. -/
namespace RTV.Num

def ptHChunk (j : Nat) : Bool :=
  (List.range 100).all fun i => 100 * j + i == 0 || hiFact ptHuge pt.lang (100 * j + i)

theorem pt_h0 : ptHChunk 0 = true := by decide +kernel
theorem pt_h1 : ptHChunk 1 = true := by decide +kernel
theorem pt_h2 : ptHChunk 2 = true := by decide +kernel
theorem pt_h3 : ptHChunk 3 = true := by decide +kernel
theorem pt_h4 : ptHChunk 4 = true := by decide +kernel
theorem pt_h5 : ptHChunk 5 = true := by decide +kernel
theorem pt_h6 : ptHChunk 6 = true := by decide +kernel
theorem pt_h7 : ptHChunk 7 = true := by decide +kernel
theorem pt_h8 : ptHChunk 8 = true := by decide +kernel
theorem pt_h9 : ptHChunk 9 = true := by decide +kernel

theorem pt_hchunks (j : Nat) (hj : j < 10) : ptHChunk j = true := by
  match j, hj with
  | 0, _ => exact pt_h0
  | 1, _ => exact pt_h1
  | 2, _ => exact pt_h2
  | 3, _ => exact pt_h3
  | 4, _ => exact pt_h4
  | 5, _ => exact pt_h5
  | 6, _ => exact pt_h6
  | 7, _ => exact pt_h7
  | 8, _ => exact pt_h8
  | 9, _ => exact pt_h9
  | j + 10, h => omega

theorem pt_hfacts (g : Nat) (h1 : 1 ≤ g) (h2 : g < 1000) : hiFact ptHuge pt.lang g = true := by
  have hc := pt_hchunks (g / 100) (by omega)
  simp only [ptHChunk, List.all_eq_true, List.mem_range] at hc
  have := hc (g % 100) (Nat.mod_lt _ (by decide))
  have e : 100 * (g / 100) + g % 100 = g := Nat.div_add_mod g 100
  rw [e] at this
  have hz : (g == 0) = false := by simp; omega
  simpa [hz] using this

theorem pt_scales : scalesOK pt.lang 1000 1000000000000000 ptHuge.scales = true := by decide +kernel

theorem pt_conn_word : ptHuge.big.eRule = true → lookup pt.lang.round [101] = none := by decide +kernel

theorem pt_hugeHyps : HugeHyps ptHuge pt.lang 1000 :=
  hugeHyps_narrow ptHuge pt.lang rfl (fun n h => pt_all n h rfl) pt_thousand_word pt_kfacts
    (fun r hr => sub1e6_of' ptBig pt.lang (fun n h => pt_all n h rfl) pt_lift r hr) pt_conn_word pt_hfacts

/-- every numeral below 10^15 (guard: see `huge_value`) -/
theorem pt_huge (n : Nat) (hn : n < 1000000000000000)
    (hg : ¬ (ptHuge.big.eRule = true ∧ ptHuge.big.omitOne = true ∧ n % 1000000 = 1000 ∧ 1000000 ≤ n)) :
    getIntValue true asciiDigits pt.lang (spellHuge ptHuge n).2 = .ok n :=
  huge_value ptHuge pt.lang 1000 1000000000000000 pt_hugeHyps pt_scales n hn hg

end RTV.Num
