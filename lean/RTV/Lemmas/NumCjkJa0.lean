import RTV.Lemmas.NumCjk
/-! kernel evaluation of the typed `get_int_value` walk (int / binary64), numerals 0..999 -/
namespace RTV.NumCjk
theorem ja_l0 : jaLoopChunk 0 = true := by decide +kernel
theorem ja_l1 : jaLoopChunk 1 = true := by decide +kernel
theorem ja_l2 : jaLoopChunk 2 = true := by decide +kernel
theorem ja_l3 : jaLoopChunk 3 = true := by decide +kernel
theorem ja_l4 : jaLoopChunk 4 = true := by decide +kernel
theorem ja_l5 : jaLoopChunk 5 = true := by decide +kernel
theorem ja_l6 : jaLoopChunk 6 = true := by decide +kernel
theorem ja_l7 : jaLoopChunk 7 = true := by decide +kernel
theorem ja_l8 : jaLoopChunk 8 = true := by decide +kernel
theorem ja_l9 : jaLoopChunk 9 = true := by decide +kernel
end RTV.NumCjk
