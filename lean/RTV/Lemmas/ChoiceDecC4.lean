import RTV.Lemmas.Choice
/-! Kernel evaluation of the negative same-polarity pairs with a skin-tone modifier, part 2. -/
namespace RTV.Choice
set_option maxRecDepth 100000
theorem same_skin_false_b_fast : sameSkinOn fastEnv false ((alts false).drop 12) = true := by decide +kernel
end RTV.Choice
