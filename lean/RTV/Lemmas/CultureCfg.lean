import RTV.Model.CultureCfg
/-! Lemmas about the decision-expression language of the culture configurations: expressions that do not read a
string parameter evaluate the same whatever the text (`*_eval_closed`), the three-valued condition is sound
(`abs_sound`), and `VE.possible` lists every value a method can return, whatever the text (`possible_sound`). -/
namespace RTV.CultureCfg

theorem SE.eval_closed (T : Tabs) (s₁ s₂ : List RTV.Py.Str) (ints : List Int) :
    ∀ e : SE, e.closed = true → e.eval T ⟨s₁, ints⟩ = e.eval T ⟨s₂, ints⟩ := by
  intro e
  induction e with
  | arg n => intro h; simp [SE.closed] at h
  | lit s => intro _; rfl
  | strip e ih => intro h; simp only [SE.closed] at h; simp only [SE.eval, ih h]
  | lower e ih => intro h; simp only [SE.closed] at h; simp only [SE.eval, ih h]
  | replace e a b ih => intro h; simp only [SE.closed] at h; simp only [SE.eval, ih h]
  | delChars e cs ih => intro h; simp only [SE.closed] at h; simp only [SE.eval, ih h]
  | slice e a b ih => intro h; simp only [SE.closed] at h; simp only [SE.eval, ih h]

theorem IE.eval_closed (T : Tabs) (s₁ s₂ : List RTV.Py.Str) (ints : List Int) :
    ∀ e : IE, e.closed = true → e.eval T ⟨s₁, ints⟩ = e.eval T ⟨s₂, ints⟩ := by
  intro e
  induction e with
  | arg n => intro _; rfl
  | lit i => intro _; rfl
  | add a b iha ihb => intro h; simp only [IE.closed, Bool.and_eq_true] at h; simp only [IE.eval, iha h.1, ihb h.2]
  | sub a b iha ihb => intro h; simp only [IE.closed, Bool.and_eq_true] at h; simp only [IE.eval, iha h.1, ihb h.2]
  | mul a b iha ihb => intro h; simp only [IE.closed, Bool.and_eq_true] at h; simp only [IE.eval, iha h.1, ihb h.2]
  | neg a iha => intro h; simp only [IE.closed] at h; simp only [IE.eval, iha h]
  | len e => intro h; simp only [IE.closed] at h; simp only [IE.eval, SE.eval_closed T s₁ s₂ ints e h]

theorem BE.eval_closed (T : Tabs) (s₁ s₂ : List RTV.Py.Str) (ints : List Int) :
    ∀ e : BE, e.closed = true → e.eval T ⟨s₁, ints⟩ = e.eval T ⟨s₂, ints⟩ := by
  intro e
  induction e with
  | lit b => intro _; rfl
  | eq a b => intro h; simp only [BE.closed, Bool.and_eq_true] at h
              simp only [BE.eval, SE.eval_closed T s₁ s₂ ints a h.1, SE.eval_closed T s₁ s₂ ints b h.2]
  | endsWith a b => intro h; simp only [BE.closed, Bool.and_eq_true] at h
                    simp only [BE.eval, SE.eval_closed T s₁ s₂ ints a h.1, SE.eval_closed T s₁ s₂ ints b h.2]
  | startsWith a b => intro h; simp only [BE.closed, Bool.and_eq_true] at h
                      simp only [BE.eval, SE.eval_closed T s₁ s₂ ints a h.1, SE.eval_closed T s₁ s₂ ints b h.2]
  | contains a b => intro h; simp only [BE.closed, Bool.and_eq_true] at h
                    simp only [BE.eval, SE.eval_closed T s₁ s₂ ints a h.1, SE.eval_closed T s₁ s₂ ints b h.2]
  | inList s l => intro h; simp only [BE.closed] at h; simp only [BE.eval, SE.eval_closed T s₁ s₂ ints s h]
  | anyEq s l => intro h; simp only [BE.closed] at h; simp only [BE.eval, SE.eval_closed T s₁ s₂ ints s h]
  | anyEnds s l => intro h; simp only [BE.closed] at h; simp only [BE.eval, SE.eval_closed T s₁ s₂ ints s h]
  | anyStarts s l => intro h; simp only [BE.closed] at h; simp only [BE.eval, SE.eval_closed T s₁ s₂ ints s h]
  | anyIn s l => intro h; simp only [BE.closed] at h; simp only [BE.eval, SE.eval_closed T s₁ s₂ ints s h]
  | reSearch r s => intro h; simp only [BE.closed] at h; simp only [BE.eval, SE.eval_closed T s₁ s₂ ints s h]
  | reMatch r s => intro h; simp only [BE.closed] at h; simp only [BE.eval, SE.eval_closed T s₁ s₂ ints s h]
  | reFull r s => intro h; simp only [BE.closed] at h; simp only [BE.eval, SE.eval_closed T s₁ s₂ ints s h]
  | nonEmpty s => intro h; simp only [BE.closed] at h; simp only [BE.eval, SE.eval_closed T s₁ s₂ ints s h]
  | icmp op a b => intro h; simp only [BE.closed, Bool.and_eq_true] at h
                   simp only [BE.eval, IE.eval_closed T s₁ s₂ ints a h.1, IE.eval_closed T s₁ s₂ ints b h.2]
  | and a b iha ihb => intro h; simp only [BE.closed, Bool.and_eq_true] at h; simp only [BE.eval, iha h.1, ihb h.2]
  | or a b iha ihb => intro h; simp only [BE.closed, Bool.and_eq_true] at h; simp only [BE.eval, iha h.1, ihb h.2]
  | not a iha => intro h; simp only [BE.closed] at h; simp only [BE.eval, iha h]

theorem FE.eval_closed (T : Tabs) (s₁ s₂ : List RTV.Py.Str) (ints : List Int) :
    ∀ e : FE, e.closed = true → e.eval T ⟨s₁, ints⟩ = e.eval T ⟨s₂, ints⟩ := by
  intro e h
  cases e with
  | int e => simp only [FE.closed] at h; simp only [FE.eval, IE.eval_closed T s₁ s₂ ints e h]
  | bool e => simp only [FE.closed] at h; simp only [FE.eval, BE.eval_closed T s₁ s₂ ints e h]
  | str e => simp only [FE.closed] at h; simp only [FE.eval, SE.eval_closed T s₁ s₂ ints e h]
  | none => rfl

/-- a condition decided from the int parameters alone has that value whatever the strings -/
theorem BE.abs_sound (T : Tabs) (strs : List RTV.Py.Str) (ints : List Int) :
    ∀ (e : BE) (b : Bool), e.abs T ints = some b → e.eval T ⟨strs, ints⟩ = b := by
  intro e
  have base : ∀ (e : BE) (b : Bool), (if e.closed then some (e.eval T ⟨[], ints⟩) else none) = some b →
      e.eval T ⟨strs, ints⟩ = b := by
    intro e b h
    by_cases hc : e.closed = true
    · simp only [hc, if_true, Option.some.injEq] at h
      rw [BE.eval_closed T strs [] ints e hc]; exact h
    · simp [hc] at h
  induction e with
  | and a b iha ihb =>
    intro r h
    simp only [BE.abs] at h
    simp only [BE.eval]
    cases ha : a.abs T ints with
    | none =>
      cases hb : b.abs T ints with
      | none => simp [ha, hb] at h
      | some y => cases y <;> simp [ha, hb] at h; subst h; simp [ihb false hb]
    | some x =>
      cases x with
      | false => simp [ha] at h; subst h; simp [iha false ha]
      | true =>
        cases hb : b.abs T ints with
        | none => simp [ha, hb] at h
        | some y => cases y <;> simp [ha, hb] at h <;> subst h <;> simp [iha true ha, ihb _ hb]
  | or a b iha ihb =>
    intro r h
    simp only [BE.abs] at h
    simp only [BE.eval]
    cases ha : a.abs T ints with
    | none =>
      cases hb : b.abs T ints with
      | none => simp [ha, hb] at h
      | some y => cases y <;> simp [ha, hb] at h; subst h; simp [ihb true hb]
    | some x =>
      cases x with
      | true => simp [ha] at h; subst h; simp [iha true ha]
      | false =>
        cases hb : b.abs T ints with
        | none => simp [ha, hb] at h
        | some y => cases y <;> simp [ha, hb] at h <;> subst h <;> simp [iha false ha, ihb _ hb]
  | not a iha =>
    intro r h
    simp only [BE.abs, Option.map_eq_some_iff] at h
    obtain ⟨x, hx, rfl⟩ := h
    simp only [BE.eval, iha x hx]
  | lit b => intro r h; exact base _ r (by simpa [BE.abs] using h)
  | eq a b => intro r h; exact base _ r (by simpa [BE.abs] using h)
  | endsWith a b => intro r h; exact base _ r (by simpa [BE.abs] using h)
  | startsWith a b => intro r h; exact base _ r (by simpa [BE.abs] using h)
  | contains a b => intro r h; exact base _ r (by simpa [BE.abs] using h)
  | inList s l => intro r h; exact base _ r (by simpa [BE.abs] using h)
  | anyEq s l => intro r h; exact base _ r (by simpa [BE.abs] using h)
  | anyEnds s l => intro r h; exact base _ r (by simpa [BE.abs] using h)
  | anyStarts s l => intro r h; exact base _ r (by simpa [BE.abs] using h)
  | anyIn s l => intro r h; exact base _ r (by simpa [BE.abs] using h)
  | reSearch r' s => intro r h; exact base _ r (by simpa [BE.abs] using h)
  | reMatch r' s => intro r h; exact base _ r (by simpa [BE.abs] using h)
  | reFull r' s => intro r h; exact base _ r (by simpa [BE.abs] using h)
  | nonEmpty s => intro r h; exact base _ r (by simpa [BE.abs] using h)
  | icmp op a b => intro r h; exact base _ r (by simpa [BE.abs] using h)

/-- **whatever the text**: the value of a decision tree is one of `possible` -/
theorem VE.possible_sound (T : Tabs) (strs : List RTV.Py.Str) (ints : List Int) :
    ∀ (e : VE) (vs : List Val), e.possible T ints = some vs → e.eval T ⟨strs, ints⟩ ∈ vs := by
  intro e
  induction e with
  | ite c a b iha ihb =>
    intro vs h
    simp only [VE.possible] at h
    simp only [VE.eval]
    cases hc : c.abs T ints with
    | some x =>
      have hv := BE.abs_sound T strs ints c x hc
      cases x with
      | true => simp only [hc] at h; simp only [hv, if_true]; exact iha vs h
      | false => simp only [hc] at h; simp only [hv]; exact ihb vs h
    | none =>
      simp only [hc] at h
      cases ha : a.possible T ints with
      | none => simp [ha] at h
      | some x =>
        cases hb : b.possible T ints with
        | none => simp [ha, hb] at h
        | some y =>
          simp [ha, hb] at h
          subst h
          by_cases hcv : c.eval T ⟨strs, ints⟩ = true
          · simp only [hcv, if_true]; exact List.mem_append_left _ (iha x ha)
          · simp only [hcv]; exact List.mem_append_right _ (ihb y hb)
  | ret f =>
    intro vs h
    simp only [VE.possible] at h
    by_cases hf : f.closed = true
    · simp only [hf, if_true, Option.some.injEq] at h
      subst h
      simp only [VE.eval, FE.eval_closed T strs [] ints f hf, List.mem_singleton]
    · simp [hf] at h
  | record fs =>
    intro vs h
    simp only [VE.possible] at h
    by_cases hf : fs.all FE.closed = true
    · simp only [hf, if_true, Option.some.injEq] at h
      subst h
      simp only [VE.eval, List.mem_singleton, Val.record.injEq]
      apply List.map_congr_left
      intro f hfm
      exact FE.eval_closed T strs [] ints f (List.all_eq_true.mp hf f hfm)
    · simp [hf] at h

/-- the form the property theorems use: a Bool check over `possible` transfers to every call -/
theorem Method.all_texts (T : Tabs) (m : Method) (ints : List Int) (P : Val → Bool)
    (h : (match m.body.possible T ints with | some vs => vs.all P | none => false) = true) :
    ∀ strs : List RTV.Py.Str, P (m.run T strs ints) = true := by
  intro strs
  cases hp : m.body.possible T ints with
  | none => simp [hp] at h
  | some vs =>
    simp only [hp] at h
    exact List.all_eq_true.mp h _ (VE.possible_sound T strs ints m.body vs hp)

end RTV.CultureCfg
