import RTV.Lemmas.ThousandEu
import RTV.Lemmas.SpellEs
/-! Spanish: the side facts of `thousand_lift` for every multiplier / remainder 1..999 (kernel evaluation in chunks of
100; only the few forms that differ from the stand-alone numeral are evaluated through `getIntValue`), and the lift. -/
namespace RTV.Num

def esKChunk (j : Nat) : Bool :=
  (List.range 100).all fun i =>
    100 * j + i == 0 || (multFact esBig es.lang (100 * j + i) && restFact esBig es.lang (100 * j + i))

theorem es_k0 : esKChunk 0 = true := by decide +kernel
theorem es_k1 : esKChunk 1 = true := by decide +kernel
theorem es_k2 : esKChunk 2 = true := by decide +kernel
theorem es_k3 : esKChunk 3 = true := by decide +kernel
theorem es_k4 : esKChunk 4 = true := by decide +kernel
theorem es_k5 : esKChunk 5 = true := by decide +kernel
theorem es_k6 : esKChunk 6 = true := by decide +kernel
theorem es_k7 : esKChunk 7 = true := by decide +kernel
theorem es_k8 : esKChunk 8 = true := by decide +kernel
theorem es_k9 : esKChunk 9 = true := by decide +kernel

theorem es_kchunks (j : Nat) (hj : j < 10) : esKChunk j = true := by
  match j, hj with
  | 0, _ => exact es_k0
  | 1, _ => exact es_k1
  | 2, _ => exact es_k2
  | 3, _ => exact es_k3
  | 4, _ => exact es_k4
  | 5, _ => exact es_k5
  | 6, _ => exact es_k6
  | 7, _ => exact es_k7
  | 8, _ => exact es_k8
  | 9, _ => exact es_k9
  | j + 10, h => omega

theorem es_kfacts (n : Nat) (h1 : 1 ≤ n) (h2 : n < 1000) :
    multFact esBig es.lang n = true ∧ restFact esBig es.lang n = true := by
  have hc := es_kchunks (n / 100) (by omega)
  simp only [esKChunk, List.all_eq_true, List.mem_range] at hc
  have := hc (n % 100) (Nat.mod_lt _ (by decide))
  have e : 100 * (n / 100) + n % 100 = n := Nat.div_add_mod n 100
  rw [e] at this
  have hz : (n == 0) = false := by simp; omega
  simpa [hz] using this

theorem es_thousand_word : lookup es.lang.round esBig.thousand = some 1000 := by decide +kernel

theorem es_lift (n : Nat) (h1 : 1000 ≤ n) (h2 : n < 1000000) :
    getIntValue true asciiDigits es.lang (spellEuBig esBig n).2 = .ok n :=
  thousand_lift esBig es.lang es_thousand_word (fun n h => es_all n h rfl)
    (fun k a b => (es_kfacts k a b).1) (fun u a b => (es_kfacts u a b).2) n h1 h2

end RTV.Num
