import RTV.Lemmas.Factory
/-!
# C17 — culture routing and model caching never serve the wrong model

Property theorems about `RTV.Model.Factory` (mirrors `recognizers_text/culture.py`, `model.py`, `recognizer.py`
and the constructors / `get_*_model` wrappers of the five recognisers). The supported-culture list, the
registrations of each recogniser and the accepted option intervals are the regenerated tables of
`RTV/Gen/Factory.lean`; the facts about them used below are re-decided by the kernel on every check.
`str.lower` / `str.isspace` are parameters (`PyStr`): the theorems hold for any Unicode database.
Helper lemmas: `RTV/Lemmas/Factory.lean`.
-/
namespace RTV.Factory
open RTV.Py
set_option linter.unusedSimpArgs false
set_option linter.unusedVariables false

/-! ## Facts about the regenerated tables (decided by the kernel) -/

abbrev S := RTV.Gen.supportedCultures
def genRegs (k : Nat) : List (Str × Str) := RTV.Gen.registrations.getD k []
abbrev nKinds := RTV.Gen.registrations.length

theorem genRegs_nil_of_ge (k : Nat) (h : nKinds ≤ k) : genRegs k = [] := by
  simp [genRegs, List.getD, List.getElem?_eq_none h]

theorem lt_of_mem_genRegs {k : Nat} {p : Str × Str} (h : p ∈ genRegs k) : k < nKinds := by
  by_cases hk : k < nKinds
  · exact hk
  · rw [genRegs_nil_of_ge k (by omega)] at h; cases h

/-- Every registered culture is a supported culture and carries no `*`. -/
theorem gen_regs_supported_table :
    ∀ k ∈ List.range nKinds, ∀ p ∈ genRegs k, p.2 ∈ S ∧ hasStar p.2 = false := by decide +kernel

/-- Model type names are not shared between recognisers. -/
theorem gen_types_owned_table :
    ∀ i ∈ List.range nKinds, ∀ j ∈ List.range nKinds, ∀ p ∈ genRegs i, ∀ q ∈ genRegs j, p.1 = q.1 → j = i := by
  decide +kernel

/-- Every model type of every recogniser has a model for the fallback culture (English). -/
theorem gen_english_registered_table :
    ∀ k ∈ List.range nKinds, ∀ p ∈ genRegs k, (p.1, RTV.Gen.fallbackCulture) ∈ genRegs k := by decide +kernel

/-- `register_model` never saw a duplicate while the recognisers were constructed. -/
theorem gen_regs_nodup : ∀ k ∈ List.range nKinds, (genRegs k).Nodup := by decide +kernel

/-- In the supported list, a culture that is the only one of its language is the only one whose code starts
with that language tag. -/
theorem gen_unique_tag : UniqueTagOk S := by
  unfold UniqueTagOk
  decide +kernel

theorem gen_regs_supported (py : PyStr) (r : Bool) : RegsSupported (genCfg py r) := by
  intro k p hp
  have hp' : p ∈ genRegs k := hp
  exact gen_regs_supported_table k (List.mem_range.2 (lt_of_mem_genRegs hp')) p hp'

/-- A recogniser's own model types: registered by it and by no other recogniser. -/
theorem gen_owned (py : PyStr) (r : Bool) (k : Nat) (t c : Str) (h : (t, c) ∈ genRegs k) :
    Owned (genCfg py r) k t := by
  intro k' c' h'
  have h'' : (t, c') ∈ genRegs k' := h'
  exact gen_types_owned_table k (List.mem_range.2 (lt_of_mem_genRegs h)) k'
    (List.mem_range.2 (lt_of_mem_genRegs h'')) _ h _ h'' rfl

/-! ## Culture mapping -/

/-- **map_supported_any_case.** Whatever string lower-cases (Python `str.lower`, any Unicode database) to a
supported code is mapped to that code — by the code as it is and by the repaired variant, for any supported
list. -/
theorem map_supported_any_case (r : Bool) (E : PyStr) (S : List Str) (c : Str) (hc : c ≠ [])
    (h : E.lower c ∈ S) : mapToNearest r E S (some c) = some (E.lower c) := by
  rw [mapToNearest_some _ _ _ _ hc]; simp [h]

/-- `s` is `c` with some ASCII lower-case letters replaced by their upper-case form. -/
def CaseVariant : Str → Str → Prop
  | [], [] => True
  | a :: s, b :: c => (a = b ∨ (97 ≤ b ∧ b ≤ 122 ∧ a + 32 = b)) ∧ CaseVariant s c
  | _, _ => False

theorem caseVariant_lower (s c : Str) (h : CaseVariant s c) (hl : ∀ b ∈ c, b < 128 ∧ ¬ (65 ≤ b ∧ b ≤ 90)) :
    s.map asciiLowerCp = c ∧ ∀ a ∈ s, a < 128 := by
  induction s generalizing c with
  | nil => cases c with
    | nil => simp
    | cons b c => simp [CaseVariant] at h
  | cons a s ih =>
    cases c with
    | nil => simp [CaseVariant] at h
    | cons b c =>
      simp only [CaseVariant] at h
      obtain ⟨hab, hrest⟩ := h
      obtain ⟨ih1, ih2⟩ := ih c hrest (fun x hx => hl x (by simp [hx]))
      have hb := hl b (by simp)
      refine ⟨?_, ?_⟩
      · simp only [List.map_cons, List.cons.injEq]
        refine ⟨?_, ih1⟩
        unfold asciiLowerCp
        rcases hab with h | ⟨h1, h2, h3⟩
        · subst h; simp [hb.2]
        · have : 65 ≤ a ∧ a ≤ 90 := by omega
          simp [this]; omega
      · intro x hx
        simp only [List.mem_cons] at hx
        rcases hx with rfl | hx
        · rcases hab with h | ⟨_, h2, h3⟩ <;> omega
        · exact ih2 x hx

/-- ASCII reading of "any letter case": every upper/lower-casing of a supported (ASCII, lower-case) code maps
to it, for any interpreter whose `str.lower` does on ASCII strings what ASCII lower-casing does. -/
theorem map_supported_any_case_ascii (r : Bool) (E : PyStr) (S : List Str) (s c : Str)
    (hE : ∀ x : Str, (∀ a ∈ x, a < 128) → E.lower x = x.map asciiLowerCp)
    (hc : c ∈ S) (hne : c ≠ []) (hlow : ∀ b ∈ c, b < 128 ∧ ¬ (65 ≤ b ∧ b ≤ 90)) (hv : CaseVariant s c) :
    mapToNearest r E S (some s) = some c := by
  obtain ⟨hs, hascii⟩ := caseVariant_lower s c hv hlow
  have hl : E.lower s = c := by rw [hE s hascii, hs]
  have hsne : s ≠ [] := by
    intro h; subst h
    cases c with
    | nil => exact hne rfl
    | cons b c => simp [CaseVariant] at hv
  rw [← hl]
  exact map_supported_any_case r E S s hsne (by rw [hl]; exact hc)

/-- The supported codes of the working tree are ASCII and lower-case, so the theorem applies to each of them. -/
theorem gen_supported_ascii_lower : ∀ c ∈ S, c ≠ [] ∧ ∀ b ∈ c, b < 128 ∧ ¬ (65 ≤ b ∧ b ≤ 90) := by decide +kernel

/-- non-vacuity: `"EN-us"` is a case variant of `"en-us"` and maps to it -/
example : CaseVariant [69, 78, 45, 117, 115] [101, 110, 45, 117, 115] := by simp [CaseVariant]
example : mapToNearest true asciiPy S (some [69, 78, 45, 117, 115]) = some [101, 110, 45, 117, 115] := by decide

/-- Regression variant (candidate test `startswith`, the code before the fix): the same statement needs the
supported list's `UniqueTagOk` fact (decided for the working tree's list above). -/
theorem map_unique_language_startswith (E : PyStr) (S : List Str) (hU : UniqueTagOk S) (c x : Str) (hc : c ≠ [])
    (hns : E.lower c ∉ S) (hx : x ∈ S)
    (huniq : S.filter (fun s => beforeDash s == beforeDash x) = [x])
    (hlang : langPrefix E (E.lower c) = beforeDash x) :
    mapToNearest false E S (some c) = some x := by
  rw [mapToNearest_some _ _ _ _ hc]
  simp only [hns, if_false, hlang, candidates_current, hU x hx huniq, choose]

theorem map_unique_language_startswith_gen (E : PyStr) (c x : Str) (hc : c ≠ []) (hns : E.lower c ∉ S) (hx : x ∈ S)
    (huniq : S.filter (fun s => beforeDash s == beforeDash x) = [x])
    (hlang : langPrefix E (E.lower c) = beforeDash x) :
    mapToNearest false E S (some c) = some x :=
  map_unique_language_startswith E S gen_unique_tag c x hc hns hx huniq hlang

/-- **map_unique_language.** A code that is not itself supported, whose language tag is that of exactly one
supported culture, is mapped to that culture (regional variants: `fr-ca`, `pt-pt`, `zh-tw`, …) — the code as
it is (language tags compared), for any supported list and any `str.lower`. -/
theorem map_unique_language (E : PyStr) (S : List Str) (c x : Str) (hc : c ≠ [])
    (hns : E.lower c ∉ S)
    (huniq : S.filter (fun s => beforeDash s == beforeDash x) = [x])
    (hlang : langPrefix E (E.lower c) = beforeDash x) :
    mapToNearest true E S (some c) = some x := by
  rw [mapToNearest_some _ _ _ _ hc]
  simp only [hns, if_false, hlang, candidates_repaired, huniq, choose]

/-- non-vacuity: `fr-CA`, `pt-pt`, `zh-TW` -/
example : mapToNearest true asciiPy S (some [102, 114, 45, 67, 65]) = some [102, 114, 45, 102, 114] := by decide
example : mapToNearest true asciiPy S (some [112, 116, 45, 112, 116]) = some [112, 116, 45, 98, 114] := by decide
example : mapToNearest true asciiPy S (some [122, 104, 45, 84, 87]) = some [122, 104, 45, 99, 110] := by decide

/-! ## Routing: which constructor answers a request

`route cfg kind t c fb o` is the constructor key a factory-level request is answered from when nothing is
cached; `specCulture` is the property's reading of a culture string (language tags compared for equality;
`none` = "any other code"). The property demands `route … (specCulture …)`: the model of the denoted culture
when the recogniser has one, else English with fallback and ValueError without. -/

/-- **no_model_falls_back.** A request whose culture the recogniser has no model for — unsupported, "other"
(`none`), or supported but unregistered such as ko-kr, tr-tr, en-* — gets the English model when fallback is
on (the object `True`) and ValueError otherwise. -/
theorem no_model_falls_back (cfg : Cfg) (kind : Nat) (t : Str) (c : Option Str) (o : Int)
    (h : ∀ cs, c = some cs → (t, cs) ∉ cfg.regs kind) (hen : (t, cfg.fallback) ∈ cfg.regs kind) :
    route cfg kind t c true o = .ok ⟨kind, t, cfg.fallback, o⟩ ∧
    route cfg kind t c false o = .error .valueError := by
  rw [route_unreg cfg kind t c true o h, route_unreg cfg kind t c false o h]
  simp [route, hen]

def koKr : Str := [107, 111, 45, 107, 114]
def trTr : Str := [116, 114, 45, 116, 114]
def enStar : Str := [101, 110, 45, 42]
def enUs : Str := [101, 110, 45, 117, 115]
def frFr : Str := [102, 114, 45, 102, 114]
def deDe : Str := [100, 101, 45, 100, 101]
def jaJp : Str := [106, 97, 45, 106, 112]
def numberModel : Str := [78, 117, 109, 98, 101, 114, 77, 111, 100, 101, 108]
def dateTimeModel : Str := [68, 97, 116, 101, 84, 105, 109, 101, 77, 111, 100, 101, 108]
def phoneNumberModel : Str := [80, 104, 111, 110, 101, 78, 117, 109, 98, 101, 114, 77, 111, 100, 101, 108]

/-- In the working tree no recogniser registers anything for ko-kr, tr-tr or en-*, and the fallback culture is
en-us. -/
theorem gen_no_models_for_ko_tr_enstar :
    RTV.Gen.fallbackCulture = enUs ∧
    ∀ k ∈ List.range nKinds, ∀ p ∈ genRegs k, p.2 ≠ koKr ∧ p.2 ≠ trTr ∧ p.2 ≠ enStar := by decide +kernel

/-- non-vacuity of `no_model_falls_back`: the date-time recogniser (kind 2) asked for ja-jp -/
example : route (genCfg asciiPy true) 2 dateTimeModel (some jaJp) true 0 = .ok ⟨2, dateTimeModel, enUs, 0⟩ ∧
    route (genCfg asciiPy true) 2 dateTimeModel (some jaJp) false 0 = .error .valueError := by decide +kernel

/-- The culture string a `Recognizer.get_model` call works with (`if culture is None: culture = self.target_culture`). -/
def asked (i : Inst) (c : Option Str) : Option Str := match c with | none => i.target | some x => some x

/-- **map_other_falls_back** (full strength; the code as it is). For every culture string, recogniser instance,
model type, fallback flag and `str.lower`: the request is answered from the constructor the property names —
a supported code in any letter case gets its culture, a regional variant of a language with exactly one
supported culture gets that culture, and every other string is answered like "no culture": the English model
with fallback, ValueError without (`other_code_gets_english`). -/
theorem map_other_falls_back (py : PyStr) (i : Inst) (t : Str) (c : Option Str) (fb : Bool) :
    route (genCfg py true) i.kind t (resolve (genCfg py true) i c) fb i.options =
      route (genCfg py true) i.kind t (specCulture py S (asked i c)) fb i.options :=
  route_map_eq_spec (genCfg py true) (gen_regs_supported py true) (fun h => by cases h) i.kind t
    (asked i c) fb i.options (fun h => by cases h)

/-- "any other code": when the string denotes no supported culture, the answer is English with fallback and
ValueError without (for every model type that has an English model — all of them, `gen_english_registered_table`). -/
theorem other_code_gets_english (py : PyStr) (r : Bool) (kind : Nat) (t : Str) (c : Option Str) (o : Int)
    (hother : specCulture py S c = none) (hen : (t, RTV.Gen.fallbackCulture) ∈ genRegs kind) :
    route (genCfg py r) kind t (specCulture py S c) true o = .ok ⟨kind, t, RTV.Gen.fallbackCulture, o⟩ ∧
    route (genCfg py r) kind t (specCulture py S c) false o = .error .valueError := by
  rw [hother]
  exact no_model_falls_back (genCfg py r) kind t none o (by simp) hen

/-- the strings of the repaired defect, on the code as it is: English with fallback, ValueError without -/
example : route (genCfg asciiPy true) 0 numberModel (resolve (genCfg asciiPy true) ⟨0, none, 0⟩ (some [102])) true 0 =
    .ok ⟨0, numberModel, enUs, 0⟩ := by decide +kernel
example : route (genCfg asciiPy true) 0 numberModel (resolve (genCfg asciiPy true) ⟨0, none, 0⟩ (some [100])) false 0 =
    .error .valueError := by decide +kernel

/-! ### Regression section: the candidate test before the fix (`supported.startswith(prefix)`)

The full statement above is FALSE for this variant: a string whose prefix is a proper initial segment of
exactly one supported code is routed to that culture (`startswith_variant_false_f/_zx/_d`; the defect repaired
by the `fix:` commit "map_to_nearest_language compares the language tag instead of a string prefix"). Kept:
the statement under the exact guard `PrefixIsTag`, the negative witnesses, and the correspondence, which
replays the witnesses on the implementation on every run and reports them if the tree reverts. -/

/-- The `startswith` variant answers every request as the property demands whenever the guard holds: if exactly
one supported code starts with the requested prefix then that code's language tag is the prefix. -/
theorem map_other_falls_back_startswith_partial (py : PyStr) (i : Inst) (t : Str) (c : Option Str) (fb : Bool)
    (guard : PrefixIsTag py S (asked i c)) :
    route (genCfg py false) i.kind t (resolve (genCfg py false) i c) fb i.options =
      route (genCfg py false) i.kind t (specCulture py S (asked i c)) fb i.options :=
  route_map_eq_spec (genCfg py false) (gen_regs_supported py false) (fun _ => gen_unique_tag) i.kind t
    (asked i c) fb i.options (fun _ => guard)

/-- The guard in the form "the prefix is a full language tag of the supported list, or no supported code
starts with it". -/
theorem prefixIsTag_of_tag_or_none (E : PyStr) (S : List Str) (c : Option Str)
    (h : ∀ cs, c = some cs →
      (∃ y ∈ S, beforeDash y = langPrefix E (E.lower cs)) ∨
      (∀ y ∈ S, startsWith y (langPrefix E (E.lower cs)) = false)) :
    PrefixIsTag E S c := by
  intro cs hcs _ _ x hx
  rcases h cs hcs with ⟨y, hy, hyp⟩ | hnone
  · have : y ∈ candidates false S (langPrefix E (E.lower cs)) := by
      rw [candidates_current, List.mem_filter]
      refine ⟨hy, ?_⟩
      rw [← hyp]; exact beforeDash_prefix y
    rw [hx] at this
    simp only [List.mem_singleton] at this
    rw [← this]; exact hyp
  · have : x ∈ candidates false S (langPrefix E (E.lower cs)) := by rw [hx]; simp
    rw [candidates_current, List.mem_filter] at this
    rw [hnone x this.1] at this
    simp at this

/-- **Negative witnesses** (`startswith` variant, number recogniser = kind 0): the strings `"f"`, `"z-x"`, `"d"`
denote no supported culture, the property demands the English model (ValueError without fallback), the
variant builds the French / Chinese / German one. Replayed on the implementation by the correspondence. -/
theorem startswith_variant_false_f :
    specCulture asciiPy S (some [102]) = none ∧
    route (genCfg asciiPy false) 0 numberModel (resolve (genCfg asciiPy false) ⟨0, none, 0⟩ (some [102])) true 0 =
      .ok ⟨0, numberModel, frFr, 0⟩ := by decide +kernel

theorem startswith_variant_false_zx :
    specCulture asciiPy S (some [122, 45, 120]) = none ∧
    route (genCfg asciiPy false) 0 numberModel (resolve (genCfg asciiPy false) ⟨0, none, 0⟩ (some [122, 45, 120])) true 0 =
      .ok ⟨0, numberModel, zhCn, 0⟩ := by decide +kernel

theorem startswith_variant_false_d :
    specCulture asciiPy S (some [100]) = none ∧
    route (genCfg asciiPy false) 0 numberModel (resolve (genCfg asciiPy false) ⟨0, none, 0⟩ (some [100])) false 0 =
      .ok ⟨0, numberModel, deDe, 0⟩ := by decide +kernel

/-- non-vacuity of the guard: `"en-GB"` (prefix `en` is a full tag), `"xx-yy"` (matches nothing) -/
example : PrefixIsTag asciiPy S (some [101, 110, 45, 71, 66]) :=
  prefixIsTag_of_tag_or_none _ _ _ (fun cs h => by injection h with h; subst h; decide +kernel)
example : PrefixIsTag asciiPy S (some [120, 120, 45, 121, 121]) :=
  prefixIsTag_of_tag_or_none _ _ _ (fun cs h => by injection h with h; subst h; decide +kernel)

/-- The sequence recogniser's phone / IP / URL wrappers send every `zh-*` and `ja-*` culture to `Culture.Chinese`
before the mapping (explicit code, not a routing accident); every other wrapper passes the culture through. -/
theorem wrapper_cjk_routes_chinese (cfg : Cfg) (cs : Str) (hne : cs ≠ [])
    (h : startsWith (cfg.py.lower cs) zhDash = true ∨ startsWith (cfg.py.lower cs) jaDash = true) :
    wrapCulture cfg true (some cs) = some cfg.chinese := by
  have : cs.isEmpty = false := by cases cs <;> simp_all
  rcases h with h | h <;> simp [wrapCulture, h, this]

theorem wrapper_plain_passes_through (cfg : Cfg) (c : Option Str) : wrapCulture cfg false c = c := by
  cases c <;> simp [wrapCulture]

/-! ## Default culture, empty culture, letter case of a request

`Recognizer.get_model` first replaces a missing culture (`None`) by the recogniser's target culture and only
then calls `map_to_nearest_language` — in that order. -/

/-- **target_default_equiv.** A recogniser built with target culture `T` and asked with `culture=None` is
answered exactly like any recogniser of the same kind and options asked with `culture=T` — same resulting cache,
same model object or error — for `Recognizer.get_model` and for every getter that does not special-case cultures.
In particular the target culture goes through the same normalisation (letter case, regional variant) as an
explicit culture. -/
theorem target_default_equiv (cfg : Cfg) (k : Nat) (o : Int) (T : Str) (other : Option Str) (t : Str) (fb : Bool)
    (st : State) :
    step cfg st (.get ⟨k, some T, o⟩ t none fb) = step cfg st (.get ⟨k, other, o⟩ t (some T) fb) ∧
    step cfg st (.getW ⟨k, some T, o⟩ t false none fb) = step cfg st (.getW ⟨k, other, o⟩ t false (some T) fb) := by
  constructor <;> simp [step, recGet, resolve, wrapCulture]

/-- **empty_culture_never_target.** An empty culture string is not "no culture": it never falls back to the
target culture — it resolves to nothing (English with fallback, ValueError without), whatever the target is. -/
theorem empty_culture_never_target (cfg : Cfg) (i : Inst) (cjk : Bool) :
    resolve cfg i (some []) = none ∧ resolve cfg i (wrapCulture cfg cjk (some [])) = none := by
  constructor <;> simp [resolve, wrapCulture, mapToNearest]

/-- **getter_case_insensitive.** Two culture strings with the same `str.lower()` are routed identically by every
getter, including the sequence getters with the zh- and ja- shortcut: same state, same model object or error. -/
theorem getter_case_insensitive (cfg : Cfg) (i : Inst) (t : Str) (cjk : Bool) (c₁ c₂ : Str) (fb : Bool) (st : State)
    (h₁ : c₁ ≠ []) (h₂ : c₂ ≠ []) (hl : cfg.py.lower c₁ = cfg.py.lower c₂) :
    step cfg st (.getW i t cjk (some c₁) fb) = step cfg st (.getW i t cjk (some c₂) fb) := by
  have e₁ : c₁.isEmpty = false := by cases c₁ <;> simp_all
  have e₂ : c₂.isEmpty = false := by cases c₂ <;> simp_all
  have key : resolve cfg i (wrapCulture cfg cjk (some c₁)) = resolve cfg i (wrapCulture cfg cjk (some c₂)) := by
    simp only [wrapCulture, e₁, e₂, hl]
    split
    · rfl
    · simp only [resolve]
      rw [mapToNearest_some _ _ _ _ h₁, mapToNearest_some _ _ _ _ h₂, hl]
  simp [step, recGet, key]

/-- Recorded observation (monitored by the correspondence, not judged: the property judges a request by the
culture it resolves to): the zh- and ja- shortcut of the sequence getters looks at the explicit argument only, so a
sequence recogniser (kind 3) built with target `ja-jp` and asked without a culture gets the English phone-number
model, while the same recogniser asked for `ja-jp` explicitly gets the Chinese one. -/
theorem cjk_shortcut_ignores_target_culture :
    (step (genCfg asciiPy true) State.init (.getW ⟨3, some jaJp, 0⟩ phoneNumberModel true none true)).2 =
      .model ⟨⟨3, phoneNumberModel, enUs, 0⟩, 0⟩ ∧
    (step (genCfg asciiPy true) State.init (.getW ⟨3, some jaJp, 0⟩ phoneNumberModel true (some jaJp) true)).2 =
      .model ⟨⟨3, phoneNumberModel, zhCn, 0⟩, 0⟩ := by decide +kernel

/-! ## The cache -/

theorem mem_zip_of_mem_outs {α β} (l₁ : List α) (l₂ : List β) (hl : l₂.length = l₁.length) (b : β) (hb : b ∈ l₂) :
    ∃ a, (a, b) ∈ l₁.zip l₂ := by
  obtain ⟨i, hi, rfl⟩ := List.mem_iff_getElem.1 hb
  refine ⟨l₁[i]'(by omega), ?_⟩
  rw [List.mem_iff_getElem]
  exact ⟨i, by simp [List.length_zip]; omega, by simp⟩

/-- **cache_key_separation.** For every history of constructions, `get_model` / wrapper / factory-level
`get_model` / `try_get_model` / `initialize_models` operations, over any keys, any mix of recogniser instances,
kinds, target cultures, options and fallback flags, starting from the empty cache: every model that is
returned was built by a constructor registered (by the kind that built it) for **exactly the requested type**
and for **exactly the requested resolved culture — or the fallback culture, only when fallback was asked and
neither cache nor registration had the requested one** — and was called with **exactly the requested options**.
If moreover the type is the asking recogniser's own, the answer (identity erased) is the one the operation gets
when it is alone. -/
theorem cache_key_separation (cfg : Cfg) (ops : List Op) :
    ∀ p ∈ ops.zip (run cfg State.init ops).2,
      (∀ k t c fb o, request cfg p.1 = some (k, t, c, fb, o) → ∀ m, p.2 = .model m →
        m.id.type = t ∧ m.id.options = o ∧ (t, m.id.culture) ∈ cfg.regs m.id.kind ∧
        (c = some m.id.culture ∨ (fb = true ∧ m.id.culture = cfg.fallback ∧ tryRoute cfg k t c o = none))) ∧
      (OwnType cfg p.1 → p.2.erase = coldAnswer cfg p.1) := by
  intro p hp
  refine ⟨?_, ?_⟩
  · intro k t c fb o hreq m hm
    exact (((run_spec cfg ops State.init (inv_init cfg)).2.2 p hp).2 k t c fb o hreq).1 m hm
  · -- re-run the history up to this operation: use the step-level statement along the run
    revert p
    suffices H : ∀ (st : State), Inv cfg st → ∀ p ∈ ops.zip (run cfg st ops).2,
        OwnType cfg p.1 → p.2.erase = coldAnswer cfg p.1 from H State.init (inv_init cfg)
    induction ops with
    | nil => intro st _ p hp; simp [run] at hp
    | cons op rest ih =>
      intro st hst p hp hown
      simp only [run, List.zip_cons_cons, List.mem_cons] at hp
      rcases hp with rfl | hp
      · exact step_transparent cfg st hst op hown
      · exact ih (step cfg st op).1 (step_spec cfg st op hst).1 p hp hown

/-- **Object identity.** In any sequential history two returned models are the same object iff they were
built by the same constructor call key (kind, type, culture, options): equal keys always share one object,
different keys never do. -/
theorem same_key_same_object (cfg : Cfg) (ops : List Op) (m m' : Obj)
    (h : Out.model m ∈ (run cfg State.init ops).2) (h' : Out.model m' ∈ (run cfg State.init ops).2) :
    m.id = m'.id ↔ m.serial = m'.serial := by
  obtain ⟨inv, _, hall⟩ := run_spec cfg ops State.init (inv_init cfg)
  obtain ⟨op, hop⟩ := mem_zip_of_mem_outs ops _ (run_length cfg ops State.init) _ h
  obtain ⟨op', hop'⟩ := mem_zip_of_mem_outs ops _ (run_length cfg ops State.init) _ h'
  have hm := (hall _ hop).1 m rfl
  have hm' := (hall _ hop').1 m' rfl
  constructor
  · intro hid
    have : m = m' := nodup_keys_unique inv.keys hm (by rw [hid]; exact hm')
    rw [this]
  · intro hs
    have := nodup_serial_unique inv.serials hm hm' hs
    injection this with _ h2
    rw [h2]

/-- For the working tree's tables every wrapper / `get_model` call for a model type that the recogniser
registers is on an own type, so `cache_key_separation` gives it the cold answer. -/
theorem gen_own_type (py : PyStr) (r : Bool) (i : Inst) (t c₀ : Str) (c : Option Str) (fb cjk : Bool)
    (h : (t, c₀) ∈ genRegs i.kind) :
    OwnType (genCfg py r) (.get i t c fb) ∧ OwnType (genCfg py r) (.getW i t cjk c fb) := by
  constructor <;>
  · intro k t' c' fb' o hreq
    simp only [request, Option.some.injEq, Prod.mk.injEq] at hreq
    obtain ⟨rfl, rfl, _, _, _⟩ := hreq
    exact gen_owned py r _ _ c₀ h

/-- non-vacuity + a two-recogniser history: number and date-time recognisers, options 0 and 2, interleaved;
equal keys share the object (serials 0, 1, 2; the 4th answer is the 1st object). -/
example : (run (genCfg asciiPy true) State.init
      [.get ⟨0, none, 0⟩ numberModel (some frFr) false,
       .get ⟨2, none, 2⟩ dateTimeModel (some frFr) false,
       .get ⟨2, none, 0⟩ dateTimeModel (some frFr) false,
       .get ⟨0, some frFr, 0⟩ numberModel none true]).2 =
    [.model ⟨⟨0, numberModel, frFr, 0⟩, 0⟩, .model ⟨⟨2, dateTimeModel, frFr, 2⟩, 1⟩,
     .model ⟨⟨2, dateTimeModel, frFr, 0⟩, 2⟩, .model ⟨⟨0, numberModel, frFr, 0⟩, 0⟩] := by decide +kernel

/-- Why `OwnType` is needed (a recorded observation, not part of the property's quantifier, which ranges over
each recogniser's own model types): the cache is one dict for all recognisers, so the generic
`Recognizer.get_model` of a *choice* recogniser (kind 4) asked for `'NumberModel'` raises ValueError when alone
but is served the number recogniser's model once that has been built. The key is still exactly the requested one. -/
theorem foreign_type_served_from_shared_cache :
    (run (genCfg asciiPy true) State.init [.get ⟨4, none, 0⟩ numberModel (some enUs) false]).2 =
      [.err .valueError] ∧
    (run (genCfg asciiPy true) State.init
      [.get ⟨0, none, 0⟩ numberModel (some enUs) false, .get ⟨4, none, 0⟩ numberModel (some enUs) false]).2 =
      [.model ⟨⟨0, numberModel, enUs, 0⟩, 0⟩, .model ⟨⟨0, numberModel, enUs, 0⟩, 0⟩] := by decide +kernel

/-! ## Registration and option validation -/

/-- **register_duplicate_rejected.** `register_model` raises ValueError exactly for a (type, culture) that is
already registered (and then changes nothing); otherwise the key is appended. -/
theorem register_duplicate_rejected (regs : List (Str × Str)) (t c : Str) :
    (register regs t c = none ↔ (t, c) ∈ regs) ∧
    ((t, c) ∉ regs → register regs t c = some (regs ++ [(t, c)])) := by
  unfold register
  by_cases h : (t, c) ∈ regs <;> simp [h]

/-- registering keeps the table duplicate-free -/
theorem register_nodup (regs regs' : List (Str × Str)) (t c : Str) (hn : regs.Nodup)
    (h : register regs t c = some regs') : regs'.Nodup := by
  unfold register at h
  split at h
  · cases h
  · injection h with h
    subst h
    rw [List.nodup_append]
    exact ⟨hn, by simp, by intro a ha b hb; simp at hb; subst hb; intro hab; subst hab; contradiction⟩

/-- **options_out_of_range_rejected.** A constructor call raises ValueError — and touches nothing — exactly when
the options value lies outside the accepted interval of its kind; inside it the call succeeds. -/
theorem options_out_of_range_rejected (cfg : Cfg) (st : State) (i : Inst) (lazy identical : Bool) :
    (¬ ((cfg.optRange i.kind).1 ≤ i.options ∧ i.options ≤ (cfg.optRange i.kind).2) →
      step cfg st (.construct i lazy identical) = (st, .err .valueError)) ∧
    (((cfg.optRange i.kind).1 ≤ i.options ∧ i.options ≤ (cfg.optRange i.kind).2) →
      (step cfg st (.construct i lazy identical)).2 = .unit) := by
  simp only [step, optionsOk]
  constructor
  · intro h
    have : ((cfg.optRange i.kind).1 ≤ i.options && i.options ≤ (cfg.optRange i.kind).2) = false := by
      simp only [Bool.and_eq_false_imp, decide_eq_true_eq, decide_eq_false_iff_not]
      intro h1 h2; exact h ⟨h1, h2⟩
    simp [this]
  · intro h
    simp [h.1, h.2]

/-- The accepted intervals of the working tree: only `0` for number, number-with-unit, sequence and choice;
`0 … 4` (NONE … CALENDAR) for date-time — e.g. `CALENDAR | SPLIT_DATE_AND_TIME = 6` and `EXTENDED_TYPES = 8` are
rejected by the date-time constructor. -/
theorem gen_option_ranges : RTV.Gen.optionRanges = [(0, 0), (0, 0), (0, 4), (0, 0), (0, 0)] := by decide

example : step (genCfg asciiPy true) State.init (.construct ⟨2, none, 6⟩ true false) =
    (State.init, .err .valueError) := by decide +kernel
example : (step (genCfg asciiPy true) State.init (.construct ⟨2, none, 3⟩ false false)).2 = .unit := by
  decide +kernel

end RTV.Factory
