import RTV.Lemmas.Durations
import RTV.Props.C10
set_option linter.unusedVariables false
set_option linter.unusedSimpArgs false
set_option exponentiation.threshold 2000
/-!
# C10 / C11 for `BaseDurationParser` beyond "N unit", and `BaseSetParser`

Theorems about `RTV.Model.Durations` (the parser's paths with the regex outcomes as inputs, over a software binary64 that
is compared with CPython on every run by `harness/lib/durationcorr.py`).

* every path ends in the same tail: TIMEX = `P` ++ (`T` iff the unit code is H / M / S) ++ `str(float_or_int(amount))` ++
  first character of the unit code, value = `float_or_int(amount × unit_value_map[unit])` (`assemble_shape`,
  `*_is_assemble`);
* where the arithmetic is exact: an amount that is an integer below 2^53 — TIMEX `P[T]N<U>` (it reads back as `N` of the
  unit, Props/C10), value the exact integer `N × seconds` of ANY size (`space_integer_exact`, `combined_integer_exact`);
  "and a half" / "and a quarter" add exactly 1/2 / 1/4 below 2^51 / 2^50 and the value is exactly
  `(2N+1) × seconds / 2` resp. `(4N+1) × seconds / 4` (`space_half_exact`, `space_quarter_exact`); any `Decimal` whose value
  is a binary64 converts without rounding (`decimal_binary64_exact`);
* where it is not: `1.15 days` is worth `99359.99999999999` seconds, `9007199254740993` reads as `…992`
  (`float_value_inexact_witness`, `big_integer_rounds_witness`), tiny amounts are printed with an exponent
  (`tiny_amount_exponent_witness`);
* guards: more than 1000 years / months / weeks is refused on the combined path ONLY (`combined_guard`,
  `space_has_no_guard_witness`), the guard of the inexact path can never fire (`inexact_guard_dead`), a text with two
  numbers is refused by the number-space-unit path, and with no other pattern matching the duration comes out unparsed:
  there is no merged-duration parser in the Python tree (`space_needs_one_number`, `merged_duration_unparsed`);
* the unit letter is the FIRST CHARACTER of the code in the tree before `fix: duration unit codes`: `3 decades` is `P31`,
  `3 fortnights` `P32`, `3 weekends` `P3W` worth two days each (`unit_first_character_witness`, a labelled pre-fix
  regression; likewise `float_value_inexact_witness` for the tree before `fix: duration value`);
* the two repaired variants (`Cfg.fixUnit`, `Cfg.fixValue`; the harness probes which one the tree follows): for ALL N a unit
  code with a numeric prefix is multiplied out — N decades = `P(10N)Y`, N fortnights = `P(2N)W`, value unchanged = the
  same number of seconds (`fixed_multiplied_code`, `fixed_decades`, `fixed_fortnights`), a weekend is `P<N>WE`
  (`fixed_weekend`), fractional amounts of a prefixed code are multiplied exactly (third switch `Cfg.fixUnitExact`:
  `fixed_multiplied_is_exact_product`, `fixed_multiplied_fraction`; the float product of the first version of the helper is
  the labelled regression `multiplied_float_witness`), every code that starts with a letter is written as before (all `*_exact` theorems hold in both
  variants); the value is the exact product of the printed amount and the unit length whenever that is an integer below
  2^53 (`fixed_value_exact`), `1.15 days` = 99360 (`fixed_instances`);
* set parser: whatever sub-parser fires, both value strings are `Set: ` ++ TIMEX (`set_values`), the each-unit form yields
  the table's TIMEX or the same with every `1` turned into `2` (`each_unit_forms`), and an unparsed duration still
  "succeeds" with TIMEX `''` (`each_duration_unparsed_witness`).
-/
namespace RTV.Durations
open RTV.WF

/-! ## the shared tail -/

/-- Every successful result of every path has this shape (`x` = the float amount before `float_or_int`; `timexOf` /
`valueOf` are the two computations that have a repaired variant). -/
theorem assemble_shape (cfg : Cfg) (x : Dbl) (sp : Str) (g : Bool) (t : Str) (v : Num)
    (h : assemble cfg (some x) sp g = .ok t v) :
    ∃ c rest secs, lookup cfg.unitMap sp = some (c :: rest) ∧ lookup cfg.unitValueMap sp = some secs ∧
      timexOf cfg (floatOrInt x) c rest = some t ∧ valueOf cfg (floatOrInt x) secs = some v := by
  unfold assemble at h
  simp only at h
  cases hu : lookup cfg.unitMap sp with
  | none => simp [hu] at h
  | some unit =>
    simp only [hu] at h
    split at h
    · cases h
    · cases unit with
      | nil => simp at h
      | cons c rest =>
        simp only at h
        cases ht : timexOf cfg (floatOrInt x) c rest with
        | none => simp [ht] at h
        | some t' =>
          simp only [ht] at h
          cases hv : lookup cfg.unitValueMap sp with
          | none => simp [hv] at h
          | some secs =>
            simp only [hv] at h
            cases hm : valueOf cfg (floatOrInt x) secs with
            | none => simp [hm] at h
            | some v' =>
              simp only [hm] at h
              injection h with h1 h2
              subst h1; subst h2
              exact ⟨c, rest, secs, rfl, rfl, ht, hm⟩

/-- before the fixes (`fixUnit = fixValue = false`): TIMEX = `P` ++ (`T` iff H / M / S) ++ amount ++ FIRST CHARACTER of the
code, value = the Python product -/
theorem shape_prefix (cfg : Cfg) (n : Num) (c : Nat) (rest : Str) (secs : Nat) (hfu : cfg.fixUnit = false) (hfv : cfg.fixValue = false) :
    timexOf cfg n c rest = some ([80] ++ (if isLessThanDay (c :: rest) then [84] else []) ++ numStr n ++ [c]) ∧
    valueOf cfg n secs = mulNum n secs := by
  simp [timexOf, valueOf, hfu, hfv, timexOld]

/-- the four paths of `parse_number_with_unit` and `get_result_from_regex` all end in `assemble` -/
theorem space_is_assemble (cfg : Cfg) (value : Dec) (sp code : Str) (suf : Option Str)
    (hu : lookup cfg.unitMap sp = some code) :
    numberSpaceUnit cfg 1 value (some sp) suf = assemble cfg (addSuffix (Dbl.ofDec value) (suffixAmount cfg suf)) sp false := by
  simp [numberSpaceUnit, hu]

theorem an_is_assemble (cfg : Cfg) (half : Bool) (sp : Str) (suf : Option Str) :
    anUnit cfg (some (half, sp)) suf =
      assemble cfg (addSuffix (some (if half then ⟨false, 1, 2⟩ else ⟨false, 1, 1⟩)) (suffixAmount cfg suf)) sp false := rfl

theorem inexact_is_assemble (cfg : Cfg) (sp : Str) :
    inexactNumberUnit cfg (some sp) = assemble cfg (some ⟨false, 3, 1⟩) sp true := rfl

theorem regex_is_assemble (cfg : Cfg) (sp : Str) (half : Bool) :
    resultFromRegex cfg (some sp) half = assemble cfg (some (if half then ⟨false, 1, 2⟩ else ⟨false, 1, 1⟩)) sp false := rfl

/-! ## exactness -/

/-- `float(Decimal)` is exact whenever the decimal's value is a binary64: `coeff × 10^exp = m / 2^j` (`exp < 0` written
`coeff / 10^k`), `m` a 53-bit odd number or `j = 0`. E.g. `Decimal('2.50000000000000')` → `5/2`. -/
theorem decimal_binary64_exact (neg : Bool) (coeff k m j : Nat) (hm : 0 < m) (hm53 : m < 2 ^ 53)
    (h : coeff * 2 ^ j = m * 10 ^ k) (hj : j ≤ 1074) (hc : j = 0 ∨ m % 2 = 1) (hk : 0 < k) :
    Dbl.ofDec ⟨neg, coeff, -(k : Int)⟩ = some ⟨neg, m, 2 ^ j⟩ := by
  unfold Dbl.ofDec
  have : ¬ (-(k : Int) ≥ 0) := by omega
  simp only [this, if_false, Int.neg_neg, Int.toNat_natCast]
  exact ofQ_exact neg coeff (10 ^ k) m j (Nat.pos_pow_of_pos' k) hm hm53 h hj hc
where
  Nat.pos_pow_of_pos' (k : Nat) : 0 < 10 ^ k := Nat.pow_pos (by decide)

/-- `float(Decimal(N))` for an integer `N = coeff × 10^e < 2^53` is `N` -/
theorem decimal_integer_exact (coeff e : Nat) (hN : coeff * 10 ^ e < 2 ^ 53) :
    Dbl.ofDec ⟨false, coeff, (e : Int)⟩ = some ⟨false, coeff * 10 ^ e, 1⟩ := by
  unfold Dbl.ofDec
  have : ((e : Int) ≥ 0) := by omega
  simp only [this, if_true, Int.toNat_natCast]
  by_cases h0 : coeff * 10 ^ e = 0
  · rw [h0]; decide
  · have := ofQ_exact false (coeff * 10 ^ e) 1 (coeff * 10 ^ e) 0 (by decide) (by omega) hN (by simp) (by omega) (Or.inl rfl)
    simpa using this

theorem floatOrInt_nat (N : Nat) : floatOrInt ⟨false, N, 1⟩ = .int (N : Int) := by
  simp [floatOrInt, Nat.mod_one]

theorem intStr_nat (N : Nat) : intStr (N : Int) = natStr N := by
  unfold intStr
  have : ¬ ((N : Int) < 0) := by omega
  simp [this]

theorem isTime_agrees (code : Str) :
    (if isLessThanDay code then [84] else ([] : Str)) = (if code = [83] ∨ code = [77] ∨ code = [72] then [84] else []) := by
  unfold isLessThanDay sH sM sS
  by_cases a : code = [72] <;> by_cases b : code = [77] <;> by_cases c : code = [83] <;> simp [a, b, c]

/-- the tail on an integral amount `N` (any path that hands `float(N)` over, guard not firing): TIMEX `P[T]N<U>` exactly as
`RTV.WF.durationTimex` (Props/C10: it reads back as `N` of the unit), value the exact integer `N × seconds`. -/
theorem assemble_integer (cfg : Cfg) (N : Nat) (sp : Str) (c : Nat) (rest : Str) (secs : Nat) (g : Bool)
    (hu : lookup cfg.unitMap sp = some (c :: rest)) (hv : lookup cfg.unitValueMap sp = some secs)
    (hg : g = false ∨ N ≤ 1000 ∨ ¬ (c :: rest = sY ∨ c :: rest = sMON ∨ c :: rest = sW))
    (hb : cfg.fixUnit = false ∨ (isDigit c = false ∧ c :: rest ≠ sWE ∧ c :: rest ≠ sWD)) :
    assemble cfg (some ⟨false, N, 1⟩) sp g = .ok (durationTimex N (c :: rest)) (.int ((N : Int) * secs)) := by
  have ht : timexOf cfg (.int (N : Int)) c rest = some (durationTimex N (c :: rest)) := by
    unfold timexOf
    rcases hb with hb | ⟨hb1, hb2, hb3⟩
    · simp only [hb, Bool.false_eq_true, if_false, timexOld, numStr, intStr_nat, durationTimex, isTime_agrees,
        List.take, List.append_assoc]
    · by_cases hf : cfg.fixUnit = true
      · have hsp : splitCode (c :: rest) = none := by simp [splitCode, spanDigits, hb1]
        simp only [hf, if_true, timexFixed, hsp, hb2, hb3, or_self, if_false, numStr, intStr_nat, durationTimex,
          isTime_agrees, List.take, List.append_assoc]
      · have hf' : cfg.fixUnit = false := by simpa using hf
        simp only [hf', Bool.false_eq_true, if_false, timexOld, numStr, intStr_nat, durationTimex, isTime_agrees,
          List.take, List.append_assoc]
  have hval : valueOf cfg (.int (N : Int)) secs = some (.int ((N : Int) * secs)) := by
    unfold valueOf; split <;> rfl
  unfold assemble
  simp only [hu, hv]
  have hguard : (g && Dbl.gt1000 ⟨false, N, 1⟩ && (c :: rest == sY || c :: rest == sMON || c :: rest == sW)) = false := by
    rcases hg with hg | hg | hg
    · simp [hg]
    · have : Dbl.gt1000 ⟨false, N, 1⟩ = false := by simp [Dbl.gt1000]; omega
      simp [this]
    · have : (c :: rest == sY || c :: rest == sMON || c :: rest == sW) = false := by
        simp only [Bool.or_eq_false_iff, beq_eq_false_iff_ne, ne_eq]
        exact ⟨⟨fun h => hg (Or.inl h), fun h => hg (Or.inr (Or.inl h))⟩, fun h => hg (Or.inr (Or.inr h))⟩
      simp [this]
  rw [hguard]
  simp only [Bool.false_eq_true, if_false, floatOrInt_nat, ht, hval]

/-- **"N unit" with a space, integral N below 2^53**: exactly one number, no suffix. No magnitude guard on this path. -/
theorem space_integer_exact (cfg : Cfg) (coeff e : Nat) (sp : Str) (c : Nat) (rest : Str) (secs : Nat)
    (hN : coeff * 10 ^ e < 2 ^ 53)
    (hu : lookup cfg.unitMap sp = some (c :: rest)) (hv : lookup cfg.unitValueMap sp = some secs)
    (hb : cfg.fixUnit = false ∨ (isDigit c = false ∧ c :: rest ≠ sWE ∧ c :: rest ≠ sWD)) :
    numberSpaceUnit cfg 1 ⟨false, coeff, (e : Int)⟩ (some sp) none =
      .ok (durationTimex (coeff * 10 ^ e) (c :: rest)) (.int (((coeff * 10 ^ e : Nat) : Int) * secs)) := by
  rw [space_is_assemble cfg _ sp _ _ hu]
  simp only [decimal_integer_exact coeff e hN, suffixAmount, addSuffix]
  exact assemble_integer cfg _ sp c rest secs false hu hv (Or.inl rfl) hb

/-- `float('123')`: a run of digits is its value, exactly, below 2^53 -/
theorem floatOfStr_natStr (N : Nat) (hN : N < 2 ^ 53) : floatOfStr (natStr N) = some ⟨false, N, 1⟩ := by
  unfold floatOfStr
  have hs := span_all_digits (natStr N) (natStr_all N)
  rw [hs]
  have hne : natStr N ≠ [] := (natDigits_spec (N + 1) N (by omega)).2.1
  simp only [hne, if_false, digits_natStr, Option.bind_some]
  by_cases h0 : N = 0
  · subst h0; decide
  · have := ofQ_exact false N 1 N 0 (by decide) (by omega) hN (by simp) (by omega) (Or.inl rfl)
    simpa using this

/-- **"Nunit" without a space** (reached when the number-space-unit path fails): the same TIMEX and value, but more than
1000 years / months / weeks are refused. -/
theorem combined_integer_exact (cfg : Cfg) (N : Nat) (sp : Str) (c : Nat) (rest : Str) (secs : Nat) (hN : N < 2 ^ 53)
    (hu : lookup cfg.unitMap sp = some (c :: rest)) (hv : lookup cfg.unitValueMap sp = some secs)
    (hg : N ≤ 1000 ∨ ¬ (c :: rest = sY ∨ c :: rest = sMON ∨ c :: rest = sW))
    (hb : cfg.fixUnit = false ∨ (isDigit c = false ∧ c :: rest ≠ sWE ∧ c :: rest ≠ sWD)) :
    numberCombinedUnit cfg (some (natStr N, sp)) none = .ok (durationTimex N (c :: rest)) (.int ((N : Int) * secs)) := by
  unfold numberCombinedUnit
  simp only [floatOfStr_natStr N hN, suffixAmount, addSuffix]
  exact assemble_integer cfg N sp c rest secs true hu hv (Or.inr hg) hb

/-- **the guard**: more than 1000 of a unit coded Y / MON / W → no result, on the combined path. -/
theorem combined_guard (cfg : Cfg) (N : Nat) (sp code : Str) (hN : N < 2 ^ 53) (h1000 : 1000 < N)
    (hu : lookup cfg.unitMap sp = some code) (hc : code = sY ∨ code = sMON ∨ code = sW) :
    numberCombinedUnit cfg (some (natStr N, sp)) none = .fail := by
  unfold numberCombinedUnit
  simp only [floatOfStr_natStr N hN, suffixAmount, addSuffix]
  unfold assemble
  simp only [hu]
  have : Dbl.gt1000 ⟨false, N, 1⟩ = true := by simp [Dbl.gt1000]; omega
  have h2 : (code == sY || code == sMON || code == sW) = true := by
    rcases hc with hc | hc | hc <;> subst hc <;> decide
  simp [this, h2]

/-- the guard of the inexact path ("few" = 3) can never fire -/
theorem inexact_guard_dead (cfg : Cfg) (sp : Str) :
    inexactNumberUnit cfg (some sp) = assemble cfg (some ⟨false, 3, 1⟩) sp false := by
  rw [inexact_is_assemble]
  unfold assemble
  have : Dbl.gt1000 ⟨false, 3, 1⟩ = false := by decide
  simp [this]

/-- "a few weeks" = 3 weeks, for every spelling -/
theorem inexact_is_three (cfg : Cfg) (sp : Str) (c : Nat) (rest : Str) (secs : Nat)
    (hu : lookup cfg.unitMap sp = some (c :: rest)) (hv : lookup cfg.unitValueMap sp = some secs)
    (hb : cfg.fixUnit = false ∨ (isDigit c = false ∧ c :: rest ≠ sWE ∧ c :: rest ≠ sWD)) :
    inexactNumberUnit cfg (some sp) = .ok (durationTimex 3 (c :: rest)) (.int (3 * secs)) := by
  rw [inexact_guard_dead]
  exact assemble_integer cfg 3 sp c rest secs false hu hv (Or.inl rfl) hb

/-- "an hour", "all day", a bare unit: amount 1 -/
theorem an_unit_is_one (cfg : Cfg) (sp : Str) (c : Nat) (rest : Str) (secs : Nat)
    (hu : lookup cfg.unitMap sp = some (c :: rest)) (hv : lookup cfg.unitValueMap sp = some secs)
    (hb : cfg.fixUnit = false ∨ (isDigit c = false ∧ c :: rest ≠ sWE ∧ c :: rest ≠ sWD)) :
    anUnit cfg (some (false, sp)) none = .ok (durationTimex 1 (c :: rest)) (.int (1 * secs)) ∧
    resultFromRegex cfg (some sp) false = .ok (durationTimex 1 (c :: rest)) (.int (1 * secs)) := by
  constructor
  · rw [an_is_assemble]; simp only [suffixAmount, addSuffix, Bool.false_eq_true, if_false]
    exact assemble_integer cfg 1 sp c rest secs false hu hv (Or.inl rfl) hb
  · rw [regex_is_assemble]; simp only [Bool.false_eq_true, if_false]
    exact assemble_integer cfg 1 sp c rest secs false hu hv (Or.inl rfl) hb

/-! ### halves and quarters -/

/-- `N + 0.5` is exact below 2^51: the sum is the binary64 `(2N+1)/2` -/
theorem add_half_exact (N : Nat) (hN : N < 2 ^ 51) : Dbl.add ⟨false, N, 1⟩ ⟨false, 1, 2⟩ = some ⟨false, 2 * N + 1, 2 ^ 1⟩ := by
  unfold Dbl.add
  simp only [if_true, Nat.mul_one, Nat.one_mul]
  have := ofQ_exact false (N * 2 + 1) 2 (2 * N + 1) 1 (by decide) (by omega) (by omega) (by omega) (by omega) (Or.inr (by omega))
  simpa using this

/-- `N + 0.25` is exact below 2^50: the sum is the binary64 `(4N+1)/4` -/
theorem add_quarter_exact (N : Nat) (hN : N < 2 ^ 50) : Dbl.add ⟨false, N, 1⟩ ⟨false, 1, 4⟩ = some ⟨false, 4 * N + 1, 2 ^ 2⟩ := by
  unfold Dbl.add
  simp only [if_true, Nat.mul_one, Nat.one_mul]
  have := ofQ_exact false (N * 4 + 1) 4 (4 * N + 1) 2 (by decide) (by omega) (by omega) (by omega) (by omega) (Or.inr (by omega))
  simpa using this

/-- `((2N+1)/2) × secs` for an even number of seconds (every unit but the second): the exact integer `(2N+1) × secs/2`,
as long as it is below 2^53 -/
theorem mul_half_exact (N secs : Nat) (hs : secs % 2 = 0) (hs0 : 0 < secs) (hsecs : secs < 2 ^ 53)
    (hp : (2 * N + 1) * secs < 2 ^ 54) :
    mulNum (.flt ⟨false, 2 * N + 1, 2 ^ 1⟩) secs = some (.int (((2 * N + 1) * (secs / 2) : Nat) : Int)) := by
  have e1 : Dbl.ofNat secs = some ⟨false, secs, 1⟩ := by
    have := ofQ_exact false secs 1 secs 0 (by decide) hs0 hsecs (by simp) (by omega) (Or.inl rfl)
    simpa [Dbl.ofNat] using this
  obtain ⟨h, hh⟩ : ∃ h, secs = 2 * h := ⟨secs / 2, by omega⟩
  have hdiv : secs / 2 = h := by omega
  have hpos : 0 < (2 * N + 1) * h := Nat.mul_pos (by omega) (by omega)
  have hlt : (2 * N + 1) * h < 2 ^ 53 := by
    have : (2 * N + 1) * secs = 2 * ((2 * N + 1) * h) := by rw [hh, Nat.mul_left_comm]
    omega
  have e2 : Dbl.ofQ false ((2 * N + 1) * secs) (2 ^ 1 * 1) = some ⟨false, (2 * N + 1) * h, 2 ^ 0⟩ := by
    apply ofQ_exact false _ _ _ 0 (by decide) hpos hlt _ (by omega) (Or.inl rfl)
    rw [hh, Nat.pow_zero, Nat.mul_one, Nat.mul_left_comm, Nat.mul_comm]
  unfold mulNum Dbl.mulNat
  simp only [e1, Option.bind_some, e2, Option.map_some, hdiv]
  have := floatOrInt_nat ((2 * N + 1) * h)
  simpa using this

/-- **"N unit and a half"** (N < 2^51, the suffix word mapped to 0.5 by `double_numbers`): the amount is exactly `N + 1/2` —
the TIMEX carries `repr` of the binary64 `(2N+1)/2`, the value is the exact integer `(2N+1) × seconds/2`. -/
theorem space_half_exact (cfg : Cfg) (N : Nat) (sp w : Str) (c : Nat) (rest : Str) (secs : Nat) (hN : N < 2 ^ 51)
    (hu : lookup cfg.unitMap sp = some (c :: rest)) (hv : lookup cfg.unitValueMap sp = some secs)
    (hw : lookup cfg.doubleNumbers w = some ⟨false, 1, 2⟩)
    (hs : secs % 2 = 0) (hs0 : 0 < secs) (hsecs : secs < 2 ^ 53) (hp : (2 * N + 1) * secs < 2 ^ 54)
    (hfu : cfg.fixUnit = false) (hfv : cfg.fixValue = false) :
    numberSpaceUnit cfg 1 ⟨false, N, 0⟩ (some sp) (some w) =
      .ok ([80] ++ (if isLessThanDay (c :: rest) then [84] else []) ++ reprDbl ⟨false, 2 * N + 1, 2 ^ 1⟩ ++ [c])
        (.int (((2 * N + 1) * (secs / 2) : Nat) : Int)) := by
  rw [space_is_assemble cfg _ sp _ _ hu]
  have hd := decimal_integer_exact N 0 (by simpa using (by omega : N < 2 ^ 53))
  simp only [Nat.pow_zero, Nat.mul_one, Int.natCast_zero] at hd
  have hd' : Dbl.ofDec ⟨false, N, 0⟩ = some ⟨false, N, 1⟩ := hd
  simp only [hd', suffixAmount, hw, addSuffix, add_half_exact N hN]
  unfold assemble
  simp only [hu, hv, Bool.false_and, Bool.false_eq_true, if_false]
  have hf : floatOrInt ⟨false, 2 * N + 1, 2 ^ 1⟩ = .flt ⟨false, 2 * N + 1, 2 ^ 1⟩ := by
    have := floatOrInt_fraction false (2 * N + 1) 1 0 (by omega) (by omega)
    simpa using this
  rw [hf]
  simp only [timexOf, valueOf, hfu, hfv, Bool.false_eq_true, if_false, timexOld, mul_half_exact N secs hs hs0 hsecs hp]
  simp [numStr]

/-- **"N unit and a quarter"** (N < 2^50): the amount handed to the tail is exactly the binary64 `(4N+1)/4`. -/
theorem space_quarter_exact (cfg : Cfg) (N : Nat) (sp w : Str) (code : Str) (hN : N < 2 ^ 50)
    (hu : lookup cfg.unitMap sp = some code) (hw : lookup cfg.doubleNumbers w = some ⟨false, 1, 4⟩) :
    numberSpaceUnit cfg 1 ⟨false, N, 0⟩ (some sp) (some w) = assemble cfg (some ⟨false, 4 * N + 1, 2 ^ 2⟩) sp false := by
  rw [space_is_assemble cfg _ sp _ _ hu]
  have hd := decimal_integer_exact N 0 (by simpa using (by omega : N < 2 ^ 53))
  simp only [Nat.pow_zero, Nat.mul_one, Int.natCast_zero] at hd
  have hd' : Dbl.ofDec ⟨false, N, 0⟩ = some ⟨false, N, 1⟩ := hd
  simp only [hd', suffixAmount, hw, addSuffix, add_quarter_exact N hN]

/-! ## concrete instances on the regenerated English table (kernel-evaluated) -/

def enDn : List (Str × Dbl) :=
  [("half".toList.map Char.toNat, ⟨false, 1, 2⟩), ("quarter".toList.map Char.toNat, ⟨false, 1, 4⟩)]
def enExtra : List (Str × Str × Option Nat) :=
  [("decades".toList.map Char.toNat, "10Y".toList.map Char.toNat, some 315360000),
   ("fortnights".toList.map Char.toNat, "2W".toList.map Char.toNat, some 1209600),
   ("weekends".toList.map Char.toNat, "WE".toList.map Char.toNat, some 172800),
   ("weekdays".toList.map Char.toNat, "WD".toList.map Char.toNat, none)]
def en : Cfg := cfgOf ("en-us".toList.map Char.toNat) enExtra enDn
def str (s : String) : Str := s.toList.map Char.toNat
def showRes : Res → Option (Str × Str)
  | .ok t v => some (t, numStr v)
  | _ => none

/-- "2 hours and a half", "3 days and a quarter", "2.5 hours" (`Decimal('2.50000000000000')`), "half an hour" -/
theorem half_quarter_instances :
    showRes (numberSpaceUnit en 1 ⟨false, 2, 0⟩ (some (str "hours")) (some (str "half"))) = some (str "PT2.5H", str "9000") ∧
    showRes (numberSpaceUnit en 1 ⟨false, 3, 0⟩ (some (str "days")) (some (str "quarter"))) = some (str "P3.25D", str "280800") ∧
    showRes (numberSpaceUnit en 1 ⟨false, 250000000000000, -14⟩ (some (str "hours")) none) = some (str "PT2.5H", str "9000") ∧
    showRes (anUnit en (some (true, str "hour")) none) = some (str "PT0.5H", str "1800") ∧
    showRes (anUnit en (some (false, str "day")) (some (str "half"))) = some (str "P1.5D", str "129600") ∧
    showRes (resultFromRegex en (some (str "day")) true) = some (str "P0.5D", str "43200") := by
  decide +kernel

/-- the fractional TIMEX reads back (`RTV.WF.parseDuration`) as the same amount: 2.5 h = 25/10, 3.25 d = 325/100 -/
theorem fraction_reads_back :
    parseDuration (str "PT2.5H") = some ((25, 10), .H) ∧ parseDuration (str "P3.25D") = some ((325, 100), .D) ∧
    parseDuration (str "P0.5D") = some ((5, 10), .D) := by decide

/-- **pre-fix regression witness** (tree before `fix: duration value`; `en` has `fixValue = false`) — float arithmetic shows: `1.15 days` is worth `99359.99999999999` seconds (1.15 × 86400 = 99360), and
`4.35 hours` `15659.999999999998`. -/
theorem float_value_inexact_witness :
    showRes (numberSpaceUnit en 1 ⟨false, 115000000000000, -14⟩ (some (str "days")) none) = some (str "P1.15D", str "99359.99999999999") ∧
    showRes (numberSpaceUnit en 1 ⟨false, 435000000000000, -14⟩ (some (str "hours")) none) = some (str "PT4.35H", str "15659.999999999998") := by
  decide +kernel

/-- an integer that needs more than 53 bits is rounded by `float()`: 2^53 + 1 days reads `P9007199254740992D` -/
theorem big_integer_rounds_witness :
    showRes (numberSpaceUnit en 1 ⟨false, 9007199254740993, 0⟩ (some (str "days")) none) =
      some (str "P9007199254740992D", str "778222015609621708800") := by
  decide +kernel

/-- a tiny amount is printed with an exponent: `0.00001 days` → `P1e-05D` (not a TIMEX amount) -/
theorem tiny_amount_exponent_witness :
    showRes (numberSpaceUnit en 1 ⟨false, 1, -5⟩ (some (str "days")) none) = some (str "P1e-05D", str "0.8640000000000001") := by
  decide +kernel

/-- no guard on the number-space-unit path: `1001 weeks` → `P1001W`; the same amount without a space is refused by the
combined path — which the pipeline never reaches, because the first path has already succeeded. -/
theorem space_has_no_guard_witness :
    showRes (numberSpaceUnit en 1 ⟨false, 1001, 0⟩ (some (str "weeks")) none) = some (str "P1001W", str "605404800") ∧
    numberCombinedUnit en (some (str "1001", str "weeks")) none = .fail ∧
    showRes (numberCombinedUnit en (some (str "1000", str "weeks")) none) = some (str "P1000W", str "604800000") ∧
    showRes (numberCombinedUnit en (some (str "1001", str "days")) none) = some (str "P1001D", str "86486400") ∧
    numberCombinedUnit en (some (str "1000.5", str "years")) none = .fail := by
  decide +kernel

/-- **pre-fix regression witness** (tree before `fix: duration unit codes`; `en` has `fixUnit = false`) — the unit letter
is the first character of the unit code: decade (`10Y`) → `P31`, fortnight (`2W`) → `P32`; a
weekend (`WE`, two days long) → `P3W`; a weekday (`WD`) has no length: `KeyError`. -/
theorem unit_first_character_witness :
    showRes (numberSpaceUnit en 1 ⟨false, 3, 0⟩ (some (str "decades")) none) = some (str "P31", str "946080000") ∧
    showRes (numberSpaceUnit en 1 ⟨false, 3, 0⟩ (some (str "fortnights")) none) = some (str "P32", str "3628800") ∧
    showRes (numberSpaceUnit en 1 ⟨false, 3, 0⟩ (some (str "weekends")) none) = some (str "P3W", str "518400") ∧
    parseDuration (str "P31") = none ∧
    (match numberSpaceUnit en 1 ⟨false, 5, 0⟩ (some (str "weekdays")) none with | .raises => true | _ => false) = true := by
  decide +kernel

/-! ## the repaired variants (`fix: duration unit codes`, `fix: duration value`) -/

theorem natCast_mul_int (a b : Nat) : ((a : Int) * (b : Int)) = ((a * b : Nat) : Int) := by simp

/-- **repaired TIMEX, ALL N**: a unit code `<k><U>` (`10Y`, `2W`, …) is multiplied out — the TIMEX is `P[T](N·k)<U>`, exactly
`durationTimex (N * k) U` (Props/C10: it reads back as `N·k` of the unit `U`), the value stays `N × seconds`. -/
theorem fixed_multiplied_code (cfg : Cfg) (N : Nat) (sp code : Str) (k cu : Nat) (ru : Str) (secs : Nat) (g : Bool)
    (hf : cfg.fixUnit = true) (hu : lookup cfg.unitMap sp = some code) (hv : lookup cfg.unitValueMap sp = some secs)
    (hs : splitCode code = some (k, cu :: ru)) (hb : cu :: ru ≠ sWE ∧ cu :: ru ≠ sWD)
    (hg : g = false ∨ N ≤ 1000 ∨ ¬ (code = sY ∨ code = sMON ∨ code = sW)) :
    assemble cfg (some ⟨false, N, 1⟩) sp g = .ok (durationTimex (N * k) (cu :: ru)) (.int ((N : Int) * secs)) := by
  have hne : code ≠ [] := by intro h; rw [h] at hs; simp [splitCode, spanDigits] at hs
  obtain ⟨c, rest, hc⟩ := List.exists_cons_of_ne_nil hne
  subst hc
  have ht : timexOf cfg (.int (N : Int)) c rest = some (durationTimex (N * k) (cu :: ru)) := by
    have hm : (if cfg.fixUnitExact = true then mulNumFixed (.int (N : Int)) k else mulNum (.int (N : Int)) k) =
        some (.int ((N : Int) * (k : Int))) := by split <;> rfl
    unfold timexOf timexFixed
    simp only [hf, if_true, hs, hm, Option.map_some, natCast_mul_int, numStr, intStr_nat, hb.1, hb.2, or_self, if_false,
      durationTimex, isTime_agrees, List.take, List.append_assoc]
  have hval : valueOf cfg (.int (N : Int)) secs = some (.int ((N : Int) * secs)) := by
    unfold valueOf; split <;> rfl
  unfold assemble
  simp only [hu, hv]
  have hguard : (g && Dbl.gt1000 ⟨false, N, 1⟩ && (c :: rest == sY || c :: rest == sMON || c :: rest == sW)) = false := by
    rcases hg with hg | hg | hg
    · simp [hg]
    · have : Dbl.gt1000 ⟨false, N, 1⟩ = false := by simp [Dbl.gt1000]; omega
      simp [this]
    · have : (c :: rest == sY || c :: rest == sMON || c :: rest == sW) = false := by
        simp only [Bool.or_eq_false_iff, beq_eq_false_iff_ne, ne_eq]
        exact ⟨⟨fun h => hg (Or.inl h), fun h => hg (Or.inr (Or.inl h))⟩, fun h => hg (Or.inr (Or.inr h))⟩
      simp [this]
  rw [hguard]
  simp only [Bool.false_eq_true, if_false, floatOrInt_nat, ht, hval]

def s10Y : Str := [49, 48, 89]
def s2W : Str := [50, 87]

/-- **N decades, ALL N < 2^53** (repaired variant, "N decades" with a space): TIMEX `P(10N)Y` — it reads back as `10N`
years — and with the table's length of a decade (ten years of 31536000 s) the value is `10N` years. -/
theorem fixed_decades (cfg : Cfg) (N : Nat) (sp : Str) (hN : N < 2 ^ 53) (hf : cfg.fixUnit = true)
    (hu : lookup cfg.unitMap sp = some s10Y) (hv : lookup cfg.unitValueMap sp = some 315360000) :
    numberSpaceUnit cfg 1 ⟨false, N, 0⟩ (some sp) none = .ok (durationTimex (N * 10) [89]) (.int (((N * 10 : Nat) : Int) * 31536000)) ∧
    parseDuration (durationTimex (N * 10) [89]) = some ((N * 10, 1), .Y) := by
  refine ⟨?_, (duration_timex_reads_back (N * 10)).2.2.2.2.2.2⟩
  rw [space_is_assemble cfg _ sp _ _ hu]
  have hd := decimal_integer_exact N 0 (by simpa using hN)
  simp only [Nat.pow_zero, Nat.mul_one, Int.natCast_zero] at hd
  have hd' : Dbl.ofDec ⟨false, N, 0⟩ = some ⟨false, N, 1⟩ := hd
  simp only [hd', suffixAmount, addSuffix]
  rw [fixed_multiplied_code cfg N sp s10Y 10 89 [] 315360000 false hf hu hv (by decide) (by decide) (Or.inl rfl)]
  have e : ((N : Int) * ((315360000 : Nat) : Int)) = (((N * 10 : Nat) : Int) * 31536000) := by
    simp only [Int.natCast_mul]; omega
  rw [e]

/-- **N fortnights, ALL N < 2^53** (repaired variant): TIMEX `P(2N)W`, value `2N` weeks. -/
theorem fixed_fortnights (cfg : Cfg) (N : Nat) (sp : Str) (hN : N < 2 ^ 53) (hf : cfg.fixUnit = true)
    (hu : lookup cfg.unitMap sp = some s2W) (hv : lookup cfg.unitValueMap sp = some 1209600) :
    numberSpaceUnit cfg 1 ⟨false, N, 0⟩ (some sp) none = .ok (durationTimex (N * 2) [87]) (.int (((N * 2 : Nat) : Int) * 604800)) ∧
    parseDuration (durationTimex (N * 2) [87]) = some ((N * 2, 1), .W) := by
  refine ⟨?_, (duration_timex_reads_back (N * 2)).2.2.2.2.1⟩
  rw [space_is_assemble cfg _ sp _ _ hu]
  have hd := decimal_integer_exact N 0 (by simpa using hN)
  simp only [Nat.pow_zero, Nat.mul_one, Int.natCast_zero] at hd
  have hd' : Dbl.ofDec ⟨false, N, 0⟩ = some ⟨false, N, 1⟩ := hd
  simp only [hd', suffixAmount, addSuffix]
  rw [fixed_multiplied_code cfg N sp s2W 2 87 [] 1209600 false hf hu hv (by decide) (by decide) (Or.inl rfl)]
  have e : ((N : Int) * ((1209600 : Nat) : Int)) = (((N * 2 : Nat) : Int) * 604800) := by
    simp only [Int.natCast_mul]; omega
  rw [e]

/-- **N weekends, ALL N** (repaired variant): the two-letter code is kept, TIMEX `P<N>WE`, value `N × seconds(weekend)`. -/
theorem fixed_weekend (cfg : Cfg) (N : Nat) (sp : Str) (secs : Nat) (hf : cfg.fixUnit = true)
    (hu : lookup cfg.unitMap sp = some sWE) (hv : lookup cfg.unitValueMap sp = some secs) :
    assemble cfg (some ⟨false, N, 1⟩) sp false = .ok ([80] ++ natStr N ++ sWE) (.int ((N : Int) * secs)) := by
  have ht : timexOf cfg (.int (N : Int)) 87 [69] = some ([80] ++ natStr N ++ sWE) := by
    unfold timexOf timexFixed
    have hsp : splitCode [87, 69] = none := by decide
    have hl : isLessThanDay [87, 69] = false := by decide
    simp [hf, hsp, hl, sWE, numStr, intStr_nat]
  have hval : valueOf cfg (.int (N : Int)) secs = some (.int ((N : Int) * secs)) := by
    unfold valueOf; split <;> rfl
  unfold assemble
  simp only [hu, hv, sWE, Bool.false_and, Bool.false_eq_true, if_false, floatOrInt_nat]
  simp only [sWE] at ht
  simp only [ht, hval]

theorem reprQ_den_pos (x : Dbl) : 0 < (reprQ x).2 := by
  unfold reprQ
  simp only
  split
  · exact Nat.one_pos
  · exact Nat.pow_pos (by decide)

/-- the exact product of a float amount: when the decimal `repr(x)` denotes times `k` is an integer `M` below 2^53, the
result is the `int` `M` — the decimal is multiplied as a rational and rounded once -/
theorem mulNumFixed_integer (x : Dbl) (k M : Nat) (hneg : x.neg = false) (hM : 0 < M) (hM53 : M < 2 ^ 53)
    (h : (reprQ x).1 * k = M * (reprQ x).2) : mulNumFixed (.flt x) k = some (.int (M : Int)) := by
  unfold mulNumFixed
  simp only [hneg]
  have := ofQ_exact false ((reprQ x).1 * k) (reprQ x).2 M 0 (reprQ_den_pos x) hM hM53 (by simpa using h) (by omega) (Or.inl rfl)
  rw [this]
  simp [floatOrInt_nat]

/-- **repaired value**: an `int` amount is multiplied exactly (any size); for a float amount `x`, when the decimal `repr(x)`
denotes times the unit length is an integer `M` below 2^53, the value is that integer — no float product is involved. -/
theorem fixed_value_exact (cfg : Cfg) (hf : cfg.fixValue = true) :
    (∀ (v : Int) (k : Nat), valueOf cfg (.int v) k = some (.int (v * k))) ∧
    (∀ (x : Dbl) (k M : Nat), x.neg = false → 0 < M → M < 2 ^ 53 → (reprQ x).1 * k = M * (reprQ x).2 →
      valueOf cfg (.flt x) k = some (.int (M : Int))) := by
  refine ⟨fun v k => by simp [valueOf, hf, mulNumFixed], ?_⟩
  intro x k M hneg hM hM53 h
  unfold valueOf
  simp only [hf, if_true]
  exact mulNumFixed_integer x k M hneg hM hM53 h

/-- **fractional amounts of a prefixed code** (repaired variant with the exact multiple, `fix: … exact multiple`): the amount
written in the TIMEX is `float_or_int` of the EXACT product of the printed amount and the prefix, rounded once — the same
computation as the value's (`mulNumFixed`); no binary float product is involved. -/
theorem fixed_multiplied_is_exact_product (cfg : Cfg) (n : Num) (c : Nat) (rest : Str) (k : Nat) (u : Str)
    (hf : cfg.fixUnit = true) (he : cfg.fixUnitExact = true) (hs : splitCode (c :: rest) = some (k, u)) :
    timexOf cfg n c rest = (mulNumFixed n k).map fun n' =>
      [80] ++ (if isLessThanDay u then [84] else []) ++ numStr n' ++ (if u = sWE ∨ u = sWD then u else u.take 1) := by
  simp [timexOf, timexFixed, hf, he, hs]

/-- … in particular, for ALL float amounts `x` whose printed decimal times the prefix is an integer `M` below 2^53
(2.5 decades = 25 years, 0.5 fortnights = 1 week): the TIMEX is exactly `P[T]M<U>` = `durationTimex M U`, which reads
back as `M` of the unit (Props/C10). -/
theorem fixed_multiplied_fraction (cfg : Cfg) (x : Dbl) (c : Nat) (rest : Str) (k M cu : Nat) (ru : Str)
    (hf : cfg.fixUnit = true) (he : cfg.fixUnitExact = true) (hs : splitCode (c :: rest) = some (k, cu :: ru))
    (hb : cu :: ru ≠ sWE ∧ cu :: ru ≠ sWD)
    (hneg : x.neg = false) (hM : 0 < M) (hM53 : M < 2 ^ 53) (h : (reprQ x).1 * k = M * (reprQ x).2) :
    timexOf cfg (.flt x) c rest = some (durationTimex M (cu :: ru)) := by
  rw [fixed_multiplied_is_exact_product cfg _ c rest k (cu :: ru) hf he hs, mulNumFixed_integer x k M hneg hM hM53 h]
  simp only [Option.map_some, numStr, intStr_nat, hb.1, hb.2, or_self, if_false, durationTimex, isTime_agrees, List.take,
    List.append_assoc]

/-- the tree between `fix: duration unit codes` and its follow-up (`fixUnitExact = false`) multiplies in binary: the amount
in the TIMEX is `float_or_int(num * k)` -/
theorem float_multiplied_is_float_product (cfg : Cfg) (n : Num) (c : Nat) (rest : Str) (k : Nat) (u : Str)
    (hf : cfg.fixUnit = true) (he : cfg.fixUnitExact = false) (hs : splitCode (c :: rest) = some (k, u)) :
    timexOf cfg n c rest = (mulNum n k).map fun n' =>
      [80] ++ (if isLessThanDay u then [84] else []) ++ numStr n' ++ (if u = sWE ∨ u = sWD then u else u.take 1) := by
  simp [timexOf, timexFixed, hf, he, hs]

def enFixed : Cfg := cfgOf ("en-us".toList.map Char.toNat) enExtra enDn true true true
/-- the tree at 39e08b997: both fixes, the multiple of a prefixed code still a float product -/
def enFixedFloat : Cfg := cfgOf ("en-us".toList.map Char.toNat) enExtra enDn true true false

/-- **regression witness for the first version of `_duration_timex`** (`float_or_int(num * int(prefix))`, trees 08470c06d …
before the follow-up): a fractional number of decades prints float noise in the TIMEX while the value is exact —
`0.14 decades` → `P1.4000000000000001Y`, `2713.11 decades` → `P27131.100000000002Y`. -/
theorem multiplied_float_witness :
    showRes (numberSpaceUnit enFixedFloat 1 ⟨false, 14, -2⟩ (some (str "decades")) none) = some (str "P1.4000000000000001Y", str "44150400") ∧
    showRes (numberSpaceUnit enFixedFloat 1 ⟨false, 271311, -2⟩ (some (str "decades")) none) =
      some (str "P27131.100000000002Y", str "855606369600") ∧
    showRes (numberSpaceUnit enFixedFloat 1 ⟨false, 3, 0⟩ (some (str "decades")) none) = some (str "P30Y", str "946080000") := by
  decide +kernel

/-- the follow-up variant on the same inputs: `P1.4Y`, `P27131.1Y`; fortnights: `0.07 fortnights` → `P0.14W` -/
theorem fixed_fraction_instances :
    showRes (numberSpaceUnit enFixed 1 ⟨false, 14, -2⟩ (some (str "decades")) none) = some (str "P1.4Y", str "44150400") ∧
    showRes (numberSpaceUnit enFixed 1 ⟨false, 271311, -2⟩ (some (str "decades")) none) = some (str "P27131.1Y", str "855606369600") ∧
    showRes (numberSpaceUnit enFixed 1 ⟨false, 7, -2⟩ (some (str "fortnights")) none) = some (str "P0.14W", str "84672") ∧
    showRes (numberCombinedUnit enFixed (some (str "2.5", str "decades")) none) = some (str "P25Y", str "788400000") := by
  decide +kernel

/-- the repaired variants on the regenerated English table: `1.15 days` = 99360 s, `4.35 hours` = 15660 s,
`1774.8353 months`, decades / fortnights / weekends (also fractional and article forms), and the ordinary units unchanged -/
theorem fixed_instances :
    showRes (numberSpaceUnit enFixed 1 ⟨false, 115000000000000, -14⟩ (some (str "days")) none) = some (str "P1.15D", str "99360") ∧
    showRes (numberSpaceUnit enFixed 1 ⟨false, 435000000000000, -14⟩ (some (str "hours")) none) = some (str "PT4.35H", str "15660") ∧
    showRes (numberSpaceUnit enFixed 1 ⟨false, 17748353, -4⟩ (some (str "months")) none) = some (str "P1774.8353M", str "4600373097.6") ∧
    showRes (numberSpaceUnit enFixed 1 ⟨false, 3, 0⟩ (some (str "decades")) none) = some (str "P30Y", str "946080000") ∧
    showRes (numberSpaceUnit enFixed 1 ⟨false, 25, -1⟩ (some (str "decades")) none) = some (str "P25Y", str "788400000") ∧
    showRes (numberSpaceUnit enFixed 1 ⟨false, 3, 0⟩ (some (str "fortnights")) none) = some (str "P6W", str "3628800") ∧
    showRes (numberSpaceUnit enFixed 1 ⟨false, 3, 0⟩ (some (str "weekends")) none) = some (str "P3WE", str "518400") ∧
    showRes (anUnit enFixed (some (true, str "fortnights")) none) = some (str "P1W", str "604800") ∧
    showRes (numberSpaceUnit enFixed 1 ⟨false, 2, 0⟩ (some (str "hours")) (some (str "half"))) = some (str "PT2.5H", str "9000") ∧
    showRes (numberSpaceUnit enFixed 1 ⟨false, 3, 0⟩ (some (str "months")) none) = some (str "P3M", str "7776000") := by
  decide +kernel

/-! ## texts with several numbers: no merged-duration parser -/

/-- the number-space-unit path wants exactly one number -/
theorem space_needs_one_number (cfg : Cfg) (k : Nat) (hk : k ≠ 1) (v : Dec) (fu suf : Option Str) :
    numberSpaceUnit cfg k v fu suf = .fail := by
  simp [numberSpaceUnit, hk]

/-- "1 hour 30 minutes": two numbers, no `3hrs` form, no article / inexact / all / half form, and `followed_unit` is
anchored at the start of the text (a digit stands there): every path fails, `parse` returns TIMEX `''` and no value (the
entity is printed `not resolved`). The Python tree has no `parse_merged_duration`. -/
theorem merged_duration_unparsed (cfg : Cfg) (k : Nat) (hk : k ≠ 1) (v : Dec) (fu fuSuf srcSuf : Option Str) :
    parse cfg ⟨k, v, fu, fuSuf, none, none, none, srcSuf, none, none, none⟩ = some ([], none) := by
  simp [parse, parseNumberWithUnit, parseImplicit, orElse, space_needs_one_number cfg k hk, numberCombinedUnit, anUnit,
    inexactNumberUnit, resultFromRegex]

/-! ## the set parser -/

theorem parseEach_cases (a b : Option (Nat × Bool × Str)) :
    parseEach a b = none ∨ parseEach a b = some SetRes.none ∨ ∃ t, parseEach a b = some (setOf t) := by
  rcases a with _ | ⟨n1, f1, t1⟩ <;> rcases b with _ | ⟨n2, f2, t2⟩ <;> simp only [parseEach] <;> split <;>
    first
      | (right; left; rfl)
      | (split <;> first | (left; rfl) | (right; right; exact ⟨_, rfl⟩))
      | (left; rfl)

/-- whatever sub-parser fires, the value strings are `Set: ` ++ TIMEX -/
theorem set_values :
    (∀ p e r, parseEachUnit p e = some r → r.success = true → r.future = sSetPrefix ++ r.timex ∧ r.past = sSetPrefix ++ r.timex) ∧
    (∀ n a p t r, parseEachDuration n a p t = r → r.success = true → r.future = sSetPrefix ++ r.timex ∧ r.past = sSetPrefix ++ r.timex) ∧
    (∀ n m t r, parseTimeEveryday n m t = r → r.success = true → r.future = sSetPrefix ++ r.timex ∧ r.past = sSetPrefix ++ r.timex) ∧
    (∀ a b r, parseEach a b = some r → r.success = true → r.future = sSetPrefix ++ r.timex ∧ r.past = sSetPrefix ++ r.timex) := by
  refine ⟨?_, ?_, ?_, ?_⟩
  · intro p e r h hs
    unfold parseEachUnit at h
    simp only at h
    split at h
    · injection h with h; subst h; simp [SetRes.none] at hs
    · rename_i r0 hr0
      have h0 : r0.success = true → r0.future = sSetPrefix ++ r0.timex ∧ r0.past = sSetPrefix ++ r0.timex := by
        intro hs0
        split at hr0
        · injection hr0 with hr0; subst hr0; simp [SetRes.none] at hs0
        · cases hr0
        · injection hr0 with hr0; subst hr0; simp [setOf]
      split at h
      · injection h with h; subst h; exact h0 hs
      · split at h
        · split at h
          · injection h with h; subst h; exact h0 hs
          · injection h with h; subst h; simp [setOf]
        · injection h with h; subst h; exact h0 hs
  · intro n a p t r h hs
    unfold parseEachDuration at h
    split at h
    · subst h; simp [SetRes.none] at hs
    · split at h
      · subst h; simp [setOf]
      · subst h; simp [SetRes.none] at hs
  · intro n m t r h hs
    unfold parseTimeEveryday at h
    split at h
    · subst h; simp [SetRes.none] at hs
    · split at h
      · subst h; simp [setOf]
      · subst h; simp [SetRes.none] at hs
  · intro a b r h hs
    rcases parseEach_cases a b with c | c | ⟨t, c⟩
    · rw [c] at h; cases h
    · rw [c] at h; injection h with h; subst h; simp [SetRes.none] at hs
    · rw [c] at h; injection h with h; subst h; simp [setOf]

def sP1D : Str := [80, 49, 68]
def sP1W : Str := [80, 49, 87]
def sP1M : Str := [80, 49, 77]
def sP1Y : Str := [80, 49, 89]

/-- "each day" / "every other week": when the configuration's `get_matched_unit_timex` answers one of `P1D P1W P1M P1Y`,
the set's TIMEX is that duration, or — with "other" — the same with the 1 turned into 2 (`P2D P2W P2M P2Y`). -/
theorem each_unit_forms (periodic : Option (Option Str)) (u t : Str) (other : Bool)
    (hp : periodic ≠ some none) (hu : u ≠ []) (ht : t = sP1D ∨ t = sP1W ∨ t = sP1M ∨ t = sP1Y) :
    parseEachUnit periodic (some ⟨true, u, true, some t, other⟩) =
      some (setOf (if other then [80, 50] ++ t.drop 2 else t)) := by
  unfold parseEachUnit
  have e : replace12 t = [80, 50] ++ t.drop 2 := by
    rcases ht with h | h | h | h <;> subst h <;> decide
  cases periodic with
  | none => simp [hu, e]
  | some q =>
    cases q with
    | none => exact absurd rfl hp
    | some t0 => simp [hu, e]

/-- "daily" and friends: the TIMEX is whatever `get_matched_daily_timex` answers; when it does not know the word, no
result at all (even if the each-unit pattern would match) -/
theorem periodic_forms (t : Str) (e : Option EachUnit) :
    parseEachUnit (some (some t)) none = some (setOf t) ∧ parseEachUnit (some none) e = some SetRes.none := by
  simp [parseEachUnit]

/-- an unparsed duration still "succeeds": "every 1 hour 30 minutes" → success, TIMEX `''`, values `Set: ` -/
theorem each_duration_unparsed_witness :
    parseEachDuration 1 true true [] = ⟨true, [], sSetPrefix, sSetPrefix⟩ := by decide

/-- `parse_each`: the week-day branch overwrites the extract results but not `success` — when the each-branch succeeded
and the week-day pattern also occurs with nothing extracted, `er[0]` raises -/
theorem parse_each_index_error_witness : parseEach (some (1, true, sP1D)) (some (0, false, [])) = none := by decide

example : parseEachUnit none (some ⟨true, str "week", true, some sP1W, true⟩) = some (setOf (str "P2W")) := by decide
example : (setOf (str "XXXX-WXX-1")).future = str "Set: XXXX-WXX-1" := by decide

end RTV.Durations
