import RTV.Lemmas.Conc
import RTV.Model.Num
/-!
# C02 — recognition is a pure function of (query, culture, options, reference date)

The hidden state of a recognise call is explicit in `RTV.Model.Conc`: `Env = {prec, cache, history}`.
* **cache**: the model a request gets is the one its own constructor builds, whatever was requested before
  (`cache_transparent`: warm = cold) and whatever other threads do at the same time, at the granularity of
  the dict operations on the shared cache (`interleave_cache`: double construction of an equal model is
  possible, a foreign model is never returned).
* **precision**: a model's answer is a function of its constructor key, the query and the precision its
  Decimal arithmetic runs under. In the code as it is every such computation is reached through
  `@precision(prec=15)` (`parseVia .decorated`), so the ambient precision of the calling thread is irrelevant
  (`decorated_prec_indep`, `digit_value_prec_indep`) and `recognition_pure` holds at full strength: the entities are
  a function of (request, query) alone — any history, any cache state, any thread.
  Regression section: before the fix the fraction / CJK paths were not decorated (`parseVia .undecorated`); for
  that variant the result depends on the thread (`undecorated_prec_dependent`,
  `recognition_depends_on_thread_precision`: 1/3 on the importing thread, precision 15, against any other thread,
  precision 28) and only `recognition_pure_same_prec` holds.
Not modelled (validated by the thread runs of the correspondence, named in ASSUMPTIONS): preemption inside the
`regex` engine, garbage collection, mutation of a model object after construction.
Helper lemmas: `RTV/Lemmas/Conc.lean`, `RTV/Lemmas/Factory.lean`.
-/
namespace RTV.Conc
open RTV.Py RTV.Factory
set_option linter.unusedVariables false

/-! ## The cache is transparent -/

/-- **cache_transparent** (warm = cold). After any history of constructions / get_model / wrappers /
factory-level get / try_get / initialize_models from the empty cache, an operation on the recogniser's own model
types is answered exactly as on the empty cache (object identity erased): same constructor key or same error. -/
theorem cache_transparent (cfg : Cfg) (ops : List Op) (op : Op) (hown : OwnType cfg op) :
    (step cfg (run cfg State.init ops).1 op).2.erase = (step cfg State.init op).2.erase :=
  step_transparent cfg _ (run_spec cfg ops State.init (inv_init cfg)).1 op hown

/-- two outputs with the same erasure lead to the same parse, when the parse ignores what it may ignore -/
theorem parse_of_erase_eq {Q R} (parse : ModelId → Q → Nat → R) (o₁ o₂ : Out) (q : Q) (p₁ p₂ : Nat)
    (h : o₁.erase = o₂.erase) (hp : ∀ id, parse id q p₁ = parse id q p₂) :
    parseOut parse q p₁ o₁ = parseOut parse q p₂ o₂ := by
  cases o₁ <;> cases o₂ <;> simp [Out.erase] at h <;> simp [parseOut]
  rw [h]; exact hp _

/-- **recognition_pure_same_prec** (what the code as it is satisfies). The entities a call returns do not
depend on the history or the cache state — only on the request, the query and the ambient precision of the
calling thread. -/
theorem recognition_pure_same_prec {Q R} (cfg : Cfg) (parse : ModelId → Q → Nat → R) (ops₁ ops₂ : List Op)
    (p : Nat) (op : Op) (q : Q) (hown : OwnType cfg op) :
    (recognise cfg parse (envAfter cfg p ops₁) op q).2 = (recognise cfg parse (envAfter cfg p ops₂) op q).2 := by
  simp only [recognise, envAfter]
  apply parse_of_erase_eq
  · rw [cache_transparent cfg ops₁ op hown, cache_transparent cfg ops₂ op hown]
  · intro _; rfl

/-- **recognition_pure** (full strength; the code as it is: every Decimal computation of a model is reached
through `@precision(prec=15)`). The entities a recognise call returns are a function of the request and the
query alone: any two histories, any two cache states, any two threads (ambient precisions) give the same answer. -/
theorem recognition_pure {Q R} (cfg : Cfg) (f : ModelId → Q → Nat → R) (ops₁ ops₂ : List Op)
    (p₁ p₂ : Nat) (op : Op) (q : Q) (hown : OwnType cfg op) :
    (recognise cfg (parseVia .decorated f) (envAfter cfg p₁ ops₁) op q).2 =
    (recognise cfg (parseVia .decorated f) (envAfter cfg p₂ ops₂) op q).2 := by
  simp only [recognise, envAfter]
  apply parse_of_erase_eq
  · rw [cache_transparent cfg ops₁ op hown, cache_transparent cfg ops₂ op hown]
  · intro id; rfl

/-! ## Interleavings -/

/-- **interleave_cache.** Any number of threads, each with its own list of factory-level requests on own model
types, started on any reachable cache, under **any schedule** of the atomic dict operations: at every moment
every thread has answered a prefix of its requests, and each answer (object identity erased) is the one that
request gets alone on an empty cache — never a model built for another key. -/
theorem interleave_cache (cfg : Cfg) (hist : List Op) (reqs : Nat → List Req)
    (hown : ∀ j, ∀ q ∈ reqs j, Owned cfg q.kind q.type) (sched : List Nat) (j : Nat) :
    let st := (run cfg State.init hist).1
    let s := runSched cfg (Sys.start st.cache st.next reqs) sched
    ∃ n, (s.threads j).todo = (reqs j).drop n ∧
      (s.threads j).outs.map Out.erase = ((reqs j).take n).map (fun q => exceptE (coldReq cfg q)) := by
  intro st s
  have hinv := (run_spec cfg hist State.init (inv_init cfg)).1
  have := (runSched_ok cfg reqs sched (Sys.start st.cache st.next reqs) hown (cacheOk_of_inv hinv)
    (fun j => ⟨⟨0, by simp [Sys.start], by simp [Sys.start]⟩, by simp [PcOk, Sys.start]⟩)).2 j
  exact this.1

/-- a thread that has finished has given every request its cold answer -/
theorem interleave_cache_finished (cfg : Cfg) (hist : List Op) (reqs : Nat → List Req)
    (hown : ∀ j, ∀ q ∈ reqs j, Owned cfg q.kind q.type) (sched : List Nat) (j : Nat)
    (hdone : ((runSched cfg (Sys.start (run cfg State.init hist).1.cache (run cfg State.init hist).1.next reqs)
      sched).threads j).todo = []) :
    ((runSched cfg (Sys.start (run cfg State.init hist).1.cache (run cfg State.init hist).1.next reqs)
      sched).threads j).outs.map Out.erase = (reqs j).map (fun q => exceptE (coldReq cfg q)) := by
  obtain ⟨n, h1, h2⟩ := interleave_cache cfg hist reqs hown sched j
  rw [hdone] at h1
  have : (reqs j).length ≤ n := by
    have := congrArg List.length h1
    simp at this; omega
  rw [h2, List.take_of_length_le this]

def numberModel : Str := [78, 117, 109, 98, 101, 114, 77, 111, 100, 101, 108]
def frFr : Str := [102, 114, 45, 102, 114]

/-- Non-vacuity, and the benign race the theorem allows: two threads ask for the French number model on an
empty cache; under the schedule 0,1,0,1 both miss, both construct (objects 0 and 1), the second store
overwrites the first — each thread gets a French number model, not the same object. -/
theorem double_construction_possible :
    let reqs : Nat → List Req := fun _ => [⟨0, numberModel, some frFr, false, 0⟩]
    let s := runSched (genCfg asciiPy true) (Sys.start [] 0 reqs) [0, 1, 0, 1]
    (s.threads 0).outs = [.model ⟨⟨0, numberModel, frFr, 0⟩, 0⟩] ∧
    (s.threads 1).outs = [.model ⟨⟨0, numberModel, frFr, 0⟩, 1⟩] ∧
    s.cache = [(⟨numberModel, some frFr, 0⟩, ⟨⟨0, numberModel, frFr, 0⟩, 1⟩)] := by decide +kernel

/-- the sequential schedule 0,0,1: the second thread hits the cache and shares the object -/
example :
    let reqs : Nat → List Req := fun _ => [⟨0, numberModel, some frFr, false, 0⟩]
    let s := runSched (genCfg asciiPy true) (Sys.start [] 0 reqs) [0, 0, 1]
    (s.threads 0).outs = [.model ⟨⟨0, numberModel, frFr, 0⟩, 0⟩] ∧
    (s.threads 1).outs = [.model ⟨⟨0, numberModel, frFr, 0⟩, 0⟩] := by decide +kernel

/-! ## Precision -/

/-- **decorated_prec_indep.** Whatever runs under `@precision(prec=15)` does not see the ambient precision of
the calling thread. -/
theorem decorated_prec_indep {α} (f : Nat → α) (a₁ a₂ : Nat) :
    runUnder .decorated a₁ f = runUnder .decorated a₂ f := rfl

/-- **digit_value_prec_indep.** `_get_digital_value` (decorated) gives the same Decimal on every thread. -/
theorem digit_value_prec_indep (a₁ a₂ : Nat) (tab : RTV.Num.DigitTab) (c : RTV.Num.SepCfg) (s : Str) (power : Nat) :
    runUnder .decorated a₁ (fun p => RTV.Num.digitalValue p tab c s power) =
    runUnder .decorated a₂ (fun p => RTV.Num.digitalValue p tab c s power) := rfl

/-- on one thread (one ambient precision) even undecorated arithmetic is a function of its arguments -/
theorem undecorated_same_thread {α} (f : Nat → α) (a : Nat) (path : Path) :
    runUnder path a f = runUnder path a f := rfl

/-! ### Regression section: the fraction paths before the fix (not decorated) -/

/-- `numer_value / denomi_value` of `_frac_like_number_parse` for "one third" / `三分之一`: Decimal(1) / Decimal(3)
under the context precision -/
def oneThird (p : Nat) : Option RTV.Dec.Dec := RTV.Dec.div p (RTV.Dec.ofNat 1) (RTV.Dec.ofNat 3)

/-- **undecorated_prec_dependent** (negative witness of the repaired defect). The undecorated division gives
0.333333333333333 (15 digits) on the thread that imported the package and 0.3333333333333333333333333333
(28 digits) on any other thread. -/
theorem undecorated_prec_dependent :
    runUnder .undecorated (threadPrec true) oneThird = some ⟨false, 333333333333333, -15⟩ ∧
    runUnder .undecorated (threadPrec false) oneThird = some ⟨false, 3333333333333333333333333333, -28⟩ ∧
    runUnder .undecorated (threadPrec true) oneThird ≠ runUnder .undecorated (threadPrec false) oneThird := by
  decide +kernel

/-- the same division under the decorator (the code as it is): 15 digits on every thread -/
theorem decorated_one_third (a : Nat) :
    runUnder .decorated a oneThird = some ⟨false, 333333333333333, -15⟩ := by
  show oneThird 15 = _
  decide +kernel

/-- **recognition_depends_on_thread_precision** (negative theorem for the undecorated variant). With a model
that divides outside the decorator, the same request for the same query on the same (empty) cache gives different
entities on the importing thread and on another thread — `recognition_pure` fails for `parseVia .undecorated`.
Replayed on the implementation on every run (`三分之一` on a fresh thread). -/
theorem recognition_depends_on_thread_precision :
    let cfg := genCfg asciiPy true
    let parse : ModelId → Unit → Nat → Option RTV.Dec.Dec := parseVia .undecorated (fun _ _ => oneThird)
    let op : Op := .get ⟨0, none, 0⟩ numberModel (some frFr) true
    (recognise cfg parse ⟨threadPrec true, State.init, []⟩ op ()).2 ≠
    (recognise cfg parse ⟨threadPrec false, State.init, []⟩ op ()).2 := by decide +kernel

end RTV.Conc
