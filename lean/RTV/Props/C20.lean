import RTV.Drv.Choice
namespace RTV.C20
open RTV.Choice RTV.Drv
theorem placeholder : True := trivial
end RTV.C20
