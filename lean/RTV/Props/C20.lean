import RTV.Lemmas.ChoiceDecA
import RTV.Lemmas.ChoiceDecA2
import RTV.Lemmas.ChoiceDecB
import RTV.Lemmas.ChoiceDecB2
import RTV.Lemmas.ChoiceDecB3
import RTV.Lemmas.ChoiceDecB4
import RTV.Lemmas.ChoiceDecC
import RTV.Lemmas.ChoiceDecC2
import RTV.Lemmas.ChoiceDecC3
import RTV.Lemmas.ChoiceDecC4
import RTV.Lemmas.ChoiceScore
/-!
# C20 — yes/no answers keep their polarity

Theorems about the model `RTV.Choice` (mirrors `ChoiceExtractor.__tokenize / match_value / extract`, `BooleanParser`,
`ChoiceModel.parse` and `StringUtility.remove_unicode_matches`) in the environment `genEnv` built from the
regenerated data: the True/False regexes *as rewritten by the working tree's own `remove_unicode_matches`*, the
tokenizer regex, the `regex` engine's tables, the `emoji` table and `str.lower` / `str.isspace`.

The alternatives are a finite language: `alts b` enumerates ALL of it from the regenerated RE (`enumLang`; `\s+` as
its one-blank instance; the pipeline also runs the three-blank instance) — the words, the emoji (one code point each)
and the 25 emoji + skin-tone sequences (two code points: 👍 👌 × 5 modifiers, 👎 ✋ 🖐 × 5 modifiers); `alts_complete`
says that nothing of the language is left out.  The statements below quantify over all of it × {lower, UPPER, Title}
× the contexts of `contexts`; the correspondence runs the same families (and four more contexts) on
`recognize_boolean`.

What is a SAMPLE and what is universal: `no_match_nothing` (neutral clause), `reported_score_unit_interval` and
`score_unit_interval` hold for every text / every token list; `neutral_nothing_sample` is a pool of 21 strings; the pair statements are exhaustive over the
alternatives but fix the separators they name.

History: before /repo commits 863060d4d and a65f410e1 the rewrite destroyed the surrogate-pair / 4-digit escapes
(`👍`, `✋` unreachable) and the span was taken from the first textual occurrence of the matched text.  Regression
theorems about the pre-fix functions are kept at the end; the correspondence keeps the probes `👍`, `✋`,
`nobody said no` (signatures `emoji-unreachable`, `first-occurrence-span`).
-/
namespace RTV.C20
open RTV.Choice RTV.Re RTV.Py

/-- C20 (affirmative / negative): every listed alternative — word, emoji, emoji + skin-tone modifier — in lower /
UPPER / Title case, alone or inside each of the contexts, yields exactly one entity — spanning exactly that
expression, with its own polarity, and a score in `[0, 1]`. -/
theorem alts_polarity (b : Bool) : ∀ w ∈ alts b, ∀ v ∈ variants w, ∀ c ∈ contexts,
    ∃ sc, recognise genEnv (c.1 ++ v ++ c.2) = some [⟨c.1.length, (c.1.length : Int) + v.length - 1, v, b, sc⟩] ∧
      InUnit sc := by
  intro w hw v hv c hc
  have h : polarityOK genEnv b = true := by
    rw [← fastEnv_eq]; cases b
    · exact polarity_false_fast
    · exact polarity_true_fast
  unfold polarityOK polarityOn at h
  have := List.all_eq_true.1 (List.all_eq_true.1 (List.all_eq_true.1 h w hw) v hv) c hc
  obtain ⟨sc, h1, h2⟩ := isExpected_spec _ _ _ _ this
  simp only [inUnit, Bool.and_eq_true, decide_eq_true_eq] at h2
  exact ⟨sc, h1, h2.1.1, h2.1.2, h2.2⟩

/-- the enumeration is the resource's list: the words, the emoji (👍 U+1F44D, 👌 U+1F44C; 👎 U+1F44E, ✋ U+270B,
🖐 U+1F590), and each emoji followed by each skin-tone modifier U+1F3FB … U+1F3FF (10 + 15 sequences) -/
theorem alts_listed :
    alts true = [ofString "true", ofString "yes", ofString "yep", ofString "yup", ofString "yeah", ofString "y",
      ofString "sure", ofString "ok", ofString "agree",
      [128077], [128077, 127995], [128077, 127996], [128077, 127997], [128077, 127998], [128077, 127999],
      [128076], [128076, 127995], [128076, 127996], [128076, 127997], [128076, 127998], [128076, 127999]] ∧
    alts false = [ofString "false", ofString "nope", ofString "nop", ofString "no", ofString "not ok",
      ofString "disagree",
      [128078], [128078, 127995], [128078, 127996], [128078, 127997], [128078, 127998], [128078, 127999],
      [9995], [9995, 127995], [9995, 127996], [9995, 127997], [9995, 127998], [9995, 127999],
      [128400], [128400, 127995], [128400, 127996], [128400, 127997], [128400, 127998], [128400, 127999]] := by
  decide +kernel

/-- … and it is every member of the two regexes' languages (both finite): `alts` drops nothing -/
theorem alts_complete : ∀ b, ∃ l, langOf b = some l ∧ ∀ w ∈ l, plausible w = true := by
  intro b
  have h := alts_complete_fast
  simp only [Bool.and_eq_true] at h
  have hb : altsComplete b = true := by cases b; exact h.2; exact h.1
  unfold altsComplete at hb
  simp only [Bool.and_eq_true, List.all_eq_true] at hb
  cases hl : langOf b with
  | none => simp [hl] at hb
  | some l => exact ⟨l, rfl, by simpa [hl] using hb.2⟩

/-- C20 (neutral, UNIVERSAL — every environment, every text): when neither regex has a non-empty match in the
lower-cased text (`noMatch`: what "contains none of the listed expressions" is to the code, `regex.finditer` over
`trimmed_source`), nothing is reported and nothing raises.  Not proved: that `noMatch` coincides with "no alternative
stands as a token of the text" — that would need a soundness theorem for the matcher against `enumLang`; the sample
below and the pipeline's neutral family stand for it. -/
theorem no_match_nothing (E : Env) (q : Str) (h : noMatch E q = true) : recognise E q = some [] := by
  unfold recognise; rw [extract_noMatch E q h]; rfl

/-- C20 (neutral, SAMPLE of 21 texts): empty, blank, words that merely contain an alternative (`nobody`, `okay`,
`yesterday`, `notok`), another emoji, a lone skin-tone modifier, a modifier after another emoji or inside a word —
each satisfies the hypothesis of `no_match_nothing` on the regenerated regexes, and yields nothing. -/
theorem neutral_nothing_sample : ∀ q ∈ neutralPool, noMatch genEnv q = true ∧ recognise genEnv q = some [] := by
  intro q hq
  have h : neutralOK genEnv = true := by rw [← fastEnv_eq]; exact neutral_fast
  unfold neutralOK at h
  have := List.all_eq_true.1 h q hq
  simp only [Bool.and_eq_true, beq_iff_eq] at this
  exact ⟨this.2, this.1⟩

/-- C20 (both polarities, words and bare emoji): for every affirmative `t`, negative `f` and separator (blank;
comma + blank), in both orders, exactly one entity is reported, its text is a listed expression of the polarity it
reports, its span is where that text stands, and its score lies in `[0, 1]` (`oneListed`). -/
theorem both_polarities_one_entity : ∀ t ∈ altsCore true, ∀ f ∈ altsCore false, ∀ sp ∈ seps,
    oneListed (t ++ sp ++ f) (recognise genEnv (t ++ sp ++ f)) = true ∧
    oneListed (f ++ sp ++ t) (recognise genEnv (f ++ sp ++ t)) = true := by
  intro t ht f hf sp hsp
  have h : bothOK genEnv = true := by rw [← fastEnv_eq]; exact both_fast
  unfold bothOK at h
  have := List.all_eq_true.1 (List.all_eq_true.1 (List.all_eq_true.1 h t ht) f hf) sp hsp
  simpa [bothPair] using this

/-- C20 (both polarities, EVERY alternative incl. the skin-toned emoji): for every affirmative `t` and negative `f`
separated by one blank, in both orders, the same. -/
theorem both_polarities_one_entity_all : ∀ t ∈ alts true, ∀ f ∈ alts false,
    oneListed (t ++ [32] ++ f) (recognise genEnv (t ++ [32] ++ f)) = true ∧
    oneListed (f ++ [32] ++ t) (recognise genEnv (f ++ [32] ++ t)) = true := by
  intro t ht f hf
  have h1 : bothOK genEnv = true := by rw [← fastEnv_eq]; exact both_fast
  have h2 : bothSkinOn genEnv (alts true) = true := by
    rw [← fastEnv_eq]
    exact bothSkinOn_take_drop fastEnv (alts true) 10 both_skin_a_fast
      (bothSkinOn_take_drop fastEnv ((alts true).drop 10) 5 both_skin_b_fast both_skin_c_fast)
  have := both_all genEnv h1 h2 t ht f hf
  simpa [bothPair] using this

/-- C20 (score, UNIVERSAL — every query): whatever `recognize_boolean` reports carries a score in `[0, 1]`.  Now that
`ChoiceParser.parse` (/repo aeefbdd20) hands on the extractor's own `top_score` (the maximum of `match_value` over the start positions),
this is a statement about the score COMPUTATION: `score_unit_interval` lifted through `top_score`, the partial results,
the sort, the top-match selection and the parser.  It also holds for the code before that fix (the constructor default
`0.0`, `genEnvPreFix3`). -/
theorem reported_score_unit_interval (q : Str) (rs : List MR) :
    (recognise genEnv q = some rs → ∀ r ∈ rs, InUnit r.score) ∧
    (recognise genEnvPreFix3 q = some rs → ∀ r ∈ rs, InUnit r.score) :=
  ⟨recognise_unit genEnv rfl q rs, recognise_unit genEnvPreFix3 rfl q rs⟩

/-- … and for EVERY environment in which `index_of` answers `-1` on a miss (any regexes, any tables) -/
theorem reported_score_unit_interval_any (E : Env) (hm : E.missIndex = -1) (q : Str) (rs : List MR)
    (h : recognise E q = some rs) : ∀ r ∈ rs, InUnit r.score := recognise_unit E hm q rs h

/-- REGRESSION (before /repo aeefbdd20, `boolean-score-from-extractor.diff`; holds by the shape of that code): the parser built a new
`ChoiceExtractDataResult` and reported its default score `0.0`, whatever the extractor had computed -/
theorem prefix_reported_score_is_parser_default (E : Env) (hk : E.parserKeepsScore = false) (q : Str) (rs : List MR)
    (h : recognise E q = some rs) : ∀ r ∈ rs, r.score = Score.zero := by
  unfold recognise at h
  cases he : extract E q with
  | none =>
    simp only [he] at h
    split at h
    · injection h with h; subst h; intro r hr; simp at hr
    · simp at h
  | some ers =>
    simp only [he] at h
    injection h with h
    subst h
    intro r hr
    obtain ⟨e, _, rfl⟩ := List.mem_map.1 hr
    show parserScore E e = Score.zero
    unfold parserScore; rw [hk]; rfl

/-- C20 (score, extractor): `match_value` lies in `[0, 1]` for **all** token lists and every start position `≥ 0`
(`0 ≤ 0.4 + 0.6·x ≤ 1` for the rational `x` the code computes; no ZeroDivisionError) — now that
`StringUtility.index_of` reports a miss as `-1` (/repo 4afb7c9b1). -/
theorem score_unit_interval (source match_ : List Str) (st : Int) (hst : 0 ≤ st) :
    ∃ sc, matchValue (-1) source match_ st = some sc ∧ 0 < sc.den ∧ 0 ≤ sc.num ∧ sc.num ≤ sc.den :=
  matchValue_unit_interval source match_ st hst

/-- C20 (several expressions of one polarity): for every two listed expressions of the same polarity — EVERY
alternative, skin-toned emoji included, in both orders — exactly one entity is reported, a listed expression of that
polarity at its own place. -/
theorem same_polarity_one_entity : ∀ b ∈ [true, false], ∀ w1 ∈ alts b, ∀ w2 ∈ alts b,
    oneListed (w1 ++ [32] ++ w2) (recognise genEnv (w1 ++ [32] ++ w2)) = true := by
  intro b _ w1 h1 w2 h2
  have hs : samePolarityOK genEnv = true := by rw [← fastEnv_eq]; exact same_polarity_fast
  have hk : sameSkinOn genEnv b (alts b) = true := by
    rw [← fastEnv_eq]
    cases b
    · exact sameSkinOn_take_drop fastEnv false (alts false) 12 same_skin_false_a_fast same_skin_false_b_fast
    · exact same_skin_true_fast
  exact same_all genEnv b hs hk w1 h1 w2 h2

/-- C20 (repeated expression, `no no`, `yes yes yes`, `👍🏽 👍🏽`): one entity, the listed expression — every
alternative. -/
theorem repeated_expression_one_entity : ∀ b ∈ [true, false], ∀ w ∈ alts b,
    oneListed (w ++ [32] ++ w) (recognise genEnv (w ++ [32] ++ w)) = true ∧
    oneListed (w ++ [32] ++ w ++ [32] ++ w) (recognise genEnv (w ++ [32] ++ w ++ [32] ++ w)) = true := by
  intro b hb w hw
  have h : repeatsOK genEnv = true := by rw [← fastEnv_eq]; exact repeats_fast
  unfold repeatsOK at h
  simpa using List.all_eq_true.1 (List.all_eq_true.1 h b hb) w hw

/-- the rewrite of the regenerated TrueRegex text: surrogate pairs become the code point they encode -/
theorem rewrite_true_regex :
    removeUnicodeMatches RTV.Gen.boolTrueRegexRaw =
      ofString "\\b(true|yes|yep|yup|yeah|y|sure|ok|agree)\\b|(\\U0001F44D|\\U0001F44C|\\U0001f44c)(\\U0001F3FB|\\U0001F3FC|\\U0001F3FD|\\U0001F3FE|\\U0001F3FF)?" := by
  decide +kernel

/-! ### regression theorems about the code before the fixes (defect #14; `index_of` / `parse_results`) -/

/-- REGRESSION (fixed by /repo 4afb7c9b1): while `index_of` answered `1` on a miss, `match_value` could leave
`[0, 1]`: `match_value(['a'], ['x','x','x'], 0) = 5.8`. -/
theorem prefix_matchValue_can_exceed_one :
    matchValue 1 [[97]] [[120], [120], [120]] 0 = some ⟨174, 30⟩ ∧ (174 : Int) > 30 := by decide

/-- REGRESSION (fixed by /repo 4afb7c9b1 + 74161fefc): `not ok not sure` ended in a division by zero inside
`match_value`, which `ChoiceModel.parse` turned into an UnboundLocalError; now it is the entity `not ok`. -/
theorem prefix_not_ok_not_sure_raised :
    recognise genEnvPreFix2 (ofString "not ok not sure") = none ∧
    recognise genEnv (ofString "not ok not sure") = some [⟨0, 5, ofString "not ok", false, ⟨112, 160⟩⟩] := by
  rw [← fastEnv_eq, ← fastEnvPreFix2_eq]; decide +kernel


/-- REGRESSION (`emoji-unreachable`, fixed by /repo 863060d4d): the pre-fix rewrite turned `👍` into the
literal text `uDC4D` — no thumbs-up left in the pattern. -/
theorem prefix_rewrite_loses_thumbs_up :
    removeUnicodeMatchesPreFix RTV.Gen.boolTrueRegexRaw =
      ofString "\\b(true|yes|yep|yup|yeah|y|sure|ok|agree)\\b|(uDC4D|uDC4C|\\U0001f44c)(uDFFB|uDFFC|uDFFD|uDFFE|uDFFF)?" := by
  decide +kernel

/-- REGRESSION (`first-occurrence-span`, fixed by /repo a65f410e1): with `trimmed_source.index(match)` the entity of
`nobody said no` was placed on the `no` of `nobody`; with the match's own offset it is at `[12, 13]`. -/
theorem prefix_first_occurrence_span :
    recognise genEnvPreFix (ofString "nobody said no") = some [⟨0, 1, ofString "no", false, Score.zero⟩] ∧
    recognise genEnv (ofString "nobody said no") = some [⟨12, 13, ofString "no", false, ⟨18, 30⟩⟩] := by
  rw [← fastEnv_eq, ← fastEnvPreFix_eq]; decide +kernel

end RTV.C20
