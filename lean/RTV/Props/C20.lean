import RTV.Lemmas.ChoiceDecA
import RTV.Lemmas.ChoiceDecB
import RTV.Lemmas.ChoiceDecC
import RTV.Lemmas.ChoiceScore
/-!
# C20 — yes/no answers keep their polarity

Theorems about the model `RTV.Choice` (mirrors `ChoiceExtractor.__tokenize / match_value / extract`, `BooleanParser`,
`ChoiceModel.parse` and `StringUtility.remove_unicode_matches`) in the environment `genEnv` built from the
regenerated data: the True/False regexes *as rewritten by the working tree's own `remove_unicode_matches`*, the
tokenizer regex, the `regex` engine's tables, the `emoji` table and `str.lower` / `str.isspace`.

The alternatives are a finite language: `alts b` enumerates it from the regenerated RE (`enumLang`; `\s+` as its
one-blank instance; the pipeline also runs the three-blank instance).  The statements below quantify over all of it
× {lower, UPPER, Title} × the contexts of `contexts`; the correspondence runs the same families (and four more
contexts) on `recognize_boolean`.

History: before /repo commits 863060d4d and a65f410e1 the rewrite destroyed the surrogate-pair / 4-digit escapes
(`👍`, `✋` unreachable) and the span was taken from the first textual occurrence of the matched text.  Regression
theorems about the pre-fix functions are kept at the end; the correspondence keeps the probes `👍`, `✋`,
`nobody said no` (signatures `emoji-unreachable`, `first-occurrence-span`).
-/
namespace RTV.C20
open RTV.Choice RTV.Re RTV.Py

/-- C20 (affirmative / negative): every listed alternative, in lower / UPPER / Title case, alone or inside each of the
contexts, yields exactly one entity — spanning exactly that expression, with its own polarity. -/
theorem alts_polarity (b : Bool) : ∀ w ∈ alts b, ∀ v ∈ variants w, ∀ c ∈ contexts,
    recognise genEnv (c.1 ++ v ++ c.2) =
      some [⟨c.1.length, (c.1.length : Int) + v.length - 1, v, b, true⟩] := by
  intro w hw v hv c hc
  have h : polarityOK genEnv b = true := by
    rw [← fastEnv_eq]; cases b
    · exact polarity_false_fast
    · exact polarity_true_fast
  unfold polarityOK at h
  have := List.all_eq_true.1 (List.all_eq_true.1 (List.all_eq_true.1 h w hw) v hv) c hc
  simpa [expected] using this

/-- the enumeration is the resource's list, emoji included (👍 U+1F44D, 👌 U+1F44C; 👎 U+1F44E, ✋ U+270B, 🖐 U+1F590) -/
theorem alts_listed :
    alts true = [ofString "true", ofString "yes", ofString "yep", ofString "yup", ofString "yeah", ofString "y",
      ofString "sure", ofString "ok", ofString "agree", [128077], [128076]] ∧
    alts false = [ofString "false", ofString "nope", ofString "nop", ofString "no", ofString "not ok",
      ofString "disagree", [128078], [9995], [128400]] := by decide +kernel

/-- C20 (neutral): texts of the pool — empty, blank, words that merely contain an alternative (`nobody`, `okay`,
`yesterday`, `notok`), other emoji — yield nothing. -/
theorem neutral_nothing : ∀ q ∈ neutralPool, recognise genEnv q = some [] := by
  intro q hq
  have h : neutralOK genEnv = true := by rw [← fastEnv_eq]; exact neutral_fast
  simpa using List.all_eq_true.1 h q hq

/-- C20 (both polarities): for every affirmative `t`, negative `f` and separator, in both orders, exactly one entity
is reported, its text is a listed expression of the polarity it reports, and its span is where that text stands. -/
theorem both_polarities_one_entity : ∀ t ∈ alts true, ∀ f ∈ alts false, ∀ sp ∈ seps,
    oneListed (t ++ sp ++ f) (recognise genEnv (t ++ sp ++ f)) = true ∧
    oneListed (f ++ sp ++ t) (recognise genEnv (f ++ sp ++ t)) = true := by
  intro t ht f hf sp hsp
  have h : bothOK genEnv = true := by rw [← fastEnv_eq]; exact both_fast
  unfold bothOK at h
  have := List.all_eq_true.1 (List.all_eq_true.1 (List.all_eq_true.1 h t ht) f hf) sp hsp
  simpa using this

/-- C20 (score): whatever is reported carries the parser's default score `0.0` — inside `[0, 1]` — for every
environment and every query (`ChoiceParser.parse` reads the score of a freshly built `ChoiceExtractDataResult`). -/
theorem reported_score_unit_interval (E : Env) (q : Str) (rs : List MR) (h : recognise E q = some rs) :
    ∀ r ∈ rs, r.scoreZero = true := by
  unfold recognise at h
  cases he : extract E q with
  | none =>
    simp [he] at h
    obtain ⟨_, rfl⟩ := h
    intro r hr; simp at hr
  | some ers =>
    simp [he] at h
    subst h
    intro r hr
    simp at hr
    obtain ⟨e, _, rfl⟩ := hr
    rfl

/-- C20 (score, extractor): `match_value` lies in `[0, 1]` for **all** token lists and every start position `≥ 0`
(`0 ≤ 0.4 + 0.6·x ≤ 1` for the rational `x` the code computes; no ZeroDivisionError) — now that
`StringUtility.index_of` reports a miss as `-1` (/repo 4afb7c9b1). -/
theorem score_unit_interval (source match_ : List Str) (st : Int) (hst : 0 ≤ st) :
    ∃ sc, matchValue (-1) source match_ st = some sc ∧ 0 < sc.den ∧ 0 ≤ sc.num ∧ sc.num ≤ sc.den :=
  matchValue_unit_interval source match_ st hst

/-- C20 (several expressions of one polarity): for every two listed expressions of the same polarity exactly one
entity is reported, a listed expression of that polarity at its own place. -/
theorem same_polarity_one_entity : ∀ b ∈ [true, false], ∀ w1 ∈ alts b, ∀ w2 ∈ alts b,
    oneListed (w1 ++ [32] ++ w2) (recognise genEnv (w1 ++ [32] ++ w2)) = true := by
  intro b hb w1 h1 w2 h2
  have h : samePolarityOK genEnv = true := by rw [← fastEnv_eq]; exact same_polarity_fast
  unfold samePolarityOK at h
  exact List.all_eq_true.1 (List.all_eq_true.1 (List.all_eq_true.1 h b hb) w1 h1) w2 h2

/-- C20 (repeated expression, `no no`, `yes yes yes`): one entity, the listed expression. -/
theorem repeated_expression_one_entity : ∀ b ∈ [true, false], ∀ w ∈ alts b,
    oneListed (w ++ [32] ++ w) (recognise genEnv (w ++ [32] ++ w)) = true ∧
    oneListed (w ++ [32] ++ w ++ [32] ++ w) (recognise genEnv (w ++ [32] ++ w ++ [32] ++ w)) = true := by
  intro b hb w hw
  have h : repeatsOK genEnv = true := by rw [← fastEnv_eq]; exact repeats_fast
  unfold repeatsOK at h
  simpa using List.all_eq_true.1 (List.all_eq_true.1 h b hb) w hw

/-- the rewrite of the regenerated TrueRegex text: surrogate pairs become the code point they encode -/
theorem rewrite_true_regex :
    removeUnicodeMatches RTV.Gen.boolTrueRegexRaw =
      ofString "\\b(true|yes|yep|yup|yeah|y|sure|ok|agree)\\b|(\\U0001F44D|\\U0001F44C|\\U0001f44c)(\\U0001F3FB|\\U0001F3FC|\\U0001F3FD|\\U0001F3FE|\\U0001F3FF)?" := by
  decide +kernel

/-! ### regression theorems about the code before the fixes (defect #14; `index_of` / `parse_results`) -/

/-- REGRESSION (fixed by /repo 4afb7c9b1): while `index_of` answered `1` on a miss, `match_value` could leave
`[0, 1]`: `match_value(['a'], ['x','x','x'], 0) = 5.8`. -/
theorem prefix_matchValue_can_exceed_one :
    matchValue 1 [[97]] [[120], [120], [120]] 0 = some ⟨174, 30⟩ ∧ (174 : Int) > 30 := by decide

/-- REGRESSION (fixed by /repo 4afb7c9b1 + 74161fefc): `not ok not sure` ended in a division by zero inside
`match_value`, which `ChoiceModel.parse` turned into an UnboundLocalError; now it is the entity `not ok`. -/
theorem prefix_not_ok_not_sure_raised :
    recognise genEnvPreFix2 (ofString "not ok not sure") = none ∧
    recognise genEnv (ofString "not ok not sure") = some [⟨0, 5, ofString "not ok", false, true⟩] := by
  rw [← fastEnv_eq, ← fastEnvPreFix2_eq]; decide +kernel


/-- REGRESSION (`emoji-unreachable`, fixed by /repo 863060d4d): the pre-fix rewrite turned `👍` into the
literal text `uDC4D` — no thumbs-up left in the pattern. -/
theorem prefix_rewrite_loses_thumbs_up :
    removeUnicodeMatchesPreFix RTV.Gen.boolTrueRegexRaw =
      ofString "\\b(true|yes|yep|yup|yeah|y|sure|ok|agree)\\b|(uDC4D|uDC4C|\\U0001f44c)(uDFFB|uDFFC|uDFFD|uDFFE|uDFFF)?" := by
  decide +kernel

/-- REGRESSION (`first-occurrence-span`, fixed by /repo a65f410e1): with `trimmed_source.index(match)` the entity of
`nobody said no` was placed on the `no` of `nobody`; with the match's own offset it is at `[12, 13]`. -/
theorem prefix_first_occurrence_span :
    recognise genEnvPreFix (ofString "nobody said no") = some [⟨0, 1, ofString "no", false, true⟩] ∧
    recognise genEnv (ofString "nobody said no") = some [⟨12, 13, ofString "no", false, true⟩] := by
  rw [← fastEnv_eq, ← fastEnvPreFix_eq]; decide +kernel

end RTV.C20
