import RTV.Lemmas.NumFrac
import RTV.Props.C03
/-!
# C03 / C04 — the remaining paths of `BaseNumberParser`: suffix multipliers, "point", fractions, powers

Model: `RTV.NumFrac` (`_digit_number_parse` with `round_number_map` suffixes, `text_number_regex` tokenisation,
`__get_point_value` / `_text_number_parse`, `_frac_like_number_parse`, `_power_number_parse` with its binary64
mantissa and libmpdec's integer power, `parse` / `BasePercentageParser.parse`), all Decimal arithmetic through `RTV.Dec`
at precision 15 (`numfrac_constants`: both `@precision` decorators say 15).

What the property demands of these paths — the resolved value denotes the number written, to 15 significant digits —
is proved for all inputs where the code satisfies it, with the exact guards:
* **suffix** (`2k`, `1.5 million`): the handle left by the removal loop is the literal and the power is the word's
  round number (`suffix_loop`); the value is the literal's value times the power, rounded **once**, half-even, to 15
  digits — for every string (`suffix_value_rounded`), hence exact when the product has at most 15 digits
  (`suffix_exact`, `suffix_exact_literal` for every literal shape of C03 in every regenerated culture);
* **point** (`three point one four`): digit words `d1 … dn` give exactly `I + 0.d1…dn` (`point_digits_exact`); a first
  word ≥ 10 makes the words one integer `n` and the value `0.<digits of n>` (`point_tens_reading`);
* **fractions**: `a/b`, `w a/b`, `-a/b` are `(0 + a/b) + w` with `a/b` the 15-digit half-even `Decimal` quotient
  (`fraction_notation_value`); the spelled forms end in the three formulas of `frac_value_simple` / `frac_value_mixed`;
* **powers**: `M e ±E` is read as exact Python ints and evaluated as `M · 10^±E` (`power_e_reads`), exact while the
  result has at most 15 digits (`power_e_exact`, `power_ten_table`); `N ^ E` is exact while `N^E < 10^15`
  (`power_caret_exact`).
  `_power_number_parse` exists in two variants (`fx`; findings/numfrac/pow-x10.diff, the correspondence probes which one
  the tree follows): the theorems above hold for both; `power_x10_exact` — `M x10^ E` denotes `M · 10^E` — is the
  full-strength statement for the repaired variant, `x10_caret_witness` (`1.5x10^3` ↦ 1.51³) the labelled pre-fix
  regression.
Where the real code violates the property on a legitimate input there is a witness (replayed by
`harness/lib/numfraccorr.py`, recorded findings): `mixed_roundth_witness` (`two and three hundredths` ↦ 0.0066…),
`thirty_seconds_witness` (`three thirty-seconds` ↦ 0.1).
Closed instances are kernel evaluations of the model on the regenerated English configuration.
-/
namespace RTV.NumFrac
open RTV.Py RTV.Dec RTV.Num

def okDec (r : Except FErr Dec) (d : Dec) : Bool :=
  match r with
  | .ok t => decide (t = d)
  | .error _ => false

def okVal (r : Except FErr Val) (v : Val) : Bool :=
  match r with
  | .ok t => decide (t = v)
  | .error _ => false

def isErr {α} (r : Except FErr α) (e : FErr) : Bool :=
  match r with
  | .ok _ => false
  | .error x => decide (x = e)

theorem okDec_iff (r : Except FErr Dec) (d : Dec) : okDec r d = true ↔ r = .ok d := by
  cases r <;> simp [okDec]

/-! ## regenerated constants -/

/-- `parse` and `_power_number_parse` run under `@precision(prec=15)`; the English configuration: fraction marker
`over`, language marker `Eng`, `len(match)` of a `digital_number_regex` match = 9, written decimal separator `point`. -/
theorem numfrac_constants :
    RTV.Gen.NumFracCfg.parsePrec = 15 ∧ RTV.Gen.NumFracCfg.powerPrec = 15 ∧
    enFrac.fractionMarker = [111, 118, 101, 114] ∧ enFrac.langMarker = [69, 110, 103] ∧ enFrac.matchLen = 9 ∧
    enFrac.writtenDecSep = [[112, 111, 105, 110, 116]] ∧ enFrac.fracSep = [[97, 110, 100]] ∧ enFrac.norm = .en ∧
    esFrac.norm = .es ∧ frFrac.norm = .fr := by decide

/-- the English multiplier suffixes: word, power of ten -/
def enSuffixWords : List (Str × Nat) :=
  [([107], 3), ([109], 6), ([109, 109], 6), ([109, 105, 108], 6), ([103], 9), ([98], 9), ([116], 12),          -- k m mm mil g b t
   ([104, 117, 110, 100, 114, 101, 100], 2), ([116, 104, 111, 117, 115, 97, 110, 100], 3),                      -- hundred thousand
   ([109, 105, 108, 108, 105, 111, 110], 6), ([98, 105, 108, 108, 105, 111, 110], 9),                           -- million billion
   ([116, 114, 105, 108, 108, 105, 111, 110], 12), ([108, 97, 107, 104], 5), ([99, 114, 111, 114, 101], 7),     -- trillion lakh crore
   ([109, 108, 110], 6), ([98, 108, 110], 9), ([116, 108, 110], 12)]                                            -- mln bln tln

/-- every English suffix word is in the regenerated `round_number_map` with its power of ten, is not longer than
`len(match)` (so the removal loop deletes all of it) and starts with a letter -/
theorem en_suffix_words :
    ∀ wk ∈ enSuffixWords, lookup enFrac.lang.round wk.1 = some (10 ^ wk.2) ∧ wk.1.length ≤ enFrac.matchLen ∧
      (match wk.1 with | x :: _ => decide (65 ≤ x) | [] => false) = true := by decide

/-! ## suffix multipliers -/

/-- **the suffix loop.** `handle = lit ++ blanks ++ w`, `w` a key of the round-number map whose first character does not
occur before it, `len(w) ≤ len(match)`, `lit` not ending in white space, the regex having matched `w`:
`_digit_number_parse` calls `_get_digital_value(lit, round[w])`. -/
theorem suffix_loop (p : Nat) (tab : DigitTab) (sp : Nat → Bool) (sep : SepCfg) (round : List (Str × Nat))
    (matchLen : Nat) (lit : Str) (k : Nat) (w : Str) (x : Nat) (rest : Str) (rv : Nat) (hw : w = x :: rest)
    (hlen : w.length ≤ matchLen) (hr : lookup round w = some rv) (hsp : sp 32 = true)
    (hlast : ∀ c, lit.getLast? = some c → sp c = false) (hhead : ∀ c ∈ lit ++ List.replicate k 32, c ≠ x) :
    digitNumberParse p tab sp sep round matchLen [w] (lit ++ List.replicate k 32 ++ w) =
      liftE (digitalValue p tab sep lit rv) := by
  simp only [digitNumberParse, digitHandle_suffix sp matchLen round lit k w x rest rv hw hlen hr hsp hlast hhead, bind,
    Except.bind]

/-- **suffix value, every string.** If the literal alone is read as `r`, the literal with a multiplier suffix is read as
`r · 10^k` (in general `r · round[w]`) rounded once, half-even, to 15 digits, with the sign of `r`. -/
theorem suffix_value_rounded (tab : DigitTab) (sp : Nat → Bool) (sep : SepCfg) (round : List (Str × Nat))
    (matchLen : Nat) (lit : Str) (k : Nat) (w : Str) (x : Nat) (rest : Str) (rv : Nat) (hw : w = x :: rest)
    (hlen : w.length ≤ matchLen) (hr : lookup round w = some rv) (hsp : sp 32 = true)
    (hlast : ∀ c, lit.getLast? = some c → sp c = false) (hhead : ∀ c ∈ lit ++ List.replicate k 32, c ≠ x)
    (r : Dec) (h1 : digitalValue 15 tab sep lit 1 = .ok r) :
    digitNumberParse 15 tab sp sep round matchLen [w] (lit ++ List.replicate k 32 ++ w) =
      .ok { Dec.fix 15 ⟨false, r.coeff * rv, r.exp⟩ with neg := r.neg } := by
  rw [suffix_loop 15 tab sp sep round matchLen lit k w x rest rv hw hlen hr hsp hlast hhead,
    digitalValue_scale 15 (by decide) tab sep lit rv r h1]
  rfl

/-- **suffix value, exact.** If the literal alone denotes `numer / 10^scale` exactly and `numer · round[w]` still has at
most 15 digits, the suffixed literal denotes exactly `numer · round[w] / 10^scale`, with the literal's sign. -/
theorem suffix_exact (tab : DigitTab) (sp : Nat → Bool) (sep : SepCfg) (round : List (Str × Nat))
    (matchLen : Nat) (lit : Str) (k : Nat) (w : Str) (x : Nat) (rest : Str) (rv : Nat) (hw : w = x :: rest)
    (hlen : w.length ≤ matchLen) (hr : lookup round w = some rv) (hsp : sp 32 = true)
    (hlast : ∀ c, lit.getLast? = some c → sp c = false) (hhead : ∀ c ∈ lit ++ List.replicate k 32, c ≠ x)
    (r : Dec) (numer scale : Nat) (h1 : digitalValue 15 tab sep lit 1 = .ok r) (he : r.exp ≤ 0)
    (hv : r.coeff * 10 ^ scale = numer * 10 ^ (-r.exp).toNat) (hb : numer * rv < 10 ^ 15) :
    ∃ r', digitNumberParse 15 tab sp sep round matchLen [w] (lit ++ List.replicate k 32 ++ w) = .ok r' ∧
      r'.neg = r.neg ∧ r'.exp ≤ 0 ∧ r'.coeff * 10 ^ scale = numer * rv * 10 ^ (-r'.exp).toNat := by
  refine ⟨_, suffix_value_rounded tab sp sep round matchLen lit k w x rest rv hw hlen hr hsp hlast hhead r h1, rfl, ?_⟩
  have hrep : Dec.Rep ⟨false, r.coeff * rv, r.exp⟩ (numer * rv) scale := by
    refine ⟨rfl, he, ?_⟩
    simp only
    rw [Nat.mul_right_comm, hv, Nat.mul_right_comm]
  obtain ⟨_, fe, fv⟩ := Dec.fix_rep 15 (r.coeff * rv) r.exp (numer * rv) scale (by decide) hb hrep
  exact ⟨fe, fv⟩

/-- the characters of a literal's text are digits, the two marks and `-` -/
theorem literal_text_chars (l : Literal) (hw : l.WellFormed) (g d : Nat) :
    ∀ c ∈ l.text g d, (48 ≤ c ∧ c ≤ 57) ∨ c = g ∨ c = d ∨ c = 45 := by
  intro c hc
  simp only [Literal.text, List.mem_append] at hc
  rcases hc with (hc | hc) | hc
  · cases hn : l.neg <;> simp [hn] at hc
    exact Or.inr (Or.inr (Or.inr hc))
  · rcases joinGroups_chars g l.groups hw.digits c hc with ⟨x, hx, rfl⟩ | h
    · exact Or.inl ⟨by omega, by omega⟩
    · exact Or.inr (Or.inl h)
  · cases hf : l.frac.isSome <;> simp [hf] at hc
    rcases hc with h | h
    · exact Or.inr (Or.inr (Or.inl h))
    · simp only [digitChars, List.mem_map] at h
      obtain ⟨x, hx, rfl⟩ := h
      have := hw.fdigits x hx
      exact Or.inl ⟨by omega, by omega⟩

/-- the cultures whose number model is parsed by `BaseNumberParser` itself (zh-cn / ja-jp use `CJKNumberParser`) -/
def baseParserCultures : List Culture := [en, es, esMx, fr, pt, de, it, nl]

theorem baseParserCultures_sub : ∀ c ∈ baseParserCultures, c ∈ cultures := by
  intro c hc
  have : cultures = baseParserCultures ++ [zh, ja] := rfl
  rw [this]
  exact List.mem_append_left _ hc

theorem cultures_marks_printable :
    ∀ c ∈ baseParserCultures, 33 ≤ (parserMarks c.sep).1 ∧ (parserMarks c.sep).1 ≤ 57 ∧ 33 ≤ (parserMarks c.sep).2 ∧
      (parserMarks c.sep).2 ≤ 57 := by decide

/-- **C03 for suffixed literals.** Every regenerated culture of `BaseNumberParser`, every well-formed literal of C03 (plain, grouped, decimal,
grouped decimal, signed; the `Grouped3` guard of `digital_exact_literal`) written with the culture's marks and followed
by blanks and a round word `w` (first character a letter, `len(w) ≤ len(match)`, `round[w] = rv`), with
`numer · rv < 10^15`: the value is exactly `± numer · rv / 10^scale`. `sp` = `str.isspace` (any predicate that is true on
the blank and false on `!`…`9`). -/
theorem suffix_exact_literal (tab : DigitTab) (ht : tab.Ascii) (sp : Nat → Bool) (hsp : sp 32 = true)
    (hsp2 : ∀ c, 33 ≤ c → c ≤ 57 → sp c = false) (c : Culture) (hc : c ∈ baseParserCultures) (round : List (Str × Nat))
    (matchLen : Nat) (l : Literal) (hwf : l.WellFormed)
    (hstd : c.sep.multiDec = true → l.groups.length = 2 → l.frac = none → l.Grouped3)
    (k : Nat) (w : Str) (x : Nat) (rest : Str) (rv : Nat) (hw : w = x :: rest) (hx : 65 ≤ x)
    (hlen : w.length ≤ matchLen) (hr : lookup round w = some rv) (hb : l.numer * rv < 10 ^ 15) (hrv : 1 ≤ rv) :
    ∃ r, digitNumberParse 15 tab sp c.sep round matchLen [w]
        (l.text (parserMarks c.sep).1 (parserMarks c.sep).2 ++ List.replicate k 32 ++ w) = .ok r ∧
      r.neg = l.neg ∧ r.exp ≤ 0 ∧ r.coeff * 10 ^ l.scale = l.numer * rv * 10 ^ (-r.exp).toNat := by
  have hnum : l.numer < 10 ^ 15 := Nat.lt_of_le_of_lt (Nat.le_mul_of_pos_right _ hrv) hb
  obtain ⟨r0, h0, hneg, hexp, hval⟩ := digital_exact_literal tab ht c (baseParserCultures_sub c hc) l hwf hstd hnum
  obtain ⟨m1, m2, m3, m4⟩ := cultures_marks_printable c hc
  have hchars := literal_text_chars l hwf (parserMarks c.sep).1 (parserMarks c.sep).2
  have hrange : ∀ ch ∈ l.text (parserMarks c.sep).1 (parserMarks c.sep).2, 33 ≤ ch ∧ ch ≤ 57 := by
    intro ch hch
    rcases hchars ch hch with ⟨a, b⟩ | h | h | h
    · omega
    · omega
    · omega
    · omega
  obtain ⟨r, h1, h2, h3, h4⟩ := suffix_exact tab sp c.sep round matchLen
    (l.text (parserMarks c.sep).1 (parserMarks c.sep).2) k w x rest rv hw hlen hr hsp
    (fun ch hl => by
      have hm : ch ∈ l.text (parserMarks c.sep).1 (parserMarks c.sep).2 := List.mem_of_getLast? hl
      obtain ⟨a, b⟩ := hrange ch hm
      exact hsp2 ch a b)
    (fun ch hm => by
      rcases List.mem_append.mp hm with h | h
      · have := hrange ch h; omega
      · have := List.eq_of_mem_replicate h; omega)
    r0 l.numer l.scale h0 hexp hval hb
  exact ⟨r, h1, by rw [h2, hneg], h3, h4⟩

/-- the hypotheses are satisfiable: `-1,234.5 million` in English -/
example : ∃ r, digitNumberParse 15 asciiDigits (· == 32) en.sep enFrac.lang.round enFrac.matchLen [[109, 105, 108, 108, 105, 111, 110]]
    ((⟨true, [[1], [2, 3, 4]], some [5]⟩ : Literal).text 44 46 ++ List.replicate 1 32 ++ [109, 105, 108, 108, 105, 111, 110]) = .ok r ∧
    r.neg = true ∧ r.exp ≤ 0 ∧ r.coeff * 10 ^ 1 = 12345 * 1000000 * 10 ^ (-r.exp).toNat :=
  suffix_exact_literal asciiDigits asciiDigits_ascii (· == 32) (by decide) (fun c a b => by simp; omega) en
    (by unfold baseParserCultures; exact List.mem_cons_self) enFrac.lang.round enFrac.matchLen ⟨true, [[1], [2, 3, 4]], some [5]⟩
    ⟨by decide, by decide, by decide⟩ (fun _ _ hf => by cases hf) 1 [109, 105, 108, 108, 105, 111, 110] 109 [105, 108, 108, 105, 111, 110]
    1000000 rfl (by decide) (by decide) (by decide) (by decide) (by decide)

/-- closed instances on the regenerated English configuration: `1.5 million`, `2k`, `2 hundred thousand` (two matches),
and a product that needs the rounding: `9.99999999999999 dozen` ↦ 120.000000000000 -/
theorem suffix_instances :
    okDec (digitNumberParse 15 asciiDigits (· == 32) en.sep enFrac.lang.round enFrac.matchLen [[109, 105, 108, 108, 105, 111, 110]]
      [49, 46, 53, 32, 109, 105, 108, 108, 105, 111, 110]) ⟨false, 150000000000000, -8⟩ = true ∧
    okDec (digitNumberParse 15 asciiDigits (· == 32) en.sep enFrac.lang.round enFrac.matchLen [[107]] [50, 107]) ⟨false, 2000, 0⟩ = true ∧
    okDec (digitNumberParse 15 asciiDigits (· == 32) en.sep enFrac.lang.round enFrac.matchLen
      [[104, 117, 110, 100, 114, 101, 100], [116, 104, 111, 117, 115, 97, 110, 100]]
      [50, 32, 104, 117, 110, 100, 114, 101, 100, 32, 116, 104, 111, 117, 115, 97, 110, 100]) ⟨false, 200000, 0⟩ = true ∧
    okDec (digitNumberParse 15 asciiDigits (· == 32) en.sep enFrac.lang.round enFrac.matchLen [[100, 111, 122, 101, 110]]
      [57, 46, 57, 57, 57, 57, 57, 57, 57, 57, 57, 57, 57, 57, 57, 57, 32, 100, 111, 122, 101, 110]) ⟨false, 120000000000000, -12⟩ = true := by
  decide +kernel

/-! ## the "point" branch -/

/-- the English digit words -/
def enDigitWord (d : Nat) : Str :=
  [[122, 101, 114, 111], [111, 110, 101], [116, 119, 111], [116, 104, 114, 101, 101], [102, 111, 117, 114], [102, 105, 118, 101],
   [115, 105, 120], [115, 101, 118, 101, 110], [101, 105, 103, 104, 116], [110, 105, 110, 101]].getD d []

theorem en_digit_words : ∀ d, d < 10 → lookup enFrac.lang.cardinal (enDigitWord d) = some d := by decide

/-- **point, digit words.** For any configuration whose cardinal map sends the words `dw 0 … dw 9` to the digits: integer
part `I` (the value `__get_int_value` gives its tokens) and the words of the digits `d1 … dn` after the written decimal
separator: the value is exactly `I + 0.d1…dn` (stated as `I·10^n + d1…dn` over `10^n`), as long as it has at most 15
digits. -/
theorem point_digits_exact (tab : DigitTab) (lang : LangCfg) (dw : Nat → Str)
    (hdw : ∀ d, d < 10 → lookup lang.cardinal (dw d) = some d) (intToks : List Str) (I : Nat)
    (hI : getIntValue true tab lang intToks = .ok I) (d : Nat) (ds : List Nat) (hd : ∀ x ∈ d :: ds, x < 10)
    (hb : I * 10 ^ (ds.length + 1) + natOfDigits (d :: ds) < 10 ^ 15) :
    ∃ r, textNumberCombine 15 tab lang intToks (some ((d :: ds).map dw)) = .ok r ∧ r.neg = false ∧ r.exp ≤ 0 ∧
      r.coeff * 10 ^ (ds.length + 1) = (I * 10 ^ (ds.length + 1) + natOfDigits (d :: ds)) * 10 ^ (-r.exp).toNat := by
  obtain ⟨r, h1, h2, h3, h4⟩ := textNumberCombine_digits tab lang dw hdw intToks I hI d ds hd hb
  exact ⟨r, h1, h2, h3, h4⟩

/-- the hypotheses are satisfiable: "three point one four" on the English configuration -/
example : ∃ r, textNumberCombine 15 asciiDigits enFrac.lang [[116, 104, 114, 101, 101]] (some ([1, 4].map enDigitWord)) = .ok r ∧
    r.neg = false ∧ r.exp ≤ 0 ∧ r.coeff * 10 ^ 2 = (3 * 10 ^ 2 + 14) * 10 ^ (-r.exp).toNat :=
  point_digits_exact asciiDigits enFrac.lang enDigitWord en_digit_words [[116, 104, 114, 101, 101]] 3 (by decide +kernel) 1 [4]
    (by decide) (by decide)

/-- **point, multi-digit words.** When the first word after the separator is a cardinal ≥ 10, all the words are read as
one integer `n` and the value is `0.` followed by the decimal digits of `n`: "point twenty five" ↦ 0.25,
"point twenty" ↦ 0.20, "point ten" ↦ 0.10 (and "point one hundred twenty" would be digit-wise: first word < 10). -/
theorem point_tens_reading (p : Nat) (tab : DigitTab) (lang : LangCfg) (first : Str) (rest : List Str) (v n : Nat)
    (hv : lookup lang.cardinal first = some v) (h10 : 10 ≤ v) (hn : getIntValue true tab lang (first :: rest) = .ok n) :
    getPointValue p tab lang (first :: rest) = .ok ⟨false, n, -((natStr n).length : Int)⟩ :=
  getPointValue_tens p tab lang first rest v n hv h10 hn

/-- string level, English (tokeniser included): "three point one four" = 3.14, "zero point zero five" = 0.05,
"two point twenty five" = 2.25; and a round word after a digit word is added *digit-wise* with its full value:
"two point five hundred" ↦ 2 + (0.5 + 0.01·100) = 3.5 (the extractor does not produce this text; the parser accepts it) -/
theorem point_instances :
    okDec (textNumberParse 15 asciiDigits asciiTok enFrac.lang enFrac.alts enFrac.loose enFrac.writtenDecSep
      [116, 104, 114, 101, 101, 32, 112, 111, 105, 110, 116, 32, 111, 110, 101, 32, 102, 111, 117, 114])
      ⟨false, 314000000000000, -14⟩ = true ∧
    okDec (textNumberParse 15 asciiDigits asciiTok enFrac.lang enFrac.alts enFrac.loose enFrac.writtenDecSep
      [122, 101, 114, 111, 32, 112, 111, 105, 110, 116, 32, 122, 101, 114, 111, 32, 102, 105, 118, 101])
      ⟨false, 500000000000000, -16⟩ = true ∧
    okDec (textNumberParse 15 asciiDigits asciiTok enFrac.lang enFrac.alts enFrac.loose enFrac.writtenDecSep
      [116, 119, 111, 32, 112, 111, 105, 110, 116, 32, 116, 119, 101, 110, 116, 121, 32, 102, 105, 118, 101])
      ⟨false, 225, -2⟩ = true ∧
    okDec (textNumberParse 15 asciiDigits asciiTok enFrac.lang enFrac.alts enFrac.loose enFrac.writtenDecSep
      [116, 119, 111, 32, 112, 111, 105, 110, 116, 32, 102, 105, 118, 101, 32, 104, 117, 110, 100, 114, 101, 100])
      ⟨false, 350000000000000, -14⟩ = true := by
  decide +kernel

/-! ## fractions -/

/-- **fraction notation** `[-][w ]a/b` (tag `FracNum`: the digit branch, no multiplier match): the value is
`(0 + a/b) + w`, `a/b` the 15-digit half-even quotient of `Decimal` division, negated for a leading `-`; a zero
denominator raises. Every separator configuration. -/
theorem fraction_notation_value (tab : DigitTab) (ht : tab.Ascii) (sp : Nat → Bool) (c : SepCfg) (hc : c.Sane)
    (round : List (Str × Nat)) (matchLen : Nat) (neg : Bool) (ws : Option (List Nat)) (as bs : List Nat)
    (hw : ∀ w, ws = some w → (∀ d ∈ w, d < 10) ∧ natOfDigits w < 10 ^ 15)
    (ha : ∀ d ∈ as, d < 10) (hb : ∀ d ∈ bs, d < 10) (hA : natOfDigits as < 10 ^ 15) (hB : natOfDigits bs < 10 ^ 15) :
    digitNumberParse 15 tab sp c round matchLen []
        ((if neg then [45] else []) ++ wholeText ws ++ digitChars as ++ 47 :: digitChars bs) =
      match Dec.div 15 ⟨false, natOfDigits as, 0⟩ ⟨false, natOfDigits bs, 0⟩ with
      | none => .error .zeroDiv
      | some q => .ok (fracResult 15 ws q neg) := by
  simp only [digitNumberParse, digitHandle, bind, Except.bind]
  rw [digitalValue_fraction 15 tab ht c hc (by decide) neg ws as bs hw ha hb hA hB]
  cases Dec.div 15 ⟨false, natOfDigits as, 0⟩ ⟨false, natOfDigits bs, 0⟩ <;> rfl

/-- `2/3` = 0.666666666666667, `1 1/2` = 1.5, `-2/3`, `3/0` raises -/
theorem fraction_notation_instances :
    okDec (digitNumberParse 15 asciiDigits (· == 32) en.sep enFrac.lang.round 9 [] [50, 47, 51]) ⟨false, 666666666666667, -15⟩ = true ∧
    okDec (digitNumberParse 15 asciiDigits (· == 32) en.sep enFrac.lang.round 9 [] [49, 32, 49, 47, 50]) ⟨false, 15, -1⟩ = true ∧
    okDec (digitNumberParse 15 asciiDigits (· == 32) en.sep enFrac.lang.round 9 [] [45, 50, 47, 51]) ⟨true, 666666666666667, -15⟩ = true ∧
    isErr (digitNumberParse 15 asciiDigits (· == 32) en.sep enFrac.lang.round 9 [] [51, 47, 48]) .zeroDiv = true := by
  decide +kernel

/-- **spelled fraction without a written separator** ("three fifths", "twenty one thirds"): with multiplier 1 and
`I + N` of at most 15 digits the value is the 15-digit quotient `(I + N) / D`. -/
theorem frac_value_simple (I N D : Nat) (b : Bool) (h : I + N < 10 ^ 15) :
    fracValue 15 I N D 1 false b = divE 15 (Dec.ofNat (I + N)) (Dec.ofNat D) := by
  have h1 : Dec.add 15 (Dec.ofNat I) (Dec.ofNat N) = Dec.ofNat (I + N) := by
    simp only [Dec.add, Dec.ofNat, Int.min_self, Int.sub_self, Int.toNat_zero, Nat.pow_zero, Nat.mul_one, BEq.rfl, if_true,
      Bool.false_and]
    exact Dec.fix_small 15 _ _ _ (by decide) h
  simp only [fracValue, Bool.false_and, Bool.false_eq_true, if_false, h1]
  rw [mul_one_fixed 15 (by decide) (Dec.ofNat (I + N)) (by simpa [Dec.ofNat] using h)]

/-- **mixed number** ("two and three fifths"): a written separator was found and `N < D`: the value is
`I + N/D`: the 15-digit quotient, then the 15-digit sum (two roundings). -/
theorem frac_value_mixed (I N D : Nat) (hlt : N < D) (hN : N < 10 ^ 15) :
    fracValue 15 I N D 1 true false =
      (divE 15 (Dec.ofNat N) (Dec.ofNat D)).map (fun q => Dec.add 15 (Dec.ofNat I) q) := by
  have hd : decide (N < D) = true := by simpa using hlt
  simp only [fracValue, Bool.true_and, hd, if_true, Bool.false_eq_true, if_false]
  rw [mul_one_fixed 15 (by decide) (Dec.ofNat N) (by simpa [Dec.ofNat] using hN)]
  cases divE 15 (Dec.ofNat N) (Dec.ofNat D) <;> rfl

/-- string level, English: "three fifths" = 0.6, "two and three fifths" = 2.6, "one and a half" = 1.5,
"twenty one thirds" = 7, "3 over 4" = 0.75 (a `Decimal`), "half" = 0.5, "two and a half million" = 2500000 -/
theorem spelled_fraction_instances :
    okVal (fracLikeParse 15 asciiDigits asciiTok (· == 32) enFrac none
      [116, 104, 114, 101, 101, 32, 102, 105, 102, 116, 104, 115]) (.flt ⟨false, 6, -1⟩) = true ∧
    okVal (fracLikeParse 15 asciiDigits asciiTok (· == 32) enFrac none
      [116, 119, 111, 32, 97, 110, 100, 32, 116, 104, 114, 101, 101, 32, 102, 105, 102, 116, 104, 115]) (.flt ⟨false, 26, -1⟩) = true ∧
    okVal (fracLikeParse 15 asciiDigits asciiTok (· == 32) enFrac none
      [111, 110, 101, 32, 97, 110, 100, 32, 97, 32, 104, 97, 108, 102]) (.flt ⟨false, 15, -1⟩) = true ∧
    okVal (fracLikeParse 15 asciiDigits asciiTok (· == 32) enFrac none
      [116, 119, 101, 110, 116, 121, 32, 111, 110, 101, 32, 116, 104, 105, 114, 100, 115]) (.flt ⟨false, 7, 0⟩) = true ∧
    okVal (fracLikeParse 15 asciiDigits asciiTok (· == 32) enFrac none [51, 32, 111, 118, 101, 114, 32, 52]) (.dec ⟨false, 75, -2⟩) = true ∧
    okVal (fracLikeParse 15 asciiDigits asciiTok (· == 32) enFrac none [104, 97, 108, 102]) (.dec ⟨false, 5, -1⟩) = true ∧
    okVal (fracLikeParse 15 asciiDigits asciiTok (· == 32) enFrac
      (some ⟨[32, 109, 105, 108, 108, 105, 111, 110], [109, 105, 108, 108, 105, 111, 110], true⟩)
      [116, 119, 111, 32, 97, 110, 100, 32, 97, 32, 104, 97, 108, 102, 32, 109, 105, 108, 108, 105, 111, 110])
      (.flt ⟨false, 25000000, -1⟩) = true := by
  decide +kernel

/-- **Witness (recorded finding).** A mixed number whose denominator is a round ordinal: "two and three hundredths"
denotes 2.03; the split-index walk puts `and three` into the denominator (the C# original has a later repair,
`isUncomposobleWithSeparator`, that the Python port lacks) and the value is 2 / 300 = 0.00666666666666667. -/
theorem mixed_roundth_witness :
    okVal (fracLikeParse 15 asciiDigits asciiTok (· == 32) enFrac none
      [116, 119, 111, 32, 97, 110, 100, 32, 116, 104, 114, 101, 101, 32, 104, 117, 110, 100, 114, 101, 100, 116, 104, 115])
      (.flt ⟨false, 666666666666667, -17⟩) = true ∧
    Dec.floatRepr ⟨false, 666666666666667, -17⟩ =
      [48, 46, 48, 48, 54, 54, 54, 54, 54, 54, 54, 54, 54, 54, 54, 54, 54, 54, 55] := by
  decide +kernel

/-- **Witness (recorded finding).** `seconds` is not a key of the English ordinal map, so "thirty-seconds" resolves to
30 + 0: "three thirty-seconds" (3/32 = 0.09375) ↦ 3/30 = 0.1, while the singular "one thirty-second" is right. -/
theorem thirty_seconds_witness :
    lookup enFrac.lang.ordinal [115, 101, 99, 111, 110, 100, 115] = none ∧
    lookup enFrac.lang.ordinal [115, 101, 99, 111, 110, 100] = some 2 ∧
    okVal (fracLikeParse 15 asciiDigits asciiTok (· == 32) enFrac none
      [116, 104, 114, 101, 101, 32, 116, 104, 105, 114, 116, 121, 45, 115, 101, 99, 111, 110, 100, 115]) (.flt ⟨false, 1, -1⟩) = true ∧
    okVal (fracLikeParse 15 asciiDigits asciiTok (· == 32) enFrac none
      [111, 110, 101, 32, 116, 104, 105, 114, 116, 121, 45, 115, 101, 99, 111, 110, 100]) (.flt ⟨false, 3125, -5⟩) = true := by
  decide +kernel

/-! ## powers -/

theorem e_text_noX (ms : List Nat) (e0 : Nat) (es : List Nat) (neg : Bool) (hm : ∀ d ∈ ms, d < 10)
    (he : ∀ d ∈ e0 :: es, d < 10) (x : Nat) (hx : 58 ≤ x) (hx2 : x ≠ 101) :
    x ∉ digitChars ms ++ 101 :: ((if neg then [45] else []) ++ digitChars (e0 :: es)) := by
  have a := digitChars_le ms hm
  have b := digitChars_le (e0 :: es) he
  simp only [List.mem_append, List.mem_cons, not_or]
  refine ⟨fun h => ?_, hx2, ?_, fun h => ?_⟩
  · have := a x h; omega
  · cases neg <;> simp <;> omega
  · have := b x h; omega

/-- **exponent notation is read exactly** (both variants of the code). `M e E` / `M e -E` with an integer mantissa (ASCII
digits of any length, any decimal separator character other than `-`): the value is
`multiply(Decimal(M), power(Decimal(10), Decimal(±E)))` — `M` and `E` are Python ints, nothing is lost before the two
Decimal operations. -/
theorem power_e_reads (fx : Bool) (p : Nat) (tab : DigitTab) (ht : tab.Ascii) (decSep : Nat) (hsep : decSep ≠ 45)
    (ms : List Nat) (e0 : Nat) (es : List Nat) (neg : Bool) (hm : ∀ d ∈ ms, d < 10) (he : ∀ d ∈ e0 :: es, d < 10) :
    powerNumberParse fx p tab decSep (digitChars ms ++ 101 :: ((if neg then [45] else []) ++ digitChars (e0 :: es))) =
      (decPow p (Dec.ofNat 10) (PyNum.toDec (.int (if neg then -((natOfDigits (e0 :: es) : Nat) : Int)
          else ((natOfDigits (e0 :: es) : Nat) : Int))))).map
        (fun t => Dec.mul p (Dec.ofNat (natOfDigits ms)) t) := by
  cases fx
  · exact powerNumberParse_e p tab ht decSep hsep ms e0 es neg hm he
  · rw [powerNumberParse_fx_noX p tab decSep _ (e_text_noX ms e0 es neg hm he 88 (by decide) (by decide))
      (e_text_noX ms e0 es neg hm he 120 (by decide) (by decide))]
    exact powerNumberParse_e p tab ht decSep hsep ms e0 es neg hm he

/-- **integer powers are exact while they fit 15 digits** (`2^10`, `12^5`, `10^14`): libmpdec's square-and-multiply
never rounds. -/
theorem power_caret_exact (N E : Nat) (hN : 2 ≤ N) (hE : 1 ≤ E) (hb : N ^ E < 10 ^ 15) :
    decPow 15 (Dec.ofNat N) (Dec.ofNat E) = .ok ⟨false, N ^ E, 0⟩ :=
  decPow_nat_exact 15 N E (by decide) hN hE hb

/-- **`M e E` is exact while `M · 10^E` has at most 15 digits** (`1 ≤ E ≤ 14`; both variants). -/
theorem power_e_exact (fx : Bool) (tab : DigitTab) (ht : tab.Ascii) (decSep : Nat) (hsep : decSep ≠ 45)
    (ms : List Nat) (e0 : Nat) (es : List Nat) (hm : ∀ d ∈ ms, d < 10) (he : ∀ d ∈ e0 :: es, d < 10)
    (hE1 : 1 ≤ natOfDigits (e0 :: es)) (hE : natOfDigits (e0 :: es) ≤ 14)
    (hb : natOfDigits ms * 10 ^ natOfDigits (e0 :: es) < 10 ^ 15) :
    powerNumberParse fx 15 tab decSep (digitChars ms ++ 101 :: digitChars (e0 :: es)) =
      .ok ⟨false, natOfDigits ms * 10 ^ natOfDigits (e0 :: es), 0⟩ := by
  have h := power_e_reads fx 15 tab ht decSep hsep ms e0 es false hm he
  simp only [Bool.false_eq_true, if_false, List.nil_append, PyNum.toDec, ofInt_natCast] at h
  rw [h, power_caret_exact 10 (natOfDigits (e0 :: es)) (by decide) hE1
    (Nat.pow_lt_pow_right (by decide) (by omega))]
  simp only [Except.map, Dec.mul, Dec.ofNat, Int.add_zero, bne_self_eq_false]
  rw [Dec.fix_small 15 _ _ _ (by decide) hb]

/-- **`M x10^ E` denotes `M · 10^E`** — the full-strength statement, for the repaired variant (`fx = true`:
`handle.replace('X10^', 'E')`): exact while the product has at most 15 digits. The pre-fix variant violates it
(`x10_caret_witness`). -/
theorem power_x10_exact (tab : DigitTab) (ht : tab.Ascii) (decSep : Nat) (hsep : decSep ≠ 45)
    (ms : List Nat) (e0 : Nat) (es : List Nat) (hm : ∀ d ∈ ms, d < 10) (he : ∀ d ∈ e0 :: es, d < 10)
    (hE1 : 1 ≤ natOfDigits (e0 :: es)) (hE : natOfDigits (e0 :: es) ≤ 14)
    (hb : natOfDigits ms * 10 ^ natOfDigits (e0 :: es) < 10 ^ 15) :
    powerNumberParse true 15 tab decSep (digitChars ms ++ [120, 49, 48, 94] ++ digitChars (e0 :: es)) =
      .ok ⟨false, natOfDigits ms * 10 ^ natOfDigits (e0 :: es), 0⟩ := by
  have a := digitChars_le ms hm
  have b := digitChars_le (e0 :: es) he
  rw [powerNumberParse_x10 15 tab decSep (digitChars ms) (digitChars (e0 :: es))
    ⟨fun h => by have := a 88 h; omega, fun h => by have := a 120 h; omega⟩
    ⟨fun h => by have := b 88 h; omega, fun h => by have := b 120 h; omega⟩]
  exact power_e_exact true tab ht decSep hsep ms e0 es hm he hE1 hE hb

/-- the hypotheses are satisfiable: `12x10^3` = 12000 in the repaired variant -/
example : powerNumberParse true 15 asciiDigits 46 (digitChars [1, 2] ++ [120, 49, 48, 94] ++ digitChars [3]) = .ok ⟨false, 12000, 0⟩ :=
  power_x10_exact asciiDigits asciiDigits_ascii 46 (by decide) [1, 2] 3 [] (by decide) (by decide) (by decide) (by decide) (by decide)

/-- the hypotheses are satisfiable: `12e3` = 12000 -/
example : powerNumberParse false 15 asciiDigits 46 (digitChars [1, 2] ++ 101 :: digitChars [3]) = .ok ⟨false, 12000, 0⟩ :=
  power_e_exact false asciiDigits asciiDigits_ascii 46 (by decide) [1, 2] 3 [] (by decide) (by decide) (by decide) (by decide) (by decide)

/-- beyond that range `power(10, ±E)` is still the exact power of ten — the coefficient is cut to 15 digits, the value
is not changed: `10^-E = 1E-E` and `10^E = 1.00000000000000E+E` for every `E` up to 60 -/
theorem power_ten_table :
    (List.range 60).all (fun E =>
      okDec (decPow 15 (Dec.ofNat 10) (Dec.ofInt (-((E + 1 : Nat) : Int)))) ⟨false, 1, -((E + 1 : Nat) : Int)⟩ &&
      okDec (decPow 15 (Dec.ofNat 10) (Dec.ofNat (E + 15))) ⟨false, 10 ^ 14, ((E + 1 : Nat) : Int)⟩) = true := by
  decide +kernel

/-- closed instances (English decimal separator): `1.5e3` = 1500.0, `1.2e-3` — the mantissa is the *double* 1.2, its
exact binary expansion times 10^-3 rounds to 0.00120000000000000 —, `2^10` = 1024, `10^-2` = 0.01, `2.5^2` = 6.25,
`1e16` = 1.00000000000000E+16 -/
theorem power_instances :
    [false, true].all (fun fx =>
      okDec (powerNumberParse fx 15 asciiDigits 46 [49, 46, 53, 101, 51]) ⟨false, 15000, -1⟩ &&
      okDec (powerNumberParse fx 15 asciiDigits 46 [49, 46, 50, 101, 45, 51]) ⟨false, 120000000000000, -17⟩ &&
      okDec (powerNumberParse fx 15 asciiDigits 46 [50, 94, 49, 48]) ⟨false, 1024, 0⟩ &&
      okDec (powerNumberParse fx 15 asciiDigits 46 [49, 48, 94, 45, 50]) ⟨false, 1, -2⟩ &&
      okDec (powerNumberParse fx 15 asciiDigits 46 [50, 46, 53, 94, 50]) ⟨false, 625, -2⟩ &&
      okDec (powerNumberParse fx 15 asciiDigits 46 [49, 101, 49, 54]) ⟨false, 100000000000000, 2⟩) = true ∧
    (F64.add (F64.ofInt 1) (F64.mul F64.pointOne (F64.ofNat 2))).toDec =
      ⟨false, 11999999999999999555910790149937383830547332763671875, -52⟩ := by
  decide +kernel

/-- **Pre-fix regression witness** (the code as first found, `fx = false`; repaired by findings/numfrac/pow-x10.diff).
`1.5x10^3` — a form the English `DoubleExponentialNotationRegex` extracts (`(e|x10\^)`) — denotes 1500. The text contains
`^`, so the caret rule applies; `X` is skipped and `10` is appended to the fraction digits of the mantissa: the value is
1.51³ = 3.442951. The repaired variant (as the C# original: `X10^` ↦ `E` first) answers 1500. -/
theorem x10_caret_witness :
    okDec (powerNumberParse false 15 asciiDigits 46 [49, 46, 53, 120, 49, 48, 94, 51]) ⟨false, 344295100000000, -14⟩ = true ∧
    Dec.format (some (46, 44)) ⟨false, 344295100000000, -14⟩ = [51, 46, 52, 52, 50, 57, 53, 49] ∧
    okDec (powerNumberParse true 15 asciiDigits 46 [49, 46, 53, 120, 49, 48, 94, 51]) ⟨false, 15000, -1⟩ = true ∧
    Dec.format (some (46, 44)) ⟨false, 15000, -1⟩ = [49, 53, 48, 48] := by
  decide +kernel

/-! ## `parse`: tag, sign, format; percentage -/

/-- the tag decides the branch: `…Num` ↦ digits (also `FracNum`), `Frac<lang>` ↦ fraction, `<lang>` ↦ text, `…Pow` ↦
power; no tag: `Num` when the text contains a digit, the language otherwise -/
theorem branch_selection :
    selectBranch enFrac.langMarker [73, 110, 116, 101, 103, 101, 114, 78, 117, 109] = .num ∧              -- IntegerNum
    selectBranch enFrac.langMarker [70, 114, 97, 99, 78, 117, 109] = .num ∧                               -- FracNum
    selectBranch enFrac.langMarker [70, 114, 97, 99, 69, 110, 103] = .frac ∧                              -- FracEng
    selectBranch enFrac.langMarker [68, 111, 117, 98, 108, 101, 69, 110, 103] = .text ∧                   -- DoubleEng
    selectBranch enFrac.langMarker [68, 111, 117, 98, 108, 101, 80, 111, 119] = .pow ∧                    -- DoublePow
    selectBranch enFrac.langMarker [79, 114, 100, 105, 110, 97, 108] = .none ∧
    extraOf asciiTok enFrac.langMarker none [50, 47, 51] = [78, 117, 109] ∧
    extraOf asciiTok enFrac.langMarker (some []) [104, 97, 108, 102] = [69, 110, 103] := by decide

/-- **the percentage parser adds exactly one `%`** to whatever the number parser resolves for the inner text and tag -/
theorem percent_composition (fx : Bool) (p : Nat) (tab : DigitTab) (T : TokTab) (sp : Nat → Bool) (c : FracCfg)
    (lf : Option (Nat × Nat)) (supported : List Str) (type : Str) (data : Option Str) (text : Str) (aux : Aux)
    (v : Val) (res : Str) (h : parse fx p tab T sp c lf supported type data text aux = .ok (some (v, res))) :
    percentParse fx p tab T sp c lf supported type data text aux = .ok (some (v, percentSuffix sp res)) := by
  simp [percentParse, h, bind, Except.bind, pure, Except.pure]

/-- end to end on the English configuration: `minus three fifths` (sign prefix of 6 characters) ↦ `-0.6`;
`2/3` through the percentage parser ↦ `0.666666666666667%`; `1.5e3` ↦ `1500` -/
theorem parse_instances :
    (match parse true 15 asciiDigits asciiTok (· == 32) enFrac en.longFormat [] [] (some [70, 114, 97, 99, 69, 110, 103])
        [109, 105, 110, 117, 115, 32, 116, 104, 114, 101, 101, 32, 102, 105, 102, 116, 104, 115]
        ⟨some 6, [116, 104, 114, 101, 101, 32, 102, 105, 102, 116, 104, 115], [116, 104, 114, 101, 101, 32, 102, 105, 102, 116, 104, 115], [], none⟩ with
      | .ok (some (v, res)) => decide (v = .flt ⟨true, 6, -1⟩) && res == [45, 48, 46, 54]
      | _ => false) = true ∧
    (match percentParse true 15 asciiDigits asciiTok (· == 32) enFrac en.longFormat [] [] (some [70, 114, 97, 99, 78, 117, 109])
        [50, 47, 51] ⟨none, [50, 47, 51], [50, 47, 51], [], none⟩ with
      | .ok (some (_, res)) => res == [48, 46, 54, 54, 54, 54, 54, 54, 54, 54, 54, 54, 54, 54, 54, 54, 55, 37]
      | _ => false) = true ∧
    (match parse true 15 asciiDigits asciiTok (· == 32) enFrac en.longFormat [] [] (some [68, 111, 117, 98, 108, 101, 80, 111, 119])
        [49, 46, 53, 101, 51] ⟨none, [49, 46, 53, 101, 51], [49, 46, 53, 101, 51], [], none⟩ with
      | .ok (some (_, res)) => res == [49, 53, 48, 48]
      | _ => false) = true := by
  decide +kernel

end RTV.NumFrac
