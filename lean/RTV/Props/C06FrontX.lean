import RTV.Props.C06Front
import RTV.Lemmas.DateFrontCoverX
/-!
# C06, front end of the OTHER BaseDateParser cultures — the culture-generic part

`Props/C06Front.lean` is the English front end.  The same `parse_basic_regex_match` model (`RTV.DateFront.parseBasic`,
`frontResolve`: the regex list, the token prefix and the month / day tables are arguments) is instantiated per culture in
`Props/C06Front<Cul>.lean` with the culture's regenerated `date_regex` list (RTV/Gen/DateRegex<Cul>.lean), its contract
layouts (RTV/Gen/DateLayouts<Cul>.lean — the day / month ORDER of the culture is in the layouts: `{d}/{m}/{y}`) and its
regenerated `MonthOfYear` / `DayOfMonth` maps.  This file holds what they share:

* `retables_latin`: the `\d \w \s` tables of the running `regex` module agree with `latinTables` below U+0100 (the month
  names of the contract use Latin-1 letters: `février`, `août`, `março`, `märz`);
* `monthToksOK` / `dayToksOK`: every month token of a layout (`3`, `03`, `marzo`) is a key of the culture's month map with
  that month, every day token — followed by the literal characters the day GROUP takes with it (`5.` in German, `1er` in
  French) — a key of the day map with that day (evaluated on the regenerated maps: a swapped `enero → 2` breaks it);
* `front_decodes_gen`, `front_abs_date_gen`: from the evaluated facts of a layout (`LayoutFactsL`) and the token checks to
  `Decodes` and to TIMEX = value = the date, for every year 1900..2099, month, day of the layout's day range, every
  reference, every engine table that agrees with `latinTables` below 256.
-/
namespace RTV.DateFront
open RTV.Re RTV.Py RTV.DtRes

def latinAgreeB (T : Tables) : Bool :=
  (List.range 256).all fun c =>
    T.digit c == latinTables.digit c && T.word c == latinTables.word c && T.space c == latinTables.space c

theorem latinAgree_of_B (T : Tables) (h : latinAgreeB T = true) : LatinAgree T := by
  intro c hc
  unfold latinAgreeB at h
  simp only [List.all_eq_true, List.mem_range, Bool.and_eq_true, beq_iff_eq] at h
  obtain ⟨⟨h1, h2⟩, h3⟩ := h c hc
  exact ⟨h1, h2, h3⟩

/-- `\d`, `\w`, `\s` of the running `regex` module (RTV/Gen/ReTables.lean) are `latinTables` below 256 -/
theorem retables_latin : LatinAgree RTV.Gen.reTables := latinAgree_of_B _ (by decide +kernel)

/-- every month token of the layout, rendered for the months 1..12, is a key of `moy` with that month -/
def monthToksOK (N : Names) (moy : List (Str × Nat)) (L : List Tok) : Bool :=
  L.all fun t => t.kind != 2 || (List.range 12).all fun i => lookup moy (t.render N 0 (1 + i) 0) == some (1 + i)

/-- every day token of the layout, rendered for the days of `days` and followed by `dext`, is a key of `dom` with that day -/
def dayToksOK (N : Names) (dom : List (Str × Nat)) (L : List Tok) (dext : Str) (days : List Nat) : Bool :=
  L.all fun t => t.kind != 3 || days.all fun dd => lookup dom (t.render N 0 0 dd ++ dext) == some dd

theorem month_token_gen {N : Names} {moy : List (Str × Nat)} {L : List Tok} (h : monthToksOK N moy L = true)
    (t : Tok) (ht : t ∈ L) (hk : t.kind = 2) (y m d : Nat) (hm : 1 ≤ m ∧ m ≤ 12) :
    lookup moy (t.render N y m d) = some m := by
  unfold monthToksOK at h
  simp only [List.all_eq_true, Bool.or_eq_true, bne_iff_ne, ne_eq, List.mem_range, beq_iff_eq] at h
  rcases h t ht with h | h
  · exact absurd hk h
  · have := h (m - 1) (by omega)
    rw [show 1 + (m - 1) = m by omega] at this
    rw [render_kind2 N t hk y m d 0 0]
    exact this

theorem day_token_gen {N : Names} {dom : List (Str × Nat)} {L : List Tok} {dext : Str} {days : List Nat}
    (h : dayToksOK N dom L dext days = true) (t : Tok) (ht : t ∈ L) (hk : t.kind = 3) (y m d : Nat) (hd : d ∈ days) :
    lookup dom (t.render N y m d ++ dext) = some d := by
  unfold dayToksOK at h
  simp only [List.all_eq_true, Bool.or_eq_true, bne_iff_ne, ne_eq, beq_iff_eq] at h
  rcases h t ht with h | h
  · exact absurd hk h
  · rw [render_kind3 N t hk y m d 0 0]
    exact h d hd

theorem year_token_gen (N : Names) (t : Tok) (ht : t.kind = 1) (y m d : Nat) : t.render N y m d = decStr y := by
  cases t <;> simp_all [Tok.kind, Tok.render]

/-- FRONT END → DECODE, any culture: from the evaluated facts of a layout and the token checks on the culture's maps, the
groups `parse_basic_regex_match` yields on the rendered date satisfy `Decodes` for that date. -/
theorem front_decodes_gen {T : Tables} (hT : LatinAgree T) {u : Uni} (hu : TextUni u) {N : Names} {rs : List (Option RE)}
    {pre : Str} {moy dom : List (Str × Nat)} {days : List Nat} {L : List Tok} {dext : Str} {k : Nat}
    (hf : LayoutFactsL N rs pre days L dext k) (hmt : monthToksOK N moy L = true) (hdt : dayToksOK N dom L dext days = true)
    (y m d : Nat) (hy : 1900 ≤ y ∧ y ≤ 2099) (hm : 1 ≤ m ∧ m ≤ 12) (hd : d ∈ days) :
    ∃ h g, parseBasic T u pre rs (renderL N L y m d) = some (some (h, g)) ∧ h.idx = k ∧
      Decodes u (genCfg moy dom) g y m d := by
  obtain ⟨h, ty, tm, td, hp, hk, _, k1, m2, k2, m3, k3⟩ := front_of_facts hT hu hf y m d hy hm hd
  refine ⟨h, _, hp, hk, ?_⟩
  constructor
  · exact month_token_gen hmt tm m2 k2 y m d hm
  · exact day_token_gen hdt td m3 k3 y m d hd
  · rfl
  · simp only [year_token_gen N ty k1]
    exact year_token_isNum u hu.ascii y (by omega) (by omega)

/-- C06 FOR THE TEXT, any culture. A date `y-m-d`, 1900 ≤ y ≤ 2099, that exists in the calendar (day in the layout's day
range), written in a layout with evaluated facts: front end + `match_to_date` + `parse` + `_date_time_resolution` yield
exactly one value of type `date` whose TIMEX and value are `YYYY-MM-DD`, for every reference and written-year oracle. -/
theorem front_abs_date_gen {T : Tables} (hT : LatinAgree T) {u : Uni} (hu : TextUni u) {N : Names} {rs : List (Option RE)}
    {pre : Str} {moy dom : List (Str × Nat)} {days : List Nat} {L : List Tok} {dext : Str} {k : Nat}
    (hf : LayoutFactsL N rs pre days L dext k) (hmt : monthToksOK N moy L = true) (hdt : dayToksOK N dom L dext days = true)
    (y m d : Nat) (hy : 1900 ≤ y ∧ y ≤ 2099) (hv : (⟨y, m, d⟩ : RTV.Cal.Date).valid = true) (hd : d ∈ days)
    (wy : Int) (R : DT) :
    frontResolve T u (genCfg moy dom) pre rs (renderL N L y m d) wy R =
      .ok (some [{ timex := ymd y m d, type := sDate, value := some (ymd y m d) }]) := by
  have hvv := (RTV.Cal.valid_iff ⟨y, m, d⟩).1 hv
  simp only at hvv
  obtain ⟨h, g, hp, _, hdec⟩ := front_decodes_gen hT hu hf hmt hdt y m d hy ⟨hvv.2.2.1, hvv.2.2.2.1⟩ hd
  have := abs_date u moy dom g y m d hdec hy hv wy R
  simpa [frontResolve, frontToDate, hp, resolveDate] using this

/-- a valid date has its day in 1..31 -/
theorem valid_day31 (y m d : Nat) (hv : (⟨y, m, d⟩ : RTV.Cal.Date).valid = true) : d ∈ days31 := by
  have hvv := (RTV.Cal.valid_iff ⟨y, m, d⟩).1 hv
  simp only at hvv
  have hd31 : d ≤ 31 := Nat.le_trans hvv.2.2.2.2.2 (by unfold RTV.Cal.daysInMonth; split <;> (try split) <;> omega)
  exact (mem_days31 d).2 ⟨hvv.2.2.2.2.1, hd31⟩

end RTV.DateFront
