import RTV.Lemmas.WellFormed
/-!
# C11 — every resolved date-time value is well formed and agrees with its TIMEX

`RTV.WF.wellFormed` (in `RTV/Model/WellFormed.lean`) is the property's predicate on the *observable* output; the
check evaluates it (through the compiled driver) on every entity the real date-time model returns. The theorems
below say that what the resolution **assembly** of `BaseMergedParser` emits for date / time / datetime slots built
from `datetime` objects satisfies that predicate — for every valid date 0001..9999 and every time of day — so the
predicate is not vacuous and a failure on the implementation is a failure of code these theorems do not cover
(parsers that build value strings by concatenation, period parsers, CJK parsers, holidays: monitored only).
-/
namespace RTV.WF
open RTV.Cal

/-- `format_date` of any valid date is a well-formed `YYYY-MM-DD` naming that date. -/
theorem format_date_wellformed (x : Date) (h : x.valid = true) : parseDate (formatDate x) = some x :=
  parseDate_formatDate x h

/-- `format_time` of any time of day is a well-formed `HH:MM:SS`. -/
theorem format_time_wellformed (h m s : Nat) (hh : h < 24) (hm : m < 60) (hs : s < 60) :
    parseTime (formatTime h m s) = some (h * 3600 + m * 60 + s) :=
  parseTime_formatTime h m s hh hm hs

theorem format_datetime_wellformed (x : Date) (hv : x.valid = true) (h m s : Nat) (hh : h < 24) (hm : m < 60)
    (hs : s < 60) : parseDateTime (formatDateTime x h m s) = some (x, h * 3600 + m * 60 + s) :=
  parseDateTime_format x hv h m s hh hm hs

/-- The minimum date never reaches the output: `__add_single_date_time_to_resolution` drops a value that starts with
`0001-01-01`, and a slot with nothing left resolves to the single value `'not resolved'`. -/
theorem min_value_filtered (outType timex : Str) (t₁ t₂ : Str) :
    resolveSingle outType timex (minValue ++ t₁) (minValue ++ t₂) = [⟨outType, timex, some sNotResolved, none, none⟩] := by
  simp [resolveSingle, addSingle, startsWith, minValue]

theorem formatDate_ne_notResolved (x : Date) : formatDate x ≠ sNotResolved := by
  intro hx
  have : (formatDate x).length = sNotResolved.length := by rw [hx]
  simp [formatDate, pad4, pad2, sNotResolved] at this

/-- every value `_date_time_resolution` emits for such a slot is the past value, the future value or `'not resolved'` -/
theorem resolveSingle_mem (outType timex p f : Str) (v : Value) (hv : v ∈ resolveSingle outType timex p f) :
    v = ⟨outType, timex, some p, none, none⟩ ∨ v = ⟨outType, timex, some f, none, none⟩ ∨
      v = ⟨outType, timex, some sNotResolved, none, none⟩ := by
  unfold resolveSingle at hv
  simp only [addSingle] at hv
  split at hv <;> (try split at hv) <;> simp_all
  rcases hv with hv | hv
  · exact Or.inl hv
  · exact Or.inr (Or.inl hv)

/-- C11 (assembly, dates): a date slot whose past and future values are `format_date` of valid dates yields only
values that are valid calendar dates (or `'not resolved'`) — whatever the TIMEX. -/
theorem assembly_wellformed_date (timex : Str) (p f : Date) (hp : p.valid = true) (hf : f.valid = true) :
    ∀ v ∈ resolveSingle sDate timex (formatDate p) (formatDate f), shapeOK v = true := by
  intro v hv
  rcases resolveSingle_mem _ _ _ _ v hv with h | h | h <;> subst h
  · simp [shapeOK, formatDate_ne_notResolved, parseDate_formatDate p hp]
  · simp [shapeOK, formatDate_ne_notResolved, parseDate_formatDate f hf]
  · simp [shapeOK]

/-- C11 (definite TIMEX ⇒ value equals it): when the TIMEX of a date slot is `luis_date y m d` of a valid date, the
value emitted for that same date is identical to the TIMEX. -/
theorem definite_timex_value_date (x : Date) (h : x.valid = true) :
    definiteOK ⟨sDate, formatDate x, some (formatDate x), none, none⟩ = true := by
  simp [definiteOK, formatDate_ne_notResolved, parseDate_formatDate x h]

/-- … and a value that differs from a definite TIMEX is rejected by the predicate (the predicate is not vacuous). -/
example : definiteOK ⟨sDate, formatDate ⟨2019, 5, 5⟩, some (formatDate ⟨2019, 5, 6⟩), none, none⟩ = false := by decide

/-- C11 (type name): the entity's type name and the `type` of its values are produced by the same function of the
slot type and the modifier flags, so they agree. -/
theorem type_name_agrees (dtype : Str) (hasMod : Bool) (timex : Str) (val : Option Str) :
    typeNameOK (sPrefix ++ determineType dtype hasMod) [⟨determineType dtype hasMod, timex, val, none, none⟩] = true := by
  simp [typeNameOK]

/-- Witnesses that the predicate rejects what the property forbids: an invalid calendar date, an invalid time, a pure
date range whose start is not before its end, a mismatching type name. -/
example : shapeOK ⟨sDate, [], some ("2019-02-30".toList.map Char.toNat), none, none⟩ = false := by decide
example : shapeOK ⟨sTime, [], some ("27:00:00".toList.map Char.toNat), none, none⟩ = false := by decide
example : shapeOK ⟨sDateRange, [], none, some ("2016-11-07".toList.map Char.toNat), some ("2016-11-07".toList.map Char.toNat)⟩ = false := by decide
example : shapeOK ⟨sDateRange, [], none, some ("2016-11-07".toList.map Char.toNat), some ("2016-11-14".toList.map Char.toNat)⟩ = true := by decide
example : typeNameOK ("datetimeV2.date".toList.map Char.toNat) [⟨sTime, [], none, none, none⟩] = false := by decide

theorem formatTime_ne_notResolved (h m s : Nat) : formatTime h m s ≠ sNotResolved := by
  intro hx
  have : (formatTime h m s).length = sNotResolved.length := by rw [hx]
  simp [formatTime, pad2, sNotResolved] at this

theorem formatDateTime_ne_notResolved (x : Date) (h m s : Nat) : formatDateTime x h m s ≠ sNotResolved := by
  intro hx
  have : (formatDateTime x h m s).length = sNotResolved.length := by rw [hx]
  simp [formatDateTime, formatDate, formatTime, pad4, pad2, sNotResolved] at this

/-- C11 (assembly, times): a time slot whose past / future values are `format_time` of times of day yields only valid
`HH:MM:SS` values. -/
theorem assembly_wellformed_time (timex : Str) (h₁ m₁ s₁ h₂ m₂ s₂ : Nat)
    (a₁ : h₁ < 24) (b₁ : m₁ < 60) (c₁ : s₁ < 60) (a₂ : h₂ < 24) (b₂ : m₂ < 60) (c₂ : s₂ < 60) :
    ∀ v ∈ resolveSingle sTime timex (formatTime h₁ m₁ s₁) (formatTime h₂ m₂ s₂), shapeOK v = true := by
  intro v hv
  rcases resolveSingle_mem _ _ _ _ v hv with h | h | h <;> subst h
  · simp [shapeOK, sTime, sDate, formatTime_ne_notResolved, parseTime_formatTime h₁ m₁ s₁ a₁ b₁ c₁]
  · simp [shapeOK, sTime, sDate, formatTime_ne_notResolved, parseTime_formatTime h₂ m₂ s₂ a₂ b₂ c₂]
  · simp [shapeOK]

/-- C11 (assembly, datetimes). -/
theorem assembly_wellformed_datetime (timex : Str) (x y : Date) (hx : x.valid = true) (hy : y.valid = true)
    (h₁ m₁ s₁ h₂ m₂ s₂ : Nat)
    (a₁ : h₁ < 24) (b₁ : m₁ < 60) (c₁ : s₁ < 60) (a₂ : h₂ < 24) (b₂ : m₂ < 60) (c₂ : s₂ < 60) :
    ∀ v ∈ resolveSingle sDateTime timex (formatDateTime x h₁ m₁ s₁) (formatDateTime y h₂ m₂ s₂), shapeOK v = true := by
  intro v hv
  rcases resolveSingle_mem _ _ _ _ v hv with h | h | h <;> subst h
  · simp [shapeOK, sTime, sDate, sDateTime, formatDateTime_ne_notResolved, parseDateTime_format x hx h₁ m₁ s₁ a₁ b₁ c₁]
  · simp [shapeOK, sTime, sDate, sDateTime, formatDateTime_ne_notResolved, parseDateTime_format y hy h₂ m₂ s₂ a₂ b₂ c₂]
  · simp [shapeOK]

theorem formatDate_not_invalid_prefix (x : Date) (h : x.valid = true) (hne : x ≠ ⟨1, 1, 1⟩) :
    startsWith (formatDate x) sInvalidDate = false := by
  have hp := parseDate_formatDate x h
  have hlen : (formatDate x).length = 10 := by simp [formatDate, pad4, pad2]
  cases hc : startsWith (formatDate x) sInvalidDate with
  | false => rfl
  | true =>
    exfalso
    have heq : formatDate x = minValue := by
      simp only [startsWith, sInvalidDate, decide_eq_true_eq] at hc
      have ht : (formatDate x).take 10 = formatDate x := List.take_of_length_le (by omega)
      simpa [minValue, ht] using hc
    rw [heq] at hp
    have h1 : parseDate minValue = some ⟨1, 1, 1⟩ := by decide
    rw [h1] at hp
    exact hne (Option.some.inj hp).symm

/-- C11 (assembly, pure date ranges): a date-range slot without modifier whose end points are `format_date` of valid
dates `a < b` (neither the minimum date) yields a value with both ends, start strictly before end. -/
theorem period_wellformed_daterange (timex : Str) (a b : Date) (ha : a.valid = true) (hb : b.valid = true)
    (hlt : a.ord < b.ord) (na : a ≠ ⟨1, 1, 1⟩) (nb : b ≠ ⟨1, 1, 1⟩) :
    ∃ v, periodValue sDateRange timex [] (some (formatDate a)) (some (formatDate b)) = some v ∧ shapeOK v = true := by
  have ia := formatDate_not_invalid_prefix a ha na
  have ib := formatDate_not_invalid_prefix b hb nb
  have hne : ∀ x : Date, formatDate x ≠ [] := by intro x; simp [formatDate, pad4]
  refine ⟨⟨sDateRange, timex, none, some (formatDate a), some (formatDate b)⟩, ?_, ?_⟩
  · simp [periodValue, addPeriod, sSince, hne, ia, ib]
  · simp [shapeOK, sDateRange, sDate, sTime, sDateTime, sDuration, parseDate_formatDate a ha, parseDate_formatDate b hb, hlt]

/-- C11 ("a non-existent date yields 'not resolved', never an invalid value"): a range slot one of whose ends starts
with the invalid-date string contributes NO value — whichever end it is. -/
theorem period_invalid_end_filtered (outType timex s₁ s₂ t : Str) (h₁ : s₁ ≠ []) :
    periodValue outType timex [] (some s₁) (some (sInvalidDate ++ t)) = none ∧
    periodValue outType timex [] (some (sInvalidDate ++ t)) (some s₁) = none := by
  have hs : startsWith (sInvalidDate ++ t) sInvalidDate = true := by simp [startsWith, sInvalidDate, minValue]
  have hn : sInvalidDate ++ t ≠ [] := by simp [sInvalidDate, minValue]
  constructor <;> simp [periodValue, addPeriod, sSince, h₁, hn, hs]

/-- C11 (open ranges): with a `before` / `after` / `since` modifier exactly one end is written. -/
theorem period_modifier_one_end (s e : Option Str) :
    addPeriod sBefore s e = (none, some s) ∧ addPeriod sAfter s e = (some e, none) ∧ addPeriod sSince s e = (some s, none) := by
  refine ⟨by simp [addPeriod, startsWith, endsWith, sBefore, sLate], by simp [addPeriod, startsWith, endsWith, sAfter, sBefore, sEarly], ?_⟩
  simp [addPeriod, startsWith, sSince, sBefore, sAfter]

end RTV.WF
