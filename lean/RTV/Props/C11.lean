import RTV.Lemmas.WellFormed
import RTV.Model.Assemble
import RTV.Props.C10
/-!
# C11 — every resolved date-time value is well formed and agrees with its TIMEX

`RTV.WF.wellFormed` (in `RTV/Model/WellFormed.lean`) is the property's predicate on the *observable* output; the
check evaluates it (through the compiled driver) on every entity the real date-time model returns. The theorems
below say that what the resolution **assembly** of `BaseMergedParser` emits for date / time / datetime slots built
from `datetime` objects satisfies that predicate — for every valid date 0001..9999 and every time of day — so the
predicate is not vacuous and a failure on the implementation is a failure of code these theorems do not cover
(parsers that build value strings by concatenation, period parsers, CJK parsers, holidays: monitored only).

The assembly itself (`set_parse_result` → `_date_time_resolution` → `_generate_from_resolution` → the two `__add_*`
helpers) is modelled for EVERY slot kind, modifier string and flag in `RTV/Model/Assemble.lean` (`resolveSlot`,
`slotTypeName`; unit correspondence `assemble` of `harness/corr/c11.py` on constructed slots).  About it:
`type_name_agrees` (type name = type of every value, every slot), `definite_timex_value_date` / `_modifier` (a definite
date handed over with its own TIMEX comes out equal to it, also behind before / after / since / until),
`definite_value_mismatch_detected`, `definite_duration_value`, `period_invalid_end_filtered` (every modifier that is not
before… / after… / since) and the NEGATIVE theorems `period_before_invalid_start_emitted`,
`period_after_invalid_end_emitted`, `period_since_invalid_start_emitted`: behind a before / after / since modifier the
`0001-01-01` marker of a non-existent date IS emitted (finding `sentinel:…`, replayed at pipeline level by
`modifier_jobs`: `before February 30 to March 2` → `end: 0001-01-01`).
-/
namespace RTV.WF
open RTV.Cal

/-- `format_date` of any valid date is a well-formed `YYYY-MM-DD` naming that date. -/
theorem format_date_wellformed (x : Date) (h : x.valid = true) : parseDate (formatDate x) = some x :=
  parseDate_formatDate x h

/-- `format_time` of any time of day is a well-formed `HH:MM:SS`. -/
theorem format_time_wellformed (h m s : Nat) (hh : h < 24) (hm : m < 60) (hs : s < 60) :
    parseTime (formatTime h m s) = some (h * 3600 + m * 60 + s) :=
  parseTime_formatTime h m s hh hm hs

theorem format_datetime_wellformed (x : Date) (hv : x.valid = true) (h m s : Nat) (hh : h < 24) (hm : m < 60)
    (hs : s < 60) : parseDateTime (formatDateTime x h m s) = some (x, h * 3600 + m * 60 + s) :=
  parseDateTime_format x hv h m s hh hm hs

/-- The minimum date never reaches the output: `__add_single_date_time_to_resolution` drops a value that starts with
`0001-01-01`, and a slot with nothing left resolves to the single value `'not resolved'`. -/
theorem min_value_filtered (outType timex : Str) (t₁ t₂ : Str) :
    resolveSingle outType timex (minValue ++ t₁) (minValue ++ t₂) = [⟨outType, timex, some sNotResolved, none, none⟩] := by
  simp [resolveSingle, addSingle, startsWith, minValue]

theorem formatDate_ne_notResolved (x : Date) : formatDate x ≠ sNotResolved := by
  intro hx
  have : (formatDate x).length = sNotResolved.length := by rw [hx]
  simp [formatDate, pad4, pad2, sNotResolved] at this

/-- every value `_date_time_resolution` emits for such a slot is the past value, the future value or `'not resolved'` -/
theorem resolveSingle_mem (outType timex p f : Str) (v : Value) (hv : v ∈ resolveSingle outType timex p f) :
    v = ⟨outType, timex, some p, none, none⟩ ∨ v = ⟨outType, timex, some f, none, none⟩ ∨
      v = ⟨outType, timex, some sNotResolved, none, none⟩ := by
  unfold resolveSingle at hv
  simp only [addSingle] at hv
  split at hv <;> (try split at hv) <;> simp_all
  rcases hv with hv | hv
  · exact Or.inl hv
  · exact Or.inr (Or.inl hv)

/-- C11 (assembly, dates): a date slot whose past and future values are `format_date` of valid dates yields only
values that are valid calendar dates (or `'not resolved'`) — whatever the TIMEX. -/
theorem assembly_wellformed_date (timex : Str) (p f : Date) (hp : p.valid = true) (hf : f.valid = true) :
    ∀ v ∈ resolveSingle sDate timex (formatDate p) (formatDate f), shapeOK v = true := by
  intro v hv
  rcases resolveSingle_mem _ _ _ _ v hv with h | h | h <;> subst h
  · simp [shapeOK, formatDate_ne_notResolved, parseDate_formatDate p hp]
  · simp [shapeOK, formatDate_ne_notResolved, parseDate_formatDate f hf]
  · simp [shapeOK]

/-- (helper) the predicate accepts a date value that is its own definite TIMEX -/
theorem definiteOK_date_self (x : Date) (h : x.valid = true) :
    definiteOK ⟨sDate, formatDate x, some (formatDate x), none, none⟩ = true := by
  simp [definiteOK, formatDate_ne_notResolved, parseDate_formatDate x h]

theorem formatDate_inj (x y : Date) (hx : x.valid = true) (hy : y.valid = true) (h : formatDate x = formatDate y) : x = y := by
  have a := parseDate_formatDate x hx
  rw [h, parseDate_formatDate y hy] at a
  exact (Option.some.inj a).symm

theorem formatDate_ne_nil (x : Date) : formatDate x ≠ [] := by simp [formatDate, pad4]

theorem formatDate_not_min (x : Date) (h : x.valid = true) (hne : x ≠ ⟨1, 1, 1⟩) : startsWith (formatDate x) minValue = false := by
  have hlen : (formatDate x).length = 10 := by simp [formatDate, pad4, pad2]
  cases hc : startsWith (formatDate x) minValue with
  | false => rfl
  | true =>
    exfalso
    have ht : (formatDate x).take 10 = formatDate x := List.take_of_length_le (by omega)
    have heq : formatDate x = minValue := by
      simp only [startsWith, decide_eq_true_eq] at hc
      simpa [minValue, ht] using hc
    have h1 : minValue = formatDate ⟨1, 1, 1⟩ := by decide
    exact hne (formatDate_inj x ⟨1, 1, 1⟩ h (by decide) (heq.trans h1))

@[simp] theorem isPerm_self (l : List (Option Str)) : l.isPerm l = true := List.isPerm_iff.mpr (List.Perm.refl _)

/-- `__add_single_date_time_to_resolution` on a non-empty value that is not the minimum date, per modifier -/
theorem addSingleMod_cases (v : Str) (hn : v ≠ []) (hm : startsWith v minValue = false) :
    addSingleMod [] (some v) = some { value := some (some v) } ∧
    addSingleMod sBefore (some v) = some { stop := some (some v) } ∧
    addSingleMod sUntil (some v) = some { stop := some (some v) } ∧
    addSingleMod sAfter (some v) = some { start := some (some v) } ∧
    addSingleMod sSince (some v) = some { start := some (some v) } := by
  refine ⟨?_, ?_, ?_, ?_, ?_⟩ <;> simp (config := {decide := true}) [addSingleMod, hn, hm]

/-- the slot a date parser hands over for a date `v` under the TIMEX of date `x` (past = future = `format_date v`) -/
def dateSlot (x v : Date) (mod : Str) : ASlot :=
  ⟨sDate, formatDate x, mod, ⟨some (formatDate v), none, none, none⟩, ⟨some (formatDate v), none, none, none⟩⟩

/-- C11 (definite TIMEX ⇒ value equals it, ASSEMBLY): when a date slot carries the TIMEX `luis_date y m d` of a valid
date and that same date as past and future value, `set_parse_result` emits exactly one value, it IS the TIMEX, the type
name is `datetimeV2.date`, and the whole entity satisfies the property's predicate.  (The date 0001-01-01 is excluded:
see `definite_min_date_not_resolved`.) -/
theorem definite_timex_value_date (x : Date) (h : x.valid = true) (hne : x ≠ ⟨1, 1, 1⟩) :
    resolveSlot (dateSlot x x []) false = some [⟨sDate, formatDate x, some (some (formatDate x)), none, none⟩] ∧
    slotTypeName (dateSlot x x []) false = sPrefix ++ sDate ∧
    wellFormed (slotTypeName (dateSlot x x []) false)
      [(⟨sDate, formatDate x, some (some (formatDate x)), none, none⟩ : AValue).toValue] = true := by
  have hm := formatDate_not_min x h hne
  have hn := formatDate_ne_nil x
  obtain ⟨c0, -, -, -, -⟩ := addSingleMod_cases (formatDate x) hn hm
  refine ⟨?_, by simp [slotTypeName, dateSlot, determineType], ?_⟩
  · simp [resolveSlot, dateSlot, generate, c0, determineType, Fields.isEmpty, Fields.values, isPerm_self]
  · simp [wellFormed, typeNameOK, slotTypeName, dateSlot, determineType, AValue.toValue, shapeOK, definiteOK,
      formatDate_ne_notResolved, parseDate_formatDate x h]

/-- the quirk behind the exclusion: the minimum date itself, written out in full, is treated as "does not exist" -/
theorem definite_min_date_not_resolved :
    resolveSlot (dateSlot ⟨1, 1, 1⟩ ⟨1, 1, 1⟩ []) false = some [⟨sDate, formatDate ⟨1, 1, 1⟩, some (some sNotResolved), none, none⟩] := by
  decide

/-- C11 (definite TIMEX behind a modifier): with `before` / `until` the date is written as the `end`, with `after` /
`since` as the `start` of a value of type `daterange` whose TIMEX is still the date's; the type name follows
(`datetimeV2.daterange`), and the entity satisfies the predicate — whose `definiteOK` now DEMANDS that the written end
is the TIMEX date. -/
theorem definite_timex_value_modifier (x : Date) (h : x.valid = true) (hne : x ≠ ⟨1, 1, 1⟩) :
    (∀ mod, mod = sBefore ∨ mod = sUntil →
      resolveSlot (dateSlot x x mod) true = some [⟨sDateRange, formatDate x, none, none, some (some (formatDate x))⟩]) ∧
    (∀ mod, mod = sAfter ∨ mod = sSince →
      resolveSlot (dateSlot x x mod) true = some [⟨sDateRange, formatDate x, none, some (some (formatDate x)), none⟩]) ∧
    wellFormed (slotTypeName (dateSlot x x sBefore) true)
      [(⟨sDateRange, formatDate x, none, none, some (some (formatDate x))⟩ : AValue).toValue] = true ∧
    wellFormed (slotTypeName (dateSlot x x sAfter) true)
      [(⟨sDateRange, formatDate x, none, some (some (formatDate x)), none⟩ : AValue).toValue] = true := by
  have hm := formatDate_not_min x h hne
  have hn := formatDate_ne_nil x
  have hp := parseDate_formatDate x h
  obtain ⟨-, c1, c2, c3, c4⟩ := addSingleMod_cases (formatDate x) hn hm
  have dt : determineType sDate true = sDateRange := by decide
  refine ⟨?_, ?_, ?_, ?_⟩
  · intro mod hmod
    rcases hmod with rfl | rfl
    · simp [resolveSlot, dateSlot, generate, c1, dt, Fields.isEmpty, Fields.values, isPerm_self]
    · simp [resolveSlot, dateSlot, generate, c2, dt, Fields.isEmpty, Fields.values, isPerm_self]
  · intro mod hmod
    rcases hmod with rfl | rfl
    · simp [resolveSlot, dateSlot, generate, c3, dt, Fields.isEmpty, Fields.values, isPerm_self]
    · simp [resolveSlot, dateSlot, generate, c4, dt, Fields.isEmpty, Fields.values, isPerm_self]
  · simp (config := {decide := true}) [wellFormed, typeNameOK, slotTypeName, dateSlot, determineType, AValue.toValue, shapeOK, definiteOK, hp, optOk,
      sDate, sTime, sDateTime, sDuration, sDateRange]
  · simp (config := {decide := true}) [wellFormed, typeNameOK, slotTypeName, dateSlot, determineType, AValue.toValue, shapeOK, definiteOK, hp, optOk,
      sDate, sTime, sDateTime, sDuration, sDateRange]

/-- … and the assembly repairs nothing: a date slot whose value is another valid date than the one its definite TIMEX
names comes out with that other date, and the predicate rejects it (plain and behind a modifier). -/
theorem definite_value_mismatch_detected (x v : Date) (hx : x.valid = true) (hv : v.valid = true) (hne : v ≠ ⟨1, 1, 1⟩)
    (hd : v ≠ x) :
    resolveSlot (dateSlot x v []) false = some [⟨sDate, formatDate x, some (some (formatDate v)), none, none⟩] ∧
    definiteOK (⟨sDate, formatDate x, some (some (formatDate v)), none, none⟩ : AValue).toValue = false ∧
    definiteOK (⟨sDateRange, formatDate x, none, none, some (some (formatDate v))⟩ : AValue).toValue = false := by
  have hm := formatDate_not_min v hv hne
  have hn := formatDate_ne_nil v
  have hne' : formatDate v ≠ formatDate x := fun e => hd (formatDate_inj v x hv hx e)
  obtain ⟨c0, -, -, -, -⟩ := addSingleMod_cases (formatDate v) hn hm
  refine ⟨?_, ?_, ?_⟩
  · simp [resolveSlot, dateSlot, generate, c0, determineType, Fields.isEmpty, Fields.values, isPerm_self]
  · simp [AValue.toValue, definiteOK, formatDate_ne_notResolved, parseDate_formatDate x hx, hne']
  · simp (config := {decide := true}) [AValue.toValue, definiteOK, parseDate_formatDate x hx, hne', optOk, sDateRange]

/-- … and a value that differs from a definite TIMEX is rejected by the predicate (the predicate is not vacuous). -/
example : definiteOK ⟨sDate, formatDate ⟨2019, 5, 5⟩, some (formatDate ⟨2019, 5, 6⟩), none, none⟩ = false := by decide

/-- C11 (type name): for EVERY slot (any type string, TIMEX, modifier, past / future resolution) and flag, whenever
`set_parse_result` does not raise, every value it emits carries the type `_determine_date_time_types` computed inside
`_date_time_resolution`, and the entity's type name — computed by a second call after the values were built — is
`datetimeV2.` + that type: `typeNameOK` holds. -/
theorem type_name_agrees (slot : ASlot) (hasMod : Bool) (vs : List AValue) (h : resolveSlot slot hasMod = some vs) :
    (∀ v ∈ vs, v.type = determineType slot.dtype hasMod) ∧
    typeNameOK (slotTypeName slot hasMod) (vs.map AValue.toValue) = true := by
  have key : ∀ v ∈ vs, v.type = determineType slot.dtype hasMod := by
    unfold resolveSlot at h
    split at h
    · injection h with h
      subst h
      intro v hv
      simp only [List.mem_append] at hv
      rcases hv with hv | hv
      · split at hv
        · split at hv <;> simp_all
        · simp only [List.mem_append] at hv
          rcases hv with hv | hv <;> (split at hv <;> simp_all)
      · split at hv <;> simp_all
    · cases h
  refine ⟨key, ?_⟩
  simp only [typeNameOK, slotTypeName, List.all_map, List.all_eq_true]
  intro v hv
  simp [AValue.toValue, key v hv]

/-- the table behind it: a before / after / since flag turns the three point types into their range types and leaves
every other slot type alone; without a flag nothing changes. -/
theorem type_name_table (t : Str) :
    determineType sDate true = sDateRange ∧ determineType sTime true = sTimeRange ∧
    determineType sDateTime true = sDateTimeRange ∧ determineType sDuration true = sDuration ∧
    determineType sDateRange true = sDateRange ∧ determineType sTimeRange true = sTimeRange ∧
    determineType sDateTimeRange true = sDateTimeRange ∧ determineType sSet true = sSet ∧
    determineType t false = t := by
  refine ⟨by decide, by decide, by decide, by decide, by decide, by decide, by decide, by decide, by simp [determineType]⟩

/-- … and a mismatching type name is rejected (the predicate is not vacuous). -/
example : typeNameOK (sPrefix ++ sDate) [⟨sDateRange, [], none, none, none⟩] = false := by decide

/-- Witnesses that the predicate rejects what the property forbids: an invalid calendar date, an invalid time, a pure
date range whose start is not before its end, a mismatching type name. -/
example : shapeOK ⟨sDate, [], some ("2019-02-30".toList.map Char.toNat), none, none⟩ = false := by decide
example : shapeOK ⟨sTime, [], some ("27:00:00".toList.map Char.toNat), none, none⟩ = false := by decide
example : shapeOK ⟨sDateRange, [], none, some ("2016-11-07".toList.map Char.toNat), some ("2016-11-07".toList.map Char.toNat)⟩ = false := by decide
example : shapeOK ⟨sDateRange, [], none, some ("2016-11-07".toList.map Char.toNat), some ("2016-11-14".toList.map Char.toNat)⟩ = true := by decide
example : typeNameOK ("datetimeV2.date".toList.map Char.toNat) [⟨sTime, [], none, none, none⟩] = false := by decide

theorem formatTime_ne_notResolved (h m s : Nat) : formatTime h m s ≠ sNotResolved := by
  intro hx
  have : (formatTime h m s).length = sNotResolved.length := by rw [hx]
  simp [formatTime, pad2, sNotResolved] at this

theorem formatDateTime_ne_notResolved (x : Date) (h m s : Nat) : formatDateTime x h m s ≠ sNotResolved := by
  intro hx
  have : (formatDateTime x h m s).length = sNotResolved.length := by rw [hx]
  simp [formatDateTime, formatDate, formatTime, pad4, pad2, sNotResolved] at this

/-- C11 (assembly, times): a time slot whose past / future values are `format_time` of times of day yields only valid
`HH:MM:SS` values. -/
theorem assembly_wellformed_time (timex : Str) (h₁ m₁ s₁ h₂ m₂ s₂ : Nat)
    (a₁ : h₁ < 24) (b₁ : m₁ < 60) (c₁ : s₁ < 60) (a₂ : h₂ < 24) (b₂ : m₂ < 60) (c₂ : s₂ < 60) :
    ∀ v ∈ resolveSingle sTime timex (formatTime h₁ m₁ s₁) (formatTime h₂ m₂ s₂), shapeOK v = true := by
  intro v hv
  rcases resolveSingle_mem _ _ _ _ v hv with h | h | h <;> subst h
  · simp [shapeOK, sTime, sDate, formatTime_ne_notResolved, parseTime_formatTime h₁ m₁ s₁ a₁ b₁ c₁]
  · simp [shapeOK, sTime, sDate, formatTime_ne_notResolved, parseTime_formatTime h₂ m₂ s₂ a₂ b₂ c₂]
  · simp [shapeOK]

/-- C11 (assembly, datetimes). -/
theorem assembly_wellformed_datetime (timex : Str) (x y : Date) (hx : x.valid = true) (hy : y.valid = true)
    (h₁ m₁ s₁ h₂ m₂ s₂ : Nat)
    (a₁ : h₁ < 24) (b₁ : m₁ < 60) (c₁ : s₁ < 60) (a₂ : h₂ < 24) (b₂ : m₂ < 60) (c₂ : s₂ < 60) :
    ∀ v ∈ resolveSingle sDateTime timex (formatDateTime x h₁ m₁ s₁) (formatDateTime y h₂ m₂ s₂), shapeOK v = true := by
  intro v hv
  rcases resolveSingle_mem _ _ _ _ v hv with h | h | h <;> subst h
  · simp [shapeOK, sTime, sDate, sDateTime, formatDateTime_ne_notResolved, parseDateTime_format x hx h₁ m₁ s₁ a₁ b₁ c₁]
  · simp [shapeOK, sTime, sDate, sDateTime, formatDateTime_ne_notResolved, parseDateTime_format y hy h₂ m₂ s₂ a₂ b₂ c₂]
  · simp [shapeOK]

theorem formatDate_not_invalid_prefix (x : Date) (h : x.valid = true) (hne : x ≠ ⟨1, 1, 1⟩) :
    startsWith (formatDate x) sInvalidDate = false := by
  have hp := parseDate_formatDate x h
  have hlen : (formatDate x).length = 10 := by simp [formatDate, pad4, pad2]
  cases hc : startsWith (formatDate x) sInvalidDate with
  | false => rfl
  | true =>
    exfalso
    have heq : formatDate x = minValue := by
      simp only [startsWith, sInvalidDate, decide_eq_true_eq] at hc
      have ht : (formatDate x).take 10 = formatDate x := List.take_of_length_le (by omega)
      simpa [minValue, ht] using hc
    rw [heq] at hp
    have h1 : parseDate minValue = some ⟨1, 1, 1⟩ := by decide
    rw [h1] at hp
    exact hne (Option.some.inj hp).symm

/-- C11 (assembly, pure date ranges): a date-range slot without modifier whose end points are `format_date` of valid
dates `a < b` (neither the minimum date) yields a value with both ends, start strictly before end. -/
theorem period_wellformed_daterange (timex : Str) (a b : Date) (ha : a.valid = true) (hb : b.valid = true)
    (hlt : a.ord < b.ord) (na : a ≠ ⟨1, 1, 1⟩) (nb : b ≠ ⟨1, 1, 1⟩) :
    ∃ v, periodValue sDateRange timex [] (some (formatDate a)) (some (formatDate b)) = some v ∧ shapeOK v = true := by
  have ia := formatDate_not_invalid_prefix a ha na
  have ib := formatDate_not_invalid_prefix b hb nb
  have hne : ∀ x : Date, formatDate x ≠ [] := by intro x; simp [formatDate, pad4]
  refine ⟨⟨sDateRange, timex, none, some (formatDate a), some (formatDate b)⟩, ?_, ?_⟩
  · simp [periodValue, addPeriod, sSince, hne, ia, ib]
  · simp [shapeOK, sDateRange, sDate, sTime, sDateTime, sDuration, parseDate_formatDate a ha, parseDate_formatDate b hb, hlt]

/-- the modifier strings behind which `__add_period_to_resolution` writes one end WITHOUT looking at it -/
def openMod (mod : Str) : Bool :=
  decide ((mod ≠ [] ∧ startsWith mod sBefore = true) ∨ (mod ≠ [] ∧ startsWith mod sAfter = true) ∨ mod = sSince)

/-- C11 ("a non-existent date yields 'not resolved', never an invalid value"): for EVERY modifier string that is not
`before…` / `after…` / `since` (none, `approx`, `until`, `start`, `end`, `less`, …) a range slot one of whose ends is
missing, empty, or starts with the invalid-date string contributes NO value — whichever end it is, whatever the other
end.  (Full statement — for every modifier — is false: `period_before_invalid_start_emitted` and the two theorems
after it.) -/
theorem period_invalid_end_filtered (outType timex mod : Str) (s e : Option Str) (hmod : openMod mod = false)
    (hbad : s = none ∨ e = none ∨ s = some [] ∨ e = some [] ∨
            (∃ t, s = some (sInvalidDate ++ t)) ∨ (∃ t, e = some (sInvalidDate ++ t))) :
    periodValue outType timex mod s e = none := by
  simp only [openMod, decide_eq_false_iff_not, not_or] at hmod
  obtain ⟨h1, h2, h3⟩ := hmod
  have hs : ∀ t, startsWith (sInvalidDate ++ t) sInvalidDate = true := by intro t; simp [startsWith, sInvalidDate, minValue]
  have hnn : ∀ t, sInvalidDate ++ t ≠ [] := by intro t; simp [sInvalidDate, minValue]
  unfold periodValue addPeriod
  rw [if_neg h1, if_neg h2, if_neg h3]
  rcases hbad with h | h | h | h | ⟨t, h⟩ | ⟨t, h⟩ <;> subst h
  · simp
  · cases s <;> simp
  · cases e <;> simp
  · cases s <;> simp
  · cases e with
    | none => simp
    | some b => by_cases hb : b = [] <;> simp [hs, hb, hnn]
  · cases s with
    | none => simp
    | some a => by_cases ha : a = [] <;> simp [hs, ha, hnn]

/-- … hence a range slot without such a modifier BOTH of whose readings (past, future) have an invalid end resolves to
the single value `'not resolved'`, type name included. -/
theorem period_slot_not_resolved (dtype timex mod t₁ t₂ : Str) (a b : Option Str) (hmod : openMod mod = false)
    (hd : dtype = sDateRange ∨ dtype = sTimeRange ∨ dtype = sDateTimeRange) :
    resolveSlot ⟨dtype, timex, mod, ⟨none, some (sInvalidDate ++ t₁), a, none⟩, ⟨none, b, some (sInvalidDate ++ t₂), none⟩⟩ false =
      some [⟨dtype, timex, some (some sNotResolved), none, none⟩] := by
  have h1 := period_invalid_end_filtered dtype timex mod (some (sInvalidDate ++ t₁)) a hmod (Or.inr (Or.inr (Or.inr (Or.inr (Or.inl ⟨t₁, rfl⟩)))))
  have h2 := period_invalid_end_filtered dtype timex mod b (some (sInvalidDate ++ t₂)) hmod (Or.inr (Or.inr (Or.inr (Or.inr (Or.inr ⟨t₂, rfl⟩)))))
  have e1 : addPeriod mod (some (sInvalidDate ++ t₁)) a = (none, none) := by
    unfold periodValue at h1
    generalize addPeriod mod (some (sInvalidDate ++ t₁)) a = r at h1 ⊢
    rcases r with ⟨_ | x, _ | y⟩ <;> simp_all
  have e2 : addPeriod mod b (some (sInvalidDate ++ t₂)) = (none, none) := by
    unfold periodValue at h2
    generalize addPeriod mod b (some (sInvalidDate ++ t₂)) = r at h2 ⊢
    rcases r with ⟨_ | x, _ | y⟩ <;> simp_all
  have g : ∀ r, (r = (⟨none, some (sInvalidDate ++ t₁), a, none⟩ : Resolution) ∨ r = ⟨none, b, some (sInvalidDate ++ t₂), none⟩) →
      generate dtype mod r = some {} := by
    intro r hr
    rcases hd with rfl | rfl | rfl <;> rcases hr with rfl | rfl <;>
      simp (config := {decide := true}) [generate, e1, e2]
  simp [resolveSlot, g, determineType, Fields.isEmpty, Fields.values]

/-- NEGATIVE (finding `sentinel:…`): behind `before` the START of the range is written as `end` whatever it is — the
`0001-01-01` marker of a date that does not exist is emitted, and unless the TIMEX itself names year 0001 the property's
predicate `sentinelOK` rejects the value.  (`shapeOK` alone accepts it: 0001-01-01 is a valid calendar date.) -/
theorem period_before_invalid_start_emitted (outType timex t : Str) (e : Option Str) :
    periodValue outType timex sBefore (some (sInvalidDate ++ t)) e = some ⟨outType, timex, none, none, some (sInvalidDate ++ t)⟩ ∧
    (hasSub timex [48, 48, 48, 49] = false → sentinelOK ⟨outType, timex, none, none, some (sInvalidDate ++ t)⟩ = false) := by
  refine ⟨by simp (config := {decide := true}) [periodValue, addPeriod], ?_⟩
  intro h
  simp [sentinelOK, h, sInvalidDate, minValue, sYear1]

/-- NEGATIVE: behind `after` the END of the range is written as `start` whatever it is. -/
theorem period_after_invalid_end_emitted (outType timex t : Str) (s : Option Str) :
    periodValue outType timex sAfter s (some (sInvalidDate ++ t)) = some ⟨outType, timex, none, some (sInvalidDate ++ t), none⟩ ∧
    (hasSub timex [48, 48, 48, 49] = false → sentinelOK ⟨outType, timex, none, some (sInvalidDate ++ t), none⟩ = false) := by
  refine ⟨by simp (config := {decide := true}) [periodValue, addPeriod], ?_⟩
  intro h
  simp [sentinelOK, h, sInvalidDate, minValue, sYear1]

/-- NEGATIVE: behind `since` the START of the range is written as `start` whatever it is. -/
theorem period_since_invalid_start_emitted (outType timex t : Str) (e : Option Str) :
    periodValue outType timex sSince (some (sInvalidDate ++ t)) e = some ⟨outType, timex, none, some (sInvalidDate ++ t), none⟩ ∧
    (hasSub timex [48, 48, 48, 49] = false → sentinelOK ⟨outType, timex, none, some (sInvalidDate ++ t), none⟩ = false) := by
  refine ⟨by simp (config := {decide := true}) [periodValue, addPeriod], ?_⟩
  intro h
  simp [sentinelOK, h, sInvalidDate, minValue, sYear1]

/-- the witness replayed on the implementation (`before February 30 to March 2`, harness `modifier_jobs`): the whole
assembly emits `{type: daterange, timex: (XXXX-02-30,XXXX-03-02,PXD), end: 0001-01-01}` and the predicate rejects it;
a missing start behind `before` is written as `end: None` (`by mid summer`). -/
theorem before_nonexistent_start_witness :
    let tx : Str := "(XXXX-02-30,XXXX-03-02,PXD)".toList.map Char.toNat
    let mar2 : Str := "2019-03-02".toList.map Char.toNat
    let slot : ASlot := ⟨sDateRange, tx, sBefore, ⟨none, some sInvalidDate, some mar2, none⟩, ⟨none, some sInvalidDate, some mar2, none⟩⟩
    resolveSlot slot true = some [⟨sDateRange, tx, none, none, some (some sInvalidDate)⟩] ∧
    sentinelOK (⟨sDateRange, tx, none, none, some (some sInvalidDate)⟩ : AValue).toValue = false ∧
    resolveSlot ⟨sDateRange, [83, 85], sBefore, ⟨none, none, none, none⟩, ⟨none, none, none, none⟩⟩ true =
      some [⟨sDateRange, [83, 85], none, none, some none⟩] ∧
    shapeOK (⟨sDateRange, [83, 85], none, none, some none⟩ : AValue).toValue = false := by
  decide

/-! ### durations -/

theorem isNumber_natStr (k : Nat) : isNumber (natStr k) = true := by
  have hs := span_all_digits (natStr k) (natStr_all k)
  have hne : natStr k ≠ [] := (natDigits_spec (k + 1) k (by omega)).2.1
  simp [isNumber, hs, hne]

theorem natStr_ne_notResolved (k : Nat) : natStr k ≠ sNotResolved := by
  intro h
  have := natStr_digits k 110 (by rw [h]; decide)
  simp [isDigit] at this

theorem durationSeconds_pt (n k u : Nat)
    (hu : (if u = 72 then some 3600 else if u = 77 then some 60 else if u = 83 then some 1 else none) = some k)
    (hud : isDigit u = false) (hu46 : u ≠ 46) :
    durationSeconds ([80, 84] ++ natStr n ++ [u]) = some (n * k, 1) := by
  have hc := ptSeconds_component ((natStr n ++ [u]).length + 3) n k u [] 0 hu hud hu46 (ptSeconds_nil _)
  have hne : natStr n ++ [u] ≠ [] := by simp
  simp only [List.cons_append, List.nil_append, durationSeconds, hne, if_false]
  simpa using hc

theorem durationSeconds_day_week (n : Nat) :
    durationSeconds (durationTimex n [68]) = some (n * 86400, 1) ∧ durationSeconds (durationTimex n [87]) = some (n * 604800, 1) := by
  obtain ⟨-, -, -, hD, hW, -, -⟩ := duration_timex_reads_back n
  have hne : natStr n ≠ [] := (natDigits_spec (n + 1) n (by omega)).2.1
  obtain ⟨a, t, hs⟩ := List.exists_cons_of_ne_nil hne
  have ha : a ≠ 84 := by
    have := natStr_digits n a (by simp [hs]); simp [isDigit] at this; omega
  constructor
  · have e : durationTimex n [68] = 80 :: a :: (t ++ [68]) := by simp [durationTimex, hs]
    rw [e] at hD ⊢
    unfold durationSeconds
    split
    · rename_i h; simp at h; exact absurd h.1 ha
    · simp [hD]
  · have e : durationTimex n [87] = 80 :: a :: (t ++ [87]) := by simp [durationTimex, hs]
    rw [e] at hW ⊢
    unfold durationSeconds
    split
    · rename_i h; simp at h; exact absurd h.1 ha
    · simp [hW]

/-- a duration value `str(k)` under a TIMEX that denotes `k` seconds satisfies the whole predicate -/
theorem duration_value_ok (timex : Str) (k : Nat) (h : durationSeconds timex = some (k, 1)) :
    wellFormed (sPrefix ++ sDuration) [⟨sDuration, timex, some (natStr k), none, none⟩] = true := by
  have e : (sDuration = sDate) = False := by decide
  have e2 : (sDuration = sTime) = False := by decide
  have e3 : (sDuration = sDateTime) = False := by decide
  simp [wellFormed, typeNameOK, shapeOK, definiteOK, natStr_ne_notResolved, e, e2, e3, isNumber_natStr, h, amount_natStr]

/-- C11 (definite TIMEX ⇒ value equals it, durations): for every `N` and each unit with a fixed length, the TIMEX
`P[T]N<U>` the duration parser writes and the value `N × seconds(U)` it writes next to it satisfy the predicate (a number
of seconds, equal to the seconds the TIMEX denotes). -/
theorem definite_duration_value (n : Nat) :
    wellFormed (sPrefix ++ sDuration) [⟨sDuration, durationTimex n [83], some (natStr (n * 1)), none, none⟩] = true ∧
    wellFormed (sPrefix ++ sDuration) [⟨sDuration, durationTimex n [77], some (natStr (n * 60)), none, none⟩] = true ∧
    wellFormed (sPrefix ++ sDuration) [⟨sDuration, durationTimex n [72], some (natStr (n * 3600)), none, none⟩] = true ∧
    wellFormed (sPrefix ++ sDuration) [⟨sDuration, durationTimex n [68], some (natStr (n * 86400)), none, none⟩] = true ∧
    wellFormed (sPrefix ++ sDuration) [⟨sDuration, durationTimex n [87], some (natStr (n * 604800)), none, none⟩] = true := by
  have hS : durationTimex n [83] = [80, 84] ++ natStr n ++ [83] := by simp [durationTimex]
  have hM : durationTimex n [77] = [80, 84] ++ natStr n ++ [77] := by simp [durationTimex]
  have hH : durationTimex n [72] = [80, 84] ++ natStr n ++ [72] := by simp [durationTimex]
  obtain ⟨hD, hW⟩ := durationSeconds_day_week n
  refine ⟨?_, ?_, ?_, duration_value_ok _ _ hD, duration_value_ok _ _ hW⟩
  · exact duration_value_ok _ _ (hS ▸ durationSeconds_pt n 1 83 (by decide) (by decide) (by decide))
  · exact duration_value_ok _ _ (hM ▸ durationSeconds_pt n 60 77 (by decide) (by decide) (by decide))
  · exact duration_value_ok _ _ (hH ▸ durationSeconds_pt n 3600 72 (by decide) (by decide) (by decide))

/-- … and the predicate is not vacuous on durations: another number of seconds, a signed number, a word are rejected
(audit: `{duration, PT1H, '7200'}` used to pass; `-3 days` → `P-3D` / `-259200` is finding `shape:…`). -/
example : definiteOK ⟨sDuration, "PT1H".toList.map Char.toNat, some ("7200".toList.map Char.toNat), none, none⟩ = false := by decide
example : definiteOK ⟨sDuration, "PT1.5H".toList.map Char.toNat, some ("5400".toList.map Char.toNat), none, none⟩ = true := by decide
example : definiteOK ⟨sDuration, "PT1H30M".toList.map Char.toNat, some ("5400".toList.map Char.toNat), none, none⟩ = true := by decide
example : definiteOK ⟨sDuration, "P2W".toList.map Char.toNat, some ("1209600.5".toList.map Char.toNat), none, none⟩ = false := by decide
example : shapeOK ⟨sDuration, "P-3D".toList.map Char.toNat, some ("-259200".toList.map Char.toNat), none, none⟩ = false := by decide
example : shapeOK ⟨sDuration, "P3D".toList.map Char.toNat, some ("259200".toList.map Char.toNat), none, none⟩ = true := by decide

/-- C11 (open ranges): with a `before` / `after` / `since` modifier exactly one end is written. -/
theorem period_modifier_one_end (s e : Option Str) :
    addPeriod sBefore s e = (none, some s) ∧ addPeriod sAfter s e = (some e, none) ∧ addPeriod sSince s e = (some s, none) := by
  refine ⟨by simp [addPeriod, startsWith, endsWith, sBefore, sLate], by simp [addPeriod, startsWith, endsWith, sAfter, sBefore, sEarly], ?_⟩
  simp [addPeriod, startsWith, sSince, sBefore, sAfter]

end RTV.WF
