import RTV.Lemmas.WellFormed
/-!
# C11 — every resolved date-time value is well formed and agrees with its TIMEX

`RTV.WF.wellFormed` (in `RTV/Model/WellFormed.lean`) is the property's predicate on the *observable* output; the
check evaluates it (through the compiled driver) on every entity the real date-time model returns. The theorems
below say that what the resolution **assembly** of `BaseMergedParser` emits for date / time / datetime slots built
from `datetime` objects satisfies that predicate — for every valid date 0001..9999 and every time of day — so the
predicate is not vacuous and a failure on the implementation is a failure of code these theorems do not cover
(parsers that build value strings by concatenation, period parsers, CJK parsers, holidays: monitored only).
-/
namespace RTV.WF
open RTV.Cal

/-- `format_date` of any valid date is a well-formed `YYYY-MM-DD` naming that date. -/
theorem format_date_wellformed (x : Date) (h : x.valid = true) : parseDate (formatDate x) = some x :=
  parseDate_formatDate x h

/-- `format_time` of any time of day is a well-formed `HH:MM:SS`. -/
theorem format_time_wellformed (h m s : Nat) (hh : h < 24) (hm : m < 60) (hs : s < 60) :
    parseTime (formatTime h m s) = some (h * 3600 + m * 60 + s) :=
  parseTime_formatTime h m s hh hm hs

theorem format_datetime_wellformed (x : Date) (hv : x.valid = true) (h m s : Nat) (hh : h < 24) (hm : m < 60)
    (hs : s < 60) : parseDateTime (formatDateTime x h m s) = some (x, h * 3600 + m * 60 + s) :=
  parseDateTime_format x hv h m s hh hm hs

/-- The minimum date never reaches the output: `__add_single_date_time_to_resolution` drops a value that starts with
`0001-01-01`, and a slot with nothing left resolves to the single value `'not resolved'`. -/
theorem min_value_filtered (outType timex : Str) (t₁ t₂ : Str) :
    resolveSingle outType timex (minValue ++ t₁) (minValue ++ t₂) = [⟨outType, timex, some sNotResolved, none, none⟩] := by
  simp [resolveSingle, addSingle, startsWith, minValue]

theorem formatDate_ne_notResolved (x : Date) : formatDate x ≠ sNotResolved := by
  intro hx
  have : (formatDate x).length = sNotResolved.length := by rw [hx]
  simp [formatDate, pad4, pad2, sNotResolved] at this

/-- every value `_date_time_resolution` emits for such a slot is the past value, the future value or `'not resolved'` -/
theorem resolveSingle_mem (outType timex p f : Str) (v : Value) (hv : v ∈ resolveSingle outType timex p f) :
    v = ⟨outType, timex, some p, none, none⟩ ∨ v = ⟨outType, timex, some f, none, none⟩ ∨
      v = ⟨outType, timex, some sNotResolved, none, none⟩ := by
  unfold resolveSingle at hv
  simp only [addSingle] at hv
  split at hv <;> (try split at hv) <;> simp_all
  rcases hv with hv | hv
  · exact Or.inl hv
  · exact Or.inr (Or.inl hv)

/-- C11 (assembly, dates): a date slot whose past and future values are `format_date` of valid dates yields only
values that are valid calendar dates (or `'not resolved'`) — whatever the TIMEX. -/
theorem assembly_wellformed_date (timex : Str) (p f : Date) (hp : p.valid = true) (hf : f.valid = true) :
    ∀ v ∈ resolveSingle sDate timex (formatDate p) (formatDate f), shapeOK v = true := by
  intro v hv
  rcases resolveSingle_mem _ _ _ _ v hv with h | h | h <;> subst h
  · simp [shapeOK, formatDate_ne_notResolved, parseDate_formatDate p hp]
  · simp [shapeOK, formatDate_ne_notResolved, parseDate_formatDate f hf]
  · simp [shapeOK]

/-- C11 (definite TIMEX ⇒ value equals it): when the TIMEX of a date slot is `luis_date y m d` of a valid date, the
value emitted for that same date is identical to the TIMEX. -/
theorem definite_timex_value_date (x : Date) (h : x.valid = true) :
    definiteOK ⟨sDate, formatDate x, some (formatDate x), none, none⟩ = true := by
  simp [definiteOK, formatDate_ne_notResolved, parseDate_formatDate x h]

/-- … and a value that differs from a definite TIMEX is rejected by the predicate (the predicate is not vacuous). -/
example : definiteOK ⟨sDate, formatDate ⟨2019, 5, 5⟩, some (formatDate ⟨2019, 5, 6⟩), none, none⟩ = false := by decide

/-- C11 (type name): the entity's type name and the `type` of its values are produced by the same function of the
slot type and the modifier flags, so they agree. -/
theorem type_name_agrees (dtype : Str) (hasMod : Bool) (timex : Str) (val : Option Str) :
    typeNameOK (sPrefix ++ determineType dtype hasMod) [⟨determineType dtype hasMod, timex, val, none, none⟩] = true := by
  simp [typeNameOK]

/-- Witnesses that the predicate rejects what the property forbids: an invalid calendar date, an invalid time, a pure
date range whose start is not before its end, a mismatching type name. -/
example : shapeOK ⟨sDate, [], some ("2019-02-30".toList.map Char.toNat), none, none⟩ = false := by decide
example : shapeOK ⟨sTime, [], some ("27:00:00".toList.map Char.toNat), none, none⟩ = false := by decide
example : shapeOK ⟨sDateRange, [], none, some ("2016-11-07".toList.map Char.toNat), some ("2016-11-07".toList.map Char.toNat)⟩ = false := by decide
example : shapeOK ⟨sDateRange, [], none, some ("2016-11-07".toList.map Char.toNat), some ("2016-11-14".toList.map Char.toNat)⟩ = true := by decide
example : typeNameOK ("datetimeV2.date".toList.map Char.toNat) [⟨sTime, [], none, none, none⟩] = false := by decide

end RTV.WF
