import RTV.Lemmas.SpecDecA
import RTV.Lemmas.SpecDecA0
import RTV.Lemmas.SpecDecB0
import RTV.Lemmas.SpecDecD0
import RTV.Lemmas.SpecDecB
import RTV.Lemmas.SpecDecC
import RTV.Lemmas.SpecDecD
import RTV.Lemmas.SpecDecE
import RTV.Lemmas.SpecDecF
import RTV.Lemmas.SpecDecG
import RTV.Lemmas.SpecDecH
import RTV.Lemmas.SpecDecI
/-!
# C19 (through the model) — the Specs cases of the families the models cover end to end

`RTV.Gen.specCases_*` are regenerated on every run from /repo/Specs (Python-supported cases of
`Sequence/*/IpAddressModel*.json`, `GUIDModel*.json`, `HashtagModel*.json`, `MentionModel*.json`, `EmailModel*.json`,
`URLModel*.json` (English and the cultures routed to the Chinese configuration), `Choice/English/BooleanModel*.json`), each
with EVERY field the Specs state for a result: TypeName, Text, Start / End where given (17 URL cases per configuration),
and every key of Resolution (`value`; `type` for IP; `score` for GUID and boolean).  This is the comparison the property
states ("same count and order, text, type, offsets where given, and resolution fields") — more than the repository's
own runner makes (count, TypeName, Text, Resolution.value, and the score for the sequence models; never Start / End,
never Resolution.type, never the boolean score).

The theorems say that the **model** — `RTV.Seq` / `RTV.Choice` on the regenerated regexes and the runtime tables, run
as `IpAddressModel.parse` / `GUIDModel.parse` / `AbstractSequenceModel.parse` / `BooleanModel.parse` run the code,
building the whole `ModelResult` (`RTV.Seq.SpecEnt`: type name, text, start, end, the resolution dict) — produces what
each case expects (`entsAgree`: count, order, every stated field).  `harness/lib/c19model.py` checks
`implementation = model` on the same inputs, on all of these fields; together: implementation = spec, with the model as
kernel-checked intermediary.

The boolean score is a float: the model computes it as an exact fraction and it is compared with the decimal text the
Specs state within 1e-9 (`valAgree`; the implementation's float rounding is not modelled; the correspondence compares
the implementation's float with the same fraction, and with the Specs text exactly).

Two families did NOT meet the full statement before two one-line fixes of /repo, in one resolution field each (both
variants of the code are modelled; the check probes which one the tree follows; the statements about the code before
the fixes are kept as labelled regressions at the end):
* IP: the Specs state `Resolution.type` (`ipv4` / `ipv6`) for every entity; `IpAddressModel.get_resolution` built
  `{'value', 'score': str(None)}` — no `type` key at all.  Finding `spec-field:IpAddress:Resolution.type:absent`,
  fixed by /repo a7314f077 (`findings/specs-fields/ip-resolution-type.diff`).
* boolean: the Specs state the extractor's score (`1.0`, `0.5`, `0.64` …); `ChoiceParser.parse` built a NEW
  `ChoiceExtractDataResult(ext_result.data)` and read its default score, so `recognize_boolean` reported `0.0` for every
  entity.  Finding `spec-field:Boolean:Resolution.score:0.0`, fixed by
  /repo aeefbdd20 (`findings/specs-fields/boolean-score-from-extractor.diff`).
Neither field is compared by the repository's runner, which is why its spec suite passed all along.
-/
namespace RTV.C19
open RTV.Seq RTV.Gen RTV.Py

/- `FamilyAgrees skip run cases` (RTV/Lemmas/SpecRun.lean): for every case the recogniser returns (no exception)
entities that agree with the expected ones in count, order, type name, text, offsets where given and every resolution
field the case states, the keys in `skip` excepted (`entsAgree`). -/

/-- every supported English `IpAddressModel` case, every stated field: count, order, type name, text,
`Resolution.value` and `Resolution.type` -/
theorem spec_ip_cases : FamilyAgrees [] (fun q => some (ipModelRun genSeqEnv false true q)) specCases_ipEn := by
  have h : ipOK genSeqEnv false specCases_ipEn = true := by rw [← fastSeqEnv_eq]; exact spec_ip_en_fast
  exact ipOK_spec _ _ _ h

/-- every supported `IpAddressModel` case of the cultures routed to the Chinese configuration (zh-*, ja-*), every
stated field -/
theorem spec_ip_cases_zh : FamilyAgrees [] (fun q => some (ipModelRun genSeqEnv true true q)) specCases_ipZh := by
  have h : ipOK genSeqEnv true specCases_ipZh = true := by rw [← fastSeqEnv_eq]; exact spec_ip_zh_fast
  exact ipOK_spec _ _ _ h

/-- every supported `GUIDModel` case, every stated field: type name, text, `Resolution.value`, `Resolution.score`
(the text `'%g' % score`) -/
theorem spec_guid_cases : FamilyAgrees [] (fun q => some (guidModelRun genSeqEnv q)) specCases_guid := by
  have h : guidOK genSeqEnv specCases_guid = true := by rw [← fastSeqEnv_eq]; exact spec_guid_fast
  exact guidOK_spec _ _ h

/-- every supported English `BooleanModel` case, every stated field: no exception; count, order, type name, text,
`Resolution.value`, and `Resolution.score` (the extractor's score as an exact fraction, within 1e-9 of the stated
decimal) -/
theorem spec_boolean_cases : FamilyAgrees [] (boolModelRun RTV.Choice.genEnv) specCases_bool := by
  have h : boolOK RTV.Choice.genEnv specCases_bool = true := by rw [← RTV.Choice.fastEnv_eq]; exact spec_bool_fast
  exact boolOK_spec _ _ h

/-- every supported English `HashtagModel` case, every stated field -/
theorem spec_hashtag_cases : FamilyAgrees []
    (fun q => some (simpleModelRun genSeqEnv hashtagRegex (ofString "hashtag") q)) specCases_hashtag := by
  have h : simpleOK genSeqEnv hashtagRegex (ofString "hashtag") specCases_hashtag = true := by
    rw [← fastSeqEnv_eq]; exact spec_hashtag_fast
  exact simpleOK_spec _ _ _ _ h

/-- every supported English `MentionModel` case, every stated field -/
theorem spec_mention_cases : FamilyAgrees []
    (fun q => some (simpleModelRun genSeqEnv mentionRegex (ofString "mention") q)) specCases_mention := by
  have h : simpleOK genSeqEnv mentionRegex (ofString "mention") specCases_mention = true := by
    rw [← fastSeqEnv_eq]; exact spec_mention_fast
  exact simpleOK_spec _ _ _ _ h

/-- every supported English `EmailModel` case, every stated field -/
theorem spec_email_cases : FamilyAgrees []
    (fun q => some (simpleModelRun genSeqEnv emailRegex (ofString "email") q)) specCases_email := by
  have h : simpleOK genSeqEnv emailRegex (ofString "email") specCases_email = true := by
    rw [← fastSeqEnv_eq]; exact spec_email_fast
  exact simpleOK_spec _ _ _ _ h

/-- every supported English `URLModel` case (three regexes, TLD check, ambiguous time terms, sweep), every stated
field — Start and End included where the case gives them -/
theorem spec_url_cases : FamilyAgrees [] (fun q => some (urlSpecRun genSeqEnv false q)) specCases_urlEn := by
  have h : urlSpecOK genSeqEnv false specCases_urlEn = true := by
    rw [← fastSeqEnv_eq]
    exact all_take_drop _ _ 23 spec_url_en_a_fast spec_url_en_b_fast
  exact urlSpecOK_spec _ _ _ h

/-- every supported `URLModel` case of the cultures routed to the Chinese configuration (zh-*, ja-*), every stated
field — Start and End included where the case gives them -/
theorem spec_url_cases_zh : FamilyAgrees [] (fun q => some (urlSpecRun genSeqEnv true q)) specCases_urlZh := by
  have h : urlSpecOK genSeqEnv true specCases_urlZh = true := by
    rw [← fastSeqEnv_eq]
    exact all_take_drop _ _ 21 spec_url_zh_a_fast spec_url_zh_b_fast
  exact urlSpecOK_spec _ _ _ h

/-- the case lists are not empty (the obligations are not vacuous) -/
theorem spec_case_counts : specCases_ipEn.length ≥ 30 ∧ specCases_ipZh.length ≥ 30 ∧ specCases_guid.length ≥ 10 ∧
    specCases_bool.length ≥ 10 ∧ specCases_hashtag.length ≥ 5 ∧ specCases_mention.length ≥ 5 ∧
    specCases_email.length ≥ 10 ∧ specCases_urlEn.length ≥ 30 ∧ specCases_urlZh.length ≥ 30 := by decide

/-- … and they state the fields the theorems are about: expected entities with offsets (URL), with a `type` (IP),
with a score (GUID, boolean) -/
theorem spec_field_counts :
    (specCases_urlEn.flatMap (·.2)).countP (fun e => e.2.2.1.isSome && e.2.2.2.1.isSome) ≥ 10 ∧
    (specCases_urlZh.flatMap (·.2)).countP (fun e => e.2.2.1.isSome && e.2.2.2.1.isSome) ≥ 10 ∧
    (specCases_ipEn.flatMap (·.2)).countP (fun e => (lookupKey kType e.2.2.2.2).isSome) ≥ 15 ∧
    (specCases_guid.flatMap (·.2)).countP (fun e => (lookupKey kScore e.2.2.2.2).isSome) ≥ 10 ∧
    (specCases_bool.flatMap (·.2)).countP (fun e => (lookupKey kScore e.2.2.2.2).isSome) ≥ 10 := by decide +kernel

/-! ### regressions: the code before the two fixes (`ipModelRun … typed := false`, `genEnvPreFix3`) -/

/-- REGRESSION (before /repo a7314f077, `ip-resolution-type.diff`): every stated field of the English IP cases agreed except
`Resolution.type` … -/
theorem prefix_spec_ip_cases_partial :
    FamilyAgrees [kType] (fun q => some (ipModelRun genSeqEnv false false q)) specCases_ipEn := by
  have h : ipPreFixOK genSeqEnv false specCases_ipEn = true := by rw [← fastSeqEnv_eq]; exact spec_ip_en_prefix_fast
  exact (ipPreFixOK_spec _ _ _ h).1

/-- REGRESSION (finding `spec-field:IpAddress:Resolution.type:absent`): … every expected entity of every English IP
case states `Resolution.type`, and no entity the pre-fix model (= code) reported carried a `type` key; e.g. `1.1.1.1`:
expected `{'value': '1.1.1.1', 'type': 'ipv4'}`, reported `{'value': '1.1.1.1', 'score': 'None'}` -/
theorem prefix_spec_ip_type_absent : ∀ c ∈ specCases_ipEn,
    (∀ e ∈ c.2, (lookupKey kType e.2.2.2.2).isSome = true) ∧
    ∀ x ∈ ipModelRun genSeqEnv false false c.1, lookupKey kType x.res = none := by
  have h : ipPreFixOK genSeqEnv false specCases_ipEn = true := by rw [← fastSeqEnv_eq]; exact spec_ip_en_prefix_fast
  exact (ipPreFixOK_spec _ _ _ h).2

/-- REGRESSION: the same two statements for the cultures routed to the Chinese configuration -/
theorem prefix_spec_ip_zh : FamilyAgrees [kType] (fun q => some (ipModelRun genSeqEnv true false q)) specCases_ipZh ∧
    ∀ c ∈ specCases_ipZh, (∀ e ∈ c.2, (lookupKey kType e.2.2.2.2).isSome = true) ∧
      ∀ x ∈ ipModelRun genSeqEnv true false c.1, lookupKey kType x.res = none := by
  have h : ipPreFixOK genSeqEnv true specCases_ipZh = true := by rw [← fastSeqEnv_eq]; exact spec_ip_zh_prefix_fast
  exact ipPreFixOK_spec _ _ _ h

/-- REGRESSION (before /repo aeefbdd20, `boolean-score-from-extractor.diff`): every stated field of the boolean cases agreed except
`Resolution.score` … -/
theorem prefix_spec_boolean_cases_partial :
    FamilyAgrees [kScore] (boolModelRun RTV.Choice.genEnvPreFix3) specCases_bool := by
  have h : boolPreFixOK RTV.Choice.genEnvPreFix3 specCases_bool = true := by
    rw [← RTV.Choice.fastEnvPreFix3_eq]; exact spec_bool_prefix_fast
  exact (boolPreFixOK_spec _ _ h).1

/-- REGRESSION (finding `spec-field:Boolean:Resolution.score:0.0`): … and for every entity of every boolean case the
Specs state a score while the reported one (`0.0`, the default of a freshly built `ChoiceExtractDataResult`) is not
within 1e-9 of it; e.g. `Sure!`: expected `1.0`, reported `0.0` -/
theorem prefix_spec_boolean_score_differs : ∀ c ∈ specCases_bool, ∃ m,
    boolModelRun RTV.Choice.genEnvPreFix3 c.1 = some m ∧
    ∀ p ∈ m.zip c.2, ∃ v e, lookupKey kScore p.1.res = some v ∧ lookupKey kScore p.2.2.2.2.2 = some e ∧
      valAgree v e = false := by
  have h : boolPreFixOK RTV.Choice.genEnvPreFix3 specCases_bool = true := by
    rw [← RTV.Choice.fastEnvPreFix3_eq]; exact spec_bool_prefix_fast
  exact (boolPreFixOK_spec _ _ h).2

end RTV.C19
