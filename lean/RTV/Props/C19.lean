import RTV.Lemmas.SpecDecA
import RTV.Lemmas.SpecDecB
import RTV.Lemmas.SpecDecC
import RTV.Lemmas.SpecDecD
import RTV.Lemmas.SpecDecE
import RTV.Lemmas.SpecDecF
import RTV.Lemmas.SpecDecG
import RTV.Lemmas.SpecDecH
import RTV.Lemmas.SpecDecI
/-!
# C19 (through the model) — the Specs cases of the families the models cover end to end

`RTV.Gen.specCases_*` are regenerated on every run from /repo/Specs (Python-supported cases of
`Sequence/*/IpAddressModel*.json`, `GUIDModel*.json`, `HashtagModel*.json`, `MentionModel*.json`, `EmailModel*.json`,
`URLModel*.json` (English and the cultures routed to the Chinese configuration), `Choice/English/BooleanModel*.json`), each with the
fields the repository's own runner compares: number of results, TypeName, Text, Resolution.value and, for the sequence
runner, Resolution.score when the spec states it.  The theorems say that the **model** — `RTV.Seq` / `RTV.Choice` on
the regenerated regexes and the runtime tables, run as `IpAddressModel.parse` / `GUIDModel.parse` / `BooleanModel.parse`
run the code (no preprocessing for IP, `QueryProcessor.preprocess` for GUID, `str.lower` inside the choice extractor) —
produces exactly what each case expects.  `harness/lib/c19model.py` checks `implementation = model` on the same
inputs; together: implementation = spec, with the model as kernel-checked intermediary.

(The boolean spec cases state scores such as `1.0` / `0.5`; `recognize_boolean` reports `0.0` for every entity — see
`RTV.C20.reported_score_unit_interval` — and the repository's choice runner does not compare the score.  It is not
part of the obligation here either; the difference is recorded in the C20 report.)
-/
namespace RTV.C19
open RTV.Seq RTV.Gen

/-- every supported English `IpAddressModel` case: the model's entities are the expected ones -/
theorem spec_ip_cases : ipOK genSeqEnv false specCases_ipEn = true := by
  rw [← fastSeqEnv_eq]; exact spec_ip_en_fast

/-- every supported `IpAddressModel` case of the cultures routed to the Chinese configuration (zh-*, ja-*) -/
theorem spec_ip_cases_zh : ipOK genSeqEnv true specCases_ipZh = true := by
  rw [← fastSeqEnv_eq]; exact spec_ip_zh_fast

/-- every supported `GUIDModel` case, score string (`'%g'`) included where the spec states it -/
theorem spec_guid_cases : guidOK genSeqEnv specCases_guid = true := by
  rw [← fastSeqEnv_eq]; exact spec_guid_fast

/-- every supported English `BooleanModel` case (type name, text, value — the runner's comparison) -/
theorem spec_boolean_cases : boolOK RTV.Choice.genEnv specCases_bool = true := by
  rw [← RTV.Choice.fastEnv_eq]; exact spec_bool_fast

/-- every supported English `HashtagModel` case -/
theorem spec_hashtag_cases :
    simpleOK genSeqEnv hashtagRegex (RTV.Py.ofString "hashtag") specCases_hashtag = true := by
  rw [← fastSeqEnv_eq]; exact spec_hashtag_fast

/-- every supported English `MentionModel` case -/
theorem spec_mention_cases :
    simpleOK genSeqEnv mentionRegex (RTV.Py.ofString "mention") specCases_mention = true := by
  rw [← fastSeqEnv_eq]; exact spec_mention_fast

/-- every supported English `EmailModel` case -/
theorem spec_email_cases :
    simpleOK genSeqEnv emailRegex (RTV.Py.ofString "email") specCases_email = true := by
  rw [← fastSeqEnv_eq]; exact spec_email_fast

/-- every supported English `URLModel` case (three regexes, TLD check, ambiguous time terms, sweep) -/
theorem spec_url_cases : urlSpecOK genSeqEnv false specCases_urlEn = true := by
  rw [← fastSeqEnv_eq]
  exact all_take_drop _ _ 23 spec_url_en_a_fast spec_url_en_b_fast

/-- every supported `URLModel` case of the cultures routed to the Chinese configuration (zh-*, ja-*) -/
theorem spec_url_cases_zh : urlSpecOK genSeqEnv true specCases_urlZh = true := by
  rw [← fastSeqEnv_eq]
  exact all_take_drop _ _ 21 spec_url_zh_a_fast spec_url_zh_b_fast

/-- the case lists are not empty (the obligations are not vacuous) -/
theorem spec_case_counts : specCases_ipEn.length ≥ 30 ∧ specCases_ipZh.length ≥ 30 ∧ specCases_guid.length ≥ 10 ∧
    specCases_bool.length ≥ 10 ∧ specCases_hashtag.length ≥ 5 ∧ specCases_mention.length ≥ 5 ∧
    specCases_email.length ≥ 10 ∧ specCases_urlEn.length ≥ 30 ∧ specCases_urlZh.length ≥ 30 := by decide

end RTV.C19
