import RTV.Lemmas.Span
import RTV.Lemmas.Merged
/-!
# C12 — entities returned by one call never overlap

Property theorems about `RTV.Model.Span`. The regex engine is a parameter: the sweep theorems hold for **any**
list of match spans, the `merge_all_tokens` theorem for any token list, the `add_to` theorem for any
destination / source lists. Where the code does not have the property (`add_to`, the NumberWithUnit
containment filter in one direction, the negative-number widening) the exact guard is a hypothesis and a
concrete witness is proved by `decide`; the correspondence replays the witnesses on the implementation and
monitors the guards on every recorded call.
-/
namespace RTV.Span
open RTV.Py

theorem pairwise_disjoint_of_ordered {l : List ER} (h : l.Pairwise (fun a b => a.start + a.len ≤ b.start)) :
    l.Pairwise Disjoint := h.imp (fun h => Or.inl h)

/-- the scan itself: maximal runs are non-empty, inside `[0, n]` and separated by an unmarked position —
for any marking. -/
theorem runs_disjoint (f : Nat → Bool) (n : Nat) :
    (runs f n).Pairwise (fun a b => a.1 + a.2 < b.1) ∧ ∀ p ∈ runs f n, 0 < p.2 ∧ p.1 + p.2 ≤ n :=
  ⟨runs_separated f n, runs_bounds f n⟩

/-- C12 `SequenceExtractor.extract` (phone, e-mail, URL, GUID, mention, hashtag): for every source string and
every list of regex matches the results come in order and are pairwise disjoint. -/
theorem sweep_disjoint (sp : Nat → Bool) (src : Str) (ms : List M) :
    (seqExtract sp src ms).Pairwise (fun a b => a.start + a.len ≤ b.start) ∧
    (seqExtract sp src ms).Pairwise Disjoint := by
  have h : (seqExtract sp src ms).Pairwise (fun a b => a.start + a.len ≤ b.start) := by
    rw [seqExtract_eq]
    split
    · simp
    · apply pairwise_filterMap_runs _ _ (runs_separated _ _)
      · intro p _ e he
        have := seqOne_span sp src ms p e he
        omega
      · intro p _ q _ hlt e he
        have := seqOne_span sp src ms q e he
        omega
  exact ⟨h, pairwise_disjoint_of_ordered h⟩

/-- C12 `BaseIpExtractor.extract`, for any `::` guard. -/
theorem sweep_disjoint_ip (sp : Nat → Bool) (skip : Nat → Nat → Bool) (src : Str) (ms : List M) :
    (ipExtractWith sp skip src ms).Pairwise (fun a b => a.start + a.len ≤ b.start) ∧
    (ipExtractWith sp skip src ms).Pairwise Disjoint := by
  have h : (ipExtractWith sp skip src ms).Pairwise (fun a b => a.start + a.len ≤ b.start) := by
    rw [ipExtractWith_eq]
    split
    · simp
    · apply pairwise_filterMap_runs _ _ (runs_separated _ _)
      · intro p _ e he
        split at he
        · cases he
        · have := seqOne_span sp src ms p e he
          omega
      · intro p _ q _ hlt e he
        split at he
        · cases he
        · have := seqOne_span sp src ms q e he
          omega
  exact ⟨h, pairwise_disjoint_of_ordered h⟩

/-- C12 `BaseNumberExtractor.extract` with negative-term widening: disjoint whenever each negative-term match
lies in `source[0:start]` (`NegInside`, what `regex.search` on that slice returns) and does not reach back
into an earlier run (`NegClear`, monitored by the correspondence on every recorded call). -/
theorem sweep_disjoint_number (sp : Nat → Bool) (src : Str) (ms : List M) (neg : Nat → Option (Nat × Nat))
    (ambs : List (List (Nat × Nat))) (h1 : NegInside neg) (h2 : NegClear neg (runs (matchedAt ms) src.length)) :
    (numExtract sp src ms neg ambs).Pairwise (fun a b => a.start + a.len ≤ b.start) ∧
    (numExtract sp src ms neg ambs).Pairwise Disjoint := by
  have h : (numExtract sp src ms neg ambs).Pairwise (fun a b => a.start + a.len ≤ b.start) := by
    refine List.Pairwise.sublist (numExtract_sublist sp src ms neg ambs) ?_
    apply pairwise_filterMap_runs _ _ (runs_separated _ _)
    · intro p hp e he
      exact (numOne_span sp src ms neg h1 p (runs_bounds _ _ p hp) e he).2.1
    · intro p hp q hq hlt e he
      have hs := numOne_span sp src ms neg h1 q (runs_bounds _ _ q hq) e he
      cases hn : neg q.1 with
      | none => have := hs.2.2.2.2.1 hn; omega
      | some ab =>
        obtain ⟨a, b⟩ := ab
        have h3 := hs.2.2.2.2.2 a b hn
        have h4 := h2 q.1 a b hn p hp (by omega)
        omega
  exact ⟨h, pairwise_disjoint_of_ordered h⟩

/-- extractors without negative terms (ordinal, CJK, fraction …): unconditional. -/
theorem sweep_disjoint_number_noNeg (sp : Nat → Bool) (src : Str) (ms : List M) (ambs : List (List (Nat × Nat))) :
    (numExtract sp src ms (fun _ => none) ambs).Pairwise Disjoint :=
  (sweep_disjoint_number sp src ms _ ambs (by intro s a b h; cases h) (by intro s a b h; cases h)).2

/-- the widening is **not** safe by itself, and the shipped English/… extractors hit it: their negative-term
regex is not anchored at the end of `source[0:start]`, so `regex.search` returns the **first** `minus ` of the
prefix for every later number. `minus 5 and 6`: both numbers become `[0, 7)` = `minus 5`. -/
theorem sweep_number_neg_counterexample :
    let src : Str := [109, 105, 110, 117, 115, 32, 53, 32, 97, 110, 100, 32, 54]
    let out := numExtract (fun c => c == 32) src [⟨6, 1, 0⟩, ⟨12, 1, 0⟩]
      (fun s => if s == 6 || s == 12 then some (0, 6) else none) []
    out.map (fun e => (e.start, e.len, e.text)) =
      [(0, 7, [109, 105, 110, 117, 115, 32, 53]), (0, 7, [109, 105, 110, 117, 115, 32, 53])] ∧
    ¬ out.Pairwise Disjoint := by decide

/-- C12 `BasePercentageExtractor.extract`: for any number-extractor results, any dummy token and any matches
on the masked string, the restored results are ordered and disjoint (the position map is monotone). -/
theorem sweep_disjoint_percent (sp : Nat → Bool) (origin : Str) (nums : List ER) (tok : Str) (ms : List M) :
    (pctExtract sp origin nums tok ms).Pairwise (fun a b => a.start + a.len ≤ b.start) ∧
    (pctExtract sp origin nums tok ms).Pairwise Disjoint :=
  ⟨pctExtract_ordered sp origin nums tok ms, pairwise_disjoint_of_ordered (pctExtract_ordered sp origin nums tok ms)⟩

/-- C12 `merge_all_tokens`: for every token list whose tokens have `start ≤ end` the results are strictly
ordered by start and pairwise disjoint (whatever the order the sub-extractor produced the tokens in). -/
theorem mergeAllTokens_disjoint (src : Str) (ts : List Tk) (h : ∀ t ∈ ts, t.start ≤ t.stop) :
    (mergeAllTokens src ts).Pairwise Disjoint := by
  obtain ⟨b, hinv⟩ := mergeTokens_inv ts h
  unfold mergeAllTokens
  rw [List.pairwise_map]
  have : (mergeTokens ts).Pairwise (fun a b => a ∈ mergeTokens ts ∧ TkOrd a b) := by
    have h2 := hinv.1
    rw [List.pairwise_iff_forall_sublist] at h2 ⊢
    intro a b hab
    exact ⟨hab.subset (by simp), h2 hab⟩
  refine this.imp ?_
  intro x y ⟨hx, hxy⟩
  have := (hinv.2 x hx).2
  unfold TkOrd at hxy
  unfold Disjoint Tk.length
  simp only
  split <;> omega

example : ∀ t ∈ [(⟨3, 8, 0⟩ : Tk), ⟨0, 5, 1⟩, ⟨3, 9, 2⟩], t.start ≤ t.stop := by decide
example : (mergeAllTokens [] [(⟨3, 8, 0⟩ : Tk), ⟨0, 5, 1⟩, ⟨3, 9, 2⟩]).map (fun e => (e.start, e.len)) = [(0, 5)] := by
  decide

/-- C12 NumberWithUnit `b_add` filter: in the returned list a later result never contains (or equals) an
earlier one — for any number of (extractor, parser) items and any parse results. -/
theorem nwu_filter_no_containment (items : List (List MR)) : (nwuParse items).Pairwise NoContain :=
  nwuParseGo_pairwise items [] [] (by simp)

/-- … but only in that direction: a later result **contained in** an earlier one is kept, so the two overlap. -/
theorem nwu_filter_keeps_nested :
    nwuParse [[⟨0, 10, 0⟩], [⟨2, 5, 1⟩]] = [⟨0, 10, 0⟩, ⟨2, 5, 1⟩] := by decide

/-- repaired filter (a candidate contained in an accepted result is dropped too): no two results are nested,
whatever the (extractor, parser) items return. -/
theorem nwu_filter_sym_no_nesting (items : List (List MR)) : (nwuParseSym items).Pairwise NoNesting :=
  nwuParseGoSym_pairwise items [] [] (by simp)

example : nwuParseSym [[⟨0, 10, 0⟩], [⟨2, 5, 1⟩, ⟨12, 14, 2⟩]] = [⟨0, 10, 0⟩, ⟨12, 14, 2⟩] := by decide

/-
Full-strength statement, which the code does not satisfy:
  theorem addTo_disjoint_full : dst.Pairwise Disjoint → (addTo skip dst src).Pairwise Disjoint
-/

/-- `add_to` does not preserve disjointness: a value that strictly covers one destination and crosses another
replaces the first and is kept beside the second (`[0,3] [5,9]` + `[0,6]` → `[0,6] [5,9]`). -/
theorem addTo_crossing_counterexample :
    let dst : List ER := [⟨0, 4, [], 0⟩, ⟨5, 5, [], 0⟩]
    let v : ER := ⟨0, 7, [], 1⟩
    dst.Pairwise Disjoint ∧ addTo (fun _ => false) dst [v] = [⟨0, 7, [], 1⟩, ⟨5, 5, [], 0⟩] ∧
      ¬ (addTo (fun _ => false) dst [v]).Pairwise Disjoint ∧ ¬ NoCrossing dst v := by decide

/-- C12 `BaseMergedExtractor.add_to`, partial: disjointness is preserved whenever every inserted value strictly
covers every destination it overlaps (`NoCrossingAll`, evaluated step by step against the evolving list). -/
theorem addTo_disjoint_of_noCrossing (skip : ER → Bool) (dst src : List ER) (hd : dst.Pairwise Disjoint)
    (hn : NoCrossingAll skip dst src) : (addTo skip dst src).Pairwise Disjoint :=
  addTo_disjoint skip src dst hd hn

example : NoCrossingAll (fun _ => false) [⟨0, 4, [], 0⟩, ⟨5, 5, [], 0⟩] [⟨0, 5, [], 1⟩, ⟨5, 7, [], 2⟩, ⟨20, 2, [], 3⟩] := by
  decide
example : addTo (fun _ => false) [⟨0, 4, [], 0⟩, ⟨5, 5, [], 0⟩] [⟨0, 5, [], 1⟩, ⟨5, 7, [], 2⟩, ⟨20, 2, [], 3⟩]
    = [⟨0, 5, [], 1⟩, ⟨5, 7, [], 2⟩, ⟨20, 2, [], 3⟩] := by decide

/-- what `overlap` / `cover` mean on character ranges (note the direction of `cover`). -/
theorem overlap_cover_meaning (d v : ER) :
    (overlap d v = true ↔ d.start < v.start + v.len ∧ v.start < d.start + d.len) ∧
    (overlap d v = false ↔ Disjoint d v) ∧
    (cover d v = true ↔ (v.start < d.start ∧ d.start + d.len ≤ v.start + v.len) ∨
      (v.start ≤ d.start ∧ d.start + d.len < v.start + v.len)) :=
  ⟨overlap_iff d v, not_overlap_iff_disjoint d v, cover_iff d v⟩

end RTV.Span

namespace RTV.Merged
open RTV.Py RTV.Span

/-- C12 `BaseMergedExtractor.extract`, for ANY sub-extractor outputs, regex outcomes and modifier merges: the
returned entities are pairwise disjoint whenever no `add_to` step inserts a crossing value (`ChainNoCrossing`,
the exact per-step condition by `addOne_disjoint_iff`) and the modifier extensions stay clear of each other. -/
theorem mergedExtract_disjoint (src : Str) (inputs : List (List ER)) (unspecific ambiguous : ER → Bool)
    (ops : Nat → List ModOp) (calendar : ER → Bool) (hc : ChainNoCrossing [] inputs)
    (hx : ExtClear src ops ((removeIter unspecific (addChain inputs)).filter fun e => !ambiguous e)) :
    (mergedExtract src inputs unspecific ambiguous ops calendar).Pairwise Disjoint := by
  unfold mergedExtract
  simp only
  have h0 : (addChain inputs).Pairwise Disjoint := chain_disjoint inputs [] (by simp) hc
  have h1 := (h0.sublist (removeIter_sublist unspecific _)).sublist
    (List.filter_sublist (p := fun e => !ambiguous e))
  apply (sortByStart_spec Disjoint (fun _ _ h => h.symm) _).2
  apply List.Pairwise.sublist List.filter_sublist
  unfold addMods
  rw [List.pairwise_map]
  have : ((removeIter unspecific (addChain inputs)).filter fun e => !ambiguous e).Pairwise
      (fun a b => a ∈ ((removeIter unspecific (addChain inputs)).filter fun e => !ambiguous e) ∧
        b ∈ ((removeIter unspecific (addChain inputs)).filter fun e => !ambiguous e) ∧ Disjoint a b) := by
    rw [List.pairwise_iff_forall_sublist] at h1 ⊢
    intro a b hab
    exact ⟨hab.subset (by simp), hab.subset (by simp), h1 hab⟩
  exact this.imp (fun ⟨ha, hb, hd⟩ => hx _ ha _ hb hd)

/-- … and the chain condition holds for every family of non-empty sub-extractor outputs that are nested or apart:
crossing candidates are the only way `add_to` produces an overlap. -/
theorem mergedExtract_disjoint_of_laminar (src : Str) (inputs : List (List ER)) (unspecific ambiguous : ER → Bool)
    (ops : Nat → List ModOp) (calendar : ER → Bool)
    (hl : ∀ l ∈ inputs, ∀ a ∈ l, ∀ l' ∈ inputs, ∀ b ∈ l', Laminar a b) (hp : ∀ l ∈ inputs, ∀ a ∈ l, 0 < a.len)
    (hx : ExtClear src ops ((removeIter unspecific (addChain inputs)).filter fun e => !ambiguous e)) :
    (mergedExtract src inputs unspecific ambiguous ops calendar).Pairwise Disjoint :=
  mergedExtract_disjoint src inputs unspecific ambiguous ops calendar
    (chain_of_universe (fun a => ∃ l ∈ inputs, a ∈ l)
      (fun a b ⟨l, hl1, ha⟩ ⟨l', hl2, hb⟩ => hl l hl1 a ha l' hl2 b hb) (fun a ⟨l, hl1, ha⟩ => hp l hl1 a ha)
      inputs [] (by simp) (fun l hl1 v hv => ⟨l, hl1, hv⟩) (by simp)) hx

/-- the Boolean the driver prints for every recorded `extract` call IS the hypothesis `ExtClear` -/
theorem extClearB_iff (src : Str) (ops : Nat → List ModOp) (l : List ER) :
    extClearB src ops l = true ↔ ExtClear src ops l := by
  unfold extClearB ExtClear
  simp only [List.all_eq_true, Bool.or_eq_true, Bool.not_eq_eq_eq_not, Bool.not_true, decide_eq_false_iff_not,
    decide_eq_true_eq]
  constructor
  · intro h a ha b hb hd
    rcases h a ha b hb with h | h
    · exact absurd hd h
    · exact h
  · intro h a ha b hb
    by_cases hd : Disjoint a b
    · exact Or.inr (h a ha b hb hd)
    · exact Or.inl hd

/-- `merge_all_tokens` of non-empty tokens yields non-empty results (the length is the surviving token's). -/
theorem mergeAllTokens_len_pos (src : Str) (ts : List Tk) (hne : ∀ t ∈ ts, t.start < t.stop) :
    ∀ e ∈ mergeAllTokens src ts, 0 < e.len := by
  intro e he
  unfold mergeAllTokens at he
  simp only [List.mem_map] at he
  obtain ⟨t, ht, rfl⟩ := he
  have := hne t (mergeTokens_mem ts t ht)
  simp only [Tk.length]
  split <;> omega

/-- `mergedExtract_disjoint_of_laminar` with its positivity hypothesis `hp` DISCHARGED for what the sub-extractors really
hand over — `merge_all_tokens` of their tokens — from the non-emptiness of the tokens (`start < end`; monitored per
recorded call as `mat.nonempty_tokens`; an empty token is possible in the code: `C01.mergeAllTokens_empty_token_witness`).
The two remaining hypotheses are the ones the run evaluates on every recorded `extract` call: nested-or-apart candidates
(`mext.laminar_inputs`) and `extClearB` (`mext.ExtClear`). -/
theorem mergedExtract_disjoint_of_tokens (src : Str) (toks : List (List Tk)) (unspecific ambiguous : ER → Bool)
    (ops : Nat → List ModOp) (calendar : ER → Bool)
    (hne : ∀ ts ∈ toks, ∀ t ∈ ts, t.start < t.stop)
    (hl : ∀ l ∈ toks.map (mergeAllTokens src), ∀ a ∈ l, ∀ l' ∈ toks.map (mergeAllTokens src), ∀ b ∈ l', Laminar a b)
    (hx : extClearB src ops (beforeMods (toks.map (mergeAllTokens src)) unspecific ambiguous) = true) :
    (mergedExtract src (toks.map (mergeAllTokens src)) unspecific ambiguous ops calendar).Pairwise Disjoint :=
  mergedExtract_disjoint_of_laminar src _ unspecific ambiguous ops calendar hl
    (by
      intro l hl' a ha
      obtain ⟨ts, hts, rfl⟩ := List.mem_map.1 hl'
      exact mergeAllTokens_len_pos src ts (hne ts hts) a ha)
    ((extClearB_iff src ops _).mp hx)

/-- C12 with BOTH hypotheses in the decidable form the unit correspondence evaluates on every recorded call of the real
`BaseMergedExtractor.extract` (`mg.ext` answers `…|chainNoCrossing|disjoint|extClear`; `spancorr` counts the two bits as
`mext.ChainNoCrossing` / `mext.ExtClear` and reports a call where both are 1 and the real output overlaps): nothing is
assumed that the run does not check. -/
theorem mergedExtract_disjoint_monitored (src : Str) (inputs : List (List ER)) (unspecific ambiguous : ER → Bool)
    (ops : Nat → List ModOp) (calendar : ER → Bool) (hc : decide (ChainNoCrossing [] inputs) = true)
    (hx : extClearB src ops (beforeMods inputs unspecific ambiguous) = true) :
    (mergedExtract src inputs unspecific ambiguous ops calendar).Pairwise Disjoint :=
  mergedExtract_disjoint src inputs unspecific ambiguous ops calendar (of_decide_eq_true hc)
    ((extClearB_iff src ops _).mp hx)

/-- `ExtClear` is a real condition: two entities one character apart, the left one extended by two characters. -/
theorem extClear_violation_witness :
    let inputs : List (List ER) := [[⟨0, 4, [], 0⟩, ⟨5, 3, [], 1⟩]]
    let ops : Nat → List ModOp := fun t => if t = 0 then [ModOp.ext 2] else []
    decide (ChainNoCrossing [] inputs) = true ∧
    extClearB (List.replicate 10 97) ops (beforeMods inputs (fun _ => false) (fun _ => false)) = false ∧
    ¬ (mergedExtract (List.replicate 10 97) inputs (fun _ => false) (fun _ => false) ops (fun _ => false)).Pairwise Disjoint := by
  decide

/-- the counter-model inside the pipeline: date period `[0,3]`, duration `[5,9]`, then a date-time period `[0,6]`. -/
theorem mergedExtract_crossing_counterexample :
    let inputs : List (List ER) := [[⟨0, 4, [], 0⟩], [⟨5, 5, [], 1⟩], [⟨0, 7, [], 2⟩]]
    ¬ ChainNoCrossing [] inputs ∧
    ¬ (mergedExtract [] inputs (fun _ => false) (fun _ => false) (fun _ => []) (fun _ => false)).Pairwise Disjoint := by
  decide

/-- C12: `NoCrossing` is the exact condition of one `add_to` step (re-exported from the lemmas). -/
theorem addTo_step_disjoint_iff (dst : List ER) (v : ER) (hd : dst.Pairwise Disjoint) :
    (addOne (fun _ => false) dst v).Pairwise Disjoint ↔ NoCrossing dst v := addOne_disjoint_iff dst v hd

end RTV.Merged
