import RTV.Props.C08ConfigWords
/-!
# C08 — the culture parser configurations, part 3: last-words, disjointness, the extractor's last-words (with the
negative theorems for German and Italian), is_future / is_last_cardinal.  Same method as part 2.
-/
namespace RTV.Props.C08Config
open RTV.CultureCfg RTV.Gen.CC

/-- every instance of the configuration's own previous-prefix regex: −1 / −1 -/
theorem last_words_swift_minus_one :
    ∀ c ∈ cfgs, ∀ w ∈ wordsOf T c.prev, c.dom.on T w = int (-1) ∧ c.year.on T w = int (-1) := by decide +kernel

theorem last_words_swift_minus_one_chinese :
    ∀ w ∈ wordsOf T cfgChinese.prev, cfgChinese.dom.on T w = int (-1) := by decide +kernel

/-- no next-word is searched by the previous regex and no last-word by the next regex: no text is both -/
theorem next_last_disjoint :
    ∀ c ∈ cfgChinese :: cfgs,
      (∀ w ∈ wordsOf T c.next, searchRe T c.prev w = false) ∧ (∀ w ∈ wordsOf T c.prev, searchRe T c.next w = false) := by
  decide +kernel

/-! ### the words the EXTRACTORS accept as "last" (the resource's PreviousPrefixRegex, held by the date parser
configuration as `_past_prefix_regex`) must be "last" for the date-period parser too -/

/-- (culture, PreviousPrefixRegex of the resource, get_swift_day_or_month, get_swift_year) -/
def extractorLast : List (String × RTV.Re.RE × Method × Method) := [
  ("english", English.re_DateParser__past_prefix_regex, English.DatePeriodParser_get_swift_day_or_month, English.DatePeriodParser_get_swift_year),
  ("spanish", Spanish.re_DateParser__past_prefix_regex, Spanish.DatePeriodParser_get_swift_day_or_month, Spanish.DatePeriodParser_get_swift_year),
  ("portuguese", Portuguese.re_DateParser__past_prefix_regex, Portuguese.DatePeriodParser_get_swift_day_or_month, Portuguese.DatePeriodParser_get_swift_year),
  ("dutch", Dutch.re_DateParser__past_prefix_regex, Dutch.DatePeriodParser_get_swift_day_or_month, Dutch.DatePeriodParser_get_swift_year)]

/- full statement: for all six cultures.  German and Italian violate it (next two theorems): `…_partial` for the four
   cultures where it holds. -/
theorem extractor_last_words_swift_minus_one_partial :
    ∀ p ∈ extractorLast, ∀ w ∈ wordsOf T p.2.1, p.2.2.1.on T w = int (-1) ∧ p.2.2.2.on T w = int (-1) := by
  decide +kernel

/-- **negative, German** (recorded defect `last-as-this-de-de-*`): GermanDatePeriodParserConfiguration builds its
`previous_prefix_regex` from `GermanDateTime.PastPrefixRegex` (`.^`, matches nothing) instead of `PreviousPrefixRegex`:
NO German last-word (`letzte`, `letztes`, `vergangene`, `vorige`, …) is a "previous" prefix: shift 0, year sentinel −10;
`letztes jahr` resolves to the current year. -/
theorem german_last_words_not_previous :
    (wordsOf T German.re_DateParser__past_prefix_regex).length = 18 ∧
    ∀ w ∈ wordsOf T German.re_DateParser__past_prefix_regex,
      German.DatePeriodParser_get_swift_day_or_month.on T w = int 0 ∧ German.DatePeriodParser_get_swift_year.on T w = int (-10) := by
  decide +kernel

/-- **negative, Italian** (recorded defect `last-as-this-it-it-*`): ItalianDatePeriodParserConfiguration uses
`ItalianDateTime.PastPrefixRegex` (only `scors[oaei]`): `ultim*`, `passat*`, `precedent*` of the PreviousPrefixRegex are not
"previous": partial statement (the instances the narrower regex searches) + witness. -/
theorem italian_last_words_partial :
    ∀ w ∈ wordsOf T Italian.re_DateParser__past_prefix_regex,
      searchRe T Italian.re_DatePeriodParser_previous_prefix_regex w = true →
      Italian.DatePeriodParser_get_swift_day_or_month.on T w = int (-1) ∧ Italian.DatePeriodParser_get_swift_year.on T w = int (-1) := by
  decide +kernel

theorem italian_ultima_witness :
    [117, 108, 116, 105, 109, 97] ∈ wordsOf T Italian.re_DateParser__past_prefix_regex ∧
    Italian.DatePeriodParser_get_swift_day_or_month.on T [117, 108, 116, 105, 109, 97] = int 0 ∧
    Italian.DatePeriodParser_get_swift_year.on T [117, 108, 116, 105, 109, 97] = int (-10) := by decide +kernel

/-! ## is_future / is_last_cardinal agree with the listed terms -/

def truthOn (m : Method) (w : RTV.Py.Str) : Bool := (m.on T w).truth

/-- English: a text that starts with one of `FutureTerms` (this, next) is future, a last-word is not -/
theorem is_future_english :
    (∀ o ∈ English.list_EnglishDateTime_FutureTerms, truthOn English.DatePeriodParser_is_future (o ++ [32, 109, 111, 110, 116, 104]) = true) ∧
    truthOn English.DatePeriodParser_is_future [32, 32, 78, 101, 120, 116, 32, 119, 101, 101, 107] = true ∧
    truthOn English.DatePeriodParser_is_future [108, 97, 115, 116, 32, 109, 111, 110, 116, 104] = false ∧
    truthOn English.DatePeriodParser_is_future [112, 114, 101, 118, 105, 111, 117, 115, 32, 109, 111, 110, 116, 104] = false ∧
    truthOn English.DatePeriodParser_is_future [109, 111, 110, 116, 104] = false := by decide +kernel

/-- Spanish / Chinese decide with the regexes: every next-word and this-word is future -/
theorem is_future_regex_cultures :
    (∀ w ∈ wordsOf T Spanish.re_DatePeriodParser_next_prefix_regex ++ wordsOf T Spanish.re_DatePeriodParser_this_prefix_regex,
      truthOn Spanish.DatePeriodParser_is_future w = true) ∧
    (∀ w ∈ wordsOf T cfgChinese.next ++ wordsOf T cfgChinese.this, truthOn Chinese.DatePeriodParser_is_future w = true) ∧
    (∀ w ∈ wordsOf T cfgChinese.prev, truthOn Chinese.DatePeriodParser_is_future w = false) := by decide +kernel

/-- **negative, Portuguese** (latent, outside the statement of C08): `is_future` iterates over the CHARACTERS of the
string `PortugueseDateTime.FutureRegex` (`any(trimmed_source.startswith(o) for o in <str>)`), so every text that starts
with a letter occurring in that pattern text is "future" — the last-word `passado` included. -/
theorem is_future_portuguese_witness :
    truthOn Portuguese.DatePeriodParser_is_future [112, 97, 115, 115, 97, 100, 111] = true ∧
    truthOn Portuguese.DatePeriodParser_is_future [98] = true := by decide +kernel

theorem is_last_cardinal_english :
    (∀ o ∈ English.list_EnglishDateTime_LastCardinalTerms, truthOn English.DatePeriodParser_is_last_cardinal o = true) ∧
    truthOn English.DatePeriodParser_is_last_cardinal [32, 76, 65, 83, 84, 32] = true ∧
    truthOn English.DateParser_is_cardinal_last [108, 97, 115, 116] = true ∧
    truthOn English.DatePeriodParser_is_last_cardinal [102, 105, 114, 115, 116] = false ∧
    truthOn English.DatePeriodParser_is_last_cardinal [110, 101, 120, 116] = false := by decide +kernel

/-- Spanish / Portuguese decide with the previous-prefix regex: every last-word is "last", no next-word is -/
theorem is_last_cardinal_regex_cultures :
    (∀ w ∈ wordsOf T Spanish.re_DatePeriodParser_previous_prefix_regex, truthOn Spanish.DatePeriodParser_is_last_cardinal w = true) ∧
    (∀ w ∈ wordsOf T Spanish.re_DatePeriodParser_next_prefix_regex, truthOn Spanish.DatePeriodParser_is_last_cardinal w = false) ∧
    (∀ w ∈ wordsOf T Portuguese.re_DatePeriodParser_previous_prefix_regex, truthOn Portuguese.DatePeriodParser_is_last_cardinal w = true) ∧
    (∀ w ∈ wordsOf T Portuguese.re_DatePeriodParser_next_prefix_regex, truthOn Portuguese.DatePeriodParser_is_last_cardinal w = false) := by
  decide +kernel

end RTV.Props.C08Config
