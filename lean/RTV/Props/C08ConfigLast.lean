import RTV.Props.C08ConfigWords
/-!
# C08 — the culture parser configurations, part 3: last-words, disjointness, the extractor's last-words (with the
negative theorems for German and Italian), is_future / is_last_cardinal.  Same method as part 2.
-/
namespace RTV.Props.C08Config
open RTV.CultureCfg RTV.Gen.CC

/-- every instance of the configuration's own previous-prefix regex: −1 / −1 -/
theorem last_words_swift_minus_one :
    ∀ c ∈ cfgs, ∀ w ∈ wordsOf T c.prev, c.dom.on T w = int (-1) ∧ c.year.on T w = int (-1) := by decide +kernel

theorem last_words_swift_minus_one_chinese :
    ∀ w ∈ wordsOf T cfgChinese.prev, cfgChinese.dom.on T w = int (-1) := by decide +kernel

/-- no next-word is searched by the previous regex and no last-word by the next regex: no text is both -/
theorem next_last_disjoint :
    ∀ c ∈ cfgChinese :: cfgs,
      (∀ w ∈ wordsOf T c.next, searchRe T c.prev w = false) ∧ (∀ w ∈ wordsOf T c.prev, searchRe T c.next w = false) := by
  decide +kernel

/-! ### the words the EXTRACTORS accept as "last" (the resource's PreviousPrefixRegex, held by the date parser
configuration as `_past_prefix_regex`) must be "last" for the date-period parser too

German and Italian violated this (defect `last-as-this-de-de-*` / `last-as-this-it-it-*`: their date-period configuration
was built from `PastPrefixRegex`).  The translator regenerates, per culture, `pastPrefixFollowsPrevious` (does the
date-period configuration hold the PreviousPrefixRegex?); the full-strength statement is about the REGENERATED definitions
of every culture that follows the repaired variant, the negative theorems are about the committed PRE-FIX variant (the
regenerated method with the pre-fix regex, copied below by hand, put back) — so both trees check. -/

/-- (culture, regenerated flag, PreviousPrefixRegex of the resource, get_swift_day_or_month, get_swift_year) -/
def extractorLast : List (String × Bool × RTV.Re.RE × Method × Method) := [
  ("english", English.pastPrefixFollowsPrevious, English.re_DateParser__past_prefix_regex, English.DatePeriodParser_get_swift_day_or_month, English.DatePeriodParser_get_swift_year),
  ("spanish", Spanish.pastPrefixFollowsPrevious, Spanish.re_DateParser__past_prefix_regex, Spanish.DatePeriodParser_get_swift_day_or_month, Spanish.DatePeriodParser_get_swift_year),
  ("portuguese", Portuguese.pastPrefixFollowsPrevious, Portuguese.re_DateParser__past_prefix_regex, Portuguese.DatePeriodParser_get_swift_day_or_month, Portuguese.DatePeriodParser_get_swift_year),
  ("italian", Italian.pastPrefixFollowsPrevious, Italian.re_DateParser__past_prefix_regex, Italian.DatePeriodParser_get_swift_day_or_month, Italian.DatePeriodParser_get_swift_year),
  ("german", German.pastPrefixFollowsPrevious, German.re_DateParser__past_prefix_regex, German.DatePeriodParser_get_swift_day_or_month, German.DatePeriodParser_get_swift_year),
  ("dutch", Dutch.pastPrefixFollowsPrevious, Dutch.re_DateParser__past_prefix_regex, Dutch.DatePeriodParser_get_swift_day_or_month, Dutch.DatePeriodParser_get_swift_year)]

/-- **full strength** for every culture whose tree holds the PreviousPrefixRegex in its date-period configuration: every
last-word the extractors accept is −1 / −1 for the date-period parser -/
theorem extractor_last_words_swift_minus_one :
    ∀ p ∈ extractorLast, p.2.1 = true →
      ∀ w ∈ wordsOf T p.2.2.1, p.2.2.2.1.on T w = int (-1) ∧ p.2.2.2.2.on T w = int (-1) := by
  decide +kernel

/-- English, Spanish, Portuguese and Dutch follow it on every tree (so the statement above is never vacuous for them) -/
theorem extractor_last_flags :
    [English.pastPrefixFollowsPrevious, Spanish.pastPrefixFollowsPrevious, Portuguese.pastPrefixFollowsPrevious,
     Dutch.pastPrefixFollowsPrevious] = [true, true, true, true] := by decide +kernel

/-! #### pre-fix regression (committed snapshot of the two regexes the unrepaired configurations held) -/

/-- `GermanDateTime.PastPrefixRegex` = `.^` -/
def preFixGermanPrev : RTV.Re.RE := .seq (.cls [] true) (.seq .bol .eps)

/-- `ItalianDateTime.PastPrefixRegex` = `\b(((lo|l[ae]|gli)\s+)?scors[oaei])\b` (IGNORECASE expanded) -/
def preFixItalianPrev : RTV.Re.RE :=
  .seq .wordB (.seq (.grp 1 (.seq (.rep (.seq (.grp 2 (.seq (.grp 3 (.seq (.alt (.seq (.cls [.range 76 76,
    .range 108 108] false) (.seq (.cls [.range 79 79, .range 111 111] false) .eps)) (.alt (.seq (.cls [.range
    76 76, .range 108 108] false) (.seq (.cls [.range 65 65, .range 97 97, .range 69 69, .range 101 101]
    false) .eps)) (.seq (.cls [.range 71 71, .range 103 103] false) (.seq (.cls [.range 76 76, .range 108
    108] false) (.seq (.cls [.range 73 73, .range 105 105, .range 304 304] false) .eps))))) .eps)) (.seq
    (.repU (.seq (.cls [.space] false) .eps) 1 true) .eps))) .eps) 0 1 true) (.seq (.cls [.range 83 83,
    .range 115 115, .range 383 383] false) (.seq (.cls [.range 67 67, .range 99 99] false) (.seq (.cls
    [.range 79 79, .range 111 111] false) (.seq (.cls [.range 82 82, .range 114 114] false) (.seq (.cls
    [.range 83 83, .range 115 115, .range 383 383] false) (.seq (.cls [.range 79 79, .range 111 111, .range
    65 65, .range 97 97, .range 69 69, .range 101 101, .range 73 73, .range 105 105, .range 304 304] false)
    .eps)))))))) (.seq .wordB .eps))

def germanDomPreFix : Method :=
  German.DatePeriodParser_get_swift_day_or_month.withRe German.re_DatePeriodParser_previous_prefix_regex preFixGermanPrev
def germanYearPreFix : Method :=
  German.DatePeriodParser_get_swift_year.withRe German.re_DatePeriodParser_previous_prefix_regex preFixGermanPrev
def italianDomPreFix : Method :=
  Italian.DatePeriodParser_get_swift_day_or_month.withRe Italian.re_DatePeriodParser_previous_prefix_regex preFixItalianPrev
def italianYearPreFix : Method :=
  Italian.DatePeriodParser_get_swift_year.withRe Italian.re_DatePeriodParser_previous_prefix_regex preFixItalianPrev

/-- the snapshot IS what an unrepaired tree holds: when the regenerated flag says "does not follow", the regenerated
regex is the committed pre-fix one (so the pre-fix variants below are the tree's own methods) -/
theorem prefix_snapshot_is_the_unrepaired_tree :
    (German.pastPrefixFollowsPrevious = false → German.re_DatePeriodParser_previous_prefix_regex = preFixGermanPrev) ∧
    (Italian.pastPrefixFollowsPrevious = false → Italian.re_DatePeriodParser_previous_prefix_regex = preFixItalianPrev) := by
  decide +kernel

/-- **pre-fix regression, German** (`last-as-this-de-de-*`): with `PastPrefixRegex` (`.^`, matches nothing) as the
previous-prefix regex NO German last-word (`letzte`, `letztes`, `vergangene`, `vorige`, …) is a "previous" prefix: shift 0,
year sentinel −10; `letztes jahr` resolves to the current year. -/
theorem german_last_words_not_previous :
    (wordsOf T German.re_DateParser__past_prefix_regex).length = 18 ∧
    ∀ w ∈ wordsOf T German.re_DateParser__past_prefix_regex,
      germanDomPreFix.on T w = int 0 ∧ germanYearPreFix.on T w = int (-10) := by
  decide +kernel

/-- **pre-fix regression, Italian** (`last-as-this-it-it-*`): with `PastPrefixRegex` (only `scors[oaei]`) `ultim*`, `passat*`,
`precedent*` of the PreviousPrefixRegex are not "previous": partial statement (the instances the narrower regex
searches) + witness. -/
theorem italian_last_words_partial :
    ∀ w ∈ wordsOf T Italian.re_DateParser__past_prefix_regex,
      searchRe T preFixItalianPrev w = true →
      italianDomPreFix.on T w = int (-1) ∧ italianYearPreFix.on T w = int (-1) := by
  decide +kernel

theorem italian_ultima_witness :
    [117, 108, 116, 105, 109, 97] ∈ wordsOf T Italian.re_DateParser__past_prefix_regex ∧
    italianDomPreFix.on T [117, 108, 116, 105, 109, 97] = int 0 ∧
    italianYearPreFix.on T [117, 108, 116, 105, 109, 97] = int (-10) := by decide +kernel

/-! ## is_future / is_last_cardinal agree with the listed terms -/

def truthOn (m : Method) (w : RTV.Py.Str) : Bool := (m.on T w).truth

/-- English: a text that starts with one of `FutureTerms` (this, next) is future, a last-word is not -/
theorem is_future_english :
    (∀ o ∈ English.list_EnglishDateTime_FutureTerms, truthOn English.DatePeriodParser_is_future (o ++ [32, 109, 111, 110, 116, 104]) = true) ∧
    truthOn English.DatePeriodParser_is_future [32, 32, 78, 101, 120, 116, 32, 119, 101, 101, 107] = true ∧
    truthOn English.DatePeriodParser_is_future [108, 97, 115, 116, 32, 109, 111, 110, 116, 104] = false ∧
    truthOn English.DatePeriodParser_is_future [112, 114, 101, 118, 105, 111, 117, 115, 32, 109, 111, 110, 116, 104] = false ∧
    truthOn English.DatePeriodParser_is_future [109, 111, 110, 116, 104] = false := by decide +kernel

/-- Spanish / Chinese decide with the regexes: every next-word and this-word is future -/
theorem is_future_regex_cultures :
    (∀ w ∈ wordsOf T Spanish.re_DatePeriodParser_next_prefix_regex ++ wordsOf T Spanish.re_DatePeriodParser_this_prefix_regex,
      truthOn Spanish.DatePeriodParser_is_future w = true) ∧
    (∀ w ∈ wordsOf T cfgChinese.next ++ wordsOf T cfgChinese.this, truthOn Chinese.DatePeriodParser_is_future w = true) ∧
    (∀ w ∈ wordsOf T cfgChinese.prev, truthOn Chinese.DatePeriodParser_is_future w = false) := by decide +kernel

/-- **negative, Portuguese** (latent, outside the statement of C08): `is_future` iterates over the CHARACTERS of the
string `PortugueseDateTime.FutureRegex` (`any(trimmed_source.startswith(o) for o in <str>)`), so every text that starts
with a letter occurring in that pattern text is "future" — the last-word `passado` included. -/
theorem is_future_portuguese_witness :
    truthOn Portuguese.DatePeriodParser_is_future [112, 97, 115, 115, 97, 100, 111] = true ∧
    truthOn Portuguese.DatePeriodParser_is_future [98] = true := by decide +kernel

theorem is_last_cardinal_english :
    (∀ o ∈ English.list_EnglishDateTime_LastCardinalTerms, truthOn English.DatePeriodParser_is_last_cardinal o = true) ∧
    truthOn English.DatePeriodParser_is_last_cardinal [32, 76, 65, 83, 84, 32] = true ∧
    truthOn English.DateParser_is_cardinal_last [108, 97, 115, 116] = true ∧
    truthOn English.DatePeriodParser_is_last_cardinal [102, 105, 114, 115, 116] = false ∧
    truthOn English.DatePeriodParser_is_last_cardinal [110, 101, 120, 116] = false := by decide +kernel

/-- Spanish / Portuguese decide with the previous-prefix regex: every last-word is "last", no next-word is -/
theorem is_last_cardinal_regex_cultures :
    (∀ w ∈ wordsOf T Spanish.re_DatePeriodParser_previous_prefix_regex, truthOn Spanish.DatePeriodParser_is_last_cardinal w = true) ∧
    (∀ w ∈ wordsOf T Spanish.re_DatePeriodParser_next_prefix_regex, truthOn Spanish.DatePeriodParser_is_last_cardinal w = false) ∧
    (∀ w ∈ wordsOf T Portuguese.re_DatePeriodParser_previous_prefix_regex, truthOn Portuguese.DatePeriodParser_is_last_cardinal w = true) ∧
    (∀ w ∈ wordsOf T Portuguese.re_DatePeriodParser_next_prefix_regex, truthOn Portuguese.DatePeriodParser_is_last_cardinal w = false) := by
  decide +kernel

end RTV.Props.C08Config
