import RTV.Props.C05
import RTV.Model.UnitCompound
import RTV.Lemmas.Dec
/-!
# C05 — compound currency amounts: `BaseCurrencyParser.__merge_compound_unit` (audit items 2, 23)

Model: `RTV.Unit.mergeCompound` / `mergeAmount` (RTV/Model/UnitCompound.lean) — the real method statement by statement on
the `Dec` layer, i.e. WITH the 15-digit context of `@precision(prec=15)` and with every ratio of
`BaseCurrency.CurrencyFractionalRatios` (100, 1000, 10, 5; the Dutch tables add 4 and 20; 10^8 for satoshi).  Tied to the
code by `uc.merge`: harness/corr/c05.py `compound_level` calls the REAL `BaseCurrencyParser.parse` on hand-built compound
extract results of every culture (amounts at the 15-digit boundary, every ratio class, SYS_NUM parts, unknown / fake-ISO
main units, foreign fractions, several groups) and compares the whole result list.
-/
namespace RTV.Unit
open RTV.Dec

/-- the ratios of `BaseCurrency.CurrencyFractionalRatios` (and the Dutch additions) with the scale `k` at which `1 / ratio`
is a decimal: `ratio` divides `10 ^ k` -/
def ratioTable : List (Nat × Nat) := [(100, 2), (1000, 3), (10, 1), (5, 1), (4, 2), (20, 2), (100000000, 8)]

theorem ratioTable_divides : ∀ rk ∈ ratioTable, (10 ^ rk.2 / rk.1) * rk.1 = 10 ^ rk.2 ∧ 0 < rk.1 := by decide

/-- `Rep` as a Boolean -/
def repB (q : Dec) (M j : Nat) : Bool := !q.neg && decide (q.exp ≤ 0) && q.coeff * 10 ^ j == M * 10 ^ (-q.exp).toNat

theorem rep_of_repB {q : Dec} {M j : Nat} (h : repB q M j = true) : Rep q M j := by
  simp only [repB, Bool.and_eq_true, Bool.not_eq_true', decide_eq_true_eq, beq_iff_eq] at h
  exact ⟨h.1.1, h.1.2, h.2⟩

/-- `Decimal(M) / Decimal(ratio)` in the 15-digit context is EXACT for every fraction amount below 1000 and every ratio of
the table -/
theorem fraction_quotient_exact :
    (ratioTable.all fun rk => (List.range 1000).all fun M =>
      match RTV.Dec.div 15 (ofNat M) (ofNat rk.1) with
      | some q => repB q (M * (10 ^ rk.2 / rk.1)) rk.2
      | none => false) = true := by decide +kernel

/-- **C05(d) compound amounts** — `N <main> and M <fraction>`: what the CODE computes (`Decimal(N) + Decimal(M) /
Decimal(ratio)` under `@precision(prec=15)`) is EXACTLY `N + M / ratio` — as the decimal `(N·10^k + M·(10^k / ratio)) / 10^k`
— whenever that number has at most 15 digits at scale `k`: `N·10^k + M·(10^k/ratio) < 10^15`, which holds as soon as
digits(N) + k ≤ 15 and `M < ratio`.  Any ratio of the tables, any fraction amount below 1000.  Beyond the guard the cents
are rounded away: `compound_precision_witness`.  (The guard is sufficient; it is also necessary except when the sum has
trailing zeros at scale `k`, e.g. `… and 50 cents`.) -/
theorem compound_value_exact (N M r k : Nat) (hr : (r, k) ∈ ratioTable) (hM : M < 1000)
    (hg : N * 10 ^ k + M * (10 ^ k / r) < 10 ^ 15) :
    ∃ d, mergeAmount 15 (ofNat N) (ofNat M) r = some d ∧ Rep d (N * 10 ^ k + M * (10 ^ k / r)) k := by
  have h1 := List.all_eq_true.1 fraction_quotient_exact (r, k) hr
  have h2 := List.all_eq_true.1 h1 M (List.mem_range.2 hM)
  simp only at h2
  cases hq : RTV.Dec.div 15 (ofNat M) (ofNat r) with
  | none => rw [hq] at h2; cases h2
  | some q =>
    rw [hq] at h2
    have rq := rep_of_repB h2
    have rn : Rep (ofNat N) (N * 10 ^ k) k := ⟨rfl, by simp [ofNat], by simp [ofNat]⟩
    refine ⟨RTV.Dec.add 15 (ofNat N) q, by simp [mergeAmount, hq], ?_⟩
    exact add_rep 15 (ofNat N) q _ _ k (by decide) rn rq hg

/-- outside the guard, the 15-digit context: `123456789012345 dollars and 14 cents` is worth `123456789012345` (the cents
are lost), `12345678901234 dollars and 14 cents` is `12345678901234.1`; with 13 digits (13 + 2 = 15) the sum is exact.
The number model itself resolves no more than 15 significant digits (C03), so this is the documented precision of the
value, not a finding; the pipeline oracle of harness/corr/c05.py demands `N + M/ratio` rounded half-even to 15 digits. -/
theorem compound_precision_witness :
    mergeAmount 15 (ofNat 123456789012345) (ofNat 14) 100 = some ⟨false, 123456789012345, 0⟩ ∧
    mergeAmount 15 (ofNat 12345678901234) (ofNat 14) 100 = some ⟨false, 123456789012341, -1⟩ ∧
    mergeAmount 15 (ofNat 1234567890123) (ofNat 14) 100 = some ⟨false, 123456789012314, -2⟩ := by decide +kernel

/-- **the whole method on `N <main> M <fraction>`**: when the tables give the main unit a real ISO code, associate the
fraction unit's code with that currency and give it the ratio `r`, `__merge_compound_unit` returns ONE entity: it spans
from the main part's start to the fraction part's end, its unit is the MAIN unit, its ISO code the table's, and its
number is `CultureInfo.format` of `Decimal(n) + Decimal(m) / Decimal(r)` (15-digit context; exact under the guard of
`compound_value_exact`). -/
theorem merge_main_fraction (c : CCfg) (main frac : CItem) (u fu iso code fr : Str) (n m : Dec) (r : Nat) (d : Dec)
    (h1 : main.isCurrency = true) (h2 : main.hasValue = true) (h3 : main.unit = some u) (h4 : main.number = some n)
    (h5 : dget c.nameToIso u = some iso) (h6 : iso ≠ []) (h7 : startsWith iso [95] = false)
    (h8 : dget c.fractionMapping iso = some fr)
    (g1 : frac.isNum = false) (g2 : frac.hasValue = true) (g3 : frac.unit = some fu) (g4 : frac.number = some m)
    (g5 : dget c.fractionCodeList fu = some code) (g6 : code ≠ []) (g7 : ratioOf c.fractionNumMap fu = some r) (g8 : r ≠ 0)
    (g9 : dhas (bindUnitsString c.sp [] [] fr) code = true)
    (hd : mergeAmount 15 n m r = some d) (hz : d.coeff ≠ 0) :
    mergeCompound 15 c [main, frac] =
      .ok [⟨main.start, frac.start + frac.len - main.start, some (RTV.Dec.format c.longFormat d), some u, some iso⟩] := by
  unfold mergeAmount at hd
  cases hq : RTV.Dec.div 15 m (ofNat r) with
  | none => rw [hq] at hd; cases hd
  | some q =>
    rw [hq] at hd
    simp only [Option.map_some, Option.some.injEq] at hd
    have hr0 : (some r != some 0) = true := by simp [g8]
    simp [mergeCompound, mergeLoop, CState.init, h1, h2, h3, h4, h5, h6, h7, h8, g1, g2, g3, g4, g5, g6, g7, hr0, g9,
      unitsStringContains, addQuotient, hq, hd, createCurrencyResult, getNumberValue, hz]

/-- both together, in the property's words: `N <main> and M <fraction>` with `M < 1000` and digits(N) + k within the
precision is ONE entity in the main unit worth exactly `N + M / ratio` -/
theorem compound_end_to_end (c : CCfg) (main frac : CItem) (u fu iso code fr : Str) (N M r k : Nat)
    (hr : (r, k) ∈ ratioTable) (hM : M < 1000) (hg : N * 10 ^ k + M * (10 ^ k / r) < 10 ^ 15) (hpos : 0 < N ∨ 0 < M)
    (h1 : main.isCurrency = true) (h2 : main.hasValue = true) (h3 : main.unit = some u) (h4 : main.number = some (ofNat N))
    (h5 : dget c.nameToIso u = some iso) (h6 : iso ≠ []) (h7 : startsWith iso [95] = false)
    (h8 : dget c.fractionMapping iso = some fr)
    (g1 : frac.isNum = false) (g2 : frac.hasValue = true) (g3 : frac.unit = some fu) (g4 : frac.number = some (ofNat M))
    (g5 : dget c.fractionCodeList fu = some code) (g6 : code ≠ []) (g7 : ratioOf c.fractionNumMap fu = some r)
    (g9 : dhas (bindUnitsString c.sp [] [] fr) code = true) :
    ∃ d, Rep d (N * 10 ^ k + M * (10 ^ k / r)) k ∧
      mergeCompound 15 c [main, frac] =
        .ok [⟨main.start, frac.start + frac.len - main.start, some (RTV.Dec.format c.longFormat d), some u, some iso⟩] := by
  obtain ⟨d, hd, hrep⟩ := compound_value_exact N M r k hr hM hg
  obtain ⟨hdiv, hrpos⟩ := ratioTable_divides (r, k) hr
  have hz : d.coeff ≠ 0 := by
    intro h0
    obtain ⟨_, _, hv⟩ := hrep
    rw [h0, Nat.zero_mul] at hv
    have hp : 0 < 10 ^ (-d.exp).toNat := pow10_pos _
    have hsum : N * 10 ^ k + M * (10 ^ k / r) = 0 := by
      rcases Nat.eq_zero_or_pos (N * 10 ^ k + M * (10 ^ k / r)) with h | h
      · exact h
      · have := Nat.mul_pos h hp; omega
    have hk : 0 < 10 ^ k := pow10_pos _
    have hq : 0 < 10 ^ k / r := by
      rcases Nat.eq_zero_or_pos (10 ^ k / r) with h | h
      · simp only at hdiv; rw [h, Nat.zero_mul] at hdiv; omega
      · exact h
    rcases hpos with h | h
    · have := Nat.mul_pos h hk; omega
    · have := Nat.mul_pos h hq; omega
  exact ⟨d, hrep, merge_main_fraction c main frac u fu iso code fr (ofNat N) (ofNat M) r d h1 h2 h3 h4 h5 h6 h7 h8 g1 g2 g3 g4
    g5 g6 g7 (by omega) g9 hd hz⟩

/-! ### closed instances on a two-row configuration (Dollar ↦ USD ↦ CENT; Cent ↦ CENT, 100) -/

def demoCfg : CCfg :=
  ⟨[([68], [85, 83, 68])], [([85, 83, 68], [67, 69, 78, 84])], [([67], [67, 69, 78, 84])], [([67], 100)], some (46, 44),
    fun ch => ch == 32⟩

/-- `1999 D 57 C` → one entity `1999.57`, unit `D`, ISO `USD`, spanning both parts -/
example : mergeCompound 15 demoCfg
    [⟨true, false, 0, 6, true, some [68], some (ofNat 1999), none⟩, ⟨true, false, 7, 4, true, some [67], some (ofNat 57), none⟩] =
    .ok [⟨0, 11, some [49, 57, 57, 57, 46, 53, 55], some [68], some [85, 83, 68]⟩] := by decide +kernel

/-- **witness, the whole method**: `123456789012345 D 14 C` → value `123456789012345`: the cents are lost (15-digit context) -/
theorem compound_cents_lost_witness : mergeCompound 15 demoCfg
    [⟨true, false, 0, 17, true, some [68], some (ofNat 123456789012345), none⟩,
     ⟨true, false, 18, 4, true, some [67], some (ofNat 14), none⟩] =
    .ok [⟨0, 22, some [49, 50, 51, 52, 53, 54, 55, 56, 57, 48, 49, 50, 51, 52, 53], some [68], some [85, 83, 68]⟩] := by
  decide +kernel

/-- the SYS_NUM branch: `5 D 3` (a bare number after the main amount counts as hundredths) → `5.03` -/
example : mergeCompound 15 demoCfg
    [⟨true, false, 0, 3, true, some [68], some (ofNat 5), none⟩, ⟨false, true, 4, 1, false, none, none, some (ofNat 3)⟩] =
    .ok [⟨0, 5, some [53, 46, 48, 51], some [68], some [85, 83, 68]⟩] := by decide +kernel

/-- a fraction of ANOTHER currency does not join the group: two entities (the second, a fraction unit alone, is not a
currency the ISO table knows) -/
example : (mergeCompound 15 demoCfg
    [⟨true, false, 0, 3, true, some [68], some (ofNat 5), none⟩, ⟨true, false, 4, 3, true, some [80], some (ofNat 3), none⟩]).toOption.map
      (·.map fun r => (r.start, r.len, r.unit)) = some [(0, 3, some [68]), (4, 3, some [80])] := by decide +kernel

end RTV.Unit
