import RTV.Props.C07
import RTV.Lemmas.TimeFrontEvAll
import RTV.Gen.ReTables
/-!
# C07, front end — from the TEXT of an English clock time to the groups `clock24` / `clock12` assume, by theorem

`Props/C07.lean` proves DECODE → RESOLVE: given the named groups `hour` / `min` / `sec` and the am / pm classification of
`desc`, the entity is that time (`clock24`, `clock12`, `ambiguous_two_readings`).  This file closes the gap in front of it
for English: `BaseTimeParser.parse_basic_regex_match` (RTV.Model.TimeFront: `strip().lower()`, `at_regex` on the text and on
`time_token_prefix` + text with the whole-text test, the number-word table, the loop of `RegExpUtility.exact_match` over the
twelve compiled `time_regexes` of the working tree — all regenerated as `RE` terms, RTV/Gen/TimeRegexEn.lean — `get_group`
of the seventeen names `match_to_time` reads, the three description regexes searched in `desc`) applied to the text of a
time in a layout of `contracts/C07front.json` (regenerated token lists, RTV/Gen/TimeLayoutsEn.lean) hands `match_to_time`
exactly the hour / minute / second the text was rendered from and the designator's am / pm reading.

What is covered how:
* EVERY layout of the contract (21: `HH:MM`, `HH:MM:SS`, `H:MM`, and `h`, `h:MM`, `h:MM:SS` with ` am`, `am`, ` a.m.`, ` pm`,
  `pm`, ` p.m.`), EVERY hour of the layout's range (0..23, resp. 1..12), EVERY minute and second 0..59 — all 86,400 times of
  `HH:MM:SS`, no representative times.  The finite part is kernel evaluation (`decide +kernel`,
  RTV/Lemmas/TimeFrontEv*.lean) of the matcher of RTV.Model.DateFront on ABSTRACT texts (a set of candidate characters per
  position); `matchK_mono` + `abs_refines_conc` (Lemmas/DateFront, DateFrontCover) turn a known abstract outcome into the
  outcome on every concrete text drawn from the candidates; `coverBT` (evaluated) shows every time's text is drawn from
  one of the abstract texts.  For each layout: `at_regex` hands nothing over (neither on the text nor on `at ` + text),
  the text is no key of the number-word table, the regexes before the accepting one have no exact match, the accepting one
  matches the whole text with `hour` / `min` / `sec` / `desc` lying exactly on the tokens and none of the other thirteen
  groups taking part, `am_desc_regex` / `pm_desc__regex` / `am_pm_desc_regex` classify the designator.
* the engine tables: any `Tables` that agrees with ASCII below 128 (`retables_ascii_time`: the exported tables of the running
  `regex` module do); `str.strip`: any `Uni` for which no visible ASCII character is white space; `str.lower`: any
  code-point map that leaves ASCII characters other than `A`–`Z` alone.
* a change of a time regex, of a description regex, of the number-word table or of a contract layout regenerates the terms
  these theorems are about; the evaluation facts are then re-checked (or break).
Not covered here: the time EXTRACTOR (which span of a sentence is handed to the parser) — pipeline level
(harness/corr/c07.py); designator phrases (`in the morning`: suffix group, `designator_cultures`); other cultures.
-/
namespace RTV.TimeFront
open RTV.Re RTV.Py RTV.DtRes RTV.Gen.TimeRegexEn RTV.Gen.TimeLayoutsEn RTV.Gen.DtMaps
open RTV.DateFront (AsciiAgree TextUni pad2)

/-! ## the engine's tables, the number-word table -/

def asciiAgreeBT (T : Tables) : Bool :=
  (List.range 128).all fun c =>
    T.digit c == asciiTables.digit c && T.word c == asciiTables.word c && T.space c == asciiTables.space c

theorem asciiAgree_of_BT (T : Tables) (h : asciiAgreeBT T = true) : AsciiAgree T := by
  intro c hc
  unfold asciiAgreeBT at h
  simp only [List.all_eq_true, List.mem_range, Bool.and_eq_true, beq_iff_eq] at h
  obtain ⟨⟨h1, h2⟩, h3⟩ := h c hc
  exact ⟨h1, h2, h3⟩

/-- `\d`, `\w`, `\s` of the running `regex` module (RTV/Gen/ReTables.lean) are the ASCII classes below 128 -/
theorem retables_ascii_time : AsciiAgree RTV.Gen.reTables := asciiAgree_of_BT _ (by decide +kernel)

/-- no key of the regenerated English `Numbers` table begins with a digit: a clock-time text never takes the number-word
branch -/
theorem numbers_en_no_digit_keys : noDigitKeys numbers_en = true := by decide +kernel

/-! ## every layout has its evaluated facts -/

theorem layouts_have_facts : ∀ Y ∈ layoutsEn, ∃ k, Ev.LayoutFacts Y k := by
  intro Y hY
  simp only [layoutsEn, List.mem_cons, List.mem_nil_iff, or_false] at hY
  rcases hY with rfl | rfl | rfl | rfl | rfl | rfl | rfl | rfl | rfl | rfl | rfl | rfl | rfl | rfl | rfl | rfl | rfl | rfl |
    rfl | rfl | rfl
  · exact ⟨_, Ev.facts0⟩
  · exact ⟨_, Ev.facts1⟩
  · exact ⟨_, Ev.facts2⟩
  · exact ⟨_, Ev.facts3⟩
  · exact ⟨_, Ev.facts4⟩
  · exact ⟨_, Ev.facts5⟩
  · exact ⟨_, Ev.facts6⟩
  · exact ⟨_, Ev.facts7⟩
  · exact ⟨_, Ev.facts8⟩
  · exact ⟨_, Ev.facts9⟩
  · exact ⟨_, Ev.facts10⟩
  · exact ⟨_, Ev.facts11⟩
  · exact ⟨_, Ev.facts12⟩
  · exact ⟨_, Ev.facts13⟩
  · exact ⟨_, Ev.facts14⟩
  · exact ⟨_, Ev.facts15⟩
  · exact ⟨_, Ev.facts16⟩
  · exact ⟨_, Ev.facts17⟩
  · exact ⟨_, Ev.facts18⟩
  · exact ⟨_, Ev.facts19⟩
  · exact ⟨_, Ev.facts20⟩

/-- the shape of the contract: 21 layouts, each with an hour token; a layout without designator is demanded for hours
0..23, one with a designator (exactly one of am / pm) for hours 1..12; and which of `time_regexes` hands each over
(TimeRegex1 = 0 for `h am`, TimeRegex2 = 1 for the colon forms) -/
def layoutShapeB (Y : Layout) : Bool :=
  (firstTok 1 Y.toks).isSome && Y.hi ≤ 23 &&
  (if Y.am || Y.pm then Y.lo == 1 && Y.hi == 12 && !(Y.am && Y.pm) else Y.lo == 0 && Y.hi == 23)

theorem layouts_shape : layoutsEn.length = 21 ∧ layoutsEn.all layoutShapeB = true ∧
    Ev.acceptingRegex = [1, 1, 1, 0, 0, 0, 0, 0, 0, 1, 1, 1, 1, 1, 1, 1, 1, 1, 1, 1, 1] := by
  decide

/-! ## text → groups -/

/-- FRONT END, groups. For every layout of the contract, every hour of its range, every minute and second 0..59, for
every engine table that agrees with ASCII below 128: `parse_basic_regex_match` hands the rendered text to `match_to_time`
from the loop over `time_regexes` (not from `at_regex`, not from the number-word branch), and the groups are exactly: `hour`
/ `min` / `sec` = the rendered hour / minute / second tokens (`''` for a token the layout does not have), the description
flags = the layout's designator, every other group empty. -/
theorem front_groups_en {T : Tables} (hT : AsciiAgree T) {u : Uni} (hu : TextUni u) {lowerC : Nat → Str}
    (hl : LowerAscii lowerC) (Y : Layout) (hY : Y ∈ layoutsEn) (h m s : Nat) (hh : Y.lo ≤ h ∧ h ≤ Y.hi) (hm : m < 60)
    (hs : s < 60) :
    ∃ k mt, parseTime T u lowerC Ev.enFront numbers_en (renderT Y.toks h m s) =
      some (.toTime (.rx k) mt (clockGroups Y.toks h m s Y.am Y.pm)) := by
  obtain ⟨k, hf⟩ := layouts_have_facts Y hY
  obtain ⟨atc, hatc⟩ := hf.atr
  obtain ⟨ac, hac⟩ := hf.acc
  have hch : ∃ rc : Nat → CertT, ∀ j, j < k →
      coverBT Y.toks Y.lo Y.hi (rc j) = true ∧ rejAllT Ev.enFront j Y.toks (rc j) = true := by
    classical
    refine ⟨fun j => if hj : j < k then (hf.rej j hj).choose else ac, fun j hj => ?_⟩
    simp only [hj, dif_pos]
    exact (hf.rej j hj).choose_spec
  obtain ⟨rc, hrc⟩ := hch
  exact ⟨k, front_time_all hT hu hl Ev.enFront numbers_en numbers_en_no_digit_keys Y.toks Y.lo Y.hi Y.am Y.pm k atc rc ac
    hatc hrc hac hf.desc h m s hh hm hs⟩

/-! ## groups → `Clock` (the hypothesis of `clock24` / `clock12`) -/

theorem decStr_one (n : Nat) (h : n < 10) : decStr n = [48 + n] := by
  simp [decStr, decAux_succ, h]

theorem decStr_two (n : Nat) (h1 : 10 ≤ n) (h2 : n < 100) : decStr n = [48 + n / 10, 48 + n % 10] := by
  have e : n + 1 = (n - 1) + 1 + 1 := by omega
  have a : ¬ n < 10 := by omega
  have b : n / 10 < 10 := by omega
  simp only [decStr, e, decAux_succ, a, b, if_true, if_false]

theorem isNum_decStr (u : Uni) (ha : u.Ascii) (n : Nat) (h : n < 100) : IsNum u (decStr n) n := by
  by_cases h10 : n < 10
  · rw [decStr_one n h10]; exact isNum_one u ha n (by omega)
  · rw [decStr_two n (by omega) h]
    have := isNum_two u ha (n / 10) (n % 10) (by omega) (by omega)
    have e : n / 10 * 10 + n % 10 = n := by omega
    rwa [e] at this

theorem isNum_pad2 (u : Uni) (ha : u.Ascii) (n : Nat) (h : n < 100) : IsNum u (pad2 n) n := by
  unfold pad2
  by_cases h10 : n < 10
  · simp only [h10, if_true]
    rw [decStr_one n h10]
    have := isNum_two u ha 0 n (by omega) (by omega)
    simpa using this
  · simp only [h10, if_false]; exact isNum_decStr u ha n h

/-- the clock time a layout's tokens denote: the hour token's text with the hour, the minute / second token's text (when
the layout has one) with the minute / second -/
def clockOf (L : List Tok) (h m s : Nat) : Clock :=
  { hs := tokText L 1 h m s, h := h,
    ms := (firstTok 2 L).map fun t => (t.render h m s, m),
    ss := (firstTok 3 L).map fun t => (t.render h m s, s) }

theorem clockGroups_eq (L : List Tok) (h m s : Nat) (amD pmD : Bool) :
    clockGroups L h m s amD pmD = (clockOf L h m s).groups amD pmD := by
  unfold clockGroups clockOf Clock.groups tokText
  cases firstTok 2 L <;> cases firstTok 3 L <;> rfl

theorem clockOf_wf (u : Uni) (ha : u.Ascii) (L : List Tok) (hL : (firstTok 1 L).isSome = true) (h m s : Nat)
    (h24 : h < 24) (hm : m < 60) (hs : s < 60) : (clockOf L h m s).WF u := by
  obtain ⟨t, ht⟩ := Option.isSome_iff_exists.1 hL
  have hk := firstTok_kind 1 L t ht
  refine ⟨?_, h24, ?_, ?_⟩
  · simp only [clockOf, tokText, ht]
    cases t <;> simp_all [Tok.kind, Tok.render]
    · exact isNum_decStr u ha h (by omega)
    · exact isNum_pad2 u ha h (by omega)
  · intro p hp
    simp only [clockOf] at hp
    cases hf : firstTok 2 L with
    | none => simp [hf] at hp
    | some t2 =>
      have hk2 := firstTok_kind 2 L t2 hf
      simp only [hf, Option.map_some, Option.some.injEq] at hp
      subst hp
      cases t2 <;> simp_all [Tok.kind, Tok.render]
      exact isNum_pad2 u ha m (by omega)
  · intro p hp
    simp only [clockOf] at hp
    cases hf : firstTok 3 L with
    | none => simp [hf] at hp
    | some t3 =>
      have hk3 := firstTok_kind 3 L t3 hf
      simp only [hf, Option.map_some, Option.some.injEq] at hp
      subst hp
      cases t3 <;> simp_all [Tok.kind, Tok.render]
      exact isNum_pad2 u ha s (by omega)

theorem layout_shape_of_mem (Y : Layout) (hY : Y ∈ layoutsEn) : layoutShapeB Y = true := by
  have := layouts_shape.2.1
  simp only [List.all_eq_true] at this
  exact this Y hY

/-- the front end composed with `match_to_time` and the resolution assembly is `resolveTime` on the clock's groups -/
theorem frontResolve_eq {T : Tables} (hT : AsciiAgree T) {u : Uni} (hu : TextUni u) {lowerC : Nat → Str}
    (hl : LowerAscii lowerC) (cfg : TimeCfg) (hn : cfg.numbers = numbers_en) (Y : Layout) (hY : Y ∈ layoutsEn)
    (h m s : Nat) (hh : Y.lo ≤ h ∧ h ≤ Y.hi) (hm : m < 60) (hs : s < 60) (ref : DT) :
    frontResolveTime T u lowerC Ev.enFront cfg (renderT Y.toks h m s) ref =
      resolveTime u cfg ((clockOf Y.toks h m s).groups Y.am Y.pm) ref := by
  obtain ⟨k, mt, hp⟩ := front_groups_en hT hu hl Y hY h m s hh hm hs
  simp only [frontResolveTime, frontToTime, hn, hp, resolveTime, clockGroups_eq]

/-! ## text → TIMEX and value are that time -/

/-- C07(a) FOR THE TEXT (English). Every 24-hour time `HH:MM`, `HH:MM:SS`, `H:MM` (the contract's layouts without a
designator), 00:00 … 23:59:59: the time parser's front end on the regenerated regexes followed by `match_to_time`,
`BaseTimeParser.parse` and `_date_time_resolution` yields that time; for an hour 1–12 additionally the reading twelve hours
later — and nothing else.  Every reference date, every engine table that agrees with ASCII below 128.  (Repaired hour-0
test; composition of `front_groups_en` with `clock24`.) -/
theorem front_clock24 {T : Tables} (hT : AsciiAgree T) {u : Uni} (hu : TextUni u) {lowerC : Nat → Str}
    (hl : LowerAscii lowerC) (cfg : TimeCfg) (hn : cfg.numbers = numbers_en) (hfix : cfg.zeroHourIsNone = false)
    (Y : Layout) (hY : Y ∈ layoutsEn) (hno : Y.am = false ∧ Y.pm = false) (h m s : Nat) (h24 : h < 24) (hm : m < 60)
    (hs : s < 60) (ref : DT) (hv : ref.date.valid = true) :
    frontResolveTime T u lowerC Ev.enFront cfg (renderT Y.toks h m s) ref =
      .ok (some (if 1 ≤ h ∧ h ≤ 12 then [(clockOf Y.toks h m s).value h, (clockOf Y.toks h m s).value (pmHour h)]
                 else [(clockOf Y.toks h m s).value h])) := by
  have hsh := layout_shape_of_mem Y hY
  simp only [layoutShapeB, hno.1, hno.2, Bool.or_self, Bool.false_eq_true, if_false, Bool.and_eq_true, beq_iff_eq,
    decide_eq_true_eq] at hsh
  obtain ⟨⟨hft, _⟩, hlo, hhi⟩ := hsh
  rw [frontResolve_eq hT hu hl cfg hn Y hY h m s (by omega) hm hs ref, hno.1, hno.2]
  have wf := clockOf_wf u hu.ascii Y.toks hft h m s h24 hm hs
  exact clock24 u hu.ascii cfg hfix (clockOf Y.toks h m s) wf ref hv

/-- C07(b) FOR THE TEXT (English). Every 12-hour time `h`, `h:MM`, `h:MM:SS` with ` am`, `am`, ` a.m.`, ` pm`, `pm`, ` p.m.`
(the contract's layouts with a designator), hour 1..12: exactly one value, `h am ↦ h mod 12` (12 am is 00), `h pm ↦
h mod 12 + 12` (12 pm is 12), same minute and second.  Both variants of the hour-0 test. -/
theorem front_clock12 {T : Tables} (hT : AsciiAgree T) {u : Uni} (hu : TextUni u) {lowerC : Nat → Str}
    (hl : LowerAscii lowerC) (cfg : TimeCfg) (hn : cfg.numbers = numbers_en)
    (Y : Layout) (hY : Y ∈ layoutsEn) (hd : Y.am = true ∨ Y.pm = true) (h m s : Nat) (h1 : 1 ≤ h) (h12 : h ≤ 12)
    (hm : m < 60) (hs : s < 60) (ref : DT) (hv : ref.date.valid = true) :
    frontResolveTime T u lowerC Ev.enFront cfg (renderT Y.toks h m s) ref =
      .ok (some [(clockOf Y.toks h m s).value (h % 12 + if Y.pm then 12 else 0)]) := by
  have hsh := layout_shape_of_mem Y hY
  have hor : (Y.am || Y.pm) = true := by rcases hd with h | h <;> simp [h]
  simp only [layoutShapeB, hor, if_true, Bool.and_eq_true, decide_eq_true_eq, beq_iff_eq, Bool.not_eq_true',
    Bool.and_eq_false_iff] at hsh
  obtain ⟨⟨hft, _⟩, ⟨hlo, hhi⟩, hex⟩ := hsh
  rw [frontResolve_eq hT hu hl cfg hn Y hY h m s (by omega) hm hs ref]
  have wf := clockOf_wf u hu.ascii Y.toks hft h m s (by omega) hm hs
  have hneg : Y.am = !Y.pm := by
    rcases hd with h | h <;> rcases hex with h' | h' <;> simp_all
  rw [hneg]
  exact clock12 u hu.ascii cfg (clockOf Y.toks h m s) wf h1 h12 Y.pm ref hv

/-- C07(c) FOR THE TEXT (English). An hour 1–12 written without am / pm (`HH:MM`, `HH:MM:SS`, `H:MM`) yields exactly the
two readings twelve hours apart: hour `h` and hour `(h + 12) mod 24`, same minute and second.  Both variants. -/
theorem front_ambiguous_two_readings {T : Tables} (hT : AsciiAgree T) {u : Uni} (hu : TextUni u) {lowerC : Nat → Str}
    (hl : LowerAscii lowerC) (cfg : TimeCfg) (hn : cfg.numbers = numbers_en)
    (Y : Layout) (hY : Y ∈ layoutsEn) (hno : Y.am = false ∧ Y.pm = false) (h m s : Nat) (h1 : 1 ≤ h) (h12 : h ≤ 12)
    (hm : m < 60) (hs : s < 60) (ref : DT) (hv : ref.date.valid = true) :
    frontResolveTime T u lowerC Ev.enFront cfg (renderT Y.toks h m s) ref =
        .ok (some [(clockOf Y.toks h m s).value h, (clockOf Y.toks h m s).value ((h + 12) % 24)]) ∧
      ((h + 12) % 24 + 24 - h) % 24 = 12 := by
  have hsh := layout_shape_of_mem Y hY
  simp only [layoutShapeB, hno.1, hno.2, Bool.or_self, Bool.false_eq_true, if_false, Bool.and_eq_true, beq_iff_eq,
    decide_eq_true_eq] at hsh
  obtain ⟨⟨hft, _⟩, hlo, hhi⟩ := hsh
  rw [frontResolve_eq hT hu hl cfg hn Y hY h m s (by omega) hm hs ref, hno.1, hno.2]
  have wf := clockOf_wf u hu.ascii Y.toks hft h m s (by omega) hm hs
  exact ambiguous_two_readings u hu.ascii cfg (clockOf Y.toks h m s) wf h1 h12 ref hv

/-! ## the text-level statement spelled out, the engine's tables, witnesses -/

/-- the English time configuration with the regenerated number-word table, repaired hour-0 test, the modelled prefix /
suffix adjusters (not reached by a digit clock time) -/
def enTimeCfg (u : Uni) (flags : List Bool) (ltoh : Option (Str × Str)) (si : SuffixInfo) : TimeCfg :=
  cultureCfg u ("en-us", numbers_en, enPrefixStyle, enSuffixStyle true) flags ltoh si

theorem asciiUni_textT : TextUni asciiUni :=
  ⟨asciiUni_ascii, by intro c h1 h2; simp [asciiUni]; omega⟩

/-- ASCII lower-casing -/
def asciiLower (c : Nat) : Str := [if 65 ≤ c ∧ c ≤ 90 then c + 32 else c]

theorem asciiLower_ok : LowerAscii asciiLower := by
  intro c _ h2
  simp [asciiLower, h2]

/-- `HH:MM:SS` is layout 1 of the contract; its text is the six digits with two colons -/
theorem hhmmss_text (h m s : Nat) :
    layout1 ∈ layoutsEn ∧ renderT layout1.toks h m s = pad2 h ++ 58 :: pad2 m ++ 58 :: pad2 s := by
  constructor
  · decide
  · simp [layout1, renderT, Tok.render]

/-- ALL 86,400 TIMES, with the tables of the running `regex` module: the text `HH:MM:SS` of any time 00:00:00 … 23:59:59
resolves to TIMEX `THH:MM:SS` with value `HH:MM:SS` (and, for an hour 1–12, additionally to the reading twelve hours
later), whatever the reference date. -/
theorem front_hhmmss_engine {u : Uni} (hu : TextUni u) {lowerC : Nat → Str} (hl : LowerAscii lowerC) (flags : List Bool)
    (ltoh : Option (Str × Str)) (si : SuffixInfo) (h m s : Nat) (h24 : h < 24) (hm : m < 60) (hs : s < 60) (ref : DT)
    (hv : ref.date.valid = true) :
    frontResolveTime RTV.Gen.reTables u lowerC Ev.enFront (enTimeCfg u flags ltoh si)
        (pad2 h ++ 58 :: pad2 m ++ 58 :: pad2 s) ref =
      .ok (some ((if 1 ≤ h ∧ h ≤ 12 then [h, pmHour h] else [h]).map fun (hh : Nat) =>
        { timex := 84 :: fmtD 2 (hh : Int) ++ 58 :: fmtD 2 (m : Int) ++ 58 :: fmtD 2 (s : Int), type := sTime,
          value := some (hms hh m s) })) := by
  obtain ⟨hmem, htext⟩ := hhmmss_text h m s
  rw [← htext, front_clock24 retables_ascii_time hu hl (enTimeCfg u flags ltoh si) rfl rfl layout1 hmem ⟨rfl, rfl⟩ h m s h24 hm
    hs ref hv]
  have e : ∀ hh, (clockOf layout1.toks h m s).value hh =
      { timex := 84 :: fmtD 2 (hh : Int) ++ 58 :: fmtD 2 (m : Int) ++ 58 :: fmtD 2 (s : Int), type := sTime,
        value := some (hms hh m s) } := by
    intro hh
    simp [Clock.value, Clock.timex, Clock.tail, Clock.m, Clock.s, clockOf, layout1, firstTok, Tok.kind, sColon]
  split <;> simp [e]

/-- `12 am` is 00:00 and `12 pm` is 12:00 — the texts themselves, engine tables, any reference: one value each,
`T00` / `00:00:00` and `T12` / `12:00:00`. -/
theorem front_12am_12pm {u : Uni} (hu : TextUni u) {lowerC : Nat → Str} (hl : LowerAscii lowerC) (flags : List Bool)
    (ltoh : Option (Str × Str)) (si : SuffixInfo) (ref : DT) (hv : ref.date.valid = true) :
    frontResolveTime RTV.Gen.reTables u lowerC Ev.enFront (enTimeCfg u flags ltoh si) [49, 50, 32, 97, 109] ref =
      .ok (some [{ timex := [84, 48, 48], type := sTime, value := some [48, 48, 58, 48, 48, 58, 48, 48] }]) ∧
    frontResolveTime RTV.Gen.reTables u lowerC Ev.enFront (enTimeCfg u flags ltoh si) [49, 50, 32, 112, 109] ref =
      .ok (some [{ timex := [84, 49, 50], type := sTime, value := some [49, 50, 58, 48, 48, 58, 48, 48] }]) := by
  have ea : renderT layout3.toks 12 0 0 = [49, 50, 32, 97, 109] := by decide
  have ep : renderT layout6.toks 12 0 0 = [49, 50, 32, 112, 109] := by decide
  have ha := front_clock12 retables_ascii_time hu hl (enTimeCfg u flags ltoh si) rfl layout3 (by decide) (Or.inl rfl) 12 0 0
    (by omega) (by omega) (by omega) (by omega) ref hv
  have hp := front_clock12 retables_ascii_time hu hl (enTimeCfg u flags ltoh si) rfl layout6 (by decide) (Or.inr rfl) 12 0 0
    (by omega) (by omega) (by omega) (by omega) ref hv
  rw [ea] at ha
  rw [ep] at hp
  have va : (clockOf layout3.toks 12 0 0).value (12 % 12 + if layout3.pm = true then 12 else 0) =
      { timex := [84, 48, 48], type := sTime, value := some [48, 48, 58, 48, 48, 58, 48, 48] } := by decide
  have vp : (clockOf layout6.toks 12 0 0).value (12 % 12 + if layout6.pm = true then 12 else 0) =
      { timex := [84, 49, 50], type := sTime, value := some [49, 50, 58, 48, 48, 58, 48, 48] } := by decide
  rw [va] at ha
  rw [vp] at hp
  exact ⟨ha, hp⟩

/-- the front end does not depend on the reference date beyond what `match_to_time` copies from it: two references give
the same values -/
theorem front_reference_independent {u : Uni} (hu : TextUni u) {lowerC : Nat → Str} (hl : LowerAscii lowerC)
    (flags : List Bool) (ltoh : Option (Str × Str)) (si : SuffixInfo) (Y : Layout) (hY : Y ∈ layoutsEn)
    (hno : Y.am = false ∧ Y.pm = false) (h m s : Nat) (h24 : h < 24) (hm : m < 60) (hs : s < 60) (R₁ R₂ : DT)
    (hv1 : R₁.date.valid = true) (hv2 : R₂.date.valid = true) :
    frontResolveTime RTV.Gen.reTables u lowerC Ev.enFront (enTimeCfg u flags ltoh si) (renderT Y.toks h m s) R₁ =
      frontResolveTime RTV.Gen.reTables u lowerC Ev.enFront (enTimeCfg u flags ltoh si) (renderT Y.toks h m s) R₂ := by
  rw [front_clock24 retables_ascii_time hu hl _ rfl rfl Y hY hno h m s h24 hm hs R₁ hv1,
    front_clock24 retables_ascii_time hu hl _ rfl rfl Y hY hno h m s h24 hm hs R₂ hv2]

/-- the branch and the group values as a tuple (source, [hour, min, sec], [am flag, pm flag]) -/
def outTuple : Outcome → Option (Src × List Str × List Bool)
  | .toTime src _ g => some (src, [g.hour, g.min, g.sec], [g.amDesc, g.pmDesc])
  | _ => none

/-- `7:30 p.m.` is the text of 7:30 in layout 14 (the hypotheses are satisfiable), handed over by TimeRegex2 -/
example : layout14 ∈ layoutsEn ∧ renderT layout14.toks 7 30 0 = [55, 58, 51, 48, 32, 112, 46, 109, 46] := by decide

theorem front_730pm_groups :
    (parseTime asciiTables asciiUni asciiLower Ev.enFront numbers_en [55, 58, 51, 48, 32, 112, 46, 109, 46]).bind outTuple =
      some (.rx 1, [[55], [51, 48], []], [false, true]) := by
  decide +kernel

/-- near miss `25:00`: no hour 25 — no regex has an exact match (TimeRegex2 finds `5:00` inside, which is not the whole
text), nothing is handed to `match_to_time` -/
theorem front_2500_rejected :
    (parseTime asciiTables asciiUni asciiLower Ev.enFront numbers_en [50, 53, 58, 48, 48]).map
      (fun o => match o with | .nothing => true | _ => false) = some true := by
  decide +kernel

/-- near miss `7:65`: no minute 65 — rejected -/
theorem front_765_rejected :
    (parseTime asciiTables asciiUni asciiLower Ev.enFront numbers_en [55, 58, 54, 53]).map
      (fun o => match o with | .nothing => true | _ => false) = some true := by
  decide +kernel

/-- boundary `24:00`: the hour regex admits 24; it is handed on as hour 24 / minute 00 and `match_to_time` turns 24 into 0 -/
theorem front_2400_groups :
    (parseTime asciiTables asciiUni asciiLower Ev.enFront numbers_en [50, 52, 58, 48, 48]).bind outTuple =
      some (.rx 1, [[50, 52], [48, 48], []], [false, false]) := by
  decide +kernel

/-- a bare hour word goes through `at_regex` on `at ` + text: `seven` is handed over with `hournum = seven` -/
theorem front_seven_at_prefixed :
    (parseTime asciiTables asciiUni asciiLower Ev.enFront numbers_en [115, 101, 118, 101, 110]).map
      (fun o => match o with | .toTime (.at true) _ g => g.hourNum | _ => []) = some [115, 101, 118, 101, 110] := by
  decide +kernel

end RTV.TimeFront
