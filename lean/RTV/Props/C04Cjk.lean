import RTV.Lemmas.CjkJaBase
import RTV.Lemmas.NumCjkZhAll
import RTV.Lemmas.NumCjkJaAll
import RTV.Lemmas.NumCjkFamA
import RTV.Lemmas.NumCjkFamB
import RTV.Lemmas.NumCjkFamC
import RTV.Lemmas.NumCjkFamD
import RTV.Lemmas.NumCjkFamE
import RTV.Lemmas.NumCjkFamF
/-!
# C04 / C03, the rest of the CJK number parser (`CJKNumberParser`, recognizers_number/number/cjk_parsers.py)

Model: `RTV.NumCjk` (every method of the class, over Python's `int` / `float` / `Decimal`, the configuration's regexes
regenerated as `RTV.Re.RE` terms and run by the backtracking matcher). Three kinds of statements:

* **for every configuration and every string** (regex outcomes as hypotheses, like the period / duration models): how
  `ord_parse`, `get_int_value` (sign, dozen, pair), `frac_parse`, `dou_parse`, `per_parse`, `parse` compose — `cjk_ordinal_*`,
  `cjk_sign_restores`, `cjk_dozen_pair`, `cjk_fraction_value`, `cjk_double_value`, `cjk_double_round_value`,
  `cjk_percent_*`, `cjk_parse_untagged`;
* **for every numeral below 10000** of the specification generators `spellZh` / `spellJa` (kernel evaluation of the
  regenerated configuration): the typed walk of `get_int_value` gives `n` as an `int` or as a binary64 that is exactly
  `n` — `cjk_walk_zh`, `cjk_walk_ja_partial` — and, composed with the unfolding lemmas, `cjk_int_value_zh`,
  `cjk_ordinal_zh`;
* **finite families through the whole `parse`** with the real regexes (kernel evaluation): cardinals, ordinals, signs,
  dozens, spelled percentages, every 成 / 折 digit combination, fractions, digit strings; and the **negative theorems**:
  `cjk_digit_by_digit_witness` (`二〇二〇` is NOT read digit by digit), `cjk_ja_percent_never_parses`;
* **the digits after 点, two variants of the code** (`Cfg.pointFix`, probed by the correspondence): repaired
  (findings/numcjk/point-value-float.diff) — `cjk_point_exact_repaired`: for EVERY integer part and EVERY digit string with at
  most 15 significant digits in all, the value is the binary64 nearest to the written decimal (the exact `Decimal`,
  converted once), and `cjk_point_single_digit_repaired` / `cjk_point_repaired_samples`: printed as written; as first
  found — the labelled pre-fix regression `cjk_point_single_digit` (exactly 零点三, 零点六, 零点七, 一点七 of the 100
  single-digit expressions print wrongly), `cjk_point_float_witness`.
-/
namespace RTV.NumCjk
open RTV.Py RTV.Dec RTV.Num RTV.Re

/-! ## every configuration, every string -/

/-- **ordinal = cardinal of the stripped prefix**: when the text after the first character holds no digit
(`digit_num_regex`), `ord_parse` returns exactly what `int_parse` returns for that text — value, type and resolution. -/
theorem cjk_ordinal_is_cardinal (c : Cfg) (ch : Nat) (s : Str) (h : found c c.digitNum s = .ok false) :
    ordParse c (ch :: s) = intParse c s := ordParse_cardinal c ch s h

/-- … and when it holds a digit, the value is `get_digit_value(text[1:], 1)` (a float) -/
theorem cjk_ordinal_digits (c : Cfg) (ch : Nat) (s : Str) (h : found c c.digitNum s = .ok true) :
    ordParse c (ch :: s) = (getDigitValue c s 1).bind fun v => .ok (.n v, fmt c (.n v)) := ordParse_digits c ch s h

/-- **the sign restores**: if the prologue of `get_int_value` sees the same dozen / pair flags and the same characters
to walk for `s'` (sign found) and `s` (no sign), the value of `s'` is the negation of the value of `s` — for `int` and
for `float` results, with or without the ×12 / ×2 of the epilogue. -/
theorem cjk_sign_restores (c : Cfg) (s s' body : Str) (dz pr : Bool)
    (h' : intPrologue c s' = .ok (dz, pr, true, body)) (h : intPrologue c s = .ok (dz, pr, false, body)) :
    getIntValue c s' = (getIntValue c s).map PyN.neg := by
  rw [getIntValue_of_prologue c s' body dz pr true h', getIntValue_of_prologue c s body dz pr false h]
  cases intLoop c body {} with
  | error e => rfl
  | ok st => simp only [Except.bind]; exact intEpilogue_neg dz pr st.intValue

/-- **dozen / pair**: the value is the walk's value, negated if signed, times 12 (`打` / `ダース`), times 2 (pair words) -/
theorem cjk_dozen_pair (c : Cfg) (s body : Str) (dz pr ng : Bool) (st : St)
    (h : intPrologue c s = .ok (dz, pr, ng, body)) (hl : intLoop c body {} = .ok st) :
    getIntValue c s = (do
      let v := if ng then st.intValue.neg else st.intValue
      let v ← if dz then v.mulInt 12 else pure v
      if pr then v.mulInt 2 else pure v) := by
  rw [getIntValue_of_prologue c s body dz pr ng h, hl]; rfl

/-- without flags `get_int_value` is the walk -/
theorem cjk_int_value_plain (c : Cfg) (s : Str) (hd : found c c.dozen s = .ok false) (hp : found c c.pair s = .ok false)
    (hu : replaceUnit c s = s) (hn : found c c.negSign s = .ok false) :
    getIntValue c s = (intLoop c s {}).bind fun st => .ok st.intValue := by
  rw [getIntValue_of_prologue c s s false false false (intPrologue_plain c s hd hp hu hn)]
  cases intLoop c s {} <;> rfl

/-- **fraction** `[i 又] d 分之 m`: the parts go through `get_value_from_part`, are converted to `Decimal` exactly, and
the value is `Decimal(i) ± Decimal(m) / Decimal(d)` — the quotient rounded half-even to the context precision
(`Dec.div c.p`), then the sum rounded again (`Dec.add c.p`); the mixed number adds the integer part, a sign on the
integer part subtracts the quotient; two parts: the integer part is `zero_char`. -/
theorem cjk_fraction_value (c : Cfg) (t i a b : Str) (parts : List Str) (xi xn xd : PyN) (ng : Bool) (q : Dec)
    (hs : split c c.fracSplit t = .ok parts)
    (hp : (parts = [i, a, b]) ∨ (i = c.zeroChar ∧ ∃ rest, parts = a :: b :: rest ∧ rest.length ≠ 1))
    (hi : getValueFromPart c i = .ok xi) (hn : getValueFromPart c b = .ok xn) (hd : getValueFromPart c a = .ok xd)
    (hneg : found c c.negSign i = .ok ng) (hq : Dec.div c.p xn.toDec xd.toDec = some q) :
    fracParse c t =
      .ok (.d (if ng then Dec.add c.p xi.toDec (Dec.negate q) else Dec.add c.p xi.toDec q),
           fmt c (.d (if ng then Dec.add c.p xi.toDec (Dec.negate q) else Dec.add c.p xi.toDec q))) :=
  fracParse_parts c t i a b parts xi xn xd ng q hs hp hi hn hd hneg hq

/-- **double** `a 点 b`: integer part `get_int_value(a)` plus (minus, when `a` is signed) the binary-float sum
`get_point_value(b)` -/
theorem cjk_double_value (c : Cfg) (t a b : Str) (rest : List Str) (ng : Bool) (i v : PyN)
    (hr : found c c.doubleAndRound t = .ok false)
    (hs : split c c.point (replaceUnit c t) = .ok (a :: b :: rest)) (ha : a ≠ [])
    (hneg : found c c.negSign a = .ok ng) (hi : getIntValue c a = .ok i) (hv : addPoint c i b ng = .ok v) :
    douParse c t = .ok (.n v, fmt c (.n v)) := douParse_point c t a b rest ng i v hr hs ha hneg hi hv

/-- the digits after the point, **as first found**: `int_value ± get_point_value(text)`, the binary-float sum of `0.1 * d` -/
theorem cjk_point_value_first_found (c : Cfg) (h : c.pointFix = false) (i : PyN) (text : Str) (neg : Bool) :
    addPoint c i text neg = (getPointValue c text).bind fun f => if neg then PyN.sub i f else PyN.add i f :=
  addPoint_first_found c h i text neg

/-- the digits after the point, **repaired** (`add_point_value`), full strength: for every configuration of the repaired
variant, every integer part `w`, every non-empty string `text` of characters that `zero_to_nine_map` maps to plain
digits `ns` (any length), if the written number `w.ns` has at most `c.p` (= 15) significant digits then the value is
`float(D)` for the EXACT decimal `D = (w·10^L + ns) × 10^-L` — one correctly rounded conversion, nothing accumulated.
(`repr` of the nearest binary64 of a decimal of at most 15 digits prints those digits — the classical `DBL_DIG` fact,
not proved here: on strings see `cjk_point_single_digit_repaired`, `cjk_point_repaired_samples`, the exact pipeline
oracle of every run and the `repr` correspondence.) -/
theorem cjk_point_exact_repaired (c : Cfg) (hfx : c.pointFix = true) (w : Nat) (text : Str) (ns : List Nat)
    (hr : Reads c text ns) (hne : text ≠ [])
    (hd : ndigits (w * 10 ^ ns.length + digitsVal ns) ≤ c.p) :
    addPoint c (.int (w : Int)) text false =
      (ofOpt Err.overflow (F64.ofDec ⟨false, w * 10 ^ ns.length + digitsVal ns, -(ns.length : Int)⟩)).map PyN.flt :=
  addPoint_repaired c hfx w text ns hr hne hd

/-- the hypotheses are satisfiable in the regenerated Chinese configuration: `零五` reads as the digits 0, 5 -/
example : Reads zhCfgFx [cjkDigit 0, cjkDigit 5] [0, 5] :=
  ⟨by decide +kernel, by decide, by decide +kernel, by decide, trivial⟩

/-- **double with a round unit** `1.5万`: `get_digit_value` of everything but the last character, scaled by the round
value of the last character (inside `_get_digital_value`, in `Decimal` at precision 15, then `float(...)`) -/
theorem cjk_double_round_value (c : Cfg) (t : Str) (power : Nat) (v : PyN)
    (hr : found c c.doubleAndRound t = .ok true)
    (hp : lookupS c.roundChar ((replaceUnit c t).drop ((replaceUnit c t).length - 1)) = some power)
    (hv : getDigitValue c ((replaceUnit c t).take ((replaceUnit c t).length - 1)) power = .ok v) :
    douParse c t = .ok (.n v, fmt c (.n v)) := douParse_round c t power v hr hp hv

/-- **percentage**, no `percentage_num_regex` hit (`5%`, `七折`): the value of the branch with a `%` suffix -/
theorem cjk_percent_plain (c : Cfg) (data t st : Str) (v : PyN) (hv : perValue c data t = .ok (v, st))
    (hm : search c c.percentageNum st = .ok none) :
    perParse c data t = .ok (.n v, fmt c (.n v) ++ [37]) := perParse_plain c data t st v hv hm

/-- **percentage** `百分之X` / `千分之X`: the value `X` divided by `(denominator / 100)` — two true divisions, the result
is a float — with a `%` suffix -/
theorem cjk_percent_scaled (c : Cfg) (data t st p0 : Str) (ps : List Str) (i j : Nat) (v demo q w : PyN)
    (hv : perValue c data t = .ok (v, st)) (hm : search c c.percentageNum st = .ok (some (i, j)))
    (hs : split c c.fracSplit (slice st i j) = .ok (p0 :: ps)) (hd : getValueFromPart c p0 = .ok demo)
    (hq : PyN.truediv demo (.int 100) = .ok q) (hw : PyN.truediv v q = .ok w) :
    perParse c data t = .ok (.n w, fmt c (.n w) ++ [37]) := perParse_scaled c data t st p0 ps i j v demo q w hv hm hs hd hq hw

/-- an empty tag never yields a result (`return result` before assignment: UnboundLocalError) -/
theorem cjk_parse_untagged (c : Cfg) (t : Str) : parse c [] t = .error .unboundLocal := rfl

/-! ## the regenerated configurations: facts the statements above rely on -/

/-- the patterns handed to `regex.split` have no capture group (the model's `split` returns no captures), both cultures;
the precision in force in `parse` and at module level is 15 -/
theorem cjk_configuration_facts :
    RTV.Gen.NumCjkZh.fracSplitGroups = 0 ∧ RTV.Gen.NumCjkZh.pointGroups = 0 ∧
    RTV.Gen.NumCjkJa.fracSplitGroups = 0 ∧ RTV.Gen.NumCjkJa.pointGroups = 0 ∧
    zhCfg.p = 15 ∧ jaCfg.p = 15 ∧ zhCfg.pDigital = 15 ∧ RTV.Gen.NumCjkZh.modulePrec = 15 ∧
    zhCfg.chinese = true ∧ zhCfg.japanese = false ∧ jaCfg.japanese = true ∧ jaCfg.chinese = false ∧
    zhCfg.tradToSim.isSome = true ∧ jaCfg.tradToSim.isNone = true := by decide

/-- **Japanese percentages never parse**: `JapaneseNumberParserConfiguration` has no `percentage_num_regex`, so
`per_parse` ends in `AttributeError` for every tag and every text (the factory therefore routes Japanese percentages to
`BasePercentageParser`; spelled ones — `五パーセント` — yield nothing there either). -/
theorem cjk_ja_percent_never_parses (data t : Str) (r : Val × Str) : perParse jaCfg data t ≠ .ok r :=
  perParse_missing jaCfg rfl data t r

/-! ## every numeral below 10000 -/

/-- **Chinese, typed walk**: on `spellZh n` the walk of `get_int_value` over Python numbers (true division
`round_recent / 10`, `int`/`float` mixing) ends with `int_value` an `int` equal to `n` or a binary64 exactly equal to `n`. -/
theorem cjk_walk_zh (n : Nat) (h : n < 10000) :
    ∃ st, intLoop zhCfg (spellZh n) {} = .ok st ∧ st.intValue.isNat n = true := by
  have := zh_loop_all n h
  unfold loopIs at this
  cases hl : intLoop zhCfg (spellZh n) {} with
  | error e => simp [hl] at this
  | ok st => exact ⟨st, rfl, by simpa [hl] using this⟩

/- Japanese, full statement (fails, see `Props/C04.cjk_ja_bare_unit_witness`): the same for every n < 10000. -/
/-- **Japanese, typed walk**, under the exact guard of `cjk_int_ja_partial` -/
theorem cjk_walk_ja_partial (n : Nat) (h : n < 10000) (hg : jaGuardN n = true) :
    ∃ st, intLoop jaCfg (spellJa n) {} = .ok st ∧ st.intValue.isNat n = true := by
  have := ja_loop_all n h hg
  unfold loopIs at this
  cases hl : intLoop jaCfg (spellJa n) {} with
  | error e => simp [hl] at this
  | ok st => exact ⟨st, rfl, by simpa [hl] using this⟩

/-- the guard is the one of `Props/C04` -/
theorem cjk_ja_guard_same (n : Nat) : jaGuardN n = jaGuard n := rfl

/-- **`get_int_value` on a Chinese numeral**: when the prologue finds no dozen / pair / sign and `replace_unit` leaves
the numeral alone (premises discharged by evaluation in `cjk_parse_zh` below for n < 100, by correspondence beyond), the
value is `n`. -/
theorem cjk_int_value_zh (n : Nat) (h : n < 10000)
    (hp : intPrologue zhCfg (spellZh n) = .ok (false, false, false, spellZh n)) :
    ∃ v, getIntValue zhCfg (spellZh n) = .ok v ∧ v.isNat n = true := by
  obtain ⟨st, hl, hv⟩ := cjk_walk_zh n h
  refine ⟨st.intValue, ?_, hv⟩
  rw [getIntValue_of_prologue _ _ _ _ _ _ hp, hl]; rfl

/-- **ordinal of a Chinese numeral** `第` + `spellZh n`: the ordinal path yields `n` (same premises, plus: no digit) -/
theorem cjk_ordinal_zh (n : Nat) (h : n < 10000) (hdig : found zhCfg zhCfg.digitNum (spellZh n) = .ok false)
    (hp : intPrologue zhCfg (spellZh n) = .ok (false, false, false, spellZh n)) :
    ∃ v, ordParse zhCfg (cDi :: spellZh n) = .ok (.n v, fmt zhCfg (.n v)) ∧ v.isNat n = true := by
  obtain ⟨v, hv, hn⟩ := cjk_int_value_zh n h hp
  refine ⟨v, ?_, hn⟩
  rw [cjk_ordinal_is_cardinal zhCfg cDi (spellZh n) hdig]
  simp [intParse, hv, bind, Except.bind, pure, Except.pure]

/-! ## finite families through the whole `parse` (regenerated regexes, kernel evaluation) -/

/-- **Chinese** `parse` on `spellZh n`, `第 spellZh n`, `负 spellZh n`, `spellZh n 打`, `百分之 spellZh n`: resolution strings
`n`, `n`, `-n`, `12n`, `n%` -/
theorem cjk_parse_zh :
    (∀ n, n < 100 → resIs (parse zhCfg tagInteger (spellZh n)) (digitsOf n) = true) ∧
    (∀ n, n < 100 → resIs (parse zhCfg tagOrdinal (cDi :: spellZh n)) (digitsOf n) = true) ∧
    (∀ n, n < 50 → resIs (parse zhCfg tagInteger (cFu :: spellZh (n + 1))) (45 :: digitsOf (n + 1)) = true) ∧
    (∀ n, n < 50 → resIs (parse zhCfg tagInteger (spellZh n ++ [cDa])) (digitsOf (12 * n)) = true) ∧
    (∀ n, n < 60 → resIs (parse zhCfg tagPer (sBaiFenZhi ++ spellZh n)) (digitsOf n ++ [37]) = true) :=
  ⟨allBelow_spec zh_int_fam, allBelow_spec zh_ord_fam, allBelow_spec zh_neg_fam, allBelow_spec zh_dozen_fam,
   allBelow_spec zh_percent_fam⟩

/-- **成 = ×10 %, 折 = ×10 %**, every digit combination 1..9: `k成m` and `km折` are `(10k+m)%`, `k成` and `k折` are `10k%`,
`k成半` is `(10k+5)%` — exactly (the float arithmetic `(k + m*0.1) * 10` happens to round back for all 81 pairs) -/
theorem cjk_cheng_zhe :
    (∀ k m, k < 9 → m < 9 → resIs (parse zhCfg tagPerSpe [cjkDigit (k + 1), cCheng, cjkDigit (m + 1)])
        (digitsOf (10 * (k + 1) + (m + 1)) ++ [37]) = true) ∧
    (∀ k m, k < 9 → m < 9 → resIs (parse zhCfg tagPerSpe [cjkDigit (k + 1), cjkDigit (m + 1), cZhe])
        (digitsOf (10 * (k + 1) + (m + 1)) ++ [37]) = true) ∧
    (∀ k, k < 9 → resIs (parse zhCfg tagPerSpe [cjkDigit (k + 1), cCheng]) (digitsOf (10 * (k + 1)) ++ [37]) = true) ∧
    (∀ k, k < 9 → resIs (parse zhCfg tagPerSpe [cjkDigit (k + 1), cZhe]) (digitsOf (10 * (k + 1)) ++ [37]) = true) ∧
    (∀ k, k < 9 → resIs (parse zhCfg tagPerSpe [cjkDigit (k + 1), cCheng, cHalf]) (digitsOf (10 * (k + 1) + 5) ++ [37]) = true) := by
  refine ⟨?_, ?_, allBelow_spec zh_cheng1_fam, allBelow_spec zh_zhe1_fam, allBelow_spec zh_cheng_half_fam⟩
  · intro k m hk hm
    have := allBelow_spec zh_cheng2_fam (9 * k + m) (by omega)
    have e1 : (9 * k + m) / 9 = k := by omega
    have e2 : (9 * k + m) % 9 = m := by omega
    simpa [zhCheng2, pct, e1, e2] using this
  · intro k m hk hm
    have := allBelow_spec zh_zhe2_fam (9 * k + m) (by omega)
    have e1 : (9 * k + m) / 9 = k := by omega
    have e2 : (9 * k + m) % 9 = m := by omega
    simpa [zhZhe2, pct, e1, e2] using this

/-- **fractions** `d分之m` (d = 2..9, m = 1..8) and `c又d分之m`: the resolution is `CultureInfo.format` of
`Decimal(c) + (Decimal(m) / Decimal(d))` at precision 15 (e.g. `三分之一` = `0.333333333333333`) -/
theorem cjk_fractions_zh :
    (∀ i, i < 64 → resIs (parse zhCfg tagFrac (spellZh (i / 8 + 2) ++ sFenZhi ++ spellZh (i % 8 + 1)))
        (expectFrac none 15 0 (i % 8 + 1) (i / 8 + 2)) = true) ∧
    (∀ i, i < 24 → resIs (parse zhCfg tagFrac (spellZh (i + 1) ++ [cYou] ++ spellZh (i / 4 + 2) ++ sFenZhi ++ spellZh (i % 4 + 1)))
        (expectFrac none 15 (i + 1) (i % 4 + 1) (i / 4 + 2)) = true) :=
  ⟨allBelow_spec zh_frac_fam, allBelow_spec zh_frac_mixed_fam⟩

example : expectFrac none 15 0 1 3 = [48, 46, 51, 51, 51, 51, 51, 51, 51, 51, 51, 51, 51, 51, 51, 51, 51] := by decide +kernel
example : expectFrac none 15 5 1 2 = [53, 46, 53] := by decide +kernel

/-- **digit strings** through `get_digit_value`: the float that is exactly the number written (`2020`, 15 nines …) -/
theorem cjk_digit_strings : ∀ n ∈ digitSamples, digitReads n = true := by
  have := digit_reads_fam
  simpa [List.all_eq_true] using this

/-- **Japanese** `parse` on the digits 0..9: cardinal, `第` ordinal, `マイナス` sign, `ダース` dozen; fractions `d分のm` -/
theorem cjk_parse_ja :
    (∀ n, n < 10 → resIs (parse jaCfg tagInteger (spellJa n)) (digitsOf n) = true) ∧
    (∀ n, n < 10 → resIs (parse jaCfg tagOrdinal (cDi :: spellJa n)) (digitsOf n) = true) ∧
    (∀ n, n < 9 → resIs (parse jaCfg tagInteger (sMinus ++ spellJa (n + 1))) (45 :: digitsOf (n + 1)) = true) ∧
    (∀ n, n < 10 → resIs (parse jaCfg tagInteger (spellJa n ++ sDozenJa)) (digitsOf (12 * n)) = true) ∧
    (∀ i, i < 32 → resIs (parse jaCfg tagFrac (spellJa (i / 4 + 2) ++ sBunNo ++ spellJa (i % 4 + 1)))
        (expectFrac (some (46, 44)) 15 0 (i % 4 + 1) (i / 4 + 2)) = true) :=
  ⟨allBelow_spec ja_int_fam, allBelow_spec ja_ord_fam, allBelow_spec ja_neg_fam, allBelow_spec ja_dozen_fam,
   allBelow_spec ja_frac_fam⟩

/-! ## the repaired point-value variant on strings (kernel evaluation of `zhCfgFx`) -/

/-- **single-digit spelled decimals, repaired**: all 100 expressions `h点d` print the written decimal -/
theorem cjk_point_single_digit_repaired : pointBadFx = [] := zh_point_fx

/-- longer tails up to 15 significant digits (`零点零五`, `四点五六`, `一点一四`, `六十五点二二六〇七`, `三点一四一五九二六五三五八九七九` …)
print the written decimal, also inside `百分之…`; the code as first found prints 8 of these 12 wrongly -/
theorem cjk_point_repaired_samples :
    fxSamples.all fxSampleOk = true ∧ (fxSamples.take 5).all fxPercentOk = true ∧ firstFoundBadSamples = 8 :=
  ⟨zh_point_fx_samples, zh_point_fx_percent, zh_first_found_bad_samples⟩

/-! ## negative theorems (each replayed on the implementation by `harness/lib/numcjkcorr.py`) -/

/- full statement (fails for the code as first found; holds for the repaired variant: `cjk_point_single_digit_repaired`):
   ∀ h d < 10, the resolution of `h点d` is the decimal `h.d`. -/
/-- **pre-fix regression, single-digit spelled decimals** (`zhCfg`, `pointFix = false`): of the 100 expressions `h点d` the code prints exactly four wrongly —
`零点三`, `零点六`, `零点七`, `一点七` (`get_point_value` computes `0.1 * d` in binary floating point and adds it to the
integer part; finding `zh-cn:cjk-double:float-digits`) -/
theorem cjk_point_single_digit : pointBad = [3, 6, 7, 17] := zh_point_bad

/-- the witnesses with their output: `零点三` ↦ `0.30000000000000004`, `零点零五` ↦ `0.05000000000000001`,
`百分之零点三` ↦ `0.30000000000000004%` -/
theorem cjk_point_float_witness :
    resIs (parse zhCfg tagDou [cjkDigit 0, cDian, cjkDigit 3]) (ofString "0.30000000000000004") = true ∧
    resIs (parse zhCfg tagDou [cjkDigit 0, cDian, cjkDigit 0, cjkDigit 5]) (ofString "0.05000000000000001") = true ∧
    resIs (parse zhCfg tagPer (sBaiFenZhi ++ [cjkDigit 0, cDian, cjkDigit 3])) (ofString "0.30000000000000004%") = true := by
  decide +kernel

/- full statement wanted (fails): a string of CJK digits is read digit by digit, `二〇二〇` = 2020. -/
/-- **no digit-by-digit reading of CJK digits**: `get_int_value` keeps only the last digit of `二〇二〇` (0) and of
`一九九八` (8) — `before_value` accumulates only after ASCII / full-width digits (`has_previous_digits = c.isdigit()`); the
Chinese extractor does not extract such strings at all, the Japanese one tags `二〇二〇` as an integer and the parser
answers 0. ASCII digit strings are read by `get_digit_value` (`cjk_digit_strings`). -/
theorem cjk_digit_by_digit_witness :
    (getIntValue zhCfg [0x4E8C, 0x3007, 0x4E8C, 0x3007]).toOption = some (.int 0) ∧
    (getIntValue zhCfg [0x4E00, 0x4E5D, 0x4E5D, 0x516B]).toOption = some (.int 8) ∧
    resIs (parse jaCfg tagInteger [0x4E8C, 0x3007, 0x4E8C, 0x3007]) [48] = true := by decide +kernel

/-- a 16-digit numeral that stays an `int` prints all its digits: `一千万亿零一` = 1000000000000001 -/
example : resIs (parse zhCfg tagInteger [0x4E00, 0x5343, 0x4E07, 0x4EBF, 0x96F6, 0x4E00]) (ofString "1000000000000001") = true := by
  decide +kernel

end RTV.NumCjk
