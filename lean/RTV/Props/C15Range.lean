import RTV.Props.C15
import RTV.Lemmas.TimexGuard
/-!
# C15 (audit item 18) — what range a TIMEX denotes, fractional durations, `collapse` never hangs, time-of-day candidates

`RTV.Props.C15` states soundness / completeness of `evaluate` against the ranges `daterangeFromTimex` /
`timerangeFromTimex` give for the constraints.  This module characterises those two functions INDEPENDENTLY, on calendar
functions (`Date.ord`, first day of the next month, `start + n days`, milliseconds after midnight), so that the range
spec of the soundness theorems is no longer the model's own, uncharacterised function:
`daterange_year`, `daterange_month`, `daterange_days`, `daterange_weeks`, `timerange_of_start_dur`, `timerange_hours`,
`timerange_minutes`, `timerange_parts_of_day` (+ `range_denotation_examples` on strings and the observations about ISO-week
and season constraints).  Not characterised: `(start,end,PnM)` / `(start,end,PnY)` ranges (month / year arithmetic with
day clamping: `timexDateAdd`; tied by unit correspondence only).
Further: `duration_seconds_frac` (all Decimal amounts), `evaluate_collapse_never_hangs` / `collapse_proper`,
`evaluate_time_candidates_no_result` / `evaluate_time_candidates_sound` (the time-of-day candidates, for which
`evaluate_sound` is vacuous because its hypothesis demands a date range).
-/
namespace RTV.Timex
open RTV.Py RTV.Cal
set_option linter.unusedSimpArgs false
set_option linter.unusedVariables false

theorem valid_first (y m : Nat) (hy1 : 1 ≤ y) (hy : y ≤ 9999) (hm1 : 1 ≤ m) (hm : m ≤ 12) : (⟨y, m, 1⟩ : Date).valid = true := by
  have : 1 ≤ daysInMonth y m := by
    unfold daysInMonth
    have : m = 1 ∨ m = 2 ∨ m = 3 ∨ m = 4 ∨ m = 5 ∨ m = 6 ∨ m = 7 ∨ m = 8 ∨ m = 9 ∨ m = 10 ∨ m = 11 ∨ m = 12 := by omega
    rcases this with rfl | rfl | rfl | rfl | rfl | rfl | rfl | rfl | rfl | rfl | rfl | rfl <;> simp <;> (try split) <;> omega
  simp [Date.valid, hy1, hy, hm1, hm, this]

/-! ## what date range a constraint denotes -/

/-- C15 **daterange_year** — a year TIMEX `YYYY` (fields as `Timex('YYYY')` sets them) denotes
`[YYYY-01-01, (YYYY+1)-01-01)`, as ordinals of those calendar dates -/
theorem daterange_year (y : Nat) (hy1 : 1 ≤ y) (hy : y ≤ 9998) :
    daterangeFromTimex { year := some (.int y) } = .ok ⟨(⟨y, 1, 1⟩ : Date).ord, (⟨y + 1, 1, 1⟩ : Date).ord⟩ := by
  have v1 := valid_first y 1 hy1 (by omega) (by omega) (by omega)
  have v2 := valid_first (y + 1) 1 (by omega) (by omega) (by omega) (by omega)
  have h0 : (0 : Int) ≤ (y : Int) + 1 := by omega
  simp [daterangeFromTimex, expandDatetimeRange, infer, isDuration, Num.add, dateFromTimex, mkDate, toInt_int,
    bind, Except.bind, pure, Except.pure, v1, v2, h0]

/-- C15 **daterange_month** — `YYYY-MM` denotes `[YYYY-MM-01, first day of the next month)`, December included
(`nextMonthStart`) -/
theorem daterange_month (y m : Nat) (hy1 : 1 ≤ y) (hy : y ≤ 9999) (hm1 : 1 ≤ m) (hm : m ≤ 12) (hlast : ¬ (y = 9999 ∧ m = 12)) :
    daterangeFromTimex { year := some (.int y), month := some (.int m) } =
      .ok ⟨(⟨y, m, 1⟩ : Date).ord, (nextMonthStart y m).ord⟩ := by
  have v1 := valid_first y m hy1 hy hm1 hm
  by_cases h12 : m = 12
  · subst h12
    have v2 := valid_first (y + 1) 1 (by omega) (by omega) (by omega) (by omega)
    have h0 : (0 : Int) ≤ (y : Int) + 1 := by omega
    simp [daterangeFromTimex, expandDatetimeRange, infer, isDuration, Num.add, Num.eqInt, Num.scaled, pow10, dateFromTimex,
      mkDate, toInt_int, nextMonthStart, bind, Except.bind, pure, Except.pure, v1, v2, h0]
  · have v2 := valid_first y (m + 1) hy1 hy (by omega) (by omega)
    have h0 : (0 : Int) ≤ (m : Int) + 1 := by omega
    have h3 : ¬ ((m : Int) = 12) := by omega
    simp [daterangeFromTimex, expandDatetimeRange, infer, isDuration, Num.add, Num.eqInt, Num.scaled, pow10, dateFromTimex,
      mkDate, toInt_int, nextMonthStart, bind, Except.bind, pure, Except.pure, v1, v2, h0, h12, h3]

theorem dateFromTimex_ymd (d : Date) (hv : d.valid = true) : dateFromTimex (ymd d) = .ok d := by
  have := mkDate_date d hv
  simpa [dateFromTimex, ymd, toInt_int] using this

/-- C15 **daterange_days** — `(YYYY-MM-DD, _, PnD)` (the middle part is ignored by the parser) denotes the `n` days
starting at that date: `[d, d + n)` -/
theorem daterange_days (d : Date) (hv : d.valid = true) (n : Nat) (hn : 1 ≤ n) (hhi : d.ord + n ≤ maxOrd) :
    daterangeFromTimex { year := some (.int d.y), month := some (.int d.m), dayOfMonth := some (.int d.d),
                         days := some (.dec false n 0) } = .ok ⟨d.ord, d.ord + n⟩ := by
  have hy := year_ne_zero d hv
  have hr := ord_range d hv
  have hadd := addDays_ok d (n : Int) (by omega) (by omega) (by unfold maxOrd at hhi; omega)
  have e : ((d.ord : Int) + (n : Int)).toNat = d.ord + n := by omega
  rw [e] at hadd
  obtain ⟨ho, hvo⟩ := ord_ofOrd (d.ord + n) (by omega) hhi
  have h1 := dateFromTimex_ymd d hv
  have h2 := dateFromTimex_ymd _ hvo
  have hn0 : ¬ (n = 0) := by omega
  have hti : (Num.dec false n 0).toInt = (n : Int) := by simp [Num.toInt, Num.scaled, pow10]
  simp [daterangeFromTimex, expandDatetimeRange, infer, isDuration, cloneDatetime, cloneDuration, Timex.clone,
    Timex.initTime, Timex.setHour, Timex.setMinute, Timex.setSecond, Timex.hour, Timex.minute, Timex.second,
    timexDatetimeAdd, timexDateAdd, timexTimeAdd, truthyO, Num.truthy, truthy_int, hy, mkDate_date d hv, hadd, hti, hn0,
    bind, Except.bind, pure, Except.pure]
  unfold ymd at h1 h2
  rw [h1, h2]
  simp [ho]

/-- C15 **daterange_weeks** — `(YYYY-MM-DD, _, PnW)` denotes `[d, d + 7n)` -/
theorem daterange_weeks (d : Date) (hv : d.valid = true) (n : Nat) (hn : 1 ≤ n) (hhi : d.ord + 7 * n ≤ maxOrd)
    (hdig : numDigits (7 * n) ≤ 28) :
    daterangeFromTimex { year := some (.int d.y), month := some (.int d.m), dayOfMonth := some (.int d.d),
                         weeks := some (.dec false n 0) } = .ok ⟨d.ord, d.ord + 7 * n⟩ := by
  have hy := year_ne_zero d hv
  have hr := ord_range d hv
  have hadd := addDays_ok d ((7 * n : Nat) : Int) (by omega) (by omega) (by unfold maxOrd at hhi; omega)
  have e : ((d.ord : Int) + ((7 * n : Nat) : Int)).toNat = d.ord + 7 * n := by omega
  rw [e] at hadd
  obtain ⟨ho, hvo⟩ := ord_ofOrd (d.ord + 7 * n) (by omega) hhi
  have h1 := dateFromTimex_ymd d hv
  have h2 := dateFromTimex_ymd _ hvo
  have hn0 : ¬ (n = 0) := by omega
  have hnd : ¬ (numDigits (7 * n) > 28) := by omega
  have hadd' : addDays d (7 * (n : Int)) = .ok (Date.ofOrd (d.ord + 7 * n)) := by
    have : ((7 * n : Nat) : Int) = 7 * (n : Int) := by push_cast; rfl
    rw [← this]; exact hadd
  have hti : (Num.dec false (7 * n) 0).toInt = ((7 * n : Nat) : Int) := by simp [Num.toInt, Num.scaled, pow10]
  simp [daterangeFromTimex, expandDatetimeRange, infer, isDuration, cloneDatetime, cloneDuration, Timex.clone,
    Timex.initTime, Timex.setHour, Timex.setMinute, Timex.setSecond, Timex.hour, Timex.minute, Timex.second,
    timexDatetimeAdd, timexDateAdd, timexTimeAdd, truthyO, Num.truthy, truthy_int, hy, mkDate_date d hv, hadd, hti, hn0,
    Num.mulInt, hnd, hadd', Functor.map, Except.map, bind, Except.bind, pure, Except.pure]
  unfold ymd at h1 h2
  have h70 : ¬ (7 * n = 0) := by omega
  simp only [h70, if_false, h1, h2]
  simp [ho]

/-! ## what time range a constraint denotes -/

theorem msOf_int (a b c : Int) : msOf (.int a) (.int b) (.int c) = .ok (c * 1000 + b * 60000 + a * 3600000) := by
  have h1 : c * 1000 % 1000 = 0 := by omega
  have h2 : b * 60000 % 1000 = 0 := by omega
  have h3 : a * 3600000 % 1000 = 0 := by omega
  simp [msOf, Num.scaled, pow10, bind, Except.bind, pure, Except.pure, h1, h2, h3]

theorem ms_total (T : Int) (hT : 0 ≤ T) :
    T.fmod 60 * 1000 + (T.fdiv 60).fmod 60 * 60000 + T.fdiv 3600 * 3600000 = 1000 * T := by
  have e1 : T.fdiv 60 = T / 60 := Int.fdiv_eq_ediv_of_nonneg _ (by omega)
  have e2 : T.fdiv 3600 = T / 3600 := Int.fdiv_eq_ediv_of_nonneg _ (by omega)
  have e3 : T.fmod 60 = T % 60 := Int.fmod_eq_emod_of_nonneg _ (by omega)
  have e4 : (T / 60).fmod 60 = (T / 60) % 60 := Int.fmod_eq_emod_of_nonneg _ (by omega)
  rw [e1, e2, e3, e4]
  omega

theorem addTime_clock (h m s : Int) (d : Timex) :
    addTime (({} : Timex).initTime (some (.int h)) (some (.int m)) (some (.int s))) d =
      .ok (({} : Timex).initTime (some (.int ((h * 3600 + m * 60 + s + durSeconds d).fdiv 3600)))
        (some (.int (((h * 3600 + m * 60 + s + durSeconds d).fdiv 60).fmod 60)))
        (some (.int ((h * 3600 + m * 60 + s + durSeconds d).fmod 60)))) := by
  have e : (({} : Timex).initTime (some (.int h)) (some (.int m)) (some (.int s))).time = some ⟨.int h, .int m, .int s⟩ := rfl
  simp only [addTime, Timex.hour, Timex.minute, Timex.second, e, Option.map_some, needInt, bind, Except.bind, pure, Except.pure]

/-- **timerange_of_start_dur** — what time range a TIMEX with a start time of day `h:m:s` and a duration denotes:
`[start, start + duration)` in milliseconds after midnight -/
theorem timerange_of_start_dur (cfg : Cfg) (h m s : Nat) (t : Timex)
    (ht : t.time = some ⟨.int h, .int m, .int s⟩) (hp : t.partOfDay = none) (hd : (infer t).duration = true)
    (hD : 0 ≤ durSeconds (cloneDuration t)) :
    timerangeFromTimex cfg t =
      .ok ⟨1000 * (3600 * (h : Int) + 60 * (m : Int) + (s : Int)),
           1000 * ((3600 * (h : Int) + 60 * (m : Int) + (s : Int)) + durSeconds (cloneDuration t))⟩ := by
  have hty : (infer t).timerange = true := by
    have : isDuration t = true := by simpa [infer] using hd
    simp [infer, isTime, ht, this]
  have hT : (0 : Int) ≤ (h : Int) * 3600 + (m : Int) * 60 + (s : Int) + durSeconds (cloneDuration t) := by omega
  have key := ms_total _ hT
  have key0 := ms_total ((h : Int) * 3600 + (m : Int) * 60 + (s : Int)) (by omega)
  have hx : expandTimeRange cfg t = .ok ⟨({} : Timex).initTime (some (.int h)) (some (.int m)) (some (.int s)),
      ({} : Timex).initTime
        (some (.int (((h : Int) * 3600 + (m : Int) * 60 + (s : Int) + durSeconds (cloneDuration t)).fdiv 3600)))
        (some (.int ((((h : Int) * 3600 + (m : Int) * 60 + (s : Int) + durSeconds (cloneDuration t)).fdiv 60).fmod 60)))
        (some (.int (((h : Int) * 3600 + (m : Int) * 60 + (s : Int) + durSeconds (cloneDuration t)).fmod 60))), none⟩ := by
    unfold expandTimeRange
    simp only [hty, hp, Bool.not_true, Bool.false_eq_true, if_false, bind, Except.bind, pure, Except.pure]
    simp only [Timex.hour, Timex.minute, Timex.second, ht, Option.map_some]
    rw [addTime_clock]
  have e1 : ∀ a b c : Int, timeFromTimexMs (({} : Timex).initTime (some (.int a)) (some (.int b)) (some (.int c))) =
      .ok (c * 1000 + b * 60000 + a * 3600000) := by
    intro a b c
    have e : (({} : Timex).initTime (some (.int a)) (some (.int b)) (some (.int c))).time = some ⟨.int a, .int b, .int c⟩ := rfl
    simp only [timeFromTimexMs, Timex.hour, Timex.minute, Timex.second, e, Option.map_some, Option.getD_some, msOf_int]
  unfold timerangeFromTimex
  rw [hx]
  show (do let a ← timeFromTimexMs _; let b ← timeFromTimexMs _; pure (⟨a, b⟩ : TimeRange)) = _
  rw [e1, e1]
  have a1 : (s : Int) * 1000 + (m : Int) * 60000 + (h : Int) * 3600000 = 1000 * (3600 * (h : Int) + 60 * (m : Int) + (s : Int)) := by
    omega
  have a2 : ((h : Int) * 3600 + (m : Int) * 60 + (s : Int) + durSeconds (cloneDuration t)).fmod 60 * 1000 +
      (((h : Int) * 3600 + (m : Int) * 60 + (s : Int) + durSeconds (cloneDuration t)).fdiv 60).fmod 60 * 60000 +
      ((h : Int) * 3600 + (m : Int) * 60 + (s : Int) + durSeconds (cloneDuration t)).fdiv 3600 * 3600000 =
      1000 * ((3600 * (h : Int) + 60 * (m : Int) + (s : Int)) + durSeconds (cloneDuration t)) := by
    rw [key]; omega
  rw [a1, a2]
  rfl

/-- `(Thh:mm:ss, _, PTnH)` denotes `[hh:mm:ss, hh:mm:ss + n hours)`; `PTnM` likewise with minutes -/
theorem timerange_hours (cfg : Cfg) (h m s n : Nat) :
    timerangeFromTimex cfg { time := some ⟨.int h, .int m, .int s⟩, hours := some (.dec false n 0) } =
      .ok ⟨1000 * (3600 * (h : Int) + 60 * (m : Int) + (s : Int)), 1000 * (3600 * (h : Int) + 60 * (m : Int) + (s : Int) + 3600 * (n : Int))⟩ := by
  have hd : durSeconds (cloneDuration { time := some ⟨.int h, .int m, .int s⟩, hours := some (.dec false n 0) }) = 3600 * (n : Int) := by
    simp [durSeconds, cloneDuration, Timex.clone, Timex.initTime, Timex.setHour, Timex.setMinute, Timex.setSecond,
      Timex.hour, Timex.minute, Timex.second, Num.scaled, pow10]
    omega
  rw [timerange_of_start_dur cfg h m s _ rfl rfl (by simp [infer, isDuration]) (by rw [hd]; omega), hd]

theorem timerange_minutes (cfg : Cfg) (h m s n : Nat) :
    timerangeFromTimex cfg { time := some ⟨.int h, .int m, .int s⟩, minutes := some (.dec false n 0) } =
      .ok ⟨1000 * (3600 * (h : Int) + 60 * (m : Int) + (s : Int)), 1000 * (3600 * (h : Int) + 60 * (m : Int) + (s : Int) + 60 * (n : Int))⟩ := by
  have hd : durSeconds (cloneDuration { time := some ⟨.int h, .int m, .int s⟩, minutes := some (.dec false n 0) }) = 60 * (n : Int) := by
    simp [durSeconds, cloneDuration, Timex.clone, Timex.initTime, Timex.setHour, Timex.setMinute, Timex.setSecond,
      Timex.hour, Timex.minute, Timex.second, Num.scaled, pow10]
    omega
  rw [timerange_of_start_dur cfg h m s _ rfl rfl (by simp [infer, isDuration]) (by rw [hd]; omega), hd]

/-- the parts of day, as `timerange_from_timex` expands them with the tree's `TimexCreator` strings:
`TMO = [08:00, 12:00)`, `TAF = [12:00, 16:00)`, `TEV = [16:00, 20:00)`, `TNI = [20:00, 30:00)` (ten hours, no wrap at midnight), `TDT = [08:00, 18:00)` -/
theorem timerange_parts_of_day :
    timerangeFromTimex genCfg (parse genCfg [84, 77, 79]) = .ok ⟨8 * 3600000, 12 * 3600000⟩ ∧
    timerangeFromTimex genCfg (parse genCfg [84, 65, 70]) = .ok ⟨12 * 3600000, 16 * 3600000⟩ ∧
    timerangeFromTimex genCfg (parse genCfg [84, 69, 86]) = .ok ⟨16 * 3600000, 20 * 3600000⟩ ∧
    timerangeFromTimex genCfg (parse genCfg [84, 78, 73]) = .ok ⟨20 * 3600000, 30 * 3600000⟩ ∧
    timerangeFromTimex genCfg (parse genCfg [84, 68, 84]) = .ok ⟨8 * 3600000, 18 * 3600000⟩ := by
  decide

/-- on strings (tree configuration): `2020`, `2020-12`, `(2020-01-15,x,P46D)`, `(2020-01-06,x,P2W)`, `(T08,T12,PT4H)`,
`(T08:30,x,PT45M)` -/
theorem range_denotation_examples :
    daterangeFromTimex (parse genCfg [50, 48, 50, 48]) = .ok ⟨(⟨2020, 1, 1⟩ : Date).ord, (⟨2021, 1, 1⟩ : Date).ord⟩ ∧
    daterangeFromTimex (parse genCfg [50, 48, 50, 48, 45, 49, 50]) =
      .ok ⟨(⟨2020, 12, 1⟩ : Date).ord, (⟨2021, 1, 1⟩ : Date).ord⟩ ∧
    daterangeFromTimex (parse genCfg sB) = .ok ⟨(⟨2020, 1, 15⟩ : Date).ord, (⟨2020, 1, 15⟩ : Date).ord + 46⟩ ∧
    daterangeFromTimex (parse genCfg [40, 50, 48, 50, 48, 45, 48, 49, 45, 48, 54, 44, 120, 44, 80, 50, 87, 41]) =
      .ok ⟨(⟨2020, 1, 6⟩ : Date).ord, (⟨2020, 1, 6⟩ : Date).ord + 14⟩ ∧
    timerangeFromTimex genCfg (parse genCfg [40, 84, 48, 56, 44, 84, 49, 50, 44, 80, 84, 52, 72, 41]) =
      .ok ⟨8 * 3600000, 12 * 3600000⟩ ∧
    timerangeFromTimex genCfg (parse genCfg [40, 84, 48, 56, 58, 51, 48, 44, 120, 44, 80, 84, 52, 53, 77, 41]) =
      .ok ⟨8 * 3600000 + 30 * 60000, 9 * 3600000 + 15 * 60000⟩ := by
  decide

/-- observations (recorded in findings/timex/README.md, not violations of the property text): an ISO-week constraint
`2020-W05` expands to the WHOLE year 2020, a season `SU` to the empty range at 2001-01-01 -/
theorem range_denotation_observations :
    daterangeFromTimex (parse genCfg [50, 48, 50, 48, 45, 87, 48, 53]) =
      .ok ⟨(⟨2020, 1, 1⟩ : Date).ord, (⟨2021, 1, 1⟩ : Date).ord⟩ ∧
    daterangeFromTimex (parse genCfg [83, 85]) = .ok ⟨(⟨2001, 1, 1⟩ : Date).ord, (⟨2001, 1, 1⟩ : Date).ord⟩ := by
  decide

/-! ## fractional durations -/

/-- the entry `resolve` builds for a duration TIMEX with value text `v` -/
def durEntryS (tv v : Str) : Entry :=
  { timex := .str tv, type := .str tDuration, value := .str v, start := .none, «end» := .none }

/-- C15(b) **duration_seconds_frac** — `duration_seconds` for EVERY Decimal amount `c·10^e` (what `Timex('P1.5D')` sets:
`Decimal('1.5')` = coefficient 15, exponent -1), all seven units: one `duration` entry whose value is the text of the
Decimal with coefficient `unit × c` and the SAME exponent — the exact product `unit × amount`, no rounding (the
coefficients stay below the 28 significant digits of the default context).  With `e = 0` this is `duration_seconds`. -/
theorem duration_seconds_frac (c : Nat) (e : Int) (hn : numDigits (31536000 * c) ≤ 28) (ref : Date)
    (h2 : numDigits (2592000 * c) ≤ 28) (h3 : numDigits (604800 * c) ≤ 28) (h4 : numDigits (86400 * c) ≤ 28)
    (h5 : numDigits (3600 * c) ≤ 28) (h6 : numDigits (60 * c) ≤ 28) :
    resolveTimex genCfg { years := some (.dec false c e) } ref =
      .ok [durEntryS (80 :: decStr false c e ++ [89]) (decStr false (31536000 * c) e)] ∧
    resolveTimex genCfg { months := some (.dec false c e) } ref =
      .ok [durEntryS (80 :: decStr false c e ++ [77]) (decStr false (2592000 * c) e)] ∧
    resolveTimex genCfg { weeks := some (.dec false c e) } ref =
      .ok [durEntryS (80 :: decStr false c e ++ [87]) (decStr false (604800 * c) e)] ∧
    resolveTimex genCfg { days := some (.dec false c e) } ref =
      .ok [durEntryS (80 :: decStr false c e ++ [68]) (decStr false (86400 * c) e)] ∧
    resolveTimex genCfg { hours := some (.dec false c e) } ref =
      .ok [durEntryS (80 :: 84 :: decStr false c e ++ [72]) (decStr false (3600 * c) e)] ∧
    resolveTimex genCfg { minutes := some (.dec false c e) } ref =
      .ok [durEntryS (80 :: 84 :: decStr false c e ++ [77]) (decStr false (60 * c) e)] ∧
    resolveTimex genCfg { seconds := some (.dec false c e) } ref =
      .ok [durEntryS (80 :: 84 :: decStr false c e ++ [83]) (decStr false c e)] := by
  have g1 : ¬ (numDigits (31536000 * c) > 28) := by omega
  have g2 : ¬ (numDigits (2592000 * c) > 28) := by omega
  have g3 : ¬ (numDigits (604800 * c) > 28) := by omega
  have g4 : ¬ (numDigits (86400 * c) > 28) := by omega
  have g5 : ¬ (numDigits (3600 * c) > 28) := by omega
  have g6 : ¬ (numDigits (60 * c) > 28) := by omega
  refine ⟨?_, ?_, ?_, ?_, ?_, ?_, ?_⟩ <;>
    simp [resolveTimex, infer, isDate, isDateRange, isDuration, isTime, isDefinite, truthyO, truthyS, formatT,
      formatFuel, formatDuration, durationValue, Num.mulInt, Num.str, optStr, durEntryS, bind, Except.bind,
      pure, Except.pure, Functor.map, Except.map, g1, g2, g3, g4, g5, g6]

/-- `PT1.5H` is 5400.0 seconds, `P0.5D` 43200.0, `P2.25W` 1360800.00, `PT0.5M` 30.0, `P1.5Y` 47304000.0 (the texts
`str(Decimal)` prints), through `resolve` on the strings -/
theorem duration_seconds_frac_examples (ref : Date) :
    resolve genCfg [[80, 84, 49, 46, 53, 72]] ref = .ok [durEntryS [80, 84, 49, 46, 53, 72] [53, 52, 48, 48, 46, 48]] ∧
    resolve genCfg [[80, 48, 46, 53, 68]] ref = .ok [durEntryS [80, 48, 46, 53, 68] [52, 51, 50, 48, 48, 46, 48]] ∧
    resolve genCfg [[80, 50, 46, 50, 53, 87]] ref =
      .ok [durEntryS [80, 50, 46, 50, 53, 87] [49, 51, 54, 48, 56, 48, 48, 46, 48, 48]] ∧
    resolve genCfg [[80, 84, 48, 46, 53, 77]] ref = .ok [durEntryS [80, 84, 48, 46, 53, 77] [51, 48, 46, 48]] := by
  refine ⟨?_, ?_, ?_, ?_⟩ <;> (simp only [resolve, List.foldlM]; rfl)

/-! ## `collapse` never answers `hang` when the fuel exceeds the number of ranges -/

theorem collapseLoop_fuel {α : Type} (ov : α → α → Bool) (inter : α → α → α) (fuel : Nat) (rs : List α)
    (h : rs.length < fuel) : ∃ r, collapseLoop ov inter fuel rs = some r ∧ r.length ≤ rs.length := by
  obtain ⟨k, rfl⟩ : ∃ k, fuel = k + 1 := ⟨fuel - 1, by omega⟩
  exact collapse_terminates ov inter k rs (by omega)

theorem collapseDates_never_hangs (fuel : Nat) (rs : List DateRange) (h : rs.length < fuel) :
    ∃ r, collapseDates fuel rs = .ok r := by
  obtain ⟨r, hr, _⟩ := collapseLoop_fuel DateRange.isOverlapping DateRange.collapseOverlapping fuel rs h
  exact ⟨sortBy (fun r => (r.s : Int)) r, by simp [collapseDates, hr]; rfl⟩

theorem collapseTimes_never_hangs (fuel : Nat) (rs : List TimeRange) (h : rs.length < fuel) :
    ∃ r, collapseTimes fuel rs = .ok r := by
  obtain ⟨r, hr, _⟩ := collapseLoop_fuel TimeRange.isOverlapping TimeRange.collapseOverlapping fuel rs h
  exact ⟨sortBy (fun r => r.s) r, by simp [collapseTimes, hr]; rfl⟩

theorem mapM_length {α β : Type} (f : α → R β) : ∀ (l : List α) (out : List β), l.mapM f = .ok out → out.length = l.length := by
  intro l
  induction l with
  | nil => intro out h; simp [List.mapM_nil, pure, Except.pure] at h; subst h; rfl
  | cons a r ih =>
    intro out h
    rw [List.mapM_cons] at h
    simp only [bind, Except.bind] at h
    cases ha : f a with
    | error e => simp [ha] at h
    | ok b =>
      simp only [ha] at h
      cases hr : r.mapM f with
      | error e => simp [hr] at h
      | ok bs =>
        simp only [hr, pure, Except.pure] at h
        cases h
        simp [ih bs hr]

/-- C15 **evaluate_collapse_never_hangs** — for EVERY list of constraints: with fuel above the number of constraints
(the driver runs `evaluate` with fuel 64) neither of the two `collapse` calls of `evaluate` (date ranges, time ranges)
runs out of fuel — the repaired `while self.inner_collapse(ranges)` always stops. -/
theorem evaluate_collapse_never_hangs (cfg : Cfg) (fuel : Nat) (tcs : List Timex) (hf : tcs.length < fuel) :
    (∀ ranges, (tcs.filter fun t => (infer t).daterange).mapM daterangeFromTimex = .ok ranges →
        ∃ r, collapseDates fuel ranges = .ok r) ∧
    (∀ ranges, (tcs.filter fun t => (infer t).timerange).mapM (timerangeFromTimex cfg) = .ok ranges →
        ∃ r, collapseTimes fuel ranges = .ok r) := by
  constructor
  · intro ranges h
    have := mapM_length _ _ _ h
    have := List.length_filter_le (fun t => (infer t).daterange) tcs
    exact collapseDates_never_hangs fuel ranges (by omega)
  · intro ranges h
    have := mapM_length _ _ _ h
    have := List.length_filter_le (fun t => (infer t).timerange) tcs
    exact collapseTimes_never_hangs fuel ranges (by omega)

/-! ### collapsed ranges are proper when the supplied ones are -/

section proper
variable {α : Type}

theorem findJ_ov (ov : α → α → Bool) (r : α) : ∀ (rs : List α) (k j : Nat) (r2 : α),
    findJ ov r rs k = some (j, r2) → ov r r2 = true := by
  intro rs
  induction rs with
  | nil => intro k j r2 h; simp [findJ] at h
  | cons a rest ih =>
    intro k j r2 h
    unfold findJ at h
    split at h
    · rename_i hov; cases h; exact hov
    · exact ih _ _ _ h

theorem firstPair_ov (ov : α → α → Bool) : ∀ (rs : List α) (k i j : Nat) (r1 r2 : α),
    firstPair ov rs k = some (i, j, r1, r2) → ov r1 r2 = true := by
  intro rs
  induction rs with
  | nil => intro k i j r1 r2 h; simp [firstPair] at h
  | cons a rest ih =>
    intro k i j r1 r2 h
    unfold firstPair at h
    split at h
    · rename_i j' r2' hj
      cases h
      exact findJ_ov ov _ rest _ _ _ hj
    · exact ih _ _ _ _ _ h

/-- an invariant that `collapse_overlapping r1 r2` inherits only when `r1.is_overlapping(r2)` -/
theorem collapseLoop_inv_ov (ov : α → α → Bool) (inter : α → α → α) (P : α → Prop)
    (hinter : ∀ a b, ov a b = true → P a → P b → P (inter a b)) :
    ∀ (fuel : Nat) (rs out : List α), collapseLoop ov inter fuel rs = some out → (∀ r ∈ rs, P r) → ∀ r ∈ out, P r := by
  intro fuel
  induction fuel with
  | zero => intro rs out h; simp [collapseLoop] at h
  | succ f ih =>
    intro rs out h hP
    unfold collapseLoop at h
    cases hc : innerCollapse ov inter rs with
    | none => simp [hc] at h; subst h; exact hP
    | some rs' =>
      simp only [hc] at h
      refine ih rs' out h ?_
      unfold innerCollapse at hc
      split at hc
      · cases hc
      · split at hc
        · cases hc
        · rename_i i j r1 r2 hp
          cases hc
          have hm := firstPair_mem ov rs 0 i j r1 r2 hp
          have ho := firstPair_ov ov rs 0 i j r1 r2 hp
          intro r hr
          rcases List.mem_append.mp hr with h1 | h1
          · exact hP r (List.mem_of_mem_eraseIdx (List.mem_of_mem_eraseIdx h1))
          · simp at h1; subst h1; exact hinter _ _ ho (hP _ hm.1) (hP _ hm.2)

end proper

/-- C15 **collapse_proper** — if every supplied date range is proper (`start ≤ end`), so is every collapsed one:
`collapse_overlapping` is only applied to pairs for which `is_overlapping` holds, and then the intersection is not
reversed.  (So the year loop of `resolve_date_against_constraint`, whose model answers `hang` on a range reversed by more
than a year, is never entered with such a range when the constraints are proper.) -/
theorem collapse_proper (fuel : Nat) (rs out : List DateRange) (h : collapseDates fuel rs = .ok out)
    (hp : ∀ r ∈ rs, r.s ≤ r.e) : ∀ r ∈ out, r.s ≤ r.e := by
  unfold collapseDates at h
  cases hl : collapseLoop DateRange.isOverlapping DateRange.collapseOverlapping fuel rs with
  | none => simp [hl] at h
  | some l =>
    simp only [hl, pure, Except.pure] at h
    cases h
    intro r hr
    rw [mem_sortBy] at hr
    refine collapseLoop_inv_ov _ _ (fun r => r.s ≤ r.e) ?_ _ _ _ hl hp r hr
    intro a b hov ha hb
    simp only [DateRange.isOverlapping, Bool.or_eq_true, Bool.and_eq_true, decide_eq_true_eq] at hov
    simp only [DateRange.collapseOverlapping]
    omega

/-! ## time-of-day candidates -/

/-- a candidate without any date field and without a duration (e.g. every `Thh[:mm[:ss]]`) -/
def NoDate (t : Timex) : Prop := t.month = none ∧ t.dayOfWeek = none ∧ (infer t).duration = false

theorem resolveDate_noDate (t : Timex) (h : NoDate t) (k : DateRange) : resolveDateAgainstConstraint t k = .ok [] := by
  simp [resolveDateAgainstConstraint, andChainNotNone, h.1, h.2.1, pure, Except.pure]

/-- every string of the four time patterns (`Thh`, `Thh:mm`, `Thh:mm:ss`, `T<part of day>`; digits universally
quantified) is such a candidate -/
theorem noDate_time_forms (cfg : Cfg) (hc : CfgOK cfg) (g : TimeForm) : NoDate (parse cfg (renderT g)) := by
  rw [parse_renderT cfg hc, extract_date_nil cfg hc, hc.time]
  cases g <;> (try (rename_i s; cases s)) <;> refine ⟨?_, ?_, ?_⟩ <;> px_simp cfg hc [infer, isDuration]

/-- C15 **evaluate_time_candidates_no_result** — what `evaluate_sound` leaves unsaid for time-of-day candidates: when at
least one date range is supplied, candidates that carry no date at all (`Thh[:mm[:ss]]`) produce NO result — `evaluate`
returns only definite TIMEXes and a time of day cannot be made definite by a date range (since fix 5cd31f22f; before it
returned an empty TIMEX).  So for these candidates the soundness clause holds because the result is empty, and this
theorem says so explicitly instead of leaving `evaluate_sound` vacuous. -/
theorem evaluate_time_candidates_no_result (cands constraints : List Str) (dranges : List DateRange)
    (hc : ∀ c ∈ cands, NoDate (parse genCfg c))
    (dr : ((constraints.map (parse genCfg)).filter fun t => (infer t).daterange).mapM daterangeFromTimex = .ok dranges)
    (dne : dranges ≠ []) (fuel : Nat) (out : List Str)
    (hout : evaluate genCfg fuel cands constraints = .ok out) : out = [] := by
  rw [evaluate_eq_stages, resolveDurations_eq,
    resolveDurations_nodur genCfg _ cands [] (fun c h => (hc c h).2.2)] at hout
  simp only [List.nil_append, bind, Except.bind, stages234] at hout
  -- stage 2 returns []
  have h2 : ∀ b, resolveByDateRangeConstraints genCfg fuel cands (constraints.map (parse genCfg)) = .ok b → b = [] := by
    intro b hb
    cases hcol : collapseDates fuel dranges with
    | error e =>
      unfold resolveByDateRangeConstraints at hb
      simp [dr, hcol, bind, Except.bind] at hb
    | ok collapsed =>
      have hne := collapseDates_ne_nil _ _ _ hcol dne
      refine List.eq_nil_iff_forall_not_mem.mpr fun s hs => ?_
      obtain ⟨c, hcm, k, _, x, hx, hsx⟩ := (dateStage_mem genCfg fuel _ _ b dranges collapsed dr hcol hne hb s).mp hs
      rw [resolveDate_noDate _ (hc c hcm) k] at hx
      cases hx
      cases hsx
  cases hb : resolveByDateRangeConstraints genCfg fuel cands (constraints.map (parse genCfg)) with
  | error e => simp [hb] at hout
  | ok b =>
    have := h2 b hb
    subst this
    simp only [hb] at hout
    have h3 : resolveByTimeConstraints genCfg [] (constraints.map (parse genCfg)) = .ok [] := by
      unfold resolveByTimeConstraints
      by_cases he : ((List.filter (fun t => (infer t).time) (constraints.map (parse genCfg))).map timeFromTimex).isEmpty = true
      · simp [he, pure, Except.pure]
      · simp [he, removeDuplicates, bind, Except.bind, pure, Except.pure]
    simp only [h3] at hout
    unfold resolveByTimerangeConstraints at hout
    simp only [bind, Except.bind] at hout
    cases hr : (List.filter (fun t => (infer t).timerange) (constraints.map (parse genCfg))).mapM (timerangeFromTimex genCfg) with
    | error e => simp [hr] at hout
    | ok ranges =>
      simp only [hr] at hout
      cases hct : collapseTimes fuel ranges with
      | error e => simp [hct] at hout
      | ok col =>
        simp only [hct] at hout
        by_cases he : col.isEmpty = true
        · simp [he, pure, Except.pure] at hout; exact hout
        · simp [he, removeDuplicates, pure, Except.pure] at hout; exact hout

/-- the types of a time-of-day string: `time`, neither `date` nor `timerange` nor `duration` -/
theorem infer_tod (cfg : Cfg) (hc : CfgOK cfg) (g : TimeForm) (hg : IsTod g) :
    (infer (parse cfg (renderT g))).date = false ∧ (infer (parse cfg (renderT g))).time = true ∧
    (infer (parse cfg (renderT g))).timerange = false ∧ (infer (parse cfg (renderT g))).duration = false := by
  rw [parse_renderT cfg hc, extract_date_nil cfg hc, hc.time]
  cases g
  case pod p => exact absurd hg (by simp [IsTod])
  all_goals (refine ⟨?_, ?_, ?_, ?_⟩ <;> px_simp cfg hc [infer, isDuration, isDate, isTime, truthyO])

theorem isTod_normT (g : TimeForm) (hg : IsTod g) : IsTod (normT g) := by
  cases g with
  | pod p => exact hg
  | h h1 h2 => trivial
  | hm h1 h2 m1 m2 => simp only [normT]; split <;> trivial
  | hms h1 h2 m1 m2 s1 s2 => simp only [normT]; split <;> (try split) <;> trivial

/-- with no date-range constraint the date stage hands the candidates on unchanged -/
theorem dateStage_none (cfg : Cfg) (fuel : Nat) (cands : List Str) (tcs : List Timex) (b : List Str)
    (h : ∀ t ∈ tcs, (infer t).daterange = false)
    (hb : resolveByDateRangeConstraints cfg fuel cands tcs = .ok b) : b = cands := by
  unfold resolveByDateRangeConstraints at hb
  rw [filter_none _ tcs h] at hb
  cases fuel with
  | zero => simp [collapseDates, collapseLoop, bind, Except.bind, pure, Except.pure] at hb
  | succ f =>
    simp [collapseDates, collapseLoop, innerCollapse, firstPair, sortBy, bind, Except.bind, pure, Except.pure] at hb
    exact hb.symm

/-- C15 **evaluate_time_candidates_sound** — the soundness clause for time-of-day candidates, non-vacuously: for ANY
list of candidates `Thh[:mm[:ss]]` (digits universally quantified) and any constraints WITHOUT a date range, every
string `evaluate` returns is the canonical text of one of the candidates (so `Timex(s)` has exactly the candidate's
field values: an instance of the candidate — not definite, since no date range was supplied) and, when time ranges are
supplied, its time of day lies inside at least one SUPPLIED time range. -/
theorem evaluate_time_candidates_sound (gs : List TimeForm) (hgs : ∀ g ∈ gs, IsTod g) (constraints : List Str)
    (tranges : List TimeRange)
    (nodr : ∀ t ∈ constraints.map (parse genCfg), (infer t).daterange = false)
    (tr : ((constraints.map (parse genCfg)).filter fun t => (infer t).timerange).mapM (timerangeFromTimex genCfg) = .ok tranges)
    (fuel : Nat) (out : List Str) (hout : evaluate genCfg fuel (gs.map renderT) constraints = .ok out) :
    ∀ s ∈ out, ∃ g ∈ gs, (s = renderT g ∨ s = renderT (normT g)) ∧ parse genCfg s = parse genCfg (renderT g) ∧
      (tranges ≠ [] → ∃ tm ms, ∃ tr0 ∈ tranges, (parse genCfg s).time = some tm ∧
        msOf tm.hour tm.minute tm.second = .ok ms ∧ tr0.s ≤ ms ∧ ms < tr0.e) := by
  have hc := genCfg_ok'
  rw [evaluate_eq_stages, resolveDurations_eq,
    resolveDurations_nodur genCfg _ (gs.map renderT) [] (by
      intro c hcm
      obtain ⟨g, hg, rfl⟩ := List.mem_map.mp hcm
      exact (infer_tod genCfg hc g (hgs g hg)).2.2.2)] at hout
  simp only [List.nil_append, bind, Except.bind, stages234] at hout
  cases hb : resolveByDateRangeConstraints genCfg fuel (gs.map renderT) (constraints.map (parse genCfg)) with
  | error e => simp [hb] at hout
  | ok b =>
    have hbe := dateStage_none genCfg fuel _ _ b nodr hb
    subst hbe
    simp only [hb] at hout
    cases h3 : resolveByTimeConstraints genCfg (gs.map renderT) (constraints.map (parse genCfg)) with
    | error e => simp [h3] at hout
    | ok c3 =>
      simp only [h3] at hout
      -- stage 3: each string is a candidate or its canonical form
      have hc3 : ∀ s ∈ c3, ∃ g ∈ gs, (s = renderT g ∨ s = renderT (normT g)) := by
        rw [resolveByTimeConstraints_eq] at h3
        simp only at h3
        split at h3
        · simp only [pure, Except.pure] at h3; cases h3
          intro s hs
          obtain ⟨g, hg, rfl⟩ := List.mem_map.mp hs
          exact ⟨g, hg, Or.inl rfl⟩
        · simp only [bind, Except.bind] at h3
          cases hres : (gs.map renderT).foldlM (stepG genCfg (((constraints.map (parse genCfg)).filter fun t => (infer t).time).map timeFromTimex)) [] with
          | error e => simp [hres] at h3
          | ok res =>
            simp only [hres, pure, Except.pure] at h3
            cases h3
            intro s hs
            rw [mem_removeDuplicates] at hs
            have hm := (foldlM_append_mem' _ _ (stepG_eq genCfg _) _ [] res hres s).mp hs
            simp only [List.not_mem_nil, false_or] at hm
            obtain ⟨c, hcm, r, hr, hsr⟩ := hm
            obtain ⟨g, hg, rfl⟩ := List.mem_map.mp hcm
            have hi := infer_tod genCfg hc g (hgs g hg)
            unfold contribG at hr
            simp only [hi.1, Bool.false_and, Bool.false_eq_true, if_false, bind, Except.bind,
              format_parse_T genCfg hc g, pure, Except.pure] at hr
            cases hr
            simp at hsr
            exact ⟨g, hg, Or.inr hsr⟩
      -- stage 4
      rw [resolveByTimerangeConstraints_eq, tr] at hout
      simp only [bind, Except.bind] at hout
      cases hcol : collapseTimes fuel tranges with
      | error e => simp [hcol] at hout
      | ok collapsed =>
        simp only [hcol] at hout
        have hparse : ∀ g, parse genCfg (renderT (normT g)) = parse genCfg (renderT g) := parse_normT genCfg hc
        split at hout
        · rename_i hemp
          simp only [pure, Except.pure] at hout; cases hout
          intro s hs
          obtain ⟨g, hg, hor⟩ := hc3 s hs
          refine ⟨g, hg, hor, ?_, fun hne => ?_⟩
          · rcases hor with rfl | rfl
            · rfl
            · exact hparse g
          · have := collapseTimes_ne_nil fuel tranges collapsed hcol hne
            rw [this] at hemp; cases hemp
        · cases hres : c3.foldlM (stepH genCfg collapsed) [] with
          | error e => simp [hres] at hout
          | ok res =>
            simp only [hres, pure, Except.pure] at hout
            cases hout
            intro s hs
            rw [mem_removeDuplicates] at hs
            have hm := (foldlM_append_mem' _ _ (stepH_eq genCfg collapsed) c3 [] res hres s).mp hs
            simp only [List.not_mem_nil, false_or] at hm
            obtain ⟨s0, hs0, r, hr0, hsr⟩ := hm
            obtain ⟨g, hg, hor⟩ := hc3 s0 hs0
            -- s0 = renderT g' with g' a time-of-day form
            obtain ⟨g', hg', hs0', hpg'⟩ : ∃ g', IsTod g' ∧ s0 = renderT g' ∧ normT g' = normT g := by
              rcases hor with h | h
              · exact ⟨g, hgs g hg, h, rfl⟩
              · exact ⟨normT g, isTod_normT g (hgs g hg), h, normT_idem g⟩
            subst hs0'
            have hi := infer_tod genCfg hc g' hg'
            unfold contribH at hr0
            simp only [hi.2.2.1, Bool.false_eq_true, if_false, hi.2.1, if_true] at hr0
            obtain ⟨k, hk, tm, ms, htm, hms, h1, h2, hf⟩ := resolveTime_sound _ collapsed r hr0 s hsr
            rw [format_parse_T genCfg hc g'] at hf
            cases hf
            rw [hpg']
            have hps : parse genCfg (renderT (normT g)) = parse genCfg (renderT g') := by
              rw [← hpg']; exact hparse g'
            refine ⟨g, hg, Or.inr rfl, hparse g, fun hne => ?_⟩
            obtain ⟨tr0, htr0, h3', h4'⟩ := collapseTimes_sound fuel tranges collapsed hcol k hk ms h1 h2
            exact ⟨tm, ms, tr0, htr0, by rw [hps]; exact htm, hms, h3', h4'⟩

/-- hypotheses satisfiable and the statement non-vacuous: `T09` against the year 2020 gives nothing; against the time
range `(T08,T12,PT4H)` alone it gives `T09` (an instance of the candidate inside the supplied time range, not definite:
no date range was supplied); `T13` lies outside and gives nothing; `T09:00` comes back in canonical form `T09` -/
theorem evaluate_time_candidate_examples :
    NoDate (parse genCfg [84, 48, 57]) ∧
    evaluate genCfg 64 [[84, 48, 57]] [[50, 48, 50, 48]] = .ok [] ∧
    evaluate genCfg 64 [[84, 48, 57]] [[40, 84, 48, 56, 44, 84, 49, 50, 44, 80, 84, 52, 72, 41]] = .ok [[84, 48, 57]] ∧
    evaluate genCfg 64 [[84, 49, 51]] [[40, 84, 48, 56, 44, 84, 49, 50, 44, 80, 84, 52, 72, 41]] = .ok [] ∧
    evaluate genCfg 64 [[84, 48, 57, 58, 48, 48]] [[40, 84, 48, 56, 44, 84, 49, 50, 44, 80, 84, 52, 72, 41]] =
      .ok [[84, 48, 57]] ∧
    evaluate genCfg 64 [[84, 48, 57]] [[50, 48, 50, 48], [40, 84, 48, 56, 44, 84, 49, 50, 44, 80, 84, 52, 72, 41]] = .ok [] := by
  refine ⟨⟨by decide, by decide, by decide⟩, by decide, by decide, by decide, by decide, by decide⟩
end RTV.Timex
