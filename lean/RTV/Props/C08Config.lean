import RTV.Gen.CultureCfg
import RTV.Lemmas.CultureCfg
/-!
# C08 — the culture parser configurations: which shift (swift) a word stands for

Property C08 states that `today / tomorrow / yesterday` are the reference date +0 / +1 / −1 days and that
`this / next / last week|month|year` are the period containing the reference shifted by 0 / +1 / −1.  The arithmetic is
proved in `Props/C08.lean`; WHICH shift a culture's word stands for is decided by the small methods of the culture
configurations (`get_swift_day`, `get_swift_month`, `get_swift_day_or_month`, `get_swift_year`, `get_swift_prefix`,
`is_future`, `is_last_cardinal`, `get_hour`).  Those methods are translated from the source text on every run
(harness/translate/cultureconfig.py → `RTV.Gen.CC.*`), so every theorem below is re-checked by the kernel against the
code as it is now; harness/lib/cultureconfigcorr.py compares the translated definitions with the real methods.

* for ALL texts: `swift_values_all_texts`, `get_hour_stays_in_day`
* the words themselves (kernel evaluation of the regenerated definitions on the culture's own words — the instances of
  the culture's NextPrefixRegex / PreviousPrefixRegex / ThisPrefixRegex are computed by `wordsOf` from the regenerated
  regex): `special_day_words`, `next_words_swift_plus_one`, `last_words_swift_minus_one`, `this_words_swift_zero`,
  `next_last_disjoint`, `extractor_last_words_swift_minus_one` (+ the negative theorems for German and Italian: a
  recorded defect), `spanish_next_year_partial` (+ witness), `is_future_*`, `is_last_cardinal_*`.
-/
namespace RTV.Props.C08Config
open RTV.CultureCfg RTV.Gen.CC

abbrev T : Tabs := RTV.Gen.CC.tabs
def int (i : Int) : Val := .one (.int i)

/-! ## every text -/

/-- the `get_swift*` methods of the eight cultures with the shifts each may answer (−10 = "no shift word" sentinel of
`get_swift_year`; Chinese has words for ±2 years and ±3 days, Dutch `overvolgende` = +2) -/
def swiftMethods : List (Method × List Int) := [
  (English.DateParser_get_swift_day, [-2, -1, 0, 1, 2]),
  (English.DateParser_get_swift_month, [-1, 0, 1]),
  (English.DateParser_get_swift, [-1, 0, 1]),
  (English.DatePeriodParser_get_swift_day_or_month, [-1, 0, 1]),
  (English.DatePeriodParser_get_swift_year, [-10, -1, 0, 1]),
  (English.DateTimeParser_get_swift_day, [-1, 0, 1]),
  (English.DateTimePeriodParser_get_swift_prefix, [-1, 0, 1]),
  (English.HolidayParser_get_swift_year, [-10, -1, 0, 1]),
  (Spanish.DateParser_get_swift_day, [-2, -1, 0, 1, 2]),
  (Spanish.DateParser_get_swift_month, [-1, 0, 1]),
  (Spanish.DatePeriodParser_get_swift_day_or_month, [-1, 0, 1]),
  (Spanish.DatePeriodParser_get_swift_year, [-10, -1, 0, 1]),
  (Spanish.DateTimeParser_get_swift_day, [-1, 0, 1]),
  (Spanish.DateTimePeriodParser_get_swift_prefix, [-1, 0, 1]),
  (Spanish.HolidayParser_get_swift_year, [-10, -1, 0, 1]),
  (French.DateParser_get_swift_day, [-2, -1, 0, 1, 2]),
  (French.DateParser_get_swift_month, [-1, 0, 1]),
  (French.DatePeriodParser_get_swift_day_or_month, [-1, 0, 1]),
  (French.DatePeriodParser_get_swift_year, [-10, -1, 0, 1]),
  (French.DateTimeParser_get_swift_day, [-1, 0, 1]),
  (French.DateTimePeriodParser_get_swift_prefix, [-1, 0, 1]),
  (French.HolidayParser_get_swift_year, [-10, -1, 0, 1]),
  (Portuguese.DateParser_get_swift_day, [-2, -1, 0, 1, 2]),
  (Portuguese.DateParser_get_swift_month, [-1, 0, 1]),
  (Portuguese.DateParser_get_swift, [-1, 0, 1]),
  (Portuguese.DatePeriodParser_get_swift_day_or_month, [-1, 0, 1]),
  (Portuguese.DatePeriodParser_get_swift_year, [-10, -1, 0, 1]),
  (Portuguese.DateTimeParser_get_swift_day, [-1, 0, 1]),
  (Portuguese.DateTimePeriodParser_get_swift_prefix, [-1, 0, 1]),
  (Portuguese.HolidayParser_get_swift_year, [-10, -1, 0, 1]),
  (Italian.DateParser_get_swift_day, [-2, -1, 0, 1, 2]),
  (Italian.DateParser_get_swift_month, [-1, 0, 1]),
  (Italian.DateParser_get_swift, [-1, 0, 1]),
  (Italian.DatePeriodParser_get_swift_day_or_month, [-1, 0, 1]),
  (Italian.DatePeriodParser_get_swift_year, [-10, -1, 0, 1]),
  (Italian.DateTimeParser_get_swift_day, [-1, 0, 1]),
  (Italian.DateTimePeriodParser_get_swift_prefix, [-1, 0, 1]),
  (Italian.HolidayParser_get_swift_year, [-10, -1, 0, 1]),
  (German.DateParser_get_swift_day, [-2, -1, 0, 1, 2]),
  (German.DateParser_get_swift_month, [-1, 0, 1]),
  (German.DateParser_get_swift, [-1, 0, 1]),
  (German.DatePeriodParser_get_swift_day_or_month, [-1, 0, 1]),
  (German.DatePeriodParser_get_swift_year, [-10, -1, 0, 1]),
  (German.DateTimeParser_get_swift_day, [-1, 0, 1]),
  (German.DateTimePeriodParser_get_swift_prefix, [-1, 0, 1]),
  (German.HolidayParser_get_swift_year, [-10, -1, 0, 1]),
  (Dutch.DateParser_get_swift_day, [-2, -1, 0, 1, 2]),
  (Dutch.DateParser_get_swift_month, [-1, 0, 1]),
  (Dutch.DateParser_get_swift, [-1, 0, 1]),
  (Dutch.DatePeriodParser_get_swift_day_or_month, [-1, 0, 1, 2]),
  (Dutch.DatePeriodParser_get_swift_year, [-10, -1, 0, 1, 2]),
  (Dutch.DateTimeParser_get_swift_day, [-1, 0, 1]),
  (Dutch.DateTimePeriodParser_get_swift_prefix, [-1, 0, 1]),
  (Dutch.HolidayParser_get_swift_year, [-10, -1, 0, 1]),
  (Chinese.DateParser_get_swift_day, [-3, -2, -1, 0, 1, 2, 3]),
  (Chinese.DateParser_get_swift_month, [-1, 0, 1]),
  (Chinese.DatePeriodParser_get_swift_day_or_month, [-2, -1, 0, 1, 2]),
  (Chinese.DatePeriodParser_get_swift_year, [-10, -1, 0, 1]),
  (Chinese.DateTimeParser_get_swift_day, [-1, 0, 1]),
  (Chinese.HolidayParser_get_swift_year, [-10, -1, 0, 1])]

def swiftCheck (p : Method × List Int) : Bool :=
  match p.1.body.possible T [] with
  | some vs => vs.all fun v => p.2.any fun i => v == int i
  | none => false

theorem swiftMethods_checked : swiftMethods.all swiftCheck = true := by decide +kernel

/-- **For every text** each `get_swift*` method of each culture answers one of its listed shifts — nothing else can come
out, whatever the input (abstract evaluation of the regenerated decision tree + `VE.possible_sound`). -/
theorem swift_values_all_texts :
    ∀ p ∈ swiftMethods, ∀ text : RTV.Py.Str, ∃ i ∈ p.2, p.1.on T text = int i := by
  intro p hp text
  have hc : swiftCheck p = true := List.all_eq_true.mp swiftMethods_checked p hp
  have h := Method.all_texts T p.1 [] (fun v => p.2.any fun i => v == int i) (by
    unfold swiftCheck at hc
    exact hc) [text]
  simp only [List.any_eq_true] at h
  obtain ⟨i, hi, he⟩ := h
  exact ⟨i, hi, by simpa [Method.on] using he⟩

def hourMethods : List Method := [English.DateTimeParser_get_hour, Spanish.DateTimeParser_get_hour,
  French.DateTimeParser_get_hour, Portuguese.DateTimeParser_get_hour, Italian.DateTimeParser_get_hour,
  German.DateTimeParser_get_hour, Dutch.DateTimeParser_get_hour, Chinese.DateTimeParser_get_hour]

def inDay (v : Val) : Bool := (List.range 24).any fun r => v == int r

def hourCheck (m : Method) : Bool :=
  (List.range 24).all fun h =>
    match m.body.possible T [(h : Int)] with
    | some vs => vs.all inDay
    | none => false

theorem hourMethods_checked : hourMethods.all hourCheck = true := by decide +kernel

/-- **For every text and every hour 0..23** `get_hour(text, hour)` (morning / afternoon / night adjustment of "tomorrow
morning at 8") of every culture is again an hour 0..23. -/
theorem get_hour_stays_in_day :
    ∀ m ∈ hourMethods, ∀ (text : RTV.Py.Str) (h : Nat), h < 24 → ∃ r : Nat, r < 24 ∧ m.run T [text] [(h : Int)] = int r := by
  intro m hm text h hh
  have hc : hourCheck m = true := List.all_eq_true.mp hourMethods_checked m hm
  unfold hourCheck at hc
  have h1 := List.all_eq_true.mp hc h (List.mem_range.mpr hh)
  have h2 := Method.all_texts T m [(h : Int)] inDay h1 [text]
  unfold inDay at h2
  simp only [List.any_eq_true, List.mem_range] at h2
  obtain ⟨r, hr, he⟩ := h2
  exact ⟨r, hr, by simpa using he⟩

/-! ## today / tomorrow / yesterday in the culture's own words -/

/-- today +0, tomorrow +1, tmr +1, yesterday -1, day after tomorrow +2, the day after tomorrow +2, day after tmr +2, day before yesterday -2, the day before yesterday -2, the day after +1, the day before -1, next day +1, the next day +1, last day -1, the last day -1, the day +0, Tomorrow +1, TODAY +0, the following day +1, previous day -1, this day +0, current day +0 -/
def specialDaysEnglish : List (List Nat × Int) := [
  ([116, 111, 100, 97, 121], 0),
  ([116, 111, 109, 111, 114, 114, 111, 119], 1),
  ([116, 109, 114], 1),
  ([121, 101, 115, 116, 101, 114, 100, 97, 121], -1),
  ([100, 97, 121, 32, 97, 102, 116, 101, 114, 32, 116, 111, 109, 111, 114, 114, 111, 119], 2),
  ([116, 104, 101, 32, 100, 97, 121, 32, 97, 102, 116, 101, 114, 32, 116, 111, 109, 111, 114, 114, 111, 119], 2),
  ([100, 97, 121, 32, 97, 102, 116, 101, 114, 32, 116, 109, 114], 2),
  ([100, 97, 121, 32, 98, 101, 102, 111, 114, 101, 32, 121, 101, 115, 116, 101, 114, 100, 97, 121], -2),
  ([116, 104, 101, 32, 100, 97, 121, 32, 98, 101, 102, 111, 114, 101, 32, 121, 101, 115, 116, 101, 114, 100, 97, 121], -2),
  ([116, 104, 101, 32, 100, 97, 121, 32, 97, 102, 116, 101, 114], 1),
  ([116, 104, 101, 32, 100, 97, 121, 32, 98, 101, 102, 111, 114, 101], -1),
  ([110, 101, 120, 116, 32, 100, 97, 121], 1),
  ([116, 104, 101, 32, 110, 101, 120, 116, 32, 100, 97, 121], 1),
  ([108, 97, 115, 116, 32, 100, 97, 121], -1),
  ([116, 104, 101, 32, 108, 97, 115, 116, 32, 100, 97, 121], -1),
  ([116, 104, 101, 32, 100, 97, 121], 0),
  ([32, 84, 111, 109, 111, 114, 114, 111, 119, 32], 1),
  ([84, 79, 68, 65, 89], 0),
  ([116, 104, 101, 32, 102, 111, 108, 108, 111, 119, 105, 110, 103, 32, 100, 97, 121], 1),
  ([112, 114, 101, 118, 105, 111, 117, 115, 32, 100, 97, 121], -1),
  ([116, 104, 105, 115, 32, 100, 97, 121], 0),
  ([99, 117, 114, 114, 101, 110, 116, 32, 100, 97, 121], 0)]

/-- hoy +0, mañana +1, ayer -1, pasado mañana +2, anteayer -2, el día de mañana +1, el dia siguiente +1, el día siguiente +1, el último día -1, MAÑANA +1 -/
def specialDaysSpanish : List (List Nat × Int) := [
  ([104, 111, 121], 0),
  ([109, 97, 241, 97, 110, 97], 1),
  ([97, 121, 101, 114], -1),
  ([112, 97, 115, 97, 100, 111, 32, 109, 97, 241, 97, 110, 97], 2),
  ([97, 110, 116, 101, 97, 121, 101, 114], -2),
  ([101, 108, 32, 100, 237, 97, 32, 100, 101, 32, 109, 97, 241, 97, 110, 97], 1),
  ([101, 108, 32, 100, 105, 97, 32, 115, 105, 103, 117, 105, 101, 110, 116, 101], 1),
  ([101, 108, 32, 100, 237, 97, 32, 115, 105, 103, 117, 105, 101, 110, 116, 101], 1),
  ([101, 108, 32, 250, 108, 116, 105, 109, 111, 32, 100, 237, 97], -1),
  ([77, 65, 209, 65, 78, 65], 1)]

/-- aujourd'hui +0, demain +1, hier -1, après-demain +2, après demain +2, avant-hier -2, avant hier -2, lendemain +1, le jour suivant +1 -/
def specialDaysFrench : List (List Nat × Int) := [
  ([97, 117, 106, 111, 117, 114, 100, 39, 104, 117, 105], 0),
  ([100, 101, 109, 97, 105, 110], 1),
  ([104, 105, 101, 114], -1),
  ([97, 112, 114, 232, 115, 45, 100, 101, 109, 97, 105, 110], 2),
  ([97, 112, 114, 232, 115, 32, 100, 101, 109, 97, 105, 110], 2),
  ([97, 118, 97, 110, 116, 45, 104, 105, 101, 114], -2),
  ([97, 118, 97, 110, 116, 32, 104, 105, 101, 114], -2),
  ([108, 101, 110, 100, 101, 109, 97, 105, 110], 1),
  ([108, 101, 32, 106, 111, 117, 114, 32, 115, 117, 105, 118, 97, 110, 116], 1)]

/-- hoje +0, amanhã +1, amanha +1, ontem -1, depois de amanhã +2, anteontem -2, o dia seguinte +1, último dia -1 -/
def specialDaysPortuguese : List (List Nat × Int) := [
  ([104, 111, 106, 101], 0),
  ([97, 109, 97, 110, 104, 227], 1),
  ([97, 109, 97, 110, 104, 97], 1),
  ([111, 110, 116, 101, 109], -1),
  ([100, 101, 112, 111, 105, 115, 32, 100, 101, 32, 97, 109, 97, 110, 104, 227], 2),
  ([97, 110, 116, 101, 111, 110, 116, 101, 109], -2),
  ([111, 32, 100, 105, 97, 32, 115, 101, 103, 117, 105, 110, 116, 101], 1),
  ([250, 108, 116, 105, 109, 111, 32, 100, 105, 97], -1)]

/-- oggi +0, domani +1, ieri -1, dopodomani +2, l'altro ieri -2, il giorno dopo +1, il giorno prima -1 -/
def specialDaysItalian : List (List Nat × Int) := [
  ([111, 103, 103, 105], 0),
  ([100, 111, 109, 97, 110, 105], 1),
  ([105, 101, 114, 105], -1),
  ([100, 111, 112, 111, 100, 111, 109, 97, 110, 105], 2),
  ([108, 39, 97, 108, 116, 114, 111, 32, 105, 101, 114, 105], -2),
  ([105, 108, 32, 103, 105, 111, 114, 110, 111, 32, 100, 111, 112, 111], 1),
  ([105, 108, 32, 103, 105, 111, 114, 110, 111, 32, 112, 114, 105, 109, 97], -1)]

/-- heute +0, morgen +1, gestern -1, übermorgen +2, vorgestern -2, der tag danach +1, der tag zuvor -1 -/
def specialDaysGerman : List (List Nat × Int) := [
  ([104, 101, 117, 116, 101], 0),
  ([109, 111, 114, 103, 101, 110], 1),
  ([103, 101, 115, 116, 101, 114, 110], -1),
  ([252, 98, 101, 114, 109, 111, 114, 103, 101, 110], 2),
  ([118, 111, 114, 103, 101, 115, 116, 101, 114, 110], -2),
  ([100, 101, 114, 32, 116, 97, 103, 32, 100, 97, 110, 97, 99, 104], 1),
  ([100, 101, 114, 32, 116, 97, 103, 32, 122, 117, 118, 111, 114], -1)]

/-- vandaag +0, morgen +1, gisteren -1, overmorgen +2, eergisteren -2, de dag na +1, de dag ervoor -1 -/
def specialDaysDutch : List (List Nat × Int) := [
  ([118, 97, 110, 100, 97, 97, 103], 0),
  ([109, 111, 114, 103, 101, 110], 1),
  ([103, 105, 115, 116, 101, 114, 101, 110], -1),
  ([111, 118, 101, 114, 109, 111, 114, 103, 101, 110], 2),
  ([101, 101, 114, 103, 105, 115, 116, 101, 114, 101, 110], -2),
  ([100, 101, 32, 100, 97, 103, 32, 110, 97], 1),
  ([100, 101, 32, 100, 97, 103, 32, 101, 114, 118, 111, 111, 114], -1)]

/-- 今天 +0, 今日 +0, 明天 +1, 明日 +1, 昨天 -1, 昨日 -1, 后天 +2, 後天 +2, 前天 -2, 大后天 +3, 大後天 +3, 大前天 -3 -/
def specialDaysChinese : List (List Nat × Int) := [
  ([20170, 22825], 0),
  ([20170, 26085], 0),
  ([26126, 22825], 1),
  ([26126, 26085], 1),
  ([26152, 22825], -1),
  ([26152, 26085], -1),
  ([21518, 22825], 2),
  ([24460, 22825], 2),
  ([21069, 22825], -2),
  ([22823, 21518, 22825], 3),
  ([22823, 24460, 22825], 3),
  ([22823, 21069, 22825], -3)]

def specialDayTables : List (Method × List (List Nat × Int)) := [
  (English.DateParser_get_swift_day, specialDaysEnglish),
  (Spanish.DateParser_get_swift_day, specialDaysSpanish),
  (French.DateParser_get_swift_day, specialDaysFrench),
  (Portuguese.DateParser_get_swift_day, specialDaysPortuguese),
  (Italian.DateParser_get_swift_day, specialDaysItalian),
  (German.DateParser_get_swift_day, specialDaysGerman),
  (Dutch.DateParser_get_swift_day, specialDaysDutch),
  (Chinese.DateParser_get_swift_day, specialDaysChinese)]

/-- `get_swift_day` of every culture on the culture's words for today / tomorrow / yesterday / the day after tomorrow /
the day before yesterday (the words are the specification, written here by hand; the definitions are regenerated). -/
theorem special_day_words :
    ∀ p ∈ specialDayTables, ∀ row ∈ p.2, p.1.on T row.1 = int row.2 := by decide +kernel

/-- the English table of the property text -/
theorem english_swift_day_table :
    ∀ row ∈ specialDaysEnglish, English.DateParser_get_swift_day.on T row.1 = int row.2 := by decide +kernel

end RTV.Props.C08Config
