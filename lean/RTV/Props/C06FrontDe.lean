import RTV.Props.C06FrontX
import RTV.Lemmas.DateFrontEvDeAll
import RTV.Gen.DtMapsX1
import RTV.Gen.DtMapsX2
/-!
# C06, front end — de-de: from the TEXT of a date to TIMEX = value = that date, by theorem

(Skeleton written by harness/lib/datefrontcert.py de-de, witnesses by hand; see Props/C06FrontX.lean for the method.)
`parse_basic_regex_match` of the German configuration — the regenerated `date_regex` list (RTV/Gen/DateRegexDe.lean, 10
patterns, token prefix `am `) — applied to the text of a date in ANY layout of `contracts/C06.json["layouts"]["de-de"]`
(RTV/Gen/DateLayoutsDe.lean; the day comes first: `5/12/2010` is 5 December) hands `match_to_date` the year / month / day
the text was rendered from, and the entity is that date — every year 1900..2099 (digits symbolic), every month, every day.
The evaluated part: RTV/Lemmas/DateFrontEvDe*.lean (acceptance: abstract texts; rejection by the earlier regexes: start
position by start position).  `token_tables_de`: the month / day tokens of the layouts are keys of the regenerated
`MonthOfYear` / `DayOfMonth` of the culture with the right numbers.
-/
namespace RTV.DateFront
open RTV.Re RTV.Py RTV.DtRes RTV.Gen.DateRegexDe RTV.Gen.DateLayoutsDe RTV.Gen.DtMaps

/-- the month tokens (`3`, `03`, month name) / day tokens (with the literal suffix the day group takes along) of every layout
are keys of the regenerated `MonthOfYear` / `DayOfMonth` of de-de with that month / day -/
theorem token_tables_de :
    ((layoutsDe.zip (EvDe.dexts.take layoutsDe.length)).all fun p =>
      monthToksOK namesDe monthOfYear_de p.1 && dayToksOK namesDe dayOfMonth_de p.1 p.2 days31) = true := by
  decide +kernel

/-- every layout of the contract has its evaluated facts and its token checks -/
theorem layouts_have_facts_de : ∀ L ∈ layoutsDe, ∃ dext k,
    LayoutFactsL namesDe dateRegexes dateTokenPrefix days31 L dext k ∧
    monthToksOK namesDe monthOfYear_de L = true ∧ dayToksOK namesDe dayOfMonth_de L dext days31 = true := by
  intro L hL
  simp only [layoutsDe, List.mem_cons, List.mem_nil_iff, or_false] at hL
  rcases hL with rfl | rfl | rfl | rfl | rfl | rfl | rfl | rfl | rfl
  · exact ⟨_, _, EvDe.facts0, by decide +kernel, by decide +kernel⟩
  · exact ⟨_, _, EvDe.facts1, by decide +kernel, by decide +kernel⟩
  · exact ⟨_, _, EvDe.facts2, by decide +kernel, by decide +kernel⟩
  · exact ⟨_, _, EvDe.facts3, by decide +kernel, by decide +kernel⟩
  · exact ⟨_, _, EvDe.facts4, by decide +kernel, by decide +kernel⟩
  · exact ⟨_, _, EvDe.facts5, by decide +kernel, by decide +kernel⟩
  · exact ⟨_, _, EvDe.facts6, by decide +kernel, by decide +kernel⟩
  · exact ⟨_, _, EvDe.facts7, by decide +kernel, by decide +kernel⟩
  · exact ⟨_, _, EvDe.facts8, by decide +kernel, by decide +kernel⟩

/-- the contract has these layouts, and which regex accepts each -/
theorem layouts_count_de : layoutsDe.length = 9 ∧ EvDe.acceptingRegex = [9, 3, 3, 3, 3, 0, 0, 3, 3] := by decide

/-- FRONT END → DECODE (de-de): the groups the front end yields on a rendered date satisfy `Decodes` for that date. -/
theorem front_decodes_de {T : Tables} (hT : LatinAgree T) {u : Uni} (hu : TextUni u) (L : List Tok) (hL : L ∈ layoutsDe)
    (y m d : Nat) (hy : 1900 ≤ y ∧ y ≤ 2099) (hm : 1 ≤ m ∧ m ≤ 12) (hd : 1 ≤ d ∧ d ≤ 31) :
    ∃ h g, parseBasic T u dateTokenPrefix dateRegexes (renderL namesDe L y m d) = some (some (h, g)) ∧
      Decodes u (genCfg monthOfYear_de dayOfMonth_de) g y m d := by
  obtain ⟨dext, k, hf, hmt, hdt⟩ := layouts_have_facts_de L hL
  obtain ⟨h, g, hp, _, hdec⟩ := front_decodes_gen hT hu hf hmt hdt y m d hy hm ((mem_days31 d).2 hd)
  exact ⟨h, g, hp, hdec⟩

/-- C06 FOR THE TEXT (de-de). A fully specified date `y-m-d`, 1900 ≤ y ≤ 2099, that exists in the calendar, written in ANY
layout of the contract: `parse_basic_regex_match` on the regenerated regexes, `match_to_date`, `BaseDateParser.parse` and
`_date_time_resolution` yield exactly one value of type `date` whose TIMEX and value are `YYYY-MM-DD` — for every reference
`R`, every written-year oracle `wy`, every engine table that agrees with `latinTables` below 256. -/
theorem front_abs_date_de {T : Tables} (hT : LatinAgree T) {u : Uni} (hu : TextUni u) (L : List Tok) (hL : L ∈ layoutsDe)
    (y m d : Nat) (hy : 1900 ≤ y ∧ y ≤ 2099) (hv : (⟨y, m, d⟩ : RTV.Cal.Date).valid = true) (wy : Int) (R : DT) :
    frontResolve T u (genCfg monthOfYear_de dayOfMonth_de) dateTokenPrefix dateRegexes (renderL namesDe L y m d) wy R =
      .ok (some [{ timex := ymd y m d, type := sDate, value := some (ymd y m d) }]) := by
  obtain ⟨dext, k, hf, hmt, hdt⟩ := layouts_have_facts_de L hL
  exact front_abs_date_gen hT hu hf hmt hdt y m d hy hv (valid_day31 y m d hv) wy R

/-- … with the tables of the running `regex` module -/
theorem front_abs_date_engine_de {u : Uni} (hu : TextUni u) (L : List Tok) (hL : L ∈ layoutsDe)
    (y m d : Nat) (hy : 1900 ≤ y ∧ y ≤ 2099) (hv : (⟨y, m, d⟩ : RTV.Cal.Date).valid = true) (wy : Int) (R : DT) :
    frontResolve RTV.Gen.reTables u (genCfg monthOfYear_de dayOfMonth_de) dateTokenPrefix dateRegexes
        (renderL namesDe L y m d) wy R =
      .ok (some [{ timex := ymd y m d, type := sDate, value := some (ymd y m d) }]) :=
  front_abs_date_de retables_latin hu L hL y m d hy hv wy R

/-! ## instances and witnesses (concrete texts, Latin-1 tables) -/

/-- `5. märz 2019` is the text of 2019-03-05 in layout 6, `5.3.2019` in layout 7 -/
example : layout6 ∈ layoutsDe ∧ renderL namesDe layout6 2019 3 5 = [53, 46, 32, 109, 228, 114, 122, 32, 50, 48, 49, 57] ∧
    layout7 ∈ layoutsDe ∧ renderL namesDe layout7 2019 3 5 = [53, 46, 51, 46, 50, 48, 49, 57] := by decide

/-- the DAY comes first: `5.12.2010` is day 5, month 12 -/
theorem front_day_first_de :
    (parseBasic latinTables asciiUni dateTokenPrefix dateRegexes [53, 46, 49, 50, 46, 50, 48, 49, 48]).map
        (·.map fun p => gtuple p.2) = some (some ([50, 48, 49, 48], [49, 50], [53], [])) := by
  decide +kernel

/-- the day group of `5. märz 2019` is `5.` (a key of the German `DayOfMonth`) -/
theorem front_day_dot_groups_de :
    (parseBasic latinTables asciiUni dateTokenPrefix dateRegexes [53, 46, 32, 109, 228, 114, 122, 32, 50, 48, 49, 57]).map
        (·.map fun p => gtuple p.2) = some (some ([50, 48, 49, 57], [109, 228, 114, 122], [53, 46], [])) := by
  decide +kernel

/-- near miss: a 13th month is not a month — `5.13.2019` is accepted by no regex (German has no month-first reading) -/
theorem front_month13_rejected_de :
    (parseBasic latinTables asciiUni dateTokenPrefix dateRegexes [53, 46, 49, 51, 46, 50, 48, 49, 57]).map (·.isNone) = some true := by
  decide +kernel

/-- near miss: day 32 is no day — `32.3.2019` is accepted by no regex -/
theorem front_day32_rejected_de :
    (parseBasic latinTables asciiUni dateTokenPrefix dateRegexes [51, 50, 46, 51, 46, 50, 48, 49, 57]).map (·.isNone) = some true := by
  decide +kernel

/-- an impossible day is still handed on: `30. februar 2019` -/
theorem front_invalid_day_groups_de :
    (parseBasic latinTables asciiUni dateTokenPrefix dateRegexes [51, 48, 46, 32, 102, 101, 98, 114, 117, 97, 114, 32, 50, 48, 49, 57]).map
        (·.map fun p => gtuple p.2) = some (some ([50, 48, 49, 57], [102, 101, 98, 114, 117, 97, 114], [51, 48, 46], [])) := by
  decide +kernel

/-- a two-digit year reaches `match_to_date` as two digits: `5.3.30` -/
theorem front_two_digit_year_groups_de :
    (parseBasic latinTables asciiUni dateTokenPrefix dateRegexes [53, 46, 51, 46, 51, 48]).map
        (·.map fun p => gtuple p.2) = some (some ([51, 48], [51], [53], [])) := by
  decide +kernel

end RTV.DateFront
