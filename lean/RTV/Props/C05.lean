import RTV.Lemmas.Unit
import Mathlib.Tactic.Ring
/-!
# C05 — every listed unit spelling maps to its canonical unit and keeps the number

Theorems about `RTV.Model.Unit` (mirrors `number_with_unit/utilities.py` and `parsers.py`). They hold for **every**
table, spelling and numeral; the tables actually wired into the registered models are regenerated from the working
tree on every run and fed to the same model functions by the correspondence (`harness/corr/c05.py`), which also
replays every (culture, type, unit, spelling) row through `recognize_*`.
What is *not* modelled: the extractor's regex/StringMatcher plumbing that decides which span reaches the parser
(tied by the exhaustive table correspondence only).
-/
namespace RTV.Unit

/-- C05(a) **what a spelling maps to**: after `add_dict_to_unit_map` has been called for `tables` (in order), a
non-empty spelling `t` maps to the key of the *first* row, in table order, that has a non-empty key and lists `t`
among its `|`-separated spellings — and to nothing if no row lists it. So every listed spelling maps to its own
row's canonical unit unless an earlier row lists the same spelling (the only way a listed spelling can map
elsewhere; such clashes are enumerated in the evidence). -/
theorem unitmap_lookup (sp : Nat → Bool) (tables : List Dict) (t : Str) (ht : t ≠ []) :
    dget (buildUnitMap sp tables) t = firstKey sp tables.flatten t :=
  buildUnitMap_get sp tables t ht

/-- Corollary in the property's words: a spelling listed for `unit` and listed by no earlier row maps to `unit`. -/
theorem unitmap_listed (sp : Nat → Bool) (before after : Dict) (unit forms t : Str)
    (ht : t ≠ []) (hu : unit ≠ []) (hl : t ∈ tokensOf sp forms)
    (hfirst : firstKey sp before t = none) :
    dget (buildUnitMap sp [before ++ (unit, forms) :: after]) t = some unit := by
  rw [unitmap_lookup sp _ t ht]
  simp only [List.flatten_cons, List.flatten_nil, List.append_nil, firstKey_append, hfirst, firstKey]
  simp [hu, hl]

/-- C05(b) key assembly, suffix units: for the text `number ++ rest` with the number at relative position 0 the
parser's unit key is exactly `rest` stripped (nothing when `rest` is empty). -/
theorem key_assembly_suffix (sp : Nat → Bool) (num rest : Str) (hn : num ≠ []) :
    unitKeys sp (num ++ rest) 0 num.length = if rest ≠ [] then [strip sp rest] else [] := by
  rw [unitKeys_suffix sp num rest hn, finish]
  by_cases h : rest = [] <;> simp [h, addIfNotContained]

/-- C05(b′) key assembly, prefix units: for the text `pre ++ number` the unit key is `pre` stripped. -/
theorem key_assembly_prefix (sp : Nat → Bool) (pre num : Str) (hp : pre ≠ []) (hn : num ≠ []) :
    unitKeys sp (pre ++ num) pre.length num.length = [strip sp pre] :=
  unitKeys_prefix sp pre num hp hn

/-- C05(c) end to end for the parser core: number followed by a separator and a spelling `form` that the unit map
knows exactly (no connector token, no brackets): the parser answers the mapped unit. -/
theorem parse_suffix_unit (sp : Nat → Bool) (lower : Str → Str) (unitMap : Dict) (num rest u : Str)
    (hn : num ≠ []) (hr : rest ≠ []) (hu : u ≠ [])
    (hb : deleteBrackets (strip sp rest) = strip sp rest)
    (hm : dget unitMap (strip sp rest) = some u) :
    parseUnit sp lower unitMap [] (num ++ rest) 0 num.length = some u := by
  have hk := key_assembly_suffix sp num rest hn
  simp only [hr, ne_eq, not_false_eq_true, if_true] at hk
  have hne : unitMap ≠ [] := by intro e; rw [e] at hm; simp [dget] at hm
  have htext : num ++ rest ≠ [] := by simp [hn]
  simp [parseUnit, hk, hb, hm, hu, hne, htext]

/-- C05(d) compound amounts: `N main + M fraction` with ratio `10^k` is worth exactly `N + M / 10^k`
(cross-multiplied: no rounding anywhere — this is the Decimal arithmetic of the repaired `__merge_compound_unit`). -/
theorem compound_value_exact (n m : DecQ) (k : Nat) :
    (addFraction n m k).num * (n.den * (m.den * 10 ^ k)) =
      (n.num * (m.den * 10 ^ k) + m.num * n.den) * (addFraction n m k).den := by
  simp only [addFraction, DecQ.den]
  have h1 : n.scale ≤ max n.scale (m.scale + k) := Nat.le_max_left _ _
  have h2 : m.scale + k ≤ max n.scale (m.scale + k) := Nat.le_max_right _ _
  generalize hs : max n.scale (m.scale + k) = s at *
  obtain ⟨a, ha⟩ := Nat.exists_eq_add_of_le h1
  obtain ⟨b, hb⟩ := Nat.exists_eq_add_of_le h2
  have e1 : s - n.scale = a := by omega
  have e2 : s - (m.scale + k) = b := by omega
  rw [e1, e2]
  have p1 : (10:Nat) ^ s = 10 ^ n.scale * 10 ^ a := by rw [ha, Nat.pow_add]
  have p2 : (10:Nat) ^ s = 10 ^ m.scale * 10 ^ k * 10 ^ b := by rw [hb, Nat.pow_add, Nat.pow_add]
  generalize (10:Nat) ^ n.scale = X at *
  generalize (10:Nat) ^ m.scale = Y at *
  generalize (10:Nat) ^ k = K at *
  generalize (10:Nat) ^ a = A at *
  generalize (10:Nat) ^ b = B at *
  generalize (10:Nat) ^ s = S at *
  subst p1
  -- X*A = Y*K*B
  have key : X * A = Y * K * B := p2
  calc (n.num * A + m.num * B) * (X * (Y * K))
      = n.num * (Y * K) * (X * A) + m.num * X * (Y * K * B) := by ring
    _ = n.num * (Y * K) * (X * A) + m.num * X * (X * A) := by rw [key]
    _ = (n.num * (Y * K) + m.num * X) * (X * A) := by ring

/-- Examples (non-vacuity): 1 dollar and 14 cents = 1.14; 1999 dollars and 57 cents; 2.5 + 5/100 = 2.55. -/
example : addFraction ⟨1, 0⟩ ⟨14, 0⟩ 2 = ⟨114, 2⟩ := by decide
example : addFraction ⟨1999, 0⟩ ⟨57, 0⟩ 2 = ⟨199957, 2⟩ := by decide
example : addFraction ⟨25, 1⟩ ⟨5, 0⟩ 2 = ⟨255, 2⟩ := by decide

/-- `"7 kg"` → key `kg`; `"$ 7"` → key `$` (ASCII space predicate). -/
example : unitKeys (fun c => c == 32) [55, 32, 107, 103] 0 1 = [[107, 103]] := by decide
example : unitKeys (fun c => c == 32) [36, 32, 55] 2 1 = [[36]] := by decide

/-- first writer wins: `mb` listed under Megabit first and under Megabyte later maps to Megabit. -/
example : dget (buildUnitMap (fun c => c == 32)
    [[([77, 98], [109, 98, 124, 109, 98, 105, 116]), ([77, 66], [109, 66, 124, 109, 98])]]) [109, 98] = some [77, 98] := by
  decide

end RTV.Unit
