import RTV.Lemmas.Unit
import RTV.Lemmas.UnitExtract
import Mathlib.Tactic.Ring
/-!
# C05 — every listed unit spelling maps to its canonical unit and keeps the number

Theorems about `RTV.Model.Unit` (mirrors `number_with_unit/utilities.py` and `parsers.py`). They hold for **every**
table, spelling and numeral; the tables actually wired into the registered models are regenerated from the working
tree on every run and fed to the same model functions by the correspondence (`harness/corr/c05.py`), which also
replays every (culture, type, unit, spelling) row through `recognize_*`.
The second half of the file is about `RTV.Model.UnitExtract` (mirrors `NumberWithUnitExtractor.extract` and
`_select_candidates` of `number_with_unit/extractors.py`): what the extractor hands to the parser, for **any** behaviour
of the StringMatcher, the number extractor and the gating regexes (they are parameters of the model) that satisfies the
stated well-formedness (spans inside the string, number texts = slices). The correspondence replays recorded calls of
the real `extract` through the same definitions.
-/
namespace RTV.Unit

/-- C05(a) **what a spelling maps to**: after `add_dict_to_unit_map` has been called for `tables` (in order), a
non-empty spelling `t` maps to the key of the *first* row, in table order, that has a non-empty key and lists `t`
among its `|`-separated spellings — and to nothing if no row lists it. So every listed spelling maps to its own
row's canonical unit unless an earlier row lists the same spelling (the only way a listed spelling can map
elsewhere; such clashes are enumerated in the evidence). -/
theorem unitmap_lookup (sp : Nat → Bool) (tables : List Dict) (t : Str) (ht : t ≠ []) :
    dget (buildUnitMap sp tables) t = firstKey sp tables.flatten t :=
  buildUnitMap_get sp tables t ht

/-- Corollary in the property's words: a spelling listed for `unit` and listed by no earlier row maps to `unit`. -/
theorem unitmap_listed (sp : Nat → Bool) (before after : Dict) (unit forms t : Str)
    (ht : t ≠ []) (hu : unit ≠ []) (hl : t ∈ tokensOf sp forms)
    (hfirst : firstKey sp before t = none) :
    dget (buildUnitMap sp [before ++ (unit, forms) :: after]) t = some unit := by
  rw [unitmap_lookup sp _ t ht]
  simp only [List.flatten_cons, List.flatten_nil, List.append_nil, firstKey_append, hfirst, firstKey]
  simp [hu, hl]

/-- C05(b) key assembly, suffix units: for the text `number ++ rest` with the number at relative position 0 the
parser's unit key is exactly `rest` stripped (nothing when `rest` is empty). -/
theorem key_assembly_suffix (sp : Nat → Bool) (num rest : Str) (hn : num ≠ []) :
    unitKeys sp (num ++ rest) 0 num.length = if rest ≠ [] then [strip sp rest] else [] := by
  rw [unitKeys_suffix sp num rest hn, finish]
  by_cases h : rest = [] <;> simp [h, addIfNotContained]

/-- C05(b′) key assembly, prefix units: for the text `pre ++ number` the unit key is `pre` stripped. -/
theorem key_assembly_prefix (sp : Nat → Bool) (pre num : Str) (hp : pre ≠ []) (hn : num ≠ []) :
    unitKeys sp (pre ++ num) pre.length num.length = [strip sp pre] :=
  unitKeys_prefix sp pre num hp hn

/-- C05(c) end to end for the parser core: number followed by a separator and a spelling `form` that the unit map
knows exactly (no connector token, no brackets): the parser answers the mapped unit. -/
theorem parse_suffix_unit (sp : Nat → Bool) (lower : Str → Str) (unitMap : Dict) (num rest u : Str)
    (hn : num ≠ []) (hr : rest ≠ []) (hu : u ≠ [])
    (hb : deleteBrackets (strip sp rest) = strip sp rest)
    (hm : dget unitMap (strip sp rest) = some u) :
    parseUnit sp lower unitMap [] (num ++ rest) 0 num.length = some u := by
  have hk := key_assembly_suffix sp num rest hn
  simp only [hr, ne_eq, not_false_eq_true, if_true] at hk
  have hne : unitMap ≠ [] := by intro e; rw [e] at hm; simp [dget] at hm
  have htext : num ++ rest ≠ [] := by simp [hn]
  simp [parseUnit, hk, hb, hm, hu, hne, htext]

/-- C05(c′) end to end for the parser core, PREFIX units (`$ 7`, `usd 7`): a spelling `form` the unit map knows exactly,
followed by the number at relative position `pre.length`: the parser answers the mapped unit. -/
theorem parse_prefix_unit (sp : Nat → Bool) (lower : Str → Str) (unitMap : Dict) (pre num u : Str)
    (hp : pre ≠ []) (hn : num ≠ []) (hu : u ≠ [])
    (hb : deleteBrackets (strip sp pre) = strip sp pre)
    (hm : dget unitMap (strip sp pre) = some u) :
    parseUnit sp lower unitMap [] (pre ++ num) pre.length num.length = some u := by
  have hk := key_assembly_prefix sp pre num hp hn
  have hne : unitMap ≠ [] := by intro e; rw [e] at hm; simp [dget] at hm
  have htext : pre ++ num ≠ [] := by simp [hp]
  simp [parseUnit, hk, hb, hm, hu, hne, htext]

/-- C05(e) **the ISO code is the one the table assigns** (`BaseCurrencyParser.parse`, simple case): a unit the
`currency_name_to_iso_code_map` lists with a real code carries exactly that code; a code beginning with `_` (fake ISO code)
gives a plain `UnitValue` without `isoCurrency`; an unlisted unit, or an empty code, gives `isoCurrency: None`. -/
theorem iso_code_is_table_code (m : Dict) (u code : Str) (h : dget m u = some code) (hne : code ≠ [])
    (hreal : startsWith code [95] = false) : isoOf m u = some (some code) := by
  simp [isoOf, h, hne, hreal]

theorem iso_fake_code_dropped (m : Dict) (u code : Str) (h : dget m u = some code) (hne : code ≠ [])
    (hfake : startsWith code [95] = true) : isoOf m u = none := by
  simp [isoOf, h, hne, hfake]

theorem iso_unlisted_is_none (m : Dict) (u : Str) (h : dget m u = none) : isoOf m u = some none := by
  simp [isoOf, h]

/-- suffix spelling → unit → ISO code, in one statement: `7 dollars` with `dollars ↦ United States dollar ↦ USD` -/
theorem currency_suffix_unit_and_iso (sp : Nat → Bool) (lower : Str → Str) (unitMap nameToIso : Dict) (num rest u code : Str)
    (hn : num ≠ []) (hr : rest ≠ []) (hu : u ≠ []) (hb : deleteBrackets (strip sp rest) = strip sp rest)
    (hm : dget unitMap (strip sp rest) = some u) (hi : dget nameToIso u = some code) (hne : code ≠ [])
    (hreal : startsWith code [95] = false) :
    (parseUnit sp lower unitMap [] (num ++ rest) 0 num.length).map (isoOf nameToIso) = some (some (some code)) := by
  rw [parse_suffix_unit sp lower unitMap num rest u hn hr hu hb hm]
  simp [iso_code_is_table_code nameToIso u code hi hne hreal]

example : isoOf [([68], [85, 83, 68]), ([66], [95, 88])] [68] = some (some [85, 83, 68]) ∧
    isoOf [([68], [85, 83, 68]), ([66], [95, 88])] [66] = none ∧ isoOf [([68], [85, 83, 68])] [90] = some none := by decide

/-- An identity about the SPECIFICATION `addFraction` (the exact sum `N + M / 10^k` of two decimals, cross-multiplied); it
says nothing about the code.  The code's arithmetic — `Decimal(N) + Decimal(M) / Decimal(ratio)` in the 15-digit context of
`@precision(prec=15)`, any ratio of the tables — is `RTV.Unit.mergeAmount` / `mergeCompound`
(RTV/Model/UnitCompound.lean); the property theorem `compound_value_exact` with its exact guard and the precision witness
are in `RTV.Props.C05Compound` (audit item 2). -/
theorem addFraction_value (n m : DecQ) (k : Nat) :
    (addFraction n m k).num * (n.den * (m.den * 10 ^ k)) =
      (n.num * (m.den * 10 ^ k) + m.num * n.den) * (addFraction n m k).den := by
  simp only [addFraction, DecQ.den]
  have h1 : n.scale ≤ max n.scale (m.scale + k) := Nat.le_max_left _ _
  have h2 : m.scale + k ≤ max n.scale (m.scale + k) := Nat.le_max_right _ _
  generalize hs : max n.scale (m.scale + k) = s at *
  obtain ⟨a, ha⟩ := Nat.exists_eq_add_of_le h1
  obtain ⟨b, hb⟩ := Nat.exists_eq_add_of_le h2
  have e1 : s - n.scale = a := by omega
  have e2 : s - (m.scale + k) = b := by omega
  rw [e1, e2]
  have p1 : (10:Nat) ^ s = 10 ^ n.scale * 10 ^ a := by rw [ha, Nat.pow_add]
  have p2 : (10:Nat) ^ s = 10 ^ m.scale * 10 ^ k * 10 ^ b := by rw [hb, Nat.pow_add, Nat.pow_add]
  generalize (10:Nat) ^ n.scale = X at *
  generalize (10:Nat) ^ m.scale = Y at *
  generalize (10:Nat) ^ k = K at *
  generalize (10:Nat) ^ a = A at *
  generalize (10:Nat) ^ b = B at *
  generalize (10:Nat) ^ s = S at *
  subst p1
  -- X*A = Y*K*B
  have key : X * A = Y * K * B := p2
  calc (n.num * A + m.num * B) * (X * (Y * K))
      = n.num * (Y * K) * (X * A) + m.num * X * (Y * K * B) := by ring
    _ = n.num * (Y * K) * (X * A) + m.num * X * (X * A) := by rw [key]
    _ = (n.num * (Y * K) + m.num * X) * (X * A) := by ring

/-- `addFraction`: 1 + 14/100 = 1.14; 1999 + 57/100; 2.5 + 5/100 = 2.55. -/
example : addFraction ⟨1, 0⟩ ⟨14, 0⟩ 2 = ⟨114, 2⟩ := by decide
example : addFraction ⟨1999, 0⟩ ⟨57, 0⟩ 2 = ⟨199957, 2⟩ := by decide
example : addFraction ⟨25, 1⟩ ⟨5, 0⟩ 2 = ⟨255, 2⟩ := by decide

/-- `"7 kg"` → key `kg`; `"$ 7"` → key `$` (ASCII space predicate). -/
example : unitKeys (fun c => c == 32) [55, 32, 107, 103] 0 1 = [[107, 103]] := by decide
example : unitKeys (fun c => c == 32) [36, 32, 55] 2 1 = [[36]] := by decide

/-- first writer wins: `mb` listed under Megabit first and under Megabyte later maps to Megabit. -/
example : dget (buildUnitMap (fun c => c == 32)
    [[([77, 98], [109, 98, 124, 109, 98, 105, 116]), ([77, 66], [109, 66, 124, 109, 98])]]) [109, 98] = some [77, 98] := by
  decide

/-! ### the value side: `NumberWithUnitParser.parse` with the number part (`parseFull`) -/

/-- `parseFull` without a half result looks the unit up exactly as `parseUnit` (so every unit theorem above applies) and
hands out, unchanged, what the internal number parser answered for the number: `value.number = resolution_str` of the
number, `ret.resolution_str = "<number> <unit>"` (`None` printed as `None`). No keys at all: `IndexError`. -/
theorem parseFull_unit (sp : Nat → Bool) (lower : Str → Str) (um : Dict) (conn text : Str) (ns : Int) (nl : Nat)
    (numRes : Option Str) :
    parseFull sp lower um conn text ns nl numRes none =
      match (unitKeys sp text ns nl).getLast? with
      | none => .indexError
      | some _ =>
        match parseUnit sp lower um conn text ns nl with
        | some u => .unitValue numRes u (strip sp (numRes.getD pyNone ++ [32] ++ u))
        | none => .noValue := by
  rw [parseUnit_eq_lookup]
  unfold parseFull
  cases (unitKeys sp text ns nl).getLast? with
  | none => rfl
  | some last => simp only []; cases lookupUnit sp lower um conn text last <;> rfl

/-- C05(n) **the entity keeps the number**: number followed by a separator and a spelling the unit map knows — the value
handed out is exactly the internal number parser's `resolution_str` for the numeral (whatever that parser is: it is the
C03/C04 subject), paired with the mapped unit. -/
theorem parse_value_is_number_resolution (sp : Nat → Bool) (lower : Str → Str) (unitMap : Dict) (num rest u : Str)
    (numRes : Option Str) (hn : num ≠ []) (hr : rest ≠ []) (hu : u ≠ [])
    (hb : deleteBrackets (strip sp rest) = strip sp rest)
    (hm : dget unitMap (strip sp rest) = some u) :
    parseFull sp lower unitMap [] (num ++ rest) 0 num.length numRes none =
      .unitValue numRes u (strip sp (numRes.getD pyNone ++ [32] ++ u)) := by
  rw [parseFull_unit, parse_suffix_unit sp lower unitMap num rest u hn hr hu hb hm, key_assembly_suffix sp num rest hn]
  simp [hr]

/-- C05(o) **`half` adds .5**: text = numeral ++ spelling ++ half word (the Chinese half expansion: `5元半`), the internal
parser answers `r` for the numeral and `0.5` for the half word: the half word is cut off the unit key, the unit is the
spelling's, and the number handed out is `r ++ ".5"` — for an integer numeral `r` the decimal literal of `r + 1/2`. -/
theorem parse_half_adds_point_five (sp : Nat → Bool) (lower : Str → Str) (unitMap : Dict) (num form ht r u : Str)
    (hn : num ≠ []) (hf : form ≠ []) (hh : ht ≠ []) (hu : u ≠ [])
    (hs : strip sp (form ++ ht) = form ++ ht) (hb : deleteBrackets form = form)
    (hm : dget unitMap form = some u) :
    parseFull sp lower unitMap [] (num ++ (form ++ ht)) 0 num.length (some r) (some ⟨ht, ht.length, some [48, 46, 53]⟩) =
      .unitValue (some (r ++ [46, 53])) u (strip sp (r ++ [46, 53] ++ [32] ++ u)) := by
  have hk := key_assembly_suffix sp num (form ++ ht) hn
  have hne : form ++ ht ≠ [] := by simp [hf]
  simp only [hne, ne_eq, not_false_eq_true, if_true, hs] at hk
  have hum : unitMap ≠ [] := by intro e; rw [e] at hm; simp [dget] at hm
  have htext : num ++ (form ++ ht) ≠ [] := by simp [hn]
  unfold parseFull
  simp only [hk, List.getLast?_singleton, dropHalf_append form ht _ hh]
  have hl : lookupUnit sp lower unitMap [] (num ++ (form ++ ht)) form = some u := by
    simp [lookupUnit, hb, hm, hu, hum, htext]
  simp [hl]

/- Natural statement "with a half word the number handed out is the numeral's value + 0.5" is FALSE of the code: the two
   resolution strings are concatenated (`resolution_str += half.resolution_str[1:]`), not added. -/

/-- … it holds for integer numerals (`parse_half_adds_point_five`: `r ++ ".5"`); witnesses of the failure, text `1.5元半`
(a decimal numeral: `1.5` + `.5` = the string `1.5.5`) and a numeral for which the internal parser has no resolution
(`None + str`: TypeError, the model's parse swallows it and the query returns nothing). -/
theorem parse_half_concatenates_witness :
    let um : Dict := [([20803], [89])]
    parseFull (fun c => c == 32) id um [] [49, 46, 53, 20803, 21322] 0 3 (some [49, 46, 53]) (some ⟨[21322], 1, some [48, 46, 53]⟩) =
      .unitValue (some [49, 46, 53, 46, 53]) [89] [49, 46, 53, 46, 53, 32, 89] ∧
    parseFull (fun c => c == 32) id um [] [49, 46, 53, 20803, 21322] 0 3 none (some ⟨[21322], 1, some [48, 46, 53]⟩) = .typeError := by
  decide

/-- `7 kg` → UnitValue('7', 'Kilogram'), resolution_str `7 Kilogram`. -/
example : parseFull (fun c => c == 32) id [([107, 103], [75])] [] [55, 32, 107, 103] 0 1 (some [55]) none =
    .unitValue (some [55]) [75] [55, 32, 75] := by decide

end RTV.Unit

/-! ## The extractor: `NumberWithUnitExtractor.extract` -/
namespace RTV.UnitExtract

/-- C05(e) **longest suffix wins** (`max_len`, the `for m in suffix_match` loop), for a number that ends at `fi` with
text after it (`max_find_suff > 0`), any list of suffix matches:
(1) the result reaches at least to the end of every admissible match (`m.length > 0`, `m.start ≥ fi`, and the text between
number and match is empty / blank / the connector token, or the match is bracketed);
(2) `max_len` is 0 (no result) or exactly the reach of one admissible match — the end of the match, plus the closing
bracket when the bracket rule fired. -/
theorem nwu_longest_suffix_wins (c : Cfg) (src : Str) (fi : Nat) (sm : List MR) (hfi : fi < src.length) :
    (∀ m ∈ sm, Admissible c src fi m → endPos fi m ≤ maxSuffix c src fi sm) ∧
    (maxSuffix c src fi sm = 0 ∨ ∃ m ∈ sm, Admissible c src fi m ∧ maxSuffix c src fi sm = reach src fi m) := by
  have e : maxSuffix c src fi sm = maxSuffixFrom c src fi sm 0 := by simp [maxSuffix, hfi]
  rw [e]
  exact ⟨fun m hm ha => maxSuffixFrom_ge c src fi sm 0 m hm ha, maxSuffixFrom_attained c src fi sm 0⟩

/- Full-strength statement "`max_len` is the furthest reach of all admissible matches"
     `∀ m ∈ sm, Admissible c src fi m → reach src fi m ≤ maxSuffix c src fi sm`
   is FALSE of the code: a bracketed match whose `end_pos` equals the current `max_len` is skipped by the
   `if max_len < end_pos` gate although it would reach one character further (its closing bracket). -/

/-- … it holds when no match triggers the bracket rule: then `max_len` is the maximum of `end_pos` over the admissible
matches. -/
theorem nwu_furthest_reach_partial (c : Cfg) (src : Str) (fi : Nat) (sm : List MR) (hfi : fi < src.length)
    (hnb : ∀ m ∈ sm, bracketOK src fi m = false) :
    (∀ m ∈ sm, Admissible c src fi m → reach src fi m ≤ maxSuffix c src fi sm) ∧
    (maxSuffix c src fi sm = 0 ∨ ∃ m ∈ sm, Admissible c src fi m ∧ maxSuffix c src fi sm = endPos fi m) := by
  obtain ⟨h1, h2⟩ := nwu_longest_suffix_wins c src fi sm hfi
  refine ⟨fun m hm ha => ?_, ?_⟩
  · have := h1 m hm ha
    simpa [reach, hnb m hm] using this
  · rcases h2 with h | ⟨m, hm, ha, he⟩
    · exact Or.inl h
    · exact Or.inr ⟨m, hm, ha, by simpa [reach, hnb m hm] using he⟩

/-- … and fails in general. Witness: source `5 x(y)`, number `5` (ends at 1), suffix matches `x(y` at 2 and `y` at 4.
The first is admissible through a blank (`end_pos` 4), the second through the bracket rule (`end_pos` 4, reach 5,
closing bracket included); the code answers `max_len = 4` (`5 x(y`), although the second match alone gives 5 (`5 x(y)`). -/
theorem nwu_furthest_reach_counterexample :
    let c : Cfg := ⟨fun ch => ch == 32, [], 0, false, false⟩
    let src : Str := [53, 32, 120, 40, 121, 41]
    let m1 : MR := ⟨2, 3, [120, 40, 121]⟩
    let m2 : MR := ⟨4, 1, [121]⟩
    (plainOK c src 1 m1 = true ∧ bracketOK src 1 m2 = true ∧ reach src 1 m2 = 5) ∧
    maxSuffix c src 1 [m1, m2] = 4 ∧ maxSuffix c src 1 [m2] = 5 := by
  decide

/-- C05(f) **suffix result** (`nwu_suffix_span`): a number without a prefix unit whose suffix search succeeds
(`max_len = L ≠ 0`, not discarded by the dimension/time test) yields exactly one new result: it starts at the number,
is `L` longer than the number, its text is that slice of the source, the number handed to the parser sits at relative
position 0, and the result is flagged "unit is not a prefix". With the suffix matches inside the string the slice has
the full length, i.e. the result ends where the furthest admissible match ends (`nwu_longest_suffix_wins`). -/
theorem nwu_suffix_span (c : Cfg) (src : Str) (pm sm : List MR) (nonUnit : List (Nat × Nat)) (st : St) (n : Num)
    (hpu : mget (prefixSearch c src pm st.mapping n) n.start = none)
    (hL : maxSuffix c src (n.start + n.len) sm ≠ 0)
    (hnu : (c.isDimension && insideNonUnit nonUnit n.start (n.len + maxSuffix c src (n.start + n.len) sm)) = false) :
    (step c src pm sm nonUnit st n).result = st.result ++
        [⟨n.start, n.len + maxSuffix c src (n.start + n.len) sm,
          slice src n.start (n.start + n.len + maxSuffix c src (n.start + n.len) sm), some ⟨0, n.len, n.text⟩⟩] ∧
      (step c src pm sm nonUnit st n).flags = st.flags ++ [false] ∧
      ((∀ m ∈ sm, m.start + m.len ≤ src.length) → n.start + n.len ≤ src.length →
        (slice src n.start (n.start + n.len + maxSuffix c src (n.start + n.len) sm)).length =
          n.len + maxSuffix c src (n.start + n.len) sm) := by
  obtain ⟨_, e2⟩ := step_cases c src pm sm nonUnit st n _ _ _ rfl rfl rfl
  rw [hpu] at e2
  simp only [suffixER, Nat.sub_self] at e2
  refine ⟨?_, ?_, ?_⟩
  · rcases e2 with ⟨_, _, er, _⟩ | ⟨h0, _⟩ | ⟨er, _⟩
    · exact er
    · exact absurd h0 hL
    · exfalso
      unfold step stepSticky at er
      simp only [hpu, hL, ne_eq, not_false_eq_true, if_true, suffixER, Nat.sub_self, hnu] at er
      simp at er
  · rcases e2 with ⟨_, _, _, ef⟩ | ⟨h0, _⟩ | ⟨_, ef⟩
    · exact ef
    · exact absurd h0 hL
    · exfalso
      unfold step stepSticky at ef
      simp only [hpu, hL, ne_eq, not_false_eq_true, if_true, suffixER, Nat.sub_self, hnu] at ef
      simp at ef
  · intro hsm hn
    have := maxSuffix_inside c src (n.start + n.len) sm hsm hn
    rw [slice_length_le] <;> omega

/-- C05(g) **prefix result** (`nwu_prefix_span`): when the prefix search finds `m` for a number `n` (first number at that
position), `m` is a non-empty prefix match that ends at or before the number and whose text is the stripped source between
its start and the number; the unit string kept is the source from `m.start` to the number, the offset is `n.start - m.start`.
If the suffix search also succeeds, the one new result starts at `m.start`, its text is prefix unit ++ suffix slice and the
relative number start handed to the parser is the offset; if it does not, the one new result is `unit ++ number` starting
at `m.start`, relative number start = offset, flagged "unit is prefix" — whatever happened to the numbers before
(`prefix_matched` is reset for every number since fix f41005087; before it this needed "no earlier number had both"). -/
theorem nwu_prefix_span (c : Cfg) (src : Str) (pm sm : List MR) (nonUnit : List (Nat × Nat)) (st : St) (n : Num) (m : MR)
    (hgate : min c.maxPrefixLen n.start ≠ 0) (hb : bestPrefix c.sp src n.start pm = some m)
    (hfirst : mget st.mapping n.start = none) :
    (m ∈ pm ∧ 0 < m.len ∧ m.start + m.len ≤ n.start ∧ strip c.sp (slice src m.start n.start) = m.text) ∧
    mget (prefixSearch c src pm st.mapping n) n.start = some (n.start - m.start, slice src m.start n.start) ∧
    (∀ L, maxSuffix c src (n.start + n.len) sm = L → L ≠ 0 →
      (c.isDimension && insideNonUnit nonUnit m.start (n.len + L + (n.start - m.start))) = false →
      (step c src pm sm nonUnit st n).result = st.result ++
        [⟨m.start, n.len + L + (n.start - m.start),
          slice src m.start n.start ++ slice src n.start (n.start + n.len + L),
          some ⟨n.start - m.start, n.len, n.text⟩⟩] ∧
      (step c src pm sm nonUnit st n).flags = st.flags ++ [false]) ∧
    (maxSuffix c src (n.start + n.len) sm = 0 →
      (step c src pm sm nonUnit st n).result = st.result ++
        [⟨m.start, n.len + (n.start - m.start), slice src m.start n.start ++ n.text,
          some ⟨n.start - m.start, n.len, n.text⟩⟩] ∧
      (step c src pm sm nonUnit st n).flags = st.flags ++ [true]) := by
  have hs := bestPrefix_spec _ _ _ _ _ hb
  have hle : m.start ≤ n.start := by have := hs.2.1; have := hs.2.2.1; omega
  have hmp : mget (prefixSearch c src pm st.mapping n) n.start = some (n.start - m.start, slice src m.start n.start) := by
    unfold prefixSearch
    simp only [hgate, ne_eq, not_false_eq_true, if_true, hb, mget_addElement, hfirst]
    simp
    congr 1; omega
  have e3 : n.start - (n.start - m.start) = m.start := by omega
  refine ⟨hs, hmp, ?_, ?_⟩
  · intro L hL hL0 hnu
    obtain ⟨_, e2⟩ := step_cases c src pm sm nonUnit st n _ _ L rfl hmp hL
    simp only [suffixER, e3] at e2
    rcases e2 with ⟨_, _, er, ef⟩ | ⟨h0, _⟩ | ⟨er, ef⟩
    · exact ⟨er, ef⟩
    · exact absurd h0 hL0
    · exfalso
      unfold step stepSticky at ef
      simp only [hmp, hL, hL0, ne_eq, not_false_eq_true, if_true, suffixER, e3, hnu] at ef
      simp at ef
  · intro hL
    obtain ⟨_, e2⟩ := step_cases c src pm sm nonUnit st n _ _ 0 rfl hmp hL
    simp only [prefixOnlyER] at e2
    rcases e2 with ⟨h0, _⟩ | ⟨_, p, hp, er, ef⟩ | ⟨er, ef⟩
    · exact absurd rfl h0
    · simp only [Option.some.injEq] at hp
      subst hp
      simp only [e3] at er
      exact ⟨er, ef⟩
    · exfalso
      unfold step stepSticky at ef
      simp only [hmp, hL, ne_eq, not_true_eq_false, if_false, prefixOnlyER] at ef
      simp at ef

/-- C05(h) / C01 **every result's text is the slice it claims** (`nwu_result_text_is_slice`): for well-formed inputs
(`WF`: suffix matches and numbers inside the string, number and separate-unit texts = slices), whatever the prefix
matcher, the filters (masks) and the non-unit regex do, every result `extract` returns before `expand_half_suffix`
lies inside the string the loop worked on and `text = source[start : start+length]`. -/
theorem nwu_result_text_is_slice (c : Cfg) (i : Inputs) (h : WF c i) (rs : List ER) (he : extractPre c i = some rs) :
    ∀ r ∈ rs, r.start + r.len ≤ (fixedSource c i).length ∧
      r.text = slice (fixedSource c i) r.start (r.start + r.len) := fun r hr =>
  ⟨(extractPre_resOK c i h rs he r hr).1, (extractPre_resOK c i h rs he r hr).2.1⟩

/-- … and of the whole `extract` for every configuration whose `expand_half_suffix` is `pass` (all but the Chinese one:
no half-unit flags). -/
theorem nwu_result_text_is_slice_full (c : Cfg) (i : Inputs) (h : WF c i) (hh : ∀ b ∈ i.half, b = false)
    (rs : List ER) (he : extract c i = some rs) :
    ∀ r ∈ rs, r.text = slice (fixedSource c i) r.start (r.start + r.len) := by
  unfold extract at he
  split at he
  · simp only [Option.some.injEq] at he; subst he; intro r hr; simp at hr
  · cases hp : extractPre c i with
    | none => simp [hp] at he
    | some pre =>
      simp only [hp, Option.map_some, Option.some.injEq, expandHalf_no_half _ _ _ hh] at he
      subst he
      exact fun r hr => (nwu_result_text_is_slice c i h pre hp r hr).2

/-- C05(i) **what the parser receives** (`nwu_relative_number_start`): every returned result that carries a number `d`
has `text = pre ++ d.text ++ rest` with `d.start = |pre|` and `d.length = |d.text|` — exactly the shape
`key_assembly_suffix` (`pre = []`) and `key_assembly_prefix` (`rest = []`) are stated for. -/
theorem nwu_relative_number_start (c : Cfg) (i : Inputs) (h : WF c i) (rs : List ER) (he : extractPre c i = some rs) :
    ∀ r ∈ rs, ∀ d, r.data = some d →
      ∃ pre rest, r.text = pre ++ d.text ++ rest ∧ d.start = pre.length ∧ d.len = d.text.length := fun r hr =>
  (extractPre_resOK c i h rs he r hr).2.2

/-- C05(j) **extractor → parser, end to end** (`extract_then_parse_unit`): source = numeral ++ blanks ++ spelling, the
number extractor reports the numeral, the suffix matcher reports the spelling (any further matches inside the string,
any prefix matches). Then the number loop produces exactly one result, the whole source with the number at relative
position 0, and the parser's unit lookup on what it receives answers the unit the map assigns to the spelling
(no connector token, spelling without outer blanks or brackets — `parse_suffix_unit`). -/
theorem extract_then_parse_unit (c : Cfg) (lower : Str → Str) (unitMap : Unit.Dict) (num sep form u : Str)
    (pm sm : List MR) (nonUnit : List (Nat × Nat))
    (hn : num ≠ []) (hf : form ≠ []) (hsep : ∀ ch ∈ sep, c.sp ch = true)
    (hsm : ∀ m ∈ sm, m.start + m.len ≤ (num ++ sep ++ form).length)
    (hm : (⟨num.length + sep.length, form.length, form⟩ : MR) ∈ sm)
    (hnu : (c.isDimension && insideNonUnit nonUnit 0 (num ++ sep ++ form).length) = false)
    (hstrip : Unit.strip c.sp (sep ++ form) = form) (hb : Unit.deleteBrackets form = form)
    (hmap : Unit.dget unitMap form = some u) (hu : u ≠ []) :
    (coreLoop c (num ++ sep ++ form) pm sm nonUnit [⟨0, num.length, num⟩]).result =
        [⟨0, (num ++ sep ++ form).length, num ++ sep ++ form, some ⟨0, num.length, num⟩⟩] ∧
      (coreLoop c (num ++ sep ++ form) pm sm nonUnit [⟨0, num.length, num⟩]).flags = [false] ∧
      Unit.parseUnit c.sp lower unitMap [] (num ++ sep ++ form) 0 num.length = some u := by
  have hnl : 0 < num.length := List.length_pos_iff.mpr hn
  have hfl : 0 < form.length := List.length_pos_iff.mpr hf
  have hlen : (num ++ sep ++ form).length = num.length + sep.length + form.length := by simp; omega
  -- the suffix search reaches the end of the string
  have hfi : num.length < (num ++ sep ++ form).length := by omega
  have hmid : slice (num ++ sep ++ form) num.length (num.length + sep.length) = sep := by
    rw [List.append_assoc, slice_append_right]; simp
  have hadm : Admissible c (num ++ sep ++ form) num.length ⟨num.length + sep.length, form.length, form⟩ := by
    refine ⟨hfl, by simp, Or.inl ?_⟩
    simp only [plainOK, hmid]
    by_cases he : sep = []
    · simp [he]
    · have : isSpaceStr c.sp sep = true := by
        simp [isSpaceStr, he, List.all_eq_true]; exact hsep
      simp [this]
  have hge := (nwu_longest_suffix_wins c _ num.length sm hfi).1 _ hm hadm
  have hle := maxSuffix_inside c _ num.length sm hsm (by omega)
  have hL : maxSuffix c (num ++ sep ++ form) num.length sm = sep.length + form.length := by
    simp only [endPos] at hge; omega
  -- one iteration of the loop
  have hpu : mget (prefixSearch c (num ++ sep ++ form) pm St.init.mapping ⟨0, num.length, num⟩)
      (⟨0, num.length, num⟩ : Num).start = none := by
    simp [prefixSearch, St.init, mget]
  have hspan := nwu_suffix_span c (num ++ sep ++ form) pm sm nonUnit St.init ⟨0, num.length, num⟩ hpu
    (by simp only [Nat.zero_add, hL]; omega)
    (by simp only [Nat.zero_add, hL]; rw [hlen] at hnu; rw [← hnu]; congr 2; omega)
  simp only [Nat.zero_add, hL] at hspan
  have e1 : num.length + (sep.length + form.length) = (num ++ sep ++ form).length := by omega
  refine ⟨?_, ?_, ?_⟩
  · show (step c (num ++ sep ++ form) pm sm nonUnit St.init ⟨0, num.length, num⟩).result = _
    rw [hspan.1, e1, slice_zero_length]; rfl
  · show (step c (num ++ sep ++ form) pm sm nonUnit St.init ⟨0, num.length, num⟩).flags = _
    rw [hspan.2.1]; rfl
  · rw [List.append_assoc]
    exact Unit.parse_suffix_unit c.sp lower unitMap num (sep ++ form) u hn (by simp [hf]) hu
      (by rw [hstrip]; exact hb) (by rw [hstrip]; exact hmap)

/-- C05(j′) **extractor → parser, unit AND value** (`extract_then_parse_value`): in the situation of
`extract_then_parse_unit` the one result the loop produces, parsed in full, is `UnitValue(number, unit)` where `number` is
the internal number parser's `resolution_str` for exactly the numeral of the source (the number the extractor attached has
text = numeral) and `unit` the spelling's unit. -/
theorem extract_then_parse_value (c : Cfg) (lower : Str → Str) (unitMap : Unit.Dict) (num sep form u : Str)
    (numParse : Str → Option Str)
    (pm sm : List MR) (nonUnit : List (Nat × Nat))
    (hn : num ≠ []) (hf : form ≠ []) (hsep : ∀ ch ∈ sep, c.sp ch = true)
    (hsm : ∀ m ∈ sm, m.start + m.len ≤ (num ++ sep ++ form).length)
    (hm : (⟨num.length + sep.length, form.length, form⟩ : MR) ∈ sm)
    (hnu : (c.isDimension && insideNonUnit nonUnit 0 (num ++ sep ++ form).length) = false)
    (hstrip : Unit.strip c.sp (sep ++ form) = form) (hb : Unit.deleteBrackets form = form)
    (hmap : Unit.dget unitMap form = some u) (hu : u ≠ []) :
    ∃ er d, (coreLoop c (num ++ sep ++ form) pm sm nonUnit [⟨0, num.length, num⟩]).result = [er] ∧ er.data = some d ∧
      Unit.parseFull c.sp lower unitMap [] er.text d.start d.len (numParse d.text) none =
        .unitValue (numParse num) u (Unit.strip c.sp ((numParse num).getD Unit.pyNone ++ [32] ++ u)) := by
  obtain ⟨h1, _, _⟩ := extract_then_parse_unit c lower unitMap num sep form u pm sm nonUnit hn hf hsep hsm hm hnu hstrip hb
    hmap hu
  refine ⟨_, ⟨0, num.length, num⟩, h1, rfl, ?_⟩
  show Unit.parseFull c.sp lower unitMap [] (num ++ sep ++ form) 0 num.length (numParse num) none = _
  rw [List.append_assoc]
  exact Unit.parse_value_is_number_resolution c.sp lower unitMap num (sep ++ form) u (numParse num) hn (by simp [hf]) hu
    (by rw [hstrip]; exact hb) (by rw [hstrip]; exact hmap)

/-! ### `_select_candidates` (currency) -/

/-- No collision between neighbouring candidates ⇒ the list is returned unchanged (separate units included). -/
theorem select_no_conflict_identity (sp : Nat → Bool) (srcLen : Nat) (ers : List ER) (flags : List Bool)
    (hlen : flags.length ≤ ers.length) (hnc : hasConflict (ers.take flags.length) = false) :
    selectCandidates sp srcLen ers flags = some ers := by
  unfold selectCandidates
  have : ¬ (flags.length ≥ 2 ∧ flags.length > ers.length) := by omega
  simp [this, hnc]

/-- Whatever it returns was in the list it was given (it never invents or alters a result). -/
theorem select_results_from_input (sp : Nat → Bool) (srcLen : Nat) (ers : List ER) (flags : List Bool) (out : List ER)
    (h : selectCandidates sp srcLen ers flags = some out) : ∀ r ∈ out, r ∈ ers :=
  selectCandidates_mem sp srcLen ers flags out h

/-- `_select_candidates` returns whenever it gets at most as many flags as results (`|flags| ≤ |ers|`) and every
candidate ends inside the string (since fix e3a14a2db `extract` guarantees the first: `extractPre_lockstep_returns`). -/
theorem select_returns_partial (sp : Nat → Bool) (srcLen : Nat) (ers : List ER) (flags : List Bool)
    (hlen : flags.length ≤ ers.length)
    (hin : ∀ r ∈ ers, erEnd r ≤ (srcLen : Int)) :
    (selectCandidates sp srcLen ers flags).isSome = true := by
  unfold selectCandidates
  have : ¬ (flags.length ≥ 2 ∧ flags.length > ers.length) := by omega
  simp only [this, if_false]
  split
  · rfl
  · have hs : (suffixPass srcLen ((ers.take flags.length).zip flags)).isSome = true := by
      unfold suffixPass
      rw [Option.isSome_map]
      have gen : ∀ (l : List (ER × Bool)) (cur : Int) (res : List ER),
          (∀ eb ∈ l, erEnd eb.1 ≤ (srcLen : Int)) → (res = [] → cur = (srcLen : Int)) →
          (l.foldl suffixPassStep (some (cur, res))).isSome = true := by
        intro l
        induction l with
        | nil => intro cur res _ _; rfl
        | cons x xs ih =>
          intro cur res hl hc
          simp only [List.foldl_cons, suffixPassStep]
          have hx := hl x List.mem_cons_self
          have hxs : ∀ eb ∈ xs, erEnd eb.1 ≤ (srcLen : Int) := fun eb h => hl eb (List.mem_cons_of_mem _ h)
          split
          · exact ih _ _ hxs (by simp)
          · split
            · split
              · rename_i hge _ hemp
                have : res = [] := by simpa using hemp
                have := hc this
                omega
              · exact ih _ _ hxs (by simp)
            · exact ih _ _ hxs hc
      apply gen _ _ _ _ (fun _ => rfl)
      intro eb heb
      have := (List.of_mem_zip (List.mem_reverse.mp heb)).1
      exact hin _ ((List.take_sublist _ _).subset this)
    cases h : suffixPass srcLen ((ers.take flags.length).zip flags) with
    | none => rw [h] at hs; simp at hs
    | some suf => simp only; split <;> rfl

/-- **Regression theorem** for the code before fix e3a14a2db, which passed the loop's `unit_is_prefix` unfiltered although
`ers` had been through `_filter_ambiguity`: `_select_candidates` then indexes past the end (`IndexError`, swallowed by the
model's `parse`: `recognize_currency('model 5usd3 costs 7 dollars')` returned `[]`). Witness of that shape: the loop
produced two results, the ambiguity filter removed the first — two flags, one remaining result. -/
theorem select_misaligned_raises :
    selectCandidates (fun ch => ch == 32) 27 [⟨18, 9, [55, 32, 100, 111, 108, 108, 97, 114, 115], some ⟨0, 1, [55]⟩⟩]
      [false, false] = none := by
  decide

/-- **Current code** (fix e3a14a2db = findings/nwu/select-candidates-misaligned.diff; `Inputs.lockstep = true`, probed by
the check on the working tree — a revert is reported): with `unit_is_prefix` filtered together with the results `extract`
always returns for well-formed inputs, whatever the filter regexes answer: `_select_candidates` gets at most as many
flags as results, and every result ends inside the string. (`_filter_ambiguity` itself has no failing operation left
after fix 1adaa8061 — the model of it is a total function.) -/
theorem extractPre_lockstep_returns (c : Cfg) (i : Inputs) (h : WF c i) (hl : i.lockstep = true) :
    (extractPre c i).isSome = true := by
  unfold extractPre
  split
  · rfl
  · split
    · simp only []
      split
      · apply select_returns_partial
        · unfold selectFlags
          simp only [hl, if_true, List.length_map]
          exact List.length_filterMap_le _ _
        · intro r hr
          exact (filteredTagged_resOK c i h r hr).erEnd_le
      · rfl
    · rfl

/-! ### `_filter_ambiguity` (for ANY outcome of the filter regexes) -/

/-- C05(k) **the ambiguity filters only remove**: whatever the key / value / single-char-unit regexes answer, the result
is a sub-list of the input — same elements, same order, nothing altered, nothing added. -/
theorem filter_ambiguity_only_removes {α} (proj : α → ER) (srcLen : Nat) (fs : FilterSpec) (ers : List α) :
    (filterAmbiguity proj srcLen fs ers).Sublist ers :=
  filterAmbiguity_sublist proj srcLen fs ers

/-- … hence every property of pairs of results (e.g. disjointness, C12) and of single results (spans, C01) survives it. -/
theorem filter_ambiguity_preserves_pairwise {α} (proj : α → ER) (srcLen : Nat) (fs : FilterSpec) (ers : List α)
    (R : α → α → Prop) (h : ers.Pairwise R) : (filterAmbiguity proj srcLen fs ers).Pairwise R :=
  h.sublist (filterAmbiguity_sublist proj srcLen fs ers)

/-- What one dictionary entry does, in closed form (the loop re-binds `ers` while iterating the old list; applying the same
overlap filter again changes nothing): if the key regex hits the text of SOME result of the incoming list and the value
regex matches somewhere in the source, every result overlapping a value match is removed; otherwise the list is unchanged. -/
theorem filter_ambiguity_entry (proj : α → ER) (f : AmbFilter) (ers : List α) :
    ambFilterStep proj f ers =
      if ers.any (fun x => f.keyHit (proj x).text) && !f.valMatches.isEmpty then
        ers.filter (fun y => !overlapsAny f.valMatches (proj y))
      else ers :=
  ambFilterStep_eq proj f ers

/-- No filter entry whose key regex hits a result's text, no single-char unit ⇒ `_filter_ambiguity` is the identity
(the situation of every table row of the property: this is why the row replay sees the loop's result). -/
theorem filter_ambiguity_identity (proj : α → ER) (srcLen : Nat) (fs : FilterSpec) (ers : List α)
    (hk : ∀ f ∈ fs.filters, ∀ x ∈ ers, f.keyHit (proj x).text = false)
    (hs : ∀ x ∈ ers, fs.scu (proj x).text = false) :
    filterAmbiguity proj srcLen fs ers = ers := by
  unfold filterAmbiguity
  have gen : ∀ (fl : List AmbFilter), (∀ f ∈ fl, ∀ x ∈ ers, f.keyHit (proj x).text = false) →
      fl.foldl (fun cur f => ambFilterStep proj f cur) ers = ers := by
    intro fl
    induction fl with
    | nil => intro _; rfl
    | cons f fl ih =>
      intro h
      simp only [List.foldl_cons]
      have : ambFilterStep proj f ers = ers := by
        rw [ambFilterStep_eq]
        have : ers.any (fun x => f.keyHit (proj x).text) = false := by
          rw [List.any_eq_false]; intro x hx; simp [h f List.mem_cons_self x hx]
        simp [this]
      rw [this]
      exact ih (fun g hg => h g (List.mem_cons_of_mem _ hg))
  simp only [gen fs.filters hk]
  rw [List.filter_eq_self]
  intro x hx
  simp [hs x hx]

/-! ### `_extract_separate_units` and `expand_half_suffix` as span statements (feed C01 / C12) -/

/-- C05(l) **separate units**: `_extract_separate_units` keeps the loop's results in front, unchanged and in order, and
appends extract results of non-empty separate-regex matches, in match order, each sharing no character position with
any result of the number loop that lies inside the string. (The code marks `[0, len)` instead of the match's own span
after accepting it; the statement does not depend on those marks.) -/
theorem separate_units_appended_disjoint (srcLen : Nat) (ambTerm : Str) (nonUnit : List (Nat × Nat)) (res : List ER)
    (sep : List (Nat × Str)) :
    ∃ added, separateUnits srcLen ambTerm nonUnit res sep = res ++ added ∧
      added.Sublist (sep.map sepER) ∧
      ∀ u ∈ added, u.text ≠ [] ∧ u.data = none ∧ ∀ r ∈ res, r.start + r.len ≤ srcLen → Disj u r :=
  separateUnits_spec srcLen ambTerm nonUnit res sep

/-- … and pairwise disjoint among themselves when the separate-regex matches are (left to right, non-overlapping — what
`finditer` returns). -/
theorem separate_units_pairwise_disjoint (srcLen : Nat) (ambTerm : Str) (nonUnit : List (Nat × Nat)) (res : List ER)
    (sep : List (Nat × Str)) (hs : sep.Pairwise fun a b => a.1 + a.2.length ≤ b.1) :
    ∃ added, separateUnits srcLen ambTerm nonUnit res sep = res ++ added ∧
      added.Pairwise fun a b => a.start + a.len ≤ b.start := by
  obtain ⟨added, e, sl, _⟩ := separateUnits_spec srcLen ambTerm nonUnit res sep
  refine ⟨added, e, List.Pairwise.sublist sl ?_⟩
  rw [List.pairwise_map]
  exact hs.imp (by intro a b h; simpa [sepER] using h)

/-- **Half expansion** changes a result in one way only: the text and length of the one half-number whose start equals the
result's end are appended; start, data, order and number of results stay. -/
theorem expand_half_shape (res : List ER) (nums : List Num) (half : List Bool) :
    (expandHalf res nums half).length = res.length ∧
    ∀ r' ∈ expandHalf res nums half, ∃ r ∈ res, r' = r ∨
      ∃ mr ∈ nums, mr.start = r.start + r.len ∧ r' = { r with len := r.len + mr.len, text := r.text ++ mr.text } := by
  refine ⟨?_, expandHalf_cases res nums half⟩
  unfold expandHalf
  simp only []
  split <;> simp

/-- Half expansion keeps "text = source[start:start+length]" whenever every number that can be appended has its absolute
position (`NumOK`: inside the string, text = slice). Since fix "half-stale-start" (the relative number start is set on a
copy) that is the case for all numbers `expand_half_suffix` sees: `nwu_extract_text_is_slice`. -/
theorem expand_half_text_is_slice_partial (src : Str) (res : List ER) (nums : List Num) (half : List Bool)
    (hr : ∀ r ∈ res, r.start + r.len ≤ src.length ∧ r.text = slice src r.start (r.start + r.len))
    (hn : ∀ n ∈ nums, NumOK src n) :
    ∀ r' ∈ expandHalf res nums half, r'.start + r'.len ≤ src.length ∧ r'.text = slice src r'.start (r'.start + r'.len) := by
  intro r' hr'
  obtain ⟨r, hrm, h | ⟨mr, hmr, hs, h⟩⟩ := expandHalf_cases res nums half r' hr'
  · rw [h]; exact hr r hrm
  · have hN := hn mr hmr
    have hR := hr r hrm
    rw [h]
    refine ⟨by simp only; have := hN.1; omega, ?_⟩
    simp only
    rw [hR.2, hN.2, hs, ← Nat.add_assoc, slice_append_slice] <;> omega

/-- **Regression theorem** for the code before fix "half-stale-start" (`Inputs.pristineHalf = false`: `expand_half_suffix`
saw the numbers as the loop left them, start overwritten by the relative start inside the result that consumed them).
Witness = the zh-cn currency input `5元,￥ 半` (prefix match `￥`@3, suffix match `元`@1, numbers
`5`@0 and `半`@5 with the half flag): `半` is consumed by `￥ 半`, its start becomes the relative start 2 — where `5元`
ends — and `5元` was turned into `5元半` although the source there reads `5元,` (observed then: the recogniser answered
5.5 yuan for `5元,`); with the absolute positions (last conjunct) nothing is appended. -/
theorem nwu_expand_half_stale_witness :
    let c : Cfg := ⟨fun ch => ch == 32, [], 10, true, false⟩
    let src : Str := [53, 20803, 44, 65509, 32, 21322]
    let st := coreLoop c src [⟨3, 1, [65509]⟩] [⟨1, 1, [20803]⟩] [] [⟨0, 1, [53]⟩, ⟨5, 1, [21322]⟩]
    st.nums = [⟨0, 1, [53]⟩, ⟨2, 1, [21322]⟩] ∧
    expandHalf st.result st.nums [false, true] =
      [⟨0, 3, [53, 20803, 21322], some ⟨0, 1, [53]⟩⟩, ⟨3, 3, [65509, 32, 21322], some ⟨2, 1, [21322]⟩⟩] ∧
    slice src 0 3 = [53, 20803, 44] ∧
    expandHalf st.result [⟨0, 1, [53]⟩, ⟨5, 1, [21322]⟩] [false, true] = st.result := by
  decide

/-- C05(m) / C01 **the whole `extract`, half expansion included** (current code: `pristineHalf`): for well-formed inputs
every returned result lies inside the string the loop worked on and its text is the slice it claims — for every
configuration, the Chinese one with its half-unit flags included, whatever the regexes answer. -/
theorem nwu_extract_text_is_slice (c : Cfg) (i : Inputs) (h : WF c i) (hp : i.pristineHalf = true)
    (rs : List ER) (he : extract c i = some rs) :
    ∀ r ∈ rs, r.start + r.len ≤ (fixedSource c i).length ∧
      r.text = slice (fixedSource c i) r.start (r.start + r.len) := by
  unfold extract at he
  split at he
  · simp only [Option.some.injEq] at he; subst he; intro r hr; simp at hr
  · cases hpre : extractPre c i with
    | none => simp [hpre] at he
    | some pre =>
      simp only [hpre, Option.map_some, Option.some.injEq, hp] at he
      subst he
      exact expand_half_text_is_slice_partial (fixedSource c i) pre (loopNumbers c i) i.half
        (nwu_result_text_is_slice c i h pre hpre) h.numbers

/-! ### `BaseMergedUnitExtractor` (currency) -/

/-- every result of `BaseMergedUnitExtractor.extract` (currency) is the slice of the source it claims, provided the unit
extractor's and the number extractor's results are (for any connector-regex behaviour `gapOK`) -/
theorem merged_result_text_is_slice (sp : Nat → Bool) (src : Str) (gapOK : Nat → Nat → Bool) (ers nums : List Item)
    (he : ∀ it ∈ ers, it.text = slice src it.start (it.start + it.len))
    (hn : ∀ it ∈ nums, it.text = slice src it.start (it.start + it.len))
    (out : List Group) (h : mergedCompoundUnits sp src gapOK ers nums = some out) :
    ∀ g ∈ out, g.text = slice src g.start (g.start + g.len) := by
  unfold mergedCompoundUnits at h
  simp only [] at h
  cases hb : buildGroups src ((mergePureNumber sp src gapOK ers nums).zip
      (groupsFrom sp src gapOK 0 (mergePureNumber sp src gapOK ers nums))) none [] with
  | none => rw [hb] at h; simp at h
  | some res =>
    rw [hb] at h
    simp only [Option.map_some, Option.some.injEq] at h
    subst h
    intro g hg
    have hg' := (List.mem_filter.mp hg).1
    refine buildGroups_ok src _ none [] res ?_ (by simp) hb g hg'
    intro p hp
    have := (List.of_mem_zip hp).1
    rcases mergePureNumber_mem sp src gapOK ers nums p.1 this with h | h
    · exact he _ h
    · exact hn _ h

/-! ### examples (hypotheses are satisfiable; the model computes) — blank = 32 -/

/-- `7 kg`: suffix match `kg` at 2 → one result, the whole string, number at relative position 0. -/
example : (coreLoop ⟨fun ch => ch == 32, [], 0, false, false⟩ [55, 32, 107, 103] [] [⟨2, 2, [107, 103]⟩] [] [⟨0, 1, [55]⟩]).result =
    [⟨0, 4, [55, 32, 107, 103], some ⟨0, 1, [55]⟩⟩] := by decide

/-- `$ 7`: prefix match `$` at 0 → prefix-only result, number at relative position 2, flagged prefix. -/
example : let st := coreLoop ⟨fun ch => ch == 32, [], 3, true, false⟩ [36, 32, 55] [⟨0, 1, [36]⟩] [] [] [⟨2, 1, [55]⟩]
    st.result = [⟨0, 3, [36, 32, 55], some ⟨2, 1, [55]⟩⟩] ∧ st.flags = [true] := by decide

/-- `5 (kg)`: the bracket rule takes the closing bracket in. -/
example : maxSuffix ⟨fun ch => ch == 32, [], 0, false, false⟩ [53, 32, 40, 107, 103, 41] 1 [⟨3, 2, [107, 103]⟩] = 5 := by decide

/-- C05(g′) **a prefix unit alone is enough** (`nwu_prefix_only_result`): a number with an admissible prefix match (the
search is on, `best_match = m`, first number at that position) and no suffix result (`max_len = 0`) yields exactly one
new result, `unit ++ number` from `m.start`, with the number at relative position `offset`, flagged prefix — for ANY state
the earlier numbers left behind. (The code before fix f41005087 violated this: regression theorem below.) -/
theorem nwu_prefix_only_result (c : Cfg) (src : Str) (pm sm : List MR) (nonUnit : List (Nat × Nat)) (st : St) (n : Num) (m : MR)
    (hgate : min c.maxPrefixLen n.start ≠ 0) (hb : bestPrefix c.sp src n.start pm = some m)
    (hfirst : mget st.mapping n.start = none) (hL : maxSuffix c src (n.start + n.len) sm = 0) :
    (step c src pm sm nonUnit st n).result = st.result ++
        [⟨m.start, n.len + (n.start - m.start), slice src m.start n.start ++ n.text,
          some ⟨n.start - m.start, n.len, n.text⟩⟩] ∧
      (step c src pm sm nonUnit st n).flags = st.flags ++ [true] :=
  (nwu_prefix_span c src pm sm nonUnit st n m hgate hb hfirst).2.2.2 hL

/-- `$5 u $7` (prefix matches `$`@0 and `$`@5, suffix match `u`@3): both amounts come out — `$5 u` and `$7`. -/
example : (coreLoop ⟨fun ch => ch == 32, [], 3, true, false⟩ [36, 53, 32, 117, 32, 36, 55]
      [⟨0, 1, [36]⟩, ⟨5, 1, [36]⟩] [⟨3, 1, [117]⟩] [] [⟨1, 1, [53]⟩, ⟨6, 1, [55]⟩]).result =
      [⟨0, 4, [36, 53, 32, 117], some ⟨1, 1, [53]⟩⟩, ⟨5, 2, [36, 55], some ⟨1, 1, [55]⟩⟩] := by decide

/-- **Regression theorem** for the variant before fix f41005087 (`coreLoopSticky`: `prefix_matched` set by the first
number that has both a prefix and a suffix unit and never reset): on `$5 u $7` it returns `$5 u` only, `$7` is dropped
(observed then on the real recogniser: `$5 usd and $7` → one entity); without the suffix match both variants agree. -/
theorem nwu_prefix_only_suppressed_witness :
    (coreLoopSticky ⟨fun ch => ch == 32, [], 3, true, false⟩ [36, 53, 32, 117, 32, 36, 55]
      [⟨0, 1, [36]⟩, ⟨5, 1, [36]⟩] [⟨3, 1, [117]⟩] [] [⟨1, 1, [53]⟩, ⟨6, 1, [55]⟩]).result =
      [⟨0, 4, [36, 53, 32, 117], some ⟨1, 1, [53]⟩⟩] ∧
    (coreLoopSticky ⟨fun ch => ch == 32, [], 3, true, false⟩ [36, 53, 32, 117, 32, 36, 55]
      [⟨0, 1, [36]⟩, ⟨5, 1, [36]⟩] [] [] [⟨1, 1, [53]⟩, ⟨6, 1, [55]⟩]).result =
      [⟨0, 2, [36, 53], some ⟨1, 1, [53]⟩⟩, ⟨5, 2, [36, 55], some ⟨1, 1, [55]⟩⟩] := by decide

end RTV.UnitExtract
