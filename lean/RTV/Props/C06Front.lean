import RTV.Props.C06
import RTV.Lemmas.DateFrontEvAll
import RTV.Gen.ReTables
/-!
# C06, front end — from the TEXT of an English date to the groups `abs_date` assumes, by theorem

`Props/C06.lean` proves DECODE → RESOLVE: given the named groups a layout yields, the entity is that date (`abs_date`).
This file closes the gap in front of it for English: `BaseDateParser.parse_basic_regex_match` (RTV.Model.DateFront:
the loop over the eleven compiled date regexes of the working tree, regenerated as `RE` terms — RTV/Gen/DateRegexEn.lean —
`regex.search`, the whole-text acceptance test, the token prefix retry, `get_group`) applied to the text of a date in a
layout of `contracts/C06.json["layouts"]["en-us"]` (regenerated token lists, RTV/Gen/DateLayoutsEn.lean) hands
`match_to_date` exactly the year / month / day the text was rendered from.

What is covered how:
* EVERY layout of the contract (15), EVERY year 1900..2099, EVERY month, EVERY day 1..31 — no representative dates.
  The finite part is kernel evaluation (`decide +kernel`, RTV/Lemmas/DateFrontEv*.lean, 2,380 abstract texts) of the
  matcher on ABSTRACT texts: a set of candidate characters per position (both year digits 0-9, day digits by the classes the
  regexes distinguish, …); `matchK_mono` + `abs_refines_conc` (Lemmas/DateFront, DateFrontCover, proved once, for every
  regex and every continuation) turn a known abstract outcome into the outcome on every concrete text drawn from the
  candidates; `coverB` (evaluated) shows every date's text is drawn from one of the abstract texts.  For each layout:
  the regexes BEFORE the accepting one reject the text and `prefix + text` at every start position (so the loop goes
  on), the accepting regex matches the whole text at offset 0 with the groups lying exactly on the tokens.
* the engine tables: any `Tables` that agrees with ASCII below 128 (`AsciiAgree`); `retables_ascii` shows the tables
  exported from the running `regex` module do.  `str.strip`: any `Uni` for which no visible ASCII character is white space.
* a change of a date regex, of the month / day tables or of a contract layout regenerates the terms these theorems are
  about; the evaluation facts are then re-checked (or break).
Not covered here: the date EXTRACTOR (which span of a sentence is handed to the parser) and `source.text.lower()` —
pipeline level (harness/corr/c06.py); cultures other than English.
-/
namespace RTV.DateFront
open RTV.Re RTV.Py RTV.DtRes RTV.Gen.DateRegexEn RTV.Gen.DateLayoutsEn RTV.Gen.DtMaps

/-! ## the engine's tables, the interpreter's tables -/

def asciiAgreeB (T : Tables) : Bool :=
  (List.range 128).all fun c =>
    T.digit c == asciiTables.digit c && T.word c == asciiTables.word c && T.space c == asciiTables.space c

theorem asciiAgree_of_B (T : Tables) (h : asciiAgreeB T = true) : AsciiAgree T := by
  intro c hc
  unfold asciiAgreeB at h
  simp only [List.all_eq_true, List.mem_range, Bool.and_eq_true, beq_iff_eq] at h
  obtain ⟨⟨h1, h2⟩, h3⟩ := h c hc
  exact ⟨h1, h2, h3⟩

/-- `\d`, `\w`, `\s` of the running `regex` module (RTV/Gen/ReTables.lean) are the ASCII classes below 128 -/
theorem retables_ascii : AsciiAgree RTV.Gen.reTables := asciiAgree_of_B _ (by decide +kernel)

theorem asciiUni_text : TextUni asciiUni :=
  ⟨asciiUni_ascii, by intro c h1 h2; simp [asciiUni]; omega⟩

/-! ## every layout has its evaluated facts -/

theorem layouts_have_facts : ∀ L ∈ layoutsEn, ∃ k, Ev.LayoutFacts L k := by
  intro L hL
  simp only [layoutsEn, List.mem_cons, List.mem_nil_iff, or_false] at hL
  rcases hL with rfl | rfl | rfl | rfl | rfl | rfl | rfl | rfl | rfl | rfl | rfl | rfl | rfl | rfl | rfl
  · exact ⟨_, Ev.facts0⟩
  · exact ⟨_, Ev.facts1⟩
  · exact ⟨_, Ev.facts2⟩
  · exact ⟨_, Ev.facts3⟩
  · exact ⟨_, Ev.facts4⟩
  · exact ⟨_, Ev.facts5⟩
  · exact ⟨_, Ev.facts6⟩
  · exact ⟨_, Ev.facts7⟩
  · exact ⟨_, Ev.facts8⟩
  · exact ⟨_, Ev.facts9⟩
  · exact ⟨_, Ev.facts10⟩
  · exact ⟨_, Ev.facts11⟩
  · exact ⟨_, Ev.facts12⟩
  · exact ⟨_, Ev.facts13⟩
  · exact ⟨_, Ev.facts14⟩

/-- the contract has these fifteen layouts, and which regex accepts each (DateExtractor1 = 0, 3 = 1, 4 = 2, A = 10) -/
theorem layouts_count : layoutsEn.length = 15 ∧ Ev.acceptingRegex = [10, 2, 2, 2, 2, 0, 0, 1, 0, 1, 0, 0, 1, 1, 0] := by
  decide

/-! ## text → groups -/

/-- FRONT END, groups. For every layout of the contract, every year 1900..2099, month 1..12 and day 1..31, for every
engine table that agrees with ASCII below 128: `parse_basic_regex_match` accepts the rendered text and the groups it
hands to `match_to_date` are exactly the rendered year, month and day tokens of the layout; no written-out year. -/
theorem front_groups_en {T : Tables} (hT : AsciiAgree T) {u : Uni} (hu : TextUni u) (L : List Tok) (hL : L ∈ layoutsEn)
    (y m d : Nat) (hy : 1900 ≤ y ∧ y ≤ 2099) (hm : 1 ≤ m ∧ m ≤ 12) (hd : 1 ≤ d ∧ d ≤ 31) :
    ∃ h ty tm td, parseBasic T u dateTokenPrefix dateRegexes (renderL namesEn L y m d) =
        some (some (h, { year := ty.render namesEn y m d, month := tm.render namesEn y m d,
                         day := td.render namesEn y m d, fullYear := [] })) ∧
      ty ∈ L ∧ ty.kind = 1 ∧ tm ∈ L ∧ tm.kind = 2 ∧ td ∈ L ∧ td.kind = 3 := by
  obtain ⟨k, hf⟩ := layouts_have_facts L hL
  obtain ⟨ac, hac⟩ := hf.acc
  have hrej : ∀ j, j < k → ∃ c : Cert, coverB namesEn L c = true ∧ rejAll dateRegexes dateTokenPrefix j L c = true := hf.rej
  -- choose the rejecting certificates
  have hch : ∃ rc : Nat → Cert, ∀ j, j < k → coverB namesEn L (rc j) = true ∧ rejAll dateRegexes dateTokenPrefix j L (rc j) = true := by
    classical
    refine ⟨fun j => if hj : j < k then (hrej j hj).choose else ac, fun j hj => ?_⟩
    simp only [hj, dif_pos]
    exact (hrej j hj).choose_spec
  obtain ⟨rc, hrc⟩ := hch
  obtain ⟨h, ty, tm, td, hp, _, r⟩ := front_all hT hu namesEn dateRegexes dateTokenPrefix L k rc ac hrc hac y m d hy hm hd
  exact ⟨h, ty, tm, td, hp, r⟩

/-! ## groups → `Decodes` (the hypothesis of `abs_date`) -/

theorem decStr4 (n : Nat) (h1 : 1000 ≤ n) (h2 : n < 10000) :
    decStr n = [48 + n / 1000, 48 + n / 100 % 10, 48 + n / 10 % 10, 48 + n % 10] := by
  have e : n + 1 = (n - 3) + 1 + 1 + 1 + 1 := by omega
  have a : ¬ n < 10 := by omega
  have b : ¬ n / 10 < 10 := by omega
  have c : ¬ n / 10 / 10 < 10 := by omega
  have d : n / 10 / 10 / 10 < 10 := by omega
  simp only [decStr, e, decAux_succ, a, b, c, d, if_true, if_false]
  have e1 : n / 10 / 10 / 10 = n / 1000 := by omega
  have e2 : n / 10 / 10 % 10 = n / 100 % 10 := by omega
  simp [e1, e2]

theorem isNum_four (u : Uni) (ha : u.Ascii) (a b c d : Nat) (h1 : a ≤ 9) (h2 : b ≤ 9) (h3 : c ≤ 9) (h4 : d ≤ 9) :
    IsNum u [48 + a, 48 + b, 48 + c, 48 + d] (((a * 10 + b) * 10 + c) * 10 + d) := by
  have s1 := ha.notSpace a h1
  have s4 := ha.notSpace d h4
  constructor
  · simp [pyInt, strip, stripLeft, s1, s4, digitsVal, ha.digit a h1, ha.digit b h2, ha.digit c h3, ha.digit d h4]
  · simp [isNumericStr, ha.numeric a h1, ha.numeric b h2, ha.numeric c h3, ha.numeric d h4]
  · simp [blank, strip, stripLeft, s1, s4]

/-- the `{y}` token of a year 1000..9999 is a digit string `int()` reads as that year -/
theorem year_token_isNum (u : Uni) (ha : u.Ascii) (y : Nat) (h1 : 1000 ≤ y) (h2 : y ≤ 9999) : IsNum u (decStr y) y := by
  rw [decStr4 y h1 (by omega)]
  have := isNum_four u ha (y / 1000) (y / 100 % 10) (y / 10 % 10) (y % 10) (by omega) (by omega) (by omega) (by omega)
  have e : ((y / 1000 * 10 + y / 100 % 10) * 10 + y / 10 % 10) * 10 + y % 10 = y := by omega
  rwa [e] at this

/-- every month token (`3`, `03`, `march`, `mar`) of a month 1..12 is a key of the regenerated English `MonthOfYear`
with that month; every day token (`5`, `05`, `5th`) of a day 1..31 a key of `DayOfMonth` with that day -/
def tokenTablesB : Bool :=
  (List.range 12).all (fun i => [Tok.m, Tok.m02, Tok.mon, Tok.abbr].all fun t =>
    lookup monthOfYear_en (t.render namesEn 0 (1 + i) 0) == some (1 + i)) &&
  (List.range 31).all (fun i => [Tok.d, Tok.d02, Tok.dord].all fun t =>
    lookup dayOfMonth_en (t.render namesEn 0 0 (1 + i)) == some (1 + i))

theorem token_tables : tokenTablesB = true := by decide +kernel

theorem month_token (t : Tok) (ht : t.kind = 2) (y m d : Nat) (hm : 1 ≤ m ∧ m ≤ 12) :
    lookup monthOfYear_en (t.render namesEn y m d) = some m := by
  have h := token_tables
  unfold tokenTablesB at h
  simp only [Bool.and_eq_true, List.all_eq_true, List.mem_range, beq_iff_eq, List.mem_cons, List.mem_nil_iff, or_false] at h
  have := h.1 (m - 1) (by omega) t (by cases t <;> simp_all [Tok.kind])
  rw [show 1 + (m - 1) = m by omega] at this
  rw [render_kind2 namesEn t ht y m d 0 0]
  exact this

theorem day_token (t : Tok) (ht : t.kind = 3) (y m d : Nat) (hd : 1 ≤ d ∧ d ≤ 31) :
    lookup dayOfMonth_en (t.render namesEn y m d) = some d := by
  have h := token_tables
  unfold tokenTablesB at h
  simp only [Bool.and_eq_true, List.all_eq_true, List.mem_range, beq_iff_eq, List.mem_cons, List.mem_nil_iff, or_false] at h
  have := h.2 (d - 1) (by omega) t (by cases t <;> simp_all [Tok.kind])
  rw [show 1 + (d - 1) = d by omega] at this
  rw [render_kind3 namesEn t ht y m d 0 0]
  exact this

theorem year_token (t : Tok) (ht : t.kind = 1) (y m d : Nat) : t.render namesEn y m d = decStr y := by
  cases t <;> simp_all [Tok.kind, Tok.render]

/-- FRONT END → DECODE: the groups the front end yields satisfy `Decodes` for the date the text was rendered from —
exactly the hypothesis of `abs_date`. -/
theorem front_decodes {T : Tables} (hT : AsciiAgree T) {u : Uni} (hu : TextUni u) (L : List Tok) (hL : L ∈ layoutsEn)
    (y m d : Nat) (hy : 1900 ≤ y ∧ y ≤ 2099) (hm : 1 ≤ m ∧ m ≤ 12) (hd : 1 ≤ d ∧ d ≤ 31) :
    ∃ h g, parseBasic T u dateTokenPrefix dateRegexes (renderL namesEn L y m d) = some (some (h, g)) ∧
      Decodes u enCfg g y m d := by
  obtain ⟨h, ty, tm, td, hp, _, k1, _, k2, _, k3⟩ := front_groups_en hT hu L hL y m d hy hm hd
  refine ⟨h, _, hp, ?_⟩
  constructor
  · exact month_token tm k2 y m d hm
  · exact day_token td k3 y m d hd
  · rfl
  · simp only [year_token ty k1]
    exact year_token_isNum u hu.ascii y (by omega) (by omega)

/-! ## text → TIMEX = value = the date -/

/-- C06 FOR THE TEXT (English). A fully specified date `y-m-d`, 1900 ≤ y ≤ 2099, that exists in the calendar, written
in ANY layout of the contract: the date parser's front end (`parse_basic_regex_match` on the regenerated regexes) followed
by `match_to_date`, `BaseDateParser.parse` and `_date_time_resolution` yields exactly one value of type `date` whose
TIMEX and value are `YYYY-MM-DD` — for every reference `R`, every written-year oracle `wy`, every engine table that agrees
with ASCII below 128. (Composition of `front_decodes` with `abs_date`.) -/
theorem front_abs_date {T : Tables} (hT : AsciiAgree T) {u : Uni} (hu : TextUni u) (L : List Tok) (hL : L ∈ layoutsEn)
    (y m d : Nat) (hy : 1900 ≤ y ∧ y ≤ 2099) (hv : (⟨y, m, d⟩ : RTV.Cal.Date).valid = true) (wy : Int) (R : DT) :
    frontResolve T u enCfg dateTokenPrefix dateRegexes (renderL namesEn L y m d) wy R =
      .ok (some [{ timex := ymd y m d, type := sDate, value := some (ymd y m d) }]) := by
  have hvv := (RTV.Cal.valid_iff ⟨y, m, d⟩).1 hv
  simp only at hvv
  have hd31 : d ≤ 31 := Nat.le_trans hvv.2.2.2.2.2 (by unfold RTV.Cal.daysInMonth; split <;> (try split) <;> omega)
  obtain ⟨h, g, hp, hdec⟩ := front_decodes hT hu L hL y m d hy ⟨hvv.2.2.1, hvv.2.2.2.1⟩ ⟨hvv.2.2.2.2.1, hd31⟩
  have := abs_date u monthOfYear_en dayOfMonth_en g y m d hdec hy hv wy R
  simpa [frontResolve, frontToDate, hp, resolveDate, enCfg] using this

/-- … with the tables of the running `regex` module -/
theorem front_abs_date_engine {u : Uni} (hu : TextUni u) (L : List Tok) (hL : L ∈ layoutsEn)
    (y m d : Nat) (hy : 1900 ≤ y ∧ y ≤ 2099) (hv : (⟨y, m, d⟩ : RTV.Cal.Date).valid = true) (wy : Int) (R : DT) :
    frontResolve RTV.Gen.reTables u enCfg dateTokenPrefix dateRegexes (renderL namesEn L y m d) wy R =
      .ok (some [{ timex := ymd y m d, type := sDate, value := some (ymd y m d) }]) :=
  front_abs_date retables_ascii hu L hL y m d hy hv wy R

/-- … in particular the result does not depend on the reference -/
theorem front_reference_independent {u : Uni} (hu : TextUni u) (L : List Tok) (hL : L ∈ layoutsEn)
    (y m d : Nat) (hy : 1900 ≤ y ∧ y ≤ 2099) (hv : (⟨y, m, d⟩ : RTV.Cal.Date).valid = true) (wy : Int) (R₁ R₂ : DT) :
    frontResolve RTV.Gen.reTables u enCfg dateTokenPrefix dateRegexes (renderL namesEn L y m d) wy R₁ =
      frontResolve RTV.Gen.reTables u enCfg dateTokenPrefix dateRegexes (renderL namesEn L y m d) wy R₂ := by
  rw [front_abs_date_engine hu L hL y m d hy hv wy R₁, front_abs_date_engine hu L hL y m d hy hv wy R₂]

/-! ## instances and witnesses (concrete texts, ASCII tables) -/

/-- the group values as a tuple (year, month, day, fullyear) -/
def gtuple (g : DateGroups) : Str × Str × Str × Str := (g.year, g.month, g.day, g.fullYear)

/-- `march 5th, 2019` is the text of 2019-03-05 in layout 10 (the hypotheses are satisfiable) -/
example : layout10 ∈ layoutsEn ∧ renderL namesEn layout10 2019 3 5 = [109, 97, 114, 99, 104, 32, 53, 116, 104, 44, 32, 50, 48, 49, 57] := by
  decide

/-- an impossible day is still handed on (the regexes know nothing of month lengths): `february 30, 2019` yields the groups
2019 / february / 30, and `invalid_date_not_resolved` (Props/C06) takes over -/
theorem front_invalid_day_groups :
    (parseBasic asciiTables asciiUni dateTokenPrefix dateRegexes
      [102, 101, 98, 114, 117, 97, 114, 121, 32, 51, 48, 44, 32, 50, 48, 49, 57]).map (·.map fun p => gtuple p.2) =
      some (some ([50, 48, 49, 57], [102, 101, 98, 114, 117, 97, 114, 121], [51, 48], [])) := by
  decide +kernel

/-- near miss: a 13th month is not a month — `13/5/2019` is not accepted month-first (DateExtractor4, index 2) but by the
day-first DateExtractor7S (index 6): day 13, month 5 -/
theorem front_month13_falls_to_day_first :
    (parseBasic asciiTables asciiUni dateTokenPrefix dateRegexes [49, 51, 47, 53, 47, 50, 48, 49, 57]).map
        (·.map fun p => gtuple p.2) = some (some ([50, 48, 49, 57], [53], [49, 51], [])) ∧
    (parseBasic asciiTables asciiUni dateTokenPrefix dateRegexes [49, 51, 47, 53, 47, 50, 48, 49, 57]).map
        (·.map fun p => p.1.idx) = some (some 6) := by
  decide +kernel

/-- near miss: day 32 is no day — `3/32/2019` is accepted by no regex -/
theorem front_day32_rejected :
    (parseBasic asciiTables asciiUni dateTokenPrefix dateRegexes [51, 47, 51, 50, 47, 50, 48, 49, 57]).map (·.isNone) =
      some true := by
  decide +kernel

/-- a two-digit year reaches `match_to_date` as two digits (then `two_digit_year*` of Props/C06 apply): `3/5/30` -/
theorem front_two_digit_year_groups :
    (parseBasic asciiTables asciiUni dateTokenPrefix dateRegexes [51, 47, 53, 47, 51, 48]).map (·.map fun p => gtuple p.2) =
      some (some ([51, 48], [51], [53], [])) := by
  decide +kernel

end RTV.DateFront
