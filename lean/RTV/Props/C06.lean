import RTV.Lemmas.DtRes
import RTV.Lemmas.DateWords
import RTV.Gen.DtMaps
import RTV.Gen.DtMapsX1
import RTV.Gen.DtMapsX2
import RTV.Gen.DateWords
/-!
# C06 — absolute calendar dates are recognised exactly, whatever the reference date

Theorems about `RTV.Model.DtRes` (mirrors `BaseDateParser.match_to_date`, `DateUtils.generate_dates` and the validity
guard, `DateTimeFormatUtil.luis_date/format_date`, `BaseMergedParser._date_time_resolution`). A *layout* enters only
through what its named groups decode to (`Decodes`): the `month` group is a key of the culture's `month_of_year`
with value `mo`, the `day` group a key of `day_of_month` with value `d`, the `year` group a digit string read as `y`
— so the statements cover every layout, every spelling in the tables and every culture that uses `BaseDateParser`.
The tables and the two-digit-year pivots are the regenerated `RTV/Gen/DtMaps*.lean`. What the WORDS of the tables mean
(`enero` = 1, `märz` = 3, `三月` = 3 …) is fixed by the committed contract `contracts/C06words.json`
(`RTV/Gen/DateWords.lean`), see "Word contract" below.
-/
namespace RTV.DtRes
open RTV.Py RTV.Cal RTV.Gen.DtMaps RTV.Gen.DateWords

/-- a date-parser configuration with the working tree's pivot constants and any month / day tables -/
def genCfg (moy dom : List (Str × Nat)) : DateCfg :=
  { monthOfYear := moy, dayOfMonth := dom, minTwoDigitYearPast := minTwoDigitYearPastNum,
    maxTwoDigitYearFuture := maxTwoDigitYearFutureNum }

def enCfg : DateCfg := genCfg monthOfYear_en dayOfMonth_en

def refAny : DT := ⟨2016, 11, 7, 10, 30, 0⟩

theorem pivots_sane : maxTwoDigitYearFutureNum ≤ minTwoDigitYearPastNum ∧ minTwoDigitYearPastNum ≤ 100 ∧
    0 ≤ maxTwoDigitYearFutureNum := by decide

/-- C06 main statement. A fully specified date `y-mo-d`, 1900 ≤ y ≤ 2099, that exists in the calendar, written in any
layout whose groups decode to it, resolves to exactly one value of type `date` whose TIMEX and value are
`YYYY-MM-DD` — for every reference `R` (the right-hand side does not mention it). -/
theorem abs_date (u : Uni) (moy dom : List (Str × Nat)) (g : DateGroups) (y mo d : Nat)
    (h : Decodes u (genCfg moy dom) g y mo d) (hy : 1900 ≤ y ∧ y ≤ 2099) (hv : (⟨y, mo, d⟩ : Date).valid = true)
    (wy : Int) (R : DT) :
    resolveDate u (genCfg moy dom) g wy R =
      .ok (some [{ timex := ymd y mo d, type := sDate, value := some (ymd y mo d) }]) := by
  have hp : pivotYear (genCfg moy dom) y = y :=
    pivot_four _ y (by omega) (by have := pivots_sane; simp only [genCfg]; omega)
  exact resolveDate_valid u _ g y mo d y wy R h hp (by omega) (by omega) hv

/-- … in particular the result does not depend on the reference date. -/
theorem abs_date_reference_independent (u : Uni) (moy dom : List (Str × Nat)) (g : DateGroups) (y mo d : Nat)
    (h : Decodes u (genCfg moy dom) g y mo d) (hy : 1900 ≤ y ∧ y ≤ 2099) (hv : (⟨y, mo, d⟩ : Date).valid = true)
    (wy : Int) (R₁ R₂ : DT) :
    resolveDate u (genCfg moy dom) g wy R₁ = resolveDate u (genCfg moy dom) g wy R₂ := by
  rw [abs_date u moy dom g y mo d h hy hv wy R₁, abs_date u moy dom g y mo d h hy hv wy R₂]

/-- the shape of `YYYY-MM-DD` -/
theorem ymd_shape (y mo d : Nat) (hy : 1900 ≤ y ∧ y ≤ 2099) (hm : mo < 100) (hd : d < 100) :
    ymd y mo d = [48 + y / 1000, 48 + y / 100 % 10, 48 + y / 10 % 10, 48 + y % 10, 45, 48 + mo / 10, 48 + mo % 10, 45,
      48 + d / 10, 48 + d % 10] := by
  simp [ymd, fmtD4 y (by omega) (by omega), fmtD2 mo hm, fmtD2 d hd, sDash]

example : Decodes asciiUni enCfg { year := [50, 48, 49, 57], month := [109, 97, 114, 99, 104], day := [53, 116, 104] } 2019 3 5 :=
  ⟨by decide, by decide, rfl, ⟨by decide, by decide, by decide⟩⟩

/-- Two-digit years: exactly the years `minTwoDigitYearPastNum … 99` go to 19yy and `0 … maxTwoDigitYearFutureNum − 1`
to 20yy (the interval is read off the regenerated constants) … -/
theorem two_digit_year (u : Uni) (moy dom : List (Str × Nat)) (g : DateGroups) (yy mo d : Nat)
    (h : Decodes u (genCfg moy dom) g yy mo d) (h100 : yy < 100) (wy : Int) (R : DT) :
    (minTwoDigitYearPastNum ≤ (yy : Int) → (⟨1900 + yy, mo, d⟩ : Date).valid = true →
      resolveDate u (genCfg moy dom) g wy R =
        .ok (some [{ timex := ymd (1900 + yy) mo d, type := sDate, value := some (ymd (1900 + yy) mo d) }])) ∧
    ((yy : Int) < maxTwoDigitYearFutureNum → (⟨2000 + yy, mo, d⟩ : Date).valid = true →
      resolveDate u (genCfg moy dom) g wy R =
        .ok (some [{ timex := ymd (2000 + yy) mo d, type := sDate, value := some (ymd (2000 + yy) mo d) }])) := by
  have ps := pivots_sane
  constructor
  · intro hmin hv
    exact resolveDate_valid u _ g yy mo d (1900 + yy) wy R h (pivot_past _ yy h100 hmin) (by omega) (by omega) hv
  · intro hmax hv
    have hmin : (yy : Int) < (genCfg moy dom).minTwoDigitYearPast := by simp only [genCfg]; omega
    exact resolveDate_valid u _ g yy mo d (2000 + yy) wy R h (pivot_future _ yy hmin hmax) (by omega) (by omega) hv

/-- … and a two-digit year between the pivots (`maxTwoDigitYearFutureNum ≤ yy < minTwoDigitYearPastNum`, 30..39 on the
current constants) is taken literally: the pivot leaves it alone and `match_to_date` succeeds with the TIMEX of the
year 00yy (`ymd yy mo d`, four-digit padded) and the calendar date `yy-mo-d` (or `min_value` when it does not exist) as
both values — a date outside 1900–2099. (The merged resolution of one such date is `two_digit_year_witness`.) -/
theorem two_digit_year_gap (u : Uni) (moy dom : List (Str × Nat)) (g : DateGroups) (yy mo d : Nat)
    (h : Decodes u (genCfg moy dom) g yy mo d)
    (h1 : maxTwoDigitYearFutureNum ≤ (yy : Int)) (h2 : (yy : Int) < minTwoDigitYearPastNum) (wy : Int) (R : DT) :
    pivotYear (genCfg moy dom) yy = (yy : Int) ∧
    matchToDate u (genCfg moy dom) g wy R =
      .ok { success := true, timex := ymd yy mo d,
            future := (safeCreateFromMinValue yy mo d).getD minValue,
            past := (safeCreateFromMinValue yy mo d).getD minValue } := by
  have hp : pivotYear (genCfg moy dom) yy = (yy : Int) := pivot_gap _ yy h2 h1
  have hpos : (1 : Int) ≤ maxTwoDigitYearFutureNum := by decide
  exact ⟨hp, matchToDate_of u _ g yy mo d yy wy R h hp (by omega)⟩

/-- Negative witness just outside the interval: `3/5/30` resolves to the year 0030. -/
theorem two_digit_year_witness :
    (resolveDate asciiUni enCfg { year := [51, 48], month := [51], day := [53] } 0 refAny).toOption =
      some (some [{ timex := [48, 48, 51, 48, 45, 48, 51, 45, 48, 53], type := sDate,
                    value := some [48, 48, 51, 48, 45, 48, 51, 45, 48, 53] }]) ∧
    (resolveDate asciiUni enCfg { year := [50, 57], month := [51], day := [53] } 0 refAny).toOption =
      some (some [{ timex := [50, 48, 50, 57, 45, 48, 51, 45, 48, 53], type := sDate,
                    value := some [50, 48, 50, 57, 45, 48, 51, 45, 48, 53] }]) := by
  decide

/-- A day that does not exist (Feb 30, Apr 31, Feb 29 of a common year …) never yields a date value: the single
entry carries `'not resolved'`. -/
theorem invalid_date_not_resolved (u : Uni) (moy dom : List (Str × Nat)) (g : DateGroups) (y mo d : Nat)
    (h : Decodes u (genCfg moy dom) g y mo d) (hy : 100 ≤ y) (hv : (⟨y, mo, d⟩ : Date).valid = false)
    (wy : Int) (R : DT) :
    resolveDate u (genCfg moy dom) g wy R =
      .ok (some [{ timex := ymd y mo d, type := sDate, value := some sNotResolved }]) := by
  have hp : pivotYear (genCfg moy dom) y = y :=
    pivot_four _ y hy (by have := pivots_sane; simp only [genCfg]; omega)
  exact resolveDate_invalid u _ g y mo d y wy R h hp (by omega) hv

example : Decodes asciiUni enCfg { year := [50, 48, 49, 57], month := [102, 101, 98], day := [51, 48] } 2019 2 30 ∧
    (⟨2019, 2, 30⟩ : Date).valid = false :=
  ⟨⟨by decide, by decide, rfl, ⟨by decide, by decide, by decide⟩⟩, by decide⟩

/-! ## Table facts (re-checked against the regenerated tables on every run) -/

/-- every value of the month map is a month, the numeric spellings `m` and `0m` are the identity on 1..12, and every key
that starts with digits (`3`, `03`, the German `3.`) maps to that number; what the WORD keys mean is the word contract
below (`month_words_*`) -/
def monthMapOK (tbl : List (Str × Nat)) : Bool :=
  tbl.all (fun p => 1 ≤ p.2 && p.2 ≤ 12) &&
  (List.range 12).all (fun i => lookup tbl (decStr (i + 1)) == some (i + 1) && lookup tbl (fmtD 2 ((i + 1 : Nat) : Int)) == some (i + 1)) &&
  tbl.all (fun p => match leadingNum p.1 with | none => true | some n => n == p.2)

/-- every value of the day map is a day number, the numeric spellings `d` and `0d` are the identity on 1..31, and
every key that starts with digits (ordinal-suffixed keys such as `5th`, `22nd`, `1er`) maps to that number; which
suffixed keys must exist and what the WORD keys (German ordinal stems) mean is the word contract below (`day_words_*`) -/
def dayMapOK (tbl : List (Str × Nat)) : Bool :=
  tbl.all (fun p => 1 ≤ p.2 && p.2 ≤ 31) &&
  (List.range 31).all (fun i => lookup tbl (decStr (i + 1)) == some (i + 1) && lookup tbl (fmtD 2 ((i + 1 : Nat) : Int)) == some (i + 1)) &&
  tbl.all (fun p => match leadingNum p.1 with | none => true | some n => n == p.2)

theorem month_map_en : monthMapOK monthOfYear_en = true := by decide +kernel
theorem month_map_es : monthMapOK monthOfYear_es = true := by decide +kernel
theorem month_map_esmx : monthMapOK monthOfYear_esmx = true := by decide +kernel
theorem month_map_fr : monthMapOK monthOfYear_fr = true := by decide +kernel
theorem month_map_pt : monthMapOK monthOfYear_pt = true := by decide +kernel
theorem month_map_it : monthMapOK monthOfYear_it = true := by decide +kernel
theorem month_map_de : monthMapOK monthOfYear_de = true := by decide +kernel
theorem month_map_nl : monthMapOK monthOfYear_nl = true := by decide +kernel

theorem day_map_en : dayMapOK dayOfMonth_en = true := by decide +kernel
theorem day_map_es : dayMapOK dayOfMonth_es = true := by decide +kernel
theorem day_map_esmx : dayMapOK dayOfMonth_esmx = true := by decide +kernel
theorem day_map_fr : dayMapOK dayOfMonth_fr = true := by decide +kernel
theorem day_map_pt : dayMapOK dayOfMonth_pt = true := by decide +kernel
theorem day_map_it : dayMapOK dayOfMonth_it = true := by decide +kernel
theorem day_map_de : dayMapOK dayOfMonth_de = true := by decide +kernel
theorem day_map_nl : dayMapOK dayOfMonth_nl = true := by decide +kernel

/-- the twelve English month names and their three-letter forms (the specification side of the month table) -/
def englishMonths : List (Str × Nat) := [
  ([106, 97, 110, 117, 97, 114, 121], 1), ([102, 101, 98, 114, 117, 97, 114, 121], 2), ([109, 97, 114, 99, 104], 3),
  ([97, 112, 114, 105, 108], 4), ([109, 97, 121], 5), ([106, 117, 110, 101], 6), ([106, 117, 108, 121], 7),
  ([97, 117, 103, 117, 115, 116], 8), ([115, 101, 112, 116, 101, 109, 98, 101, 114], 9),
  ([111, 99, 116, 111, 98, 101, 114], 10), ([110, 111, 118, 101, 109, 98, 101, 114], 11),
  ([100, 101, 99, 101, 109, 98, 101, 114], 12),
  ([106, 97, 110], 1), ([102, 101, 98], 2), ([109, 97, 114], 3), ([97, 112, 114], 4), ([106, 117, 110], 6),
  ([106, 117, 108], 7), ([97, 117, 103], 8), ([115, 101, 112], 9), ([115, 101, 112, 116], 9), ([111, 99, 116], 10),
  ([110, 111, 118], 11), ([100, 101, 99], 12)]

/-- every English month spelling is in the table with its month number -/
theorem english_month_names : englishMonths.all (fun p => lookup monthOfYear_en p.1 == some p.2) = true := by
  decide +kernel

/-- the Chinese tables (ChineseDateParser, not `match_to_date`): numeric keys are the identity as well -/
theorem numeric_keys_zh :
    (List.range 12).all (fun i => lookup monthOfYear_zh (decStr (i + 1)) == some (i + 1)) = true ∧
    (List.range 31).all (fun i => lookup dayOfMonth_zh (decStr (i + 1)) == some (i + 1)) = true := by
  decide +kernel


/-! ## Chinese (`ChineseDateParser.match_to_date`, its own decode step) -/

def zhDateCfg : DateCfg := genCfg monthOfYear_zh dayOfMonth_zh

/-- C06 for the Chinese parser: a date 1900–2099 that exists, in any layout whose `month` / `day` groups are keys of the
Chinese tables and whose year is a digit group or a 汉字 year converted by `convert_chinese_year_to_number` (input of the
model), resolves to exactly `YYYY-MM-DD`, for every reference. NOTE the hypothesis `DecodesZh` speaks of the table value
AFTER the reduction of `get_month_of_year` / `get_day_of_month` (`zhReduce 12 mv = mo`, `zhReduce 31 dv = d`): this
statement alone does not say which number a given key (`三月`, `正月`, `初一`) stands for. That is `month_words_zh` /
`day_words_zh` (word contract), and `abs_date_zh_words` below is the statement with no reduction in its hypotheses. -/
theorem abs_date_zh (u : Uni) (g : DateGroups) (chsYear : Int) (y mo d : Nat)
    (h : DecodesZh u zhDateCfg g chsYear y mo d) (hy : 1900 ≤ y ∧ y ≤ 2099) (hv : (⟨y, mo, d⟩ : Date).valid = true)
    (R : DT) :
    resolveDateZh u zhDateCfg g chsYear R =
      .ok (some [{ timex := ymd y mo d, type := sDate, value := some (ymd y mo d) }]) :=
  resolveDateZh_valid u zhDateCfg g chsYear y mo d R h (by omega) (by omega) hv

/-- `2019年3月5日` with digits, and `三月五日` with a 汉字 year that converts to 2019: the hypotheses are satisfiable on the
regenerated tables. -/
example : DecodesZh asciiUni zhDateCfg { year := [50, 48, 49, 57], month := [51, 26376], day := [53, 26085] } (-1) 2019 3 5 :=
  ⟨⟨3, by decide, by decide⟩, ⟨5, by decide, by decide⟩, Or.inl ⟨by decide, by decide, by decide⟩⟩

example : DecodesZh asciiUni zhDateCfg { year := [], month := [19977, 26376], day := [20116, 26085] } 2019 2019 3 5 :=
  ⟨⟨3, by decide, by decide⟩, ⟨5, by decide, by decide⟩, Or.inr ⟨by decide, rfl⟩⟩

/-- the Chinese tables after the reduction of `get_month_of_year` / `get_day_of_month`: every month key lands in 1..12
(or 0 for a multiple of 12), every day key in 0..31, and the digit keys `m`, `0m`, `m月`, `d`, `0d`, `d日`, `d号` are the
identity -/
theorem zh_tables :
    monthOfYear_zh.all (fun p => zhReduce 12 p.2 ≤ 12) = true ∧ dayOfMonth_zh.all (fun p => zhReduce 31 p.2 ≤ 31) = true ∧
    (List.range 12).all (fun i => lookup monthOfYear_zh (decStr (i + 1) ++ [26376]) == some (i + 1)) = true ∧
    (List.range 31).all (fun i => lookup dayOfMonth_zh (decStr (i + 1) ++ [26085]) == some (i + 1) &&
                                  lookup dayOfMonth_zh (decStr (i + 1) ++ [21495]) == some (i + 1)) = true := by
  decide +kernel

/-! ## Word contract (`contracts/C06words.json`, committed, written independently of the tree → `RTV/Gen/DateWords.lean`)

For every culture: each REQUIRED word of the contract (all full month names, the English three-letter forms, the
suffixed day spellings the contract layouts use, the 汉字 month / day numerals) is a key of the tree's regenerated table
with exactly the contract's number, and each PINNED word (abbreviations, unaccented / regional spellings, German ordinal
stems) that is a key has the contract's number. A resource edit `"enero": 2`, `"févr": 3`, `"okt": 9` breaks these. -/

theorem month_words_en : wordsPresent id monthOfYear_en monthRequired_en = true ∧ wordsPinned id monthOfYear_en monthPinned_en = true := by decide +kernel
theorem month_words_es : wordsPresent id monthOfYear_es monthRequired_es = true ∧ wordsPinned id monthOfYear_es monthPinned_es = true := by decide +kernel
theorem month_words_esmx : wordsPresent id monthOfYear_esmx monthRequired_esmx = true ∧ wordsPinned id monthOfYear_esmx monthPinned_esmx = true := by decide +kernel
theorem month_words_fr : wordsPresent id monthOfYear_fr monthRequired_fr = true ∧ wordsPinned id monthOfYear_fr monthPinned_fr = true := by decide +kernel
theorem month_words_pt : wordsPresent id monthOfYear_pt monthRequired_pt = true ∧ wordsPinned id monthOfYear_pt monthPinned_pt = true := by decide +kernel
theorem month_words_it : wordsPresent id monthOfYear_it monthRequired_it = true ∧ wordsPinned id monthOfYear_it monthPinned_it = true := by decide +kernel
theorem month_words_de : wordsPresent id monthOfYear_de monthRequired_de = true ∧ wordsPinned id monthOfYear_de monthPinned_de = true := by decide +kernel
theorem month_words_nl : wordsPresent id monthOfYear_nl monthRequired_nl = true ∧ wordsPinned id monthOfYear_nl monthPinned_nl = true := by decide +kernel
/-- Chinese: the meaning is the value after `get_month_of_year`'s reduction (`正月` is stored as 13 and means 1) -/
theorem month_words_zh : wordsPresent (zhReduce 12) monthOfYear_zh monthRequired_zh = true ∧
    wordsPinned (zhReduce 12) monthOfYear_zh monthPinned_zh = true := by decide +kernel

theorem day_words_en : wordsPresent id dayOfMonth_en dayRequired_en = true ∧ wordsPinned id dayOfMonth_en dayPinned_en = true := by decide +kernel
theorem day_words_es : wordsPresent id dayOfMonth_es dayRequired_es = true ∧ wordsPinned id dayOfMonth_es dayPinned_es = true := by decide +kernel
theorem day_words_esmx : wordsPresent id dayOfMonth_esmx dayRequired_esmx = true ∧ wordsPinned id dayOfMonth_esmx dayPinned_esmx = true := by decide +kernel
theorem day_words_fr : wordsPresent id dayOfMonth_fr dayRequired_fr = true ∧ wordsPinned id dayOfMonth_fr dayPinned_fr = true := by decide +kernel
theorem day_words_pt : wordsPresent id dayOfMonth_pt dayRequired_pt = true ∧ wordsPinned id dayOfMonth_pt dayPinned_pt = true := by decide +kernel
theorem day_words_it : wordsPresent id dayOfMonth_it dayRequired_it = true ∧ wordsPinned id dayOfMonth_it dayPinned_it = true := by decide +kernel
theorem day_words_de : wordsPresent id dayOfMonth_de dayRequired_de = true ∧ wordsPinned id dayOfMonth_de dayPinned_de = true := by decide +kernel
theorem day_words_nl : wordsPresent id dayOfMonth_nl dayRequired_nl = true ∧ wordsPinned id dayOfMonth_nl dayPinned_nl = true := by decide +kernel
/-- Chinese: the meaning is the value after `get_day_of_month`'s reduction (`初一` is stored as 32 and means 1) -/
theorem day_words_zh : wordsPresent (zhReduce 31) dayOfMonth_zh dayRequired_zh = true ∧
    wordsPinned (zhReduce 31) dayOfMonth_zh dayPinned_zh = true := by decide +kernel

/-- the contract is not empty where it matters: twelve distinct month numbers are required of every culture -/
theorem month_words_cover :
    [monthRequired_en, monthRequired_es, monthRequired_esmx, monthRequired_fr, monthRequired_pt, monthRequired_it,
     monthRequired_de, monthRequired_nl, monthRequired_zh].all
      (fun c => (List.range 12).all (fun i => c.any (fun p => p.2 == i + 1))) = true := by decide +kernel

/-- C06 on a month WORD: in any `BaseDateParser` culture whose month table meets a word list `c` (`wordsPresent`, e.g.
`month_words_es`), a layout whose `month` group is a word of `c` with contract meaning `mo` (`enero` ↦ 1), whose `day`
group is a key of the day table with value `d` and whose year is a digit group read as `y` ∈ 1900..2099 resolves to exactly
`YYYY-MM-DD` of the CONTRACT's month number, for every reference. -/
theorem abs_date_month_word (u : Uni) (moy dom c : List (Str × Nat)) (hc : wordsPresent id moy c = true)
    (g : DateGroups) (y mo d : Nat) (hw : (g.month, mo) ∈ c) (hd : lookup dom g.day = some d)
    (hf : g.fullYear = []) (hyr : IsNum u g.year y) (hy : 1900 ≤ y ∧ y ≤ 2099) (hv : (⟨y, mo, d⟩ : Date).valid = true)
    (wy : Int) (R : DT) :
    resolveDate u (genCfg moy dom) g wy R =
      .ok (some [{ timex := ymd y mo d, type := sDate, value := some (ymd y mo d) }]) :=
  abs_date u moy dom g y mo d ⟨wordsPresent_lookup_id moy c hc g.month mo hw, hd, hf, hyr⟩ hy hv wy R

/-- `5 de enero de 2019` (groups `enero`, `5`, `2019`) on the Spanish tables: 2019-01-05 because the CONTRACT says enero = 1 -/
example (wy : Int) (R : DT) :
    resolveDate asciiUni (genCfg monthOfYear_es dayOfMonth_es)
        { year := [50, 48, 49, 57], month := [101, 110, 101, 114, 111], day := [53] } wy R =
      .ok (some [{ timex := ymd 2019 1 5, type := sDate, value := some (ymd 2019 1 5) }]) :=
  abs_date_month_word asciiUni _ _ monthRequired_es month_words_es.1 _ 2019 1 5 (by decide) (by decide) rfl
    ⟨by decide, by decide, by decide⟩ (by decide) (by decide) wy R

/-- C06 for the Chinese parser on contract words, with no reduction in the hypotheses: a `month` group that is a required
month word of the contract with meaning `mo` (`三月`, `3月` ↦ 3), a `day` group that is a required day word with meaning `d`
(`5日`, `五号`, `十五` …), a digit year `y` ∈ 1900..2099 — resolves to exactly `YYYY-MM-DD`, for every reference. -/
theorem abs_date_zh_words (u : Uni) (g : DateGroups) (chsYear : Int) (y mo d : Nat)
    (hm : (g.month, mo) ∈ monthRequired_zh) (hd : (g.day, d) ∈ dayRequired_zh)
    (hyr : IsNum u g.year y ∨ (blank u g.year = true ∧ chsYear = (y : Int)))
    (hy : 1900 ≤ y ∧ y ≤ 2099) (hv : (⟨y, mo, d⟩ : Date).valid = true) (R : DT) :
    resolveDateZh u zhDateCfg g chsYear R =
      .ok (some [{ timex := ymd y mo d, type := sDate, value := some (ymd y mo d) }]) :=
  abs_date_zh u g chsYear y mo d
    ⟨wordsPresent_lookup _ _ _ month_words_zh.1 g.month mo hm, wordsPresent_lookup _ _ _ day_words_zh.1 g.day d hd, hyr⟩
    hy hv R

end RTV.DtRes
