import RTV.Lemmas.DtRes
import RTV.Gen.DtMaps
import RTV.Gen.DtMapsX1
import RTV.Gen.DtMapsX2
/-!
# C06 — absolute calendar dates are recognised exactly, whatever the reference date

Theorems about `RTV.Model.DtRes` (mirrors `BaseDateParser.match_to_date`, `DateUtils.generate_dates` and the validity
guard, `DateTimeFormatUtil.luis_date/format_date`, `BaseMergedParser._date_time_resolution`). A *layout* enters only
through what its named groups decode to (`Decodes`): the `month` group is a key of the culture's `month_of_year`
with value `mo`, the `day` group a key of `day_of_month` with value `d`, the `year` group a digit string read as `y`
— so the statements cover every layout, every spelling in the tables and every culture that uses `BaseDateParser`.
The tables and the two-digit-year pivots are the regenerated `RTV/Gen/DtMaps*.lean`.
-/
namespace RTV.DtRes
open RTV.Py RTV.Cal RTV.Gen.DtMaps

/-- a date-parser configuration with the working tree's pivot constants and any month / day tables -/
def genCfg (moy dom : List (Str × Nat)) : DateCfg :=
  { monthOfYear := moy, dayOfMonth := dom, minTwoDigitYearPast := minTwoDigitYearPastNum,
    maxTwoDigitYearFuture := maxTwoDigitYearFutureNum }

def enCfg : DateCfg := genCfg monthOfYear_en dayOfMonth_en

def refAny : DT := ⟨2016, 11, 7, 10, 30, 0⟩

theorem pivots_sane : maxTwoDigitYearFutureNum ≤ minTwoDigitYearPastNum ∧ minTwoDigitYearPastNum ≤ 100 ∧
    0 ≤ maxTwoDigitYearFutureNum := by decide

/-- C06 main statement. A fully specified date `y-mo-d`, 1900 ≤ y ≤ 2099, that exists in the calendar, written in any
layout whose groups decode to it, resolves to exactly one value of type `date` whose TIMEX and value are
`YYYY-MM-DD` — for every reference `R` (the right-hand side does not mention it). -/
theorem abs_date (u : Uni) (moy dom : List (Str × Nat)) (g : DateGroups) (y mo d : Nat)
    (h : Decodes u (genCfg moy dom) g y mo d) (hy : 1900 ≤ y ∧ y ≤ 2099) (hv : (⟨y, mo, d⟩ : Date).valid = true)
    (wy : Int) (R : DT) :
    resolveDate u (genCfg moy dom) g wy R =
      .ok (some [{ timex := ymd y mo d, type := sDate, value := some (ymd y mo d) }]) := by
  have hp : pivotYear (genCfg moy dom) y = y :=
    pivot_four _ y (by omega) (by have := pivots_sane; simp only [genCfg]; omega)
  exact resolveDate_valid u _ g y mo d y wy R h hp (by omega) (by omega) hv

/-- … in particular the result does not depend on the reference date. -/
theorem abs_date_reference_independent (u : Uni) (moy dom : List (Str × Nat)) (g : DateGroups) (y mo d : Nat)
    (h : Decodes u (genCfg moy dom) g y mo d) (hy : 1900 ≤ y ∧ y ≤ 2099) (hv : (⟨y, mo, d⟩ : Date).valid = true)
    (wy : Int) (R₁ R₂ : DT) :
    resolveDate u (genCfg moy dom) g wy R₁ = resolveDate u (genCfg moy dom) g wy R₂ := by
  rw [abs_date u moy dom g y mo d h hy hv wy R₁, abs_date u moy dom g y mo d h hy hv wy R₂]

/-- the shape of `YYYY-MM-DD` -/
theorem ymd_shape (y mo d : Nat) (hy : 1900 ≤ y ∧ y ≤ 2099) (hm : mo < 100) (hd : d < 100) :
    ymd y mo d = [48 + y / 1000, 48 + y / 100 % 10, 48 + y / 10 % 10, 48 + y % 10, 45, 48 + mo / 10, 48 + mo % 10, 45,
      48 + d / 10, 48 + d % 10] := by
  simp [ymd, fmtD4 y (by omega) (by omega), fmtD2 mo hm, fmtD2 d hd, sDash]

example : Decodes asciiUni enCfg { year := [50, 48, 49, 57], month := [109, 97, 114, 99, 104], day := [53, 116, 104] } 2019 3 5 :=
  ⟨by decide, by decide, rfl, ⟨by decide, by decide, by decide⟩⟩

/-- Two-digit years: exactly the years `minTwoDigitYearPastNum … 99` go to 19yy and `0 … maxTwoDigitYearFutureNum − 1`
to 20yy (the interval is read off the regenerated constants) … -/
theorem two_digit_year (u : Uni) (moy dom : List (Str × Nat)) (g : DateGroups) (yy mo d : Nat)
    (h : Decodes u (genCfg moy dom) g yy mo d) (h100 : yy < 100) (wy : Int) (R : DT) :
    (minTwoDigitYearPastNum ≤ (yy : Int) → (⟨1900 + yy, mo, d⟩ : Date).valid = true →
      resolveDate u (genCfg moy dom) g wy R =
        .ok (some [{ timex := ymd (1900 + yy) mo d, type := sDate, value := some (ymd (1900 + yy) mo d) }])) ∧
    ((yy : Int) < maxTwoDigitYearFutureNum → (⟨2000 + yy, mo, d⟩ : Date).valid = true →
      resolveDate u (genCfg moy dom) g wy R =
        .ok (some [{ timex := ymd (2000 + yy) mo d, type := sDate, value := some (ymd (2000 + yy) mo d) }])) := by
  have ps := pivots_sane
  constructor
  · intro hmin hv
    exact resolveDate_valid u _ g yy mo d (1900 + yy) wy R h (pivot_past _ yy h100 hmin) (by omega) (by omega) hv
  · intro hmax hv
    have hmin : (yy : Int) < (genCfg moy dom).minTwoDigitYearPast := by simp only [genCfg]; omega
    exact resolveDate_valid u _ g yy mo d (2000 + yy) wy R h (pivot_future _ yy hmin hmax) (by omega) (by omega) hv

/-- … and a two-digit year between the pivots is taken literally (year 00yy), outside 1900–2099. -/
theorem two_digit_year_gap (moy dom : List (Str × Nat)) (yy : Nat)
    (h1 : maxTwoDigitYearFutureNum ≤ (yy : Int)) (h2 : (yy : Int) < minTwoDigitYearPastNum) :
    pivotYear (genCfg moy dom) yy = (yy : Int) := pivot_gap _ yy h2 h1

/-- Negative witness just outside the interval: `3/5/30` resolves to the year 0030. -/
theorem two_digit_year_witness :
    (resolveDate asciiUni enCfg { year := [51, 48], month := [51], day := [53] } 0 refAny).toOption =
      some (some [{ timex := [48, 48, 51, 48, 45, 48, 51, 45, 48, 53], type := sDate,
                    value := some [48, 48, 51, 48, 45, 48, 51, 45, 48, 53] }]) ∧
    (resolveDate asciiUni enCfg { year := [50, 57], month := [51], day := [53] } 0 refAny).toOption =
      some (some [{ timex := [50, 48, 50, 57, 45, 48, 51, 45, 48, 53], type := sDate,
                    value := some [50, 48, 50, 57, 45, 48, 51, 45, 48, 53] }]) := by
  decide

/-- A day that does not exist (Feb 30, Apr 31, Feb 29 of a common year …) never yields a date value: the single
entry carries `'not resolved'`. -/
theorem invalid_date_not_resolved (u : Uni) (moy dom : List (Str × Nat)) (g : DateGroups) (y mo d : Nat)
    (h : Decodes u (genCfg moy dom) g y mo d) (hy : 100 ≤ y) (hv : (⟨y, mo, d⟩ : Date).valid = false)
    (wy : Int) (R : DT) :
    resolveDate u (genCfg moy dom) g wy R =
      .ok (some [{ timex := ymd y mo d, type := sDate, value := some sNotResolved }]) := by
  have hp : pivotYear (genCfg moy dom) y = y :=
    pivot_four _ y hy (by have := pivots_sane; simp only [genCfg]; omega)
  exact resolveDate_invalid u _ g y mo d y wy R h hp (by omega) hv

example : Decodes asciiUni enCfg { year := [50, 48, 49, 57], month := [102, 101, 98], day := [51, 48] } 2019 2 30 ∧
    (⟨2019, 2, 30⟩ : Date).valid = false :=
  ⟨⟨by decide, by decide, rfl, ⟨by decide, by decide, by decide⟩⟩, by decide⟩

/-! ## Table facts (re-checked against the regenerated tables on every run) -/

/-- every value of the month map is a month, and the numeric spellings `m` and `0m` are the identity on 1..12 -/
def monthMapOK (tbl : List (Str × Nat)) : Bool :=
  tbl.all (fun p => 1 ≤ p.2 && p.2 ≤ 12) &&
  (List.range 12).all (fun i => lookup tbl (decStr (i + 1)) == some (i + 1) && lookup tbl (fmtD 2 ((i + 1 : Nat) : Int)) == some (i + 1))

/-- every value of the day map is a day number, the numeric spellings `d` and `0d` are the identity on 1..31, and
every key that starts with digits (ordinal-suffixed keys such as `5th`, `22nd`, `1er`) maps to that number -/
def dayMapOK (tbl : List (Str × Nat)) : Bool :=
  tbl.all (fun p => 1 ≤ p.2 && p.2 ≤ 31) &&
  (List.range 31).all (fun i => lookup tbl (decStr (i + 1)) == some (i + 1) && lookup tbl (fmtD 2 ((i + 1 : Nat) : Int)) == some (i + 1)) &&
  tbl.all (fun p => match leadingNum p.1 with | none => true | some n => n == p.2)

theorem month_map_en : monthMapOK monthOfYear_en = true := by decide +kernel
theorem month_map_es : monthMapOK monthOfYear_es = true := by decide +kernel
theorem month_map_esmx : monthMapOK monthOfYear_esmx = true := by decide +kernel
theorem month_map_fr : monthMapOK monthOfYear_fr = true := by decide +kernel
theorem month_map_pt : monthMapOK monthOfYear_pt = true := by decide +kernel
theorem month_map_it : monthMapOK monthOfYear_it = true := by decide +kernel
theorem month_map_de : monthMapOK monthOfYear_de = true := by decide +kernel
theorem month_map_nl : monthMapOK monthOfYear_nl = true := by decide +kernel

theorem day_map_en : dayMapOK dayOfMonth_en = true := by decide +kernel
theorem day_map_es : dayMapOK dayOfMonth_es = true := by decide +kernel
theorem day_map_esmx : dayMapOK dayOfMonth_esmx = true := by decide +kernel
theorem day_map_fr : dayMapOK dayOfMonth_fr = true := by decide +kernel
theorem day_map_pt : dayMapOK dayOfMonth_pt = true := by decide +kernel
theorem day_map_it : dayMapOK dayOfMonth_it = true := by decide +kernel
theorem day_map_de : dayMapOK dayOfMonth_de = true := by decide +kernel
theorem day_map_nl : dayMapOK dayOfMonth_nl = true := by decide +kernel

/-- the twelve English month names and their three-letter forms (the specification side of the month table) -/
def englishMonths : List (Str × Nat) := [
  ([106, 97, 110, 117, 97, 114, 121], 1), ([102, 101, 98, 114, 117, 97, 114, 121], 2), ([109, 97, 114, 99, 104], 3),
  ([97, 112, 114, 105, 108], 4), ([109, 97, 121], 5), ([106, 117, 110, 101], 6), ([106, 117, 108, 121], 7),
  ([97, 117, 103, 117, 115, 116], 8), ([115, 101, 112, 116, 101, 109, 98, 101, 114], 9),
  ([111, 99, 116, 111, 98, 101, 114], 10), ([110, 111, 118, 101, 109, 98, 101, 114], 11),
  ([100, 101, 99, 101, 109, 98, 101, 114], 12),
  ([106, 97, 110], 1), ([102, 101, 98], 2), ([109, 97, 114], 3), ([97, 112, 114], 4), ([106, 117, 110], 6),
  ([106, 117, 108], 7), ([97, 117, 103], 8), ([115, 101, 112], 9), ([115, 101, 112, 116], 9), ([111, 99, 116], 10),
  ([110, 111, 118], 11), ([100, 101, 99], 12)]

/-- every English month spelling is in the table with its month number -/
theorem english_month_names : englishMonths.all (fun p => lookup monthOfYear_en p.1 == some p.2) = true := by
  decide +kernel

/-- the Chinese tables (ChineseDateParser, not `match_to_date`): numeric keys are the identity as well -/
theorem numeric_keys_zh :
    (List.range 12).all (fun i => lookup monthOfYear_zh (decStr (i + 1)) == some (i + 1)) = true ∧
    (List.range 31).all (fun i => lookup dayOfMonth_zh (decStr (i + 1)) == some (i + 1)) = true := by
  decide +kernel


/-! ## Chinese (`ChineseDateParser.match_to_date`, its own decode step) -/

def zhDateCfg : DateCfg := genCfg monthOfYear_zh dayOfMonth_zh

/-- C06 for the Chinese parser: a date 1900–2099 that exists, in any layout whose `month` / `day` groups are keys of the
Chinese tables (digits, `3月`, `三月`, `十五`, `5日`, `五号` …; values reduced as `get_month_of_year` / `get_day_of_month`
do) and whose year is a digit group or a 汉字 year converted by `convert_chinese_year_to_number` (input of the model),
resolves to exactly `YYYY-MM-DD`, for every reference. -/
theorem abs_date_zh (u : Uni) (g : DateGroups) (chsYear : Int) (y mo d : Nat)
    (h : DecodesZh u zhDateCfg g chsYear y mo d) (hy : 1900 ≤ y ∧ y ≤ 2099) (hv : (⟨y, mo, d⟩ : Date).valid = true)
    (R : DT) :
    resolveDateZh u zhDateCfg g chsYear R =
      .ok (some [{ timex := ymd y mo d, type := sDate, value := some (ymd y mo d) }]) :=
  resolveDateZh_valid u zhDateCfg g chsYear y mo d R h (by omega) (by omega) hv

/-- `2019年3月5日` with digits, and `三月五日` with a 汉字 year that converts to 2019: the hypotheses are satisfiable on the
regenerated tables. -/
example : DecodesZh asciiUni zhDateCfg { year := [50, 48, 49, 57], month := [51, 26376], day := [53, 26085] } (-1) 2019 3 5 :=
  ⟨⟨3, by decide, by decide⟩, ⟨5, by decide, by decide⟩, Or.inl ⟨by decide, by decide, by decide⟩⟩

example : DecodesZh asciiUni zhDateCfg { year := [], month := [19977, 26376], day := [20116, 26085] } 2019 2019 3 5 :=
  ⟨⟨3, by decide, by decide⟩, ⟨5, by decide, by decide⟩, Or.inr ⟨by decide, rfl⟩⟩

/-- the Chinese tables after the reduction of `get_month_of_year` / `get_day_of_month`: every month key lands in 1..12
(or 0 for a multiple of 12), every day key in 0..31, and the digit keys `m`, `0m`, `m月`, `d`, `0d`, `d日`, `d号` are the
identity -/
theorem zh_tables :
    monthOfYear_zh.all (fun p => zhReduce 12 p.2 ≤ 12) = true ∧ dayOfMonth_zh.all (fun p => zhReduce 31 p.2 ≤ 31) = true ∧
    (List.range 12).all (fun i => lookup monthOfYear_zh (decStr (i + 1) ++ [26376]) == some (i + 1)) = true ∧
    (List.range 31).all (fun i => lookup dayOfMonth_zh (decStr (i + 1) ++ [26085]) == some (i + 1) &&
                                  lookup dayOfMonth_zh (decStr (i + 1) ++ [21495]) == some (i + 1)) = true := by
  decide +kernel

end RTV.DtRes
