import RTV.Props.C13
import RTV.Lemmas.SeqExtract
import RTV.Lemmas.IpChars
import RTV.Lemmas.Ip6First
/-!
# C13 at extractor level — `BaseIpExtractor.extract` (model `RTV.Seq.ipExtract`) on the regenerated patterns

`Props/C13.lean` proves what the regexes accept; this file proves what the **extractor** reports: `finditer` over
both patterns, the `matched` sweep, the exact-span lookup and the two ellipsis guards.  All statements are for every
text and every engine / character tables that satisfy the stated hypotheses (each is proved for the tables of the
running engine at the end of the file).

"Standing as its own token" is made precise as `Sep`: the address is at the start of the text or follows a
character that is no `\w` character, no `.`, no `:` and (for the Python-level ellipsis guard) neither `str.isdigit`
nor `str.isalpha`; likewise at its end.  Blank, tab, newline, `( ) , ; = " ' / - ! ?` … are such characters
(`real_seps`).  For IPv4 the right-hand side may be weaker (`RightOk4`: any non-word character except `:` — in
particular `.`), which is what makes the extractor report the leading quad of a longer dotted run
(`ipv4_dotted_run_reports_prefix`).
-/
namespace RTV.C13
open RTV.Re RTV.Seq RTV.Py
open RTV.Match (CharClass isCJK)

/-- a delimiter in the property's sense for engine tables `T` and Python character classes `K` -/
def Sep (T : Tables) (K : CharClass) (c : Nat) : Prop :=
  T.word c = false ∧ c ≠ 46 ∧ c ≠ 58 ∧ K.isDigit c = false ∧ K.isAlpha c = false

/-- `[i, j)` of `s` stands as its own token: string start or a `Sep` before it, string end or a `Sep` after it -/
def OwnToken (T : Tables) (K : CharClass) (s : Array Nat) (i j : Nat) : Prop :=
  (i = 0 ∨ Sep T K (code s (i - 1))) ∧ (j = s.size ∨ Sep T K (code s j))

/-- what IPv4 needs on the right: string end, or a non-word character other than `:` (a `.` is fine) -/
def RightOk4 (T : Tables) (s : Array Nat) (j : Nat) : Prop :=
  j = s.size ∨ (T.word (code s j) = false ∧ code s j ≠ 58)

/-- the engine tables treat ASCII hex digits as word characters and `.` `:` not -/
structure TablesOk (T : Tables) : Prop where
  hex : ∀ c, isHexI c → T.word c = true
  dot : T.word 46 = false
  colon : T.word 58 = false

/-- no address character is white space for `str.strip()` -/
def NoSpace (K : CharClass) : Prop := ∀ c, (isHexI c ∨ c = 46 ∨ c = 58) → K.isSpace c = false

theorem TablesOk.digit {T : Tables} (h : TablesOk T) : ∀ c, 48 ≤ c ∧ c ≤ 57 → T.word c = true :=
  fun c hc => h.hex c (by unfold isHexI; omega)

private theorem isD_hex {c : Nat} (h : isD c) : isHexI c := by unfold isD at h; unfold isHexI; omega

/-! ### what lies inside a match -/

theorem ipv4_match_chars {T : Tables} {s : Array Nat} {p e : Nat} (h : Matches T RTV.Gen.ipv4Regex s p e) :
    p < e ∧ e ≤ s.size ∧ isD (code s p) ∧ isD (code s (e - 1)) ∧
      ∀ k, p ≤ k → k < e → code s k = 46 ∨ isD (code s k) := by
  unfold Matches at h
  rw [gen_ipv4] at h
  exact V4Body_chars ((ipv4Of_lang (digitClass_range T) s p e).1 h).2.1

theorem ipv6_match_chars {T : Tables} {s : Array Nat} {p e : Nat} (h : Matches T RTV.Gen.ipv6Regex s p e) :
    HexColon s p e ∧ ∃ k, p ≤ k ∧ k < e ∧ code s k = 58 := V6At_chars (ipv6_sound T s p e h)

/-- a `Sep` position is inside no match of either pattern -/
theorem sep_not_in_match {T : Tables} {K : CharClass} (ht : TablesOk T) {s : Array Nat} {p e k : Nat}
    (hs : Sep T K (code s k)) (hk1 : p ≤ k) (hk2 : k < e) :
    ¬ Matches T RTV.Gen.ipv4Regex s p e ∧ ¬ Matches T RTV.Gen.ipv6Regex s p e := by
  constructor
  · intro h
    rcases (ipv4_match_chars h).2.2.2.2 k hk1 hk2 with h | h
    · exact hs.2.1 h
    · have := ht.hex _ (isD_hex h); rw [hs.1] at this; cases this
  · intro h
    rcases (ipv6_match_chars h).1.2 k hk1 hk2 with h | h
    · have := ht.hex _ h; rw [hs.1] at this; cases this
    · exact hs.2.2.1 h

/-! ### the ellipsis guards -/

theorem startsWith_ellipsis_head {t : Str} (h : startsWith t ellipsis = true) : t.head? = some 58 := by
  unfold startsWith ellipsis at h
  cases t with
  | nil => simp at h
  | cons x r => cases r <;> simp_all

theorem endsWith_ellipsis_last {t : Str} (h : endsWith t ellipsis = true) : t.getLast? = some 58 := by
  unfold endsWith ellipsis at h
  simp only [Bool.and_eq_true, decide_eq_true_eq] at h
  have h2 := h.2
  have : t = t.take (t.length - [58, 58].length) ++ [58, 58] := by
    conv => lhs; rw [← List.take_append_drop (t.length - [58, 58].length) t]
    rw [h2]
  rw [this]
  simp

theorem slice_head {s : Array Nat} {i j : Nat} (hij : i < j) (hj : j ≤ s.size) : (slice s i j).head? = some (code s i) := by
  rw [slice_cons hij (by omega)]; rfl

theorem slice_getLast {s : Array Nat} {i j : Nat} (hij : i < j) (hj : j ≤ s.size) :
    (slice s i j).getLast? = some (code s (j - 1)) := by
  have h1 : j - 1 < j := by omega
  have h2 : j - 1 < s.size := by omega
  have h3 : j ≤ j - 1 + 1 := by omega
  rw [← slice_append (i := i) (k := j - 1) (j := j) (by omega) (by omega), slice_cons h1 h2, slice_nil_of_le h3]
  simp

theorem slice_mem_code {s : Array Nat} {i j : Nat} (hj : j ≤ s.size) : ∀ c ∈ slice s i j, ∃ k, i ≤ k ∧ k < j ∧ c = code s k := by
  intro c hc
  unfold slice at hc
  obtain ⟨n, hn, rfl⟩ := List.mem_iff_getElem.1 hc
  have hn' : n < j - i ∧ i + n < s.size := by simp at hn; omega
  refine ⟨i + n, by omega, by omega, ?_⟩
  simp [code, Array.getD, hn'.2]

theorem getD_code (s : Str) (k : Nat) : s.getD k 0 = code s.toArray k := by
  unfold code
  by_cases h : k < s.length
  · simp [List.getD, Array.getD, h]
  · simp [List.getD, Array.getD, h]

/-! ### the generic extractor step -/

/-- Core of both completeness theorems, for arbitrary patterns: a run `[i, j)` that one of the match lists contains
with exactly this span, that no match touches from outside and whose text passes the guards, is reported. -/
theorem ipExtract_reports (T : Tables) (K : CharClass) (v4 v6 : RE) (s : Str) (i j : Nat) (v : String)
    (hij : i < j) (hj : j ≤ s.length)
    (hsrc : srcMatch (tagged "ipv4" (findAll T s.toArray v4) ++ tagged "ipv6" (findAll T s.toArray v6)) i (j - i) = some v)
    (hin : (i, j) ∈ findAll T s.toArray v4 ∨ (i, j) ∈ findAll T s.toArray v6)
    (hleft : i = 0 ∨ ∀ q, q ∈ findAll T s.toArray v4 ∨ q ∈ findAll T s.toArray v6 → ¬ (q.1 ≤ i - 1 ∧ i - 1 < q.2))
    (hright : j = s.length ∨ ∀ q, q ∈ findAll T s.toArray v4 ∨ q ∈ findAll T s.toArray v6 → ¬ (q.1 ≤ j ∧ j < q.2))
    (hspace : ∀ c ∈ slice s.toArray i j, K.isSpace c = false)
    (hskip : runSkip true K s i (j - 1) = false) :
    (⟨i, j - i, slice s.toArray i j, v⟩ : ER) ∈ ipExtract T K v4 v6 s := by
  unfold ipExtract ipSweep
  have hne : ¬ s.length = 0 := by omega
  simp only [hne, if_false]
  generalize hms : tagged "ipv4" (findAll T s.toArray v4) ++ tagged "ipv6" (findAll T s.toArray v6) = ms at hsrc
  have hmem : ∀ p : Span, p ∈ ms → (p.1, p.2.1) ∈ findAll T s.toArray v4 ∨ (p.1, p.2.1) ∈ findAll T s.toArray v6 := by
    intro p hp
    obtain ⟨a, b, w⟩ := p
    rw [← hms] at hp
    rcases List.mem_append.1 hp with h | h
    · exact .inl (tagged_mem h).1
    · exact .inr (tagged_mem h).1
  have hcovin : ∀ k, i ≤ k → k ≤ j - 1 → covered ms k = true := by
    intro k h1 h2
    rw [covered_iff]
    rcases hin with h | h
    · exact ⟨(i, j, "ipv4"), by rw [← hms]; exact List.mem_append_left _ (mem_tagged h), h1, by simp; omega⟩
    · exact ⟨(i, j, "ipv6"), by rw [← hms]; exact List.mem_append_right _ (mem_tagged h), h1, by simp; omega⟩
  have hl : i = 0 ∨ covered ms (i - 1) = false := by
    rcases hleft with h | h
    · exact .inl h
    · right
      cases hc : covered ms (i - 1) with
      | false => rfl
      | true =>
        obtain ⟨p, hp, h1, h2⟩ := covered_iff.1 hc
        exact absurd ⟨h1, h2⟩ (h (p.1, p.2.1) (hmem p hp))
  have hr : j - 1 + 1 = s.length ∨ covered ms (j - 1 + 1) = false := by
    have e : j - 1 + 1 = j := by omega
    rw [e]
    rcases hright with h | h
    · exact .inl h
    · right
      cases hc : covered ms j with
      | false => rfl
      | true =>
        obtain ⟨p, hp, h1, h2⟩ := covered_iff.1 hc
        exact absurd ⟨h1, h2⟩ (h (p.1, p.2.1) (hmem p hp))
  have key := sweepGo_emits true K s ms i (j - 1) (by omega) (by omega) hcovin hl hr (j - 1) 0 0 (by omega)
    (by omega)
  have e1 : j - 1 + 1 - i = j - i := by omega
  have hsub : runSub K s i (j - 1) = slice s.toArray i j := by
    unfold runSub
    rw [sliceI_run s i (j - 1) (by omega) (by omega)]
    have e : j - 1 + 1 = j := by omega
    rw [e]
    exact strip_id' _ _ hspace
  apply key
  rw [hskip, e1, hsub]
  unfold emitAt
  simp [hsrc]

/-! ### IPv4: completeness with the exact span, at extractor level -/

private theorem wordAt_of_word {T : Tables} {s : Array Nat} {k : Nat} (hk : k < s.size) (h : T.word (code s k) = true) :
    wordAt T s k = true := by unfold wordAt; simp [hk, h]

private theorem wordAt_of_nonword {T : Tables} {s : Array Nat} {k : Nat} (h : k = s.size ∨ T.word (code s k) = false) :
    wordAt T s k = false := by
  unfold wordAt
  rcases h with h | h
  · simp [h]
  · simp [h]

/-- **C13, IPv4, extractor level (all texts).**  A valid dotted quad at `[i, j)` of `s` that starts at the beginning of
the text or after a `Sep`, and is followed by the end of the text or by any non-word character other than `:`, is
reported by `BaseIpExtractor.extract` with exactly its span, its text and the tag `ipv4`. -/
theorem ipv4_extract_complete {T : Tables} {K : CharClass} (ht : TablesOk T) (hk : NoSpace K) (s : Str) (i j : Nat)
    (hj : j ≤ s.length) (hv : ValidV4 (slice s.toArray i j))
    (hl : i = 0 ∨ Sep T K (code s.toArray (i - 1))) (hr : RightOk4 T s.toArray j) :
    (⟨i, j - i, slice s.toArray i j, "ipv4"⟩ : ER) ∈ ipExtract T K RTV.Gen.ipv4Regex RTV.Gen.ipv6Regex s := by
  have hjs : j ≤ s.toArray.size := by simpa using hj
  have hb := V4Body_chars (valid_V4Body hjs hv)
  obtain ⟨hij, -, hd0, hd1, hch⟩ := hb
  have hw := ht.digit
  -- word boundaries at both ends
  have hbi : isWordB T s.toArray i = true := by
    have hl' : i = 0 ∨ wordAt T s.toArray (i - 1) = false := by
      rcases hl with h | h
      · exact .inl h
      · exact .inr (wordAt_of_nonword (.inr h.1))
    rw [wordB_left hl']
    exact wordAt_of_word (by omega) (hw _ hd0)
  have hrw : wordAt T s.toArray j = false := by
    rcases hr with h | h
    · exact wordAt_of_nonword (.inl h)
    · exact wordAt_of_nonword (.inr h.1)
  have hbj : isWordB T s.toArray j = true := by
    rw [wordB_right hrw (by omega)]
    exact wordAt_of_word (by omega) (hw _ hd1)
  have hfirst := ipv4_reported_span hw s.toArray i j hjs hv hbi hbj
  -- no earlier match attempt reaches beyond `i`
  have hclear : ∀ p e, p < i → e ∈ ends T s.toArray RTV.Gen.ipv4Regex p → e ≤ i := by
    intro p e hp he
    rcases hl with h | h
    · omega
    · by_cases hle : e ≤ i
      · exact hle
      · exact absurd he (sep_not_in_match ht h (by omega) (by omega)).1
  obtain ⟨hmem, hothers⟩ := findAll_of_clear hij hjs hclear hfirst
  have hall4 := findAll_sound (T := T) (s := s.toArray) (r := RTV.Gen.ipv4Regex)
  have hall6 := findAll_sound (T := T) (s := s.toArray) (r := RTV.Gen.ipv6Regex)
  refine ipExtract_reports T K _ _ s i j "ipv4" hij hj ?_ (.inl hmem) ?_ ?_ ?_ ?_
  · exact srcMatch_of_first ⟨j, mem_tagged hmem, rfl⟩ (tagged_all _ _)
  · -- nothing covers `i - 1`
    rcases hl with h | h
    · exact .inl h
    · right
      rintro q (hq | hq) ⟨h1, h2⟩
      · exact (sep_not_in_match ht h h1 h2).1 (hall4 q hq)
      · exact (sep_not_in_match ht h h1 h2).2 (hall6 q hq)
  · -- nothing covers `j`
    rcases hr with h | h
    · exact .inl (by simpa using h)
    · right
      rintro q (hq | hq) ⟨h1, h2⟩
      · rcases hothers q hq with rfl | h3 | h3
        · simp at h2
        · omega
        · have hq1 : q.1 = j := by omega
          have hm := ipv4_match_chars (hall4 q hq)
          rw [hq1] at hm
          have := hw _ hm.2.2.1
          rw [h.1] at this; cases this
      · rcases (ipv6_match_chars (hall6 q hq)).1.2 j h1 h2 with h3 | h3
        · have := ht.hex _ h3; rw [h.1] at this; cases this
        · exact h.2 h3
  · intro c hc
    obtain ⟨k, k1, k2, rfl⟩ := slice_mem_code hjs c hc
    rcases hch k k1 k2 with h | h
    · exact hk _ (.inr (.inl h))
    · exact hk _ (.inl (isD_hex h))
  · -- the text starts and ends with a digit, so neither ellipsis guard applies
    have hsub : runSub K s i (j - 1) = slice s.toArray i j := by
      unfold runSub
      rw [sliceI_run s i (j - 1) (by omega) (by omega)]
      have e : j - 1 + 1 = j := by omega
      rw [e]
      apply strip_id'
      intro c hc
      obtain ⟨k, k1, k2, rfl⟩ := slice_mem_code hjs c hc
      rcases hch k k1 k2 with h | h
      · exact hk _ (.inr (.inl h))
      · exact hk _ (.inl (isD_hex h))
    have n1 : startsWith (slice s.toArray i j) ellipsis = false := by
      cases h : startsWith (slice s.toArray i j) ellipsis with
      | false => rfl
      | true =>
        have := startsWith_ellipsis_head h
        rw [slice_head hij hjs] at this
        unfold isD at hd0; simp at this; omega
    have n2 : endsWith (slice s.toArray i j) ellipsis = false := by
      cases h : endsWith (slice s.toArray i j) ellipsis with
      | false => rfl
      | true =>
        have := endsWith_ellipsis_last h
        rw [slice_getLast hij hjs] at this
        unfold isD at hd1; simp at this; omega
    unfold runSkip
    rw [hsub, n1, n2]
    simp

/-! ### IPv6: completeness with the exact span, at extractor level -/

/-- the extractor step for IPv6, given what the engine answers at `i` (`ipv6_reported_span` provides it) -/
theorem ipv6_extract_of_first {T : Tables} {K : CharClass} (ht : TablesOk T) (hk : NoSpace K) (s : Str) (i j : Nat)
    (hv : V6At s.toArray i j) (hd : OwnToken T K s.toArray i j)
    (hfirst : firstEnd T s.toArray RTV.Gen.ipv6Regex i = some j) :
    (⟨i, j - i, slice s.toArray i j, "ipv6"⟩ : ER) ∈ ipExtract T K RTV.Gen.ipv4Regex RTV.Gen.ipv6Regex s := by
  obtain ⟨hl, hr⟩ := hd
  obtain ⟨⟨hij, hch⟩, kc, kc1, kc2, hcol⟩ := V6At_chars hv
  have hjs : j ≤ s.toArray.size := HexColon_bounds ⟨hij, hch⟩
  have hj : j ≤ s.length := by simpa using hjs
  have hclear : ∀ p e, p < i → e ∈ ends T s.toArray RTV.Gen.ipv6Regex p → e ≤ i := by
    intro p e hp he
    rcases hl with h | h
    · omega
    · by_cases hle : e ≤ i
      · exact hle
      · exact absurd he (sep_not_in_match ht h (by omega) (by omega)).2
  obtain ⟨hmem, -⟩ := findAll_of_clear hij hjs hclear hfirst
  have hall4 := findAll_sound (T := T) (s := s.toArray) (r := RTV.Gen.ipv4Regex)
  have hall6 := findAll_sound (T := T) (s := s.toArray) (r := RTV.Gen.ipv6Regex)
  have hspace : ∀ c ∈ slice s.toArray i j, K.isSpace c = false := by
    intro c hc
    obtain ⟨k, k1, k2, rfl⟩ := slice_mem_code hjs c hc
    rcases hch k k1 k2 with h | h
    · exact hk _ (.inl h)
    · exact hk _ (.inr (.inr h))
  refine ipExtract_reports T K _ _ s i j "ipv6" hij hj ?_ (.inr hmem) ?_ ?_ hspace ?_
  · -- no IPv4 match has this span (it contains a colon), the IPv6 list has it
    rw [srcMatch_skip_left, ← srcMatch_append_nil]
    · exact srcMatch_of_first ⟨j, mem_tagged hmem, rfl⟩ (tagged_all _ _)
    · rintro ⟨a, b, w⟩ hp ⟨h1, h2⟩
      simp only at h1 h2
      subst h1
      have hm := hall4 (a, b) (tagged_mem hp).1
      have hc := ipv4_match_chars hm
      have hb : b = j := by have := hc.1; simp only at this; omega
      subst hb
      rcases hc.2.2.2.2 kc kc1 kc2 with h | h
      · omega
      · unfold isD at h; omega
  · rcases hl with h | h
    · exact .inl h
    · right
      rintro q (hq | hq) ⟨h1, h2⟩
      · exact (sep_not_in_match ht h h1 h2).1 (hall4 q hq)
      · exact (sep_not_in_match ht h h1 h2).2 (hall6 q hq)
  · rcases hr with h | h
    · exact .inl (by simpa using h)
    · right
      rintro q (hq | hq) ⟨h1, h2⟩
      · exact (sep_not_in_match ht h h1 h2).1 (hall4 q hq)
      · exact (sep_not_in_match ht h h1 h2).2 (hall6 q hq)
  · -- the neighbours are neither digits nor letters for Python, so neither ellipsis guard fires
    have A : (startsWith (runSub K s i (j - 1)) ellipsis &&
        (decide (i > 0) && glued K (s.getD (i - 1) 0) (s.getD (i - 1) 0))) = false := by
      rcases hl with h | h
      · simp [h]
      · rw [getD_code]; unfold glued; simp [h.2.2.2.1, h.2.2.2.2]
    have B : (endsWith (runSub K s i (j - 1)) ellipsis &&
        (decide (j - 1 + 1 < s.length) && glued K (s.getD (j - 1 + 1) 0) ((index s ((i : Int) - 1)).getD 0))) = false := by
      have e0 : j - 1 + 1 = j := by omega
      rw [e0]
      rcases hr with h | h
      · have : ¬ j < s.length := by simp at h; omega
        simp [this]
      · rw [getD_code]; unfold glued; simp [h.2.2.2.1, h.2.2.2.2]
    unfold runSkip
    rw [A, B]
    simp

/-- **C13, IPv6, the reported span.**  At the start of an IPv6 address text (exploded, or compressed in any of the
forms `a` groups `::` `b` groups, `a + b ≤ 7`) that no word character touches and that is not followed by `:`, the
engine's first answer is the end of the text — although shorter matches exist (`1::2` inside `1::2:3`). -/
theorem ipv6_reported_span {T : Tables} (ht : TablesOk T) (s : Array Nat) (i j : Nat) (hv : V6At s i j)
    (hl : i = 0 ∨ wordAt T s (i - 1) = false) (hr : wordAt T s j = false) (hnc : code s j ≠ 58) :
    firstEnd T s RTV.Gen.ipv6Regex i = some j := by
  rw [gen_ipv6]
  exact ipv6RE_firstEnd ⟨ht.hex, ht.colon, hl, hr, hnc⟩ hv

theorem OwnToken.ctx {T : Tables} {K : CharClass} {s : Array Nat} {i j : Nat} (h : OwnToken T K s i j) :
    (i = 0 ∨ wordAt T s (i - 1) = false) ∧ wordAt T s j = false ∧ code s j ≠ 58 := by
  obtain ⟨hl, hr⟩ := h
  refine ⟨?_, ?_, ?_⟩
  · rcases hl with h | h
    · exact .inl h
    · exact .inr (wordAt_of_nonword (.inr h.1))
  · rcases hr with h | h
    · exact wordAt_of_nonword (.inl h)
    · exact wordAt_of_nonword (.inr h.1)
  · rcases hr with h | h
    · subst h; simp [code, Array.getD]
    · exact h.2.2.1

/-- **C13, IPv6, extractor level (all texts).**  An IPv6 address text (exploded or compressed) at `[i, j)` of `s`
that stands as its own token is reported by `BaseIpExtractor.extract` with exactly its span, its text and the tag
`ipv6`. -/
theorem ipv6_extract_complete {T : Tables} {K : CharClass} (ht : TablesOk T) (hk : NoSpace K) (s : Str) (i j : Nat)
    (hv : V6At s.toArray i j) (hd : OwnToken T K s.toArray i j) :
    (⟨i, j - i, slice s.toArray i j, "ipv6"⟩ : ER) ∈ ipExtract T K RTV.Gen.ipv4Regex RTV.Gen.ipv6Regex s :=
  ipv6_extract_of_first ht hk s i j hv hd (ipv6_reported_span ht _ i j hv hd.ctx.1 hd.ctx.2.1 hd.ctx.2.2)

/-! ### soundness at extractor level -/

/-- **C13, soundness, extractor level (all texts, all tables).**  Whatever `BaseIpExtractor.extract` reports is a
valid address: an entity tagged `ipv4` spans a dotted quad of octets 0..255, an entity tagged `ipv6` spans an RFC 4291
text form, and there is no other tag. -/
theorem ip_extract_reports_valid (T : Tables) (K : CharClass) (s : Str) :
    ∀ r ∈ ipExtract T K RTV.Gen.ipv4Regex RTV.Gen.ipv6Regex s,
      (r.data = "ipv4" ∧ ValidV4 (slice s.toArray r.start (r.start + r.len))) ∨
      (r.data = "ipv6" ∧ V6At s.toArray r.start (r.start + r.len)) := by
  intro r hr
  obtain ⟨b, hl, h | h⟩ := ip_extract_sound T K _ _ s r hr
  · have hm := ipv4_match_chars h.2
    have : r.start + r.len = b := by have := hm.1; omega
    rw [this]
    exact .inl ⟨h.1, ipv4_sound T _ _ _ h.2⟩
  · have hm := (ipv6_match_chars h.2).1.1
    have : r.start + r.len = b := by omega
    rw [this]
    exact .inr ⟨h.1, ipv6_sound T _ _ _ h.2⟩

/-! ### list-level forms, longer dotted runs -/

theorem slice_mid (l a r : Str) : slice (l ++ a ++ r).toArray l.length (l.length + a.length) = a := by
  unfold slice; simp

theorem code_mid_before (l a r : Str) (c : Nat) (h : l.getLast? = some c) :
    code (l ++ a ++ r).toArray (l.length - 1) = c := by
  have hne : l ≠ [] := by intro h0; simp [h0] at h
  have hl : 0 < l.length := List.length_pos_iff.2 hne
  rw [List.getLast?_eq_getElem?] at h
  have hlt : l.length - 1 < l.length := by omega
  rw [List.getElem?_eq_getElem hlt] at h
  simp only [Option.some.injEq] at h
  unfold code
  have hlt2 : l.length - 1 < (l ++ a ++ r).toArray.size := by simp; omega
  simp only [Array.getD, hlt2, dite_true]
  simp [List.getElem_append_left, hlt, h]

theorem code_mid_after (l a r : Str) (c : Nat) (h : r.head? = some c) :
    code (l ++ a ++ r).toArray (l.length + a.length) = c := by
  cases r with
  | nil => simp at h
  | cons x t =>
    simp at h; subst h
    unfold code
    simp [Array.getD]

/-- **C13, IPv4, list form.**  `l ++ a ++ r` with `a` a valid dotted quad, `l` empty or ending in a `Sep`, `r` empty or
beginning with a non-word character other than `:`: the extractor reports `a` — start `|l|`, length `|a|`, text `a`. -/
theorem ipv4_token_reported {T : Tables} {K : CharClass} (ht : TablesOk T) (hk : NoSpace K) (l a r : Str)
    (hv : ValidV4 a) (hl : l = [] ∨ ∃ c, l.getLast? = some c ∧ Sep T K c)
    (hr : r = [] ∨ ∃ c, r.head? = some c ∧ T.word c = false ∧ c ≠ 58) :
    (⟨l.length, a.length, a, "ipv4"⟩ : ER) ∈ ipExtract T K RTV.Gen.ipv4Regex RTV.Gen.ipv6Regex (l ++ a ++ r) := by
  have key := ipv4_extract_complete ht hk (l ++ a ++ r) l.length (l.length + a.length) (by simp)
    (by rw [slice_mid]; exact hv) ?_ ?_
  · rw [slice_mid] at key
    simpa using key
  · rcases hl with h | ⟨c, h1, h2⟩
    · exact .inl (by simp [h])
    · exact .inr (by rw [code_mid_before l a r c h1]; exact h2)
  · rcases hr with h | ⟨c, h1, h2⟩
    · exact .inl (by simp [h])
    · exact .inr (by rw [code_mid_after l a r c h1]; exact h2)

/-- **A longer dotted run** (audit item 19, `0.1.2.3.4`).  When a valid dotted quad `a` is followed by `.` and anything
else, the extractor reports `a`: the leading quad of the run, with its exact span.  How this relates to the property:
the *soundness* clause holds for this report — `a` IS a valid address (hypothesis `hv`; in general
`ip_extract_reports_valid`) — and the *completeness* clause does not speak about the run as a whole, which is not a
valid address (`longer_dotted_run_invalid`) and hence no "valid address standing as its own token". -/
theorem ipv4_dotted_run_reports_prefix {T : Tables} {K : CharClass} (ht : TablesOk T) (hk : NoSpace K) (l a rest : Str)
    (hv : ValidV4 a) (hl : l = [] ∨ ∃ c, l.getLast? = some c ∧ Sep T K c) :
    (⟨l.length, a.length, a, "ipv4"⟩ : ER) ∈
      ipExtract T K RTV.Gen.ipv4Regex RTV.Gen.ipv6Regex (l ++ a ++ 46 :: rest) :=
  ipv4_token_reported ht hk l a (46 :: rest) hv hl (.inr ⟨46, rfl, ht.dot, by decide⟩)

theorem ValidV4_dots {w : Str} (h : ValidV4 w) : w.count 46 = 3 := by
  obtain ⟨a, b, c, d, ha, hb, hc, hd, rfl⟩ := h
  have z : ∀ {x : Str}, Oct x → x.count 46 = 0 := by
    intro x hx
    rw [List.count_eq_zero]
    intro hm
    have := hx.2.2.1 46 hm
    omega
  simp [List.count_append, z ha, z hb, z hc, z hd]

/-- a valid quad followed by `.` and anything is not a valid address as a whole (it has more than three dots) -/
theorem longer_dotted_run_invalid {a : Str} (hv : ValidV4 a) (rest : Str) : ¬ ValidV4 (a ++ 46 :: rest) := by
  intro h
  have h1 := ValidV4_dots hv
  have h2 := ValidV4_dots h
  simp [List.count_append, h1] at h2

/-! ### the hypotheses hold for the running engine's tables and Python's character classes -/

theorem real_tablesOk : TablesOk RTV.Gen.reTables :=
  ⟨real_hex_are_word, by decide +kernel, real_colon_not_word⟩

theorem real_noSpace : NoSpace pyChars := by
  intro c hc
  have : c ∈ List.range' 48 10 ++ List.range' 65 6 ++ List.range' 97 6 ++ [46, 58] := by
    simp only [List.mem_append, List.mem_range'_1, List.mem_cons, List.mem_nil_iff, or_false]
    unfold isHexI at hc; omega
  have hall : (List.range' 48 10 ++ List.range' 65 6 ++ List.range' 97 6 ++ [46, 58]).all
      (fun c => !pyChars.isSpace c) = true := by decide +kernel
  simpa using List.all_eq_true.1 hall c this

/-- blank, tab, newline, carriage return, `! " # $ % & ' ( ) * + , - / ; < = > ? @ [ \ ] ^ ` { | } ~` -/
def asciiSeps : List Nat :=
  [9, 10, 13, 32, 33, 34, 35, 36, 37, 38, 39, 40, 41, 42, 43, 44, 45, 47, 59, 60, 61, 62, 63, 64, 91, 92, 93, 94, 96,
   123, 124, 125, 126]

instance (T : Tables) (K : CharClass) (c : Nat) : Decidable (Sep T K c) := by unfold Sep; exact inferInstance

/-- every ASCII white-space / punctuation character except `.` `:` `_` is a `Sep` for the real tables -/
theorem real_seps : ∀ c ∈ asciiSeps, Sep RTV.Gen.reTables pyChars c := by decide +kernel

/-- `0.1.2.3.4` on the real tables: exactly one entity, `0.1.2.3` at `[0, 7)` (replayed on the implementation by the
correspondence: `ip.extract` on the same string) -/
theorem dotted_run_witness :
    ipExtract RTV.Gen.reTables pyChars RTV.Gen.ipv4Regex RTV.Gen.ipv6Regex (ofString "0.1.2.3.4") =
      [⟨0, 7, ofString "0.1.2.3", "ipv4"⟩] := by decide +kernel

/-- the hypotheses of `ipv6_extract_complete` are satisfiable: `( fe80::1:2 )` -/
example : (⟨2, 9, ofString "fe80::1:2", "ipv6"⟩ : ER) ∈
    ipExtract RTV.Gen.reTables pyChars RTV.Gen.ipv4Regex RTV.Gen.ipv6Regex (ofString "( fe80::1:2 )") := by
  decide +kernel

/-! ### two observations about the Chinese configuration (zh-*, ja-*) — NOT property violations

The reported text is a valid address in both cases, so C13's soundness clause holds; the address just does not stand
as its own token.  The correspondence counts them as evidence (`zh_ip_glued_latin_k`,
`zh_ip_glued_ellipsis_after_cjk`); optional patches: /verif/findings/sequence/*.diff. -/

/-- `k1.2.3.4` → `1.2.3.4`: the look-behind class `[\u0800-\u9FFF]` of `ChinesePhoneNumbers.WordBoundariesRegex` is
compiled with IGNORECASE and contains U+212A KELVIN SIGN, whose case folding is `k` … -/
theorem zh_latin_k_observation :
    ipExtract RTV.Gen.reTables pyChars RTV.Gen.zhIpv4Regex RTV.Gen.zhIpv6Regex (ofString "k1.2.3.4") =
      [⟨1, 7, ofString "1.2.3.4", "ipv4"⟩] := by decide +kernel

/-- … while any other Latin letter blocks the match -/
theorem zh_latin_j_blocks :
    ipExtract RTV.Gen.reTables pyChars RTV.Gen.zhIpv4Regex RTV.Gen.zhIpv6Regex (ofString "j1.2.3.4") = [] := by
  decide +kernel

/-- `是1:2:3:4:5:6:7::x` → `1:2:3:4:5:6:7::`: the guard for a match ending in `::` asks `is_cjk(source[start - 1])`
(mirrored by `sweepGo`: `index s (start - 1)`) instead of `is_cjk(source[i + 1])`, so after a CJK character a following
Latin letter does not reject the match; after a blank it does. -/
theorem zh_ellipsis_end_after_cjk_observation :
    ipExtract RTV.Gen.reTables pyChars RTV.Gen.zhIpv4Regex RTV.Gen.zhIpv6Regex
        (26159 :: ofString "1:2:3:4:5:6:7::x") = [⟨1, 15, ofString "1:2:3:4:5:6:7::", "ipv6"⟩] ∧
    ipExtract RTV.Gen.reTables pyChars RTV.Gen.zhIpv4Regex RTV.Gen.zhIpv6Regex
        (32 :: ofString "1:2:3:4:5:6:7::x") = [] := by
  constructor <;> decide +kernel

end RTV.C13
