import RTV.Lemmas.SpellBigEs
import RTV.Lemmas.SpellBigPt
import RTV.Lemmas.SpellBigDe
import RTV.Lemmas.SpellBigNl
/-!
# C04 — spelled-out cardinals of Spanish, German, Dutch and Portuguese: every `n < 10^15`

Specification: `RTV.Num.spellHuge <culture>Huge n` (`RTV/Model/SpellEu.lean`) — the standard written-out form of `n`
with the culture's scale nouns (`un millón`, `dos millones`, `mil millones` = 10^9, `un billón` = 10^12;
`eine million`, `zwei milliarden`, `eine billion`; `een miljoen`, `miljard`, `biljoen`; `um milhão`, `dois bilhões`,
`um trilhão`), the multiplier in the form used in front of a noun (apocope `veintiún millones`, `einhunderteine million`),
the Portuguese connector ` e ` in front of a last group below 100 or of a round hundred, and below 10^6 the numeral of
`spellEuAll`. The harness takes its inputs for these cultures from this very function (driver op `nb.spell`) and checks
on every run that `text_number_regex` tokenises the surface string into exactly the token list used here.

Model: `RTV.Num.getIntValue` = `BaseNumberParser.__get_int_value` with the culture's **regenerated** maps.

Proof shape (`Lemmas/SpellBig`): induction over the list of scale words; each scale group is one application of the
round-number step `good_step` (block = connector + multiplier, end word = scale noun, good rest), the thousand group
inside the remainder and inside the Spanish six-digit multipliers by the same step. Only facts about the multipliers
1..999 and the table of scale words are evaluated by the kernel on the regenerated maps — a changed entry of
`RoundNumberMap` / `CardinalNumberMap` breaks `*_scales` or `*_h<j>`.
-/
namespace RTV.Num
open RTV.Py

/-- **C04 (Spanish cardinals)** `cero` … `novecientos noventa y nueve billones novecientos noventa y nueve mil
novecientos noventa y nueve millones …`: for every `n < 10^15`, `__get_int_value` on the tokens of the written-out
form of `n` is `n`. -/
theorem spanish_cardinal (n : Nat) (hn : n < 10 ^ 15) :
    getIntValue true asciiDigits es.lang (spellHuge esHuge n).2 = .ok n :=
  es_huge n (by simpa using hn) (fun h => absurd h.1 (by decide))

/-- **C04 (German cardinals)** for every `n < 10^15` (`null` … `neunhundertneunundneunzig billionen …`) -/
theorem german_cardinal (n : Nat) (hn : n < 10 ^ 15) :
    getIntValue true asciiDigits de.lang (spellHuge deHuge n).2 = .ok n :=
  de_huge n (by simpa using hn) (fun h => absurd h.1 (by decide))

/-- **C04 (Dutch cardinals)** for every `n < 10^15` (`nul` … `negenhonderdnegenennegentig biljoen …`) -/
theorem dutch_cardinal (n : Nat) (hn : n < 10 ^ 15) :
    getIntValue true asciiDigits nl.lang (spellHuge nlHuge n).2 = .ok n :=
  nl_huge n (by simpa using hn) (fun h => absurd h.1 (by decide))

/- Portuguese, full statement (fails): ∀ n < 10^15, getIntValue pt (spellHuge ptHuge n).2 = n.
   A numeral at or above 10^6 that ends in `… e mil` (remainder exactly 1000: `um milhão e mil`) loses its thousand:
   the slice in front of the end word `mil` is `['e']`, which `__get_int_value` evaluates to 0 and multiplies. -/
/-- **C04 (Portuguese cardinals)**, exact guard: every `n < 10^15` that is below 10^6 or whose last six digits are
not `001000`. -/
theorem portuguese_cardinal_partial (n : Nat) (hn : n < 10 ^ 15) (hg : ¬ (n % 1000000 = 1000 ∧ 1000000 ≤ n)) :
    getIntValue true asciiDigits pt.lang (spellHuge ptHuge n).2 = .ok n :=
  pt_huge n (by simpa using hn) (fun h => hg ⟨h.2.2.1, h.2.2.2⟩)

/-- negative witness (finding `pt-br:cardinal-scale:e-mil:value`): `um milhão e mil` (1 001 000) is read as 1 000 000 -/
theorem portuguese_e_mil_witness :
    (spellHuge ptHuge 1001000).2 = [[117, 109], [109, 105, 108, 104, 227, 111], [101], [109, 105, 108]] ∧
    getIntValue true asciiDigits pt.lang (spellHuge ptHuge 1001000).2 = .ok 1000000 := by decide +kernel

/-- below 10^6 the specification is the one of `spanish_sub1e6` … (`spellEuAll`) -/
theorem spellHuge_below_1e6 (n : Nat) (h : n < 1000000) :
    spellHuge esHuge n = spellEuAll esBig n ∧ spellHuge ptHuge n = spellEuAll ptBig n ∧
    spellHuge deHuge n = spellEuAll deBig n ∧ spellHuge nlHuge n = spellEuAll nlBig n :=
  ⟨hugeTop_small esHuge es.lang _ _ _ n es_scales h, hugeTop_small ptHuge pt.lang _ _ _ n pt_scales h,
   hugeTop_small deHuge de.lang _ _ _ n de_scales h, hugeTop_small nlHuge nl.lang _ _ _ n nl_scales h⟩

/-- **Table sanity on the regenerated maps**: in each of the four cultures both forms of every scale noun the
specification uses are keys of `RoundNumberMap` with the stated value (10^6, 10^9, 10^12; Spanish 10^6, 10^12), and the
thousand word is worth 1000. -/
theorem scale_words_in_maps :
    scalesOK es.lang 1000000 (10 ^ 15) esHuge.scales = true ∧ scalesOK pt.lang 1000 (10 ^ 15) ptHuge.scales = true ∧
    scalesOK de.lang 1000 (10 ^ 15) deHuge.scales = true ∧ scalesOK nl.lang 1000 (10 ^ 15) nlHuge.scales = true ∧
    lookup es.lang.round esBig.thousand = some 1000 ∧ lookup pt.lang.round ptBig.thousand = some 1000 ∧
    lookup de.lang.round deBig.thousand = some 1000 ∧ lookup nl.lang.round nlBig.thousand = some 1000 :=
  ⟨es_scales, pt_scales, de_scales, nl_scales, es_thousand_word, pt_thousand_word, de_thousand_word, nl_thousand_word⟩

/-! closed instances (the hypotheses are satisfiable; the specification says what one expects) -/

/-- `dos mil un millones veintiún mil uno` = 2 001 021 001 -/
example : (spellHuge esHuge 2001021001).1 = [100, 111, 115, 32, 109, 105, 108, 32, 117, 110, 32, 109, 105, 108, 108,
    111, 110, 101, 115, 32, 118, 101, 105, 110, 116, 105, 250, 110, 32, 109, 105, 108, 32, 117, 110, 111] := by
  decide +kernel

example : getIntValue true asciiDigits es.lang (spellHuge esHuge 2001021001).2 = .ok 2001021001 :=
  spanish_cardinal _ (by decide)

/-- `einhunderteine million zweitausendelf` = 101 002 011 -/
example : (spellHuge deHuge 101002011).1 = [101, 105, 110, 104, 117, 110, 100, 101, 114, 116, 101, 105, 110, 101, 32,
    109, 105, 108, 108, 105, 111, 110, 32, 122, 119, 101, 105, 116, 97, 117, 115, 101, 110, 100, 101, 108, 102] := by
  decide +kernel

example : getIntValue true asciiDigits de.lang (spellHuge deHuge 101002011).2 = .ok 101002011 :=
  german_cardinal _ (by decide)

/-- `dois bilhões e um milhão` = 2 001 000 000 (connector in front of a scale group) -/
example : (spellHuge ptHuge 2001000000).2 =
    [[100, 111, 105, 115], [98, 105, 108, 104, 245, 101, 115], [101], [117, 109], [109, 105, 108, 104, 227, 111]] := by
  decide +kernel

example : getIntValue true asciiDigits pt.lang (spellHuge ptHuge 2001000000).2 = .ok 2001000000 :=
  portuguese_cardinal_partial _ (by decide) (by decide)

end RTV.Num
