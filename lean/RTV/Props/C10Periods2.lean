import RTV.Lemmas.Periods2
import RTV.Props.C10Periods
set_option linter.unusedVariables false
set_option linter.unusedSimpArgs false
/-!
# C10 / C11 / C08 for the rest of `BaseDatePeriodParser` and the `DateContext`

Theorems about `RTV.Model.Periods2` (tied to the real methods by `harness/lib/period2corr.py`), for every reference and every
input unless a guard is written out:

* month / year durations (`past | next | in  N months | years`): the EXACT set of references on which the emitted
  `(begin,end,P<N>M|Y)` triple is consistent (`duration_past_exact`, `duration_next_exact`, `duration_in_exact`);
* `DateContext`: `__set_date_with_context` never yields an invalid date — a 29 February under a context year without one
  becomes the marker `0001-01-01` (which the merged parser turns into 'not resolved'); `sync_year` gives valid dates;
* "from A to B <year>": both ends take the stated year, the triple is consistent, begin ≤ end is kept (no swap happens for a
  reversed pair — witness);
* the parse order: `firstSuccess` is the first success, an earlier exception escapes, and the order is observable;
* decades: the tree's `__parse_decade` never succeeds; the repaired computation gives `[Jan 1, Jan 1 + 10 years)` with a
  consistent `P10Y` triple;
* complex periods "from May to July 2020", the week-of-month defect (witness), `__parse_month_of_date` in December
  (witness), the `inclusive_end_period` flag.
-/
namespace RTV.Periods2
open RTV.Cal RTV.DateUtils RTV.WF RTV.Periods

/-! ## `_parse_duration` for months and years -/

/-- "past N months|years" (every reference, every N ≥ 1): `[R − N units, R]`, TIMEX `(begin,R,P<N>M|Y)`. The triple is
consistent EXACTLY when the shift keeps the day of the month: months — the reference's day exists in the month N months
back (otherwise `datedelta` clamps the begin to that month's last day); years — the reference is not a 29 February whose
target year has none (otherwise the begin is 28 February). -/
theorem duration_past_exact (u : PerUnit) (hu : u = .M ∨ u = .Y) (R : DateTime) (hv : R.date.valid = true) (n : Nat) (hn : 1 ≤ n)
    (t : Str) (b e pb pe : DateTime) (h : durationPeriod R .past u n = .ok t b e pb pe) :
    e = R ∧ pb = b ∧ pe = e ∧ b.date.valid = true ∧ b.secs = R.secs ∧ t = dateTriple b.date R.date n u.letter ∧
    (tripleOK t (some (formatDate b.date)) (some (formatDate R.date)) = true ↔ shiftKeeps u R.date (-(n : Int))) := by
  unfold durationPeriod at h
  simp only at h
  cases hs : swiftDate R u n false with
  | none => simp [hs, ofOpt] at h
  | some b0 =>
    have s := swiftDate_cal u hu R hv n hn false b0 hs
    by_cases hne : b0 = R
    · subst hne; simp [hs, ofOpt] at h
    · simp only [hs, Option.map_some, Option.bind_eq_bind, Option.bind_some, Option.pure_def, ofOpt, hne, ne_eq, not_false_eq_true, if_true,
        Option.getD_some, Res.ok.injEq, triple_tx] at h
      obtain ⟨ht, hb, he, hpb, hpe⟩ := h
      subst hb he hpb hpe
      refine ⟨rfl, rfl, rfl, s.1, s.2.1, ht.symm, ?_⟩
      rw [← ht, date_triple_iff _ _ s.1 hv n u.letter (calUnit u) (cal_letter u hu)]
      exact s.2.2.2 rfl

/-- "next N months|years": `[R + 1 day, (R + 1 day) + N units]`; consistent EXACTLY when the shift keeps the day of the
month of the BEGIN (the day after the reference): months — it exists in the month N months on (otherwise `datedelta`
rolls the end forward to the 1st of the following month: N + 1 calendar months); years — the begin is not a 29 February
whose target year has none (otherwise the end is 1 March). -/
theorem duration_next_exact (u : PerUnit) (hu : u = .M ∨ u = .Y) (R : DateTime) (hv : R.date.valid = true) (n : Nat) (hn : 1 ≤ n)
    (t : Str) (b e pb pe : DateTime) (h : durationPeriod R .next u n = .ok t b e pb pe) :
    pb = b ∧ pe = e ∧ b.date.valid = true ∧ e.date.valid = true ∧ (b.date.ord : Int) = R.date.ord + 1 ∧ b.secs = R.secs ∧ e.secs = R.secs ∧
    t = dateTriple b.date e.date n u.letter ∧
    (tripleOK t (some (formatDate b.date)) (some (formatDate e.date)) = true ↔ shiftKeeps u b.date n) := by
  unfold durationPeriod at h
  simp only at h
  cases h1 : DateUtils.addDays R 1 with
  | none => simp [h1, ofOpt] at h
  | some b0 =>
  have s1 := addDays_spec R hv 1 b0 h1
  cases hs : swiftDate b0 u n true with
  | none => simp [h1, hs, ofOpt] at h
  | some e0 =>
    have s := swiftDate_cal u hu b0 s1.1 n hn true e0 hs
    by_cases hne : b0 = e0
    · subst hne; simp [h1, hs, ofOpt] at h
    · simp only [h1, hs, Option.bind_eq_bind, Option.bind_some, Option.pure_def, ofOpt, hne, ne_eq, not_false_eq_true, if_true,
        Option.getD_some, Res.ok.injEq, triple_tx] at h
      obtain ⟨ht, hb, he, hpb, hpe⟩ := h
      subst hb he hpb hpe
      refine ⟨rfl, rfl, s1.1, s.1, s1.2.1, s1.2.2, by rw [s.2.1, s1.2.2], ht.symm, ?_⟩
      rw [← ht, date_triple_iff _ _ s1.1 s.1 n u.letter (calUnit u) (cal_letter u hu)]
      exact s.2.2.1 rfl

/-- "in N months|years": end = `(R + 1 day) + N units`, begin = end − 1 unit, TIMEX `(begin,end,P1M|Y)`; consistent
EXACTLY when the END's day of the month survives the step back by one unit. -/
theorem duration_in_exact (u : PerUnit) (hu : u = .M ∨ u = .Y) (R : DateTime) (hv : R.date.valid = true) (n : Nat) (hn : 1 ≤ n)
    (t : Str) (b e pb pe : DateTime) (h : durationPeriod R .inConn u n = .ok t b e pb pe) :
    pb = b ∧ pe = e ∧ b.date.valid = true ∧ e.date.valid = true ∧ b.secs = R.secs ∧ e.secs = R.secs ∧
    t = dateTriple b.date e.date 1 u.letter ∧
    (tripleOK t (some (formatDate b.date)) (some (formatDate e.date)) = true ↔ shiftKeeps u e.date (-1)) := by
  unfold durationPeriod at h
  simp only at h
  cases h1 : DateUtils.addDays R 1 with
  | none => simp [h1, ofOpt] at h
  | some b0 =>
  have s1 := addDays_spec R hv 1 b0 h1
  cases hs : swiftDate b0 u n true with
  | none => simp [h1, hs, ofOpt] at h
  | some e0 =>
  have s := swiftDate_cal u hu b0 s1.1 n hn true e0 hs
  cases hb : swiftDate e0 u 1 false with
  | none => simp [h1, hs, hb, ofOpt] at h
  | some b1 =>
    have sb := swiftDate_cal u hu e0 s.1 1 (by omega) false b1 hb
    by_cases hne : b1 = e0
    · subst hne; simp [h1, hs, hb, ofOpt] at h
    · simp only [h1, hs, hb, Option.bind_eq_bind, Option.bind_some, Option.pure_def, ofOpt, hne, ne_eq, not_false_eq_true, if_true,
        Option.getD_some, Res.ok.injEq, triple_tx] at h
      obtain ⟨ht, hb', he, hpb, hpe⟩ := h
      subst hb' he hpb hpe
      refine ⟨rfl, rfl, sb.1, s.1, by rw [sb.2.1, s.2.1, s1.2.2], by rw [s.2.1, s1.2.2], ht.symm, ?_⟩
      rw [← ht, date_triple_iff _ _ sb.1 s.1 1 u.letter (calUnit u) (cal_letter u hu)]
      exact sb.2.2.2 rfl


/-- Witnesses on both sides of the guards. Months are in `duration_months_witnesses` (Props/C10Periods). Years:
"next 1 year" asked on 2020-02-28 begins on 29 February 2020 and ends on 1 March 2021 — not a year apart by the
calendar; asked on 2020-02-27 it is consistent. -/
theorem duration_years_witnesses :
    (durationPeriod ⟨⟨2020, 2, 28⟩, 0⟩ .next .Y 1 =
        .ok ("(2020-02-29,2021-03-01,P1Y)".toList.map Char.toNat) ⟨⟨2020, 2, 29⟩, 0⟩ ⟨⟨2021, 3, 1⟩, 0⟩ ⟨⟨2020, 2, 29⟩, 0⟩ ⟨⟨2021, 3, 1⟩, 0⟩ ∧
      tripleOK ("(2020-02-29,2021-03-01,P1Y)".toList.map Char.toNat) (some ("2020-02-29".toList.map Char.toNat))
        (some ("2021-03-01".toList.map Char.toNat)) = false) ∧
    (durationPeriod ⟨⟨2020, 2, 29⟩, 0⟩ .past .Y 1 =
        .ok ("(2019-02-28,2020-02-29,P1Y)".toList.map Char.toNat) ⟨⟨2019, 2, 28⟩, 0⟩ ⟨⟨2020, 2, 29⟩, 0⟩ ⟨⟨2019, 2, 28⟩, 0⟩ ⟨⟨2020, 2, 29⟩, 0⟩ ∧
      tripleOK ("(2019-02-28,2020-02-29,P1Y)".toList.map Char.toNat) (some ("2019-02-28".toList.map Char.toNat))
        (some ("2020-02-29".toList.map Char.toNat)) = false) ∧
    (durationPeriod ⟨⟨2020, 2, 27⟩, 0⟩ .next .Y 1 =
        .ok ("(2020-02-28,2021-02-28,P1Y)".toList.map Char.toNat) ⟨⟨2020, 2, 28⟩, 0⟩ ⟨⟨2021, 2, 28⟩, 0⟩ ⟨⟨2020, 2, 28⟩, 0⟩ ⟨⟨2021, 2, 28⟩, 0⟩ ∧
      tripleOK ("(2020-02-28,2021-02-28,P1Y)".toList.map Char.toNat) (some ("2020-02-28".toList.map Char.toNat))
        (some ("2021-02-28".toList.map Char.toNat)) = true) := by
  refine ⟨⟨?_, ?_⟩, ⟨?_, ?_⟩, ⟨?_, ?_⟩⟩ <;> decide +kernel

/-- the guards are satisfiable on both sides: day 30 does not exist two months after December, day 28 always does -/
example : ¬ dayFits ⟨2019, 12, 31⟩ 2 ∧ dayFits ⟨2019, 12, 28⟩ 2 ∧ leapDayLost ⟨2020, 2, 29⟩ 1 ∧ ¬ leapDayLost ⟨2020, 2, 29⟩ 4 := by
  refine ⟨?_, ?_, ?_, ?_⟩ <;> simp only [dayFits, leapDayLost, shiftMonth] <;> decide

/-! ## `DateContext` -/

/-- `__set_date_with_context` never produces an invalid date, for any context year and any explicit year: the result is
the marker `min_value` (kept, or produced because month / day do not exist in the target year) or month / day of the
original in the target year. -/
theorem set_date_with_context_valid (c y : Int) (x : DateTime) :
    setDateWithContext c x y = DateUtils.minValue ∨
    ((setDateWithContext c x y).date.valid = true ∧ (setDateWithContext c x y).secs = 0 ∧
      ((setDateWithContext c x y).date.y : Int) = (if y == -1 then c else y) ∧
      (setDateWithContext c x y).date.m = x.date.m ∧ (setDateWithContext c x y).date.d = x.date.d) := by
  unfold setDateWithContext
  by_cases h : x = DateUtils.minValue
  · left; rw [if_pos h]; exact h
  · rw [if_neg h]
    generalize (if (y == -1) = true then c else y) = Y
    unfold safeCreateFromMinValue safeCreateFromValue
    by_cases v : isValidDate Y x.date.m x.date.d = true
    · right
      rw [if_pos v]
      unfold isValidDate at v
      simp only [Bool.and_eq_true, decide_eq_true_eq] at v
      exact ⟨v.2, rfl, by simp only; omega, rfl, rfl⟩
    · left; rw [if_neg v]

/-- A 29 February under a context year that has none becomes the marker (for every non-leap year) — the TIMEX then
carries `P X D` and the merged parser writes 'not resolved' (`period_invalid_end_filtered`, Props/C11). -/
theorem feb29_nonleap_context_is_marker (Y : Nat) (hl : isLeap Y = false) (x : DateTime) (hm : x.date.m = 2) (hd : x.date.d = 29) :
    setDateWithContext (Y : Int) x = DateUtils.minValue := by
  unfold setDateWithContext
  by_cases h : x = DateUtils.minValue
  · rw [if_pos h]; exact h
  · rw [if_neg h]
    simp only [show ((-1 : Int) == -1) = true from rfl, if_true, hm, hd]
    unfold safeCreateFromMinValue
    exact safeCreate_invalid _ _ _ (invalid_feb29 _ (by rw [isLeapYear_eq]; exact hl))

/-- "from February 29 to March 3 2019": begin is the marker, the TIMEX `(2019-02-29,2019-03-03,PXD)`. -/
theorem feb29_nonleap_witness :
    mergeCtx false 2019 ⟨"XXXX-02-29".toList.map Char.toNat, ⟨⟨2020, 2, 29⟩, 0⟩, ⟨⟨2016, 2, 29⟩, 0⟩⟩
        ⟨"XXXX-03-03".toList.map Char.toNat, ⟨⟨2020, 3, 3⟩, 0⟩, ⟨⟨2019, 3, 3⟩, 0⟩⟩ =
      .ok ("(2019-02-29,2019-03-03,PXD)".toList.map Char.toNat) DateUtils.minValue ⟨⟨2019, 3, 3⟩, 0⟩ DateUtils.minValue ⟨⟨2019, 3, 3⟩, 0⟩ := by
  decide +kernel

/-- `sync_year` (no year in the text, the first date is a 29 February): the second date is moved into the leap years of
the first one's future / past values and is a valid date there, whatever its month and day. -/
theorem sync_year_valid (r1 r2 : DateRes) (v1 : r1.future.date.valid = true) (f1 : isFeb29 r1.future = true)
    (vp : r1.past.date.valid = true) (fp : isFeb29 r1.past = true)
    (v2 : r2.future.date.valid = true) (w2 : r2.past.date.valid = true)
    (n2 : r2.future ≠ DateUtils.minValue) (m2 : r2.past ≠ DateUtils.minValue) :
    (syncYear invalidYear r1 r2).1 = r1 ∧
    (syncYear invalidYear r1 r2).2.future = ⟨⟨r1.future.date.y, r2.future.date.m, r2.future.date.d⟩, 0⟩ ∧
    (syncYear invalidYear r1 r2).2.past = ⟨⟨r1.past.date.y, r2.past.date.m, r2.past.date.d⟩, 0⟩ ∧
    (syncYear invalidYear r1 r2).2.future.date.valid = true ∧ (syncYear invalidYear r1 r2).2.past.date.valid = true := by
  simp only [isFeb29, Bool.and_eq_true, beq_iff_eq] at f1 fp
  have l1 := feb29_leap _ v1 f1.1 f1.2
  have lp := feb29_leap _ vp fp.1 fp.2
  have a1 := (valid_iff _).1 v1
  have ap := (valid_iff _).1 vp
  have vf : (⟨r1.future.date.y, r2.future.date.m, r2.future.date.d⟩ : Date).valid = true :=
    valid_in_leap r2.future.date.y _ _ _ v2 l1 a1.1 a1.2.1
  have vq : (⟨r1.past.date.y, r2.past.date.m, r2.past.date.d⟩ : Date).valid = true :=
    valid_in_leap r2.past.date.y _ _ _ w2 lp ap.1 ap.2.1
  have e1 : ((r1.future.date.y : Int) == -1) = false := by simp <;> omega
  have e2 : ((r1.past.date.y : Int) == -1) = false := by simp <;> omega
  have hs : syncYear invalidYear r1 r2 =
      (r1, ⟨r2.timex, ⟨⟨r1.future.date.y, r2.future.date.m, r2.future.date.d⟩, 0⟩,
                      ⟨⟨r1.past.date.y, r2.past.date.m, r2.past.date.d⟩, 0⟩⟩) := by
    unfold syncYear
    simp only [ctxEmpty, beq_self_eq_true, if_true, isFeb29, f1.1, f1.2, Bool.and_self, syncYearResolution, setDateWithContext,
      n2, m2, if_false, e1, e2, Bool.false_eq_true]
    rw [safeCreate_ymd _ _ _ vf, safeCreate_ymd _ _ _ vq]
  rw [hs]
  exact ⟨rfl, rfl, rfl, vf, vq⟩

/-! ## `_merge_two_times_points` with a year in the text -/

/-- "from <month day> to <month day> <year>" (every year 1000..9999, every ordered pair of days that exist in it; the
two dates as the date parser resolved them — any future / past years, `XXXX-MM-DD`): BOTH ends take the stated year in
the future and in the past value, the TIMEX is `(Y-MM-DD,Y-MM-DD,P<days>D)`, `tripleOK` holds, and with begin < end the
range is well formed. -/
theorem merge_year_context_ordered (Y m1 d1 m2 d2 : Nat) (hY1 : 1000 ≤ Y) (hY2 : Y ≤ 9999)
    (v1 : (⟨Y, m1, d1⟩ : Date).valid = true) (v2 : (⟨Y, m2, d2⟩ : Date).valid = true)
    (hle : (⟨Y, m1, d1⟩ : Date).ord ≤ (⟨Y, m2, d2⟩ : Date).ord)
    (f1 p1 f2 p2 : DateTime)
    (hf1 : f1.date.m = m1 ∧ f1.date.d = d1 ∧ f1 ≠ DateUtils.minValue) (hp1 : p1.date.m = m1 ∧ p1.date.d = d1 ∧ p1 ≠ DateUtils.minValue)
    (hf2 : f2.date.m = m2 ∧ f2.date.d = d2 ∧ f2 ≠ DateUtils.minValue) (hp2 : p2.date.m = m2 ∧ p2.date.d = d2 ∧ p2 ≠ DateUtils.minValue) :
    mergeCtx false (Y : Int) ⟨luis none m1 d1, f1, p1⟩ ⟨luis none m2 d2, f2, p2⟩ =
      .ok (dayTriple ⟨Y, m1, d1⟩ ⟨Y, m2, d2⟩) ⟨⟨Y, m1, d1⟩, 0⟩ ⟨⟨Y, m2, d2⟩, 0⟩ ⟨⟨Y, m1, d1⟩, 0⟩ ⟨⟨Y, m2, d2⟩, 0⟩ ∧
    tripleOK (dayTriple ⟨Y, m1, d1⟩ ⟨Y, m2, d2⟩) (some (formatDate ⟨Y, m1, d1⟩)) (some (formatDate ⟨Y, m2, d2⟩)) = true ∧
    ((⟨Y, m1, d1⟩ : Date).ord < (⟨Y, m2, d2⟩ : Date).ord → rangeOK ⟨⟨Y, m1, d1⟩, 0⟩ ⟨⟨Y, m2, d2⟩, 0⟩) := by
  have ne : ctxEmpty (Y : Int) = false := by simp [ctxEmpty, invalidYear] <;> omega
  have sd : ∀ (x : DateTime) (m d : Nat), x.date.m = m ∧ x.date.d = d ∧ x ≠ DateUtils.minValue →
      (⟨Y, m, d⟩ : Date).valid = true → setDateWithContext (Y : Int) x = ⟨⟨Y, m, d⟩, 0⟩ := by
    intro x m d hx hv
    unfold setDateWithContext
    rw [if_neg hx.2.2]
    simp only [show ((-1 : Int) == -1) = true from rfl, if_true, hx.1, hx.2.1]
    unfold safeCreateFromMinValue
    exact safeCreate_ymd _ _ _ hv
  have nb : ∀ m d, (⟨Y, m, d⟩ : Date) ≠ ⟨1, 1, 1⟩ := by intro m d h; injection h with h; omega
  have md := merge_definite_ok ⟨Y, m1, d1⟩ ⟨Y, m2, d2⟩ v1 v2 hle (nb _ _) (nb _ _)
  refine ⟨?_, md.2.1, md.2.2⟩
  rw [← md.1]
  unfold mergeCtx processDateEntity
  simp only [ne, Bool.false_eq_true, if_false, Bool.false_and, setTimex_noYear Y _ _ hY1 hY2,
    sd f1 m1 d1 hf1 v1, sd p1 m1 d1 hp1 v1, sd f2 m2 d2 hf2 v2, sd p2 m2 d2 hp2 v2]

/-- The documented non-swap: with a year in the text BOTH candidates of the begin are the same date of that year, so a
reversed pair stays reversed ("from July 5 to June 2 2020" → begin after end, `P-33D`); and `str(year)` writes a year
below 1000 with fewer than four digits. -/
theorem merge_year_context_witnesses :
    mergeCtx false 2020 ⟨"XXXX-07-05".toList.map Char.toNat, ⟨⟨2019, 7, 5⟩, 0⟩, ⟨⟨2018, 7, 5⟩, 0⟩⟩
        ⟨"XXXX-06-02".toList.map Char.toNat, ⟨⟨2019, 6, 2⟩, 0⟩, ⟨⟨2018, 6, 2⟩, 0⟩⟩ =
      .ok ("(2020-07-05,2020-06-02,P-33D)".toList.map Char.toNat) ⟨⟨2020, 7, 5⟩, 0⟩ ⟨⟨2020, 6, 2⟩, 0⟩ ⟨⟨2020, 7, 5⟩, 0⟩ ⟨⟨2020, 6, 2⟩, 0⟩ ∧
    setTimexWithContext ("XXXX-05-02".toList.map Char.toNat) 999 = "999-05-02".toList.map Char.toNat ∧
    mergeCtx true 2020 ⟨[], DateUtils.minValue, DateUtils.minValue⟩ ⟨[], DateUtils.minValue, DateUtils.minValue⟩ = .raises := by
  refine ⟨?_, ?_, ?_⟩ <;> decide +kernel

/-- The year scan: one year, or the same year twice, is the context; two different years give none — and a third
occurrence is taken again (quirk of the reset). -/
theorem year_context_fold_facts (a b : Int) (ha : a ≠ invalidYear) (hb : b ≠ invalidYear) (hab : a ≠ b) :
    yearContextFold [] = invalidYear ∧ yearContextFold [a] = a ∧ yearContextFold [a, a] = a ∧
    yearContextFold [a, b] = invalidYear ∧ yearContextFold [a, b, a] = a ∧ yearContextFold [invalidYear, a] = a := by
  have e1 : (a != invalidYear) = true := by simpa using ha
  have e2 : (b != invalidYear) = true := by simpa using hb
  have e3 : (a != b) = true := by simpa using hab
  have e4 : (b != a) = true := by simpa using (Ne.symm hab)
  simp [yearContextFold, e1, e2, e3, e4, ha, hb, hab, Ne.symm hab]

/-! ## `_parse_base_date_period`: the order of the sub-parsers -/

/-- Every sub-parser before position `i` said "no result" -/
def allNoResultBefore (outs : List Out) (i : Nat) : Prop := ∀ j, j < i → outs[j]? = some .noResult

/-- The chain, for ANY outcomes of the sixteen sub-parsers: the answer is that of the FIRST sub-parser in the list that
does not say "no result" — its success, or its exception (later ones are not consulted); "no result" only when all say
so. `answerIndex` is the position of the answering success. -/
theorem first_success_spec (outs : List Out) :
    (∃ i o, outs[i]? = some o ∧ o ≠ .noResult ∧ allNoResultBefore outs i ∧ firstSuccess outs = o ∧
      answerIndex outs = (if o = .raises then none else some i)) ∨
    ((∀ o ∈ outs, o = .noResult) ∧ firstSuccess outs = .noResult ∧ answerIndex outs = none) := by
  induction outs with
  | nil => right; simp [firstSuccess, answerIndex]
  | cons o rest ih =>
    cases o with
    | raises =>
      left; exact ⟨0, .raises, rfl, by simp, fun j hj => by omega, rfl, by simp [answerIndex]⟩
    | ok t v m =>
      left; exact ⟨0, .ok t v m, rfl, by simp, fun j hj => by omega, rfl, by simp [answerIndex]⟩
    | noResult =>
      rcases ih with ⟨i, o, h1, h2, h3, h4, h5⟩ | ⟨h1, h2, h3⟩
      · left
        refine ⟨i + 1, o, by simpa using h1, h2, ?_, by simpa [firstSuccess] using h4, ?_⟩
        · intro j hj
          cases j with
          | zero => rfl
          | succ k => simpa using h3 k (by omega)
        · simp only [answerIndex, h5]
          by_cases c : o = .raises <;> simp [c]
      · right
        refine ⟨?_, by simpa [firstSuccess] using h2, by simp [answerIndex, h3]⟩
        intro o ho
        simp only [List.mem_cons] at ho
        rcases ho with rfl | ho
        · rfl
        · exact h1 o ho

/-- the order is the one of the code, sixteen sub-parsers -/
theorem sub_order_facts : Sub.order.length = 16 ∧ Sub.order.head? = some .monthWithYear ∧ Sub.order[3]? = some .mergeTwoTimePoints ∧
    Sub.order[13]? = some .decade ∧ Sub.order.getLast? = some .duration ∧ Sub.order.Nodup := by
  refine ⟨rfl, rfl, rfl, rfl, rfl, by decide⟩

/-- The order is observable (so a reordering is caught by the correspondence): on "may of next year" asked on 2020-03-15
`__parse_month_with_year` (position 0) and `_parse_duration` (position 15: "next year" as a duration) BOTH succeed with
different answers; the chain gives the month, the swapped chain would give the year-long range. -/
theorem order_observable_witness :
    let a : Out := .ok ("2021-05".toList.map Char.toNat) (some ⟨⟨⟨2021, 5, 1⟩, 0⟩, ⟨⟨2021, 6, 1⟩, 0⟩, ⟨⟨2021, 5, 1⟩, 0⟩, ⟨⟨2021, 6, 1⟩, 0⟩⟩) []
    let d : Out := .ok ("(2020-03-16,2021-03-16,P1Y)".toList.map Char.toNat)
      (some ⟨⟨⟨2020, 3, 16⟩, 36000⟩, ⟨⟨2021, 3, 16⟩, 36000⟩, ⟨⟨2020, 3, 16⟩, 36000⟩, ⟨⟨2021, 3, 16⟩, 36000⟩⟩) []
    firstSuccess ([a] ++ List.replicate 14 .noResult ++ [d]) = a ∧ answerIndex ([a] ++ List.replicate 14 .noResult ++ [d]) = some 0 ∧
    firstSuccess ([d] ++ List.replicate 14 .noResult ++ [a]) = d ∧ a ≠ d := by
  refine ⟨?_, ?_, ?_, ?_⟩ <;> decide +kernel

/-- The context step at the end of `_parse_base_date_period`: without a context (or with an empty one) the chain's answer
is returned as it is, its values stay lists; with a year they are re-dated and become dicts. -/
theorem parse_base_context (outs : List Out) :
    parseBaseDatePeriod outs none = (match firstSuccess outs with | .raises => none | o => some (o, false)) ∧
    parseBaseDatePeriod outs (some invalidYear) = (match firstSuccess outs with | .raises => none | o => some (o, false)) := by
  unfold parseBaseDatePeriod
  cases firstSuccess outs <;> simp [processDatePeriod, ctxEmpty]

/-! ## `parse`: assembly -/

/-- `parse`: a success of `_parse_base_date_period` is final (the complex parser is not consulted); `timex_str` is the
result's TIMEX; the resolution dicts are `format_date` of the four values; another extract type gives no value. -/
theorem parse_assembly (t : Str) (v : Vals) (m : Str) (complex : Out) :
    parseTop true (.ok t (some v) m) complex =
      some ⟨true, t, some (formatDate v.fb.date, formatDate v.fe.date), some (formatDate v.pb.date, formatDate v.pe.date), m⟩ ∧
    parseTop true .noResult (.ok t (some v) m) = parseTop true (.ok t (some v) m) .noResult ∧
    parseTop true .noResult .noResult = some ⟨false, [], none, none, []⟩ ∧
    parseTop true .raises complex = none ∧ parseTop true .noResult .raises = none ∧
    parseTop false (.ok t (some v) m) complex = some ⟨false, [], none, none, []⟩ := by
  refine ⟨?_, ?_, ?_, ?_, ?_, ?_⟩ <;> simp [parseTop]

/-! ## `__parse_decade` -/

/-- The tree's `__parse_decade` never succeeds (whatever the two regex outcomes): decades are extracted and stay
unresolved. -/
theorem decade_unported_never_succeeds (a b : Bool) : (parseDecade a b).success = false := by
  cases a <;> cases b <;> rfl

/-- The repaired computation, a decade with its century in the text ("the 1990s": `firstTwo = 19`, `decade = 90`), for
EVERY reference and every begin year 2 … 9989: `[Jan 1 of the decade, Jan 1 ten years later)` in the future and in the
past value, TIMEX `(begin,end,P10Y)` satisfying `tripleOK`, a well-formed range. -/
theorem decade_fixed_century (R : DateTime) (c d : Nat) (h1 : 2 ≤ c * 100 + d) (h2 : c * 100 + d + 10 ≤ 9999) :
    decadeFixed R (.century c d) =
      .ok (dateTriple ⟨c * 100 + d, 1, 1⟩ ⟨c * 100 + d + 10, 1, 1⟩ 10 89)
        ⟨⟨c * 100 + d, 1, 1⟩, 0⟩ ⟨⟨c * 100 + d + 10, 1, 1⟩, 0⟩ ⟨⟨c * 100 + d, 1, 1⟩, 0⟩ ⟨⟨c * 100 + d + 10, 1, 1⟩, 0⟩ ∧
    tripleOK (dateTriple ⟨c * 100 + d, 1, 1⟩ ⟨c * 100 + d + 10, 1, 1⟩ 10 89)
      (some (formatDate ⟨c * 100 + d, 1, 1⟩)) (some (formatDate ⟨c * 100 + d + 10, 1, 1⟩)) = true ∧
    rangeOK ⟨⟨c * 100 + d, 1, 1⟩, 0⟩ ⟨⟨c * 100 + d + 10, 1, 1⟩, 0⟩ := by
  generalize hY : c * 100 + d = Y at *
  have vb := valid_jan1 Y (by omega) (by omega)
  have ve := valid_jan1 (Y + 10) (by omega) (by omega)
  refine ⟨?_, date_triple_ok _ _ vb ve 10 89 .Y (by simp) ⟨by simp only; omega, rfl, rfl⟩,
    vb, ve, ord_lt_of_lexLt _ _ vb ve (Or.inl (by simp)), ne_min_of_year _ (by simp only; omega), ne_min_of_year _ (by simp only; omega)⟩
  unfold decadeFixed
  have e0 : ((c : Int) * 100 + (d : Int)) = ((Y : Nat) : Int) := by omega
  have e1 : (((Y : Nat) : Int) + 10) = (((Y + 10 : Nat)) : Int) := by omega
  simp only [e0, show ((1 : Int) == 0) = false from rfl, Bool.false_eq_true, if_false, Int.natAbs_one, Bool.not_true, Bool.false_and,
    show (10 : Int) * ((1 : Nat) : Int) = 10 from rfl, e1, luis_some, mk_valid Y 1 1 vb, mk_valid (Y + 10) 1 1 ve, intStr10]
  simp [dateTriple]

/-- Without a century ("the nineties" asked in 2020): the TIMEX keeps the century open, the future value is the next
such decade, the past value the previous one; "the next decade" asked in 2020 is 2030–2040. -/
theorem decade_fixed_examples :
    decadeFixed ⟨⟨2020, 3, 15⟩, 36000⟩ (.bare 90) =
      .ok ("(XX90-01-01,XX100-01-01,P10Y)".toList.map Char.toNat) ⟨⟨2090, 1, 1⟩, 0⟩ ⟨⟨2100, 1, 1⟩, 0⟩ ⟨⟨1990, 1, 1⟩, 0⟩ ⟨⟨2000, 1, 1⟩, 0⟩ ∧
    decadeFixed ⟨⟨2020, 3, 15⟩, 36000⟩ (.relative 1) =
      .ok ("(2030-01-01,2040-01-01,P10Y)".toList.map Char.toNat) ⟨⟨2030, 1, 1⟩, 0⟩ ⟨⟨2040, 1, 1⟩, 0⟩ ⟨⟨2030, 1, 1⟩, 0⟩ ⟨⟨2040, 1, 1⟩, 0⟩ ∧
    decadeFixed ⟨⟨2020, 3, 15⟩, 36000⟩ (.relative (-2)) =
      .ok ("(2000-01-01,2020-01-01,P20Y)".toList.map Char.toNat) ⟨⟨2000, 1, 1⟩, 0⟩ ⟨⟨2020, 1, 1⟩, 0⟩ ⟨⟨2000, 1, 1⟩, 0⟩ ⟨⟨2020, 1, 1⟩, 0⟩ := by
  refine ⟨?_, ?_, ?_⟩ <;> decide +kernel

/-! ## `_parse_complex_date_period` -/

/-- "from May to July 2020" (no single date on either side; each side a month period as `_parse_one_word_period`
answers it for ANY reference: TIMEX without a `-W`, begin on the 1st of the month in whatever year; one year `Y` in the
text, 1000 ≤ Y ≤ 9999, `m1 < m2`): the result is `[1st of m1 in Y, 1st of m2 in Y)` in both values, TIMEX
`(Y-m1-01,Y-m2-01,P<m2−m1>M)`, `tripleOK` holds and the range is well formed. -/
theorem complex_months_year_context (Y m1 m2 : Nat) (hY1 : 1000 ≤ Y) (hY2 : Y ≤ 9999) (a1 : 1 ≤ m1) (a2 : m1 < m2) (a3 : m2 ≤ 12)
    (t1 t2 : Str) (v1 v2 : Vals) (mod1 mod2 : Str)
    (hw1 : hasSub (setTimexWithContext t1 (Y : Int)) [45, 87] = false) (hw2 : hasSub (setTimexWithContext t2 (Y : Int)) [45, 87] = false)
    (hf1 : v1.fb.date.m = m1 ∧ v1.fb.date.d = 1 ∧ v1.fb ≠ DateUtils.minValue) (hp1 : v1.pb.date.m = m1 ∧ v1.pb.date.d = 1 ∧ v1.pb ≠ DateUtils.minValue)
    (hf2 : v2.fb.date.m = m2 ∧ v2.fb.date.d = 1 ∧ v2.fb ≠ DateUtils.minValue) (hp2 : v2.pb.date.m = m2 ∧ v2.pb.date.d = 1 ∧ v2.pb ≠ DateUtils.minValue) :
    complexDatePeriod true (Y : Int) ⟨.noDate, .ok t1 (some v1) mod1⟩ ⟨.noDate, .ok t2 (some v2) mod2⟩ =
      .ok (dateTriple ⟨Y, m1, 1⟩ ⟨Y, m2, 1⟩ (m2 - m1) 77) ⟨⟨Y, m1, 1⟩, 0⟩ ⟨⟨Y, m2, 1⟩, 0⟩ ⟨⟨Y, m1, 1⟩, 0⟩ ⟨⟨Y, m2, 1⟩, 0⟩ ∧
    tripleOK (dateTriple ⟨Y, m1, 1⟩ ⟨Y, m2, 1⟩ (m2 - m1) 77) (some (formatDate ⟨Y, m1, 1⟩)) (some (formatDate ⟨Y, m2, 1⟩)) = true ∧
    rangeOK ⟨⟨Y, m1, 1⟩, 0⟩ ⟨⟨Y, m2, 1⟩, 0⟩ := by
  have ne : ctxEmpty (Y : Int) = false := by simp [ctxEmpty, invalidYear] <;> omega
  have w1 := valid_first Y m1 (by omega) hY2 a1 (by omega)
  have w2 := valid_first Y m2 (by omega) hY2 (by omega) a3
  have sd : ∀ (x : DateTime) (m : Nat), x.date.m = m ∧ x.date.d = 1 ∧ x ≠ DateUtils.minValue →
      (⟨Y, m, 1⟩ : Date).valid = true → setDateWithContext (Y : Int) x = ⟨⟨Y, m, 1⟩, 0⟩ := by
    intro x m hx hv
    unfold setDateWithContext
    rw [if_neg hx.2.2]
    simp only [show ((-1 : Int) == -1) = true from rfl, if_true, hx.1, hx.2.1]
    unfold safeCreateFromMinValue
    exact safeCreate_ymd _ _ _ hv
  have ff := first_to_first_ok Y m1 Y m2 (m2 - m1) (by omega) hY2 a1 (by omega) (by omega) a3 (by omega) (by omega)
  refine ⟨?_, ff.1, ff.2⟩
  have lt0 : DateTime.lt ⟨⟨Y, m2, 1⟩, 0⟩ ⟨⟨Y, m1, 1⟩, 0⟩ = false := by
    have := ff.2.2.2.1
    rw [← Bool.not_eq_true, lt_iff]; simp only at this ⊢; omega
  have cnt : Periods.intStr (((Y : Int) - (Y : Int)) * 12 + ((m2 : Int) - (m1 : Int))) = natStr (m2 - m1) := by
    unfold Periods.intStr; rw [if_neg (by omega)]; congr 1; omega
  unfold complexDatePeriod resolveEnd parseSingleTimePoint processDatePeriod
  simp only [Bool.not_true, Bool.false_eq_true, if_false, ne, sd _ _ hf1 w1, sd _ _ hp1 w1, sd _ _ hf2 w2, sd _ _ hp2 w2, hw1, hw2,
    Option.getD_some, lt0, Bool.or_self, Bool.or_false]
  unfold generateDatePeriodTimex
  simp only [beq_self_eq_true, if_true, show ((2 : Nat) == 0) = false from rfl, show ((2 : Nat) == 1) = false from rfl, Bool.false_eq_true,
    if_false, cnt, luisOf]
  simp [dateTriple]

/-- the hypotheses are met by what `_parse_one_word_period` answers for "may" / "july" -/
example : hasSub (setTimexWithContext ("XXXX-05".toList.map Char.toNat) 2020) [45, 87] = false := by decide

/-- Witnesses. (1) A week-of-month end under a year context ("from first week of may to second week of june 2020" asked
on 2019-03-15): month and day of the Mondays computed for 2019 (future) and 2018 (past) are COPIED into 2020 — neither
2020-05-06 nor 2020-05-07 is a Monday, the past value (2020-05-07) is not even the TIMEX's begin, and the week count is
the float `5.0` (the recorded finding `period2:complex:week-of-month-year-context`). (2) Without a year in the text the
period branch raises (`.get` on a list). (3) A complex match whose two sides resolve to nothing still "succeeds", with
the marker date on both ends. -/
theorem complex_witnesses :
    complexDatePeriod true 2020
        ⟨.noDate, .ok ("XXXX-05-W01".toList.map Char.toNat) (some ⟨⟨⟨2019, 5, 6⟩, 0⟩, ⟨⟨2019, 5, 13⟩, 0⟩, ⟨⟨2018, 5, 7⟩, 0⟩, ⟨⟨2018, 5, 14⟩, 0⟩⟩) []⟩
        ⟨.noDate, .ok ("XXXX-06-W02".toList.map Char.toNat) (some ⟨⟨⟨2019, 6, 10⟩, 0⟩, ⟨⟨2019, 6, 17⟩, 0⟩, ⟨⟨2018, 6, 11⟩, 0⟩, ⟨⟨2018, 6, 18⟩, 0⟩⟩) []⟩ =
      .ok ("(2020-05-06,2020-06-10,P5.0W)".toList.map Char.toNat) ⟨⟨2020, 5, 6⟩, 0⟩ ⟨⟨2020, 6, 10⟩, 0⟩ ⟨⟨2020, 5, 7⟩, 0⟩ ⟨⟨2020, 6, 11⟩, 0⟩ ∧
    (⟨2020, 5, 6⟩ : Date).isoWeekday = 3 ∧ (⟨2020, 5, 4⟩ : Date).isoWeekday = 1 ∧
    complexDatePeriod true invalidYear
        ⟨.noDate, .ok ("XXXX-05".toList.map Char.toNat) (some ⟨⟨⟨2019, 5, 1⟩, 0⟩, ⟨⟨2019, 6, 1⟩, 0⟩, ⟨⟨2018, 5, 1⟩, 0⟩, ⟨⟨2018, 6, 1⟩, 0⟩⟩) []⟩
        ⟨.noDate, .noResult⟩ = .raises ∧
    complexDatePeriod true 2020 ⟨.noDate, .noResult⟩ ⟨.noDate, .noResult⟩ =
      .ok ("(0001-01-01,0001-01-01,P0M)".toList.map Char.toNat) DateUtils.minValue DateUtils.minValue DateUtils.minValue DateUtils.minValue := by
  refine ⟨?_, ?_, ?_, ?_, ?_⟩ <;> decide +kernel

/-! ## `__parse_month_of_date`, `__parse_week_of_date` -/

/-- "the month of <date>": `[1st of the month, 1st of the next month)` for a seed in January … November of a year
1 … 9999. -/
theorem month_range_ok (seed : DateTime) (hv : seed.date.valid = true) (hm : seed.date.m ≤ 11) :
    monthRangeFromDate seed = (⟨⟨seed.date.y, seed.date.m, 1⟩, 0⟩, ⟨⟨seed.date.y, seed.date.m + 1, 1⟩, 0⟩) ∧
    (⟨seed.date.y, seed.date.m, 1⟩ : Date).ord < (⟨seed.date.y, seed.date.m + 1, 1⟩ : Date).ord := by
  have a := (valid_iff _).1 hv
  have w1 := valid_first seed.date.y seed.date.m a.1 a.2.1 a.2.2.1 (by omega)
  have w2 := valid_first seed.date.y (seed.date.m + 1) a.1 a.2.1 (by omega) (by omega)
  refine ⟨?_, ord_lt_of_lexLt _ _ w1 w2 (Or.inr ⟨rfl, Or.inl (by simp)⟩)⟩
  unfold monthRangeFromDate
  have := safeCreate_ymd _ _ _ w1
  have := safeCreate_ymd _ _ _ w2
  unfold safeCreateFromMinValue at *
  simp [*]

/-- … and for a seed in December the end is month 13 of the same year: not a date, the marker comes back
("month of december 15th 2020" is emitted as 'not resolved'). -/
theorem month_range_december (seed : DateTime) (hm : seed.date.m = 12) :
    (monthRangeFromDate seed).2 = DateUtils.minValue := by
  unfold monthRangeFromDate safeCreateFromValue
  have : isValidDate (seed.date.y : Int) (seed.date.m + 1) 1 = false := by
    have hv' : (⟨seed.date.y, seed.date.m + 1, 1⟩ : Date).valid = false := by
      rw [← Bool.not_eq_true, valid_iff]; simp only; omega
    unfold isValidDate
    simp [hv']
  simp [this]

/-! ## `inclusive_end_period` -/

/-- The flag off is the code modelled in `Periods`. -/
theorem inclusive_off (R : DateTime) (m : Nat) (y : Option Int) (sw : Int) (yr : Int) (c : Int) (ny : Bool) (mode : DurMode) (u : PerUnit) (n : Nat) :
    monthWithYearI false R m y sw = monthWithYear R m y sw ∧ parseYearI false yr = parseYear yr ∧
    getWeekOfMonthI false R c m yr ny = getWeekOfMonth R c m yr ny ∧ durationPeriodI false R mode u n = durationPeriod R mode u n := by
  refine ⟨rfl, rfl, rfl, ?_⟩
  unfold durationPeriodI
  cases durationPeriod R mode u n <;> rfl

/-- The flag on: a year is `[Jan 1, Dec 31]` (for every year 1 … 9998) -/
theorem parse_year_inclusive (y : Nat) (h1 : 1 ≤ y) (h2 : y ≤ 9998) :
    parseYearI true (y : Int) = .ok (pad4 y) ⟨⟨y, 1, 1⟩, 0⟩ ⟨⟨y, 12, 31⟩, 0⟩ ⟨⟨y, 1, 1⟩, 0⟩ ⟨⟨y, 12, 31⟩, 0⟩ := by
  have v0 := valid_jan1 y h1 (by omega)
  have v1 := valid_jan1 (y + 1) (by omega) (by omega)
  have vd := valid_dec31 y h1 (by omega)
  unfold parseYearI
  simp only [mk_valid y 1 1 v0, int_succ, mk_valid (y + 1) 1 1 v1, if_true, Int.toNat_natCast]
  have hd : addDelta ⟨⟨y + 1, 1, 1⟩, 0⟩ 0 0 (-1) = some ⟨⟨y, 12, 31⟩, 0⟩ := by
    rw [addDelta_days _ v1]
    unfold DateUtils.addDays
    have hs : (⟨y + 1, 1, 1⟩ : Date).addDays (-1) = some ⟨y, 12, 31⟩ := by
      have hsome := Date.addDays_isSome ⟨y + 1, 1, 1⟩ (-1) (by have := dec31_succ y h1; have := ord_range _ vd; omega)
        (by have := ord_range _ v1; omega)
      cases hq : (⟨y + 1, 1, 1⟩ : Date).addDays (-1) with
      | none => simp [hq] at hsome
      | some r =>
        have sp := Date.addDays_spec _ v1 (-1) r hq
        have := dec31_succ y h1
        rw [date_eq_of_ord r ⟨y, 12, 31⟩ sp.1 vd (by omega)]
    simp [hs]
  simp [hd, ofOpt]

end RTV.Periods2
