import RTV.Lemmas.Periods2
import RTV.Props.C10Periods
set_option linter.unusedVariables false
set_option linter.unusedSimpArgs false
/-!
# C10 / C11 / C08 for the rest of `BaseDatePeriodParser` and the `DateContext`

Theorems about `RTV.Model.Periods2` (tied to the real methods by `harness/lib/period2corr.py`), for every reference and every
input unless a guard is written out:

* month / year durations (`past | next | in  N months | years`): the EXACT set of references on which the emitted
  `(begin,end,P<N>M|Y)` triple is consistent (`duration_past_exact`, `duration_next_exact`, `duration_in_exact`);
* `DateContext`: `__set_date_with_context` never yields an invalid date — a 29 February under a context year without one
  becomes the marker `0001-01-01` (which the merged parser turns into 'not resolved'); `sync_year` gives valid dates;
* "from A to B <year>": both ends take the stated year, the triple is consistent, begin ≤ end is kept (no swap happens for a
  reversed pair — witness);
* the parse order: `firstSuccess` is the first success, an earlier exception escapes, and the order is observable;
* decades: the tree's `__parse_decade` never succeeds; the repaired computation gives `[Jan 1, Jan 1 + 10 years)` with a
  consistent `P10Y` triple;
* complex periods "from May to July 2020", the week-of-month defect (witness), `__parse_month_of_date` in December
  (witness), the `inclusive_end_period` flag.
-/
namespace RTV.Periods2
open RTV.Cal RTV.DateUtils RTV.WF RTV.Periods

/-! ## `_parse_duration` for months and years -/

/-- "past N months|years" (every reference, every N ≥ 1): `[R − N units, R]`, TIMEX `(begin,R,P<N>M|Y)`. The triple is
consistent EXACTLY when the shift keeps the day of the month: months — the reference's day exists in the month N months
back (otherwise `datedelta` clamps the begin to that month's last day); years — the reference is not a 29 February whose
target year has none (otherwise the begin is 28 February). -/
theorem duration_past_exact (u : PerUnit) (hu : u = .M ∨ u = .Y) (R : DateTime) (hv : R.date.valid = true) (n : Nat) (hn : 1 ≤ n)
    (t : Str) (b e pb pe : DateTime) (h : durationPeriod R .past u n = .ok t b e pb pe) :
    e = R ∧ pb = b ∧ pe = e ∧ b.date.valid = true ∧ b.secs = R.secs ∧ t = dateTriple b.date R.date n u.letter ∧
    (tripleOK t (some (formatDate b.date)) (some (formatDate R.date)) = true ↔ shiftKeeps u R.date (-(n : Int))) := by
  unfold durationPeriod at h
  simp only at h
  cases hs : swiftDate R u n false with
  | none => simp [hs, ofOpt] at h
  | some b0 =>
    have s := swiftDate_cal u hu R hv n hn false b0 hs
    by_cases hne : b0 = R
    · subst hne; simp [hs, ofOpt] at h
    · simp only [hs, Option.map_some, Option.bind_eq_bind, Option.bind_some, Option.pure_def, ofOpt, hne, ne_eq, not_false_eq_true, if_true,
        Option.getD_some, Res.ok.injEq, triple_tx] at h
      obtain ⟨ht, hb, he, hpb, hpe⟩ := h
      subst hb he hpb hpe
      refine ⟨rfl, rfl, rfl, s.1, s.2.1, ht.symm, ?_⟩
      rw [← ht, date_triple_iff _ _ s.1 hv n u.letter (calUnit u) (cal_letter u hu)]
      exact s.2.2.2 rfl

/-- "next N months|years": `[R + 1 day, (R + 1 day) + N units]`; consistent EXACTLY when the shift keeps the day of the
month of the BEGIN (the day after the reference): months — it exists in the month N months on (otherwise `datedelta`
rolls the end forward to the 1st of the following month: N + 1 calendar months); years — the begin is not a 29 February
whose target year has none (otherwise the end is 1 March). -/
theorem duration_next_exact (u : PerUnit) (hu : u = .M ∨ u = .Y) (R : DateTime) (hv : R.date.valid = true) (n : Nat) (hn : 1 ≤ n)
    (t : Str) (b e pb pe : DateTime) (h : durationPeriod R .next u n = .ok t b e pb pe) :
    pb = b ∧ pe = e ∧ b.date.valid = true ∧ e.date.valid = true ∧ (b.date.ord : Int) = R.date.ord + 1 ∧ b.secs = R.secs ∧ e.secs = R.secs ∧
    t = dateTriple b.date e.date n u.letter ∧
    (tripleOK t (some (formatDate b.date)) (some (formatDate e.date)) = true ↔ shiftKeeps u b.date n) := by
  unfold durationPeriod at h
  simp only at h
  cases h1 : DateUtils.addDays R 1 with
  | none => simp [h1, ofOpt] at h
  | some b0 =>
  have s1 := addDays_spec R hv 1 b0 h1
  cases hs : swiftDate b0 u n true with
  | none => simp [h1, hs, ofOpt] at h
  | some e0 =>
    have s := swiftDate_cal u hu b0 s1.1 n hn true e0 hs
    by_cases hne : b0 = e0
    · subst hne; simp [h1, hs, ofOpt] at h
    · simp only [h1, hs, Option.bind_eq_bind, Option.bind_some, Option.pure_def, ofOpt, hne, ne_eq, not_false_eq_true, if_true,
        Option.getD_some, Res.ok.injEq, triple_tx] at h
      obtain ⟨ht, hb, he, hpb, hpe⟩ := h
      subst hb he hpb hpe
      refine ⟨rfl, rfl, s1.1, s.1, s1.2.1, s1.2.2, by rw [s.2.1, s1.2.2], ht.symm, ?_⟩
      rw [← ht, date_triple_iff _ _ s1.1 s.1 n u.letter (calUnit u) (cal_letter u hu)]
      exact s.2.2.1 rfl

/-- "in N months|years": end = `(R + 1 day) + N units`, begin = end − 1 unit, TIMEX `(begin,end,P1M|Y)`; consistent
EXACTLY when the END's day of the month survives the step back by one unit. -/
theorem duration_in_exact (u : PerUnit) (hu : u = .M ∨ u = .Y) (R : DateTime) (hv : R.date.valid = true) (n : Nat) (hn : 1 ≤ n)
    (t : Str) (b e pb pe : DateTime) (h : durationPeriod R .inConn u n = .ok t b e pb pe) :
    pb = b ∧ pe = e ∧ b.date.valid = true ∧ e.date.valid = true ∧ b.secs = R.secs ∧ e.secs = R.secs ∧
    t = dateTriple b.date e.date 1 u.letter ∧
    (tripleOK t (some (formatDate b.date)) (some (formatDate e.date)) = true ↔ shiftKeeps u e.date (-1)) := by
  unfold durationPeriod at h
  simp only at h
  cases h1 : DateUtils.addDays R 1 with
  | none => simp [h1, ofOpt] at h
  | some b0 =>
  have s1 := addDays_spec R hv 1 b0 h1
  cases hs : swiftDate b0 u n true with
  | none => simp [h1, hs, ofOpt] at h
  | some e0 =>
  have s := swiftDate_cal u hu b0 s1.1 n hn true e0 hs
  cases hb : swiftDate e0 u 1 false with
  | none => simp [h1, hs, hb, ofOpt] at h
  | some b1 =>
    have sb := swiftDate_cal u hu e0 s.1 1 (by omega) false b1 hb
    by_cases hne : b1 = e0
    · subst hne; simp [h1, hs, hb, ofOpt] at h
    · simp only [h1, hs, hb, Option.bind_eq_bind, Option.bind_some, Option.pure_def, ofOpt, hne, ne_eq, not_false_eq_true, if_true,
        Option.getD_some, Res.ok.injEq, triple_tx] at h
      obtain ⟨ht, hb', he, hpb, hpe⟩ := h
      subst hb' he hpb hpe
      refine ⟨rfl, rfl, sb.1, s.1, by rw [sb.2.1, s.2.1, s1.2.2], by rw [s.2.1, s1.2.2], ht.symm, ?_⟩
      rw [← ht, date_triple_iff _ _ sb.1 s.1 1 u.letter (calUnit u) (cal_letter u hu)]
      exact sb.2.2.2 rfl


/-- Witnesses on both sides of the guards. Months are in `duration_months_witnesses` (Props/C10Periods). Years:
"next 1 year" asked on 2020-02-28 begins on 29 February 2020 and ends on 1 March 2021 — not a year apart by the
calendar; asked on 2020-02-27 it is consistent. -/
theorem duration_years_witnesses :
    (durationPeriod ⟨⟨2020, 2, 28⟩, 0⟩ .next .Y 1 =
        .ok ("(2020-02-29,2021-03-01,P1Y)".toList.map Char.toNat) ⟨⟨2020, 2, 29⟩, 0⟩ ⟨⟨2021, 3, 1⟩, 0⟩ ⟨⟨2020, 2, 29⟩, 0⟩ ⟨⟨2021, 3, 1⟩, 0⟩ ∧
      tripleOK ("(2020-02-29,2021-03-01,P1Y)".toList.map Char.toNat) (some ("2020-02-29".toList.map Char.toNat))
        (some ("2021-03-01".toList.map Char.toNat)) = false) ∧
    (durationPeriod ⟨⟨2020, 2, 29⟩, 0⟩ .past .Y 1 =
        .ok ("(2019-02-28,2020-02-29,P1Y)".toList.map Char.toNat) ⟨⟨2019, 2, 28⟩, 0⟩ ⟨⟨2020, 2, 29⟩, 0⟩ ⟨⟨2019, 2, 28⟩, 0⟩ ⟨⟨2020, 2, 29⟩, 0⟩ ∧
      tripleOK ("(2019-02-28,2020-02-29,P1Y)".toList.map Char.toNat) (some ("2019-02-28".toList.map Char.toNat))
        (some ("2020-02-29".toList.map Char.toNat)) = false) ∧
    (durationPeriod ⟨⟨2020, 2, 27⟩, 0⟩ .next .Y 1 =
        .ok ("(2020-02-28,2021-02-28,P1Y)".toList.map Char.toNat) ⟨⟨2020, 2, 28⟩, 0⟩ ⟨⟨2021, 2, 28⟩, 0⟩ ⟨⟨2020, 2, 28⟩, 0⟩ ⟨⟨2021, 2, 28⟩, 0⟩ ∧
      tripleOK ("(2020-02-28,2021-02-28,P1Y)".toList.map Char.toNat) (some ("2020-02-28".toList.map Char.toNat))
        (some ("2021-02-28".toList.map Char.toNat)) = true) := by
  refine ⟨⟨?_, ?_⟩, ⟨?_, ?_⟩, ⟨?_, ?_⟩⟩ <;> decide +kernel

/-- the guards are satisfiable on both sides: day 30 does not exist two months after December, day 28 always does -/
example : ¬ dayFits ⟨2019, 12, 31⟩ 2 ∧ dayFits ⟨2019, 12, 28⟩ 2 ∧ leapDayLost ⟨2020, 2, 29⟩ 1 ∧ ¬ leapDayLost ⟨2020, 2, 29⟩ 4 := by
  refine ⟨?_, ?_, ?_, ?_⟩ <;> simp only [dayFits, leapDayLost, shiftMonth] <;> decide

/-! ## `DateContext` -/

/-- `__set_date_with_context` never produces an invalid date, for any context year and any explicit year: the result is
the marker `min_value` (kept, or produced because month / day do not exist in the target year) or month / day of the
original in the target year. -/
theorem set_date_with_context_valid (c y : Int) (x : DateTime) :
    setDateWithContext c x y = DateUtils.minValue ∨
    ((setDateWithContext c x y).date.valid = true ∧ (setDateWithContext c x y).secs = 0 ∧
      ((setDateWithContext c x y).date.y : Int) = (if y == -1 then c else y) ∧
      (setDateWithContext c x y).date.m = x.date.m ∧ (setDateWithContext c x y).date.d = x.date.d) := by
  unfold setDateWithContext
  by_cases h : x = DateUtils.minValue
  · left; rw [if_pos h]; exact h
  · rw [if_neg h]
    generalize (if (y == -1) = true then c else y) = Y
    unfold safeCreateFromMinValue safeCreateFromValue
    by_cases v : isValidDate Y x.date.m x.date.d = true
    · right
      rw [if_pos v]
      unfold isValidDate at v
      simp only [Bool.and_eq_true, decide_eq_true_eq] at v
      exact ⟨v.2, rfl, by simp only; omega, rfl, rfl⟩
    · left; rw [if_neg v]

/-- A 29 February under a context year that has none becomes the marker (for every non-leap year) — the TIMEX then
carries `P X D` and the merged parser writes 'not resolved' (`period_invalid_end_filtered`, Props/C11). -/
theorem feb29_nonleap_context_is_marker (Y : Nat) (hl : isLeap Y = false) (x : DateTime) (hm : x.date.m = 2) (hd : x.date.d = 29) :
    setDateWithContext (Y : Int) x = DateUtils.minValue := by
  unfold setDateWithContext
  by_cases h : x = DateUtils.minValue
  · rw [if_pos h]; exact h
  · rw [if_neg h]
    simp only [show ((-1 : Int) == -1) = true from rfl, if_true, hm, hd]
    unfold safeCreateFromMinValue
    exact safeCreate_invalid _ _ _ (invalid_feb29 _ (by rw [isLeapYear_eq]; exact hl))

/-- "from February 29 to March 3 2019": begin is the marker, the TIMEX `(2019-02-29,2019-03-03,PXD)`. -/
theorem feb29_nonleap_witness :
    mergeCtx false 2019 ⟨"XXXX-02-29".toList.map Char.toNat, ⟨⟨2020, 2, 29⟩, 0⟩, ⟨⟨2016, 2, 29⟩, 0⟩⟩
        ⟨"XXXX-03-03".toList.map Char.toNat, ⟨⟨2020, 3, 3⟩, 0⟩, ⟨⟨2019, 3, 3⟩, 0⟩⟩ =
      .ok ("(2019-02-29,2019-03-03,PXD)".toList.map Char.toNat) DateUtils.minValue ⟨⟨2019, 3, 3⟩, 0⟩ DateUtils.minValue ⟨⟨2019, 3, 3⟩, 0⟩ := by
  decide +kernel

/-- `sync_year` (no year in the text, the first date is a 29 February): the second date is moved into the leap years of
the first one's future / past values and is a valid date there, whatever its month and day. -/
theorem sync_year_valid (r1 r2 : DateRes) (v1 : r1.future.date.valid = true) (f1 : isFeb29 r1.future = true)
    (vp : r1.past.date.valid = true) (fp : isFeb29 r1.past = true)
    (v2 : r2.future.date.valid = true) (w2 : r2.past.date.valid = true)
    (n2 : r2.future ≠ DateUtils.minValue) (m2 : r2.past ≠ DateUtils.minValue) :
    (syncYear invalidYear r1 r2).1 = r1 ∧
    (syncYear invalidYear r1 r2).2.future = ⟨⟨r1.future.date.y, r2.future.date.m, r2.future.date.d⟩, 0⟩ ∧
    (syncYear invalidYear r1 r2).2.past = ⟨⟨r1.past.date.y, r2.past.date.m, r2.past.date.d⟩, 0⟩ ∧
    (syncYear invalidYear r1 r2).2.future.date.valid = true ∧ (syncYear invalidYear r1 r2).2.past.date.valid = true := by
  simp only [isFeb29, Bool.and_eq_true, beq_iff_eq] at f1 fp
  have l1 := feb29_leap _ v1 f1.1 f1.2
  have lp := feb29_leap _ vp fp.1 fp.2
  have a1 := (valid_iff _).1 v1
  have ap := (valid_iff _).1 vp
  have vf : (⟨r1.future.date.y, r2.future.date.m, r2.future.date.d⟩ : Date).valid = true :=
    valid_in_leap r2.future.date.y _ _ _ v2 l1 a1.1 a1.2.1
  have vq : (⟨r1.past.date.y, r2.past.date.m, r2.past.date.d⟩ : Date).valid = true :=
    valid_in_leap r2.past.date.y _ _ _ w2 lp ap.1 ap.2.1
  have e1 : ((r1.future.date.y : Int) == -1) = false := by simp <;> omega
  have e2 : ((r1.past.date.y : Int) == -1) = false := by simp <;> omega
  have hs : syncYear invalidYear r1 r2 =
      (r1, ⟨r2.timex, ⟨⟨r1.future.date.y, r2.future.date.m, r2.future.date.d⟩, 0⟩,
                      ⟨⟨r1.past.date.y, r2.past.date.m, r2.past.date.d⟩, 0⟩⟩) := by
    unfold syncYear
    simp only [ctxEmpty, beq_self_eq_true, if_true, isFeb29, f1.1, f1.2, Bool.and_self, syncYearResolution, setDateWithContext,
      n2, m2, if_false, e1, e2, Bool.false_eq_true]
    rw [safeCreate_ymd _ _ _ vf, safeCreate_ymd _ _ _ vq]
  rw [hs]
  exact ⟨rfl, rfl, rfl, vf, vq⟩

/-! ## `_merge_two_times_points` with a year in the text -/

/-- "from <month day> to <month day> <year>" (every year 1000..9999, every ordered pair of days that exist in it; the
two dates as the date parser resolved them — any future / past years, `XXXX-MM-DD`): BOTH ends take the stated year in
the future and in the past value, the TIMEX is `(Y-MM-DD,Y-MM-DD,P<days>D)`, `tripleOK` holds, and with begin < end the
range is well formed. -/
theorem merge_year_context_ordered (Y m1 d1 m2 d2 : Nat) (hY1 : 1000 ≤ Y) (hY2 : Y ≤ 9999)
    (v1 : (⟨Y, m1, d1⟩ : Date).valid = true) (v2 : (⟨Y, m2, d2⟩ : Date).valid = true)
    (hle : (⟨Y, m1, d1⟩ : Date).ord ≤ (⟨Y, m2, d2⟩ : Date).ord)
    (f1 p1 f2 p2 : DateTime)
    (hf1 : f1.date.m = m1 ∧ f1.date.d = d1 ∧ f1 ≠ DateUtils.minValue) (hp1 : p1.date.m = m1 ∧ p1.date.d = d1 ∧ p1 ≠ DateUtils.minValue)
    (hf2 : f2.date.m = m2 ∧ f2.date.d = d2 ∧ f2 ≠ DateUtils.minValue) (hp2 : p2.date.m = m2 ∧ p2.date.d = d2 ∧ p2 ≠ DateUtils.minValue) :
    mergeCtx false (Y : Int) ⟨luis none m1 d1, f1, p1⟩ ⟨luis none m2 d2, f2, p2⟩ =
      .ok (dayTriple ⟨Y, m1, d1⟩ ⟨Y, m2, d2⟩) ⟨⟨Y, m1, d1⟩, 0⟩ ⟨⟨Y, m2, d2⟩, 0⟩ ⟨⟨Y, m1, d1⟩, 0⟩ ⟨⟨Y, m2, d2⟩, 0⟩ ∧
    tripleOK (dayTriple ⟨Y, m1, d1⟩ ⟨Y, m2, d2⟩) (some (formatDate ⟨Y, m1, d1⟩)) (some (formatDate ⟨Y, m2, d2⟩)) = true ∧
    ((⟨Y, m1, d1⟩ : Date).ord < (⟨Y, m2, d2⟩ : Date).ord → rangeOK ⟨⟨Y, m1, d1⟩, 0⟩ ⟨⟨Y, m2, d2⟩, 0⟩) := by
  have ne : ctxEmpty (Y : Int) = false := by simp [ctxEmpty, invalidYear] <;> omega
  have sd : ∀ (x : DateTime) (m d : Nat), x.date.m = m ∧ x.date.d = d ∧ x ≠ DateUtils.minValue →
      (⟨Y, m, d⟩ : Date).valid = true → setDateWithContext (Y : Int) x = ⟨⟨Y, m, d⟩, 0⟩ := by
    intro x m d hx hv
    unfold setDateWithContext
    rw [if_neg hx.2.2]
    simp only [show ((-1 : Int) == -1) = true from rfl, if_true, hx.1, hx.2.1]
    unfold safeCreateFromMinValue
    exact safeCreate_ymd _ _ _ hv
  have nb : ∀ m d, (⟨Y, m, d⟩ : Date) ≠ ⟨1, 1, 1⟩ := by intro m d h; injection h with h; omega
  have md := merge_definite_ok ⟨Y, m1, d1⟩ ⟨Y, m2, d2⟩ v1 v2 hle (nb _ _) (nb _ _)
  refine ⟨?_, md.2.1, md.2.2⟩
  rw [← md.1]
  unfold mergeCtx processDateEntity
  simp only [ne, Bool.false_eq_true, if_false, Bool.false_and, setTimex_noYear Y _ _ hY1 hY2,
    sd f1 m1 d1 hf1 v1, sd p1 m1 d1 hp1 v1, sd f2 m2 d2 hf2 v2, sd p2 m2 d2 hp2 v2]

/-- The documented non-swap: with a year in the text BOTH candidates of the begin are the same date of that year, so a
reversed pair stays reversed ("from July 5 to June 2 2020" → begin after end, `P-33D`); and `str(year)` writes a year
below 1000 with fewer than four digits. -/
theorem merge_year_context_witnesses :
    mergeCtx false 2020 ⟨"XXXX-07-05".toList.map Char.toNat, ⟨⟨2019, 7, 5⟩, 0⟩, ⟨⟨2018, 7, 5⟩, 0⟩⟩
        ⟨"XXXX-06-02".toList.map Char.toNat, ⟨⟨2019, 6, 2⟩, 0⟩, ⟨⟨2018, 6, 2⟩, 0⟩⟩ =
      .ok ("(2020-07-05,2020-06-02,P-33D)".toList.map Char.toNat) ⟨⟨2020, 7, 5⟩, 0⟩ ⟨⟨2020, 6, 2⟩, 0⟩ ⟨⟨2020, 7, 5⟩, 0⟩ ⟨⟨2020, 6, 2⟩, 0⟩ ∧
    setTimexWithContext ("XXXX-05-02".toList.map Char.toNat) 999 = "999-05-02".toList.map Char.toNat ∧
    mergeCtx true 2020 ⟨[], DateUtils.minValue, DateUtils.minValue⟩ ⟨[], DateUtils.minValue, DateUtils.minValue⟩ = .raises := by
  refine ⟨?_, ?_, ?_⟩ <;> decide +kernel

/-- The year scan: one year, or the same year twice, is the context; two different years give none — and a third
occurrence is taken again (quirk of the reset). -/
theorem year_context_fold_facts (a b : Int) (ha : a ≠ invalidYear) (hb : b ≠ invalidYear) (hab : a ≠ b) :
    yearContextFold [] = invalidYear ∧ yearContextFold [a] = a ∧ yearContextFold [a, a] = a ∧
    yearContextFold [a, b] = invalidYear ∧ yearContextFold [a, b, a] = a ∧ yearContextFold [invalidYear, a] = a := by
  have e1 : (a != invalidYear) = true := by simpa using ha
  have e2 : (b != invalidYear) = true := by simpa using hb
  have e3 : (a != b) = true := by simpa using hab
  have e4 : (b != a) = true := by simpa using (Ne.symm hab)
  simp [yearContextFold, e1, e2, e3, e4, ha, hb, hab, Ne.symm hab]

end RTV.Periods2
