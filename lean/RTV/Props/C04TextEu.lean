import RTV.Props.C04Text
import RTV.Props.C04Big2
/-!
# C04 — Spanish, French, German: from the SURFACE TEXT to the value (audit item 14)

`spellEu <c>Spell n` / `spellOrdEu <c>Ord n` (RTV/Model/SpellEu.lean) carry the written form `.1` AND the token list
`.2` that `text_number_regex` yields for it.  Where `.2` is not simply the written words — German compounds
(`hundertzweite` → `hundert`, `zwei`: the ordinal ending is lost inside a compound), the French plural `cents` that is no
key (`deux cents` → `deux`), Spanish `decimoséptimo` (no token at all) — the list is NOT a free choice of the
specification: this file evaluates the tokeniser MODEL (`RTV.NumFrac.textTokens` on the alternation of the real pattern,
`alts_are_pattern`) on the written form and obtains exactly `.2`:

* `<c>_tokens_sample`, `<c>_ord_tokens_sample`: `textTokens (…).1 = (…).2` for every numeral of `euSample` (0 … 99, the
  round hundreds, and seven remainders after every hundred: 187 numerals) — cardinals and ordinals of es-es, fr-fr,
  de-de.  A SAMPLE by kernel evaluation (≈ 0.15 s per numeral); every other numeral's tie is checked against the REAL
  tokeniser by the harness on every run (`tokenise-<culture>` in harness/corr/c04.py, lib/numbigcorr.py, lib/numordcorr.py);
* `<c>_text_sample`, `<c>_ord_text_sample`: hence `getIntValue (textTokens text) = n` on the sample (with the exact guards
  of the token-level theorems);
* the losses, as statements about the tokeniser: `french_cents_lost_by_tokeniser`, `german_ordinal_ending_lost_by_tokeniser`,
  `spanish_decimoseptimo_not_tokenised`.
What `german_ordinal_sub1000` / `dutch_ordinal_sub1000` (`RTV.Props.C04Big2`) therefore say for compound ordinals
(`n ≥ 100`, or `n ≥ 13` with a unit): the value of the token list the tokeniser yields — cardinal stems — equals `n`; the
ordinal READING of the ending plays no part in it.  pt-br, it-it, nl-nl: the tokeniser model is not tied for these
cultures (`nf.tok` runs en-us, es-es, fr-fr, de-de); their `.2` lists are tied to the real tokeniser by the harness only.
-/
namespace RTV.Num
open RTV.Py RTV.NumFrac

set_option maxRecDepth 100000

/-- 0 … 99, the round hundreds, and the remainders 1, 11, 17, 21, 43, 80, 99 after every hundred -/
def euSample : List Nat := List.range 100 ++ (List.range 9).map (fun h => (h + 1) * 100) ++
  (List.range 9).flatMap fun h => [1, 11, 17, 21, 43, 80, 99].map fun r => (h + 1) * 100 + r

theorem euSample_lt : ∀ n ∈ euSample, n < 1000 := by decide +kernel

/-- tokeniser(written form) = the specification's token list -/
def tokAgree (alts : List Str) (loose : Bool) (f : Nat → Str × List Str) (ns : List Nat) : Bool :=
  ns.all fun n => textTokens tokT alts loose (f n).1 == (f n).2

theorem tokAgree_at {alts : List Str} {loose : Bool} {f : Nat → Str × List Str} {ns : List Nat}
    (h : tokAgree alts loose f ns = true) (n : Nat) (hn : n ∈ ns) : textTokens tokT alts loose (f n).1 = (f n).2 := by
  have := List.all_eq_true.1 h n hn
  simpa using this

/-! ### cardinals -/

theorem es_tokens_sample : tokAgree RTV.Gen.NumAlts.es RTV.Gen.NumAlts.esLoose (spellEu esSpell) euSample = true := by
  decide +kernel
theorem fr_tokens_sample : tokAgree RTV.Gen.NumAlts.fr RTV.Gen.NumAlts.frLoose (spellEu frSpell) euSample = true := by
  decide +kernel
theorem de_tokens_sample : tokAgree RTV.Gen.NumAlts.de RTV.Gen.NumAlts.deLoose (spellEu deSpell) euSample = true := by
  decide +kernel

/-- Spanish, from the text -/
theorem spanish_text_sample (n : Nat) (hn : n ∈ euSample) :
    getIntValue true asciiDigits es.lang (textTokens tokT esFrac.alts esFrac.loose (spellEu esSpell n).1) = .ok n := by
  obtain ⟨_, _, ha, hl, _⟩ := alts_are_pattern
  rw [ha, hl, tokAgree_at es_tokens_sample n hn]
  exact spanish_sub1000 n (euSample_lt n hn)

/-- German, from the text (compounds: the boundary-free alternative splits `neunhundertneunundneunzig`) -/
theorem german_text_sample (n : Nat) (hn : n ∈ euSample) :
    getIntValue true asciiDigits de.lang (textTokens tokT deFrac.alts deFrac.loose (spellEu deSpell n).1) = .ok n := by
  obtain ⟨_, _, _, _, _, _, ha, hl⟩ := alts_are_pattern
  rw [ha, hl, tokAgree_at de_tokens_sample n hn]
  exact german_sub1000 n (euSample_lt n hn)

/-- French, from the text, with the exact guard of `french_sub1000_partial` -/
theorem french_text_sample_partial (n : Nat) (hn : n ∈ euSample) (hg : ¬ (n % 100 = 0 ∧ 200 ≤ n)) :
    getIntValue true asciiDigits fr.lang (textTokens tokT frFrac.alts frFrac.loose (spellEu frSpell n).1) = .ok n := by
  obtain ⟨_, _, _, _, ha, hl, _⟩ := alts_are_pattern
  rw [ha, hl, tokAgree_at fr_tokens_sample n hn]
  exact french_sub1000_partial n (euSample_lt n hn) hg

/-- the loss behind `french_plural_cents_witness` is the TOKENISER's: the written form is `deux cents`, the tokeniser
model yields `deux` (`cents` is no key of the French maps) and the value read from the text is 2 -/
theorem french_cents_lost_by_tokeniser :
    (spellEu frSpell 200).1 = [100, 101, 117, 120, 32, 99, 101, 110, 116, 115] ∧
    textTokens tokT frFrac.alts frFrac.loose (spellEu frSpell 200).1 = [[100, 101, 117, 120]] ∧
    getIntValue true asciiDigits fr.lang (textTokens tokT frFrac.alts frFrac.loose (spellEu frSpell 200).1) = .ok 2 := by
  decide +kernel

/-! ### ordinals -/

theorem es_ord_tokens_sample :
    tokAgree RTV.Gen.NumAlts.es RTV.Gen.NumAlts.esLoose (spellOrdEu esOrd) euSample = true := by decide +kernel
theorem fr_ord_tokens_sample :
    tokAgree RTV.Gen.NumAlts.fr RTV.Gen.NumAlts.frLoose (spellOrdEu frOrd) euSample = true := by decide +kernel
theorem de_ord_tokens_sample :
    tokAgree RTV.Gen.NumAlts.de RTV.Gen.NumAlts.deLoose (spellOrdEu deOrd) euSample = true := by decide +kernel

/-- German ordinals, from the text: the value of what the tokeniser yields for `zweihundertdreiundvierzigste` is 243 -/
theorem german_ord_text_sample (n : Nat) (hn : n ∈ euSample) (h1 : 1 ≤ n) :
    getIntValue true asciiDigits de.lang (textTokens tokT deFrac.alts deFrac.loose (spellOrdEu deOrd n).1) = .ok n := by
  obtain ⟨_, _, _, _, _, _, ha, hl⟩ := alts_are_pattern
  rw [ha, hl, tokAgree_at de_ord_tokens_sample n hn]
  exact german_ordinal_sub1000 n h1 (euSample_lt n hn)

/-- French ordinals, from the text -/
theorem french_ord_text_sample (n : Nat) (hn : n ∈ euSample) (h1 : 1 ≤ n) :
    getIntValue true asciiDigits fr.lang (textTokens tokT frFrac.alts frFrac.loose (spellOrdEu frOrd n).1) = .ok n := by
  obtain ⟨_, _, _, _, ha, hl, _⟩ := alts_are_pattern
  rw [ha, hl, tokAgree_at fr_ord_tokens_sample n hn]
  exact french_ordinal_sub1000 n h1 (euSample_lt n hn)

/-- Spanish ordinals, from the text, with the exact guard of `spanish_ordinal_sub1000_partial` -/
theorem spanish_ord_text_sample_partial (n : Nat) (hn : n ∈ euSample) (h1 : 1 ≤ n) (hg : n % 100 ≠ 17) :
    getIntValue true asciiDigits es.lang (textTokens tokT esFrac.alts esFrac.loose (spellOrdEu esOrd n).1) = .ok n := by
  obtain ⟨_, _, ha, hl, _⟩ := alts_are_pattern
  rw [ha, hl, tokAgree_at es_ord_tokens_sample n hn]
  exact spanish_ordinal_sub1000_partial n h1 (euSample_lt n hn) hg

/-- inside a German compound the ordinal ending is lost BY THE TOKENISER: `hundertzweite` → `hundert`, `zwei` (the key
`zwei` is found first; `te` is no key); the simple ordinal `zweite` is one token -/
theorem german_ordinal_ending_lost_by_tokeniser :
    (spellOrdEu deOrd 102).1 = [104, 117, 110, 100, 101, 114, 116, 122, 119, 101, 105, 116, 101] ∧
    textTokens tokT deFrac.alts deFrac.loose (spellOrdEu deOrd 102).1 =
      [[104, 117, 110, 100, 101, 114, 116], [122, 119, 101, 105]] ∧
    textTokens tokT deFrac.alts deFrac.loose (spellOrdEu deOrd 2).1 = [[122, 119, 101, 105, 116, 101]] := by
  decide +kernel

/-- `decimoséptimo` yields NO token (finding `es-es:ordinal:decimoseptimo:value`): the empty `.2` of the specification is
what the tokeniser model gives for the written form -/
theorem spanish_decimoseptimo_not_tokenised :
    (spellOrdEu esOrd 17).1 = [100, 101, 99, 105, 109, 111, 115, 233, 112, 116, 105, 109, 111] ∧
    textTokens tokT esFrac.alts esFrac.loose (spellOrdEu esOrd 17).1 = [] := by decide +kernel

end RTV.Num
