import RTV.Lemmas.DtPeriod
set_option linter.unusedVariables false
set_option linter.unusedSimpArgs false
/-!
# C10 / C11 for `BaseDateTimePeriodParser` — what the date-time period parser computes

Theorems about `RTV.Model.DtPeriod` (the computations of `base_datetimeperiod.py` with the sub-results of the date /
time / duration parsers as inputs; tied to the real methods by `harness/lib/dtperiodcorr.py`). For every reference and
every admissible input they state: both ends are proper datetimes, begin ≤ end, and a definite `(start,end,PT…)` TIMEX
satisfies `RTV.WF.tripleOK` against the strings `parse` writes (`format_date_time` of the values = `fmtDT`).
Where the code yields end < begin, or a TIMEX that disagrees with its values, the exact condition is stated, the
rejection is proved in general where feasible, and a witness is proved by `decide` (each witness is an input the
pipeline check replays on the implementation: classes `dtperiod:*:reversed`, `dtperiod:date+period:cross-midnight`).
-/
namespace RTV.DtPeriod
open RTV.Cal RTV.DateUtils RTV.WF RTV.Periods

private def S (s : String) : Str := s.toList.map Char.toNat

/-! ## `parse_relative_unit` ("next hour", "last minute", "rest of the day") -/

/-- "next / last hour | minute | second", for EVERY reference: both ends are proper datetimes exactly one unit apart,
one of them is the reference (the begin for "next", the end for "last"), future = past, and the TIMEX
`(begin,end,PT1<U>)` is consistent with the resolved values. -/
theorem relative_unit_ok (R : DateTime) (hR : proper R) (u : RelUnit) (hu : u ≠ .D) (past : Bool)
    (t : Str) (fb fe pb pe : DateTime) (h : relativeUnit R u past = .ok t fb fe pb pe) :
    pb = fb ∧ pe = fe ∧ proper fb ∧ proper fe ∧ val fe - val fb = u.seconds ∧
    (if past then fe = R else fb = R) ∧
    tripleOK t (some (fmtDT fb)) (some (fmtDT fe)) = true := by
  have hk : ∃ k : Nat, u.seconds = (k : Int) ∧ 0 < k ∧
      (if u.letter = 72 then some 3600 else if u.letter = 77 then some 60 else if u.letter = 83 then some 1 else none) = some k := by
    cases u
    · exact absurd rfl hu
    · exact ⟨3600, rfl, by omega, rfl⟩
    · exact ⟨60, rfl, by omega, rfl⟩
    · exact ⟨1, rfl, by omega, rfl⟩
  obtain ⟨k, hk1, hk0, hk2⟩ := hk
  -- the two ends
  have hends : ∃ b e, (if past then addSeconds R (-u.seconds) else some R) = some b ∧
      (if past then some R else addSeconds R u.seconds) = some e ∧
      t = triple (luisPoint b) (luisPoint e) [80, 84, 49, u.letter] ∧ fb = b ∧ fe = e ∧ pb = b ∧ pe = e := by
    unfold relativeUnit at h
    cases u
    · exact absurd rfl hu
    all_goals
      simp only [ofOpt] at h
      cases hb : (if past = true then addSeconds R (-_) else some R) with
      | none => simp [hb] at h
      | some b =>
        cases he : (if past = true then some R else addSeconds R _) with
        | none => simp [hb, he] at h
        | some e =>
          simp [hb, he] at h
          exact ⟨b, e, rfl, rfl, h.1.symm, h.2.1.symm, h.2.2.1.symm, h.2.2.2.1.symm, h.2.2.2.2.symm⟩
  obtain ⟨b, e, hb, he, ht, q1, q2, q3, q4⟩ := hends
  rw [q1, q2, q3, q4]
  have pbe : proper b ∧ proper e ∧ val e - val b = u.seconds ∧ (if past then e = R else b = R) := by
    cases past with
    | true =>
      simp only [if_true, Option.some.injEq] at hb he
      have s := addSeconds_spec R hR.1 _ b hb
      subst he
      refine ⟨⟨s.1, s.2.1⟩, hR, ?_, rfl⟩
      unfold val; omega
    | false =>
      simp only [Bool.false_eq_true, if_false, Option.some.injEq] at hb he
      have s := addSeconds_spec R hR.1 _ e he
      subst hb
      refine ⟨hR, ⟨s.1, s.2.1⟩, ?_, rfl⟩
      unfold val; omega
  refine ⟨rfl, rfl, pbe.1, pbe.2.1, pbe.2.2.1, pbe.2.2.2, ?_⟩
  have lb := luisPoint_parse b pbe.1
  have le := luisPoint_parse e pbe.2.1
  have pt := ptSeconds_single 1 k u.letter hk2
  have e1 : (natStr 1 ++ [u.letter] : Str) = [49, u.letter] := by
    have : natStr 1 = [49] := by decide
    rw [this]; rfl
  rw [e1] at pt
  have hr : ∀ c ∈ ([49, u.letter] : Str), c ≠ 44 := by
    intro c hc; simp only [List.mem_cons, List.mem_nil_iff, or_false] at hc
    rcases hc with hc | hc
    · omega
    · cases u <;> simp [RelUnit.letter] at hc <;> omega
  have key := tripleOK_PT (luisPoint b) (luisPoint e) [49, u.letter] _ _ _ _ lb.2.2 le.2.2 hr lb.1 le.1 lb.2.1 le.2.1
    (1 * k) pt (by simp) (by
      have := pbe.2.2.1
      unfold val at this
      unfold diffSeconds; simp only
      congr 1; omega)
  rw [ht]
  simpa [triple] using key

/-- "rest of the day", for EVERY reference: from the reference to 23:59:59 of the same day (begin ≤ end, same date),
and the TIMEX `(begin,end,PT<n>S)` is consistent with the resolved values. -/
theorem rest_of_day_ok (R : DateTime) (hR : proper R) (past : Bool) :
    ∃ t, relativeUnit R .D past = .ok t R ⟨R.date, 86399⟩ R ⟨R.date, 86399⟩ ∧
      val R ≤ val ⟨R.date, 86399⟩ ∧
      tripleOK t (some (fmtDT R)) (some (fmtDT ⟨R.date, 86399⟩)) = true := by
  refine ⟨_, rfl, by unfold val; have := hR.2; simp only; omega, ?_⟩
  have hE : proper ⟨R.date, 86399⟩ := ⟨hR.1, by simp⟩
  have lb := luisPoint_parse R hR
  have le := luisPoint_parse ⟨R.date, 86399⟩ hE
  have pt := ptSeconds_single (86399 - R.secs) 1 83 rfl
  have hr : ∀ c ∈ (natStr (86399 - R.secs) ++ [83] : Str), c ≠ 44 := by
    intro c hc; simp only [List.mem_append, List.mem_singleton] at hc
    rcases hc with hc | hc
    · have := natStr_digits _ c hc; simp [isDigit] at this; omega
    · omega
  have key := tripleOK_PT (luisPoint R) (luisPoint ⟨R.date, 86399⟩) _ _ _ _ _ lb.2.2 le.2.2 hr lb.1 le.1 lb.2.1 le.2.1
    ((86399 - R.secs) * 1) pt (by simp) (by
      have := hR.2
      unfold diffSeconds; simp only
      congr 1; omega)
  simpa [triple] using key

example : relativeUnit ⟨⟨2019, 6, 12⟩, 37815⟩ .H true =
    .ok (S "(2019-06-12T09:30:15,2019-06-12T10:30:15,PT1H)") ⟨⟨2019, 6, 12⟩, 34215⟩ ⟨⟨2019, 6, 12⟩, 37815⟩
      ⟨⟨2019, 6, 12⟩, 34215⟩ ⟨⟨2019, 6, 12⟩, 37815⟩ := by decide
/-- "next hour" at 23:30 on New Year's Eve ends next year -/
example : relativeUnit ⟨⟨2019, 12, 31⟩, 84600⟩ .H false =
    .ok (S "(2019-12-31T23:30:00,2020-01-01T00:30:00,PT1H)") ⟨⟨2019, 12, 31⟩, 84600⟩ ⟨⟨2020, 1, 1⟩, 1800⟩
      ⟨⟨2019, 12, 31⟩, 84600⟩ ⟨⟨2020, 1, 1⟩, 1800⟩ := by decide
/-- outside the calendar the Python code raises OverflowError -/
example : relativeUnit ⟨⟨9999, 12, 31⟩, 84600⟩ .H false = .raises := by decide

/-! ## the part-of-day table, `parse_specific_time_of_day` -/

/-- seconds since midnight of the two ends of a (possibly early / late) part of day -/
def todSecs (v : TimeRange) : Nat × Nat := (v.beginHour * 3600, v.endHour * 3600 + v.endMin * 60 + v.endMin)

/-- Every part of day, with or without early / late, lies **inside one day**: begin < end ≤ 23:59:59, hours and
minutes in range (so `safe_create_from_min_value` never falls back to the minimum value); none crosses midnight. -/
theorem part_of_day_inside_one_day : ∀ (tod : Tod) (early late : Bool),
    let v := earlyLate tod.range early late
    v.beginHour < 24 ∧ v.endHour < 24 ∧ v.endMin < 60 ∧ (todSecs v).1 < (todSecs v).2 ∧ (todSecs v).2 < 86400 := by
  intro tod early late
  cases tod <;> cases early <;> cases late <;> decide

/-- the table itself: morning 08–12, afternoon 12–16, evening 16–20, night 20–23:59:59 — consecutive, covering 08:00 to
the end of the day -/
theorem part_of_day_table :
    todSecs Tod.morning.range = (28800, 43200) ∧ todSecs Tod.afternoon.range = (43200, 57600) ∧
    todSecs Tod.evening.range = (57600, 72000) ∧ todSecs Tod.night.range = (72000, 86399) := by decide

/-- "early" is the first two hours, "late" starts two hours in and keeps the end; `early night` ends at 22:00:00 sharp
(the `:59:59` is reset), `late night` is 22:00–23:59:59. -/
theorem early_late_halves : ∀ (tod : Tod),
    todSecs (earlyLate tod.range true false) = ((todSecs tod.range).1, (todSecs tod.range).1 + 7200) ∧
    todSecs (earlyLate tod.range false true) = ((todSecs tod.range).1 + 7200, (todSecs tod.range).2) ∧
    earlyLate tod.range true true = earlyLate tod.range true false := by
  intro tod
  cases tod <;> decide

theorem todBegin_ok (d : Date) (hv : d.valid = true) (tod : Tod) (early late : Bool) :
    todBegin d (earlyLate tod.range early late) = ⟨d, (todSecs (earlyLate tod.range early late)).1⟩ ∧
    todEnd d (earlyLate tod.range early late) = ⟨d, (todSecs (earlyLate tod.range early late)).2⟩ := by
  have h := part_of_day_inside_one_day tod early late
  simp only at h
  unfold todBegin todEnd todSecs
  rw [withTime_ok d hv _ _ _ h.1 (by omega), withTime_ok d hv _ _ _ h.2.1 h.2.2.1]
  simp

/-- "this / next / last morning|afternoon|evening|night", "tonight", for EVERY reference: the range lies on the day
`reference + swift` (−1, 0, +1 day), begin < end on that same day, both proper datetimes, future = past, and the TIMEX is
that day's date followed by the part-of-day code. -/
theorem specific_time_of_day_ok (R : DateTime) (hR : proper R) (swift : Int) (tod : Tod) (early late : Bool)
    (t : Str) (fb fe pb pe : DateTime) (h : specificTimeOfDay R swift tod early late = .ok t fb fe pb pe) :
    ∃ d : Date, d.valid = true ∧ (d.ord : Int) = R.date.ord + swift ∧
      t = formatDate d ++ tod.range.timeStr ∧
      fb = ⟨d, (todSecs (earlyLate tod.range early late)).1⟩ ∧ fe = ⟨d, (todSecs (earlyLate tod.range early late)).2⟩ ∧
      pb = fb ∧ pe = fe ∧ proper fb ∧ proper fe ∧ val fb < val fe := by
  unfold specificTimeOfDay at h
  cases hx : addDays R swift with
  | none => simp [hx] at h
  | some x =>
    have sp := addDays_spec R hR.1 swift x hx
    simp only [hx, Res.ok.injEq] at h
    have tb := todBegin_ok x.date sp.1 tod early late
    rw [tb.1, tb.2] at h
    have hb := part_of_day_inside_one_day tod early late
    simp only at hb
    refine ⟨x.date, sp.1, sp.2.1, ?_, h.2.1.symm, h.2.2.1.symm, ?_, ?_, ?_, ?_, ?_⟩
    · rw [← h.1]
      cases tod <;> cases early <;> cases late <;> rfl
    · rw [← h.2.2.2.1, ← h.2.1]
    · rw [← h.2.2.2.2, ← h.2.2.1]
    · rw [← h.2.1]; exact ⟨sp.1, by simp only; omega⟩
    · rw [← h.2.2.1]; exact ⟨sp.1, by simp only; omega⟩
    · rw [← h.2.1, ← h.2.2.1]; unfold val; simp only; omega

/-- a part of day on a date resolved by the date parser ("Tuesday morning", "June 5 in the evening"): the result does
not depend on the reference at all beyond the date parser's two candidates, each range lies on its candidate's day, and
a definite date (future = past candidate) gives future = past. -/
theorem date_time_of_day_ok (fd pd : DateTime) (hf : fd.date.valid = true) (hp : pd.date.valid = true) (tx : Str)
    (tod : Tod) (early late : Bool) :
    dateTimeOfDay fd pd tx tod early late =
      .ok (tx ++ tod.range.timeStr)
        ⟨fd.date, (todSecs (earlyLate tod.range early late)).1⟩ ⟨fd.date, (todSecs (earlyLate tod.range early late)).2⟩
        ⟨pd.date, (todSecs (earlyLate tod.range early late)).1⟩ ⟨pd.date, (todSecs (earlyLate tod.range early late)).2⟩ ∧
    (todSecs (earlyLate tod.range early late)).1 < (todSecs (earlyLate tod.range early late)).2 ∧
    (todSecs (earlyLate tod.range early late)).2 < 86400 := by
  have hb := part_of_day_inside_one_day tod early late
  simp only at hb
  refine ⟨?_, hb.2.2.2.1, hb.2.2.2.2⟩
  unfold dateTimeOfDay
  simp only [(todBegin_ok fd.date hf tod early late).1, (todBegin_ok fd.date hf tod early late).2,
    (todBegin_ok pd.date hp tod early late).1, (todBegin_ok pd.date hp tod early late).2, Res.ok.injEq, and_true]
  cases tod <;> cases early <;> cases late <;> rfl

example : specificTimeOfDay ⟨⟨2019, 12, 31⟩, 37815⟩ 1 .night false false =
    .ok (S "2020-01-01TNI") ⟨⟨2020, 1, 1⟩, 72000⟩ ⟨⟨2020, 1, 1⟩, 86399⟩ ⟨⟨2020, 1, 1⟩, 72000⟩ ⟨⟨2020, 1, 1⟩, 86399⟩ := by decide
example : specificTimeOfDay ⟨⟨2020, 3, 1⟩, 0⟩ (-1) .afternoon false true =
    .ok (S "2020-02-29TAF") ⟨⟨2020, 2, 29⟩, 50400⟩ ⟨⟨2020, 2, 29⟩, 57600⟩ ⟨⟨2020, 2, 29⟩, 50400⟩ ⟨⟨2020, 2, 29⟩, 57600⟩ := by decide
/-- the specific-period variant writes its hours unpadded: `T9`, which is not a TIMEX time (nothing can be demanded of
the triple: its points are not definite) -/
example : (match dateTimeOfDayPeriod ⟨⟨2019, 6, 5⟩, 0⟩ ⟨⟨2019, 6, 5⟩, 0⟩ (S "2019-06-05") .morning false false
      ⟨⟨2019, 6, 12⟩, 32400⟩ ⟨⟨2019, 6, 12⟩, 39600⟩ ⟨⟨2019, 6, 12⟩, 32400⟩ ⟨⟨2019, 6, 12⟩, 39600⟩ with
    | .ok t _ _ _ _ => t | _ => []) = S "(2019-06-05T9,2019-06-05T11,PT2H)" := by decide

/-! ## `parse_simple_cases` ("from 3 to 5 pm tomorrow", "between 3 and 5 on June 20") -/

/-- am/pm inference: with "pm" every hour up to 12 lands in 12..23 (12 stays 12); with "am" every hour of the day lands
in 0..11 (12 becomes 0); without either nothing moves. -/
theorem fold_hours_spec (bh eh : Nat) :
    foldHours bh eh false false = (bh, eh) ∧
    (bh ≤ 12 → eh ≤ 12 → 12 ≤ (foldHours bh eh false true).1 ∧ (foldHours bh eh false true).1 < 24 ∧
      12 ≤ (foldHours bh eh false true).2 ∧ (foldHours bh eh false true).2 < 24 ∧
      (foldHours bh eh false true).1 % 12 = bh % 12 ∧ (foldHours bh eh false true).2 % 12 = eh % 12) ∧
    (bh < 24 → eh < 24 → (foldHours bh eh true false).1 < 12 ∧ (foldHours bh eh true false).2 < 12 ∧
      (foldHours bh eh true false).1 % 12 = bh % 12 ∧ (foldHours bh eh true false).2 % 12 = eh % 12) := by
  refine ⟨rfl, ?_, ?_⟩
  · intro h1 h2
    simp only [foldHours, Bool.false_eq_true, if_false, if_true]
    split <;> split <;> omega
  · intro h1 h2
    simp only [foldHours, Bool.false_eq_true, if_false, if_true]
    split <;> split <;> omega

theorem ptSeconds_minus (f : Nat) (r : Str) : ptSeconds (f + 1) (45 :: r) = none := by
  simp [ptSeconds, spanDigits, isDigit, digits]

/-- The hour pair on a definite date `d` (the date parser's TIMEX is `YYYY-MM-DD`, future = past = that day), for ALL
hours and flags: with `(b, e)` the hours after am/pm folding, `b ≤ e < 24`: the range is `[d b:00, d e:00]`, begin ≤ end,
reference-independent (no reference enters), and the TIMEX `(dTb,dTe,PT(e−b)H)` is consistent with the values. -/
theorem simple_cases_ok (bh0 eh0 : Nat) (isAm isPm : Bool) (fd pd : DateTime) (d : Date) (hv : d.valid = true)
    (hf : fd.date = d) (hp : pd.date = d) (b e : Nat) (hfold : foldHours bh0 eh0 isAm isPm = (b, e))
    (hle : b ≤ e) (he : e < 24) :
    ∃ t, (simpleCases bh0 eh0 isAm isPm fd pd (formatDate d)).1 =
        .ok t ⟨d, b * 3600⟩ ⟨d, e * 3600⟩ ⟨d, b * 3600⟩ ⟨d, e * 3600⟩ ∧
      tripleOK t (some (formatDateTime d b 0 0)) (some (formatDateTime d e 0 0)) = true := by
  have hb : b < 24 := by omega
  have e1 : ((e : Int) - b) = ((e - b : Nat) : Int) := by omega
  refine ⟨(triple (formatDate d ++ [84] ++ pad2w b) (formatDate d ++ [84] ++ pad2w e) ([80, 84] ++ intStr ((e : Int) - b) ++ [72])), ?_, ?_⟩
  · simp only [simpleCases, hfold, hf, hp, withTime_ok d hv _ 0 0 hb (by omega), withTime_ok d hv _ 0 0 he (by omega)]
    simp
  · have pb := hourPoint_parse d hv b hb
    have pe := hourPoint_parse d hv e he
    have pt := ptSeconds_single (e - b) 3600 72 rfl
    have hr : ∀ c ∈ (natStr (e - b) ++ [72] : Str), c ≠ 44 := by
      intro c hc; simp only [List.mem_append, List.mem_singleton] at hc
      rcases hc with hc | hc
      · have := natStr_digits _ c hc; simp [isDigit] at this; omega
      · omega
    have key := tripleOK_PT _ _ _ _ _ _ _ pb.2.2 pe.2.2 hr pb.1 pe.1 pb.2.1 pe.2.1 ((e - b) * 3600) pt (by simp) (by
      unfold diffSeconds; simp only
      congr 1; omega)
    have w1 : pad2w b = pad2 b := by unfold pad2w; rw [if_pos (by omega)]
    have w2 : pad2w e = pad2 e := by unfold pad2w; rw [if_pos (by omega)]
    rw [e1, intStr_natCast, w1, w2]
    simpa [triple] using key

/-- … and exactly when the folded end hour is SMALLER than the begin hour (nothing in the code rolls the day or refuses
the pair) the emitted range has its end before its begin and the TIMEX carries a negative duration `PT-kH`, which the
triple predicate rejects — for ALL such hours and every date. -/
theorem simple_cases_reversed_rejected (bh0 eh0 : Nat) (isAm isPm : Bool) (fd pd : DateTime) (d : Date) (hv : d.valid = true)
    (hf : fd.date = d) (hp : pd.date = d) (b e : Nat) (hfold : foldHours bh0 eh0 isAm isPm = (b, e))
    (hlt : e < b) (hb : b < 24) :
    ∃ t, (simpleCases bh0 eh0 isAm isPm fd pd (formatDate d)).1 =
        .ok t ⟨d, b * 3600⟩ ⟨d, e * 3600⟩ ⟨d, b * 3600⟩ ⟨d, e * 3600⟩ ∧
      val ⟨d, e * 3600⟩ < val ⟨d, b * 3600⟩ ∧
      tripleOK t (some (formatDateTime d b 0 0)) (some (formatDateTime d e 0 0)) = false := by
  have he : e < 24 := by omega
  have e1 : intStr ((e : Int) - b) = 45 :: natStr (b - e) := by
    unfold intStr
    rw [if_pos (by omega)]
    have : ((e : Int) - b).natAbs = b - e := by omega
    rw [this]; rfl
  refine ⟨(triple (formatDate d ++ [84] ++ pad2w b) (formatDate d ++ [84] ++ pad2w e) ([80, 84] ++ intStr ((e : Int) - b) ++ [72])), ?_, by unfold val; simp only; omega, ?_⟩
  · simp only [simpleCases, hfold, hf, hp, withTime_ok d hv _ 0 0 hb (by omega), withTime_ok d hv _ 0 0 he (by omega)]
    simp
  · have pb := hourPoint_parse d hv b hb
    have pe := hourPoint_parse d hv e he
    have hr : ∀ c ∈ (45 :: natStr (b - e) ++ [72] : Str), c ≠ 44 := by
      intro c hc; simp only [List.cons_append, List.mem_cons, List.mem_append, List.mem_singleton, List.not_mem_nil, or_false] at hc
      rcases hc with hc | hc | hc
      · omega
      · have := natStr_digits _ c hc; simp [isDigit] at this; omega
      · omega
    have hx : (45 :: natStr (b - e) ++ [72] : Str).contains 88 = false := by
      rw [Bool.eq_false_iff]
      intro hc
      rw [List.contains_iff_mem] at hc
      simp only [List.cons_append, List.mem_cons, List.mem_append, List.mem_singleton, List.not_mem_nil, or_false] at hc
      rcases hc with hc | hc | hc
      · omega
      · have := natStr_digits _ _ hc; simp [isDigit] at this
      · omega
    have key := tripleOK_PT_malformed _ _ _ _ _ (formatDateTime d b 0 0) (formatDateTime d e 0 0) pb.2.2 pe.2.2 hr pb.1 pe.1
      (ptSeconds_minus _ _) hx
    have w1 : pad2w b = pad2 b := by unfold pad2w; rw [if_pos (by omega)]
    have w2 : pad2w e = pad2 e := by unfold pad2w; rw [if_pos (by omega)]
    rw [e1, w1, w2]
    simpa [triple] using key

/-- witnesses (replayed on the implementation by the pipeline check, class `dtperiod:hour-pair:reversed`):
"from 11 to 1 pm tomorrow" read by `parse_simple_cases` is 23:00 → 13:00, "from 9 to 2 tomorrow" is 09:00 → 02:00 -/
theorem simple_cases_reversed_witness :
    (simpleCases 11 1 false true ⟨⟨2019, 6, 13⟩, 0⟩ ⟨⟨2019, 6, 13⟩, 0⟩ (S "2019-06-13")).1 =
      .ok (S "(2019-06-13T23,2019-06-13T13,PT-10H)") ⟨⟨2019, 6, 13⟩, 82800⟩ ⟨⟨2019, 6, 13⟩, 46800⟩
        ⟨⟨2019, 6, 13⟩, 82800⟩ ⟨⟨2019, 6, 13⟩, 46800⟩ ∧
    tripleOK (S "(2019-06-13T23,2019-06-13T13,PT-10H)") (some (S "2019-06-13 23:00:00")) (some (S "2019-06-13 13:00:00")) = false ∧
    (simpleCases 9 2 false false ⟨⟨2019, 6, 13⟩, 0⟩ ⟨⟨2019, 6, 13⟩, 0⟩ (S "2019-06-13")) =
      (.ok (S "(2019-06-13T09,2019-06-13T02,PT-7H)") ⟨⟨2019, 6, 13⟩, 32400⟩ ⟨⟨2019, 6, 13⟩, 7200⟩
        ⟨⟨2019, 6, 13⟩, 32400⟩ ⟨⟨2019, 6, 13⟩, 7200⟩, true) := by decide

/-- an hour 24 ("from 22 to 24 tomorrow") is not a time: the end falls back to the minimum value 0001-01-01 -/
example : (simpleCases 22 24 false false ⟨⟨2019, 6, 13⟩, 0⟩ ⟨⟨2019, 6, 13⟩, 0⟩ (S "2019-06-13")).1 =
    .ok (S "(2019-06-13T22,2019-06-13T24,PT2H)") ⟨⟨2019, 6, 13⟩, 79200⟩ ⟨⟨1, 1, 1⟩, 0⟩ ⟨⟨2019, 6, 13⟩, 79200⟩ ⟨⟨1, 1, 1⟩, 0⟩ := by
  decide

/-! ## `parse_duration` ("last 3 hours", "next 20 minutes", "within 5 hours") -/

def noFlags : DurFlags := ⟨false, false, false, false, false, false, false⟩

/-- the prefix test before the duration ("last / past / previous N <unit>") or the same test after it -/
def isPast (f : DurFlags) : Prop := f = { noFlags with prevBefore := true } ∨ f = { noFlags with prevAfter := true }

/-- "next N", "within N", "within the next N", "N <unit> hence / in the future" -/
def isFuture (f : DurFlags) : Prop :=
  f = { noFlags with withinBefore := true } ∨ f = { noFlags with futureBefore := true } ∨
  f = { noFlags with futureAfter := true } ∨ f = { noFlags with futureSuffixAfter := true } ∨
  f = { noFlags with withinBefore := true, futureBefore := true }

/-- "last / past / previous N <unit>", for EVERY reference and N: the range ends at the reference and begins N units
earlier; both ends proper; the TIMEX `(begin,end,PT<N><U>)` is consistent with the values. -/
theorem parse_duration_past (R : DateTime) (hR : proper R) (n k u : Nat)
    (hu : (if u = 72 then some 3600 else if u = 77 then some 60 else if u = 83 then some 1 else none) = some k)
    (f : DurFlags) (hf : isPast f) (t : Str) (fb fe pb pe : DateTime)
    (h : parseDuration R (n * k) ([80, 84] ++ natStr n ++ [u]) f = .ok t fb fe pb pe) :
    fe = R ∧ proper fb ∧ val R - val fb = ((n * k : Nat) : Int) ∧ pb = fb ∧ pe = fe ∧
    tripleOK t (some (fmtDT fb)) (some (fmtDT fe)) = true := by
  have h' : pastRes R (n * k) ([80, 84] ++ natStr n ++ [u]) = .ok t fb fe pb pe := by
    rcases hf with hf | hf <;> subst hf
    · rw [← h]; exact (pd_prevBefore R _ _).symm
    · rw [← h]; exact (pd_prevAfter R _ _).symm
  unfold pastRes at h'
  cases hb : addSeconds R (-((n * k : Nat) : Int)) with
  | none => rw [hb] at h'; simp [ofOpt] at h'
  | some b =>
    have sp := addSeconds_spec R hR.1 _ b hb
    have hv : val R - val b = ((n * k : Nat) : Int) := by unfold val; omega
    have hp : proper b := ⟨sp.1, sp.2.1⟩
    have key := points_triple b R hp hR n k u hu
    rw [decide_eq_true hv] at key
    rw [hb] at h'
    simp only [Option.bind_some, ofOpt, Option.getD_some, Res.ok.injEq] at h'
    obtain ⟨h1, h2, h3, h4, h5⟩ := h'
    subst h1 h2 h3 h4 h5
    exact ⟨rfl, hp, hv, rfl, rfl, key⟩

/-- "next N <unit>", "within (the next) N <unit>", "N <unit> hence / in the future": the range begins at the reference
and ends N units later; consistent triple. -/
theorem parse_duration_future (R : DateTime) (hR : proper R) (n k u : Nat)
    (hu : (if u = 72 then some 3600 else if u = 77 then some 60 else if u = 83 then some 1 else none) = some k)
    (f : DurFlags) (hf : isFuture f) (t : Str) (fb fe pb pe : DateTime)
    (h : parseDuration R (n * k) ([80, 84] ++ natStr n ++ [u]) f = .ok t fb fe pb pe) :
    fb = R ∧ proper fe ∧ val fe - val R = ((n * k : Nat) : Int) ∧ pb = fb ∧ pe = fe ∧
    tripleOK t (some (fmtDT fb)) (some (fmtDT fe)) = true := by
  have h' : futureRes R (n * k) ([80, 84] ++ natStr n ++ [u]) = .ok t fb fe pb pe := by
    rcases hf with hf | hf | hf | hf | hf <;> subst hf
    · rw [← h]; exact (pd_within R _ _).symm
    · rw [← h]; exact (pd_future R _ _).symm
    · rw [← h]; exact (pd_futureAfter R _ _).symm
    · rw [← h]; exact (pd_futureSuffix R _ _).symm
    · rw [← h]; exact (pd_withinNext R _ _).symm
  unfold futureRes at h'
  cases he : addSeconds R ((n * k : Nat) : Int) with
  | none => rw [he] at h'; simp [ofOpt] at h'
  | some e =>
    have sp := addSeconds_spec R hR.1 _ e he
    have hv : val e - val R = ((n * k : Nat) : Int) := by unfold val; omega
    have hp : proper e := ⟨sp.1, sp.2.1⟩
    have key := points_triple R e hR hp n k u hu
    rw [decide_eq_true hv] at key
    rw [he] at h'
    simp only [Option.bind_some, ofOpt, Option.getD_some, Res.ok.injEq] at h'
    obtain ⟨h1, h2, h3, h4, h5⟩ := h'
    subst h1 h2 h3 h4 h5
    exact ⟨rfl, hp, hv, rfl, rfl, key⟩

/-- … and when NONE of the prefix / suffix tests succeeds (a duration next to a word the tests do not know — this is
how "in den nächsten 3 Stunden" is resolved by the cultures whose tests are not ported: recorded C10 findings) the
method still succeeds: begin = end = the reference, while the TIMEX carries the duration — a triple that the predicate
rejects whenever the duration is not zero. For EVERY reference, N and unit. -/
theorem parse_duration_no_prefix_rejected (R : DateTime) (hR : proper R) (n k u : Nat)
    (hu : (if u = 72 then some 3600 else if u = 77 then some 60 else if u = 83 then some 1 else none) = some k)
    (hn : 0 < n * k) :
    ∃ t, parseDuration R (n * k) ([80, 84] ++ natStr n ++ [u]) noFlags = .ok t R R R R ∧
      tripleOK t (some (fmtDT R)) (some (fmtDT R)) = false := by
  refine ⟨triple (luisPoint R) (luisPoint R) ([80, 84] ++ natStr n ++ [u]), pd_none R _ _, ?_⟩
  rw [points_triple R R hR hR n k u hu]
  simp only [Int.sub_self, decide_eq_false_iff_not]
  omega

example : parseDuration ⟨⟨2019, 6, 12⟩, 37815⟩ 10800 (S "PT3H") { noFlags with prevBefore := true } =
    .ok (S "(2019-06-12T07:30:15,2019-06-12T10:30:15,PT3H)") ⟨⟨2019, 6, 12⟩, 27015⟩ ⟨⟨2019, 6, 12⟩, 37815⟩
      ⟨⟨2019, 6, 12⟩, 27015⟩ ⟨⟨2019, 6, 12⟩, 37815⟩ := by decide
/-- "previous 36 hours" crosses two midnights -/
example : parseDuration ⟨⟨2020, 3, 1⟩, 37815⟩ 129600 (S "PT36H") { noFlags with prevBefore := true } =
    .ok (S "(2020-02-28T22:30:15,2020-03-01T10:30:15,PT36H)") ⟨⟨2020, 2, 28⟩, 81015⟩ ⟨⟨2020, 3, 1⟩, 37815⟩
      ⟨⟨2020, 2, 28⟩, 81015⟩ ⟨⟨2020, 3, 1⟩, 37815⟩ := by decide +kernel

/-! ## `merge_two_time_points` ("from <date> <time> to <date> <time>", "from <date> <time> to <time>", …) -/

theorem lt_false_of_val (b e : DateTime) (hb : proper b) (he : proper e) (h : val b ≤ val e) : e.lt b = false := by
  rw [Bool.eq_false_iff, ne_eq, lt_iff]
  have := hb.2; have := he.2
  unfold val at h
  omega

/-- **Both ends dated, definite, in order.** The two date-time parsers returned the same value as future and past
candidate (`b`, `e`) with TIMEX texts that read as exactly those points; then for ALL such points with `b` before `e`:
the emitted range is `(b, e)` for future and past alike (no reference enters: definite ranges are
reference-independent), and the TIMEX `(t1,t2,luis_time_span)` is consistent with the values. -/
theorem merge_both_ok (t1 t2 : Str) (b e : DateTime) (c1 c2 : Bool) (hb : proper b) (he : proper e)
    (n1 : ∀ x ∈ t1, x ≠ 44) (n2 : ∀ x ∈ t2, x ≠ 44)
    (hp1 : parsePoint t1 = some (some b.date, some b.secs)) (hp2 : parsePoint t2 = some (some e.date, some e.secs))
    (hlt : val b < val e) :
    (mergeTwoTimePoints .both b b t1 e e t2 c1 c2).1 = .ok (triple t1 t2 (luisSpan b e)) b e b e ∧
    tripleOK (triple t1 t2 (luisSpan b e)) (some (fmtDT b)) (some (fmtDT e)) = true := by
  refine ⟨?_, span_triple_ok t1 t2 b e _ _ n1 n2 hp1 hp2 (fmtPoint_dt _ _) (fmtPoint_dt _ _) hlt⟩
  simp only [mergeTwoTimePoints, lt_false_of_val b e hb he (by omega), Bool.false_eq_true, if_false]

/-- the two swap rules of the dated case, for ALL inputs: the future begin is replaced by the past begin exactly when
it lies after the future end, the past end by the future end exactly when it lies before the past begin. The future
pair is then in order iff `future_begin ≤ future_end` or `past_begin ≤ future_end`. -/
theorem merge_both_swap (fb pb fe pe : DateTime) (t1 t2 : Str) (c1 c2 : Bool) :
    ∃ t, (mergeTwoTimePoints .both fb pb t1 fe pe t2 c1 c2).1 =
      .ok t (if fe.lt fb then pb else fb) fe pb (if pe.lt pb then fe else pe) := ⟨_, rfl⟩

/-- **Begin dated, end a clock time, in order**: the end is put on the begin's date. `d` = the date of the first point
(definite: future = past), `sb < se` the two times of day, `tt1` / `tt2` the time parts of the two TIMEX texts
(`THH`, `THH:MM`, `THH:MM:SS`); the time parser's own date for the second point (the reference day) does not matter. -/
theorem merge_begin_date_ok (d : Date) (hv : d.valid = true) (tt1 tt2 f1 f2 : Str) (sb se : Nat) (hse : se < 86400)
    (h1 : timexTime (84 :: tt1) = some f1) (p1 : parseTime f1 = some sb) (l1 : 2 ≤ tt1.length) (n1 : ∀ x ∈ tt1, x ≠ 44)
    (h2 : timexTime (84 :: tt2) = some f2) (p2 : parseTime f2 = some se) (l2 : 2 ≤ tt2.length) (n2 : ∀ x ∈ tt2, x ≠ 44)
    (fe pe : DateTime) (hfe : fe.secs = se) (hpe : pe.secs = se) (c1 c2 : Bool) (hlt : sb < se) :
    (mergeTwoTimePoints .beginHasDate ⟨d, sb⟩ ⟨d, sb⟩ (formatDate d ++ 84 :: tt1) fe pe (84 :: tt2) c1 c2).1 =
      .ok (triple (formatDate d ++ 84 :: tt1) (formatDate d ++ 84 :: tt2) (luisSpan ⟨d, sb⟩ ⟨d, se⟩))
        ⟨d, sb⟩ ⟨d, se⟩ ⟨d, sb⟩ ⟨d, se⟩ ∧
    tripleOK (triple (formatDate d ++ 84 :: tt1) (formatDate d ++ 84 :: tt2) (luisSpan ⟨d, sb⟩ ⟨d, se⟩))
      (some (fmtDT ⟨d, sb⟩)) (some (fmtDT ⟨d, se⟩)) = true := by
  have q1 := parsePoint_dt d hv tt1 f1 l1 h1
  have q2 := parsePoint_dt d hv tt2 f2 l2 h2
  rw [p1] at q1; rw [p2] at q2
  refine ⟨?_, span_triple_ok _ _ ⟨d, sb⟩ ⟨d, se⟩ _ _ (no_comma_formatDate_T d tt1 n1) (no_comma_formatDate_T d tt2 n2) q1 q2
    (fmtPoint_dt _ _) (fmtPoint_dt _ _) (by unfold val; simp only; omega)⟩
  have w1 := withTime_of d hv fe (by omega)
  have w2 := withTime_of d hv pe (by omega)
  simp only [mergeTwoTimePoints, w1, w2, hfe, hpe, splitT_formatDate]

/-- **The defect, as witnesses** (each replayed on the implementation by the pipeline check, classes
`dtperiod:begin-date:reversed`, `dtperiod:end-date:reversed`, `dtperiod:both-dates:same-day:reversed`): when the end
clock time is not after the begin clock time nothing rolls the end to the next day; the end lies BEFORE the begin, the
duration is written with a negative hour count, and the triple is rejected.
"from tomorrow 11pm to 2am" (reference 2019-06-12 10:30:15; the time parser puts 2am on the reference day): -/
theorem merge_begin_date_reversed_witness :
    (mergeTwoTimePoints .beginHasDate ⟨⟨2019, 6, 13⟩, 82800⟩ ⟨⟨2019, 6, 13⟩, 82800⟩ (S "2019-06-13T23")
        ⟨⟨2019, 6, 12⟩, 7200⟩ ⟨⟨2019, 6, 12⟩, 7200⟩ (S "T02") false false).1 =
      .ok (S "(2019-06-13T23,2019-06-13T02,PT-21H)") ⟨⟨2019, 6, 13⟩, 82800⟩ ⟨⟨2019, 6, 13⟩, 7200⟩
        ⟨⟨2019, 6, 13⟩, 82800⟩ ⟨⟨2019, 6, 13⟩, 7200⟩ ∧
    tripleOK (S "(2019-06-13T23,2019-06-13T02,PT-21H)") (some (S "2019-06-13 23:00:00")) (some (S "2019-06-13 02:00:00")) = false := by
  decide

/-- "from 5pm to tomorrow 3pm": the begin is put on the END's date, after the end -/
theorem merge_end_date_reversed_witness :
    (mergeTwoTimePoints .endHasDate ⟨⟨2019, 6, 12⟩, 61200⟩ ⟨⟨2019, 6, 12⟩, 61200⟩ (S "T17")
        ⟨⟨2019, 6, 13⟩, 54000⟩ ⟨⟨2019, 6, 13⟩, 54000⟩ (S "2019-06-13T15") false false).1 =
      .ok (S "(2019-06-13T17,2019-06-13T15,PT-2H)") ⟨⟨2019, 6, 13⟩, 61200⟩ ⟨⟨2019, 6, 13⟩, 54000⟩
        ⟨⟨2019, 6, 13⟩, 61200⟩ ⟨⟨2019, 6, 13⟩, 54000⟩ ∧
    tripleOK (S "(2019-06-13T17,2019-06-13T15,PT-2H)") (some (S "2019-06-13 17:00:00")) (some (S "2019-06-13 15:00:00")) = false := by
  decide

/-- "from tomorrow 9pm to tomorrow 5:15pm": a span of −3 h 45 min is printed as `PT-4H15M` -/
theorem merge_both_reversed_witness :
    (mergeTwoTimePoints .both ⟨⟨2019, 6, 13⟩, 75600⟩ ⟨⟨2019, 6, 13⟩, 75600⟩ (S "2019-06-13T21")
        ⟨⟨2019, 6, 13⟩, 62100⟩ ⟨⟨2019, 6, 13⟩, 62100⟩ (S "2019-06-13T17:15") false false).1 =
      .ok (S "(2019-06-13T21,2019-06-13T17:15,PT-4H15M)") ⟨⟨2019, 6, 13⟩, 75600⟩ ⟨⟨2019, 6, 13⟩, 62100⟩
        ⟨⟨2019, 6, 13⟩, 75600⟩ ⟨⟨2019, 6, 13⟩, 62100⟩ ∧
    tripleOK (S "(2019-06-13T21,2019-06-13T17:15,PT-4H15M)") (some (S "2019-06-13 21:00:00")) (some (S "2019-06-13 17:15:00")) = false := by
  decide

/-- equal end points give the empty duration `PT`, which the predicate rejects as well (recorded finding `…T04,…T04,PT`) -/
example : luisSpan ⟨⟨2019, 6, 13⟩, 3600⟩ ⟨⟨2019, 6, 13⟩, 3600⟩ = S "PT" := by decide

/-- an ordered dated pair over several days: "between jan 1 2018 3pm and jan 3 2018 4:30:20pm" -/
example : (mergeTwoTimePoints .both ⟨⟨2018, 1, 1⟩, 54000⟩ ⟨⟨2018, 1, 1⟩, 54000⟩ (S "2018-01-01T15")
      ⟨⟨2018, 1, 3⟩, 59420⟩ ⟨⟨2018, 1, 3⟩, 59420⟩ (S "2018-01-03T16:30:20") false false).1 =
    .ok (S "(2018-01-01T15,2018-01-03T16:30:20,PT49H30M20S)") ⟨⟨2018, 1, 1⟩, 54000⟩ ⟨⟨2018, 1, 3⟩, 59420⟩
      ⟨⟨2018, 1, 1⟩, 54000⟩ ⟨⟨2018, 1, 3⟩, 59420⟩ := by decide

/-! ## `merge_date_and_time_periods`: a time period on a date -/

/-- **The defect, as witness** (class `dtperiod:date+period:cross-midnight`): "tomorrow from 10pm to 1am" — the time
period parser resolves 22:00 → 01:00 as three hours across midnight (`(T22,T01,PT3H)`), the date-time period parser
puts BOTH ends on the one date: the end lies 21 hours before the begin while the TIMEX says three hours after. -/
theorem date_period_cross_midnight_witness :
    (mergeDateAndTimePeriod ⟨⟨2019, 6, 13⟩, 0⟩ ⟨⟨2019, 6, 13⟩, 0⟩ (S "2019-06-13") (S "(T22,T01,PT3H)")
        ⟨⟨2019, 6, 12⟩, 79200⟩ ⟨⟨2019, 6, 12⟩, 3600⟩ false).1 =
      .ok (S "(2019-06-13T22,2019-06-13T01,PT3H)") ⟨⟨2019, 6, 13⟩, 79200⟩ ⟨⟨2019, 6, 13⟩, 3600⟩
        ⟨⟨2019, 6, 13⟩, 79200⟩ ⟨⟨2019, 6, 13⟩, 3600⟩ ∧
    tripleOK (S "(2019-06-13T22,2019-06-13T01,PT3H)") (some (S "2019-06-13 22:00:00")) (some (S "2019-06-13 01:00:00")) = false := by
  decide

/-- what the method computes from a clean time-period triple `(ta,tb,p)` on a definite date `d`, for ALL inputs: the
date is prefixed to both points, the duration is copied, and BOTH ends are put on `d` with the period's begin / end time
of day — also when the period's end time is not after its begin time. -/
theorem date_period_spec (d : Date) (hv : d.valid = true) (ta tb p : Str) (ca : clean ta) (cb : clean tb) (cp : clean p)
    (fd pd bt et : DateTime) (hfd : fd.date = d) (hpd : pd.date = d) (hb : bt.secs < 86400) (he : et.secs < 86400) (c : Bool) :
    (mergeDateAndTimePeriod fd pd (formatDate d) (triple ta tb p) bt et c).1 =
      .ok (triple (formatDate d ++ ta) (formatDate d ++ tb) p) ⟨d, bt.secs⟩ ⟨d, et.secs⟩ ⟨d, bt.secs⟩ ⟨d, et.secs⟩ := by
  have hh : (triple ta tb p).head? = some 40 := rfl
  unfold mergeDateAndTimePeriod
  simp only [hh, ne_eq, not_true_eq_false, if_false, rangeComponents_triple ta tb p ca cb cp, hfd, hpd,
    withTime_of d hv bt hb, withTime_of d hv et he]

/-- **a time period on a date, in order**: with `p = luis_time_span(end − begin)` (what the time-period parser writes)
and begin < end the triple is consistent with the emitted values … -/
theorem date_period_ok (d : Date) (hv : d.valid = true) (tt1 tt2 f1 f2 : Str) (sb se : Nat) (hse : se < 86400)
    (h1 : timexTime (84 :: tt1) = some f1) (p1 : parseTime f1 = some sb) (l1 : 2 ≤ tt1.length) (n1 : ∀ x ∈ tt1, x ≠ 44)
    (h2 : timexTime (84 :: tt2) = some f2) (p2 : parseTime f2 = some se) (l2 : 2 ≤ tt2.length) (n2 : ∀ x ∈ tt2, x ≠ 44)
    (hlt : sb < se) :
    tripleOK (triple (formatDate d ++ 84 :: tt1) (formatDate d ++ 84 :: tt2) (luisTimeSpan (se - sb)))
      (some (fmtDT ⟨d, sb⟩)) (some (fmtDT ⟨d, se⟩)) = true := by
  have q1 := parsePoint_dt d hv tt1 f1 l1 h1
  have q2 := parsePoint_dt d hv tt2 f2 l2 h2
  rw [p1] at q1; rw [p2] at q2
  have key := span_triple_ok _ _ ⟨d, sb⟩ ⟨d, se⟩ _ _ (no_comma_formatDate_T d tt1 n1) (no_comma_formatDate_T d tt2 n2) q1 q2
    (fmtPoint_dt _ _) (fmtPoint_dt _ _) (by unfold val; simp only; omega)
  have e : luisSpan ⟨d, sb⟩ ⟨d, se⟩ = luisTimeSpan (se - sb) := by
    unfold luisSpan diffSecs
    have : (((d.ord : Int) - d.ord) * 86400 + ((se : Int) - sb)) = ((se - sb : Nat) : Int) := by omega
    simp only [this, luisTimeSpanI_nonneg]
  rw [e] at key
  exact key

/-- … and **whenever the period crosses midnight** (end time of day ≤ begin time of day, duration written modulo 24 h
by the time-period parser: `(T22,T01,PT3H)`) the emitted end lies on the same date BEFORE the begin while the TIMEX says
`n > 0` seconds after: the triple is rejected — for EVERY date and every such pair of times. -/
theorem date_period_cross_midnight_rejected (d : Date) (hv : d.valid = true) (tt1 tt2 f1 f2 : Str) (sb se : Nat)
    (hsb : sb < 86400)
    (h1 : timexTime (84 :: tt1) = some f1) (p1 : parseTime f1 = some sb) (l1 : 2 ≤ tt1.length) (n1 : ∀ x ∈ tt1, x ≠ 44)
    (h2 : timexTime (84 :: tt2) = some f2) (p2 : parseTime f2 = some se) (l2 : 2 ≤ tt2.length) (n2 : ∀ x ∈ tt2, x ≠ 44)
    (hle : se ≤ sb) :
    val ⟨d, se⟩ ≤ val ⟨d, sb⟩ ∧
    tripleOK (triple (formatDate d ++ 84 :: tt1) (formatDate d ++ 84 :: tt2) (luisTimeSpan (86400 - sb + se)))
      (some (fmtDT ⟨d, sb⟩)) (some (fmtDT ⟨d, se⟩)) = false := by
  refine ⟨by unfold val; simp only; omega, ?_⟩
  have q1 := parsePoint_dt d hv tt1 f1 l1 h1
  have q2 := parsePoint_dt d hv tt2 f2 l2 h2
  rw [p1] at q1; rw [p2] at q2
  have hP : luisTimeSpan (86400 - sb + se) = 80 :: 84 :: (luisTimeSpan (86400 - sb + se)).drop 2 := by simp [luisTimeSpan]
  have hcP : ∀ x ∈ (luisTimeSpan (86400 - sb + se)).drop 2, x ≠ 44 :=
    fun x hx => luisTimeSpan_no_comma _ x (List.mem_of_mem_drop hx)
  have key := tripleOK_PT_wrong _ _ _ _ _ (fmtDT ⟨d, sb⟩) (fmtDT ⟨d, se⟩) (no_comma_formatDate_T d tt1 n1)
    (no_comma_formatDate_T d tt2 n2) hcP q1 q2 (86400 - sb + se) (ptSeconds_luisTimeSpan _ _)
    ((((d.ord : Int) - d.ord) * 86400 + ((se : Int) - sb))) (by unfold diffSeconds; rfl) (by omega)
  rw [← hP] at key
  simpa [triple] using key

/-- the ordered case is consistent: "tomorrow from 3pm to 5:30pm" -/
example : (mergeDateAndTimePeriod ⟨⟨2019, 6, 13⟩, 0⟩ ⟨⟨2019, 6, 13⟩, 0⟩ (S "2019-06-13") (S "(T15,T17:30,PT2H30M)")
      ⟨⟨2019, 6, 12⟩, 54000⟩ ⟨⟨2019, 6, 12⟩, 63000⟩ false).1 =
    .ok (S "(2019-06-13T15,2019-06-13T17:30,PT2H30M)") ⟨⟨2019, 6, 13⟩, 54000⟩ ⟨⟨2019, 6, 13⟩, 63000⟩
      ⟨⟨2019, 6, 13⟩, 54000⟩ ⟨⟨2019, 6, 13⟩, 63000⟩ ∧
    tripleOK (S "(2019-06-13T15,2019-06-13T17:30,PT2H30M)") (some (S "2019-06-13 15:00:00")) (some (S "2019-06-13 17:30:00")) = true := by
  decide

/-! ## the repaired variants (`/verif/findings/dtperiod/*.diff`): full-strength statements

The correspondence probes which variant the working tree follows (`dtperiodcorr.probe_fixes`) and drives
`mergeTwoTimePointsV` / `mergeDateAndTimePeriodV` with it. With no patch the variants ARE the functions above, whose
witnesses (`merge_begin_date_reversed_witness`, `merge_end_date_reversed_witness`,
`date_period_cross_midnight_witness`, `date_period_cross_midnight_rejected`) stay as **pre-fix regressions**. -/

theorem variants_prefix (k : Ends) (fb pb : DateTime) (t1 : Str) (fe pe : DateTime) (t2 : Str) (c1 c2 : Bool)
    (fd pd bt et : DateTime) (dt tp : Str) (c : Bool) :
    mergeTwoTimePointsV ⟨false, false, false⟩ k fb pb t1 fe pe t2 c1 c2 = mergeTwoTimePoints k fb pb t1 fe pe t2 c1 c2 ∧
    mergeDateAndTimePeriodV ⟨false, false, false⟩ fd pd dt tp bt et c = mergeDateAndTimePeriod fd pd dt tp bt et c := by
  refine ⟨?_, rfl⟩
  cases k <;> rfl

theorem le_true_of (d : Date) (a b : Nat) (h : a ≤ b) : (⟨d, a⟩ : DateTime).le ⟨d, b⟩ = true := by
  rw [le_iff]; right; exact ⟨rfl, h⟩
theorem le_false_of (d : Date) (a b : Nat) (h : b < a) : (⟨d, a⟩ : DateTime).le ⟨d, b⟩ = false := by
  rw [Bool.eq_false_iff, ne_eq, le_iff]; simp only; omega

/-- **Begin dated, repaired — for ALL dates and clock times.** `d` = the (definite) date of the first point, not the last
day of the calendar; `sb`, `se` the two times of day read from the TIMEX texts; whatever day the time parser put the
second point on. The emitted end keeps the stated clock time `se`, lies on `d` when `sb < se` and on the day after `d`
otherwise, the end is strictly after the begin, future = past, and the TIMEX is consistent with the values. -/
theorem merge_begin_date_fixed_ok (d : Date) (hv : d.valid = true) (hmax : d.ord < maxOrd) (tt1 tt2 f1 f2 : Str)
    (sb : Nat) (hsb : sb < 86400) (fe pe : DateTime) (hse : fe.secs < 86400) (hpe : pe.secs = fe.secs)
    (h1 : timexTime (84 :: tt1) = some f1) (p1 : parseTime f1 = some sb) (l1 : 2 ≤ tt1.length) (n1 : ∀ x ∈ tt1, x ≠ 44)
    (h2 : timexTime (84 :: tt2) = some f2) (p2 : parseTime f2 = some fe.secs) (l2 : 2 ≤ tt2.length) (n2 : ∀ x ∈ tt2, x ≠ 44) :
    ∃ t E, mergeBeginFixed ⟨d, sb⟩ ⟨d, sb⟩ (formatDate d ++ 84 :: tt1) fe pe (84 :: tt2) = .ok t ⟨d, sb⟩ E ⟨d, sb⟩ E ∧
      E.secs = fe.secs ∧ E.date.valid = true ∧ E.date.ord = (if fe.secs ≤ sb then d.ord + 1 else d.ord) ∧
      val ⟨d, sb⟩ < val E ∧ tripleOK t (some (fmtDT ⟨d, sb⟩)) (some (fmtDT E)) = true := by
  have q1 := parsePoint_dt d hv tt1 f1 l1 h1
  rw [p1] at q1
  have w1 := withTime_of d hv fe hse
  have w2 := withTime_of d hv pe (by omega)
  rw [hpe] at w2
  by_cases c : fe.secs ≤ sb
  · obtain ⟨r, hr⟩ := addDays_isSome ⟨d, fe.secs⟩ 1 (by simp only; omega) (by simp only; omega)
    have sp := addDays_spec ⟨d, fe.secs⟩ hv 1 r hr
    simp only at sp
    have q2 := parsePoint_dt r.date sp.1 tt2 f2 l2 h2
    rw [p2, ← sp.2.2] at q2
    have hlt : val ⟨d, sb⟩ < val r := by unfold val; simp only; omega
    refine ⟨_, r, ?_, sp.2.2, sp.1, by rw [if_pos c]; omega, hlt,
      span_triple_ok _ _ ⟨d, sb⟩ r _ _ (no_comma_formatDate_T d tt1 n1) (no_comma_formatDate_T r.date tt2 n2) q1 q2
        (fmtPoint_dt _ _) (by rw [← fmtPoint_dt]) hlt⟩
    simp only [mergeBeginFixed, w1, w2, le_true_of d _ _ c, if_true, hr, splitT_formatDate]
  · have c' : sb < fe.secs := by omega
    have q2 := parsePoint_dt d hv tt2 f2 l2 h2
    rw [p2] at q2
    have hlt : val ⟨d, sb⟩ < val ⟨d, fe.secs⟩ := by unfold val; simp only; omega
    refine ⟨_, ⟨d, fe.secs⟩, ?_, rfl, hv, by rw [if_neg c], hlt,
      span_triple_ok _ _ ⟨d, sb⟩ ⟨d, fe.secs⟩ _ _ (no_comma_formatDate_T d tt1 n1) (no_comma_formatDate_T d tt2 n2) q1 q2
        (fmtPoint_dt _ _) (fmtPoint_dt _ _) hlt⟩
    simp only [mergeBeginFixed, w1, w2, le_false_of d _ _ c', Bool.false_eq_true, if_false, splitT_formatDate]

/-- **End dated, repaired — for ALL dates and clock times.** `d` = the (definite) date of the second point, not the
first day of the calendar; the begin keeps its stated clock time `fb.secs`, lies on `d` when it is before the end's time
and on the day before `d` otherwise; begin strictly before end; consistent triple. -/
theorem merge_end_date_fixed_ok (d : Date) (hv : d.valid = true) (hmin : 1 < d.ord) (tt1 tt2 f1 f2 : Str)
    (se : Nat) (hse : se < 86400) (fb pb : DateTime) (hsb : fb.secs < 86400) (hpb : pb.secs = fb.secs)
    (h1 : timexTime (84 :: tt1) = some f1) (p1 : parseTime f1 = some fb.secs) (l1 : 2 ≤ tt1.length) (n1 : ∀ x ∈ tt1, x ≠ 44)
    (h2 : timexTime (84 :: tt2) = some f2) (p2 : parseTime f2 = some se) (l2 : 2 ≤ tt2.length) (n2 : ∀ x ∈ tt2, x ≠ 44) :
    ∃ t B, mergeEndFixed fb pb (84 :: tt1) ⟨d, se⟩ ⟨d, se⟩ (formatDate d ++ 84 :: tt2) = .ok t B ⟨d, se⟩ B ⟨d, se⟩ ∧
      B.secs = fb.secs ∧ B.date.valid = true ∧ (B.date.ord : Int) = (if se ≤ fb.secs then (d.ord : Int) - 1 else d.ord) ∧
      val B < val ⟨d, se⟩ ∧ tripleOK t (some (fmtDT B)) (some (fmtDT ⟨d, se⟩)) = true := by
  have q2 := parsePoint_dt d hv tt2 f2 l2 h2
  rw [p2] at q2
  have w1 := withTime_of d hv fb hsb
  have w2 := withTime_of d hv pb (by omega)
  rw [hpb] at w2
  by_cases c : se ≤ fb.secs
  · obtain ⟨r, hr⟩ := addDays_isSome ⟨d, fb.secs⟩ (-1) (by simp only; omega)
      (by have := (ord_range d hv).2; simp only; omega)
    have sp := addDays_spec ⟨d, fb.secs⟩ hv (-1) r hr
    simp only at sp
    have q1 := parsePoint_dt r.date sp.1 tt1 f1 l1 h1
    rw [p1, ← sp.2.2] at q1
    have hlt : val r < val ⟨d, se⟩ := by unfold val; simp only; omega
    refine ⟨_, r, ?_, sp.2.2, sp.1, by rw [if_pos c]; omega, hlt,
      span_triple_ok _ _ r ⟨d, se⟩ _ _ (no_comma_formatDate_T r.date tt1 n1) (no_comma_formatDate_T d tt2 n2) q1 q2
        (by rw [← fmtPoint_dt]) (fmtPoint_dt _ _) hlt⟩
    simp only [mergeEndFixed, w1, w2, le_true_of d _ _ c, if_true, hr, splitT_formatDate]
  · have c' : fb.secs < se := by omega
    have q1 := parsePoint_dt d hv tt1 f1 l1 h1
    rw [p1] at q1
    have hlt : val ⟨d, fb.secs⟩ < val ⟨d, se⟩ := by unfold val; simp only; omega
    refine ⟨_, ⟨d, fb.secs⟩, ?_, rfl, hv, by rw [if_neg c], hlt,
      span_triple_ok _ _ ⟨d, fb.secs⟩ ⟨d, se⟩ _ _ (no_comma_formatDate_T d tt1 n1) (no_comma_formatDate_T d tt2 n2) q1 q2
        (fmtPoint_dt _ _) (fmtPoint_dt _ _) hlt⟩
    simp only [mergeEndFixed, w1, w2, le_false_of d _ _ c', Bool.false_eq_true, if_false, splitT_formatDate]

/-- the repaired variants on the former witnesses: "from tomorrow 11pm to 2am" ends the day after, three hours later;
"from 5pm to tomorrow 3pm" begins the day before; New Year's Eve rolls into the next year -/
theorem merge_fixed_examples :
    mergeBeginFixed ⟨⟨2019, 6, 13⟩, 82800⟩ ⟨⟨2019, 6, 13⟩, 82800⟩ (S "2019-06-13T23")
        ⟨⟨2019, 6, 12⟩, 7200⟩ ⟨⟨2019, 6, 12⟩, 7200⟩ (S "T02") =
      .ok (S "(2019-06-13T23,2019-06-14T02,PT3H)") ⟨⟨2019, 6, 13⟩, 82800⟩ ⟨⟨2019, 6, 14⟩, 7200⟩
        ⟨⟨2019, 6, 13⟩, 82800⟩ ⟨⟨2019, 6, 14⟩, 7200⟩ ∧
    mergeEndFixed ⟨⟨2019, 6, 12⟩, 61200⟩ ⟨⟨2019, 6, 12⟩, 61200⟩ (S "T17")
        ⟨⟨2019, 6, 13⟩, 54000⟩ ⟨⟨2019, 6, 13⟩, 54000⟩ (S "2019-06-13T15") =
      .ok (S "(2019-06-12T17,2019-06-13T15,PT22H)") ⟨⟨2019, 6, 12⟩, 61200⟩ ⟨⟨2019, 6, 13⟩, 54000⟩
        ⟨⟨2019, 6, 12⟩, 61200⟩ ⟨⟨2019, 6, 13⟩, 54000⟩ ∧
    mergeBeginFixed ⟨⟨2019, 12, 31⟩, 82800⟩ ⟨⟨2019, 12, 31⟩, 82800⟩ (S "2019-12-31T23")
        ⟨⟨2019, 6, 12⟩, 7200⟩ ⟨⟨2019, 6, 12⟩, 7200⟩ (S "T02") =
      .ok (S "(2019-12-31T23,2020-01-01T02,PT3H)") ⟨⟨2019, 12, 31⟩, 82800⟩ ⟨⟨2020, 1, 1⟩, 7200⟩
        ⟨⟨2019, 12, 31⟩, 82800⟩ ⟨⟨2020, 1, 1⟩, 7200⟩ := by decide +kernel

/-- **A time period on a DEFINITE date, repaired — for ALL dates and clock times** (begin ≠ end time of day; `d` not the
last day of the calendar): the time-period parser hands over `(Ttt1,Ttt2,luis_time_span(n))` with `n` the distance from
begin to end time of day modulo 24 h. The emitted begin is `d` at the stated begin time; the end keeps the stated end
time, on `d` when it is later in the day and on the day after `d` when the period crosses midnight; begin strictly
before end, exactly `n` seconds apart; the TIMEX is consistent with the values. (On a non-definite date — "Friday from
23 to 4" — the patch leaves the unrolled result, which two cross-platform spec cases pin.) -/
theorem date_period_fixed_ok (d : Date) (hv : d.valid = true) (hmax : d.ord < maxOrd) (tt1 tt2 f1 f2 : Str)
    (fd pd bt et : DateTime) (hfd : fd.date = d) (hpd : pd.date = d) (hb : bt.secs < 86400) (he : et.secs < 86400)
    (hne : bt.secs ≠ et.secs) (c : Bool)
    (h1 : timexTime (84 :: tt1) = some f1) (p1 : parseTime f1 = some bt.secs) (l1 : 2 ≤ tt1.length) (c1 : clean (84 :: tt1))
    (h2 : timexTime (84 :: tt2) = some f2) (p2 : parseTime f2 = some et.secs) (l2 : 2 ≤ tt2.length) (c2 : clean (84 :: tt2))
    (n : Nat) (hn : n = if bt.secs < et.secs then et.secs - bt.secs else 86400 - bt.secs + et.secs) :
    ∃ t E, (mergeDateAndTimePeriodFixed fd pd (formatDate d) (triple (84 :: tt1) (84 :: tt2) (luisTimeSpan n)) bt et c).1 =
        .ok t ⟨d, bt.secs⟩ E ⟨d, bt.secs⟩ E ∧
      E.secs = et.secs ∧ E.date.valid = true ∧ E.date.ord = (if et.secs < bt.secs then d.ord + 1 else d.ord) ∧
      val E - val ⟨d, bt.secs⟩ = (n : Int) ∧ 0 < n ∧ tripleOK t (some (fmtDT ⟨d, bt.secs⟩)) (some (fmtDT E)) = true := by
  have n1 : ∀ x ∈ tt1, x ≠ 44 := fun x hx => (c1 x (List.mem_cons_of_mem _ hx)).2.2
  have n2 : ∀ x ∈ tt2, x ≠ 44 := fun x hx => (c2 x (List.mem_cons_of_mem _ hx)).2.2
  have q1 := parsePoint_dt d hv tt1 f1 l1 h1
  rw [p1] at q1
  have hh : (triple (84 :: tt1) (84 :: tt2) (luisTimeSpan n)).head? = some 40 := rfl
  have rc := rangeComponents_triple (84 :: tt1) (84 :: tt2) (luisTimeSpan n) c1 c2 (clean_luisTimeSpan n)
  by_cases cr : et.secs < bt.secs
  · rw [if_neg (by omega)] at hn
    obtain ⟨r, hr⟩ := addDays_isSome ⟨d, et.secs⟩ 1 (by simp only; omega) (by simp only; omega)
    have sp := addDays_spec ⟨d, et.secs⟩ hv 1 r hr
    simp only at sp
    have q2 := parsePoint_dt r.date sp.1 tt2 f2 l2 h2
    rw [p2, ← sp.2.2] at q2
    have hd : val r - val ⟨d, bt.secs⟩ = (n : Int) := by unfold val; simp only; omega
    have key := span_triple_ok _ _ ⟨d, bt.secs⟩ r _ _ (no_comma_formatDate_T d tt1 n1) (no_comma_formatDate_T r.date tt2 n2)
      q1 q2 (fmtPoint_dt _ _) (by rw [← fmtPoint_dt]) (by omega)
    rw [luisSpan_of _ _ n hd] at key
    refine ⟨_, r, ?_, sp.2.2, sp.1, by rw [if_pos cr]; omega, hd, by omega, key⟩
    simp only [mergeDateAndTimePeriodFixed, hh, ne_eq, not_true_eq_false, if_false, rc, hfd, hpd,
      withTime_of d hv bt hb, withTime_of d hv et he, cr, and_self, if_true, hr]
  · have cr' : bt.secs < et.secs := by omega
    rw [if_pos cr'] at hn
    have q2 := parsePoint_dt d hv tt2 f2 l2 h2
    rw [p2] at q2
    have hd : val ⟨d, et.secs⟩ - val ⟨d, bt.secs⟩ = (n : Int) := by unfold val; simp only; omega
    have key := span_triple_ok _ _ ⟨d, bt.secs⟩ ⟨d, et.secs⟩ _ _ (no_comma_formatDate_T d tt1 n1) (no_comma_formatDate_T d tt2 n2)
      q1 q2 (fmtPoint_dt _ _) (fmtPoint_dt _ _) (by omega)
    rw [luisSpan_of _ _ n hd] at key
    refine ⟨_, ⟨d, et.secs⟩, ?_, rfl, hv, by rw [if_neg cr], hd, by omega, key⟩
    simp only [mergeDateAndTimePeriodFixed, hh, ne_eq, not_true_eq_false, if_false, rc, hfd, hpd,
      withTime_of d hv bt hb, withTime_of d hv et he, cr, false_and, if_false]

/-- the repaired variant on the former witness "tomorrow from 10pm to 1am"; on a non-definite date nothing is rolled -/
theorem date_period_fixed_examples :
    (mergeDateAndTimePeriodFixed ⟨⟨2019, 6, 13⟩, 0⟩ ⟨⟨2019, 6, 13⟩, 0⟩ (S "2019-06-13") (S "(T22,T01,PT3H)")
        ⟨⟨2019, 6, 12⟩, 79200⟩ ⟨⟨2019, 6, 12⟩, 3600⟩ false).1 =
      .ok (S "(2019-06-13T22,2019-06-14T01,PT3H)") ⟨⟨2019, 6, 13⟩, 79200⟩ ⟨⟨2019, 6, 14⟩, 3600⟩
        ⟨⟨2019, 6, 13⟩, 79200⟩ ⟨⟨2019, 6, 14⟩, 3600⟩ ∧
    (mergeDateAndTimePeriodFixed ⟨⟨2019, 6, 14⟩, 0⟩ ⟨⟨2019, 6, 7⟩, 0⟩ (S "XXXX-WXX-5") (S "(T23,T04,PT5H)")
        ⟨⟨2019, 6, 12⟩, 82800⟩ ⟨⟨2019, 6, 12⟩, 14400⟩ false).1 =
      .ok (S "(XXXX-WXX-5T23,XXXX-WXX-5T04,PT5H)") ⟨⟨2019, 6, 14⟩, 82800⟩ ⟨⟨2019, 6, 14⟩, 14400⟩
        ⟨⟨2019, 6, 7⟩, 82800⟩ ⟨⟨2019, 6, 7⟩, 14400⟩ := by decide +kernel

end RTV.DtPeriod
