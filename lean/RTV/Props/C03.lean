import RTV.Lemmas.Literal
import RTV.Lemmas.Format
import RTV.Lemmas.Percent
import RTV.Lemmas.FormatRead
import RTV.Model.NumCfg
import RTV.Gen.NumDigits
/-!
# C03 — numeric literals resolve to exactly the number written, in every culture

Model: `RTV.Dec` (Python `decimal` under a context precision, `str(Decimal)`, `CultureInfo.format`) and
`RTV.Num.digitalValue` (`BaseNumberParser._get_digital_value`), with the ten separator configurations regenerated
from the working tree (`RTV/Gen/Num*.lean`).

Full statement (for every configuration `c`, every literal `lit` of `c` — plain | grouped | decimal |
groupedDecimal, optionally negative — with at most 15 significant digits):
    `digitalValue 15 tab c.sep lit.text 1 = ok d` with `d` denoting exactly `lit.value`, and
    `digitResolution … lit.text` = the canonical rendering (the culture's decimal mark, no grouping mark).
What is proved here for **all** inputs (any culture of the regenerated table, any magnitude below 10^15):
* `digital_exact`, `digital_exact_neg`: plain integers — the exact `Decimal` result, not only its value;
* `digital_exact_literal` (+ `digital_exact_grouped`, `_decimal`, `_grouped_decimal`): every well-formed literal of the four
  shapes, either sign, written with the marks the culture's parser reads, has exactly the literal's sign and value;
* `format_canonical_general`, `format_canonical_reads_back`, `number_literal_general`, `percent_literal_general`: the
  resolution string reads back as the literal's value with the culture's decimal mark, no grouping mark, no exponent —
  for values of at least 10^-6; `number_literal_zero`: the integer zero (`0`, `000`, `-0`), which that guard excludes;
* witnesses outside the guards: `zero_fraction_witness` (`0.0` -> `0E-55`), `format_canonical` (values below 10^-6 print
  in exponent form), `single_mark_nonstandard_witness`, `progressive_rounding_witness`.
`number_literal`, `percent_literal`, `format_canonical` are closed instances per regenerated configuration (kernel
evaluation: a changed separator, long-format entry or flag breaks them).  All of it is tied to the implementation for all
magnitudes by the unit and pipeline correspondence of `harness/corr/c03.py`.  Extraction (that the literal IS found as one
entity): `RTV.Props.C03Extract*`.
Beyond the precision the code rounds after every digit (`progressive_rounding_witness`).
-/
namespace RTV.Num
open RTV.Py RTV.Dec

/-- C03(a) An unsigned run of at most 15 ASCII digits is read as exactly that integer — `Decimal` with exponent 0 —
under every separator configuration (any culture, also ones not in the tree). -/
theorem digital_exact (tab : DigitTab) (ht : tab.Ascii) (c : SepCfg) (hc : c.Sane) (ds : List Nat)
    (hd : ∀ d ∈ ds, d < 10) (hb : natOfDigits ds < 10 ^ 15) :
    digitalValue 15 tab c (digitChars ds) 1 = .ok ⟨false, natOfDigits ds, 0⟩ := by
  simpa using digitalValue_plain 15 tab ht c hc (by decide) false ds hd hb

/-- C03(a') the same with a leading minus sign: the sign is kept, the magnitude is exact. -/
theorem digital_exact_neg (tab : DigitTab) (ht : tab.Ascii) (c : SepCfg) (hc : c.Sane) (ds : List Nat)
    (hd : ∀ d ∈ ds, d < 10) (hb : natOfDigits ds < 10 ^ 15) :
    digitalValue 15 tab c (45 :: digitChars ds) 1 = .ok ⟨true, natOfDigits ds, 0⟩ := by
  simpa using digitalValue_plain 15 tab ht c hc (by decide) true ds hd hb

/-- the hypotheses are satisfiable: `"999999999999999"` under the English configuration -/
example : digitalValue 15 asciiDigits en.sep (digitChars (List.replicate 15 9)) 1 = .ok ⟨false, 999999999999999, 0⟩ :=
  digital_exact asciiDigits asciiDigits_ascii en.sep ⟨by decide, by decide⟩ _ (by decide) (by decide)

/-- Every regenerated configuration satisfies the hypothesis of `digital_exact`, and its two separators differ. -/
theorem separators_distinct :
    ∀ c ∈ cultures, c.sep.decSep ≠ c.sep.nonDecSep ∧ c.sep.decSep < 48 ∧ c.sep.nonDecSep < 48 ∧
      c.sep.decSep ≠ 45 ∧ c.sep.nonDecSep ≠ 45 ∧ c.sep.decSep ≠ 47 ∧ c.sep.nonDecSep ≠ 47 := by
  decide

theorem cultures_sane : ∀ c ∈ cultures, c.sep.Sane := by
  intro c hc
  have := separators_distinct c hc
  exact ⟨⟨this.2.1, this.2.2.2.1, this.2.2.2.2.2.1⟩, ⟨this.2.2.1, this.2.2.2.2.1, this.2.2.2.2.2.2⟩⟩

/-- The marks a culture *writes* (long-format table of culture.py) against the marks its parser *reads*
(separator configuration, swapped for the non-standard variants): en-us, es-mx, ja-jp are comma-dot, the European
cultures dot-comma, zh-cn has no long format (output keeps `.`), and for each culture with a long format the
written decimal mark is the one the parser reads. -/
theorem comma_dot_cultures :
    (cultures.map fun c => c.longFormat) =
      [some (46, 44), some (44, 46), some (46, 44), some (44, 46), some (44, 46), some (44, 46), some (44, 46),
       some (44, 46), none, some (46, 44)] ∧
    (cultures.all fun c =>
      match c.longFormat with
      | some (dm, tm) =>
        dm == (if c.sep.nonStdVariant then c.sep.nonDecSep else c.sep.decSep) &&
        tm == (if c.sep.nonStdVariant then c.sep.decSep else c.sep.nonDecSep)
      | none => true) = true := by
  decide


/-! ### the general theorem: every literal shape, every regenerated configuration -/

/-- the marks each regenerated configuration reads are ordinary punctuation, distinct from each other -/
theorem cultures_marks_sane :
    ∀ c ∈ cultures, ((parserMarks c.sep).2 < 48 ∧ (parserMarks c.sep).2 ≠ 45 ∧ (parserMarks c.sep).2 ≠ 32 ∧
        (parserMarks c.sep).2 ≠ 47 ∧ (parserMarks c.sep).2 ≠ (parserMarks c.sep).1) ∧
      ((parserMarks c.sep).1 < 48 ∧ (parserMarks c.sep).1 ≠ 45 ∧ (parserMarks c.sep).1 ≠ 47) := by
  decide

/-- the marks the parser reads are the marks `culture.py` writes (cultures with a long format) -/
theorem marks_read_are_marks_written :
    (cultures.all fun c => match c.longFormat with
      | some (dm, tm) => parserMarks c.sep == (tm, dm)
      | none => true) = true := by
  decide

/-- **C03 master statement for `_get_digital_value`.** For each of the ten regenerated configurations and every
well-formed literal (plain, grouped, decimal, grouped decimal; with or without sign) of at most 15 digits written
with that configuration's own marks, the result denotes exactly the number written: sign `l.neg`, and
`coeff · 10^exp = numer / 10^scale` (stated cross-multiplied, `exp ≤ 0`). In en-us / es-es / es-mx / fr-fr a literal
with exactly one grouping mark and no fraction must have standard grouping (`Grouped3`), because the code reads
`12,34` or `0,234` as decimals there (multi-decimal-separator rule) — that guard is exact, see
`single_mark_nonstandard_witness`. -/
theorem digital_exact_literal (tab : DigitTab) (ht : tab.Ascii) (c : Culture) (hc : c ∈ cultures) (l : Literal)
    (hw : l.WellFormed) (hstd : c.sep.multiDec = true → l.groups.length = 2 → l.frac = none → l.Grouped3)
    (hb : l.numer < 10 ^ 15) :
    ∃ r, digitalValue 15 tab c.sep (l.text (parserMarks c.sep).1 (parserMarks c.sep).2) 1 = .ok r ∧
      r.neg = l.neg ∧ r.exp ≤ 0 ∧ r.coeff * 10 ^ l.scale = l.numer * 10 ^ (-r.exp).toNat :=
  literal_exact tab ht c.sep l hw (cultures_marks_sane c hc).1 (cultures_marks_sane c hc).2 hstd hb

theorem frac_of_shape (l : Literal) (h : l.shape = .decimal ∨ l.shape = .groupedDecimal) : l.frac ≠ none := by
  intro hf
  unfold Literal.shape at h
  rw [hf] at h
  rcases h with h | h <;> (split at h <;> simp_all)

/-- grouped integers (`1,234,567`; `-1.234` in German …) -/
theorem digital_exact_grouped (tab : DigitTab) (ht : tab.Ascii) (c : Culture) (hc : c ∈ cultures) (l : Literal)
    (_hs : l.shape = .grouped) (hw : l.WellFormed) (hg : l.Grouped3) (hb : l.numer < 10 ^ 15) :
    ∃ r, digitalValue 15 tab c.sep (l.text (parserMarks c.sep).1 (parserMarks c.sep).2) 1 = .ok r ∧
      r.neg = l.neg ∧ r.exp ≤ 0 ∧ r.coeff * 10 ^ l.scale = l.numer * 10 ^ (-r.exp).toNat :=
  digital_exact_literal tab ht c hc l hw (fun _ _ _ => hg) hb

/-- decimals without grouping (`1234.5`, `-0,05`) -/
theorem digital_exact_decimal (tab : DigitTab) (ht : tab.Ascii) (c : Culture) (hc : c ∈ cultures) (l : Literal)
    (hs : l.shape = .decimal) (hw : l.WellFormed) (hb : l.numer < 10 ^ 15) :
    ∃ r, digitalValue 15 tab c.sep (l.text (parserMarks c.sep).1 (parserMarks c.sep).2) 1 = .ok r ∧
      r.neg = l.neg ∧ r.exp ≤ 0 ∧ r.coeff * 10 ^ l.scale = l.numer * 10 ^ (-r.exp).toNat :=
  digital_exact_literal tab ht c hc l hw (fun _ _ hf => absurd hf (frac_of_shape l (Or.inl hs))) hb

/-- grouped decimals (`1,234.5`, `-12.345.678,90`) -/
theorem digital_exact_grouped_decimal (tab : DigitTab) (ht : tab.Ascii) (c : Culture) (hc : c ∈ cultures)
    (l : Literal) (hs : l.shape = .groupedDecimal) (hw : l.WellFormed) (hb : l.numer < 10 ^ 15) :
    ∃ r, digitalValue 15 tab c.sep (l.text (parserMarks c.sep).1 (parserMarks c.sep).2) 1 = .ok r ∧
      r.neg = l.neg ∧ r.exp ≤ 0 ∧ r.coeff * 10 ^ l.scale = l.numer * 10 ^ (-r.exp).toNat :=
  digital_exact_literal tab ht c hc l hw (fun _ _ hf => absurd hf (frac_of_shape l (Or.inr hs))) hb

/-- the hypotheses are satisfiable: `-1,234.50` in English -/
example : ∃ r, digitalValue 15 asciiDigits en.sep
    ((⟨true, [[1], [2, 3, 4]], some [5, 0]⟩ : Literal).text 44 46) 1 = .ok r ∧ r.neg = true ∧ r.exp ≤ 0 ∧
      r.coeff * 10 ^ 2 = 123450 * 10 ^ (-r.exp).toNat :=
  digital_exact_grouped_decimal asciiDigits asciiDigits_ascii en (by unfold cultures; exact List.mem_cons_self) ⟨true, [[1], [2, 3, 4]], some [5, 0]⟩
    (by decide) ⟨by decide, by decide, by decide⟩ (by decide)

/-- The `Grouped3` guard of the single-mark case is exact: in the multi-decimal-separator cultures one mark followed
by two digits, or a leading `0` group, is read as a decimal (`12,34` ↦ 12.34, `0,234` ↦ 0.234 in English). The
extractor's integer format `\d{1,3}(,\d{3})+` never produces the first; the second is outside standard grouping. -/
theorem single_mark_nonstandard_witness :
    isOkDec (digitalValue 15 asciiDigits en.sep [49, 50, 44, 51, 52] 1) ⟨false, 123400000000000, -13⟩ = true ∧
    isOkDec (digitalValue 15 asciiDigits en.sep [48, 44, 50, 51, 52] 1) ⟨false, 234000000000000, -15⟩ = true := by
  decide +kernel

/-- the literal shapes of a culture written with grouping mark `g` and decimal mark `d` (code points) -/
def sampleLiterals (g d : Nat) : List (Str × Str) :=
  -- (literal, expected resolution with '.' as decimal mark)
  [ ([49, g, 50, 51, 52], [49, 50, 51, 52]),                                                   -- 1,234
    ([45, 49, 48, 48, g, 48, 48, 48], [45, 49, 48, 48, 48, 48, 48]),                           -- -100,000
    ([49, g, 50, 51, 52, g, 53, 54, 55], [49, 50, 51, 52, 53, 54, 55]),                        -- 1,234,567
    ([49, 50, 51, 52, d, 53], [49, 50, 51, 52, 46, 53]),                                       -- 1234.5
    ([48, d, 48, 53], [48, 46, 48, 53]),                                                       -- 0.05
    ([45, 49, g, 50, 51, 52, d, 53, 48], [45, 49, 50, 51, 52, 46, 53]),                        -- -1,234.50
    ([49, 50, 51, g, 52, 53, 54, g, 55, 56, 57, g, 48, 49, 50, d, 51, 52, 53],
      [49, 50, 51, 52, 53, 54, 55, 56, 57, 48, 49, 50, 46, 51, 52, 53]),                       -- 123,456,789,012.345
    ([48, d, 48, 48, 48, 48, 48, 49], [48, 46, 48, 48, 48, 48, 48, 49]) ]                      -- 0.000001

/-- the marks a culture writes: its long format, `,` / `.` for zh-cn -/
def writtenMarks (c : Culture) : Nat × Nat :=
  match c.longFormat with
  | some (dm, tm) => (tm, dm)
  | none => (44, 46)

/-- C03(b) `number_literal`: in each of the ten regenerated configurations every sample literal written with the
culture's own marks (grouped, several groups, decimal, grouped decimal, negative — including `-100,000`, which the
unfixed code read as `-100`) resolves to the number written, printed with the culture's decimal mark and without a
grouping mark. -/
theorem number_literal :
    ∀ c ∈ cultures, ∀ l ∈ sampleLiterals (writtenMarks c).1 (writtenMarks c).2,
      isOkStr (digitResolution 15 asciiDigits c.sep c.longFormat l.1)
        (l.2.map fun ch => if ch == 46 then (writtenMarks c).2 else ch) = true := by
  decide +kernel

/-- C03(c) `percent_literal`: the percentage parser (`BasePercentageParser`; `CJKNumberParser.per_parse` for zh-cn,
whose values are floats) yields the same string followed by `%`. -/
theorem percent_literal :
    (∀ c ∈ cultures, c.code ≠ zh.code → ∀ l ∈ sampleLiterals (writtenMarks c).1 (writtenMarks c).2,
      isOkStr (percentResolution 15 asciiDigits c.sep c.longFormat (fun ch => ch == 32) l.1)
        ((l.2.map fun ch => if ch == 46 then (writtenMarks c).2 else ch) ++ [37]) = true) ∧
    (∀ l ∈ (sampleLiterals 44 46).dropLast,
      isOkStr (cjkPercentResolution 15 asciiDigits zh.sep zh.longFormat [45, 0xFF0D, 0x8D1F, 0x8CA0] l.1)
        (l.2 ++ [37]) = true) ∧
    -- the float path prints 10^-6 in exponent form: `0.000001%` ↦ `1E-06%` (same number)
    isOkStr (cjkPercentResolution 15 asciiDigits zh.sep zh.longFormat [45, 0xFF0D, 0x8D1F, 0x8CA0]
      [48, 46, 48, 48, 48, 48, 48, 49]) [49, 69, 45, 48, 54, 37] = true := by
  decide +kernel

/-- C03(d) `format_canonical` on boundary values: exponent form only below 10^-6 and above 15 digits; the decimal
mark follows the culture, trailing zeros and a trailing mark are dropped. -/
theorem format_canonical :
    Dec.format (some (44, 46)) ⟨false, 123450000000000, -11⟩ = [49, 50, 51, 52, 44, 53] ∧          -- 1234,5
    Dec.format (some (46, 44)) ⟨true, 100000000000000, -20⟩ = [45, 48, 46, 48, 48, 48, 48, 48, 49] ∧  -- -0.000001
    Dec.format none ⟨false, 5, 0⟩ = [53] ∧
    Dec.format (some (46, 44)) ⟨false, 100000000000000, -21⟩ =
      [49, 46, 48, 48, 48, 48, 48, 48, 48, 48, 48, 48, 48, 48, 48, 48, 69, 45, 48, 55] ∧           -- 1.00000000000000E-07
    Dec.format (some (46, 44)) ⟨false, 100000000000000, 1⟩ = [49, 46, 69, 43, 49, 53] := by        -- 1.E+15
  decide +kernel


/-! ### `CultureInfo.format` in general (positional notation) -/

/-- the decimal mark a culture writes -/
def writtenDecimalMark (c : Culture) : Nat := match c.longFormat with | some (dm, _) => dm | none => 46

/-- in every regenerated long format the grouping mark is neither a digit, nor `-`, nor the decimal mark -/
theorem grouping_mark_foreign :
    (cultures.all fun c => let g := (writtenMarks c).1
      !(decide (48 ≤ g) && decide (g ≤ 57)) && g != 45 && g != writtenDecimalMark c) = true := by
  decide

/-- **C03(d) `format_canonical`, general.** For every regenerated culture and every decimal with exponent ≤ 0 and
adjusted exponent ≥ −6 — that is every value `digital_exact_literal` returns for a literal down to 10^-6 — the
resolution string consists of digits, an optional `-` and the culture's own decimal mark only; in particular it has
no exponent part and does not contain the culture's grouping mark. (That it has no trailing zeros and reads back as
the value is checked on the closed instances `format_canonical` / `number_literal` and by the unit correspondence of
`format` on every run.) -/
theorem format_canonical_general (c : Culture) (hc : c ∈ cultures) (d : Dec) (he : d.exp ≤ 0)
    (hadj : d.exp + ((Dec.digitsOf d.coeff).length : Int) > -6) :
    (∀ ch ∈ Dec.format c.longFormat d, (48 ≤ ch ∧ ch ≤ 57) ∨ ch = 45 ∨ ch = writtenDecimalMark c) ∧
      (writtenMarks c).1 ∉ Dec.format c.longFormat d := by
  have h := Dec.format_plain c.longFormat d he hadj
  refine ⟨h, ?_⟩
  intro hmem
  have hg := grouping_mark_foreign
  rw [List.all_eq_true] at hg
  have hgc := hg c hc
  simp only [Bool.and_eq_true, Bool.not_eq_true', bne_iff_ne, ne_eq, Bool.and_eq_false_iff,
    decide_eq_false_iff_not] at hgc
  rcases h _ hmem with ⟨a, b⟩ | h45 | hdm
  · rcases hgc.1.1 with x | x <;> omega
  · exact hgc.1.2 h45
  · exact hgc.2 hdm

/-- **C03(c) `percent_literal`, general** (`BasePercentageParser`, every culture except zh-cn whose percentage
parser works on floats): whenever the number's digit value has exponent ≤ 0 and adjusted exponent ≥ −6, the percentage
resolution is the number's resolution followed by exactly one `%` — same decimal mark, no grouping mark. `isSpace`
is any white-space predicate that is false on digits, `-`, the decimal mark. -/
theorem percent_literal_general (tab : DigitTab) (c : Culture) (hc : c ∈ cultures) (isSpace : Nat → Bool)
    (hsp : ∀ ch, ((48 ≤ ch ∧ ch ≤ 57) ∨ ch = 45 ∨ ch = writtenDecimalMark c) → isSpace ch = false)
    (text : Str) (d : Dec) (hd : digitalValue 15 tab c.sep text 1 = .ok d) (he : d.exp ≤ 0)
    (hadj : d.exp + ((Dec.digitsOf d.coeff).length : Int) > -6) (hne : Dec.format c.longFormat d ≠ []) :
    percentResolution 15 tab c.sep c.longFormat isSpace text = .ok (Dec.format c.longFormat d ++ [37]) ∧
      digitResolution 15 tab c.sep c.longFormat text = .ok (Dec.format c.longFormat d) := by
  obtain ⟨hch, _⟩ := format_canonical_general c hc d he hadj
  have hdm : writtenDecimalMark c ≠ 37 := by
    have : (cultures.all fun c => writtenDecimalMark c != 37) = true := by decide
    rw [List.all_eq_true] at this
    simpa using this c hc
  have hres : digitResolution 15 tab c.sep c.longFormat text = .ok (Dec.format c.longFormat d) := by
    simp [digitResolution, hd, bind, Except.bind, pure, Except.pure]
  refine ⟨?_, hres⟩
  simp only [percentResolution, hres, bind, Except.bind, pure, Except.pure]
  rw [percentSuffix_plain isSpace _ hne (fun ch h => hsp ch (hch ch h))]
  intro h37
  rcases hch 37 h37 with ⟨a, _⟩ | h | h
  · omega
  · omega
  · exact hdm h.symm

/-- in every regenerated long format the decimal mark is neither a digit nor `-` -/
theorem decimal_mark_foreign : (cultures.all fun c => decide (Dec.markOf c.longFormat < 48) &&
    Dec.markOf c.longFormat != 45) = true := by decide

/-- **C03(d) `format_canonical`: reads back as the value, no trailing zeros.** For every regenerated culture and every
decimal with exponent ≤ 0 and adjusted exponent ≥ −6, reading the resolution string with the culture's decimal mark
(`Dec.readPlain`: sign, all digits `M`, number `k` of fraction digits) gives the sign of `d` and
`M / 10^k = coeff · 10^exp` (cross-multiplied); a printed fraction never ends in `0`. -/
theorem format_canonical_reads_back (c : Culture) (hc : c ∈ cultures) (d : Dec) (he : d.exp ≤ 0)
    (hadj : d.exp + ((Dec.digitsOf d.coeff).length : Int) > -6) :
    ∃ M k, Dec.readPlain (Dec.markOf c.longFormat) (Dec.format c.longFormat d) = (d.neg, M, k) ∧
      M * 10 ^ (-d.exp).toNat = d.coeff * 10 ^ k ∧ (0 < k → M % 10 ≠ 0) := by
  have h := decimal_mark_foreign
  rw [List.all_eq_true] at h
  have hm := h c hc
  simp only [Bool.and_eq_true, decide_eq_true_eq, bne_iff_ne, ne_eq] at hm
  exact Dec.format_reads_back c.longFormat d he hadj hm

/-- **C03 end to end (`number_literal`, general).** For each regenerated culture and every well-formed literal of at
most 15 digits written with the culture's own marks (standard grouping in the single-mark case of the
multi-decimal-separator cultures) whose value is at least 10^-6: the resolution string of the number parser reads
back — with the culture's decimal mark — as exactly the literal's sign and value `numer / 10^scale`, it has no trailing
fraction zeros, and it consists of digits, an optional `-` and that decimal mark only (no exponent, no grouping mark).
Outside the guard `hge` (which also excludes the value 0, since `10 ^ scale ≤ 0` never holds): a non-zero value below
10^-6 is printed in exponent form (`format_canonical`); the INTEGER zero is `number_literal_zero` below; a zero written
with fraction digits prints as `0E-55` (`zero_fraction_witness`), so no statement of this form holds for it. -/
theorem number_literal_general (tab : DigitTab) (ht : tab.Ascii) (c : Culture) (hc : c ∈ cultures) (l : Literal)
    (hw : l.WellFormed) (hstd : c.sep.multiDec = true → l.groups.length = 2 → l.frac = none → l.Grouped3)
    (hb : l.numer < 10 ^ 15) (hge : 10 ^ l.scale ≤ l.numer * 10 ^ 6) :
    ∃ s M k, digitResolution 15 tab c.sep c.longFormat (l.text (parserMarks c.sep).1 (parserMarks c.sep).2) = .ok s ∧
      Dec.readPlain (Dec.markOf c.longFormat) s = (l.neg, M, k) ∧ M * 10 ^ l.scale = l.numer * 10 ^ k ∧
      (0 < k → M % 10 ≠ 0) ∧
      (∀ ch ∈ s, (48 ≤ ch ∧ ch ≤ 57) ∨ ch = 45 ∨ ch = writtenDecimalMark c) ∧ (writtenMarks c).1 ∉ s := by
  obtain ⟨r, hr, hneg, hexp, hval⟩ := digital_exact_literal tab ht c hc l hw hstd hb
  have hadj := Dec.adjusted_of_value r.coeff r.exp l.numer l.scale hexp hval hge
  obtain ⟨M, k, hread, hM, hz⟩ := format_canonical_reads_back c hc r hexp hadj
  obtain ⟨hch, hgm⟩ := format_canonical_general c hc r hexp hadj
  refine ⟨Dec.format c.longFormat r, M, k, ?_, by rw [hread, hneg], ?_, hz, hch, hgm⟩
  · simp [digitResolution, hr, bind, Except.bind, pure, Except.pure]
  · -- M·10^E = coeff·10^k and coeff·10^scale = numer·10^E  ⟹  M·10^scale = numer·10^k
    have h1 : M * 10 ^ l.scale * 10 ^ (-r.exp).toNat = l.numer * 10 ^ k * 10 ^ (-r.exp).toNat := by
      calc M * 10 ^ l.scale * 10 ^ (-r.exp).toNat = (M * 10 ^ (-r.exp).toNat) * 10 ^ l.scale := by
            rw [Nat.mul_right_comm]
        _ = r.coeff * 10 ^ k * 10 ^ l.scale := by rw [hM]
        _ = (r.coeff * 10 ^ l.scale) * 10 ^ k := by rw [Nat.mul_right_comm]
        _ = l.numer * 10 ^ (-r.exp).toNat * 10 ^ k := by rw [hval]
        _ = l.numer * 10 ^ k * 10 ^ (-r.exp).toNat := by rw [Nat.mul_right_comm]
    exact Nat.eq_of_mul_eq_mul_right (Dec.pow10_pos _) h1

theorem zero_formats : ∀ c ∈ cultures, Dec.format c.longFormat ⟨false, 0, 0⟩ = [48] ∧
    Dec.format c.longFormat ⟨true, 0, 0⟩ = [45, 48] := by decide +kernel

/-- **the literal 0** (excluded by the guard `hge` of `number_literal_general`): in every regenerated culture a run of
zeros (`0`, `000`) resolves to `0` and with a minus sign to `-0` (the real parser keeps the sign of `Decimal('-0')`;
numerically the number written). -/
theorem number_literal_zero (tab : DigitTab) (ht : tab.Ascii) (c : Culture) (hc : c ∈ cultures) (ds : List Nat)
    (hd : ∀ d ∈ ds, d < 10) (h0 : natOfDigits ds = 0) :
    digitResolution 15 tab c.sep c.longFormat (digitChars ds) = .ok [48] ∧
    digitResolution 15 tab c.sep c.longFormat (45 :: digitChars ds) = .ok [45, 48] := by
  have h1 := digital_exact tab ht c.sep (cultures_sane c hc) ds hd (by rw [h0]; decide)
  have h2 := digital_exact_neg tab ht c.sep (cultures_sane c hc) ds hd (by rw [h0]; decide)
  rw [h0] at h1 h2
  obtain ⟨f1, f2⟩ := zero_formats c hc
  constructor
  · simp [digitResolution, h1, bind, Except.bind, pure, Except.pure, f1]
  · simp [digitResolution, h2, bind, Except.bind, pure, Except.pure, f2]

example : digitResolution 15 asciiDigits en.sep en.longFormat [48, 48, 48] = .ok [48] :=
  (number_literal_zero asciiDigits asciiDigits_ascii en (List.Mem.head _) [0, 0, 0] (by decide) (by decide)).1

/-- outside the guard of `number_literal_general`: `0.0` resolves to `0E-55` (numerically 0; the zero product
`Decimal(0.1) * 0` carries the exponent −55 of the exact binary expansion into the sum) -/
theorem zero_fraction_witness :
    isOkStr (digitResolution 15 asciiDigits en.sep en.longFormat [48, 46, 48]) [48, 69, 45, 53, 53] = true := by
  decide +kernel

/-- The literals the model takes from the *code* rather than from tables are regenerated as well and must agree:
`Constants.NO_BREAK_SPACE`, `Decimal(0.1)` of the running interpreter, and the `prec` of the `@precision` decorator
on `_get_digital_value` (the theorems above are stated for that precision). -/
theorem constants_regenerated :
    NBSP = RTV.Gen.NumDigits.noBreakSpace ∧
    Dec.pointOne = ⟨false, RTV.Gen.NumDigits.pointOneCoeff, RTV.Gen.NumDigits.pointOneExp⟩ ∧
    RTV.Gen.NumDigits.digitalValuePrec = 15 := by decide

/-- Beyond the precision: a 16-digit integer is rounded once, half-even, to 15 digits … -/
theorem digital_round16 :
    isOkDec (digitalValue 15 asciiDigits en.sep (digitChars [1,2,3,4,5,6,7,8,9,0,1,2,3,4,4,5]) 1)
      ⟨false, 123456789012344, 1⟩ = true ∧
    isOkDec (digitalValue 15 asciiDigits en.sep (digitChars [1,2,3,4,5,6,7,8,9,0,1,2,3,4,5,5]) 1)
      ⟨false, 123456789012346, 1⟩ = true ∧
    isOkDec (digitalValue 15 asciiDigits en.sep (digitChars [1,0,0,0,0,0,0,0,0,0,0,0,0,0,0,0]) 1)
      ⟨false, 100000000000000, 1⟩ = true := by
  decide +kernel

/-- … but with 17 digits the per-digit rounding is *not* the correct rounding of the number written:
`12345678901234451` is nearer to `1.23456789012345E+16`, the code answers `…344E+16` (tie broken to even one
step early). The value still agrees with the literal to 15 significant digits within one unit of the last place,
which is what the property promises and what the oracle checks. -/
theorem progressive_rounding_witness :
    isOkDec (digitalValue 15 asciiDigits en.sep (digitChars [1,2,3,4,5,6,7,8,9,0,1,2,3,4,4,5,1]) 1)
      ⟨false, 123456789012344, 2⟩ = true ∧
    Dec.fix 15 ⟨false, 12345678901234451, 0⟩ = ⟨false, 123456789012345, 2⟩ := by
  decide +kernel

end RTV.Num
