import RTV.Model.NumCfg
namespace RTV.Num
theorem c03_placeholder : True := trivial
end RTV.Num
