import RTV.Lemmas.DtExtract2
import RTV.Props.C01DtExtract
/-!
# C01 / C12 — the REMAINING date-time sub-extractors hand `merge_all_tokens` tokens that lie inside the text

Property theorems about `RTV.Model.DtExtract2` (the other functions of `BaseDatePeriodExtractor`,
`BaseTimePeriodExtractor`, `BaseDateTimePeriodExtractor`, and `BaseSetExtractor`, `BaseHolidayExtractor`). As in
`C01DtExtract` the regex engine and the sub-recognisers are parameters: every theorem quantifies over ALL match facts
an engine can report on the string the code ran it on and over all text lengths `n`; the conclusion is
`Tok.Inside n` (`0 ≤ start ≤ end ≤ n`) for every token, which `DtExtract.subextractor_results_ok` carries through
`merge_all_tokens` to "every ExtractResult is inside the text, its text is the slice at its span, results are
pairwise disjoint". Where the code does NOT guarantee it: the full statement as a comment, a `_partial` / `_iff`
theorem with the exact guard, and a witness theorem with concrete match facts (replayed on the implementation by
harness/lib/dtextract2corr.py; two of them are reachable with the shipped regexes and are reported findings).
-/
namespace RTV.DtExtract2
open RTV.Py RTV.Span RTV.DtExtract

/-! ## BaseDatePeriodExtractor -/

/-- `match_simple_cases`: the kept matches, as they are. -/
theorem dpSimpleCases_inside (n : Int) (ms : List (Mt × Bool)) (h : ∀ x ∈ ms, x.1.In n) :
    ∀ t ∈ dpSimpleCases ms, t.Inside n := tokensOfKept_inside n ms h

/-
Full-strength statement, which does not hold on the current tree:
  theorem centuryOne_inside (f.er.In n) (m anchored, inside the trimmed rest) : centuryOne V2.current n f = some t → t.Inside n
-/

/-- `match_ordinal_number_with_century_suffix`, current tree — the EXACT guard: the token (ordinal + what follows up
to the end of the century word) lies inside the text iff `ws + first + len(match)` fits behind the ordinal, where
`first = text.index(match.group())` is an offset from the START OF THE TEXT (the code adds it to an offset that
already is the position behind the ordinal). -/
theorem centuryOne_inside_iff (n : Int) (f : CenturyFact) (m : Mt) (t : Tok) (he : f.er.In n) (hm : f.m = some m)
    (hws : 0 ≤ f.ws) (hfirst : 0 ≤ f.first) (hmm : m.s ≤ m.e) (ht : centuryOne V2.current n f = some t) :
    t.Inside n ↔ f.ws + f.first + (m.e - m.s) ≤ n - (f.er.start + f.er.len) := by
  obtain ⟨e0, e1, e2⟩ := he
  unfold centuryOne at ht
  split at ht
  · cases ht
  · simp only [hm, V2.current, Bool.false_eq_true, ↓reduceIte, Option.map_some, Option.some.injEq] at ht
    subst ht
    unfold Tok.Inside
    simp only
    constructor
    · intro h; omega
    · intro h; omega

/-- … so a match that is found where it is looked for (directly behind the ordinal: `first ≥` the position behind
the ordinal) and is not empty ALWAYS leaves the text when the ordinal does not start the text: the end is pushed
right by at least `start + length` of the ordinal. -/
theorem centuryOne_overruns (n : Int) (f : CenturyFact) (m : Mt) (t : Tok) (he : f.er.In n) (hm : f.m = some m)
    (hws : 0 ≤ f.ws) (hfirst : f.er.start + f.er.len ≤ f.first) (hmm : m.s < m.e) (hpos : 0 < f.er.start + f.er.len)
    (hfit : f.er.start + f.er.len + (m.e - m.s) = n)
    (ht : centuryOne V2.current n f = some t) : ¬ t.Inside n := by
  rw [centuryOne_inside_iff n f m t he hm hws (by obtain ⟨a, b, c⟩ := he; omega) (by omega) ht]
  omega

/-- WITNESS, reachable (finding `century-suffix-offset`): pt-br `"I'll be back at 9:00a."` (22 characters): the
Portuguese ordinal `00a` `[18, 21)` is followed by `.`, which `CenturySuffixRegex = ^[.]` matches; `text.index('.')` is
21: the token is `[18, 43)` — the recogniser returns an entity whose end lies 21 characters behind the end of the
query. -/
theorem century_overrun_witness :
    centurySuffix V2.current 22 [⟨⟨18, 3⟩, 0, some ⟨0, 1⟩, 21⟩] = [⟨18, 43⟩] ∧ ¬ (⟨18, 43⟩ : Tok).Inside 22 := by decide

/-- REPAIRED variant (century-suffix-offset.diff), full strength: `ws` = the blanks between the ordinal and the
century word, the match is anchored in the left-stripped rest: the token lies inside the text and ends exactly where
the match ends. -/
theorem centuryOne_fixed_inside (n : Int) (v : V2) (hv : v.centuryOffset = true) (f : CenturyFact) (t : Tok)
    (he : f.er.In n) (hws : 0 ≤ f.ws)
    (hm : optP f.m (fun m => m.In (n - (f.er.start + f.er.len) - f.ws))) (ht : centuryOne v n f = some t) :
    t.Inside n ∧ t.start = f.er.start := by
  obtain ⟨e0, e1, e2⟩ := he
  unfold centuryOne at ht
  split at ht
  · cases ht
  · cases hmm : f.m with
    | none => simp [hmm] at ht
    | some m =>
      obtain ⟨m0, m1, m2⟩ := optP_some hm hmm
      simp only [hmm, Option.map_some, Option.some.injEq] at ht
      subst ht
      refine ⟨?_, rfl⟩
      unfold Tok.Inside; simp only; omega

theorem century_fixed_witness :
    centurySuffix V2.repaired 22 [⟨⟨18, 3⟩, 0, some ⟨0, 1⟩, 21⟩] = [⟨18, 22⟩] := by decide

/-
Full-strength statement, which does not hold on the current tree:
  theorem yearPeriod_inside (∀ x ∈ ms, x.1.In n) : ∀ t ∈ yearPeriod V2.current ms, t.Inside n
-/

/-- `match_year_period`, current tree: `Token(start, start - length)` — for EVERY non-empty match the token is
reversed: it is never inside the text and its `Token.length` is 0. -/
theorem yearPeriod_reversed (m : Mt) (h : m.s < m.e) (n : Int) :
    (yearPeriodTok V2.current m).stop < (yearPeriodTok V2.current m).start ∧
      ¬ (yearPeriodTok V2.current m).Inside n ∧ (yearPeriodTok V2.current m).length = 0 := by
  unfold yearPeriodTok Tok.Inside Tok.length
  simp only [V2.current, Bool.false_eq_true, ↓reduceIte]
  refine ⟨by omega, by omega, ?_⟩
  split <;> omega

/-- … what `merge_all_tokens` makes of it: a reversed token is swallowed when an earlier-or-equal-starting token has
already been kept, otherwise it becomes an ExtractResult of LENGTH 0. WITNESS, reachable (finding
`year-period-negative-length`): en-us `"tel 138-2010-2015"`: `2010-2015` `[8, 17)` matches `YearPeriodRegex`, the simple
cases keep only `2015` `[13, 17)` (`-2010-` is an illegal year): tokens `(8, -1)` and `(13, 17)` → results `(8, 0, "")`
and `(13, 4)`: the recogniser returns an EMPTY date range at offset 8 (`start = 8 > end = 7`). -/
theorem yearPeriod_empty_entity_witness :
    yearPeriod V2.current [(⟨8, 17⟩, true)] = [⟨8, -1⟩] ∧
    (mergeAllTokens [116, 101, 108, 32, 49, 51, 56, 45, 50, 48, 49, 48, 45, 50, 48, 49, 53]
      [(⟨8, -1⟩ : Tok).toTk 0, (⟨13, 17⟩ : Tok).toTk 1]).map (fun e => (e.start, e.len, e.text)) =
      [(8, 0, []), (13, 4, [50, 48, 49, 53])] := by decide

/-- REPAIRED variant (year-period-end.diff), full strength: the token is the match. -/
theorem yearPeriod_fixed_inside (n : Int) (v : V2) (hv : v.yearPeriodEnd = true) (ms : List (Mt × Bool))
    (h : ∀ x ∈ ms, x.1.In n) : ∀ t ∈ yearPeriod v ms, t.Inside n := by
  unfold yearPeriod
  apply mem_filterMap_tok
  intro x hx t ht
  split at ht
  · cases ht
    obtain ⟨a, b, c⟩ := h x hx
    unfold yearPeriodTok; simp only [hv, ↓reduceIte]; exact ⟨a, b, c⟩
  · cases ht

/-- `__get_token_for_regex_matching` (`week of …`, `month of …`, `within …` in front of a date point): the token
starts at the LAST occurrence of the matched text in the prefix (`rfind`; it lies in the prefix) and ends with the date
point: inside the text. -/
theorem tokenForRegex_inside (n : Int) (er : Ent) (f : RegexTokFact) (he : er.In n)
    (hr : 0 ≤ f.rfind ∧ f.rfind ≤ er.start) : ∀ l, tokenForRegex er f = some l → ∀ t ∈ l, t.Inside n := by
  intro l hl t ht
  obtain ⟨e0, e1, e2⟩ := he
  unfold tokenForRegex at hl
  cases hm : f.m with
  | none => simp [hm] at hl; subst hl; cases ht
  | some m =>
    simp only [hm] at hl
    split at hl
    · split at hl
      · cases hl
        simp only [List.mem_singleton] at ht
        subst ht
        unfold Tok.Inside; simp only; omega
      · cases hl
    · cases hl; cases ht

/-- … and the `in_prefix = False` calls (`less_than_regex` / `more_than_regex` in front of a relative date) evaluate
`match.index` on a `Match` as soon as the match sits at the edge: AttributeError, the date-period extractor yields
nothing for the query. (Monitored: 0 occurrences — the date extractor's own results already include the `less than /
more than` words.) -/
theorem tokenForRegex_raises : tokenForRegex ⟨10, 17⟩ ⟨some ⟨0, 9⟩, true, 0, false⟩ = none := by decide

theorem tokensForRegexes_inside (n : Int) (er : Ent) (fs : List RegexTokFact) (he : er.In n)
    (hr : ∀ f ∈ fs, 0 ≤ f.rfind ∧ f.rfind ≤ er.start) :
    ∀ l, tokensForRegexes er fs = some l → ∀ t ∈ l, t.Inside n := by
  induction fs with
  | nil => intro l hl t ht; simp [tokensForRegexes] at hl; subst hl; cases ht
  | cons f rest ih =>
    intro l hl t ht
    unfold tokensForRegexes at hl
    cases h1 : tokenForRegex er f with
    | none => simp [h1] at hl
    | some a =>
      cases h2 : tokensForRegexes er rest with
      | none => simp [h1, h2] at hl
      | some b =>
        simp only [h1, h2, Option.some.injEq] at hl
        subst hl
        rw [List.mem_append] at ht
        rcases ht with ht | ht
        · exact tokenForRegex_inside n er f he (hr f (by simp)) a h1 t ht
        · exact ih (fun f' hf' => hr f' (by simp [hf'])) b h2 t ht

/-- `single_time_point_with_patterns`: every token lies inside the text — for any date points, any outcomes of the
week-of / month-of / less-than / more-than / within-next searches in front of them. -/
theorem singleTimePoint_inside (n : Int) (ps : List (Ent × List RegexTokFact))
    (h : ∀ p ∈ ps, p.1.In n ∧ ∀ f ∈ p.2, 0 ≤ f.rfind ∧ f.rfind ≤ p.1.start) :
    ∀ l, singleTimePoint ps = some l → ∀ t ∈ l, t.Inside n := by
  induction ps with
  | nil => intro l hl t ht; simp [singleTimePoint] at hl; subst hl; cases ht
  | cons p rest ih =>
    intro l hl t ht
    unfold singleTimePoint at hl
    cases h1 : tokensForRegexes p.1 p.2 with
    | none => simp [h1] at hl
    | some a =>
      cases h2 : singleTimePoint rest with
      | none => simp [h1, h2] at hl
      | some b =>
        simp only [h1, h2, Option.some.injEq] at hl
        subst hl
        rw [List.mem_append] at ht
        rcases ht with ht | ht
        · exact tokensForRegexes_inside n p.1 p.2 (h p (by simp)).1 (h p (by simp)).2 a h1 t ht
        · exact ih (fun p' hp' => h p' (by simp [hp'])) b h2 t ht

/-- the points looked at are date points and ordinals only. -/
theorem singlePoints_mem (dates ords : List Ent) : ∀ e ∈ singlePoints dates ords, e ∈ dates ∨ e ∈ ords := by
  intro e he
  unfold singlePoints at he
  rw [List.mem_append] at he
  rcases he with he | he
  · exact Or.inl he
  · exact Or.inr (List.mem_filter.mp he).1

/-- `match_complex_cases`: what is handed to `merge_multiple_extractions` consists of date points and simple date
ranges only (nothing invented), lies inside the text and is ordered by start — so `DtExtract.rangeLoop_mem` +
`DtExtract.rangePairTok_inside` apply to its tokens. -/
theorem complexInputs_ok (n : Int) (dates simples : List Ent) (hd : ∀ e ∈ dates, e.In n) (hs : ∀ e ∈ simples, e.In n) :
    (∀ e ∈ complexInputs dates simples, (e ∈ dates ∨ e ∈ simples) ∧ e.In n) ∧
    (complexInputs dates simples).Pairwise (fun a b => a.start ≤ b.start) := by
  refine ⟨?_, sortByStart_sorted _ _⟩
  intro e he
  unfold complexInputs at he
  rw [mem_sortByStart, List.mem_append] at he
  rcases he with he | he
  · exact ⟨Or.inl he, hd e he⟩
  · have := (List.mem_filter.mp he).1
    exact ⟨Or.inr this, hs e this⟩

/-- … and a simple date range that is part of a date point is not handed over (`"Feb 1st 2018"`: `Feb` and `2018`). -/
theorem complexInputs_drops_contained :
    complexInputs [⟨0, 12⟩] [⟨0, 3⟩, ⟨8, 4⟩, ⟨20, 4⟩] = [⟨0, 12⟩, ⟨20, 4⟩] := by decide

/-! ## BaseTimePeriodExtractor -/

/-- `match_simple_cases` / `match_time_of_day`: the token is placed at the first occurrence of the matched text
(`source.index(match.group())`), which is at or before the match: inside the text. -/
theorem firstOccToks_inside (n : Int) (fs : List (Int × Mt × Bool))
    (h : ∀ x ∈ fs, 0 ≤ x.1 ∧ x.1 ≤ x.2.1.s ∧ x.2.1.In n) : ∀ t ∈ firstOccToks fs, t.Inside n := by
  unfold firstOccToks
  apply mem_filterMap_tok
  intro x hx t ht
  split at ht
  · cases ht
    obtain ⟨a, b, c, d, e⟩ := h x hx
    unfold firstOccTok Tok.Inside; simp only; omega
  · cases ht

/-- … but not necessarily AT the match (same slip as `BaseDateExtractor.basic_regex_match`): two matches with the same
text yield the same token twice, the second occurrence gets no token (inside the text — a recall defect, neither C01
nor C12). -/
theorem firstOcc_second_occurrence_lost :
    firstOccToks [(0, ⟨0, 10⟩, true), (0, ⟨20, 30⟩, true)] = [⟨0, 10⟩, ⟨0, 10⟩] := by decide

theorem tpPick_mem (nums times : List Ent) (conns : List Bool) : ∀ e ∈ tpPick nums times conns, e ∈ nums := by
  induction nums generalizing times conns with
  | nil => intro e he; simp [tpPick] at he
  | cons num rest ih =>
    intro e he
    unfold tpPick at he
    split at he
    · cases he
    · cases conns with
      | nil => cases he
      | cons c cs =>
        simp only [List.mem_append] at he
        rcases he with he | he
        · split at he
          · simp only [List.mem_singleton] at he; subst he; simp
          · cases he
        · exact List.mem_cons_of_mem _ (ih _ _ e he)

theorem tpAddNumbers_mem (times nums : List Ent) : ∀ e ∈ tpAddNumbers times nums, e ∈ times ∨ e ∈ nums := by
  unfold tpAddNumbers
  induction nums generalizing times with
  | nil => intro e he; exact Or.inl (by simpa using he)
  | cons x r ih =>
    intro e he
    simp only [List.foldl_cons] at he
    rcases ih _ e he with h | h
    · split at h
      · exact Or.inl h
      · rw [List.mem_append] at h
        rcases h with h | h
        · exact Or.inl h
        · simp only [List.mem_singleton] at h; subst h; exact Or.inr (by simp)
    · exact Or.inr (List.mem_cons_of_mem _ h)

/-- `merge_two_time_points`, the preamble: the points handed to the merging loop are time results and integer
results only, lie inside the text and are ordered by start (when numbers were found). -/
theorem tpPoints_ok (n : Int) (times nums : List Ent) (ending : Bool) (conns : List Bool)
    (ht : ∀ e ∈ times, e.In n) (hn : ∀ e ∈ nums, e.In n) :
    ∀ e ∈ tpPoints times nums ending conns, (e ∈ times ∨ e ∈ nums) ∧ e.In n := by
  intro e he
  have key : e ∈ times ∨ e ∈ nums → (e ∈ times ∨ e ∈ nums) ∧ e.In n := by
    intro h; exact ⟨h, h.elim (ht e) (hn e)⟩
  apply key
  unfold tpPoints at he
  cases hl : nums.getLast? with
  | none => simp only [hl] at he; exact Or.inl he
  | some last =>
    simp only [hl] at he
    rw [mem_sortByStart] at he
    rcases tpAddNumbers_mem _ _ e he with h | h
    · exact Or.inl h
    · rw [List.mem_append] at h
      rcases h with h | h
      · split at h
        · simp only [List.mem_singleton] at h; subst h
          exact Or.inr (List.mem_of_getLast? hl)
        · cases h
      · exact Or.inr (tpPick_mem _ _ _ e h)

/-- a number that overlaps a time result is not added; one that a connector ties to the next time point is. -/
theorem tpPoints_example :
    tpPoints [⟨10, 3⟩] [⟨5, 1⟩, ⟨10, 1⟩] false [true] = [⟨5, 1⟩, ⟨10, 3⟩] := by decide

/-- `merge_two_time_points`: every token is the range token of two ADJACENT points of the preamble's list
(`DtExtract.rangePairTok_time_partial` then bounds it; `DtExtract.rangePairTok_time_after_between_witness` is the case
it does not cover). -/
theorem tpMergeTwoTimePoints_mem (v : Variant) (times nums : List Ent) (ending : Bool) (conns : List Bool)
    (facts : List PairFact) :
    ∀ t ∈ tpMergeTwoTimePoints v times nums ending conns facts, ∃ (j : Nat) (a b : Ent) (f : PairFact),
      (tpPoints times nums ending conns)[j]? = some a ∧ (tpPoints times nums ending conns)[j + 1]? = some b ∧
      f ∈ facts ∧ rangePairTok v .timePeriod a b f = some t := by
  intro t ht
  unfold tpMergeTwoTimePoints rangeMerge at ht
  split at ht
  · cases ht
  · rcases rangeLoop_mem v .timePeriod _ _ _ 0 facts [] t ht with h | ⟨j, a, b, f, h1, h2, h3, h4, _⟩
    · cases h
    · exact ⟨j, a, b, f, by simpa using h1, by simpa using h2, h3, h4⟩

/-! ## BaseDateTimePeriodExtractor -/

/-- the second loop of `merge_two_time_points` ("{Date} {TimePeriod}"): every token runs from the start of one point
to the end of the NEXT one, which starts behind it: inside the text — for any points inside the text, in any order. -/
theorem dtpSecondLoop_inside (n : Int) (pts : Array (Ent × Bool)) (ok : Nat → Bool)
    (h : ∀ (i : Nat) (a : Ent × Bool), pts[i]? = some a → a.1.In n)
    (fuel i : Nat) (acc : List Tok) (hacc : ∀ t ∈ acc, t.Inside n) :
    ∀ t ∈ dtpSecondLoop pts ok fuel i acc, t.Inside n := by
  induction fuel generalizing i acc with
  | zero => simpa [dtpSecondLoop] using hacc
  | succ fuel ih =>
    unfold dtpSecondLoop
    split
    · split
      · rename_i a b ha hb
        split
        · exact hacc
        · split
          · rename_i hmid
            split
            · apply ih
              intro t ht
              rw [List.mem_append] at ht
              rcases ht with ht | ht
              · exact hacc t ht
              · simp only [List.mem_singleton] at ht
                subst ht
                obtain ⟨a0, a1, a2⟩ := h i a ha
                obtain ⟨b0, b1, b2⟩ := h (i + 1) b hb
                unfold Tok.Inside; simp only; omega
            · exact ih _ _ hacc
          · exact ih _ _ hacc
      · exact hacc
    · exact hacc

theorem dtpDateWithTimePeriod_inside (n : Int) (dates periods : List Ent) (ok : Nat → Bool)
    (hd : ∀ e ∈ dates, e.In n) (hp : ∀ e ∈ periods, e.In n) :
    ∀ t ∈ dtpDateWithTimePeriod dates periods ok, t.Inside n := by
  unfold dtpDateWithTimePeriod
  apply dtpSecondLoop_inside n
  · intro i a ha
    have hm : a ∈ dtpSecondPoints dates periods :=
      List.mem_of_getElem? (by simpa using ha : (dtpSecondPoints dates periods)[i]? = some a)
    unfold dtpSecondPoints at hm
    rw [mem_sortByStart, List.mem_append, List.mem_map, List.mem_map] at hm
    rcases hm with ⟨e, he, rfl⟩ | ⟨e, he, rfl⟩
    · exact hd e he
    · exact hp e he
  · intro t ht; cases ht

/-- after a token the index moves on by three, so the point behind a merged pair is skipped as a left partner and the
pairing goes out of step: dates at 0, 12, 30 each followed by its time period — the second token pairs the SECOND
day's period `[16, 23)` with the THIRD day `[30, 33)` (inside the text; a mis-pairing, not a span defect). -/
theorem dtpSecondLoop_skips_three :
    dtpDateWithTimePeriod [⟨0, 3⟩, ⟨12, 3⟩, ⟨30, 3⟩] [⟨4, 7⟩, ⟨16, 7⟩, ⟨34, 7⟩] (fun _ => true)
      = [⟨0, 11⟩, ⟨16, 33⟩] := by decide

/-
Full-strength statement for `match_duration`, which does not hold (`previous` suffix adds one more character):
  theorem dtpMatchDuration_inside (∀ f ∈ fs, DtpDurOK n f) : ∀ t ∈ dtpMatchDuration fs, t.Inside n
-/

theorem dtpSufTok_inside (n : Int) (f : DtpDurFact) (c : Option CM) (extra : Int) (hd : f.dur.In n)
    (hc : optP c (fun c => c.In (n - (f.dur.start + f.dur.len)) ∧ (c.succ = true → 0 ≤ extra ∧
      c.idx + c.len + extra ≤ n - (f.dur.start + f.dur.len)))) :
    ∀ t, dtpSufTok f c extra = some t → t.Inside n := by
  intro t ht
  obtain ⟨d0, d1, d2⟩ := hd
  unfold dtpSufTok at ht
  cases hcc : c with
  | none => simp [hcc] at ht
  | some cc =>
    obtain ⟨⟨c0, c1, c2⟩, hx⟩ := optP_some hc hcc
    simp only [hcc] at ht
    split at ht
    · rename_i hs
      have := hx hs
      cases ht
      unfold Tok.Inside; simp only; omega
    · cases ht

/-- `match_duration` (date-time period), in the coordinates of the stripped text of length `n` the function works in:
every token (`within the next 3 hours`, `past 3 hours`, `next 5 minutes`, `2 upcoming hours`, `3 hours previous / next`)
lies inside that text. The guard: a successful `previous` suffix match leaves room for the extra `+ 1`. -/
theorem dtpMatchDuration_inside_partial (n : Int) (fs : List DtpDurFact) (h : ∀ f ∈ fs, DtpDurOK n f)
    (hg : ∀ f ∈ fs, optP f.prevSuffix (fun c => c.succ = true → c.idx + c.len + 1 ≤ n - (f.dur.start + f.dur.len))) :
    ∀ t ∈ dtpMatchDuration fs, t.Inside n := by
  induction fs with
  | nil => intro t ht; simp [dtpMatchDuration] at ht
  | cons f rest ih =>
    have hrest := ih (fun f' hf' => h f' (by simp [hf'])) (fun f' hf' => hg f' (by simp [hf']))
    obtain ⟨hd, hwf, hprev, hnext, hnums, hps, hns, hfs⟩ := h f (by simp)
    have hd' := hd
    obtain ⟨d0, d1, d2⟩ := hd
    have hcm : ∀ (c : Option CM), optP c (fun c => c.In f.dur.start) → cmIdx c ≤ f.dur.start := by
      intro c hc
      unfold cmIdx
      cases hcc : c with
      | none => simp only; omega
      | some cc =>
        obtain ⟨c0, c1, c2⟩ := optP_some hc hcc
        simp only
        split <;> omega
    have hidx : dtpDurIndex f ≤ f.dur.start := by
      unfold dtpDurIndex
      have h1 := hcm f.prev hprev
      have h2 := hcm f.next hnext
      split <;> omega
    intro t ht
    unfold dtpMatchDuration at ht
    split at ht
    · cases ht
    · split at ht
      · rename_i hw
        simp only [List.mem_singleton] at ht
        subst ht
        unfold dtpWithin at hw ⊢
        cases hwm : f.withinM with
        | none => simp [hwm] at hw
        | some m =>
          simp only [hwm] at hw ⊢
          split
          · unfold Tok.Inside; simp only; omega
          · rename_i hno; simp [hno] at hw
      · split at ht
        · rename_i hge
          rw [List.mem_append] at ht
          rcases ht with ht | ht
          · unfold dtpDurPrefix at ht
            split at ht
            · cases hl : lastByEnd f.numsInPrefix with
              | none => simp [hl] at ht
              | some l =>
                simp only [hl] at ht
                split at ht
                · simp only [List.mem_singleton] at ht
                  subst ht
                  obtain ⟨l0, l1, l2⟩ := hnums l (lastByEnd_mem _ _ hl)
                  unfold Tok.Inside; simp only; omega
                · cases ht
            · simp only [List.mem_singleton] at ht
              subst ht
              unfold Tok.Inside; simp only; omega
          · exact hrest t ht
        · rw [List.mem_append] at ht
          rcases ht with ht | ht
          · unfold dtpDurSuffix at ht
            split at ht
            · cases ht
            · have hgp := hg f (by simp)
              have h1 : ∀ t, dtpSufTok f f.prevSuffix 1 = some t → t.Inside n := by
                apply dtpSufTok_inside n f _ 1 hd'
                cases hc : f.prevSuffix with
                | none => trivial
                | some c =>
                  exact ⟨optP_some hps hc, fun hs => ⟨by omega, optP_some hgp hc hs⟩⟩
              have h0 : ∀ (c : Option CM), optP c (fun c => c.In (n - (f.dur.start + f.dur.len))) →
                  ∀ t, dtpSufTok f c 0 = some t → t.Inside n := by
                intro c hc
                apply dtpSufTok_inside n f _ 0 hd'
                cases hcc : c with
                | none => trivial
                | some cc =>
                  obtain ⟨c0, c1, c2⟩ := optP_some hc hcc
                  exact ⟨⟨c0, c1, c2⟩, fun _ => ⟨by omega, by omega⟩⟩
              cases hp : dtpSufTok f f.prevSuffix 1 with
              | some tk => simp only [hp, List.mem_singleton] at ht; subst ht; exact h1 _ hp
              | none =>
                simp only [hp] at ht
                cases hn : dtpSufTok f f.nextSuffix 0 with
                | some tk => simp only [hn, List.mem_singleton] at ht; subst ht; exact h0 _ hns _ hn
                | none =>
                  simp only [hn] at ht
                  cases hf : dtpSufTok f f.futureSuffix 0 with
                  | some tk => simp only [hf, List.mem_singleton] at ht; subst ht; exact h0 _ hfs _ hf
                  | none => simp [hf] at ht
          · exact hrest t ht

/-- outside the guard: `duration.end + match.index + match.length + 1` — the `+ 1` stands for ONE blank between
the duration and the word; when the word follows without a blank and ends the text the token ends one character
behind the text. (Not observed with the shipped regexes, which demand a word boundary in front of the word:
monitored, 0 occurrences.) -/
theorem dtpDuration_previous_overrun :
    dtpMatchDuration [⟨⟨0, 7⟩, false, none, false, 0, false, none, none, [], 0, false, false, some ⟨0, 8, true⟩, none, none⟩]
      = [⟨0, 16⟩] ∧ ¬ (⟨0, 16⟩ : Tok).Inside 15 := by decide

/-- `match_duration` re-binds `source = source.strip().lower()`: every offset is an offset into the STRIPPED text but is
used as an offset into the text. WITNESS (`"  past 3 hours"`, stripped `"past 3 hours"`): the token is `[0, 12)` — in the
text that is `"  past 3 ho"`; the characters of the duration end at 14. Inside the text (so neither C01 nor C12 by
itself; the parser rejects the cut text and the range is lost — finding `dtp-duration-leading-blank`, recall). -/
theorem dtpDuration_leading_blank_witness :
    dtpMatchDuration [⟨⟨5, 7⟩, false, none, false, 0, false, some ⟨0, 4, true⟩, none, [], 0, true, false, none, none, none⟩]
      = [⟨0, 12⟩] ∧ (⟨0, 12⟩ : Tok).Inside 14 ∧ (12 : Int) < 2 + (5 + 7) := by decide

/-- REPAIRED variant (dtp-duration-leading-blank.diff), full strength: in a text with `lead` leading and `trail`
trailing blanks around a stripped text of length `n` every token lies inside the text, and the stripped-text token
`u` it comes from is the same characters (`[u.start + lead, u.stop + lead)` of the text = `[u.start, u.stop)` of the
stripped text) — so the prefix-path tokens end exactly where the duration ends. -/
theorem dtpMatchDurationV_fixed_inside (n lead trail : Int) (v : V2) (hv : v.dtpDurShift = true) (hl : 0 ≤ lead)
    (htr : 0 ≤ trail) (fs : List DtpDurFact) (h : ∀ f ∈ fs, DtpDurOK n f)
    (hg : ∀ f ∈ fs, optP f.prevSuffix (fun c => c.succ = true → c.idx + c.len + 1 ≤ n - (f.dur.start + f.dur.len))) :
    ∀ t ∈ dtpMatchDurationV v lead fs, t.Inside (lead + n + trail) ∧
      ∃ u ∈ dtpMatchDuration fs, t.start = u.start + lead ∧ t.stop = u.stop + lead := by
  intro t ht
  unfold dtpMatchDurationV at ht
  simp only [hv, ↓reduceIte, List.mem_map] at ht
  obtain ⟨u, hu, rfl⟩ := ht
  obtain ⟨a, b, c⟩ := dtpMatchDuration_inside_partial n fs h hg u hu
  refine ⟨?_, u, hu, rfl, rfl⟩
  unfold Tok.Inside; simp only; omega

/-- … on the facts of `"  past 3 hours"` the repaired variant yields `[2, 14)` = `"past 3 hours"`. -/
theorem dtpDuration_fixed_witness :
    dtpMatchDurationV V2.repaired 2
      [⟨⟨5, 7⟩, false, none, false, 0, false, some ⟨0, 4, true⟩, none, [], 0, true, false, none, none, none⟩] = [⟨2, 14⟩] := by
  decide

theorem todPick_cases (f : TodFact) : todPick f = f.m1 ∨ todPick f = f.am ∨ todPick f = f.pm := by
  unfold todPick
  cases h1 : f.m1 with
  | some m => simp only; split <;> simp
  | none =>
    cases ha : f.am with
    | none => simp
    | some a => simp only; split <;> simp

theorem todAmPm_inside (n : Int) (f : TodFact) (h : TodOK n f) : ∀ t ∈ todAmPm f, t.Inside n := by
  obtain ⟨⟨e0, e1, e2⟩, hlen, hm1, ham, hpm, _⟩ := h
  have hm1' : optP f.m1 (fun m => m.In (n - (f.er.start + f.er.len))) := by
    cases hh : f.m1 with
    | none => trivial
    | some m => exact (optP_some hm1 hh).1
  have hpick : optP (todPick f) (fun m => m.In (n - (f.er.start + f.er.len))) := by
    rcases todPick_cases f with h | h | h <;> rw [h] <;> assumption
  intro t ht
  unfold todAmPm at ht
  cases hmm : todPick f with
  | none => simp [hmm, todAmPmTok] at ht
  | some x =>
    obtain ⟨x0, x1, x2⟩ := optP_some hpick hmm
    simp only [hmm, todAmPmTok] at ht
    split at ht
    · simp only [List.mem_singleton] at ht
      subst ht
      unfold Tok.Inside; simp only; omega
    · cases ht

theorem todPrefix_inside (n : Int) (f : TodFact) (h : TodOK n f) : ∀ t ∈ todPrefix f, t.Inside n := by
  obtain ⟨⟨e0, e1, e2⟩, _, _, _, _, hm2⟩ := h
  intro t ht
  unfold todPrefix at ht
  cases hm : f.m2 with
  | none => simp [hm] at ht
  | some m =>
    obtain ⟨m0, m1, m2⟩ := optP_some hm2 hm
    simp only [hm] at ht
    split at ht
    · split at ht
      · simp only [List.mem_singleton] at ht; subst ht; unfold Tok.Inside; simp only; omega
      · cases ht
    · split at ht
      · simp only [List.mem_singleton] at ht; subst ht; unfold Tok.Inside; simp only; omega
      · cases ht

/-- `match_time_of_day`, the pass over the date results (`monday afternoon`, `monday, in the afternoon`, `monday pm`,
`in the morning monday`): every token lies inside the text. -/
theorem todDates_inside (n : Int) (fs : List TodFact) (h : ∀ f ∈ fs, TodOK n f) : ∀ t ∈ todDates fs, t.Inside n := by
  induction fs with
  | nil => intro t ht; simp [todDates] at ht
  | cons f rest ih =>
    have hrest := ih (fun f' hf' => h f' (by simp [hf']))
    have hf := h f (by simp)
    have hap := todAmPm_inside n f hf
    have hpr := todPrefix_inside n f hf
    obtain ⟨⟨e0, e1, e2⟩, _, hm1, _, _, _⟩ := hf
    intro t ht
    unfold todDates at ht
    cases hm : f.m1 with
    | none =>
      simp only [hm, List.mem_append] at ht
      rcases ht with (ht | ht) | ht
      · exact hap t ht
      · exact hpr t ht
      · exact hrest t ht
    | some m =>
      obtain ⟨⟨m0, m1', m2⟩, s0, s1, s2⟩ := optP_some hm1 hm
      simp only [hm] at ht
      split at ht
      · simp only [List.mem_singleton] at ht
        subst ht
        unfold Tok.Inside; simp only; omega
      · simp only [List.mem_append] at ht
        rcases ht with ((ht | ht) | ht) | ht
        · split at ht
          · simp only [List.mem_singleton] at ht; subst ht; unfold Tok.Inside; simp only; omega
          · cases ht
        · exact hap t ht
        · exact hpr t ht
        · exact hrest t ht

/-- … `monday pm`: `ExtractResult.end` is inclusive, so the am / pm token ends one character SHORT of the descriptor
(`[0, 8)` of `"monday pm"`; inside the text). -/
theorem todAmPm_one_short :
    todAmPm ⟨⟨0, 6⟩, none, 0, 0, false, false, none, some ⟨0, 3⟩, none, false, false, false⟩ = [⟨0, 8⟩] := by decide

/-- the adjacency pass: a time period right in front of / right behind a token of the first pass extends it; the
extended token lies inside the text. `before` periods lie in `source[0:token.start]` with `gap` up to the token,
`after` periods lie in `source[token.end:]`. -/
theorem todAdjOne_inside (n : Int) (t : Tok) (before : List (Ent × Int × Bool)) (after : List (Ent × Bool))
    (ht : t.Inside n)
    (hb : ∀ x ∈ before, x.1.In t.start ∧ 0 ≤ x.2.1 ∧ x.1.start + x.1.len + x.2.1 ≤ t.start)
    (ha : ∀ x ∈ after, x.1.In (n - t.stop)) : ∀ u ∈ todAdjOne n t before after, u.Inside n := by
  obtain ⟨t0, t1, t2⟩ := ht
  have hl : t.length = t.stop - t.start := by unfold Tok.length; split <;> omega
  intro u hu
  unfold todAdjOne at hu
  rw [List.mem_append] at hu
  rcases hu with hu | hu
  · by_cases hc : t.start > 0
    · simp only [hc, ↓reduceIte] at hu
      revert u
      apply mem_filterMap_tok
      intro x hx u hu
      split at hu
      · cases hu
        obtain ⟨⟨x0, x1, x2⟩, g0, g1⟩ := hb x hx
        unfold Tok.Inside; simp only [hl]; omega
      · cases hu
    · simp only [hc, ↓reduceIte] at hu; cases hu
  · by_cases hc : t.stop ≤ n
    · simp only [hc, ↓reduceIte] at hu
      revert u
      apply mem_filterMap_tok
      intro x hx u hu
      split at hu
      · cases hu
        obtain ⟨x0, x1, x2⟩ := ha x hx
        unfold Tok.Inside; simp only; omega
      · cases hu
    · simp only [hc, ↓reduceIte] at hu; cases hu

theorem lookupCut_mem {α : Type} (k : Int) (l : List (Int × List α)) :
    lookupCut k l = [] ∨ (k, lookupCut k l) ∈ l := by
  induction l with
  | nil => left; rfl
  | cons x r ih =>
    unfold lookupCut
    split
    · rename_i h
      right
      have : x.1 = k := by simpa using h
      rw [← this]
      simp
    · rcases ih with h | h
      · left; exact h
      · right; exact List.mem_cons_of_mem _ h

/-- `match_time_of_day` as a whole: every token of the first pass and every token the adjacency pass appends lies
inside the text — for any specific-time-of-day matches, any outcomes of the searches around the date results, and
any answers of the time-period extractor on the prefixes / suffixes of the text. -/
theorem dtpTimeOfDay_inside (n : Int) (spec : List Mt) (dates : List TodFact) (adj : TodAdj)
    (hs : ∀ m ∈ spec, m.In n) (hd : ∀ f ∈ dates, TodOK n f)
    (hb : ∀ p ∈ adj.adjB, ∀ x ∈ p.2, x.1.In p.1 ∧ 0 ≤ x.2.1 ∧ x.1.start + x.1.len + x.2.1 ≤ p.1)
    (ha : ∀ p ∈ adj.adjA, ∀ x ∈ p.2, x.1.In (n - p.1)) :
    ∀ t ∈ dtpTimeOfDay n spec dates adj, t.Inside n := by
  have hfirst : ∀ t ∈ tokensOf spec ++ todDates dates, t.Inside n := by
    intro t ht
    rw [List.mem_append] at ht
    rcases ht with ht | ht
    · exact tokensOf_inside n spec hs t ht
    · exact todDates_inside n dates hd t ht
  intro t ht
  unfold dtpTimeOfDay at ht
  split at ht
  · exact tokensOf_inside n spec hs t ht
  · simp only at ht
    rw [List.mem_append] at ht
    rcases ht with ht | ht
    · exact hfirst t ht
    · rw [List.mem_flatMap] at ht
      obtain ⟨u, hu, htu⟩ := ht
      have huin := hfirst u hu
      have hlen : u.length = u.stop - u.start := by
        obtain ⟨a, b, c⟩ := huin
        unfold Tok.length; split <;> omega
      apply todAdjOne_inside n u _ _ huin _ _ t htu
      · intro x hx
        rcases lookupCut_mem u.start adj.adjB with h | h
        · rw [h] at hx; cases hx
        · exact hb _ h x hx
      · intro x hx
        rcases lookupCut_mem (u.start + u.length) adj.adjA with h | h
        · rw [h] at hx; cases hx
        · have := ha _ h x hx
          simp only at this
          have he : n - (u.start + u.length) = n - u.stop := by rw [hlen]; omega
          rw [he] at this
          exact this

/-- `match_relative_unit`. -/
theorem dtpRelativeUnit_inside (n : Int) (rel rest : List Mt) (h1 : ∀ m ∈ rel, m.In n) (h2 : ∀ m ∈ rest, m.In n) :
    ∀ t ∈ dtpRelativeUnit rel rest, t.Inside n := by
  unfold dtpRelativeUnit
  split
  · exact tokensOf_inside n rest h2
  · exact tokensOf_inside n rel h1

/-- `match_date_with_period_prefix` (`late monday`, `early in the day monday`): the token lies inside the text; `L` =
length of the stripped prefix the search ran on. -/
theorem prefixDayOne_inside (n L : Int) (date : Ent) (m : Option Mt) (hd : date.In n) (hL : L ≤ date.start)
    (hm : optP m (fun m => m.In L)) : ∀ t, prefixDayOne date m = some t → t.Inside n := by
  intro t ht
  obtain ⟨d0, d1, d2⟩ := hd
  cases hmm : m with
  | none => simp [prefixDayOne, hmm] at ht
  | some x =>
    obtain ⟨x0, x1, x2⟩ := optP_some hm hmm
    simp only [prefixDayOne, hmm, Option.map_some, Option.some.injEq] at ht
    subst ht
    unfold Tok.Inside; simp only; omega

/-- the token starts at `match.start()` — an offset into `source[0:start].strip()`. With `lead` = the number of leading
blanks that `strip()` removed the matched word sits at `match.start() + lead` in the text: the token starts `lead`
characters too early; it starts AT the word exactly when `lead = 0`. So for `lead = 0` it is clear of everything that
ends at or before the word. -/
theorem prefixDayOne_start (date : Ent) (m : Mt) (lead : Int) (t : Tok) (ht : prefixDayOne date (some m) = some t) :
    t.start = (m.s + lead) - lead ∧ (lead = 0 → ∀ p : Ent, p.start + p.len ≤ m.s + lead → p.start + p.len ≤ t.start) := by
  simp only [prefixDayOne, Option.map_some, Option.some.injEq] at ht
  subst ht
  refine ⟨by simp only; omega, ?_⟩
  intro h p hp
  simp only
  omega

/-- WITNESS, reachable (finding `period-prefix-leading-blank`, C12): en-us `"  tomorrow late in the day monday"`: the
date `monday` `[27, 33)`, the prefix stripped on both sides is `"tomorrow late in the day"`, `late in the day` is
found at `[9, 24)` of it (in the text: `[11, 26)`): the token is `[9, 33)` = `"w late in the day monday"` and cuts into
`tomorrow` `[2, 10)` — two overlapping entities in the recogniser's output. -/
theorem prefixDay_leading_blank_witness :
    dtpPeriodPrefix [(⟨27, 6⟩, some ⟨9, 24⟩)] = [⟨9, 33⟩] ∧ entOverlap ⟨2, 8⟩ ⟨9, 33 - 9⟩ = true := by decide

theorem dwtLoop_inside (n : Int) (uns srt : Array (Ent × Bool))
    (hin : ∀ (i : Nat) (a : Ent × Bool), srt[i]? = some a → a.1.In n)
    (hsorted : ∀ (i j : Nat) (a b : Ent × Bool), i ≤ j → srt[i]? = some a → srt[j]? = some b → a.1.start ≤ b.1.start)
    (fuel i : Nat) (valid : List Bool) (acc : List Tok) (hacc : ∀ t ∈ acc, t.Inside n) :
    ∀ t ∈ dwtLoop uns srt fuel i valid acc, t.Inside n := by
  induction fuel generalizing i valid acc with
  | zero => simpa [dwtLoop] using hacc
  | succ fuel ih =>
    unfold dwtLoop
    split
    · simp only
      split
      · exact hacc
      · split
        · split
          · split
            · exact ih _ _ _ hacc
            · cases valid with
              | nil => exact hacc
              | cons ok rest =>
                simp only
                apply ih
                split
                · split
                  · rename_i p q hp hq
                    intro t ht
                    rw [List.mem_append] at ht
                    rcases ht with ht | ht
                    · exact hacc t ht
                    · simp only [List.mem_singleton] at ht
                      subst ht
                      have hij : i ≤ skipOverlap uns i uns.size (i + 1) := by
                        have := le_skipOverlap uns i uns.size (i + 1); omega
                      have hs := hsorted _ _ p q hij hp hq
                      obtain ⟨p0, p1, p2⟩ := hin _ p hp
                      obtain ⟨q0, q1, q2⟩ := hin _ q hq
                      unfold Tok.Inside; simp only; omega
                  · exact hacc
                · exact hacc
          · exact ih _ _ _ hacc
        · exact hacc
    · exact hacc

theorem dwtWiden_inside (n : Int) (ts : List Tok) (ms : List (Option Mt)) (h : ∀ t ∈ ts, t.Inside n)
    (hm : ∀ m ∈ ms, optP m (fun m => m.In 1)) : ∀ l, dwtWiden n ts ms = some l → ∀ t ∈ l, t.Inside n := by
  induction ts generalizing ms with
  | nil => intro l hl t ht; simp [dwtWiden] at hl; subst hl; cases ht
  | cons t0 rest ih =>
    intro l hl t ht
    cases rest with
    | nil => simp [dwtWiden] at hl; subst hl; simp only [List.mem_singleton] at ht; subst ht; exact h _ (by simp)
    | cons t1 r =>
      unfold dwtWiden at hl
      split at hl
      · cases hl
      · rename_i hstop
        simp only at hl
        cases hr : dwtWiden n (t1 :: r) ms.tail with
        | none => simp [hr] at hl
        | some rr =>
          simp only [hr, Option.some.injEq] at hl
          subst hl
          simp only [List.mem_cons] at ht
          rcases ht with ht | ht
          · subst ht
            obtain ⟨a, b, c⟩ := h t0 (by simp)
            cases hm0 : (ms.head?.getD none) with
            | none => simp only; exact ⟨a, b, c⟩
            | some m =>
              have hmem : (some m) ∈ ms := by
                cases ms with
                | nil => simp at hm0
                | cons x xs => simp only [List.head?_cons, Option.getD_some] at hm0; subst hm0; simp
              obtain ⟨m0, m1, m2⟩ := hm _ hmem
              simp only [Bool.or_eq_true, decide_eq_true_eq, not_or, Int.not_le, Int.not_lt] at hstop
              unfold Tok.Inside; simp only; omega
          · exact ih ms.tail (fun t' ht' => h t' (by simp [ht']))
              (fun m hm' => hm m (List.mem_of_mem_tail hm')) rr hr t ht

/-- `merge_date_with_time_period_suffix` (`today after 2:00pm`): every token lies inside the text — the pairing loop
reads kinds and gaps from the unsorted concatenation and builds the token from the sorted list at the same indices;
the widening pass adds the length of a match in ONE character in front of the text end. -/
theorem dtpDateWithSuffix_inside (n : Int) (dates times : List Ent) (valid : List Bool) (wid : List (Option Mt))
    (hd : ∀ e ∈ dates, e.In n) (ht : ∀ e ∈ times, e.In n) (hw : ∀ m ∈ wid, optP m (fun m => m.In 1)) :
    ∀ l, dtpDateWithSuffix n dates times valid wid = some l → ∀ t ∈ l, t.Inside n := by
  intro l hl
  unfold dtpDateWithSuffix at hl
  split at hl
  · cases hl; intro t h; cases h
  · simp only at hl
    apply dwtWiden_inside n _ wid _ hw l hl
    have hmem : ∀ a, a ∈ sortByStart (fun x : Ent × Bool => x.1.start)
        (dates.map (·, true) ++ times.map (·, false)) → a.1.In n := by
      intro a ha
      rw [mem_sortByStart, List.mem_append, List.mem_map, List.mem_map] at ha
      rcases ha with ⟨e, he, rfl⟩ | ⟨e, he, rfl⟩
      · exact hd e he
      · exact ht e he
    have hpw := sortByStart_sorted (fun x : Ent × Bool => x.1.start) (dates.map (·, true) ++ times.map (·, false))
    apply dwtLoop_inside n
    · intro i a ha
      exact hmem a (List.mem_of_getElem? (by simpa using ha))
    · intro i j a b hij ha hb
      rw [List.getElem?_toArray] at ha hb
      rcases Nat.lt_or_ge i j with hlt | hge
      · have hi : i < (sortByStart (fun x : Ent × Bool => x.1.start) (dates.map (·, true) ++ times.map (·, false))).length := by
          rcases List.getElem?_eq_some_iff.mp ha with ⟨h, _⟩; exact h
        have hj : j < (sortByStart (fun x : Ent × Bool => x.1.start) (dates.map (·, true) ++ times.map (·, false))).length := by
          rcases List.getElem?_eq_some_iff.mp hb with ⟨h, _⟩; exact h
        have := List.pairwise_iff_getElem.mp hpw i j hi hj hlt
        rw [List.getElem?_eq_getElem hi] at ha
        rw [List.getElem?_eq_getElem hj] at hb
        cases ha; cases hb
        exact this
      · have : i = j := by omega
        subst this
        rw [ha] at hb; cases hb; exact Int.le_refl _
    · intro t h; cases h

/-- the widening pass indexes `text[token.end]`: a token (other than the last) that ends the text raises IndexError.
(Monitored: 0 occurrences — a later pair ends later.) -/
theorem dwtWiden_raises : dwtWiden 10 [⟨0, 10⟩, ⟨3, 8⟩] [] = none := by decide

/-! ## BaseSetExtractor -/

/-- `match_each_duration` (`every 3 days`): from the each-prefix found in front of the duration to the duration's end. -/
theorem eachDurationOne_inside (n : Int) (e : Ent) (m : Option Mt) (he : e.In n) (hm : optP m (fun m => m.In e.start)) :
    ∀ t, eachDurationOne e m = some t → t.Inside n := by
  intro t ht
  obtain ⟨e0, e1, e2⟩ := he
  cases hmm : m with
  | none => simp [eachDurationOne, hmm] at ht
  | some x =>
    obtain ⟨x0, x1, x2⟩ := optP_some hm hmm
    simp only [eachDurationOne, hmm, Option.map_some, Option.some.injEq] at ht
    subst ht
    unfold Tok.Inside; simp only; omega

/-- `time_everyday` (`9am every day`, `every day 9am`). -/
theorem timeEverydayOne_inside (n : Int) (e : Ent) (useBefore : Bool) (m : Option Mt) (he : e.In n)
    (hm : optP m (fun m => if useBefore then m.In e.start else m.In (n - (e.start + e.len)))) :
    ∀ t, timeEverydayOne e useBefore m = some t → t.Inside n := by
  intro t ht
  obtain ⟨e0, e1, e2⟩ := he
  cases hmm : m with
  | none => simp [timeEverydayOne, hmm] at ht
  | some x =>
    have hx := optP_some hm hmm
    simp only [timeEverydayOne, hmm, Option.map_some, Option.some.injEq] at ht
    subst ht
    cases useBefore with
    | true =>
      simp only [↓reduceIte] at hx ⊢
      obtain ⟨x0, x1, x2⟩ := hx
      unfold Tok.Inside; simp only; omega
    | false =>
      simp only [Bool.false_eq_true, ↓reduceIte] at hx ⊢
      obtain ⟨x0, x1, x2⟩ := hx
      unfold Tok.Inside; simp only; omega

/-- `match_each`, first loop (`each monday`): the extractor ran on the text with the `each` word cut out (length
`n - len(match)`); a result spanning the cut, extended by the length of the cut, lies inside the text. -/
theorem matchEachCut_inside (n : Int) (m : Mt) (ers : List Ent) (hm : m.In n)
    (he : ∀ e ∈ ers, e.In (n - (m.e - m.s))) : ∀ t ∈ matchEachCut m ers, t.Inside n := by
  obtain ⟨m0, m1, m2⟩ := hm
  unfold matchEachCut
  apply mem_filterMap_tok
  intro e hx t ht
  split at ht
  · cases ht
    obtain ⟨e0, e1, e2⟩ := he e hx
    unfold Tok.Inside; simp only; omega
  · cases ht

/-
Full-strength statement for the second loop, which does not hold without a fact about the regex's shape:
  theorem matchEachWeekday_inside (m.In n) (∀ x ∈ ers, x.1.In (n - len(match) + len(weekday))) : … t.Inside n
-/

/-- `match_each`, second loop (`on mondays`): the extractor ran on the text with the match replaced by its `weekday`
group (length `n - len(match) + wlen`); the result is extended by `1 + len(prefix)`. The guard: the match is at least
prefix + weekday + one more character (the plural `s`) long. -/
theorem matchEachWeekday_inside_partial (n wlen : Int) (m : Mt) (plen : Int) (ers : List (Ent × Bool)) (hm : m.In n)
    (hp : 0 ≤ plen) (hshape : plen + wlen + 1 ≤ m.e - m.s)
    (he : ∀ x ∈ ers, x.1.In (n - (m.e - m.s) + wlen)) : ∀ t ∈ matchEachWeekday m plen ers, t.Inside n := by
  obtain ⟨m0, m1, m2⟩ := hm
  unfold matchEachWeekday
  apply mem_filterMap_tok
  intro x hx t ht
  split at ht
  · cases ht
    obtain ⟨e0, e1, e2⟩ := he x hx
    unfold Tok.Inside; simp only
    split <;> omega
  · cases ht

/-- outside the guard (a `set_week_day_regex` whose match is just the weekday group): the `+ 1` leaves the text.
(Every shipped `SetWeekDayRegex` has the shape prefix? + weekday + plural ending: monitored, 0 occurrences.) -/
theorem matchEachWeekday_overrun :
    matchEachWeekday ⟨0, 6⟩ 0 [(⟨0, 6⟩, true)] = [⟨0, 7⟩] ∧ ¬ (⟨0, 7⟩ : Tok).Inside 6 := by decide

/-! ## BaseHolidayExtractor, `match_each_unit`, `match_periodic` -/

/-- `__holiday_match` (and `match_each_unit` / `match_periodic` of the set extractor): the matches, as they are. -/
theorem holidayMatch_inside (n : Int) (ms : List Mt) (h : ∀ m ∈ ms, m.In n) : ∀ t ∈ holidayMatch ms, t.Inside n :=
  tokensOf_inside n ms h

/-! ## putting an extractor together -/

/-- C01 + C12 for a whole sub-extractor: when every part's tokens lie inside the text, the ExtractResults of
`merge_all_tokens(part₁ + part₂ + …)` lie inside the text, carry the slice at their span and are pairwise disjoint. -/
theorem extractor_results_ok (src : Str) (parts : List (List Tok)) (h : ∀ p ∈ parts, ∀ t ∈ p, t.Inside src.length) :
    let tks := parts.flatten.zipIdx.map fun x => x.1.toTk x.2
    (∀ e ∈ mergeAllTokens src tks, e.start + e.len ≤ src.length ∧ e.text = sl src e.start e.len) ∧
    (mergeAllTokens src tks).Pairwise Disjoint :=
  subextractor_results_ok src parts.flatten (by
    intro t ht
    rw [List.mem_flatten] at ht
    obtain ⟨p, hp, htp⟩ := ht
    exact h p hp t htp)

end RTV.DtExtract2
