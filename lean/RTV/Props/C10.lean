import RTV.Lemmas.WellFormed
import RTV.Gen.DurationMaps
set_option linter.unusedSimpArgs false
/-!
# C10 — durations and explicit ranges are arithmetically self-consistent

`tripleOK` (in `RTV/Model/WellFormed.lean`) is the property's predicate on a resolved range whose TIMEX has the form
`(start,end,duration)` with definite end points; the check evaluates it on every range entity the real model returns.
Theorems: the duration TIMEX the parser writes for `N <unit>` denotes exactly `N` of that unit and its value is
`N × seconds(unit)` for all `N`; `luis_time_span` decomposes a time difference without loss; the triple written for
two calendar dates by `generate_date_period_timex` satisfies `tripleOK` for **all** valid dates `begin ≤ end`.
The regex front end that finds `N <unit>` and the period parsers' plumbing are not modelled (pipeline correspondence).
-/
namespace RTV.WF
open RTV.Cal

theorem getLast_snoc (a : Str) (c : Nat) : (a ++ [c]).getLast? = some c := by simp
theorem dropLast_snoc (a : Str) (c : Nat) : (a ++ [c]).dropLast = a := by simp

/-- C10(a) for every `N` and each of the seven unit codes of `unit_map`, the TIMEX `P[T]N<U>` written by the duration
parser reads back as amount `N` of that unit (`T` exactly for hours, minutes, seconds; months are `PnM`, minutes
`PTnM`). -/
theorem duration_timex_reads_back (n : Nat) :
    parseDuration (durationTimex n [83]) = some ((n, 1), .S) ∧
    parseDuration (durationTimex n [77]) = some ((n, 1), .MIN) ∧
    parseDuration (durationTimex n [72]) = some ((n, 1), .H) ∧
    parseDuration (durationTimex n [68]) = some ((n, 1), .D) ∧
    parseDuration (durationTimex n [87]) = some ((n, 1), .W) ∧
    parseDuration (durationTimex n [77, 79, 78]) = some ((n, 1), .MON) ∧
    parseDuration (durationTimex n [89]) = some ((n, 1), .Y) := by
  have hd : ∀ c ∈ natStr n, c ≠ 84 := by
    intro c hc; have := natStr_digits n c hc; simp [isDigit] at this; omega
  have hne : natStr n ≠ [] := (natDigits_spec (n + 1) n (by omega)).2.1
  obtain ⟨a, t, hs⟩ := List.exists_cons_of_ne_nil hne
  have ha : a ≠ 84 := hd a (by simp [hs])
  have ham := amount_natStr n
  rw [hs] at ham
  have hl : ∀ c, (a :: (t ++ [c])).getLast? = some c := by
    intro c; rw [← List.cons_append, List.getLast?_concat]
  have hdl : ∀ c, (a :: (t ++ [c])).dropLast = a :: t := by
    intro c; rw [← List.cons_append, List.dropLast_concat]
  refine ⟨?_, ?_, ?_, ?_, ?_, ?_, ?_⟩ <;>
    simp only [durationTimex, List.take, List.cons_append, List.nil_append, if_true, if_false,
      true_or, or_true, List.append_assoc, hs] <;>
    simp (config := {decide := true}) [parseDuration, ham, ha, hdl, hl]

/-- C10(b) the value of `N <unit>` is `N × seconds(unit)` and the TIMEX denotes the same length: for the units with a
fixed length the seconds of the parsed TIMEX equal the value. -/
theorem duration_value_matches_timex (n : Nat) (code : Str) (secs : Nat)
    (hc : code = [83] ∨ code = [77] ∨ code = [72] ∨ code = [68] ∨ code = [87]) (hs : codeSeconds code = some secs) :
    ∃ u, parseDuration (durationTimex n code) = some ((n, 1), u) ∧ n * unitSeconds u = n * secs := by
  have h := duration_timex_reads_back n
  rcases hc with hc | hc | hc | hc | hc <;> subst hc <;> simp [codeSeconds] at hs <;> subst hs
  · exact ⟨.S, h.1, rfl⟩
  · exact ⟨.MIN, h.2.1, rfl⟩
  · exact ⟨.H, h.2.2.1, rfl⟩
  · exact ⟨.D, h.2.2.2.1, rfl⟩
  · exact ⟨.W, h.2.2.2.2.1, rfl⟩

/-- C10(c) `luis_time_span` loses nothing: the hours, minutes and seconds it writes sum back to the difference. -/
theorem luis_time_span_inverse (secs : Nat) :
    spanSeconds (secs / 86400 * 24 + secs % 86400 / 3600, secs % 86400 % 3600 / 60, secs % 86400 % 3600 % 60) = secs := by
  simp only [spanSeconds]; omega

/-- the text `generate_date_period_timex(begin, end, DAY)` writes: `(begin,end,P<days>D)` -/
def dayTriple (b e : Date) : Str :=
  [40] ++ formatDate b ++ [44] ++ formatDate e ++ [44] ++ ([80] ++ natStr (e.ord - b.ord) ++ [68]) ++ [41]

/-- C10(d) **between two dates**: for all valid dates `begin ≤ end` the triple `generate_date_period_timex` writes is
self-consistent: its end points are the resolved start / end and end − start equals the duration. -/
theorem between_dates_consistent (b e : Date) (hb : b.valid = true) (he : e.valid = true) (hle : b.ord ≤ e.ord) :
    tripleOK (dayTriple b e) (some (formatDate b)) (some (formatDate e)) = true := by
  have hs : splitOn 44 (formatDate b ++ 44 :: (formatDate e ++ 44 :: ([80] ++ natStr (e.ord - b.ord) ++ [68]))) =
      [formatDate b, formatDate e, [80] ++ natStr (e.ord - b.ord) ++ [68]] := by
    rw [splitOn_append 44 _ _ (formatDate_no_comma b), splitOn_append 44 _ _ (formatDate_no_comma e),
      splitOn_no_sep]
    intro c hc
    simp only [List.cons_append, List.nil_append, List.mem_cons, List.mem_append, List.mem_singleton] at hc
    rcases hc with hc | hc | hc
    all_goals (first | omega | (have := natStr_digits _ c hc; simp [isDigit] at this; omega) | (simp at hc; omega))
  have hdur := (duration_timex_reads_back (e.ord - b.ord)).2.2.2.1
  simp only [durationTimex] at hdur
  have hd' : parseDuration ([80] ++ natStr (e.ord - b.ord) ++ [68]) = some ((e.ord - b.ord, 1), .D) := by
    simpa using hdur
  have hpb : parsePoint (formatDate b) = some (some b, none) := by simp [parsePoint, parseDate_formatDate b hb]
  have hpe : parsePoint (formatDate e) = some (some e, none) := by simp [parsePoint, parseDate_formatDate e he]
  have hshape : dayTriple b e =
      40 :: ((formatDate b ++ 44 :: (formatDate e ++ 44 :: ([80] ++ natStr (e.ord - b.ord) ++ [68]))) ++ [41]) := by
    simp [dayTriple]
  have hdrop : ((dayTriple b e).drop 1).dropLast =
      formatDate b ++ 44 :: (formatDate e ++ 44 :: ([80] ++ natStr (e.ord - b.ord) ++ [68])) := by
    rw [hshape, List.drop_one, List.tail_cons, List.dropLast_concat]
  have hhead : (dayTriple b e).head? = some 40 := by rw [hshape]; rfl
  have hlast : (dayTriple b e).getLast? = some 41 := by
    rw [hshape, ← List.cons_append, List.getLast?_concat]
  -- the duration text starts `P<digit>`, so the `PT…` branch is not taken
  have hne : natStr (e.ord - b.ord) ≠ [] := (natDigits_spec (e.ord - b.ord + 1) (e.ord - b.ord) (by omega)).2.1
  obtain ⟨a, t, hnt⟩ := List.exists_cons_of_ne_nil hne
  have ha : a ≠ 84 := by
    have := natStr_digits (e.ord - b.ord) a (by rw [hnt]; simp)
    simp [isDigit] at this; omega
  have hp : ([80] ++ natStr (e.ord - b.ord) ++ [68] : Str) = 80 :: a :: (t ++ [68]) := by simp [hnt]
  rw [hp] at hs hd' hdrop
  unfold tripleOK
  simp only [hhead, hlast, and_self, if_true, hdrop, hs, hpb, hpe, diffSeconds]
  simp [ha, hd', unitSeconds]
  omega

/-- Table rows known to be inconsistent on the unchanged tree (documented, not observable through `recognize_datetime`:
English lists the spelling `m` with the code of minutes and the length of a month; `3 m` is not extracted at all). -/
def knownInconsistentRows : List (Str × Str) := [([101, 110, 45, 117, 115], [109])]   -- ("en-us", "m")

/-- C10(e) the regenerated duration tables of **every** culture: each spelling's length in seconds is the length of
its unit code (so all spellings of one canonical unit have the same length, and `N <spelling>` is worth
`N × seconds(unit)` together with (a)/(b)). Re-checked by the kernel against the tables the working tree builds. -/
theorem unit_tables_consistent :
    RTV.Gen.durationRows.all (fun r =>
      knownInconsistentRows.contains (r.1, r.2.1) || codeSeconds r.2.2.1 == some r.2.2.2) = true := by
  decide +kernel

/-- the text the time-period parser writes for two clock times: `(THH:MM:SS,THH:MM:SS,PT…)` with the duration from
`luis_time_span` -/
def timeTriple (h₁ m₁ s₁ h₂ m₂ s₂ : Nat) : Str :=
  [40] ++ ([84] ++ formatTime h₁ m₁ s₁) ++ [44] ++ ([84] ++ formatTime h₂ m₂ s₂) ++ [44] ++
    luisTimeSpan ((h₂ * 3600 + m₂ * 60 + s₂) - (h₁ * 3600 + m₁ * 60 + s₁)) ++ [41]

theorem luisTimeSpan_no_comma (secs : Nat) : ∀ c ∈ luisTimeSpan secs, c ≠ 44 := by
  intro c hc
  have hd : ∀ n, ∀ c ∈ natStr n, c ≠ 44 := by
    intro n c hc; have := natStr_digits n c hc; simp [isDigit] at this; omega
  simp only [luisTimeSpan, List.mem_append, List.mem_cons, List.mem_singleton] at hc
  rcases hc with ((hc | hc) | hc) | hc
  · simp at hc; omega
  · split at hc
    · simp only [List.mem_append, List.mem_singleton] at hc; rcases hc with hc | hc
      · exact hd _ c hc
      · omega
    · simp at hc
  · split at hc
    · simp only [List.mem_append, List.mem_singleton] at hc; rcases hc with hc | hc
      · exact hd _ c hc
      · omega
    · simp at hc
  · split at hc
    · simp only [List.mem_append, List.mem_singleton] at hc; rcases hc with hc | hc
      · exact hd _ c hc
      · omega
    · simp at hc

/-- C10(d′) **between two clock times**: for all times of day `t₁ < t₂` the triple written with `luis_time_span` is
self-consistent — end points equal the resolved start / end and the H/M/S duration sums to end − start. -/
theorem between_times_consistent (h₁ m₁ s₁ h₂ m₂ s₂ : Nat)
    (a₁ : h₁ < 24) (b₁ : m₁ < 60) (c₁ : s₁ < 60) (a₂ : h₂ < 24) (b₂ : m₂ < 60) (c₂ : s₂ < 60)
    (hlt : h₁ * 3600 + m₁ * 60 + s₁ < h₂ * 3600 + m₂ * 60 + s₂) :
    tripleOK (timeTriple h₁ m₁ s₁ h₂ m₂ s₂) (some (formatTime h₁ m₁ s₁)) (some (formatTime h₂ m₂ s₂)) = true := by
  generalize hd : (h₂ * 3600 + m₂ * 60 + s₂) - (h₁ * 3600 + m₁ * 60 + s₁) = d
  have hdpos : 0 < d := by omega
  -- shape of the duration text: `P T <rest>` with a non-empty rest
  have hP : luisTimeSpan d = 80 :: 84 :: (luisTimeSpan d).drop 2 := by simp [luisTimeSpan]
  have hrest : (luisTimeSpan d).drop 2 ≠ [] := by
    intro h
    have := ptSeconds_luisTimeSpan d 0
    rw [h] at this
    simp [ptSeconds] at this
    omega
  generalize hR : (luisTimeSpan d).drop 2 = R at hP hrest
  have hpt : ptSeconds (R.length + 4) R = some (d, 1) := by rw [← hR]; exact ptSeconds_luisTimeSpan d _
  have hcP : ∀ c ∈ (80 :: 84 :: R : Str), c ≠ 44 := by rw [← hP]; exact luisTimeSpan_no_comma d
  have hcT : ∀ (h m s : Nat), ∀ c ∈ ([84] ++ formatTime h m s : Str), c ≠ 44 := by
    intro h m s c hc; simp [formatTime, pad2] at hc; omega
  have hs : splitOn 44 (([84] ++ formatTime h₁ m₁ s₁) ++ 44 :: (([84] ++ formatTime h₂ m₂ s₂) ++ 44 :: (80 :: 84 :: R))) =
      [[84] ++ formatTime h₁ m₁ s₁, [84] ++ formatTime h₂ m₂ s₂, 80 :: 84 :: R] := by
    rw [splitOn_append 44 _ _ (hcT _ _ _), splitOn_append 44 _ _ (hcT _ _ _), splitOn_no_sep 44 _ hcP]
  have hpp : ∀ (h m s : Nat), h < 24 → m < 60 → s < 60 →
      parsePoint ([84] ++ formatTime h m s) = some (none, some (h * 3600 + m * 60 + s)) := by
    intro h m s a b c
    have e := parseTime_formatTime h m s a b c
    simp only [formatTime, pad2, List.cons_append, List.nil_append] at e
    simp [parsePoint, parseDate, timexTime, formatTime, pad2, e]
  have hfm : ∀ (h m s : Nat), h < 24 → m < 60 → s < 60 →
      formatTime ((h * 3600 + m * 60 + s) / 3600) ((h * 3600 + m * 60 + s) / 60 % 60) ((h * 3600 + m * 60 + s) % 60) = formatTime h m s := by
    intro h m s a b c
    have e1 : (h * 3600 + m * 60 + s) / 3600 = h := by omega
    have e2 : (h * 3600 + m * 60 + s) / 60 % 60 = m := by omega
    have e3 : (h * 3600 + m * 60 + s) % 60 = s := by omega
    rw [e1, e2, e3]
  have hshape : timeTriple h₁ m₁ s₁ h₂ m₂ s₂ =
      40 :: ((([84] ++ formatTime h₁ m₁ s₁) ++ 44 :: (([84] ++ formatTime h₂ m₂ s₂) ++ 44 :: (80 :: 84 :: R))) ++ [41]) := by
    simp only [timeTriple, hd]; rw [hP]; simp
  have hdrop : ((timeTriple h₁ m₁ s₁ h₂ m₂ s₂).drop 1).dropLast =
      ([84] ++ formatTime h₁ m₁ s₁) ++ 44 :: (([84] ++ formatTime h₂ m₂ s₂) ++ 44 :: (80 :: 84 :: R)) := by
    rw [hshape, List.drop_one, List.tail_cons, List.dropLast_concat]
  have hhead : (timeTriple h₁ m₁ s₁ h₂ m₂ s₂).head? = some 40 := by rw [hshape]; rfl
  have hlast : (timeTriple h₁ m₁ s₁ h₂ m₂ s₂).getLast? = some 41 := by
    rw [hshape, ← List.cons_append, List.getLast?_concat]
  unfold tripleOK
  simp only [hhead, hlast, and_self, if_true, hdrop, hs, hpp h₁ m₁ s₁ a₁ b₁ c₁, hpp h₂ m₂ s₂ a₂ b₂ c₂, diffSeconds, hpt]
  simp [hfm h₁ m₁ s₁ a₁ b₁ c₁, hfm h₂ m₂ s₂ a₂ b₂ c₂, hrest]
  omega

/-- Examples the predicate accepts / rejects (as the implementation writes them). -/
example : tripleOK ("(2019-01-01,2019-01-15,P14D)".toList.map Char.toNat) (some ("2019-01-01".toList.map Char.toNat))
    (some ("2019-01-15".toList.map Char.toNat)) = true := by decide
example : tripleOK ("(2016-11-07,2016-11-30,P24D)".toList.map Char.toNat) (some ("2016-11-07".toList.map Char.toNat))
    (some ("2016-11-30".toList.map Char.toNat)) = false := by decide
example : tripleOK ("(T17:00,T03:00,PT10H)".toList.map Char.toNat) (some ("17:00:00".toList.map Char.toNat))
    (some ("03:00:00".toList.map Char.toNat)) = true := by decide
example : tripleOK ("(2019-08-01,2016-11-07,P98D)".toList.map Char.toNat) (some ("2019-08-01".toList.map Char.toNat))
    (some ("2019-11-07".toList.map Char.toNat)) = false := by decide

end RTV.WF
